package main

// Unit GenConfig.v: validateConfig as a Gallina function, and the fact that the
// constructor validates before it touches the provider (property C16).

import (
	"fmt"
	"go/ast"
	"go/token"
	"strconv"
	"strings"
)

// Go field -> (expected Go type, Gallina type). The record itself (Config.cfg) is
// hand-written because the model uses it; the translator checks that the Go
// struct still has these fields with these types.
var cfgFields = []struct{ name, gotype, coq string }{
	{"Bucket", "string", "string"},
	{"Group", "string", "string"},
	{"InstanceID", "string", "string"},
	{"TTL", "time.Duration", "Z"},
	{"HeartbeatInterval", "time.Duration", "Z"},
	{"ValidationInterval", "time.Duration", "Z"},
	{"DisconnectGracePeriod", "time.Duration", "Z"},
	{"MaxConsecutiveFailures", "int", "Z"},
	{"Priority", "int", "Z"},
	{"AllowPriorityTakeover", "bool", "bool"},
}

func checkCfgStruct(p *pkgInfo) {
	st, ok := p.structs["ElectionConfig"]
	if !ok {
		panic("struct ElectionConfig not found")
	}
	for _, f := range cfgFields {
		if st[f.name] != f.gotype {
			panic(fmt.Sprintf("ElectionConfig.%s has type %q, expected %q", f.name, st[f.name], f.gotype))
		}
	}
}

type cfgDialect struct {
	param string // name of the config parameter
}

func (d *cfgDialect) expr(c *compiler, e ast.Expr) (string, bool) {
	if s, ok := e.(*ast.SelectorExpr); ok {
		if x, ok := s.X.(*ast.Ident); ok && x.Name == d.param {
			for _, f := range cfgFields {
				if f.name == s.Sel.Name {
					return "(c_" + f.name + " " + d.param + ")", true
				}
			}
			c.fail(e, "configuration field %s is not part of the model's cfg record", s.Sel.Name)
		}
	}
	return "", false
}

func (d *cfgDialect) ret(c *compiler, results []ast.Expr) string {
	if len(results) != 1 {
		c.fail(results[0], "unexpected return arity")
	}
	switch r := results[0].(type) {
	case *ast.Ident:
		if r.Name == "nil" {
			return "None"
		}
	case *ast.CallExpr:
		if callName(r) == "NewValidationError" && len(r.Args) >= 1 {
			if lit, ok := r.Args[0].(*ast.BasicLit); ok && lit.Kind == token.STRING {
				s, _ := strconv.Unquote(lit.Value)
				return "(Some " + coqString(s) + ")"
			}
		}
	}
	c.fail(results[0], "unsupported return value in validateConfig (expected nil or NewValidationError(\"Field\", ...))")
	return ""
}

func (d *cfgDialect) ifInit(c *compiler, s *ast.IfStmt) (string, bool) { return "", false }

func genConfig(p *pkgInfo) string {
	checkCfgStruct(p)
	fn := p.fn("validateConfig")
	if len(fn.Type.Params.List) != 1 || len(fn.Type.Params.List[0].Names) != 1 ||
		exprText(fn.Type.Params.List[0].Type) != "ElectionConfig" {
		panic("validateConfig: unexpected signature")
	}
	param := fn.Type.Params.List[0].Names[0].Name
	c := &compiler{fset: p.fset, d: &cfgDialect{param: param}, types: map[string]string{}, funcs: p.funcs, pkgConsts: p.consts, pkgVars: p.vars}
	for _, f := range cfgFields {
		c.types[param+"."+f.name] = f.coq
	}
	// locals: infer from initialiser while compiling; pre-scan := statements
	ast.Inspect(fn.Body, func(n ast.Node) bool {
		if a, ok := n.(*ast.AssignStmt); ok && a.Tok == token.DEFINE && len(a.Lhs) == 1 {
			if id, ok := a.Lhs[0].(*ast.Ident); ok {
				if t := c.typeOf(a.Rhs[0]); t != "" {
					c.types[id.Name] = t
				}
			}
		}
		return true
	})
	body := c.stmts(fn.Body.List)
	if body == "" {
		panic("validateConfig: body falls off the end")
	}
	var b strings.Builder
	b.WriteString("From Coq Require Import ZArith String List Bool.\nFrom LE Require Import Base Config.\nOpen Scope Z_scope.\n\n")
	b.WriteString("(* " + p.pos(fn) + " *)\n")
	b.WriteString("Definition validate_config (" + param + " : econfig) : option string :=\n  " + body + ".\n\n")

	// Constructor fact: first statement of newKVElection is the validation, and
	// NewElection is a direct call of newKVElection.
	b.WriteString("(* " + p.pos(p.fn("newKVElection")) + " : does the constructor validate before anything else? *)\n")
	b.WriteString("Definition ctor_validates_first : bool := " + boolStr(ctorValidatesFirst(p)) + ".\n")
	return b.String()
}

func boolStr(b bool) string {
	if b {
		return "true"
	}
	return "false"
}

func ctorValidatesFirst(p *pkgInfo) bool {
	fn := p.fn("newKVElection")
	if len(fn.Body.List) == 0 {
		return false
	}
	ifs, ok := fn.Body.List[0].(*ast.IfStmt)
	if !ok || ifs.Init == nil {
		return false
	}
	as, ok := ifs.Init.(*ast.AssignStmt)
	if !ok || len(as.Rhs) != 1 {
		return false
	}
	call, ok := as.Rhs[0].(*ast.CallExpr)
	if !ok || callName(call) != "validateConfig" || len(call.Args) != 1 {
		return false
	}
	// the argument must be the constructor's own cfg parameter
	if id, ok := call.Args[0].(*ast.Ident); !ok || id.Name != "cfg" {
		return false
	}
	// body must return the error
	if len(ifs.Body.List) != 1 {
		return false
	}
	ret, ok := ifs.Body.List[0].(*ast.ReturnStmt)
	if !ok || len(ret.Results) != 2 {
		return false
	}
	if id, ok := ret.Results[0].(*ast.Ident); !ok || id.Name != "nil" {
		return false
	}
	if id, ok := ret.Results[1].(*ast.Ident); !ok || id.Name != "err" {
		return false
	}
	// NewElection -> newKVElection(nc, cfg) directly
	ne := p.fn("NewElection")
	if len(ne.Body.List) != 1 {
		return false
	}
	r, ok := ne.Body.List[0].(*ast.ReturnStmt)
	if !ok || len(r.Results) != 1 {
		return false
	}
	c2, ok := r.Results[0].(*ast.CallExpr)
	if !ok || callName(c2) != "newKVElection" || len(c2.Args) != 2 {
		return false
	}
	if id, ok := c2.Args[1].(*ast.Ident); !ok || id.Name != "cfg" {
		return false
	}
	return true
}

func init() { register("GenConfig.v", genConfig) }
