package main

// GenTermCtx.v: what the library does to the context it hands to the promotion callback, path by path.
//
// Every method of kvElection (and the constructor) is executed symbolically, statement by statement; each exclusive
// section of kvElection.mu (Lock ... Unlock, or Lock; defer Unlock ... return) yields one path per way through it, as
// the list of operations on the leadership claim and on the two contexts:
//
//   TAssumeLeader b   the path lies behind a test of e.isLeader.Load() that came out b
//   TAssumeRunDead    behind `if e.ctx != nil && e.ctx.Err() == nil { return ... }` (continuing side)
//   TAssumeTerm b     behind a test of e.termCancel against nil that came out "is set" = b
//   TSetLeader b      e.isLeader.Store(b)
//   TCancelTerm       if e.termCancel != nil { e.termCancel() }
//   TClearTerm        e.termCancel = nil
//   TNewTerm          c, cancel := context.WithCancel(e.ctx); e.termCancel = cancel
//   TCancelRun        e.cancel() (with or without the nil test)
//   TNewRun           e.ctx, e.cancel = context.WithCancel(...)
//   TClearRun         e.ctx = nil
//   TUnlocked         the next operation is made without kvElection.mu held exclusively
//   TUnknown          a statement that touches these fields in a shape the translator does not know
//
// promote_ctx_is_term_child: the first argument of the onPromote call is derived (context.WithCancel) from the context
// whose cancel function is stored in e.termCancel.

import (
	"fmt"
	"go/ast"
	"go/token"
	"sort"
	"strings"
)

type tcState struct {
	locked, deferred bool
	ret              bool // the path has executed a return statement (of the function, or of a helper being inlined)
	ops              []string
	pos              string
	termCancels      map[string]bool // idents bound to the cancel func of WithCancel(e.ctx)
}

func (s tcState) clone() tcState {
	c := s
	c.ops = append([]string(nil), s.ops...)
	c.termCancels = map[string]bool{}
	for k, v := range s.termCancels {
		c.termCancels[k] = v
	}
	return c
}

type tcExec struct {
	p     *pkgInfo
	fn    string
	recv  string
	paths []tcPath
	depth int // helpers of kvElection that touch the claim or the contexts are inlined (up to 3 deep)
}

type tcPath struct {
	fn, pos string
	ops     []string
}

func (ex *tcExec) op(st *tcState, o string, n ast.Node) {
	if !st.locked {
		st.ops = append(st.ops, "TUnlocked")
	}
	if st.pos == "" {
		st.pos = ex.p.pos(n)
	}
	st.ops = append(st.ops, o)
}

func (ex *tcExec) emit(st *tcState) {
	if len(st.ops) > 0 {
		ex.paths = append(ex.paths, tcPath{ex.fn, st.pos, append([]string(nil), st.ops...)})
	}
	st.ops = nil
	st.pos = ""
}

// sel reports whether e is <recv>.<field>
func (ex *tcExec) sel(e ast.Expr, field string) bool {
	s, ok := e.(*ast.SelectorExpr)
	if !ok || s.Sel.Name != field {
		return false
	}
	id, ok := s.X.(*ast.Ident)
	return ok && id.Name == ex.recv
}

// callOn: e is <recv>.<field>.<method>(...)
func (ex *tcExec) callOn(e ast.Expr, field, method string) (*ast.CallExpr, bool) {
	c, ok := e.(*ast.CallExpr)
	if !ok {
		return nil, false
	}
	s, ok := c.Fun.(*ast.SelectorExpr)
	if !ok || s.Sel.Name != method {
		return nil, false
	}
	return c, ex.sel(s.X, field)
}

// callField: e is <recv>.<field>(...)
func (ex *tcExec) callField(e ast.Expr, field string) bool {
	c, ok := e.(*ast.CallExpr)
	return ok && ex.sel(c.Fun, field)
}

func isNilTest(e ast.Expr, isField func(ast.Expr) bool) bool {
	b, ok := e.(*ast.BinaryExpr)
	if !ok || b.Op != token.NEQ {
		return false
	}
	id, ok := b.Y.(*ast.Ident)
	return ok && id.Name == "nil" && isField(b.X)
}

// withCancelOf: rhs is context.WithCancel(<arg>) and arg satisfies pred
func withCancelOf(rhs ast.Expr, pred func(ast.Expr) bool) bool {
	c, ok := rhs.(*ast.CallExpr)
	if !ok || len(c.Args) != 1 {
		return false
	}
	s, ok := c.Fun.(*ast.SelectorExpr)
	if !ok || s.Sel.Name != "WithCancel" {
		return false
	}
	id, ok := s.X.(*ast.Ident)
	return ok && id.Name == "context" && pred(c.Args[0])
}

// interesting: the node touches the claim, the contexts, the lock, or leaves the function
func (ex *tcExec) interesting(n ast.Node, withControl bool) bool {
	found := false
	ast.Inspect(n, func(x ast.Node) bool {
		if found {
			return false
		}
		switch x := x.(type) {
		case *ast.FuncLit:
			// a goroutine / callback body: looked at separately
			if ex.interesting(x.Body, false) {
				found = true
			}
			return false
		case *ast.ReturnStmt:
			if withControl {
				found = true
			}
		case *ast.BranchStmt:
			if withControl {
				found = true
			}
		case *ast.CallExpr:
			if ex.helperCall(x) != nil {
				found = true
			}
			if _, ok := ex.callOn(x, "isLeader", "Store"); ok {
				found = true
			}
			if ex.callField(x, "termCancel") || ex.callField(x, "cancel") {
				found = true
			}
			if withControl {
				for _, m := range []string{"Lock", "Unlock"} {
					if _, ok := ex.callOn(x, "mu", m); ok {
						found = true
					}
				}
			}
		case *ast.AssignStmt:
			for _, l := range x.Lhs {
				if ex.sel(l, "termCancel") || ex.sel(l, "ctx") || ex.sel(l, "cancel") {
					found = true
				}
			}
		}
		return !found
	})
	return found
}

func (ex *tcExec) lockOps(n ast.Node) bool {
	found := false
	inPlace := map[*ast.FuncLit]bool{}
	ast.Inspect(n, func(x ast.Node) bool {
		if es, ok := x.(*ast.ExprStmt); ok {
			if c, ok := es.X.(*ast.CallExpr); ok {
				if fl, ok := c.Fun.(*ast.FuncLit); ok {
					inPlace[fl] = true // a closure called in place (not `go`, not `defer`) runs as part of the function
				}
			}
		}
		if fl, ok := x.(*ast.FuncLit); ok && !inPlace[fl] {
			return false
		}
		if c, ok := x.(*ast.CallExpr); ok {
			for _, m := range []string{"Lock", "Unlock"} {
				if _, ok := ex.callOn(c, "mu", m); ok {
					found = true
				}
			}
		}
		return !found
	})
	return found
}

func (ex *tcExec) walk(list []ast.Stmt, st tcState) []tcState {
	cur := []tcState{st}
	for _, s := range list {
		var next []tcState
		for _, c := range cur {
			if c.ret {
				next = append(next, c)
				continue
			}
			next = append(next, ex.stmt(s, c)...)
		}
		cur = next
		if len(cur) == 0 {
			break
		}
		if len(cur) > 64 {
			// too many ways through: give up on this function
			for i := range cur {
				cur[i].ops = append(cur[i].ops, "TUnknown")
			}
			cur = cur[:1]
		}
	}
	return cur
}

func (ex *tcExec) stmt(s ast.Stmt, st tcState) []tcState {
	switch s := s.(type) {
	case *ast.ExprStmt:
		if _, ok := ex.callOn(s.X, "mu", "Lock"); ok {
			ex.emit(&st) // whatever was done outside a section stands alone
			st.locked = true
			return []tcState{st}
		}
		if _, ok := ex.callOn(s.X, "mu", "Unlock"); ok {
			ex.emit(&st)
			st.locked, st.deferred = false, false
			return []tcState{st}
		}
		if c, ok := ex.callOn(s.X, "isLeader", "Store"); ok && len(c.Args) == 1 {
			if id, ok := c.Args[0].(*ast.Ident); ok && (id.Name == "true" || id.Name == "false") {
				ex.op(&st, "TSetLeader "+id.Name, s)
			} else {
				ex.op(&st, "TUnknown", s)
			}
			return []tcState{st}
		}
		if ex.callField(s.X, "cancel") {
			ex.op(&st, "TCancelRun", s)
			return []tcState{st}
		}
		if ex.callField(s.X, "termCancel") {
			ex.op(&st, "TCancelTerm", s) // unguarded call: same effect when the field is set
			return []tcState{st}
		}
		if out, ok := ex.inline(s.X, st); ok {
			return out
		}
		// func() { ... }(): a closure called in place is part of the function; a lock it takes with a deferred unlock is
		// released when it returns
		if c, ok := s.X.(*ast.CallExpr); ok && len(c.Args) == 0 {
			if fl, ok := c.Fun.(*ast.FuncLit); ok {
				deferred0 := st.deferred
				out := ex.walk(fl.Body.List, st.clone())
				for i := range out {
					out[i].ret = false
					if out[i].deferred && !deferred0 {
						ex.emit(&out[i])
						out[i].locked, out[i].deferred = false, false
					}
				}
				return out
			}
		}
		if ex.interesting(s, false) {
			ex.op(&st, "TUnknown", s)
		}
		return []tcState{st}
	case *ast.DeferStmt:
		if _, ok := ex.callOn(s.Call, "mu", "Unlock"); ok {
			st.deferred = true
			return []tcState{st}
		}
		if ex.interesting(s, false) {
			ex.op(&st, "TUnknown", s)
		}
		return []tcState{st}
	case *ast.GoStmt:
		if ex.interesting(s, false) {
			ex.op(&st, "TUnknown", s)
		}
		return []tcState{st}
	case *ast.AssignStmt:
		// e.ctx, e.cancel = context.WithCancel(...)
		if len(s.Lhs) == 2 && len(s.Rhs) == 1 && ex.sel(s.Lhs[0], "ctx") && ex.sel(s.Lhs[1], "cancel") &&
			withCancelOf(s.Rhs[0], func(ast.Expr) bool { return true }) {
			ex.op(&st, "TNewRun", s)
			return []tcState{st}
		}
		// termCtx, termCancel := context.WithCancel(e.ctx)
		if len(s.Lhs) == 2 && len(s.Rhs) == 1 && withCancelOf(s.Rhs[0], func(a ast.Expr) bool { return ex.sel(a, "ctx") }) {
			if id, ok := s.Lhs[1].(*ast.Ident); ok {
				st.termCancels[id.Name] = true
				return []tcState{st}
			}
		}
		if len(s.Lhs) == 1 && len(s.Rhs) == 1 {
			switch {
			case ex.sel(s.Lhs[0], "termCancel"):
				if id, ok := s.Rhs[0].(*ast.Ident); ok && id.Name == "nil" {
					ex.op(&st, "TClearTerm", s)
				} else if ok && st.termCancels[id.Name] {
					ex.op(&st, "TNewTerm", s)
				} else {
					ex.op(&st, "TUnknown", s)
				}
				return []tcState{st}
			case ex.sel(s.Lhs[0], "ctx"):
				if id, ok := s.Rhs[0].(*ast.Ident); ok && id.Name == "nil" {
					ex.op(&st, "TClearRun", s)
				} else {
					ex.op(&st, "TUnknown", s)
				}
				return []tcState{st}
			}
		}
		if len(s.Rhs) == 1 {
			if out, ok := ex.inline(s.Rhs[0], st); ok {
				return out
			}
		}
		if ex.interesting(s, false) {
			ex.op(&st, "TUnknown", s)
		}
		return []tcState{st}
	case *ast.ReturnStmt:
		st.ret = true
		return []tcState{st}
	case *ast.BlockStmt:
		return ex.walk(s.List, st)
	case *ast.IfStmt:
		return ex.ifStmt(s, st)
	case *ast.LabeledStmt:
		return ex.stmt(s.Stmt, st)
	case *ast.SwitchStmt:
		// switch { case a, b: ...; case c: ...; default: ... } is an if / else-if chain over the disjunctions of the cases
		if s.Tag == nil && s.Init == nil {
			if chain := switchToIf(s); chain != nil {
				return ex.stmt(chain, st)
			}
		}
		if ex.interesting(s, false) || ex.lockOps(s) {
			ex.op(&st, "TUnknown", s)
		} else if ex.interesting(s, true) {
			c := st.clone()
			c.ret = true
			return []tcState{c, st}
		}
		return []tcState{st}
	default:
		// loops, switches, selects: not executed symbolically. One that only leaves the function (a return in a
		// select case) ends a copy of the path there; anything else that matters is not understood
		if ex.interesting(s, false) || ex.lockOps(s) {
			ex.op(&st, "TUnknown", s)
		} else if ex.interesting(s, true) {
			c := st.clone()
			c.ret = true
			return []tcState{c, st}
		}
		return []tcState{st}
	}
}

// inline: a call <recv>.<helper>(...) of a kvElection method that touches the claim or the contexts, made while the lock
// is held, is executed in place (its returns end the helper, not the path). Helpers that lock for themselves are their own
// sections and are not inlined.
// helperCall: c is <recv>.<M>(...) for a method M of kvElection that does not lock kvElection.mu itself and whose body
// touches the claim or the contexts (directly or through further helpers, three deep at most); returns M's declaration.
func (ex *tcExec) helperCall(c *ast.CallExpr) *ast.FuncDecl {
	sel, ok := c.Fun.(*ast.SelectorExpr)
	if !ok {
		return nil
	}
	id, ok := sel.X.(*ast.Ident)
	if !ok || id.Name != ex.recv {
		return nil
	}
	fd, ok := ex.p.funcs["kvElection."+sel.Sel.Name]
	if !ok || fd.Body == nil || ex.depth >= 3 {
		return nil
	}
	h := &tcExec{p: ex.p, fn: ex.fn, recv: recvOf(fd), depth: ex.depth + 1}
	if h.lockOps(fd.Body) || !h.interesting(fd.Body, false) {
		return nil
	}
	return fd
}

func recvOf(fd *ast.FuncDecl) string {
	if fd.Recv != nil && len(fd.Recv.List) == 1 && len(fd.Recv.List[0].Names) == 1 {
		return fd.Recv.List[0].Names[0].Name
	}
	return "e"
}

func (ex *tcExec) inline(e ast.Expr, st tcState) ([]tcState, bool) {
	c, ok := e.(*ast.CallExpr)
	if !ok {
		return nil, false
	}
	fd := ex.helperCall(c)
	if fd == nil {
		return nil, false
	}
	for _, a := range c.Args {
		if ex.interesting(a, false) {
			return nil, false
		}
	}
	h := &tcExec{p: ex.p, fn: ex.fn, recv: recvOf(fd), depth: ex.depth + 1}
	out := h.walk(fd.Body.List, st.clone())
	ex.paths = append(ex.paths, h.paths...)
	for i := range out {
		out[i].ret = false
	}
	return out, true
}

// switchToIf rewrites a tagless switch without fallthrough into the equivalent if / else-if chain.
func switchToIf(s *ast.SwitchStmt) ast.Stmt {
	var clauses []*ast.CaseClause
	var def *ast.CaseClause
	for _, c := range s.Body.List {
		cc := c.(*ast.CaseClause)
		for _, b := range cc.Body {
			if br, ok := b.(*ast.BranchStmt); ok && br.Tok == token.FALLTHROUGH {
				return nil
			}
		}
		if cc.List == nil {
			def = cc
		} else {
			clauses = append(clauses, cc)
		}
	}
	var tail ast.Stmt
	if def != nil {
		tail = &ast.BlockStmt{List: def.Body}
	}
	for i := len(clauses) - 1; i >= 0; i-- {
		cc := clauses[i]
		cond := cc.List[0]
		for _, x := range cc.List[1:] {
			cond = &ast.BinaryExpr{X: cond, Op: token.LOR, Y: x}
		}
		tail = &ast.IfStmt{If: cc.Pos(), Cond: cond, Body: &ast.BlockStmt{List: cc.Body}, Else: tail}
	}
	if tail == nil {
		return &ast.BlockStmt{}
	}
	return tail
}

// disjuncts lists the operands of a || b || c.
func disjuncts(e ast.Expr) []ast.Expr {
	if p, ok := e.(*ast.ParenExpr); ok {
		return disjuncts(p.X)
	}
	if b, ok := e.(*ast.BinaryExpr); ok && b.Op == token.LOR {
		return append(disjuncts(b.X), disjuncts(b.Y)...)
	}
	return []ast.Expr{e}
}

func endsInReturn(b *ast.BlockStmt) bool {
	if len(b.List) == 0 {
		return false
	}
	_, ok := b.List[len(b.List)-1].(*ast.ReturnStmt)
	return ok
}

func (ex *tcExec) ifStmt(s *ast.IfStmt, st tcState) []tcState {
	if s.Init != nil {
		if ex.interesting(s.Init, true) {
			ex.op(&st, "TUnknown", s)
		}
	}
	// if e.termCancel != nil { e.termCancel(); [e.termCancel = nil] }
	if s.Else == nil && isNilTest(s.Cond, func(x ast.Expr) bool { return ex.sel(x, "termCancel") }) {
		ok := len(s.Body.List) >= 1 && len(s.Body.List) <= 2
		if ok {
			es, isE := s.Body.List[0].(*ast.ExprStmt)
			ok = isE && ex.callField(es.X, "termCancel")
		}
		clear := false
		if ok && len(s.Body.List) == 2 {
			as, isA := s.Body.List[1].(*ast.AssignStmt)
			ok = isA && len(as.Lhs) == 1 && len(as.Rhs) == 1 && ex.sel(as.Lhs[0], "termCancel")
			if ok {
				id, isId := as.Rhs[0].(*ast.Ident)
				ok = isId && id.Name == "nil"
				clear = ok
			}
		}
		if ok {
			ex.op(&st, "TCancelTerm", s)
			if clear {
				ex.op(&st, "TClearTerm", s)
			}
			return []tcState{st}
		}
	}
	if ex.interesting(s.Cond, false) {
		ex.op(&st, "TUnknown", s)
	}
	// any other test of e.termCancel against nil: the two sides know whether a term context is stored
	if b, ok := s.Cond.(*ast.BinaryExpr); ok && (b.Op == token.NEQ || b.Op == token.EQL) && ex.sel(b.X, "termCancel") && st.locked {
		if id, ok := b.Y.(*ast.Ident); ok && id.Name == "nil" {
			yes, no := "TAssumeTerm true", "TAssumeTerm false"
			if b.Op == token.EQL {
				yes, no = no, yes
			}
			a := st.clone()
			ex.op(&a, yes, s)
			out := ex.walk(s.Body.List, a)
			c := st.clone()
			ex.op(&c, no, s)
			if s.Else != nil {
				out = append(out, ex.stmt(s.Else, c)...)
			} else {
				out = append(out, c)
			}
			return out
		}
	}
	// if e.cancel != nil { e.cancel() }
	if s.Else == nil && isNilTest(s.Cond, func(x ast.Expr) bool { return ex.sel(x, "cancel") }) && len(s.Body.List) == 1 {
		if es, ok := s.Body.List[0].(*ast.ExprStmt); ok && ex.callField(es.X, "cancel") {
			ex.op(&st, "TCancelRun", s)
			return []tcState{st}
		}
	}
	// if e.isLeader.Load() { ... }
	if _, ok := ex.callOn(s.Cond, "isLeader", "Load"); ok && st.locked {
		a := st.clone()
		ex.op(&a, "TAssumeLeader true", s)
		out := ex.walk(s.Body.List, a)
		b := st.clone()
		ex.op(&b, "TAssumeLeader false", s)
		if s.Else != nil {
			out = append(out, ex.stmt(s.Else, b)...)
		} else {
			out = append(out, b)
		}
		return out
	}
	// if A || e.isLeader.Load() || B { ...; return }: whoever gets past it does not lead (nothing is known on the other side)
	if ds := disjuncts(s.Cond); len(ds) > 1 && s.Else == nil && endsInReturn(s.Body) && st.locked {
		for _, dj := range ds {
			if _, ok := ex.callOn(dj, "isLeader", "Load"); ok {
				a := st.clone()
				out := ex.walk(s.Body.List, a)
				b := st.clone()
				ex.op(&b, "TAssumeLeader false", s)
				return append(out, b)
			}
		}
	}
	// if e.ctx != nil && e.ctx.Err() == nil { return ... }
	if s.Else == nil && endsInReturn(s.Body) && st.locked && !ex.interesting(s.Body, false) {
		if b, ok := s.Cond.(*ast.BinaryExpr); ok && b.Op == token.LAND &&
			isNilTest(b.X, func(x ast.Expr) bool { return ex.sel(x, "ctx") }) {
			if r, ok := b.Y.(*ast.BinaryExpr); ok && r.Op == token.EQL {
				if c, ok := ex.callOn(r.X, "ctx", "Err"); ok && c != nil {
					if id, ok := r.Y.(*ast.Ident); ok && id.Name == "nil" {
						a := st.clone()
						a.ret = true // the returning side: no operation, ends the path
						ex.op(&st, "TAssumeRunDead", s)
						return []tcState{a, st}
					}
				}
			}
		}
	}
	if !ex.interesting(s, true) {
		return []tcState{st}
	}
	out := ex.walk(s.Body.List, st.clone())
	switch e := s.Else.(type) {
	case nil:
		out = append(out, st)
	case *ast.BlockStmt:
		out = append(out, ex.walk(e.List, st.clone())...)
	case *ast.IfStmt:
		out = append(out, ex.ifStmt(e, st.clone())...)
	}
	return out
}

// promoteCtxFromTerm: in becomeLeader, onPromote(X, ...) with X, _ := context.WithCancel(T), T, C := context.WithCancel(e.ctx), e.termCancel = C
func promoteCtxFromTerm(p *pkgInfo) bool {
	fd, ok := p.funcs["kvElection.becomeLeader"]
	if !ok || fd.Body == nil {
		return false
	}
	recv := "e"
	if fd.Recv != nil && len(fd.Recv.List) == 1 && len(fd.Recv.List[0].Names) == 1 {
		recv = fd.Recv.List[0].Names[0].Name
	}
	ex := &tcExec{p: p, recv: recv}
	termCtx := map[string]string{} // ctx ident -> cancel ident, from WithCancel(e.ctx)
	child := map[string]string{}   // ctx ident -> parent ident
	stored := map[string]bool{}    // cancel idents stored in e.termCancel
	var promoteArg string
	calls := 0
	ast.Inspect(fd.Body, func(n ast.Node) bool {
		switch n := n.(type) {
		case *ast.AssignStmt:
			if len(n.Lhs) == 2 && len(n.Rhs) == 1 {
				l0, ok0 := n.Lhs[0].(*ast.Ident)
				l1, ok1 := n.Lhs[1].(*ast.Ident)
				if ok0 && ok1 {
					if withCancelOf(n.Rhs[0], func(a ast.Expr) bool { return ex.sel(a, "ctx") }) {
						termCtx[l0.Name] = l1.Name
					} else if c, ok := n.Rhs[0].(*ast.CallExpr); ok && len(c.Args) == 1 {
						if withCancelOf(n.Rhs[0], func(ast.Expr) bool { return true }) {
							if pid, ok := c.Args[0].(*ast.Ident); ok {
								child[l0.Name] = pid.Name
							}
						}
					}
				}
			}
			if len(n.Lhs) == 1 && len(n.Rhs) == 1 && ex.sel(n.Lhs[0], "termCancel") {
				if id, ok := n.Rhs[0].(*ast.Ident); ok {
					stored[id.Name] = true
				}
			}
		case *ast.CallExpr:
			if id, ok := n.Fun.(*ast.Ident); ok && id.Name == "onPromote" && len(n.Args) >= 1 {
				calls++
				if a, ok := n.Args[0].(*ast.Ident); ok {
					promoteArg = a.Name
				}
			}
		}
		return true
	})
	if calls != 1 || promoteArg == "" {
		return false
	}
	parent, ok := child[promoteArg]
	if !ok {
		parent = promoteArg // handed out directly
	}
	cancel, ok := termCtx[parent]
	return ok && stored[cancel]
}

func genTermCtx(p *pkgInfo) string {
	var names []string
	for n := range p.funcs {
		if strings.HasPrefix(n, "kvElection.") || n == "newKVElection" {
			names = append(names, n)
		}
	}
	sort.Strings(names)
	_, entryMust, _ := analyseLocks(p)
	var all []tcPath
	for _, n := range names {
		fd := p.funcs[n]
		if fd.Body == nil {
			continue
		}
		recv := "e"
		if fd.Recv != nil && len(fd.Recv.List) == 1 && len(fd.Recv.List[0].Names) == 1 {
			recv = fd.Recv.List[0].Names[0].Name
		}
		ex := &tcExec{p: p, fn: n, recv: recv}
		if !ex.interesting(fd.Body, false) {
			continue
		}
		if !ex.lockOps(fd.Body) && entryMust(n)["kvElection.mu"] == "W" {
			// a helper that is only ever called with the lock held exclusively: part of its callers' sections (inlined there;
			// a call that cannot be inlined makes the caller's path TUnknown)
			continue
		}
		st := tcState{termCancels: map[string]bool{}}
		if n == "newKVElection" {
			st.locked = true // the object is not shared yet
		}
		for _, end := range ex.walk(fd.Body.List, st) {
			e := end
			ex.emit(&e)
		}
		// goroutine and callback bodies inside the function must not touch the claim or the contexts
		inPlace := map[*ast.FuncLit]bool{}
		ast.Inspect(fd.Body, func(x ast.Node) bool {
			if es, ok := x.(*ast.ExprStmt); ok {
				if c, ok := es.X.(*ast.CallExpr); ok && len(c.Args) == 0 {
					if fl, ok := c.Fun.(*ast.FuncLit); ok {
						inPlace[fl] = true // executed as part of the function (see stmt)
					}
				}
			}
			return true
		})
		ast.Inspect(fd.Body, func(x ast.Node) bool {
			if fl, ok := x.(*ast.FuncLit); ok {
				if inPlace[fl] {
					return true
				}
				if ex.interesting(fl.Body, false) {
					ex.paths = append(ex.paths, tcPath{n, p.pos(fl), []string{"TUnknown"}})
				}
				return false
			}
			return true
		})
		all = append(all, ex.paths...)
	}
	// identical paths of one function are listed once
	seen := map[string]bool{}
	var b strings.Builder
	b.WriteString("From LE Require Import Base TermCtx.\nOpen Scope string_scope.\n\n")
	b.WriteString("Definition term_paths : list tpath :=\n  [")
	first := true
	for _, pth := range all {
		key := pth.fn + "|" + strings.Join(pth.ops, ";")
		if seen[key] {
			continue
		}
		seen[key] = true
		if !first {
			b.WriteString(";\n   ")
		}
		first = false
		fmt.Fprintf(&b, "mkTP %s %s %s [%s]", coqString(pth.fn), coqString(pth.pos), boolStr(pth.fn == "newKVElection"), strings.Join(pth.ops, "; "))
	}
	b.WriteString("].\n\n")
	fmt.Fprintf(&b, "Definition promote_ctx_is_term_child : bool := %s.\n", boolStr(promoteCtxFromTerm(p)))
	return b.String()
}

func init() { register("GenTermCtx.v", genTermCtx) }
