package main

// GenGuards.v: timing constants, thresholds and single conditions of the concurrent
// code (heartbeat, validation, watch, connection, stop), located by enclosing function
// and syntactic anchor. The election model and the monitors use these definitions, so
// an edit of a constant or a comparison in the source reaches the theorems on the next run.

import (
	"fmt"
	"go/ast"
	"go/token"
	"strings"
)

// gexpr renders an integer/duration expression over configuration fields.
func gexpr(p *pkgInfo, e ast.Expr, vars map[string]string) string {
	switch e := e.(type) {
	case *ast.BasicLit:
		if e.Kind == token.INT {
			return e.Value
		}
	case *ast.ParenExpr:
		return "(" + gexpr(p, e.X, vars) + ")"
	case *ast.SelectorExpr:
		txt := exprText(e)
		for suffix, v := range vars {
			if strings.HasSuffix(txt, suffix) {
				return v
			}
		}
		switch selName(e) {
		case "time.Nanosecond":
			return "1"
		case "time.Microsecond":
			return "1000"
		case "time.Millisecond":
			return "1000000"
		case "time.Second":
			return "1000000000"
		case "time.Minute":
			return "60000000000"
		}
	case *ast.Ident:
		if v, ok := vars[e.Name]; ok {
			return v
		}
		if v, ok := p.consts[e.Name]; ok {
			return gexpr(p, v, vars)
		}
	case *ast.BinaryExpr:
		op := map[token.Token]string{token.MUL: "*", token.ADD: "+", token.SUB: "-"}[e.Op]
		if op != "" {
			return "(" + gexpr(p, e.X, vars) + " " + op + " " + gexpr(p, e.Y, vars) + ")"
		}
		if e.Op == token.QUO {
			return "(Z.quot " + gexpr(p, e.X, vars) + " " + gexpr(p, e.Y, vars) + ")"
		}
	case *ast.CallExpr:
		// conversions such as int32(x), time.Duration(x)
		if len(e.Args) == 1 {
			return gexpr(p, e.Args[0], vars)
		}
	}
	q := p.fset.Position(e.Pos())
	panic(fmt.Sprintf("%s:%d: unsupported constant expression in guard extraction", q.Filename, q.Line))
}

func cmpOp(t token.Token) string {
	switch t {
	case token.LSS:
		return "<?"
	case token.LEQ:
		return "<=?"
	case token.GTR:
		return ">?"
	case token.GEQ:
		return ">=?"
	case token.EQL:
		return "=?"
	}
	return ""
}

// clamped finds `name := init` followed (anywhere later in the same block list) by
// `if name <op> bound { name = repl }` and renders it as a function body over vars.
func clamped(p *pkgInfo, fn *ast.FuncDecl, name string, vars map[string]string, assignTok token.Token) string {
	var initE ast.Expr
	var out string
	ast.Inspect(fn.Body, func(n ast.Node) bool {
		if out != "" {
			return false
		}
		switch s := n.(type) {
		case *ast.AssignStmt:
			if len(s.Lhs) == 1 && len(s.Rhs) == 1 {
				if id, ok := s.Lhs[0].(*ast.Ident); ok && id.Name == name && initE == nil && (s.Tok == assignTok || assignTok == token.ILLEGAL) {
					initE = s.Rhs[0]
				}
			}
		case *ast.IfStmt:
			if initE == nil || s.Init != nil || s.Else != nil || len(s.Body.List) != 1 {
				return true
			}
			be, ok := s.Cond.(*ast.BinaryExpr)
			if !ok {
				return true
			}
			id, ok := be.X.(*ast.Ident)
			if !ok || id.Name != name || cmpOp(be.Op) == "" {
				return true
			}
			as, ok := s.Body.List[0].(*ast.AssignStmt)
			if !ok || len(as.Lhs) != 1 {
				return true
			}
			if lid, ok := as.Lhs[0].(*ast.Ident); !ok || lid.Name != name {
				return true
			}
			v2 := map[string]string{}
			for k, v := range vars {
				v2[k] = v
			}
			v2[name] = "u"
			out = fmt.Sprintf("let u := %s in if u %s %s then %s else u", gexpr(p, initE, vars), cmpOp(be.Op), gexpr(p, be.Y, v2), gexpr(p, as.Rhs[0], v2))
			return false
		}
		return true
	})
	if out == "" {
		panic(fmt.Sprintf("%s: pattern `%s := ..; if %s < .. { %s = .. }` not found in %s", p.pos(fn), name, name, name, fn.Name.Name))
	}
	return out
}

// intAssign finds `name := <int literal>` in fn.
func intAssign(p *pkgInfo, fn *ast.FuncDecl, name string) string {
	// a named package constant instead of a local
	if v, ok := p.consts[name]; ok {
		if bl, ok := v.(*ast.BasicLit); ok && bl.Kind == token.INT {
			return bl.Value
		}
	}
	var out string
	ast.Inspect(fn.Body, func(n ast.Node) bool {
		if s, ok := n.(*ast.AssignStmt); ok && out == "" && len(s.Lhs) == 1 && len(s.Rhs) == 1 && s.Tok == token.DEFINE {
			if id, ok := s.Lhs[0].(*ast.Ident); ok && id.Name == name {
				if bl, ok := s.Rhs[0].(*ast.BasicLit); ok && bl.Kind == token.INT {
					out = bl.Value
				}
			}
		}
		return true
	})
	if out == "" {
		panic(fmt.Sprintf("%s: `%s := <int>` not found in %s", p.pos(fn), name, fn.Name.Name))
	}
	return out
}

// callArg finds the idx-th argument of the n-th call of callee (e.g. "time.NewTicker") in fn.
func callArg(p *pkgInfo, fn *ast.FuncDecl, callee string, idx int, nth int) ast.Expr {
	var out ast.Expr
	k := 0
	ast.Inspect(fn.Body, func(n ast.Node) bool {
		if c, ok := n.(*ast.CallExpr); ok && out == nil && calleeIs(callName(c), callee) && len(c.Args) > idx {
			if k == nth {
				out = c.Args[idx]
			}
			k++
		}
		return true
	})
	if out == nil {
		panic(fmt.Sprintf("%s: call of %s not found in %s", p.pos(fn), callee, fn.Name.Name))
	}
	return out
}

// ---- role-based anchors: local variables are found by what they are used for, not by their names ----

// guardedBy returns the condition of the innermost `if X <cmp> Y { ... callee(...) ... }` in fn whose body calls callee.
func guardedBy(fn *ast.FuncDecl, callee string) *ast.BinaryExpr {
	var out *ast.BinaryExpr
	ast.Inspect(fn.Body, func(n ast.Node) bool {
		s, ok := n.(*ast.IfStmt)
		if !ok {
			return true
		}
		be, ok := s.Cond.(*ast.BinaryExpr)
		if !ok || cmpOp(be.Op) == "" {
			return true
		}
		if _, ok := be.X.(*ast.Ident); !ok {
			return true
		}
		calls := false
		ast.Inspect(s.Body, func(m ast.Node) bool {
			if c, ok := m.(*ast.CallExpr); ok {
				if sel, ok := c.Fun.(*ast.SelectorExpr); ok && sel.Sel.Name == callee {
					calls = true
				}
			}
			return !calls
		})
		if calls {
			out = be // keep descending: the innermost one wins
		}
		return true
	})
	return out
}

// freeIdents lists the identifiers of e that are neither package constants nor type conversions.
func freeIdents(p *pkgInfo, e ast.Expr) []string {
	var out []string
	ast.Inspect(e, func(n ast.Node) bool {
		switch x := n.(type) {
		case *ast.CallExpr:
			// int32(x), time.Duration(x): only the arguments count
			for _, a := range x.Args {
				out = append(out, freeIdents(p, a)...)
			}
			return false
		case *ast.SelectorExpr:
			return false
		case *ast.Ident:
			if _, isConst := p.consts[x.Name]; !isConst && x.Name != "nil" && x.Name != "true" && x.Name != "false" {
				out = append(out, x.Name)
			}
		}
		return true
	})
	return out
}

// argIdent: the name of the identifier passed as idx-th argument to the first call of one of callees in fn ("" if none).
func argIdent(fn *ast.FuncDecl, callees []string, idx int) string {
	out := ""
	ast.Inspect(fn.Body, func(n ast.Node) bool {
		if c, ok := n.(*ast.CallExpr); ok && out == "" && len(c.Args) > idx {
			for _, cal := range callees {
				if callName(c) == cal {
					if id, ok := c.Args[idx].(*ast.Ident); ok {
						out = id.Name
					}
				}
			}
		}
		return out == ""
	})
	return out
}

// definedByCall: name := <recv>.<method>() in fn -> the method's declaration (nil if name is not defined that way).
func definedByCall(p *pkgInfo, fn *ast.FuncDecl, name string) *ast.FuncDecl {
	var out *ast.FuncDecl
	ast.Inspect(fn.Body, func(n ast.Node) bool {
		s, ok := n.(*ast.AssignStmt)
		if !ok || out != nil || len(s.Lhs) != 1 || len(s.Rhs) != 1 {
			return true
		}
		if id, ok := s.Lhs[0].(*ast.Ident); !ok || id.Name != name {
			return true
		}
		c, ok := s.Rhs[0].(*ast.CallExpr)
		if !ok || len(c.Args) != 0 {
			return true
		}
		sel, ok := c.Fun.(*ast.SelectorExpr)
		if !ok {
			return true
		}
		for full, fd := range p.funcs {
			if strings.HasSuffix(full, "."+sel.Sel.Name) && fd.Recv != nil && fn.Recv != nil &&
				recvName(fd.Recv.List[0].Type) == recvName(fn.Recv.List[0].Type) {
				out = fd
			}
		}
		return true
	})
	return out
}

// returnedIdent: the identifier of the (single-value) return statements of fn, if they all return the same one.
func returnedIdent(fn *ast.FuncDecl) string {
	name, ok := "", true
	ast.Inspect(fn.Body, func(n ast.Node) bool {
		if _, isLit := n.(*ast.FuncLit); isLit {
			return false
		}
		if r, isRet := n.(*ast.ReturnStmt); isRet {
			if len(r.Results) != 1 {
				ok = false
				return true
			}
			id, isId := r.Results[0].(*ast.Ident)
			if !isId || (name != "" && name != id.Name) {
				ok = false
				return true
			}
			name = id.Name
		}
		return true
	})
	if !ok {
		return ""
	}
	return name
}

// clampedRole: the clamped pattern of the variable that plays a role (name found through an anchor), falling back to the
// historical name; when the variable is defined by a call of a helper method, the pattern is looked for in the helper.
func clampedRole(p *pkgInfo, fn *ast.FuncDecl, anchor, legacy string, vars map[string]string, tok token.Token) string {
	name := anchor
	if name == "" {
		name = legacy
	}
	if h := definedByCall(p, fn, name); h != nil {
		if r := returnedIdent(h); r != "" {
			if out, ok := tryClamped(p, h, r, vars, tok); ok {
				return out
			}
		}
		// a helper of another shape (early returns, named constants): its body, executed symbolically
		return compileZ(p, h, vars)
	}
	return clamped(p, fn, name, vars, tok)
}

// roleDuration: the duration passed as idx-th argument to one of callees in fn, as a function of the configuration: a local
// with the clamp pattern, a local defined by a helper, or the helper call itself.
func roleDuration(p *pkgInfo, fn *ast.FuncDecl, callees []string, idx int, legacy string, vars map[string]string, tok token.Token) string {
	var arg ast.Expr
	ast.Inspect(fn.Body, func(n ast.Node) bool {
		if c, ok := n.(*ast.CallExpr); ok && arg == nil && len(c.Args) > idx {
			for _, cal := range callees {
				if callName(c) == cal {
					arg = c.Args[idx]
				}
			}
		}
		return arg == nil
	})
	if call, ok := arg.(*ast.CallExpr); ok && len(call.Args) == 0 {
		if sel, ok := call.Fun.(*ast.SelectorExpr); ok && fn.Recv != nil {
			for full, fd := range p.funcs {
				if strings.HasSuffix(full, "."+sel.Sel.Name) && fd.Recv != nil && fd.Body != nil &&
					recvName(fd.Recv.List[0].Type) == recvName(fn.Recv.List[0].Type) {
					return compileZ(p, fd, vars)
				}
			}
		}
	}
	name := ""
	if id, ok := arg.(*ast.Ident); ok {
		name = id.Name
	}
	return clampedRole(p, fn, name, legacy, vars, tok)
}

func tryClamped(p *pkgInfo, fn *ast.FuncDecl, name string, vars map[string]string, tok token.Token) (out string, ok bool) {
	defer func() {
		if r := recover(); r != nil {
			out, ok = "", false
		}
	}()
	return clamped(p, fn, name, vars, tok), true
}

// zDialect: integer (duration) expressions of a helper, leaves translated by gexpr.
type zDialect struct {
	p    *pkgInfo
	vars map[string]string
}

func (d *zDialect) expr(c *compiler, e ast.Expr) (s string, ok bool) {
	switch e.(type) {
	case *ast.BasicLit, *ast.SelectorExpr, *ast.CallExpr:
	case *ast.Ident:
		if _, local := c.types[e.(*ast.Ident).Name]; local {
			return "", false
		}
	case *ast.BinaryExpr:
		switch e.(*ast.BinaryExpr).Op {
		case token.MUL, token.ADD, token.SUB, token.QUO:
			// arithmetic over constants and configuration fields: all of it at once (anything over locals makes gexpr
			// give up and goes through the generic path)
		default:
			return "", false
		}
	default:
		return "", false
	}
	defer func() {
		if r := recover(); r != nil {
			s, ok = "", false
		}
	}()
	return gexpr(d.p, e, d.vars), true
}
func (d *zDialect) ret(c *compiler, results []ast.Expr) string { return c.expr(results[0]) }
func (d *zDialect) ifInit(c *compiler, s *ast.IfStmt) (string, bool) { return "", false }

// compileZ translates a helper that computes a duration from configuration fields (vars: selector suffix -> Coq name; a
// field that is to be taken as zero maps to "0").
func compileZ(p *pkgInfo, fd *ast.FuncDecl, vars map[string]string) string {
	d := &zDialect{p: p, vars: vars}
	c := &compiler{fset: p.fset, d: d, types: map[string]string{}, funcs: p.funcs, plainRet: true, pkgConsts: p.consts}
	ast.Inspect(fd.Body, func(n ast.Node) bool {
		if a, ok := n.(*ast.AssignStmt); ok && a.Tok == token.DEFINE {
			for _, l := range a.Lhs {
				if id, ok := l.(*ast.Ident); ok {
					c.types[id.Name] = "Z"
				}
			}
		}
		return true
	})
	// selectors and calls (conversions) are integers
	c.types["?"] = "Z"
	body := c.stmts(fd.Body.List)
	if body == "" {
		panic(p.pos(fd) + ": helper falls off its end")
	}
	return strings.ReplaceAll(body, "wrap64 ", "")
}

// calleeIs: time.After and time.NewTimer are interchangeable ways to wait for a duration.
func calleeIs(got, want string) bool {
	if got == want {
		return true
	}
	return (want == "time.After" && got == "time.NewTimer") || (want == "time.NewTimer" && got == "time.After")
}

func genGuards(p *pkgInfo) string {
	var b strings.Builder
	b.WriteString("From LE Require Import Base.\nOpen Scope Z_scope.\n\n")
	hb := p.fn("kvElection.heartbeatLoop")
	hv := map[string]string{".cfg.HeartbeatInterval": "H", ".cfg.MaxConsecutiveFailures": "m"}
	b.WriteString("(* " + p.pos(hb) + " *)\n")
	b.WriteString("Definition gen_hb_update_timeout (H : Z) : Z := " + roleDuration(p, hb, []string{"time.After", "time.NewTimer"}, 0, "updateTimeout", hv, token.DEFINE) + ".\n")
	// the comparison that guards the call of handleHeartbeatFailure: <count> >= <threshold>, both local variables
	hbc := guardedBy(hb, "handleHeartbeatFailure")
	if hbc == nil {
		panic(p.pos(hb) + ": refresh failure threshold comparison not found in heartbeatLoop")
	}
	hbThr, okThr := hbc.Y.(*ast.Ident)
	if !okThr || hbc.Op == token.GTR {
		panic(p.pos(hb) + ": refresh failure threshold comparison has an unexpected shape")
	}
	b.WriteString("Definition gen_hb_max_failures : Z := " + intAssign(p, hb, hbThr.Name) + ".\n")
	// the comparison that guards the call of handleHealthCheckFailure: <count> >= int32(<threshold>)
	hc := guardedBy(hb, "handleHealthCheckFailure")
	if hc == nil {
		panic(p.pos(hb) + ": health threshold comparison not found in heartbeatLoop")
	}
	hfree := freeIdents(p, hc.Y)
	if len(hfree) != 1 {
		panic(p.pos(hb) + ": health threshold comparison has an unexpected shape")
	}
	b.WriteString("Definition gen_health_threshold (m : Z) : Z := " + clamped(p, hb, hfree[0], hv, token.DEFINE) + ".\n")
	b.WriteString("Definition gen_health_check_timeout : Z := " + gexpr(p, callArg(p, hb, "context.WithTimeout", 1, 0), hv) + ".\n")
	trip := "count " + cmpOp(hc.Op) + " " + gexpr(p, hc.Y, map[string]string{hfree[0]: "thr"})
	b.WriteString("Definition gen_health_trips (count thr : Z) : bool := " + trip + ".\n")
	trip = "count " + cmpOp(hbc.Op) + " thr"
	b.WriteString("Definition gen_hb_trips (count thr : Z) : bool := " + trip + ".\n\n")

	dh := p.fn("disconnectHandler.handleDisconnect")
	b.WriteString("(* " + p.pos(dh) + " *)\n")
	b.WriteString("Definition gen_default_grace (H : Z) : Z := " + roleDuration(p, dh, []string{"time.AfterFunc"}, 0, "gracePeriod", map[string]string{".cfg.HeartbeatInterval": "H", ".cfg.DisconnectGracePeriod": "0"}, token.ASSIGN) + ".\n\n")

	wl := p.fn("kvElection.watchLoop")
	b.WriteString("(* " + p.pos(wl) + " *)\n")
	b.WriteString("Definition gen_watch_check_interval : Z := " + gexpr(p, callArg(p, wl, "time.NewTicker", 0, 0), nil) + ".\n\n")

	for _, n := range []string{"jitterMin", "jitterMax"} {
		v, ok := p.consts[n]
		if !ok {
			panic("constant " + n + " not found")
		}
		b.WriteString("Definition gen_round_" + map[string]string{"jitterMin": "jitter_min", "jitterMax": "jitter_max"}[n] + " : Z := " + gexpr(p, v, nil) + ".\n")
	}
	vl := p.fn("kvElection.validationLoop")
	b.WriteString("(* " + p.pos(vl) + " *)\n")
	for _, n := range [][2]string{{"defaultValidationInterval", "gen_val_default_interval"}, {"defaultValidationTimeout", "gen_val_timeout"}} {
		v, ok := p.consts[n[0]]
		if !ok {
			panic("constant " + n[0] + " not found")
		}
		b.WriteString("Definition " + n[1] + " : Z := " + gexpr(p, v, nil) + ".\n")
	}
	valThr := "maxFailures"
	if vc := guardedBy(vl, "handleValidationFailure"); vc != nil {
		if y, ok := vc.Y.(*ast.Ident); ok {
			valThr = y.Name
		}
	}
	b.WriteString("Definition gen_val_max_failures : Z := " + intAssign(p, vl, valThr) + ".\n")
	// the time-out of one validation read, as a function of the heartbeat interval
	b.WriteString("Definition gen_val_read_timeout (H : Z) : Z := " + roleDuration(p, vl, []string{"context.WithTimeout"}, 1, "validationTimeout", hv, token.DEFINE) + ".\n\n")

	vr := p.fn("kvElection.verifyLeadershipAfterReconnect")
	b.WriteString("(* " + p.pos(vr) + " *)\n")
	b.WriteString("Definition gen_verify_settle_delay : Z := " + gexpr(p, callArg(p, vr, "time.Sleep", 0, 0), nil) + ".\n\n")

	st := p.fn("kvElection.Stop")
	b.WriteString("(* " + p.pos(st) + " *)\n")
	b.WriteString("Definition gen_stop_default_timeout : Z := " + gexpr(p, callArg(p, st, "time.After", 0, 0), nil) + ".\n")

	// takeover guards (attemptAcquire / attemptPriorityTakeover / handleWatchEvent)
	tk := p.fn("kvElection.attemptPriorityTakeover")
	yield := ""
	ast.Inspect(tk.Body, func(n ast.Node) bool {
		if s, ok := n.(*ast.IfStmt); ok && yield == "" {
			if be, ok := s.Cond.(*ast.BinaryExpr); ok && cmpOp(be.Op) != "" {
				if strings.HasSuffix(exprText(be.X), ".cfg.Priority") && strings.HasSuffix(exprText(be.Y), ".Priority") {
					yield = "mine " + cmpOp(be.Op) + " stored"
				}
			}
		}
		return true
	})
	if yield == "" {
		panic(p.pos(tk) + ": priority comparison not found in attemptPriorityTakeover")
	}
	b.WriteString("\n(* " + p.pos(tk) + " : the candidate yields (does not replace the record) when this holds *)\n")
	b.WriteString("Definition gen_takeover_yields (mine stored : Z) : bool := " + yield + ".\n")
	aa := p.fn("kvElection.attemptAcquire")
	en := ""
	ast.Inspect(aa.Body, func(n ast.Node) bool {
		if s, ok := n.(*ast.IfStmt); ok && en == "" {
			if be, ok := s.Cond.(*ast.BinaryExpr); ok && be.Op == token.LAND {
				if strings.HasSuffix(exprText(be.X), ".cfg.AllowPriorityTakeover") {
					if c2, ok := be.Y.(*ast.BinaryExpr); ok && strings.HasSuffix(exprText(c2.X), ".cfg.Priority") && cmpOp(c2.Op) != "" {
						en = "allow && (prio " + cmpOp(c2.Op) + " " + gexpr(p, c2.Y, nil) + ")"
					}
				}
			}
		}
		return true
	})
	if en == "" {
		panic(p.pos(aa) + ": takeover-enabled condition not found in attemptAcquire")
	}
	b.WriteString("(* " + p.pos(aa) + " *)\n")
	b.WriteString("Definition gen_takeover_enabled (allow : bool) (prio : Z) : bool := " + en + ".\n")
	return b.String()
}

func init() { register("GenGuards.v", genGuards) }
