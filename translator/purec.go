package main

// purec: a small compiler from a pure subset of Go function bodies to Gallina
// expressions. Statement lists are turned into nested let/if expressions:
//
//	return e                         ->  [e]
//	x := e ; REST   (also x = e)     ->  let x := [e] in REST
//	if c { ..always returns.. } REST ->  if [c] then [..] else REST
//	if c { x = e } REST              ->  let x := if [c] then [e] else x in REST
//	if c { ..may fall through.. }    ->  let k := fun _:unit => REST in if [c] then [.. k tt] else k tt
//	for _, p := range S { if c { return v } } REST
//	                                 ->  if existsb (fun p => [c]) [S] then [v] else REST
//
// Anything else is an error: the translation aborts with file:line and the tie
// between model and code is reported broken for the properties that need it.
//
// Leaf expressions (calls, selectors, literals of the function's domain) are
// delegated to a per-function "dialect".

import (
	"fmt"
	"go/ast"
	"go/token"
	"strconv"
	"strings"
)

type trErr struct {
	pos token.Pos
	msg string
}

func (e *trErr) Error() string { return e.msg }

type dialect interface {
	// expr translates a leaf expression; ok=false means "not mine".
	expr(c *compiler, e ast.Expr) (string, bool)
	// ret translates the operand list of a return statement.
	ret(c *compiler, results []ast.Expr) string
	// ifInit handles `if init; cond` headers (e.g. type assertions); returns the
	// Gallina condition. ok=false means unsupported.
	ifInit(c *compiler, s *ast.IfStmt) (string, bool)
}

type compiler struct {
	fset    *token.FileSet
	d       dialect
	kcount  int
	types   map[string]string // local name -> "Z" | "string" | "bool" | "Q" | ...
	consts  map[string]string // package-level constants usable in expressions (name -> gallina)
	ignored func(ast.Stmt) bool
	// funcs: package-level functions whose calls are translated by executing their body in place (pure helpers extracted
	// by a refactoring); plainRet: inside such a body a return statement yields the value of its operand
	funcs    map[string]*ast.FuncDecl
	plainRet bool
	depth    int
	// pkgVars: package-level variables with an initialiser (read-only tables); pkgConsts: package constants
	pkgVars   map[string]ast.Expr
	pkgConsts map[string]ast.Expr
}

func (c *compiler) fail(n ast.Node, f string, a ...interface{}) {
	p := c.fset.Position(n.Pos())
	panic(&trErr{n.Pos(), fmt.Sprintf("%s:%d: %s", p.Filename, p.Line, fmt.Sprintf(f, a...))})
}

func (c *compiler) stmts(list []ast.Stmt) string {
	if len(list) == 0 {
		return "" // falls through
	}
	s := list[0]
	rest := list[1:]
	if c.ignored != nil && c.ignored(s) {
		return c.stmts(rest)
	}
	switch s := s.(type) {
	case *ast.ReturnStmt:
		if c.plainRet {
			if len(s.Results) != 1 {
				c.fail(s, "helper with other than one result")
			}
			return c.expr(s.Results[0])
		}
		return c.d.ret(c, s.Results)
	case *ast.AssignStmt:
		if len(s.Lhs) != 1 || len(s.Rhs) != 1 {
			c.fail(s, "unsupported multi-assignment")
		}
		id, ok := s.Lhs[0].(*ast.Ident)
		if !ok {
			c.fail(s, "unsupported assignment target")
		}
		rhs := c.expr(s.Rhs[0])
		if s.Tok == token.DEFINE {
			if _, known := c.types[id.Name]; !known {
				if t := c.typeOf(s.Rhs[0]); t != "" {
					c.types[id.Name] = t
				}
			}
		}
		r := c.stmts(rest)
		if r == "" {
			c.fail(s, "assignment at end of function body")
		}
		return fmt.Sprintf("let %s := %s in\n  %s", id.Name, rhs, r)
	case *ast.DeclStmt:
		// `var x T` declarations used with errors.As: handled by the dialect through ifInit; skip.
		return c.stmts(rest)
	case *ast.IfStmt:
		var cond string
		if s.Init != nil {
			cc, ok := c.d.ifInit(c, s)
			if !ok {
				// `if x := e; cond { ... }`: the same as `x := e` followed by the if (x is not used afterwards under
				// that name: Go scopes it to the if)
				if a, isA := s.Init.(*ast.AssignStmt); isA && a.Tok == token.DEFINE && len(a.Lhs) == 1 && len(a.Rhs) == 1 {
					if _, isId := a.Lhs[0].(*ast.Ident); isId {
						plain := *s
						plain.Init = nil
						return c.stmts(append([]ast.Stmt{a, &plain}, rest...))
					}
				}
				c.fail(s, "unsupported if-with-init")
			}
			cond = cc
		} else {
			cond = c.expr(s.Cond)
		}
		if s.Else != nil {
			var els string
			switch e := s.Else.(type) {
			case *ast.BlockStmt:
				els = c.block(e.List, rest)
			case *ast.IfStmt:
				els = c.block([]ast.Stmt{e}, rest)
			}
			return fmt.Sprintf("(if %s then %s else %s)", cond, c.block(s.Body.List, rest), els)
		}
		// assignment-only body: join
		if v, e, ok := c.assignOnly(s.Body.List); ok {
			r := c.stmts(rest)
			if r == "" {
				c.fail(s, "conditional assignment at end of function body")
			}
			return fmt.Sprintf("let %s := (if %s then %s else %s) in\n  %s", v, cond, e, v, r)
		}
		if alwaysReturns(s.Body.List) {
			r := c.stmts(rest)
			if r == "" {
				c.fail(s, "if at end of function body without final return")
			}
			return fmt.Sprintf("if %s then %s else\n  %s", cond, c.stmts(s.Body.List), r)
		}
		// may fall through: bind the continuation once
		r := c.stmts(rest)
		if r == "" {
			c.fail(s, "if at end of function body without final return")
		}
		c.kcount++
		k := fmt.Sprintf("k%d", c.kcount)
		body := c.stmtsK(s.Body.List, k+" tt")
		return fmt.Sprintf("let %s := (fun _ : unit => %s) in\n  if %s then %s else %s tt", k, r, cond, body, k)
	case *ast.RangeStmt:
		// for _, p := range S { if c { return v } }
		id, ok := s.Value.(*ast.Ident)
		if !ok || len(s.Body.List) != 1 {
			c.fail(s, "unsupported range loop")
		}
		inner, ok := s.Body.List[0].(*ast.IfStmt)
		if !ok || inner.Init != nil || inner.Else != nil || !alwaysReturns(inner.Body.List) {
			c.fail(s, "unsupported range loop body")
		}
		c.types[id.Name] = "string"
		cond := c.expr(inner.Cond)
		r := c.stmts(rest)
		if r == "" {
			c.fail(s, "range loop at end of function body")
		}
		return fmt.Sprintf("if existsb (fun %s => %s) %s then %s else\n  %s", id.Name, cond, c.expr(s.X), c.stmts(inner.Body.List), r)
	}
	c.fail(s, "unsupported statement %T", s)
	return ""
}

// block translates a nested block followed (on fall-through) by rest.
func (c *compiler) block(list []ast.Stmt, rest []ast.Stmt) string {
	all := append(append([]ast.Stmt{}, list...), rest...)
	r := c.stmts(all)
	if r == "" {
		c.fail(list[0], "block falls off the end of the function")
	}
	return "(" + r + ")"
}

// stmtsK translates list with an explicit fall-through expression k.
func (c *compiler) stmtsK(list []ast.Stmt, k string) string {
	if len(list) == 0 {
		return k
	}
	s := list[0]
	switch s := s.(type) {
	case *ast.ReturnStmt:
		if c.plainRet {
			return c.expr(s.Results[0])
		}
		return c.d.ret(c, s.Results)
	case *ast.AssignStmt:
		id, ok := s.Lhs[0].(*ast.Ident)
		if !ok || len(s.Lhs) != 1 {
			c.fail(s, "unsupported assignment")
		}
		return fmt.Sprintf("(let %s := %s in %s)", id.Name, c.expr(s.Rhs[0]), c.stmtsK(list[1:], k))
	case *ast.IfStmt:
		if s.Init != nil || s.Else != nil {
			c.fail(s, "unsupported nested if")
		}
		if alwaysReturns(s.Body.List) {
			return fmt.Sprintf("(if %s then %s else %s)", c.expr(s.Cond), c.stmts(s.Body.List), c.stmtsK(list[1:], k))
		}
		if len(list) == 1 {
			return fmt.Sprintf("(if %s then %s else %s)", c.expr(s.Cond), c.stmtsK(s.Body.List, k), k)
		}
	}
	c.fail(s, "unsupported statement in nested block: %T", s)
	return ""
}

func (c *compiler) assignOnly(list []ast.Stmt) (string, string, bool) {
	if len(list) != 1 {
		return "", "", false
	}
	a, ok := list[0].(*ast.AssignStmt)
	if !ok || a.Tok != token.ASSIGN || len(a.Lhs) != 1 {
		return "", "", false
	}
	id, ok := a.Lhs[0].(*ast.Ident)
	if !ok {
		return "", "", false
	}
	return id.Name, c.expr(a.Rhs[0]), true
}

func alwaysReturns(list []ast.Stmt) bool {
	if len(list) == 0 {
		return false
	}
	switch s := list[len(list)-1].(type) {
	case *ast.ReturnStmt:
		return true
	case *ast.IfStmt:
		if s.Else == nil {
			return false
		}
		eb, ok := s.Else.(*ast.BlockStmt)
		return ok && alwaysReturns(s.Body.List) && alwaysReturns(eb.List)
	}
	return false
}

// typeOf gives a coarse Gallina type for an expression, for choosing comparison operators.
func (c *compiler) typeOf(e ast.Expr) string {
	switch e := e.(type) {
	case *ast.BasicLit:
		switch e.Kind {
		case token.STRING:
			return "string"
		case token.INT:
			return "Z"
		case token.FLOAT:
			return "Q"
		}
	case *ast.Ident:
		if t, ok := c.types[e.Name]; ok {
			return t
		}
		if e.Name == "true" || e.Name == "false" {
			return "bool"
		}
		if v, ok := c.pkgConsts[e.Name]; ok {
			return c.typeOf(v)
		}
	case *ast.ParenExpr:
		return c.typeOf(e.X)
	case *ast.BinaryExpr:
		switch e.Op {
		case token.ADD, token.SUB, token.MUL, token.QUO:
			t := c.typeOf(e.X)
			if t == "" {
				t = c.typeOf(e.Y)
			}
			return t
		default:
			return "bool"
		}
	case *ast.UnaryExpr:
		if e.Op == token.NOT {
			return "bool"
		}
		return c.typeOf(e.X)
	case *ast.SelectorExpr:
		if t, ok := c.types[selName(e)]; ok {
			return t
		}
	case *ast.CallExpr:
		if t, ok := c.types["call:"+callName(e)]; ok {
			return t
		}
	}
	return ""
}

func selName(e *ast.SelectorExpr) string {
	if x, ok := e.X.(*ast.Ident); ok {
		return x.Name + "." + e.Sel.Name
	}
	if x, ok := e.X.(*ast.SelectorExpr); ok {
		return selName(x) + "." + e.Sel.Name
	}
	return "?." + e.Sel.Name
}

func callName(e *ast.CallExpr) string {
	switch f := e.Fun.(type) {
	case *ast.Ident:
		return f.Name
	case *ast.SelectorExpr:
		return selName(f)
	}
	return "?"
}

func (c *compiler) expr(e ast.Expr) string {
	if s, ok := c.d.expr(c, e); ok {
		return s
	}
	switch e := e.(type) {
	case *ast.ParenExpr:
		return "(" + c.expr(e.X) + ")"
	case *ast.BasicLit:
		switch e.Kind {
		case token.INT:
			return "(" + e.Value + ")%Z"
		case token.STRING:
			s, err := strconv.Unquote(e.Value)
			if err != nil {
				c.fail(e, "bad string literal")
			}
			return coqString(s)
		}
	case *ast.Ident:
		switch e.Name {
		case "true", "false":
			return e.Name
		}
		if g, ok := c.consts[e.Name]; ok {
			return g
		}
		if _, ok := c.types[e.Name]; ok {
			return e.Name
		}
		// a package-level table or constant: its initialiser
		if v, ok := c.pkgVars[e.Name]; ok {
			if _, isLit := v.(*ast.CompositeLit); isLit {
				c.types[e.Name+"#pkg"] = "list string"
			}
			return c.expr(v)
		}
		if v, ok := c.pkgConsts[e.Name]; ok {
			return c.expr(v)
		}
	case *ast.UnaryExpr:
		if e.Op == token.NOT {
			return "(negb " + c.expr(e.X) + ")"
		}
		if e.Op == token.SUB {
			return "(- " + c.expr(e.X) + ")"
		}
	case *ast.BinaryExpr:
		x, y := c.expr(e.X), c.expr(e.Y)
		t := c.typeOf(e.X)
		if t == "" {
			t = c.typeOf(e.Y)
		}
		switch e.Op {
		case token.LAND:
			return "(" + x + " && " + y + ")"
		case token.LOR:
			return "(" + x + " || " + y + ")"
		}
		switch t {
		case "string":
			switch e.Op {
			case token.EQL:
				return "(String.eqb " + x + " " + y + ")"
			case token.NEQ:
				return "(negb (String.eqb " + x + " " + y + "))"
			}
		case "Z":
			switch e.Op {
			case token.EQL:
				return "(" + x + " =? " + y + ")%Z"
			case token.NEQ:
				return "(negb (" + x + " =? " + y + ")%Z)"
			case token.LSS:
				return "(" + x + " <? " + y + ")%Z"
			case token.LEQ:
				return "(" + x + " <=? " + y + ")%Z"
			case token.GTR:
				return "(" + y + " <? " + x + ")%Z"
			case token.GEQ:
				return "(" + y + " <=? " + x + ")%Z"
			case token.MUL:
				return "(wrap64 (" + x + " * " + y + "))%Z"
			case token.ADD:
				return "(wrap64 (" + x + " + " + y + "))%Z"
			case token.SUB:
				return "(wrap64 (" + x + " - " + y + "))%Z"
			case token.QUO:
				return "(Z.quot " + x + " " + y + ")"
			}
		case "Q":
			switch e.Op {
			case token.LSS:
				return "(Qlt_bool " + x + " " + y + ")"
			case token.GTR:
				return "(Qlt_bool " + y + " " + x + ")"
			case token.LEQ:
				return "(Qle_bool " + x + " " + y + ")"
			case token.GEQ:
				return "(Qle_bool " + y + " " + x + ")"
			case token.MUL:
				return "(" + x + " * " + y + ")%Q"
			case token.ADD:
				return "(" + x + " + " + y + ")%Q"
			case token.SUB:
				return "(" + x + " - " + y + ")%Q"
			}
		case "bool":
			switch e.Op {
			case token.EQL:
				return "(Bool.eqb " + x + " " + y + ")"
			case token.NEQ:
				return "(negb (Bool.eqb " + x + " " + y + "))"
			}
		}
		c.fail(e, "unsupported binary expression (%s, operand type %q)", e.Op, t)
	}
	if call, ok := e.(*ast.CallExpr); ok {
		if id, ok := call.Fun.(*ast.Ident); ok {
			if fd, ok := c.funcs[id.Name]; ok && fd.Body != nil && fd.Recv == nil && c.depth < 3 {
				return c.inlineCall(fd, call)
			}
		}
	}
	c.fail(e, "unsupported expression %T", e)
	return ""
}

// inlineCall executes the body of a pure package-level helper in place: its parameters are bound to the arguments, a
// return statement yields its operand.
func (c *compiler) inlineCall(fd *ast.FuncDecl, call *ast.CallExpr) string {
	var names []string
	var ptypes []string
	if fd.Type.Params != nil {
		for _, prm := range fd.Type.Params.List {
			for _, nm := range prm.Names {
				names = append(names, nm.Name)
				ptypes = append(ptypes, exprText(prm.Type))
			}
		}
	}
	if len(names) != len(call.Args) || fd.Type.Results == nil || len(fd.Type.Results.List) != 1 {
		c.fail(call, "helper %s: unsupported signature", fd.Name.Name)
	}
	// every argument is passed under the parameter's own name: the dialects recognise parameters by name
	var lets []string
	for i, a := range call.Args {
		if id, ok := a.(*ast.Ident); ok && id.Name == names[i] {
			continue
		}
		lets = append(lets, fmt.Sprintf("let %s := %s in ", names[i], c.expr(a)))
		if _, known := c.types[names[i]]; !known {
			t := c.typeOf(a)
			if t == "" {
				switch ptypes[i] {
				case "float64":
					t = "Q"
				case "int", "int64", "time.Duration":
					t = "Z"
				case "string":
					t = "string"
				case "bool":
					t = "bool"
				case "[]string":
					t = "list"
				}
			}
			if t != "" {
				c.types[names[i]] = t
			}
		}
	}
	sub := *c
	sub.plainRet = true
	sub.depth = c.depth + 1
	// locals of the helper take their types from their initialisers
	body := sub.stmts(fd.Body.List)
	c.kcount = sub.kcount
	if body == "" {
		c.fail(call, "helper %s falls off its end", fd.Name.Name)
	}
	c.types["call:"+fd.Name.Name] = c.resultType(fd)
	return "(" + strings.Join(lets, "") + body + ")"
}

func (c *compiler) resultType(fd *ast.FuncDecl) string {
	switch exprText(fd.Type.Results.List[0].Type) {
	case "float64":
		return "Q"
	case "int", "int64", "time.Duration":
		return "Z"
	case "string":
		return "string"
	case "bool":
		return "bool"
	}
	return ""
}

func coqString(s string) string {
	var b strings.Builder
	b.WriteString("\"")
	for _, r := range []byte(s) {
		if r == '"' {
			b.WriteString("\"\"")
		} else if r < 32 || r > 126 {
			panic("non-printable byte in string literal")
		} else {
			b.WriteByte(r)
		}
	}
	b.WriteString("\"%string")
	return b.String()
}
