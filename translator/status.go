package main

// GenStatus.v: every place where the library stores one of the atomic status fields of kvElection that Status()
// combines into a snapshot (isLeader, state, leaderID), grouped by straight-line run: the stores of one group are
// executed together or not at all (same statement list, only calls and assignments in between, no lock operation).
//
//   status_groups : per group the function, the mode in which kvElection.mu is certainly held, whether the function
//                   is the constructor, whether the group lies behind `if e.isLeader.Load() { ... return }` inside the
//                   same acquisition of kvElection.mu, and the values stored (literal true/false, the value of a
//                   State* constant, own id / "" / anything for leaderID, a parameter of the function / "" / anything for
//                   token); an argument of another shape sets sg_unknown
//   status_loads  : the loads of those fields inside kvElection.Status with the mode in which kvElection.mu is held
//
// Proofs/StatusInv.v proves from the boolean check of this table that "IsLeader is true exactly when State is LEADER,
// and a leader's LeaderID is its own id" holds whenever kvElection.mu is free (and therefore in every Status snapshot).

import (
	"fmt"
	"go/ast"
	"go/token"
	"sort"
	"strings"
)

var statusFields = map[string]bool{"isLeader": true, "state": true, "leaderID": true, "token": true}

func genStatus(p *pkgInfo) string {
	la, entryMust, _ := analyseLocks(p)
	type key struct {
		fn       string
		blk, run int
	}
	groups := map[key][]atomicRec{}
	var order []key
	var loads []atomicRec
	// helpers called directly from Status(), with the locks held at the call
	statusCallees := map[string]lockset{}
	for _, c := range la.calls {
		if c.caller == "kvElection.Status" {
			if prev, ok := statusCallees[c.callee]; ok {
				statusCallees[c.callee] = meet(prev, c.held)
			} else {
				statusCallees[c.callee] = c.held.clone()
			}
		}
	}
	// helpers whose stores are spliced into the run of every caller (locks.go statusSpliceable): a call of one, standing as
	// a statement, executes all its stores then and there, with the caller's arguments in place of its parameters
	simpleName := func(full string) string {
		if i := strings.LastIndex(full, "."); i >= 0 {
			return full[i+1:]
		}
		return full
	}
	spliced := map[string]bool{}   // helper -> some call was spliced
	keepOwn := map[string]bool{}   // helper -> it is also reached in a way that is not spliced (deferred, go, exported)
	for _, c := range la.calls {
		if statusSpliceable[simpleName(c.callee)] && strings.HasPrefix(c.callee, "kvElection.") {
			if c.plain {
				spliced[c.callee] = true
			} else {
				keepOwn[c.callee] = true
			}
		}
	}
	for h := range spliced {
		if la.roots[h] || ast.IsExported(simpleName(h)) {
			keepOwn[h] = true
		}
	}
	var atomics []atomicRec
	for _, a := range la.atomics {
		if spliced[a.fn] && !keepOwn[a.fn] && a.op != "Load" && statusFields[a.field] {
			continue // listed with every caller instead
		}
		atomics = append(atomics, a)
	}
	for _, c := range la.calls {
		if !c.plain || !spliced[c.callee] {
			continue
		}
		fd := p.funcs[c.callee]
		var params []string
		if fd.Type.Params != nil {
			for _, prm := range fd.Type.Params.List {
				for _, nm := range prm.Names {
					params = append(params, nm.Name)
				}
			}
		}
		for _, a := range la.atomics {
			if a.fn != c.callee || a.op == "Load" || !statusFields[a.field] {
				continue
			}
			b := a
			b.fn, b.held, b.blk, b.run, b.sect, b.guard, b.pos = c.caller, c.held, c.blk, c.run, c.sect, c.guard, c.pos
			for i, prm := range params {
				if a.arg == prm && i < len(c.args) {
					b.arg = c.args[i]
				}
			}
			atomics = append(atomics, b)
		}
	}
	for _, a := range atomics {
		if !statusFields[a.field] {
			continue
		}
		if a.op == "Load" {
			if a.fn == "kvElection.Status" {
				loads = append(loads, a)
			} else if held, ok := statusCallees[a.fn]; ok {
				// a load in a helper that Status() calls: made with what Status() holds at the call
				b := a
				b.held = b.held.clone()
				for k, v := range held {
					if _, has := b.held[k]; !has {
						b.held[k] = v
					}
				}
				loads = append(loads, b)
			}
			continue
		}
		k := key{a.fn, a.blk, a.run}
		if _, ok := groups[k]; !ok {
			order = append(order, k)
		}
		groups[k] = append(groups[k], a)
	}
	sort.SliceStable(order, func(i, j int) bool { return groups[order[i]][0].pos < groups[order[j]][0].pos })
	constStr := func(arg string) (string, bool) {
		if e, ok := p.consts[arg]; ok {
			if bl, ok := e.(*ast.BasicLit); ok && bl.Kind == token.STRING {
				return strings.Trim(bl.Value, "\""), true
			}
		}
		return "", false
	}
	modeOf := func(a atomicRec) string {
		m := a.held["kvElection.mu"]
		if m == "" {
			m = entryMust(a.fn)["kvElection.mu"]
		}
		switch m {
		case "W":
			return "(Some LW)"
		case "R":
			return "(Some LR)"
		}
		return "None"
	}
	var b strings.Builder
	b.WriteString("From LE Require Import Base Locks Status.\nOpen Scope string_scope.\n\n")
	b.WriteString("Definition status_groups : list sgroup :=\n  [")
	for gi, k := range order {
		recs := groups[k]
		var il, st, lid, tok []string
		unknown := false
		guard := true
		mode := modeOf(recs[0])
		for _, a := range recs {
			if modeOf(a) != mode {
				mode = "None"
			}
			if !a.guard {
				guard = false
			}
			if a.op != "Store" {
				unknown = true // CompareAndSwap / Swap on a status field: not understood
				continue
			}
			switch a.field {
			case "isLeader":
				if a.arg == "true" || a.arg == "false" {
					il = append(il, a.arg)
				} else {
					unknown = true
				}
			case "state":
				if v, ok := constStr(a.arg); ok {
					st = append(st, coqString(v))
				} else {
					unknown = true
				}
			case "token":
				switch {
				case a.arg == `""`:
					tok = append(tok, "KEmpty")
				case isParam(p, k.fn, a.arg):
					tok = append(tok, "KParam") // the token the caller acquired the record with
				default:
					tok = append(tok, "KAny")
				}
			case "leaderID":
				switch {
				case a.arg == "e.cfg.InstanceID":
					lid = append(lid, "LOwn")
				case a.arg == `""`:
					lid = append(lid, "LEmpty")
				default:
					lid = append(lid, "LAny")
				}
			}
		}
		fnBase := k.fn
		if i := strings.Index(fnBase, "$"); i >= 0 {
			fnBase = fnBase[:i]
		}
		if gi > 0 {
			b.WriteString(";\n   ")
		}
		fmt.Fprintf(&b, "mkSG %s %s %s %s %s [%s] [%s] [%s] [%s] %s", coqString(k.fn), coqString(recs[0].pos), mode, boolStr(ctorFuncs[fnBase]),
			boolStr(guard), strings.Join(il, "; "), strings.Join(st, "; "), strings.Join(lid, "; "), strings.Join(tok, "; "), boolStr(unknown))
	}
	b.WriteString("].\n\nDefinition status_loads : list (string * string * option lmode) :=\n  [")
	for i, a := range loads {
		if i > 0 {
			b.WriteString(";\n   ")
		}
		fmt.Fprintf(&b, "(%s, %s, %s)", coqString(a.field), coqString(a.pos), modeOf(a))
	}
	b.WriteString("].\n")
	return b.String()
}

// isParam: name is a parameter of the function fn (closures inside fn share its parameters).
func isParam(p *pkgInfo, fn, name string) bool {
	if i := strings.Index(fn, "$"); i >= 0 {
		fn = fn[:i]
	}
	fd, ok := p.funcs[fn]
	if !ok || fd.Type.Params == nil {
		return false
	}
	for _, prm := range fd.Type.Params.List {
		for _, nm := range prm.Names {
			if nm.Name == name {
				return true
			}
		}
	}
	return false
}

func init() { register("GenStatus.v", genStatus) }
