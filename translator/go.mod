module verif/translator

go 1.25.4
