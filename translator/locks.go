package main

// GenLocks.v: facts about the lock discipline of the concurrent code, extracted syntactically.
//
//   accesses : every read/write of a plain (non-atomic, non-sync) field of the shared structs
//              (kvElection, disconnectHandler, natsConnectionMonitor, CircuitBreaker), with the
//              locks that are certainly held at that point (intraprocedural lock regions plus
//              "always called with L held" summaries over the call graph; goroutine bodies,
//              timer callbacks, exported methods and registered handlers start with none)
//   acquires : every lock acquisition with the locks that MAY be held at that point
//              (union over call sites), for the lock-order graph
//
// No type checker is used: receivers and field chains are resolved through the struct
// declarations of the package (e.g. d.election.mu -> kvElection.mu). Anything the resolver
// cannot classify inside the tracked structs aborts the unit.

import (
	"fmt"
	"go/ast"
	"go/token"
	"sort"
	"strings"
)

var trackedStructs = map[string]bool{"kvElection": true, "disconnectHandler": true, "natsConnectionMonitor": true, "CircuitBreaker": true}

// interface -> the only implementation in the package
var ifaceImpl = map[string]string{"ConnectionMonitor": "natsConnectionMonitor"}

// functions that build an object before it is shared
var ctorFuncs = map[string]bool{"newKVElection": true, "NewNATSConnectionMonitor": true, "NewCircuitBreaker": true}

// composite literals whose address the constructor binds to a variable (resolved for the status-writer table only:
// the plain fields set inside the literal itself are not accesses of a shared object)
var ctorLits = map[string]bool{"kvElection": true}

type lockset map[string]string // lock id -> "R" | "W"

func (l lockset) clone() lockset {
	c := lockset{}
	for k, v := range l {
		c[k] = v
	}
	return c
}

func meet(a, b lockset) lockset { // certainly held on both paths
	c := lockset{}
	for k, v := range a {
		if w, ok := b[k]; ok {
			if v == "W" && w == "W" {
				c[k] = "W"
			} else {
				c[k] = "R"
			}
		}
	}
	return c
}

type accessRec struct {
	strct, field string
	write        bool
	fn           string
	held         lockset
	pos          string
}

type acquireRec struct {
	lock, mode, fn string
	held          lockset
	pos           string
}

type callRec struct {
	caller, callee string
	held           lockset
	// status.go: where the call stands (straight-line run, acquisition of kvElection.mu, not-leader guard), its
	// arguments, and whether it is a statement of its own (not deferred, not part of an expression)
	blk, run int
	sect     string
	guard    bool
	pos      string
	args     []string
	plain    bool
}

type lockAnalysis struct {
	p        *pkgInfo
	accesses []accessRec
	acquires []acquireRec
	calls    []callRec
	roots    map[string]bool // analysed units that start with no lock held
	nclosure int
	atomics  []atomicRec // Store / Load of the atomic status fields of kvElection (status.go)
	nblk     int
}

// atomicRec: one Store/Load of an atomic field of kvElection. blk/run identify the straight-line run of simple
// statements it belongs to (two records with equal fn, blk and run are executed together or not at all);
// sect is the acquisition of kvElection.mu that is held ("" none), guard tells that on this path the same acquisition
// was preceded by `if e.isLeader.Load() { ... return }` (the instance does not lead for the rest of the section).
type atomicRec struct {
	field, op, arg, fn string
	held               lockset
	blk, run           int
	sect               string
	guard              bool
	pos                string
}

func baseType(t string) string {
	t = strings.TrimPrefix(t, "*")
	if i := strings.LastIndex(t, "."); i >= 0 && !strings.HasPrefix(t, "atomic.") && !strings.HasPrefix(t, "sync.") {
		return t
	}
	return t
}

// typeOfExpr resolves the struct type of an expression inside function fn (receiver-rooted chains).
func (la *lockAnalysis) typeOfExpr(e ast.Expr, env map[string]string) string {
	switch e := e.(type) {
	case *ast.Ident:
		return env[e.Name]
	case *ast.ParenExpr:
		return la.typeOfExpr(e.X, env)
	case *ast.StarExpr:
		return la.typeOfExpr(e.X, env)
	case *ast.UnaryExpr:
		// e := &kvElection{...} (the constructor)
		if e.Op == token.AND {
			if cl, ok := e.X.(*ast.CompositeLit); ok && ctorLits[exprText(cl.Type)] {
				return exprText(cl.Type)
			}
		}
		return ""
	case *ast.SelectorExpr:
		t := la.typeOfExpr(e.X, env)
		if t == "" {
			return ""
		}
		if impl, ok := ifaceImpl[t]; ok {
			t = impl
		}
		if fields, ok := la.p.structs[t]; ok {
			if ft, ok := fields[e.Sel.Name]; ok {
				return baseType(ft)
			}
		}
		return ""
	}
	return ""
}

func isSyncType(t string) bool {
	return strings.HasPrefix(t, "atomic.") || strings.HasPrefix(t, "sync.")
}

// lockOf recognises X.mu.Lock() etc. and returns (lock id, op).
func (la *lockAnalysis) lockOf(call *ast.CallExpr, env map[string]string) (string, string) {
	sel, ok := call.Fun.(*ast.SelectorExpr)
	if !ok {
		return "", ""
	}
	op := sel.Sel.Name
	if op != "Lock" && op != "Unlock" && op != "RLock" && op != "RUnlock" {
		return "", ""
	}
	inner, ok := sel.X.(*ast.SelectorExpr)
	if !ok {
		return "", ""
	}
	owner := la.typeOfExpr(inner.X, env)
	if owner == "" {
		return "", ""
	}
	if fields, ok := la.p.structs[owner]; ok {
		if ft, ok := fields[inner.Sel.Name]; ok && (ft == "sync.Mutex" || ft == "sync.RWMutex") {
			return owner + "." + inner.Sel.Name, op
		}
	}
	return "", ""
}

type walker struct {
	la   *lockAnalysis
	fn   string
	env  map[string]string
	held lockset
	dead bool // the path has returned
	// status.go: straight-line run, current acquisition of kvElection.mu, not-leader guard
	blk, run  int
	sect      string
	guardSect string
	plainCall *ast.CallExpr // the call that is the whole of the current expression statement
}

func (w *walker) fork() *walker {
	return &walker{la: w.la, fn: w.fn, env: w.env, held: w.held.clone(), blk: w.blk, run: w.run, sect: w.sect, guardSect: w.guardSect}
}

func (w *walker) access(e *ast.SelectorExpr, write bool) {
	owner := w.la.typeOfExpr(e.X, w.env)
	if !trackedStructs[owner] {
		return
	}
	ft, ok := w.la.p.structs[owner][e.Sel.Name]
	if !ok || isSyncType(ft) {
		return
	}
	w.la.accesses = append(w.la.accesses, accessRec{owner, e.Sel.Name, write, w.fn, w.held.clone(), w.la.p.pos(e)})
}

// expr walks an expression in read position.
func (w *walker) expr(e ast.Expr) {
	if e == nil {
		return
	}
	switch e := e.(type) {
	case *ast.SelectorExpr:
		w.access(e, false)
		w.expr(e.X)
	case *ast.CallExpr:
		w.call(e)
	case *ast.FuncLit:
		// a closure used as a value (e.g. passed to time.AfterFunc or stored): runs later with no lock held
		w.la.closure(w, e, true)
	case *ast.UnaryExpr:
		if e.Op == token.AND {
			if s, ok := e.X.(*ast.SelectorExpr); ok {
				w.access(s, true) // address taken: treat as write
				w.expr(s.X)
				return
			}
		}
		w.expr(e.X)
	case *ast.BinaryExpr:
		w.expr(e.X)
		w.expr(e.Y)
	case *ast.ParenExpr:
		w.expr(e.X)
	case *ast.StarExpr:
		w.expr(e.X)
	case *ast.IndexExpr:
		w.expr(e.X)
		w.expr(e.Index)
	case *ast.TypeAssertExpr:
		w.expr(e.X)
	case *ast.CompositeLit:
		for _, el := range e.Elts {
			if kv, ok := el.(*ast.KeyValueExpr); ok {
				w.expr(kv.Value)
			} else {
				w.expr(el)
			}
		}
	case *ast.KeyValueExpr:
		w.expr(e.Value)
	case *ast.SliceExpr:
		w.expr(e.X)
	}
}

func (w *walker) call(c *ast.CallExpr) {
	if lock, op := w.la.lockOf(c, w.env); lock != "" {
		switch op {
		case "Lock", "RLock":
			mode := "W"
			if op == "RLock" {
				mode = "R"
			}
			w.la.acquires = append(w.la.acquires, acquireRec{lock, mode, w.fn, w.held.clone(), w.la.p.pos(c)})
			w.held[lock] = mode
			if lock == "kvElection.mu" {
				w.sect = w.la.p.pos(c)
			}
		case "Unlock", "RUnlock":
			delete(w.held, lock)
			if lock == "kvElection.mu" {
				w.sect = ""
			}
		}
		w.run++ // a lock operation ends the straight-line run
		return
	}
	if fld, op := w.atomicOp(c); fld != "" {
		arg := ""
		if len(c.Args) > 0 {
			if bl, ok := c.Args[0].(*ast.BasicLit); ok {
				arg = bl.Value
			} else {
				arg = exprText(c.Args[0])
			}
		}
		w.la.atomics = append(w.la.atomics, atomicRec{fld, op, arg, w.fn, w.held.clone(), w.blk, w.run, w.sect,
			w.sect != "" && w.guardSect == w.sect, w.la.p.pos(c)})
	}
	for _, a := range c.Args {
		w.expr(a)
	}
	switch f := c.Fun.(type) {
	case *ast.FuncLit:
		// called in place
		w.la.closure(w, f, false)
	case *ast.SelectorExpr:
		owner := w.la.typeOfExpr(f.X, w.env)
		if impl, ok := ifaceImpl[owner]; ok {
			owner = impl
		}
		if owner != "" {
			if _, ok := w.la.p.funcs[owner+"."+f.Sel.Name]; ok {
				w.la.calls = append(w.la.calls, w.callRec(c, owner+"."+f.Sel.Name))
				w.expr(f.X)
				return
			}
			// a method of a field (e.g. e.isLeader.Load(), d.timer.Stop()): the field is read
			w.expr(f)
			return
		}
		w.expr(f.X)
	case *ast.Ident:
		if _, ok := w.la.p.funcs[f.Name]; ok {
			w.la.calls = append(w.la.calls, w.callRec(c, f.Name))
		}
	}
}

func (w *walker) callRec(c *ast.CallExpr, callee string) callRec {
	var args []string
	for _, a := range c.Args {
		if bl, ok := a.(*ast.BasicLit); ok {
			args = append(args, bl.Value)
		} else {
			args = append(args, exprText(a))
		}
	}
	return callRec{w.fn, callee, w.held.clone(), w.blk, w.run, w.sect, w.sect != "" && w.guardSect == w.sect,
		w.la.p.pos(c), args, w.plainCall == c}
}

// atomicOp recognises e.<field>.Store(x) / Load() / CompareAndSwap / Swap on an atomic field of kvElection.
func (w *walker) atomicOp(c *ast.CallExpr) (string, string) {
	sel, ok := c.Fun.(*ast.SelectorExpr)
	if !ok {
		return "", ""
	}
	switch sel.Sel.Name {
	case "Store", "Load", "CompareAndSwap", "Swap":
	default:
		return "", ""
	}
	inner, ok := sel.X.(*ast.SelectorExpr)
	if !ok {
		return "", ""
	}
	if w.la.typeOfExpr(inner.X, w.env) != "kvElection" {
		return "", ""
	}
	if ft, ok := w.la.p.structs["kvElection"][inner.Sel.Name]; ok && strings.HasPrefix(ft, "atomic.") {
		return inner.Sel.Name, sel.Sel.Name
	}
	return "", ""
}

// notLeaderGuard: `if e.isLeader.Load() { ...; return ... }` without else.
func (w *walker) notLeaderGuard(s *ast.IfStmt) bool {
	if s.Else != nil || s.Init != nil || len(s.Body.List) == 0 {
		return false
	}
	if _, ok := s.Body.List[len(s.Body.List)-1].(*ast.ReturnStmt); !ok {
		return false
	}
	c, ok := s.Cond.(*ast.CallExpr)
	if !ok {
		return false
	}
	fld, op := w.atomicOp(c)
	return fld == "isLeader" && op == "Load"
}

func (la *lockAnalysis) closure(parent *walker, f *ast.FuncLit, async bool) {
	la.nclosure++
	name := parent.fn
	held := parent.held.clone()
	if async {
		name = fmt.Sprintf("%s$%d", parent.fn, la.nclosure)
		held = lockset{}
		la.roots[name] = true
	}
	w := &walker{la: la, fn: name, env: parent.env, held: held}
	if !async {
		w.sect, w.guardSect = parent.sect, parent.guardSect
	}
	w.block(f.Body.List)
	if !async {
		parent.held = w.held
	}
}

func (w *walker) assignTarget(e ast.Expr) {
	switch e := e.(type) {
	case *ast.SelectorExpr:
		w.access(e, true)
		w.expr(e.X)
	case *ast.IndexExpr:
		w.expr(e.X)
		w.expr(e.Index)
	case *ast.StarExpr:
		w.expr(e.X)
	}
}

// statusStorers: simple names of the functions of the package that store a status field, directly or through a call;
// statusSpliceable: those among them whose body is one straight-line run with the stores at its top level and no lock
// operation, so that a call of one, standing as a statement, executes all its stores then and there (status.go splices
// them into the caller's run). Filled by analyseLocks before the walk.
var statusStorers, statusSpliceable map[string]bool

// calleeName: the simple name of a package function called directly, or of a method called on an identifier that the
// package uses as receiver name of kvElection (x.timer.Stop() and ticker.Stop() are nobody's business here)
func calleeName(c *ast.CallExpr) string {
	switch f := c.Fun.(type) {
	case *ast.SelectorExpr:
		if id, ok := f.X.(*ast.Ident); ok && electionRecvNames[id.Name] {
			return f.Sel.Name
		}
	case *ast.Ident:
		return f.Name
	}
	return ""
}

var electionRecvNames = map[string]bool{}

func directStatusStore(n ast.Node) bool {
	found := false
	ast.Inspect(n, func(x ast.Node) bool {
		if c, ok := x.(*ast.CallExpr); ok {
			if sel, ok := c.Fun.(*ast.SelectorExpr); ok {
				switch sel.Sel.Name {
				case "Store", "CompareAndSwap", "Swap":
					if in, ok := sel.X.(*ast.SelectorExpr); ok && statusFields[in.Sel.Name] {
						found = true
					}
				}
			}
		}
		return !found
	})
	return found
}

func computeStatusStorers(p *pkgInfo) {
	statusStorers, statusSpliceable = map[string]bool{}, map[string]bool{}
	electionRecvNames = map[string]bool{}
	for full, fd := range p.funcs {
		if strings.HasPrefix(full, "kvElection.") && fd.Recv != nil && len(fd.Recv.List) == 1 && len(fd.Recv.List[0].Names) == 1 {
			electionRecvNames[fd.Recv.List[0].Names[0].Name] = true
		}
	}
	simple := func(full string) string {
		if i := strings.LastIndex(full, "."); i >= 0 {
			return full[i+1:]
		}
		return full
	}
	for full, fd := range p.funcs {
		if fd.Body != nil && directStatusStore(fd.Body) {
			statusStorers[simple(full)] = true
		}
	}
	direct := map[string]bool{}
	for k := range statusStorers {
		direct[k] = true
	}
	for changed := true; changed; {
		changed = false
		for full, fd := range p.funcs {
			if fd.Body == nil || statusStorers[simple(full)] {
				continue
			}
			ast.Inspect(fd.Body, func(x ast.Node) bool {
				if c, ok := x.(*ast.CallExpr); ok && statusStorers[calleeName(c)] {
					if _, isLit := c.Fun.(*ast.FuncLit); !isLit {
						statusStorers[simple(full)] = true
						changed = true
					}
				}
				return true
			})
		}
	}
	// spliceable: a method of kvElection that stores directly, whose body consists of simple statements only (which
	// excludes returns, loops, locks, closures, stores behind a test and calls of other storers)
	for full, fd := range p.funcs {
		if fd.Body == nil || !direct[simple(full)] || !strings.HasPrefix(full, "kvElection.") {
			continue
		}
		n := 0
		for f2 := range p.funcs {
			if simple(f2) == simple(full) {
				n++
			}
		}
		if n != 1 {
			continue // the simple name is ambiguous
		}
		ok := true
		for _, st := range fd.Body.List {
			if es, isE := st.(*ast.ExprStmt); isE {
				if c, isC := es.X.(*ast.CallExpr); isC && statusStorers[calleeName(c)] {
					ok = false
				}
			}
			if !simpleStmt(st) {
				ok = false
			}
		}
		if ok {
			statusSpliceable[simple(full)] = true
		}
	}
}

func simpleStmt(s ast.Stmt) bool {
	switch s := s.(type) {
	case *ast.ExprStmt:
		c, isCall := s.X.(*ast.CallExpr)
		if isCall && statusStorers[calleeName(c)] && !statusSpliceable[calleeName(c)] {
			return false // the callee stores status fields in a way that cannot be spliced here: the run ends
		}
		return isCall
	case *ast.AssignStmt, *ast.IncDecStmt, *ast.DeclStmt:
		return true
	case *ast.IfStmt:
		// an if whose branches only call and assign (no return, no loop, no store to a status field) does not end the run:
		// control reaches the statement after it on every path
		if s.Init != nil && !simpleStmt(s.Init) {
			return false
		}
		if touchesStatus(s) {
			return false
		}
		for _, st := range s.Body.List {
			if !simpleStmt(st) {
				return false
			}
		}
		switch e := s.Else.(type) {
		case nil:
		case *ast.BlockStmt:
			for _, st := range e.List {
				if !simpleStmt(st) {
					return false
				}
			}
		case *ast.IfStmt:
			return simpleStmt(e)
		}
		return true
	}
	return false
}

// touchesStatus: the statement contains a store to one of the status fields, a lock operation or a function literal.
func touchesStatus(n ast.Node) bool {
	found := false
	ast.Inspect(n, func(x ast.Node) bool {
		switch x := x.(type) {
		case *ast.FuncLit:
			found = true
		case *ast.CallExpr:
			if statusStorers[calleeName(x)] {
				found = true // a helper that stores a status field
			}
			if sel, ok := x.Fun.(*ast.SelectorExpr); ok {
				switch sel.Sel.Name {
				case "Store", "CompareAndSwap", "Swap":
					if in, ok := sel.X.(*ast.SelectorExpr); ok && statusFields[in.Sel.Name] {
						found = true
					}
				case "Lock", "Unlock", "RLock", "RUnlock":
					found = true
				}
			}
		}
		return !found
	})
	return found
}

func (w *walker) block(list []ast.Stmt) {
	saveBlk, saveRun := w.blk, w.run
	w.la.nblk++
	w.blk, w.run = w.la.nblk, 0
	defer func() { w.blk, w.run = saveBlk, saveRun }()
	for _, s := range list {
		if w.dead {
			return
		}
		if !simpleStmt(s) {
			w.run++
		}
		w.stmt(s)
	}
}

func (w *walker) branches(bodies [][]ast.Stmt, exhaustive bool) {
	var outs []lockset
	for _, b := range bodies {
		f := w.fork()
		f.block(b)
		if !f.dead {
			outs = append(outs, f.held)
		}
	}
	if !exhaustive {
		outs = append(outs, w.held)
	}
	if len(outs) == 0 {
		w.dead = true
		return
	}
	m := outs[0]
	for _, o := range outs[1:] {
		m = meet(m, o)
	}
	w.held = m
}

func (w *walker) stmt(s ast.Stmt) {
	switch s := s.(type) {
	case *ast.ExprStmt:
		if c, ok := s.X.(*ast.CallExpr); ok {
			w.plainCall = c
		}
		w.expr(s.X)
		w.plainCall = nil
	case *ast.AssignStmt:
		for _, r := range s.Rhs {
			w.expr(r)
		}
		for _, l := range s.Lhs {
			w.assignTarget(l)
		}
		// simple aliases of tracked objects: x := e.disconnectHandler
		if len(s.Lhs) == 1 && len(s.Rhs) == 1 && s.Tok == token.DEFINE {
			if id, ok := s.Lhs[0].(*ast.Ident); ok {
				if t := w.la.typeOfExpr(s.Rhs[0], w.env); t != "" {
					w.env[id.Name] = t
				}
			}
		}
	case *ast.IncDecStmt:
		w.assignTarget(s.X)
	case *ast.DeferStmt:
		if lock, op := w.la.lockOf(s.Call, w.env); lock != "" && (op == "Unlock" || op == "RUnlock") {
			return // held until the function returns
		}
		if f, ok := s.Call.Fun.(*ast.FuncLit); ok {
			// runs at function exit with whatever is held then; approximated with the current set
			w.la.closure(w.fork(), f, false)
			return
		}
		w.fork().call(s.Call)
	case *ast.GoStmt:
		if f, ok := s.Call.Fun.(*ast.FuncLit); ok {
			for _, a := range s.Call.Args {
				w.expr(a)
			}
			w.la.closure(w, f, true)
			return
		}
		// go e.method(args): the callee starts with no lock held
		for _, a := range s.Call.Args {
			w.expr(a)
		}
		if sel, ok := s.Call.Fun.(*ast.SelectorExpr); ok {
			owner := w.la.typeOfExpr(sel.X, w.env)
			if _, ok := w.la.p.funcs[owner+"."+sel.Sel.Name]; ok {
				w.la.roots[owner+"."+sel.Sel.Name] = true
			}
			w.expr(sel.X)
		} else if id, ok := s.Call.Fun.(*ast.Ident); ok {
			// go onDemote(): a function value
			_ = id
		}
	case *ast.ReturnStmt:
		for _, r := range s.Results {
			w.expr(r)
		}
		w.dead = true
	case *ast.IfStmt:
		if s.Init != nil {
			w.stmt(s.Init)
		}
		w.expr(s.Cond)
		bodies := [][]ast.Stmt{s.Body.List}
		exhaustive := false
		if s.Else != nil {
			exhaustive = true
			switch e := s.Else.(type) {
			case *ast.BlockStmt:
				bodies = append(bodies, e.List)
			case *ast.IfStmt:
				bodies = append(bodies, []ast.Stmt{e})
			}
		}
		w.branches(bodies, exhaustive)
		if w.sect != "" && w.held["kvElection.mu"] == "W" && w.notLeaderGuard(s) {
			w.guardSect = w.sect
		}
	case *ast.ForStmt:
		if s.Init != nil {
			w.stmt(s.Init)
		}
		w.expr(s.Cond)
		f := w.fork()
		f.block(s.Body.List)
		if s.Post != nil {
			f.stmt(s.Post)
		}
		if s.Cond == nil && !hasBreak(s.Body) {
			// for { ... } without break: only left by return
			w.dead = true
		}
	case *ast.RangeStmt:
		w.expr(s.X)
		f := w.fork()
		f.block(s.Body.List)
	case *ast.SelectStmt:
		var bodies [][]ast.Stmt
		for _, c := range s.Body.List {
			cc := c.(*ast.CommClause)
			var b []ast.Stmt
			if cc.Comm != nil {
				b = append(b, cc.Comm)
			}
			b = append(b, cc.Body...)
			bodies = append(bodies, b)
		}
		w.branches(bodies, true)
	case *ast.SwitchStmt:
		if s.Init != nil {
			w.stmt(s.Init)
		}
		w.expr(s.Tag)
		var bodies [][]ast.Stmt
		hasDefault := false
		for _, c := range s.Body.List {
			cc := c.(*ast.CaseClause)
			if cc.List == nil {
				hasDefault = true
			}
			for _, x := range cc.List {
				w.expr(x)
			}
			bodies = append(bodies, cc.Body)
		}
		w.branches(bodies, hasDefault)
	case *ast.TypeSwitchStmt:
		var bodies [][]ast.Stmt
		for _, c := range s.Body.List {
			bodies = append(bodies, c.(*ast.CaseClause).Body)
		}
		w.branches(bodies, false)
	case *ast.BlockStmt:
		w.block(s.List)
	case *ast.DeclStmt:
		if gd, ok := s.Decl.(*ast.GenDecl); ok {
			for _, sp := range gd.Specs {
				if vs, ok := sp.(*ast.ValueSpec); ok {
					for _, v := range vs.Values {
						w.expr(v)
					}
				}
			}
		}
	case *ast.SendStmt:
		w.expr(s.Chan)
		w.expr(s.Value)
	case *ast.LabeledStmt:
		w.stmt(s.Stmt)
	case *ast.BranchStmt:
		if s.Tok == token.CONTINUE || s.Tok == token.BREAK {
			w.dead = true
		}
	}
}

func hasBreak(b *ast.BlockStmt) bool {
	found := false
	ast.Inspect(b, func(n ast.Node) bool {
		switch n := n.(type) {
		case *ast.BranchStmt:
			if n.Tok == token.BREAK {
				found = true
			}
		case *ast.ForStmt, *ast.RangeStmt, *ast.SelectStmt, *ast.SwitchStmt, *ast.FuncLit:
			return false
		}
		return true
	})
	return found
}

func coqLockset(l lockset) string {
	var ks []string
	for k := range l {
		ks = append(ks, k)
	}
	sort.Strings(ks)
	var parts []string
	for _, k := range ks {
		m := "LR"
		if l[k] == "W" {
			m = "LW"
		}
		parts = append(parts, fmt.Sprintf("(%s, %s)", coqString(k), m))
	}
	return "[" + strings.Join(parts, "; ") + "]"
}

func genLocks(p *pkgInfo) string {
	la, entryMust, entryMay := analyseLocks(p)
	return emitLocks(la, entryMust, entryMay)
}

func analyseLocks(p *pkgInfo) (*lockAnalysis, func(string) lockset, func(string) lockset) {
	la := &lockAnalysis{p: p, roots: map[string]bool{}}
	computeStatusStorers(p)
	var names []string
	for n := range p.funcs {
		names = append(names, n)
	}
	sort.Strings(names)
	analysed := map[string]bool{}
	for _, n := range names {
		fd := p.funcs[n]
		if fd.Body == nil {
			continue
		}
		env := map[string]string{}
		owner := ""
		if fd.Recv != nil && len(fd.Recv.List) == 1 {
			owner = recvName(fd.Recv.List[0].Type)
			if len(fd.Recv.List[0].Names) == 1 {
				env[fd.Recv.List[0].Names[0].Name] = owner
			}
		}
		// only functions that touch the tracked structs matter; analysing all is harmless
		if fd.Type.Params != nil {
			for _, prm := range fd.Type.Params.List {
				t := baseType(exprText(prm.Type))
				for _, nm := range prm.Names {
					if trackedStructs[t] || ifaceImpl[t] != "" {
						env[nm.Name] = t
					}
				}
			}
		}
		w := &walker{la: la, fn: n, env: env, held: lockset{}}
		w.block(fd.Body.List)
		analysed[n] = true
		// exported functions and methods can be called by anybody with no lock held
		if ast.IsExported(fd.Name.Name) {
			la.roots[n] = true
		}
	}
	// handlers registered with the connection monitor / the nats connection run with no lock held
	for _, h := range []string{"disconnectHandler.handleDisconnect", "kvElection.handleReconnect", "natsConnectionMonitor.handleDisconnect",
		"natsConnectionMonitor.handleReconnect", "natsConnectionMonitor.handleClosed"} {
		if analysed[h] {
			la.roots[h] = true
		}
	}
	// entry locksets: must (meet over call sites) and may (join over call sites)
	must := map[string]lockset{}
	may := map[string]lockset{}
	defined := map[string]bool{}
	for r := range la.roots {
		must[r] = lockset{}
		defined[r] = true
	}
	for n := range analysed {
		may[n] = lockset{}
	}
	for it := 0; it < 50; it++ {
		changed := false
		for _, c := range la.calls {
			cm, ok := must[c.caller]
			if !ok && !strings.Contains(c.caller, "$") {
				continue
			}
			if !ok {
				cm = lockset{}
			}
			eff := c.held.clone()
			for k, v := range cm {
				if _, ok := eff[k]; !ok {
					eff[k] = v
				}
			}
			if la.roots[c.callee] {
				// also callable with nothing held
			} else if !defined[c.callee] {
				must[c.callee] = eff
				defined[c.callee] = true
				changed = true
			} else {
				m := meet(must[c.callee], eff)
				if len(m) != len(must[c.callee]) {
					must[c.callee] = m
					changed = true
				} else {
					for k, v := range m {
						if must[c.callee][k] != v {
							must[c.callee] = m
							changed = true
							break
						}
					}
				}
			}
			// may
			cmay := may[c.caller]
			if cmay == nil {
				cmay = lockset{}
			}
			tgt := may[c.callee]
			if tgt == nil {
				tgt = lockset{}
				may[c.callee] = tgt
			}
			for k, v := range c.held {
				if _, ok := tgt[k]; !ok {
					tgt[k] = v
					changed = true
				}
			}
			for k, v := range cmay {
				if _, ok := tgt[k]; !ok {
					tgt[k] = v
					changed = true
				}
			}
		}
		if !changed {
			break
		}
	}
	entryMust := func(fn string) lockset {
		base := fn
		if i := strings.Index(fn, "$"); i >= 0 {
			return lockset{} // asynchronous closure
		} else if m, ok := must[base]; ok {
			return m
		}
		return lockset{}
	}
	entryMay := func(fn string) lockset {
		if strings.Contains(fn, "$") {
			return lockset{}
		}
		if m, ok := may[fn]; ok {
			return m
		}
		return lockset{}
	}
	return la, entryMust, entryMay
}

func emitLocks(la *lockAnalysis, entryMust, entryMay func(string) lockset) string {
	var b strings.Builder
	b.WriteString("From LE Require Import Base Locks.\nOpen Scope string_scope.\n\n")
	b.WriteString("Definition accesses : list access :=\n  [")
	first := true
	for _, a := range la.accesses {
		eff := a.held.clone()
		for k, v := range entryMust(a.fn) {
			if _, ok := eff[k]; !ok {
				eff[k] = v
			}
		}
		fnBase := a.fn
		if i := strings.Index(fnBase, "$"); i >= 0 {
			fnBase = fnBase[:i]
		}
		ctor := ctorFuncs[fnBase]
		if !first {
			b.WriteString(";\n   ")
		}
		first = false
		fmt.Fprintf(&b, "mkAcc %s %s %s %s %s %s %s", coqString(a.strct), coqString(a.field), boolStr(a.write), coqString(a.fn), coqLockset(eff), boolStr(ctor), coqString(a.pos))
	}
	b.WriteString("].\n\nDefinition acquires : list acquire :=\n  [")
	first = true
	for _, q := range la.acquires {
		eff := q.held.clone()
		for k, v := range entryMay(q.fn) {
			if _, ok := eff[k]; !ok {
				eff[k] = v
			}
		}
		if !first {
			b.WriteString(";\n   ")
		}
		first = false
		m := "LR"
		if q.mode == "W" {
			m = "LW"
		}
		fmt.Fprintf(&b, "mkAcq %s %s %s %s %s", coqString(q.lock), m, coqString(q.fn), coqLockset(eff), coqString(q.pos))
	}
	b.WriteString("].\n")
	return b.String()
}

func init() { register("GenLocks.v", genLocks) }
