package main

// Unit GenErrors.v: IsPermanentError / IsTransientError as Gallina functions over
// the error algebra of Err.v (property C15).

import (
	"go/ast"
	"go/token"
	"strings"
)

type errDialect struct {
	param string
}

var sentinelMap = map[string]string{
	"context.Canceled":         "SCanceled",
	"context.DeadlineExceeded": "SDeadline",
	"ErrInvalidConfig":         "SInvalidConfig",
	"ErrPermissionDenied":      "SPermissionDenied",
	"ErrBucketNotFound":        "SBucketNotFound",
}

func (d *errDialect) isParam(e ast.Expr) bool {
	id, ok := e.(*ast.Ident)
	return ok && id.Name == d.param
}

func (d *errDialect) expr(c *compiler, e ast.Expr) (string, bool) {
	switch e := e.(type) {
	case *ast.BinaryExpr:
		// err == nil / err != nil: the _nn functions are only applied to non-nil errors
		if d.isParam(e.X) {
			if id, ok := e.Y.(*ast.Ident); ok && id.Name == "nil" {
				if e.Op == token.EQL {
					return "false", true
				}
				if e.Op == token.NEQ {
					return "true", true
				}
			}
		}
	case *ast.CallExpr:
		switch callName(e) {
		case "errors.Is":
			if len(e.Args) == 2 && d.isParam(e.Args[0]) {
				var key string
				switch t := e.Args[1].(type) {
				case *ast.Ident:
					key = t.Name
				case *ast.SelectorExpr:
					key = selName(t)
				}
				if s, ok := sentinelMap[key]; ok {
					return "(err_is " + d.param + " " + s + ")", true
				}
				c.fail(e, "errors.Is target %q is not a sentinel of the error model", key)
			}
		case "errors.As":
			// errors.As(err, &x) with x declared as *TimeoutError
			if len(e.Args) == 2 && d.isParam(e.Args[0]) {
				if u, ok := e.Args[1].(*ast.UnaryExpr); ok && u.Op == token.AND {
					if id, ok := u.X.(*ast.Ident); ok && c.types["var:"+id.Name] == "*TimeoutError" {
						return "(err_as_timeout " + d.param + ")", true
					}
				}
			}
			c.fail(e, "unsupported errors.As target")
		case "strings.ToLower":
			if len(e.Args) == 1 {
				return "(lower " + c.expr(e.Args[0]) + ")", true
			}
		case "strings.Contains":
			if len(e.Args) == 2 {
				return "(contains " + c.expr(e.Args[0]) + " " + c.expr(e.Args[1]) + ")", true
			}
		case "IsPermanentError":
			if len(e.Args) == 1 && d.isParam(e.Args[0]) {
				return "(is_permanent_nn " + d.param + ")", true
			}
		case d.param + ".Error":
			if len(e.Args) == 0 {
				return "(msg " + d.param + ")", true
			}
		}
	case *ast.CompositeLit:
		// []string{"a", "b"}
		if at, ok := e.Type.(*ast.ArrayType); ok && exprText(at.Elt) == "string" {
			var parts []string
			for _, el := range e.Elts {
				parts = append(parts, c.expr(el))
			}
			return "[" + strings.Join(parts, "; ") + "]", true
		}
	}
	return "", false
}

func (d *errDialect) ret(c *compiler, results []ast.Expr) string {
	if len(results) != 1 {
		c.fail(results[0], "unexpected return arity")
	}
	return c.expr(results[0])
}

// if _, ok := err.(*TimeoutError); ok { ... }
func (d *errDialect) ifInit(c *compiler, s *ast.IfStmt) (string, bool) {
	as, ok := s.Init.(*ast.AssignStmt)
	if !ok || len(as.Lhs) != 2 || len(as.Rhs) != 1 {
		return "", false
	}
	ta, ok := as.Rhs[0].(*ast.TypeAssertExpr)
	if !ok || !d.isParam(ta.X) || exprText(ta.Type) != "*TimeoutError" {
		return "", false
	}
	okid, ok := as.Lhs[1].(*ast.Ident)
	if !ok {
		return "", false
	}
	if cid, ok := s.Cond.(*ast.Ident); !ok || cid.Name != okid.Name {
		return "", false
	}
	return "(top_is_timeout " + d.param + ")", true
}

func genErrFunc(p *pkgInfo, goName, coqName string) (nn string, nilval string, pos string) {
	fn := p.fn(goName)
	if len(fn.Type.Params.List) != 1 || len(fn.Type.Params.List[0].Names) != 1 || exprText(fn.Type.Params.List[0].Type) != "error" {
		panic(goName + ": unexpected signature")
	}
	param := fn.Type.Params.List[0].Names[0].Name
	d := &errDialect{param: param}
	c := &compiler{fset: p.fset, d: d, types: map[string]string{param: "err"}, funcs: p.funcs, pkgConsts: p.consts, pkgVars: p.vars}
	// the first statement must be the nil check: if err == nil { return <bool> }
	body := fn.Body.List
	first, ok := body[0].(*ast.IfStmt)
	okNil := false
	if ok && first.Init == nil && first.Else == nil && len(first.Body.List) == 1 {
		if be, ok := first.Cond.(*ast.BinaryExpr); ok && be.Op == token.EQL && d.isParam(be.X) {
			if id, ok := be.Y.(*ast.Ident); ok && id.Name == "nil" {
				if r, ok := first.Body.List[0].(*ast.ReturnStmt); ok && len(r.Results) == 1 {
					if v, ok := r.Results[0].(*ast.Ident); ok && (v.Name == "true" || v.Name == "false") {
						nilval = v.Name
						okNil = true
					}
				}
			}
		}
	}
	if !okNil {
		c.fail(fn, "%s: first statement is not `if %s == nil { return <bool> }`", goName, param)
	}
	// local types: string variables from := of string-valued calls, var x *TimeoutError
	ast.Inspect(fn.Body, func(n ast.Node) bool {
		switch n := n.(type) {
		case *ast.AssignStmt:
			if n.Tok == token.DEFINE && len(n.Lhs) == 1 && len(n.Rhs) == 1 {
				if id, ok := n.Lhs[0].(*ast.Ident); ok {
					switch r := n.Rhs[0].(type) {
					case *ast.CallExpr:
						if cn := callName(r); cn == "strings.ToLower" || cn == param+".Error" {
							c.types[id.Name] = "string"
						}
					case *ast.CompositeLit:
						c.types[id.Name] = "list string"
					}
				}
			}
		case *ast.DeclStmt:
			if gd, ok := n.Decl.(*ast.GenDecl); ok && gd.Tok == token.VAR {
				for _, s := range gd.Specs {
					vs := s.(*ast.ValueSpec)
					for _, nm := range vs.Names {
						c.types["var:"+nm.Name] = exprText(vs.Type)
					}
				}
			}
		}
		return true
	})
	out := c.stmts(body[1:])
	if out == "" {
		c.fail(fn, "%s: body falls off the end", goName)
	}
	return "Definition " + coqName + "_nn (" + param + " : err) : bool :=\n  " + out + ".\n", nilval, p.pos(fn)
}

func genErrors(p *pkgInfo) string {
	var b strings.Builder
	b.WriteString("From Coq Require Import ZArith String List Bool.\nFrom LE Require Import Base Strs Err.\nImport ListNotations.\n\n")
	nn, nv, pos := genErrFunc(p, "IsPermanentError", "is_permanent")
	b.WriteString("(* " + pos + " *)\n" + nn)
	b.WriteString("Definition is_permanent (oe : option err) : bool :=\n  match oe with None => " + nv + " | Some e => is_permanent_nn e end.\n\n")
	nn, nv, pos = genErrFunc(p, "IsTransientError", "is_transient")
	b.WriteString("(* " + pos + " *)\n" + nn)
	b.WriteString("Definition is_transient (oe : option err) : bool :=\n  match oe with None => " + nv + " | Some e => is_transient_nn e end.\n")
	return b.String()
}

func init() { register("GenErrors.v", genErrors) }
