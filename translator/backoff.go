package main

// Unit GenBackoff.v: CalculateBackoff over exact rationals, DefaultBackoffConfig,
// CircuitBreaker.Call as a state-passing function, and the acquisition-round
// constants (property C17).

import (
	"fmt"
	"go/ast"
	"go/token"
	"strconv"
	"strings"
)

// ---------------------------------------------------------------- CalculateBackoff

type boDialect struct {
	cfg, attempt string
}

var boFields = map[string]string{"InitialBackoff": "Z", "MaxBackoff": "Z", "BackoffMultiplier": "Q", "Jitter": "Q"}

func (d *boDialect) expr(c *compiler, e ast.Expr) (string, bool) {
	switch e := e.(type) {
	case *ast.SelectorExpr:
		if x, ok := e.X.(*ast.Ident); ok && x.Name == d.cfg {
			if _, ok := boFields[e.Sel.Name]; ok {
				return "(b_" + e.Sel.Name + " " + d.cfg + ")", true
			}
			c.fail(e, "unknown BackoffConfig field %s", e.Sel.Name)
		}
		if selName(e) == "math.MaxInt64" {
			return "(inject_Z 9223372036854775807)", true
		}
	case *ast.BasicLit:
		// numeric literals inside float expressions
		if e.Kind == token.INT {
			return "(inject_Z " + e.Value + ")", true
		}
		if e.Kind == token.FLOAT {
			return floatLit(c, e), true
		}
	case *ast.CallExpr:
		switch callName(e) {
		case "float64":
			if len(e.Args) == 1 {
				if c.typeOf(e.Args[0]) == "Z" {
					return "(inject_Z " + c.zexpr(e.Args[0], d) + ")", true
				}
			}
		case "math.Pow":
			if len(e.Args) == 2 {
				if conv, ok := e.Args[1].(*ast.CallExpr); ok && callName(conv) == "float64" && len(conv.Args) == 1 {
					if id, ok := conv.Args[0].(*ast.Ident); ok && id.Name == d.attempt {
						return "(Qpower " + c.expr(e.Args[0]) + " " + d.attempt + ")", true
					}
				}
			}
			c.fail(e, "unsupported math.Pow form")
		case "rand.Float64":
			return "r", true
		case "math.IsNaN":
			// exact rationals have no NaN: the branch is the float-only repair of 0*Inf
			return "false", true
		}
	}
	return "", false
}

// zexpr: integer-typed leaf (a config field of duration type)
func (c *compiler) zexpr(e ast.Expr, d *boDialect) string {
	if s, ok := e.(*ast.SelectorExpr); ok {
		if x, ok := s.X.(*ast.Ident); ok && x.Name == d.cfg && boFields[s.Sel.Name] == "Z" {
			return "(b_" + s.Sel.Name + " " + d.cfg + ")"
		}
	}
	c.fail(e, "unsupported integer expression in float conversion")
	return ""
}

func floatLit(c *compiler, e *ast.BasicLit) string {
	// decimal literal a.b -> (ab # 10^len(b))
	v := e.Value
	if strings.ContainsAny(v, "eEpPxX_") {
		c.fail(e, "unsupported float literal %s", v)
	}
	parts := strings.SplitN(v, ".", 2)
	frac := ""
	if len(parts) == 2 {
		frac = parts[1]
	}
	num := strings.TrimLeft(parts[0]+frac, "0")
	if num == "" {
		num = "0"
	}
	den := "1" + strings.Repeat("0", len(frac))
	return "(" + num + " # " + den + ")"
}

func (d *boDialect) ret(c *compiler, results []ast.Expr) string {
	if len(results) == 1 {
		if call, ok := results[0].(*ast.CallExpr); ok && callName(call) == "time.Duration" && len(call.Args) == 1 {
			if s, ok := call.Args[0].(*ast.SelectorExpr); ok && selName(s) == "math.MaxInt64" {
				return "9223372036854775807%Z"
			}
			if c.typeOf(call.Args[0]) == "Q" {
				return "(qtrunc " + c.expr(call.Args[0]) + ")"
			}
		}
	}
	c.fail(results[0], "unsupported return value in CalculateBackoff")
	return ""
}

func (d *boDialect) ifInit(c *compiler, s *ast.IfStmt) (string, bool) { return "", false }

func genCalculateBackoff(p *pkgInfo) string {
	st := p.structs["BackoffConfig"]
	want := map[string]string{"InitialBackoff": "time.Duration", "MaxBackoff": "time.Duration", "BackoffMultiplier": "float64", "Jitter": "float64"}
	for k, v := range want {
		if st[k] != v {
			panic(fmt.Sprintf("BackoffConfig.%s has type %q, expected %q", k, st[k], v))
		}
	}
	fn := p.fn("CalculateBackoff")
	ps := fn.Type.Params.List
	if len(ps) != 2 || exprText(ps[0].Type) != "BackoffConfig" || exprText(ps[1].Type) != "int" {
		panic("CalculateBackoff: unexpected signature")
	}
	d := &boDialect{cfg: ps[0].Names[0].Name, attempt: ps[1].Names[0].Name}
	c := &compiler{fset: p.fset, d: d, types: map[string]string{d.attempt: "Z"}, funcs: p.funcs, pkgConsts: p.consts, pkgVars: p.vars}
	for f, t := range boFields {
		c.types[d.cfg+"."+f] = t
	}
	c.types["call:float64"] = "Q"
	c.types["call:math.Pow"] = "Q"
	c.types["call:rand.Float64"] = "Q"
	c.types["math.MaxInt64"] = "Q"
	// all locals of this function are floats
	ast.Inspect(fn.Body, func(n ast.Node) bool {
		if a, ok := n.(*ast.AssignStmt); ok && a.Tok == token.DEFINE {
			for _, l := range a.Lhs {
				if id, ok := l.(*ast.Ident); ok {
					c.types[id.Name] = "Q"
				}
			}
		}
		return true
	})
	body := c.stmts(fn.Body.List)
	return "(* " + p.pos(fn) + " ; r is the value drawn by rand.Float64(), 0 <= r < 1 *)\n" +
		"Definition calculate_backoff (" + d.cfg + " : bcfg) (" + d.attempt + " : Z) (r : Q) : Z :=\n  " + body + ".\n\n"
}

// ---------------------------------------------------------------- DefaultBackoffConfig / constants

func durationExpr(p *pkgInfo, e ast.Expr) string {
	switch e := e.(type) {
	case *ast.BasicLit:
		if e.Kind == token.INT {
			return e.Value
		}
	case *ast.ParenExpr:
		return "(" + durationExpr(p, e.X) + ")"
	case *ast.SelectorExpr:
		switch selName(e) {
		case "time.Nanosecond":
			return "1"
		case "time.Microsecond":
			return "1000"
		case "time.Millisecond":
			return "1000000"
		case "time.Second":
			return "1000000000"
		case "time.Minute":
			return "60000000000"
		case "time.Hour":
			return "3600000000000"
		}
	case *ast.Ident:
		if v, ok := p.consts[e.Name]; ok {
			return durationExpr(p, v)
		}
	case *ast.BinaryExpr:
		op := map[token.Token]string{token.MUL: "*", token.ADD: "+", token.SUB: "-"}[e.Op]
		if op != "" {
			return "(" + durationExpr(p, e.X) + " " + op + " " + durationExpr(p, e.Y) + ")"
		}
		if e.Op == token.QUO {
			return "(Z.quot " + durationExpr(p, e.X) + " " + durationExpr(p, e.Y) + ")"
		}
	}
	q := p.fset.Position(e.Pos())
	panic(fmt.Sprintf("%s:%d: unsupported constant duration expression", q.Filename, q.Line))
}

func genDefaultBackoff(p *pkgInfo) string {
	fn := p.fn("DefaultBackoffConfig")
	if len(fn.Body.List) != 1 {
		panic("DefaultBackoffConfig: unexpected body")
	}
	ret, ok := fn.Body.List[0].(*ast.ReturnStmt)
	if !ok || len(ret.Results) != 1 {
		panic("DefaultBackoffConfig: unexpected body")
	}
	lit, ok := ret.Results[0].(*ast.CompositeLit)
	if !ok {
		panic("DefaultBackoffConfig: unexpected body")
	}
	vals := map[string]string{}
	c := &compiler{fset: p.fset}
	for _, el := range lit.Elts {
		kv, ok := el.(*ast.KeyValueExpr)
		if !ok {
			panic("DefaultBackoffConfig: positional literal")
		}
		k := kv.Key.(*ast.Ident).Name
		switch boFields[k] {
		case "Z":
			vals[k] = "(" + durationExpr(p, kv.Value) + ")%Z"
		case "Q":
			bl, ok := kv.Value.(*ast.BasicLit)
			if !ok {
				panic("DefaultBackoffConfig: non-literal float")
			}
			if bl.Kind == token.INT {
				vals[k] = "(inject_Z " + bl.Value + ")"
			} else {
				vals[k] = floatLit(c, bl)
			}
		default:
			panic("DefaultBackoffConfig: unknown field " + k)
		}
	}
	for k := range boFields {
		if _, ok := vals[k]; !ok {
			if boFields[k] == "Z" {
				vals[k] = "0%Z"
			} else {
				vals[k] = "(0 # 1)"
			}
		}
	}
	return "(* " + p.pos(fn) + " *)\nDefinition default_backoff : bcfg :=\n  mkBcfg " + vals["InitialBackoff"] + " " + vals["MaxBackoff"] +
		" " + vals["BackoffMultiplier"] + " " + vals["Jitter"] + ".\n\n"
}

func genRoundConsts(p *pkgInfo) string {
	var b strings.Builder
	for _, n := range []string{"jitterMin", "jitterMax"} {
		v, ok := p.consts[n]
		if !ok {
			panic("constant " + n + " not found")
		}
		b.WriteString("Definition round_" + n + " : Z := (" + durationExpr(p, v) + ")%Z.\n")
	}
	v, ok := p.consts["maxRetries"]
	if !ok {
		panic("constant maxRetries not found")
	}
	bl, ok := v.(*ast.BasicLit)
	if !ok || bl.Kind != token.INT {
		panic("maxRetries: not an integer literal")
	}
	b.WriteString("Definition round_maxRetries : Z := " + bl.Value + "%Z.\n\n")
	return b.String()
}

// ---------------------------------------------------------------- CircuitBreaker.Call

// The method body is compiled with the receiver's fields as let-bound variables;
// every return yields (result, new breaker). fn() is an input: fn_fails : bool.
type cbDialect struct {
	recv string
}

var cbFields = []string{"failureThreshold", "cooldownPeriod", "state", "failures", "lastFailureTime"}

func (d *cbDialect) field(e ast.Expr) (string, bool) {
	if s, ok := e.(*ast.SelectorExpr); ok {
		if x, ok := s.X.(*ast.Ident); ok && x.Name == d.recv {
			for _, f := range cbFields {
				if f == s.Sel.Name {
					return "cb_" + f, true
				}
			}
		}
	}
	return "", false
}

func (d *cbDialect) expr(c *compiler, e ast.Expr) (string, bool) {
	if f, ok := d.field(e); ok {
		return f, true
	}
	switch e := e.(type) {
	case *ast.Ident:
		switch e.Name {
		case "CircuitStateClosed":
			return "CBClosed", true
		case "CircuitStateOpen":
			return "CBOpen", true
		case "CircuitStateHalfOpen":
			return "CBHalfOpen", true
		}
	case *ast.BinaryExpr:
		// cb.state == CircuitStateOpen
		if f, ok := d.field(e.X); ok && f == "cb_state" && (e.Op == token.EQL || e.Op == token.NEQ) {
			s := "(cbstate_eqb " + f + " " + c.expr(e.Y) + ")"
			if e.Op == token.NEQ {
				s = "(negb " + s + ")"
			}
			return s, true
		}
		// err != nil  (err := fn())
		if id, ok := e.X.(*ast.Ident); ok && c.types[id.Name] == "fnerr" {
			if y, ok := e.Y.(*ast.Ident); ok && y.Name == "nil" {
				if e.Op == token.NEQ {
					return "fn_fails", true
				}
				if e.Op == token.EQL {
					return "(negb fn_fails)", true
				}
			}
		}
	case *ast.CallExpr:
		switch callName(e) {
		case "time.Since":
			if len(e.Args) == 1 {
				return "(wrap64 (now - " + c.expr(e.Args[0]) + "))%Z", true
			}
		case "time.Now":
			return "now", true
		}
	}
	return "", false
}

func (d *cbDialect) ret(c *compiler, results []ast.Expr) string {
	if len(results) != 1 {
		c.fail(results[0], "unexpected return arity")
	}
	st := "(mkCB cb_failureThreshold cb_cooldownPeriod cb_state cb_failures cb_lastFailureTime)"
	switch r := results[0].(type) {
	case *ast.Ident:
		if r.Name == "nil" {
			return "(CROk, " + st + ")"
		}
		if c.types[r.Name] == "fnerr" {
			return "(CRErr, " + st + ")"
		}
	case *ast.CallExpr:
		if callName(r) == "fmt.Errorf" && len(r.Args) == 1 {
			arg := r.Args[0]
			// the message may be a named package constant
			if id, ok := arg.(*ast.Ident); ok {
				if v, ok := c.pkgConsts[id.Name]; ok {
					arg = v
				}
			}
			if bl, ok := arg.(*ast.BasicLit); ok {
				s, _ := strconv.Unquote(bl.Value)
				if s == "circuit breaker is open" {
					return "(CRRejected, " + st + ")"
				}
			}
		}
	}
	c.fail(results[0], "unsupported return value in CircuitBreaker.Call")
	return ""
}

func (d *cbDialect) ifInit(c *compiler, s *ast.IfStmt) (string, bool) { return "", false }

// rewriteCB turns field assignments / increments into assignments to the cb_ variables
// and drops lock handling; err := fn() is dropped (fn_fails is the input), but its position
// matters: a CRRejected return must come before it.
func genBreaker(p *pkgInfo) string {
	st := p.structs["CircuitBreaker"]
	want := map[string]string{"failureThreshold": "int", "cooldownPeriod": "time.Duration", "state": "CircuitState", "failures": "int", "lastFailureTime": "time.Time"}
	for k, v := range want {
		if st[k] != v {
			panic(fmt.Sprintf("CircuitBreaker.%s has type %q, expected %q", k, st[k], v))
		}
	}
	fn := p.fn("CircuitBreaker.Call")
	recv := fn.Recv.List[0].Names[0].Name
	d := &cbDialect{recv: recv}
	c := &compiler{fset: p.fset, d: d, types: map[string]string{
		"cb_failureThreshold": "Z", "cb_cooldownPeriod": "Z", "cb_failures": "Z", "cb_lastFailureTime": "Z", "cb_state": "cbstate",
		recv + ".failureThreshold": "Z", recv + ".cooldownPeriod": "Z", recv + ".failures": "Z", recv + ".lastFailureTime": "Z",
		"call:time.Since": "Z", "call:time.Now": "Z",
	}, pkgConsts: p.consts}
	var out []ast.Stmt
	sawFn := false
	var rewrite func(list []ast.Stmt) []ast.Stmt
	rewrite = func(list []ast.Stmt) []ast.Stmt {
		var res []ast.Stmt
		for _, s := range list {
			switch s := s.(type) {
			case *ast.ExprStmt:
				if call, ok := s.X.(*ast.CallExpr); ok {
					n := callName(call)
					if n == recv+".mu.Lock" {
						continue
					}
					// cb.helper(): a method of the breaker without parameters and results, called with the lock held
					// (a block of Call extracted by a refactoring): its statements, in place
					if strings.HasPrefix(n, recv+".") && len(call.Args) == 0 {
						if h, ok := p.funcs["CircuitBreaker."+strings.TrimPrefix(n, recv+".")]; ok && h.Body != nil &&
							h.Type.Results == nil && (h.Type.Params == nil || len(h.Type.Params.List) == 0) &&
							len(h.Recv.List[0].Names) == 1 && h.Recv.List[0].Names[0].Name == recv && !containsReturn(h.Body.List) {
							res = append(res, rewrite(h.Body.List)...)
							continue
						}
					}
				}
				c.fail(s, "unsupported expression statement in CircuitBreaker.Call")
			case *ast.DeferStmt:
				if callName(s.Call) == recv+".mu.Unlock" {
					continue
				}
				c.fail(s, "unsupported defer in CircuitBreaker.Call")
			case *ast.AssignStmt:
				if len(s.Lhs) == 1 && len(s.Rhs) == 1 {
					if call, ok := s.Rhs[0].(*ast.CallExpr); ok && callName(call) == "fn" && s.Tok == token.DEFINE {
						id := s.Lhs[0].(*ast.Ident)
						c.types[id.Name] = "fnerr"
						sawFn = true
						continue
					}
					if f, ok := d.field(s.Lhs[0]); ok && s.Tok == token.ASSIGN {
						res = append(res, &ast.AssignStmt{Lhs: []ast.Expr{ast.NewIdent(f)}, Tok: token.ASSIGN, Rhs: s.Rhs, TokPos: s.Pos()})
						continue
					}
				}
				c.fail(s, "unsupported assignment in CircuitBreaker.Call")
			case *ast.IncDecStmt:
				if f, ok := d.field(s.X); ok && s.Tok == token.INC {
					res = append(res, &ast.AssignStmt{Lhs: []ast.Expr{ast.NewIdent(f)}, Tok: token.ASSIGN, TokPos: s.Pos(),
						Rhs: []ast.Expr{&ast.BinaryExpr{X: ast.NewIdent(f), Op: token.ADD, Y: &ast.BasicLit{Kind: token.INT, Value: "1"}}}})
					continue
				}
				c.fail(s, "unsupported inc/dec in CircuitBreaker.Call")
			case *ast.IfStmt:
				if s.Init != nil || s.Else != nil {
					c.fail(s, "unsupported if form in CircuitBreaker.Call")
				}
				// a return of the "open" error after fn() was invoked would break the model's reading of CRRejected
				res = append(res, &ast.IfStmt{If: s.If, Cond: s.Cond, Body: &ast.BlockStmt{List: rewrite(s.Body.List)}})
			case *ast.ReturnStmt:
				if call, ok := s.Results[0].(*ast.CallExpr); ok && callName(call) == "fmt.Errorf" && sawFn {
					c.fail(s, "CircuitBreaker.Call returns a synthetic error after invoking fn")
				}
				res = append(res, s)
			default:
				c.fail(s, "unsupported statement %T in CircuitBreaker.Call", s)
			}
		}
		return res
	}
	out = rewrite(fn.Body.List)
	if !sawFn {
		panic("CircuitBreaker.Call: no `err := fn()` found")
	}
	body := c.stmtsJoin(out)
	return "(* " + p.pos(fn) + " ; now = time.Now() (ns), fn_fails = the operation returned an error.\n" +
		"   CRRejected is only returned before the operation is invoked. *)\n" +
		"Definition cb_call (cb : breaker) (now : Z) (fn_fails : bool) : cbresult * breaker :=\n" +
		"  let cb_failureThreshold := cb_threshold cb in let cb_cooldownPeriod := cb_cooldown cb in\n" +
		"  let cb_state := cb_st cb in let cb_failures := cb_fail cb in let cb_lastFailureTime := cb_last cb in\n  " + body + ".\n\n"
}

// stmtsJoin is stmts extended with multi-variable joins for `if c { x = e; y = f; if d { z = g } }`
// blocks without returns: every assigned variable is re-bound as a tuple-free
// sequence of conditional lets (sound because conditions are evaluated on the
// values before the block: we bind the condition first).
func (c *compiler) stmtsJoin(list []ast.Stmt) string {
	if len(list) == 0 {
		return ""
	}
	if ifs, ok := list[0].(*ast.IfStmt); ok && ifs.Init == nil && ifs.Else == nil && !containsReturn(ifs.Body.List) {
		c.kcount++
		cv := fmt.Sprintf("c%d", c.kcount)
		cond := c.expr(ifs.Cond)
		inner := c.condLets(ifs.Body.List, cv)
		rest := c.stmtsJoin(list[1:])
		if rest == "" {
			c.fail(ifs, "conditional block at end of function body")
		}
		return "let " + cv + " := " + cond + " in\n  " + inner + rest
	}
	if ifs, ok := list[0].(*ast.IfStmt); ok && ifs.Init == nil && ifs.Else == nil && containsReturn(ifs.Body.List) {
		// body: (conditional lets)* then something that always returns; or mixed
		if alwaysReturns(ifs.Body.List) {
			rest := c.stmtsJoin(list[1:])
			if rest == "" {
				c.fail(ifs, "if at end of function body without final return")
			}
			return "if " + c.expr(ifs.Cond) + " then (" + c.stmtsJoin(ifs.Body.List) + ") else\n  " + rest
		}
		// may fall through after a nested conditional return: duplicate the continuation
		all := append(append([]ast.Stmt{}, ifs.Body.List...), list[1:]...)
		rest := c.stmtsJoin(list[1:])
		return "if " + c.expr(ifs.Cond) + " then (" + c.stmtsJoin(all) + ") else\n  " + rest
	}
	switch s := list[0].(type) {
	case *ast.ReturnStmt:
		return c.d.ret(c, s.Results)
	case *ast.AssignStmt:
		id := s.Lhs[0].(*ast.Ident)
		rest := c.stmtsJoin(list[1:])
		if rest == "" {
			c.fail(s, "assignment at end of function body")
		}
		return "let " + id.Name + " := " + c.expr(s.Rhs[0]) + " in\n  " + rest
	}
	c.fail(list[0], "unsupported statement %T", list[0])
	return ""
}

func (c *compiler) condLets(list []ast.Stmt, cv string) string {
	var b strings.Builder
	for _, s := range list {
		switch s := s.(type) {
		case *ast.AssignStmt:
			id := s.Lhs[0].(*ast.Ident)
			b.WriteString("let " + id.Name + " := (if " + cv + " then " + c.expr(s.Rhs[0]) + " else " + id.Name + ") in\n  ")
		case *ast.IfStmt:
			if s.Init != nil || s.Else != nil {
				c.fail(s, "unsupported nested if")
			}
			c.kcount++
			cv2 := fmt.Sprintf("c%d", c.kcount)
			b.WriteString("let " + cv2 + " := (" + cv + " && " + c.expr(s.Cond) + ")%bool in\n  ")
			b.WriteString(c.condLets(s.Body.List, cv2))
		default:
			c.fail(s, "unsupported statement in conditional block: %T", s)
		}
	}
	return b.String()
}

func containsReturn(list []ast.Stmt) bool {
	found := false
	for _, s := range list {
		ast.Inspect(s, func(n ast.Node) bool {
			if _, ok := n.(*ast.ReturnStmt); ok {
				found = true
			}
			return true
		})
	}
	return found
}

func genBackoff(p *pkgInfo) string {
	var b strings.Builder
	b.WriteString("From Coq Require Import ZArith QArith Bool List.\nFrom LE Require Import Base Retry.\nOpen Scope Z_scope.\n\n")
	b.WriteString(genCalculateBackoff(p))
	b.WriteString(genDefaultBackoff(p))
	b.WriteString(genRoundConsts(p))
	b.WriteString(genBreaker(p))
	return b.String()
}

func init() { register("GenBackoff.v", genBackoff) }
