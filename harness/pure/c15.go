package main

import (
	"bufio"
	"context"
	"errors"
	"flag"
	"fmt"
	"math/rand"
	"os"
	"strings"
	"time"

	"github.com/ali-assar/NATS-Leader-Election/leader"
	"github.com/nats-io/nats.go"
)

func init() { commands["c15"] = c15 }

var words = []string{
	"revision mismatch", "Revision Mismatch", "wrong last sequence: 7", "key exists", "KEY NOT FOUND", "permission denied",
	"bucket not found", "Access Denied", "invalid", "INVALID argument", "authentication", "Authentication refresh",
	"timeout", "deadline exceeded", "connection lost", "connection refused", "temporary", "unavailable", "network",
	"i/o timeout", "connection reset", "nats: timeout", "nats: no responders available for request", "nats: connection closed",
	"boom", "x", "", "heartbeat update", "takeover failed", "op", "disk full", "inva", "lid", "revision  mismatch", "é",
	"context canceled", "context deadline exceeded", "invalid config", "not leader",
}

type gen struct{ r *rand.Rand }

func (g *gen) text() string {
	switch g.r.Intn(10) {
	case 0:
		n := g.r.Intn(12)
		b := make([]byte, n)
		for i := range b {
			b[i] = byte(32 + g.r.Intn(95))
			if b[i] == '%' {
				b[i] = '#'
			}
		}
		return string(b)
	case 1:
		return words[g.r.Intn(len(words))] + " " + words[g.r.Intn(len(words))]
	default:
		return words[g.r.Intn(len(words))]
	}
}

var others = []error{leader.ErrNotLeader, leader.ErrElectionFailed, leader.ErrTokenInvalid, leader.ErrConnectionLost,
	leader.ErrAlreadyStarted, nats.ErrTimeout, nats.ErrNoResponders, nats.ErrConnectionClosed, nats.ErrKeyExists,
	nats.ErrKeyNotFound, nats.ErrInvalidKey, nats.ErrBucketNotFound}

// value builds a random error value and its serialisation.
func (g *gen) value(depth int) (error, string) {
	k := g.r.Intn(10)
	if depth <= 0 && k >= 4 {
		k = g.r.Intn(4)
	}
	opt := func() (error, string) {
		if depth <= 0 || g.r.Intn(3) == 0 {
			return nil, "0"
		}
		e, s := g.value(depth - 1)
		return e, "1 " + s
	}
	switch k {
	case 0, 1:
		t := g.text()
		return errors.New(t), "P " + hexs(t)
	case 2:
		switch g.r.Intn(5) {
		case 0:
			return context.Canceled, "S c"
		case 1:
			return context.DeadlineExceeded, "S d"
		case 2:
			return leader.ErrInvalidConfig, "S i"
		case 3:
			return leader.ErrPermissionDenied, "S p"
		default:
			return leader.ErrBucketNotFound, "S b"
		}
	case 3:
		e := others[g.r.Intn(len(others))]
		return e, "S o:" + hexs(e.Error())
	case 4, 5, 6:
		in, s := g.value(depth - 1)
		pre, post := g.text(), ""
		if g.r.Intn(3) == 0 {
			post = g.text()
		}
		if g.r.Intn(2) == 0 {
			pre += ": "
		}
		return fmt.Errorf(strings.ReplaceAll(pre, "%", "#")+"%w"+strings.ReplaceAll(post, "%", "#"), in), "W " + hexs(strings.ReplaceAll(pre, "%", "#")) + " " + hexs(strings.ReplaceAll(post, "%", "#")) + " " + s
	case 7:
		in, s := opt()
		op := g.text()
		d := []time.Duration{0, time.Second, 1500 * time.Millisecond, 2 * time.Second, 250 * time.Microsecond}[g.r.Intn(5)]
		return leader.NewTimeoutError(op, d, in), "T " + hexs(op) + " " + hexs(fmt.Sprint(d)) + " " + s
	case 8:
		in, s := opt()
		code, inst, reason := g.text(), g.text(), g.text()
		if g.r.Intn(2) == 0 {
			return leader.NewElectionError(code, inst, reason, in), "E " + hexs(code) + " " + hexs(inst) + " " + hexs(reason) + " " + s
		}
		return &leader.TokenValidationError{LocalToken: code, KvToken: inst, Reason: reason, Err: in}, "K " + hexs(code) + " " + hexs(inst) + " " + hexs(reason) + " " + s
	default:
		in, s := opt()
		field, reason := g.text(), g.text()
		ve := leader.NewValidationError(field, nil, reason)
		vs := "0"
		switch g.r.Intn(3) {
		case 0:
			ve.Value = 5 * time.Second
			vs = "1 " + hexs("5s")
		case 1:
			ve.Value = -3
			vs = "1 " + hexs("-3")
		}
		ve.Err = in
		return ve, "V " + hexs(field) + " " + vs + " " + hexs(reason) + " " + s
	}
}

type named struct {
	sit string
	e   error
}

// captureLive runs the failing operations against an embedded nats-server through
// the library's own adapter and returns the error values.
func captureLive() ([]named, error) {
	ctx, cancel := context.WithCancel(context.Background())
	defer cancel()
	srv, err := leader.StartEmbeddedNATSServer(ctx)
	if err != nil {
		return nil, err
	}
	defer leader.StopEmbeddedNATSServer(srv)
	nc, err := nats.Connect(srv.ClientURL())
	if err != nil {
		return nil, err
	}
	defer nc.Close()
	js, err := nc.JetStream()
	if err != nil {
		return nil, err
	}
	nkv, err := js.CreateKeyValue(&nats.KeyValueConfig{Bucket: "verif_c15", TTL: time.Minute})
	if err != nil {
		return nil, err
	}
	kv := leader.VerifNewNATSKeyValue(nkv)
	var res []named
	rev, err := kv.Create("g", []byte("a"))
	if err != nil {
		return nil, fmt.Errorf("first create failed: %w", err)
	}
	if _, err = kv.Create("g", []byte("b")); err == nil {
		return nil, errors.New("second create succeeded")
	}
	res = append(res, named{"create-on-live-key", err})
	if _, err = kv.Update("g", []byte("c"), rev); err != nil {
		return nil, fmt.Errorf("update with latest revision failed: %w", err)
	}
	if _, err = kv.Update("g", []byte("d"), rev); err == nil {
		return nil, errors.New("stale update succeeded")
	}
	res = append(res, named{"update-stale-revision", err})
	if _, err = kv.Get("absent"); err != nil {
		res = append(res, named{"get-absent", err})
	}
	nc.Close()
	if _, err = kv.Update("g", []byte("e"), rev+1); err != nil {
		res = append(res, named{"connection-closed", err})
	}
	return res, nil
}

func b01(b bool) int {
	if b {
		return 1
	}
	return 0
}

func c15() {
	seed := flag.Int64("seed", 1, "PRNG seed")
	n := flag.Int("n", 20000, "number of generated error values")
	out := flag.String("out", "", "output file")
	nolive := flag.Bool("nolive", false, "do not start an embedded NATS server to capture real error values")
	flag.Parse()
	f, err := os.Create(*out)
	if err != nil {
		fmt.Fprintln(os.Stderr, err)
		os.Exit(2)
	}
	w := bufio.NewWriterSize(f, 1<<20)
	defer func() { w.Flush(); f.Close() }()
	fmt.Fprintf(w, "NIL | - %d %d\n", b01(leader.IsPermanentError(nil)), b01(leader.IsTransientError(nil)))
	g := &gen{rand.New(rand.NewSource(*seed))}
	for i := 0; i < *n; i++ {
		e, s := g.value(1 + g.r.Intn(6))
		fmt.Fprintf(w, "%s | %s %d %d\n", s, hexs(e.Error()), b01(leader.IsPermanentError(e)), b01(leader.IsTransientError(e)))
	}
	// exported sentinel values of the NATS client, with the observations the model relies on
	list := []named{{"timeout", nats.ErrTimeout}, {"no-responders", nats.ErrNoResponders},
		{"connection-closed", nats.ErrConnectionClosed}, {"key-exists-sentinel", nats.ErrKeyExists},
		{"key-not-found", nats.ErrKeyNotFound}}
	// the values the real client returns through the library's adapter, captured now
	if !*nolive {
		live, err := captureLive()
		if err != nil {
			fmt.Fprintln(os.Stderr, "capture of live NATS errors failed:", err)
			os.Exit(3)
		}
		list = append(list, live...)
	}
	for _, ne := range list {
		var te *leader.TimeoutError
		flags := fmt.Sprintf("%d%d%d%d%d%d", b01(errors.Is(ne.e, context.Canceled)), b01(errors.Is(ne.e, context.DeadlineExceeded)),
			b01(errors.Is(ne.e, leader.ErrInvalidConfig)), b01(errors.Is(ne.e, leader.ErrPermissionDenied)),
			b01(errors.Is(ne.e, leader.ErrBucketNotFound)), b01(errors.As(ne.e, &te)))
		fmt.Fprintf(w, "N %s %s %s %d %d\n", ne.sit, hexs(ne.e.Error()), flags, b01(leader.IsPermanentError(ne.e)), b01(leader.IsTransientError(ne.e)))
	}
}
