// pure: drives the library's exported pure entry points on generated inputs and
// prints one line per case, for comparison with the Gallina definitions
// regenerated from the same source (and with the hand-written specifications).
//
//	pure c16 -seed N -n COUNT [-exhaustive] -out FILE
package main

import (
	"fmt"
	"os"
)

func main() {
	if len(os.Args) < 2 {
		fmt.Fprintln(os.Stderr, "usage: pure <c15|c16|c17|c04> [flags]")
		os.Exit(2)
	}
	cmd := os.Args[1]
	os.Args = append(os.Args[:1], os.Args[2:]...)
	switch cmd {
	case "c16":
		c16()
	default:
		if f, ok := commands[cmd]; ok {
			f()
			return
		}
		fmt.Fprintln(os.Stderr, "unknown command", cmd)
		os.Exit(2)
	}
}

var commands = map[string]func(){}

func hexs(s string) string {
	if s == "" {
		return "-"
	}
	return fmt.Sprintf("%x", s)
}
