package main

import (
	"bufio"
	"errors"
	"flag"
	"fmt"
	"math/rand"
	"os"
	"time"

	"github.com/ali-assar/NATS-Leader-Election/leader"
)

// recording provider: counts every call the constructor makes on it.
type recProvider struct{ calls int }
type recJS struct{ p *recProvider }
type recKV struct{}

func (p *recProvider) JetStream() (leader.JetStreamContext, error) {
	p.calls++
	return &recJS{p}, nil
}
func (j *recJS) KeyValue(bucket string) (leader.KeyValue, error) {
	j.p.calls++
	return &recKV{}, nil
}
func (*recKV) Create(string, []byte, ...interface{}) (uint64, error)         { return 0, errors.New("unused") }
func (*recKV) Update(string, []byte, uint64, ...interface{}) (uint64, error) { return 0, errors.New("unused") }
func (*recKV) Get(string) (leader.Entry, error)                              { return nil, errors.New("unused") }
func (*recKV) Delete(string) error                                           { return errors.New("unused") }
func (*recKV) Watch(string, ...interface{}) (leader.Watcher, error)          { return nil, errors.New("unused") }

const year = 365 * 24 * time.Hour

func c16() {
	seed := flag.Int64("seed", 1, "PRNG seed")
	n := flag.Int("n", 20000, "number of sampled cases (ignored with -exhaustive)")
	exh := flag.Bool("exhaustive", false, "enumerate the whole boundary lattice")
	out := flag.String("out", "", "output file")
	flag.Parse()
	f, err := os.Create(*out)
	if err != nil {
		fmt.Fprintln(os.Stderr, err)
		os.Exit(2)
	}
	w := bufio.NewWriterSize(f, 1<<20)
	defer func() { w.Flush(); f.Close() }()

	hs := []time.Duration{1, 7, time.Millisecond, time.Second, 5 * time.Second, year / 3, year, 0, -1, -time.Second}
	rel := func(h time.Duration, k time.Duration) []time.Duration {
		return []time.Duration{k*h - 1, k * h, k*h + 1, 0, -1, 1, year, -year, k*h - time.Millisecond, 2 * k * h}
	}
	ints := []int{-2, -1, 0, 1, 2, 3}
	strs := []string{"", "x"}
	bools := []bool{false, true}

	emit := func(b, g, id string, ttl, h, vi, gr time.Duration, mf, pr int, tk bool) {
		p := &recProvider{}
		_, err := leader.NewElection(p, leader.ElectionConfig{
			Bucket: b, Group: g, InstanceID: id, TTL: ttl, HeartbeatInterval: h,
			ValidationInterval: vi, DisconnectGracePeriod: gr, MaxConsecutiveFailures: mf,
			Priority: pr, AllowPriorityTakeover: tk,
		})
		res := "ok"
		if err != nil {
			var ve *leader.ValidationError
			if errors.As(err, &ve) {
				res = "F:" + ve.Field
			} else {
				res = "other"
			}
		}
		t := 0
		if tk {
			t = 1
		}
		fmt.Fprintf(w, "%s %s %s %d %d %d %d %d %d %d %s %d\n", hexs(b), hexs(g), hexs(id),
			int64(ttl), int64(h), int64(vi), int64(gr), mf, pr, t, res, p.calls)
	}

	if *exh {
		for _, h := range hs {
			for _, ttl := range rel(h, 3) {
				for _, vi := range rel(h, 1) {
					for _, gr := range rel(h, 2) {
						for _, mf := range ints[1:5] {
							for _, pr := range ints[1:5] {
								for _, tk := range bools {
									for si := 0; si < 8; si++ {
										emit(strs[si&1], strs[(si>>1)&1], strs[(si>>2)&1], ttl, h, vi, gr, mf, pr, tk)
									}
								}
							}
						}
					}
				}
			}
		}
		return
	}
	r := rand.New(rand.NewSource(*seed))
	pick := func(ds []time.Duration) time.Duration { return ds[r.Intn(len(ds))] }
	for i := 0; i < *n; i++ {
		h := pick(hs)
		if r.Intn(4) == 0 { // arbitrary heartbeat up to a year
			h = time.Duration(r.Int63n(int64(year)) + 1)
		}
		// mostly-valid strings so the duration rules are reached
		str := func() string {
			if r.Intn(8) == 0 {
				return ""
			}
			return []string{"leaders", "g", "inst-1", "x"}[r.Intn(4)]
		}
		ttl, vi, gr := pick(rel(h, 3)), pick(rel(h, 1)), pick(rel(h, 2))
		if r.Intn(3) == 0 {
			ttl = 3*h + time.Duration(r.Int63n(1000))
		}
		if r.Intn(2) == 0 {
			vi = 0
		}
		if r.Intn(2) == 0 {
			gr = 0
		}
		emit(str(), str(), str(), ttl, h, vi, gr, ints[r.Intn(len(ints))], ints[r.Intn(len(ints))], r.Intn(2) == 0)
	}
}
