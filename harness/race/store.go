package race

import (
	"fmt"
	"math/rand"
	"sync"
	"time"

	"github.com/ali-assar/NATS-Leader-Election/leader"
	"github.com/nats-io/nats.go"
)

// Store is one in-memory bucket with JetStream-KV semantics, shared by the election
// instances of a scenario. It implements leader.KeyValue.
//
//   - every write (Create, Update, Delete, outside Put) gets the next stream sequence
//     as its revision;
//   - Create succeeds only when the key has no live value (absent, deleted, expired);
//   - Update succeeds only when the given revision is the revision of the key's last
//     message (a tombstone counts; 0 when the key has no message);
//   - Delete always succeeds and writes a tombstone;
//   - a message (value or tombstone) older than the bucket TTL is gone (evaluated
//     lazily, without a watch notification: MaxAge expiry is silent in NATS too);
//   - Watch delivers the key's last message if there is one, then the nil "initial
//     values done" marker, then every later write in order; a deletion is delivered as
//     a non-nil entry with an empty value.
//
// All state is guarded by ONE mutex, mu. Calls answer with a random latency (drawn
// under mu from the store's own PRNG), occasionally very slowly and occasionally with
// an injected error. Sleeps end early when the scenario is over (done is closed);
// from then on every call fails at once with nats.ErrConnectionClosed.
type Store struct {
	mu       sync.Mutex
	rng      *rand.Rand // guarded by mu
	ttl      time.Duration
	seq      uint64
	msgs     map[string]*message
	watchers map[*watcher]struct{}
	prof     FaultProfile
	done     chan struct{}
	doneOnce sync.Once
	shut     bool // guarded by mu: no new watcher pumps
	pumps    sync.WaitGroup
}

type message struct {
	val  []byte
	rev  uint64
	tomb bool
	at   time.Time
}

// FaultProfile sets how often store calls misbehave (probabilities in 1/1000 per call).
type FaultProfile struct {
	MaxLatency  time.Duration // normal latency is uniform in [0, MaxLatency], split before/after the effect
	ErrPerMille int           // nats.ErrTimeout / nats.ErrNoResponders, call not applied
	LostAck     int           // call applied, answer is nats.ErrTimeout
	SlowUpdate  int           // Update answers after Slow
	SlowOther   int           // any other call answers after Slow
	Slow        time.Duration
	SlowAck     bool
	WatchClose  int // per delivered watch entry: the updates channel is closed by the "server"
}

type entry struct {
	key string
	val []byte
	rev uint64
}

func (e *entry) Key() string      { return e.key }
func (e *entry) Value() []byte    { return e.val }
func (e *entry) Revision() uint64 { return e.rev }

func NewStore(seed int64, ttl time.Duration, prof FaultProfile) *Store {
	return &Store{
		rng:      rand.New(rand.NewSource(seed)),
		ttl:      ttl,
		msgs:     map[string]*message{},
		watchers: map[*watcher]struct{}{},
		prof:     prof,
		done:     make(chan struct{}),
	}
}

// Close ends the scenario for the store: pending and future calls fail fast, watcher
// pumps exit. It waits for the pumps.
func (s *Store) Close() {
	s.mu.Lock()
	s.shut = true
	s.mu.Unlock()
	s.doneOnce.Do(func() { close(s.done) })
	s.pumps.Wait()
}

// Abort makes pending and future calls fail fast without waiting for anything.
func (s *Store) Abort() { s.doneOnce.Do(func() { close(s.done) }) }

func (s *Store) closed() bool {
	select {
	case <-s.done:
		return true
	default:
		return false
	}
}

// sleep waits d or until the store is closed; it reports whether the store is still open.
func (s *Store) sleep(d time.Duration) bool {
	if d <= 0 {
		return !s.closed()
	}
	// time.Sleep, not a timer channel: receiving from a timer channel orders the receiver after every goroutine whose
	// own timers fired on the same processor before (the race detector follows the runtime's timer context), which would
	// hide races between a late answer and what its caller did meanwhile
	end := time.Now().Add(d)
	for {
		left := time.Until(end)
		if left <= 0 {
			return !s.closed()
		}
		if left > 20*time.Millisecond {
			left = 20 * time.Millisecond
		}
		time.Sleep(left)
		if s.closed() {
			return false
		}
	}
}

const (
	fNone = iota
	fTimeout
	fNoResponders
	fLostAck
)

type plan struct {
	pre, post time.Duration
	fault     int
}

func (s *Store) planFor(update bool) plan {
	s.mu.Lock()
	defer s.mu.Unlock()
	var p plan
	if s.prof.MaxLatency > 0 {
		p.pre = time.Duration(s.rng.Int63n(int64(s.prof.MaxLatency) + 1))
		cut := time.Duration(s.rng.Int63n(int64(p.pre) + 1))
		p.pre, p.post = cut, p.pre-cut
	}
	if s.rng.Intn(4) == 0 {
		p.pre, p.post = 0, 0 // answered from "cache": no latency at all
	}
	slow := s.prof.SlowOther
	if update {
		slow = s.prof.SlowUpdate
	}
	if slow > 0 && s.rng.Intn(1000) < slow {
		// SlowAck: the delay is always on the way back (the write is applied at once, its acknowledgement is late): the
		// goroutine that waits for the answer takes no lock of this store between the delay and its return, so that
		// whatever it does with the answer is not accidentally ordered after the caller's later store calls
		if s.rng.Intn(2) == 0 && !s.prof.SlowAck {
			p.pre += s.prof.Slow
		} else {
			p.post += s.prof.Slow
		}
	}
	r := s.rng.Intn(1000)
	switch {
	case r < s.prof.ErrPerMille/2:
		p.fault = fTimeout
	case r < s.prof.ErrPerMille:
		p.fault = fNoResponders
	case r < s.prof.ErrPerMille+s.prof.LostAck:
		p.fault = fLostAck
	}
	return p
}

// lastLocked returns the key's last message, or nil when it has none (never written
// or aged out).
func (s *Store) lastLocked(key string) *message {
	m := s.msgs[key]
	if m == nil {
		return nil
	}
	if s.ttl > 0 && time.Since(m.at) >= s.ttl {
		delete(s.msgs, key)
		return nil
	}
	return m
}

func (s *Store) writeLocked(key string, val []byte, tomb bool) uint64 {
	s.seq++
	v := append([]byte(nil), val...)
	s.msgs[key] = &message{val: v, rev: s.seq, tomb: tomb, at: time.Now()}
	e := &entry{key: key, val: v, rev: s.seq}
	for w := range s.watchers {
		if w.key == key {
			w.q = append(w.q, e)
			w.wake()
		}
	}
	return s.seq
}

func wrongLastSequence(last uint64) *nats.APIError {
	return &nats.APIError{Code: 400, ErrorCode: nats.JSErrCodeStreamWrongLastSequence,
		Description: fmt.Sprintf("wrong last sequence: %d", last)}
}

// call wraps the effect of one operation in the latency/fault plan.
func (s *Store) call(update bool, effect func() (uint64, *entry, error)) (uint64, *entry, error) {
	if s.closed() {
		return 0, nil, nats.ErrConnectionClosed
	}
	p := s.planFor(update)
	if !s.sleep(p.pre) {
		return 0, nil, nats.ErrConnectionClosed
	}
	switch p.fault {
	case fTimeout:
		if !s.sleep(p.post) {
			return 0, nil, nats.ErrConnectionClosed
		}
		return 0, nil, nats.ErrTimeout
	case fNoResponders:
		return 0, nil, nats.ErrNoResponders
	}
	s.mu.Lock()
	rev, e, err := effect()
	s.mu.Unlock()
	if !s.sleep(p.post) {
		return 0, nil, nats.ErrConnectionClosed
	}
	if p.fault == fLostAck {
		return 0, nil, nats.ErrTimeout
	}
	return rev, e, err
}

func (s *Store) Create(key string, value []byte, opts ...interface{}) (uint64, error) {
	rev, _, err := s.call(false, func() (uint64, *entry, error) {
		if m := s.lastLocked(key); m != nil && !m.tomb {
			return 0, nil, fmt.Errorf("%w: %s", wrongLastSequence(m.rev), "key exists")
		}
		return s.writeLocked(key, value, false), nil, nil
	})
	return rev, err
}

func (s *Store) Update(key string, value []byte, rev uint64, opts ...interface{}) (uint64, error) {
	nrev, _, err := s.call(true, func() (uint64, *entry, error) {
		last := uint64(0)
		if m := s.lastLocked(key); m != nil {
			last = m.rev
		}
		if rev != last {
			return 0, nil, wrongLastSequence(last)
		}
		return s.writeLocked(key, value, false), nil, nil
	})
	return nrev, err
}

func (s *Store) Get(key string) (leader.Entry, error) {
	_, e, err := s.call(false, func() (uint64, *entry, error) {
		m := s.lastLocked(key)
		if m == nil || m.tomb {
			return 0, nil, nats.ErrKeyNotFound
		}
		return m.rev, &entry{key: key, val: m.val, rev: m.rev}, nil
	})
	if err != nil {
		return nil, err
	}
	return e, nil
}

func (s *Store) Delete(key string) error {
	_, _, err := s.call(false, func() (uint64, *entry, error) {
		return s.writeLocked(key, nil, true), nil, nil
	})
	return err
}

// ---------------------------------------------------------------- outside world

// ExtPut overwrites the key unconditionally (an outside kv.Put), without latency.
func (s *Store) ExtPut(key string, val []byte) {
	s.mu.Lock()
	s.writeLocked(key, val, false)
	s.mu.Unlock()
}

// ExtDelete writes a tombstone, without latency.
func (s *Store) ExtDelete(key string) {
	s.mu.Lock()
	s.writeLocked(key, nil, true)
	s.mu.Unlock()
}

// ExtExpire makes the key's last message age out now (silently).
func (s *Store) ExtExpire(key string) {
	s.mu.Lock()
	delete(s.msgs, key)
	s.mu.Unlock()
}

// ---------------------------------------------------------------- watch

type watcher struct {
	s    *Store
	key  string
	q    []leader.Entry // guarded by s.mu; a nil element is the "initial values done" marker
	sig  chan struct{}
	stop chan struct{}
	once sync.Once
	ch   chan leader.Entry
	rng  *rand.Rand // owned by the pump goroutine
}

func (w *watcher) wake() {
	select {
	case w.sig <- struct{}{}:
	default:
	}
}

func (w *watcher) Updates() <-chan leader.Entry { return w.ch }

func (w *watcher) Stop() {
	w.once.Do(func() {
		w.s.mu.Lock()
		delete(w.s.watchers, w)
		w.s.mu.Unlock()
		close(w.stop)
	})
}

// pump is the only sender on (and the closer of) the updates channel.
func (w *watcher) pump() {
	s := w.s
	defer s.pumps.Done()
	defer close(w.ch)
	for {
		s.mu.Lock()
		var e leader.Entry
		have := len(w.q) > 0
		if have {
			e = w.q[0]
			w.q = w.q[1:]
		}
		s.mu.Unlock()
		if !have {
			select {
			case <-w.sig:
				continue
			case <-w.stop:
				return
			case <-s.done:
				return
			}
		}
		if s.prof.MaxLatency > 0 && w.rng.Intn(3) != 0 {
			d := time.Duration(w.rng.Int63n(int64(s.prof.MaxLatency) + 1))
			stopped := func() bool {
				select {
				case <-w.stop:
					return true
				case <-s.done:
					return true
				default:
					return false
				}
			}
			if !waitNoSync(d, stopped) {
				return
			}
		}
		select {
		case w.ch <- e:
		case <-w.stop:
			return
		case <-s.done:
			return
		}
		if s.prof.WatchClose > 0 && w.rng.Intn(1000) < s.prof.WatchClose {
			// the subscription behind the watch went away: channel closed, watcher forgotten
			s.mu.Lock()
			delete(s.watchers, w)
			s.mu.Unlock()
			return
		}
	}
}

func (s *Store) Watch(key string, opts ...interface{}) (leader.Watcher, error) {
	var w *watcher
	_, _, err := s.call(false, func() (uint64, *entry, error) {
		if s.shut {
			return 0, nil, nats.ErrConnectionClosed
		}
		w = &watcher{s: s, key: key, sig: make(chan struct{}, 1), stop: make(chan struct{}),
			ch: make(chan leader.Entry), rng: rand.New(rand.NewSource(s.rng.Int63()))}
		if m := s.lastLocked(key); m != nil {
			w.q = append(w.q, &entry{key: key, val: m.val, rev: m.rev})
		}
		w.q = append(w.q, nil)
		s.watchers[w] = struct{}{}
		s.pumps.Add(1)
		go w.pump()
		return 0, nil, nil
	})
	if err != nil {
		// a lost acknowledgement of a watch: the watcher exists but nobody will ever stop it
		if w != nil {
			w.Stop()
		}
		return nil, err
	}
	return w, nil
}
