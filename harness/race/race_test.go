package race

import (
	"fmt"
	"os"
	"runtime"
	"strconv"
	"sync"
	"testing"
	"time"
)

func envInt(name string, def int64) int64 {
	if v := os.Getenv(name); v != "" {
		if n, err := strconv.ParseInt(v, 10, 64); err == nil {
			return n
		}
	}
	return def
}

func mixSeed(a, b, c int64) int64 {
	x := uint64(a)*0x9e3779b97f4a7c15 ^ uint64(b)*0xbf58476d1ce4e5b9 ^ uint64(c)*0x94d049bb133111eb
	x ^= x >> 31
	x *= 0xd6e8feb86659fd93
	x ^= x >> 32
	return int64(x &^ (1 << 63))
}

// TestRace is the entry point of the race binary (go test -race -c). Environment:
//
//	RACE_OUT    result file (required; the test is skipped without it)
//	RACE_SECS   wall-clock budget in seconds (default 8)
//	RACE_SEED   PRNG seed (default 1)
//	RACE_PAR    scenario workers running in parallel (default 8)
//	RACE_STATS  1 = count log messages/transitions and print them (adds synchronisation
//	            to the library's goroutines: for tuning the generator only)
//	GORACE      should be "log_path=<prefix> halt_on_error=0"
//
// The detector's log is complete only when the process has exited, so the
// authoritative result is produced afterwards by cmd/parse from <prefix>.<pid> and
// RACE_OUT+".meta" (written here). RACE_OUT itself is also written here, from
// whatever the log holds at the end of the test (best effort).
//
// The test fails (and the binary exits non-zero) iff the detector reported a race;
// that is the testing package's own doing.
func TestRace(t *testing.T) {
	out := os.Getenv("RACE_OUT")
	if out == "" {
		t.Skip("RACE_OUT not set")
	}
	secs := envInt("RACE_SECS", 8)
	seed := envInt("RACE_SEED", 1)
	par := int(envInt("RACE_PAR", 8))
	if par < 1 {
		par = 1
	}
	var st *stats
	if os.Getenv("RACE_STATS") == "1" {
		st = &stats{n: map[string]int64{}}
	}

	start := time.Now()
	deadline := start.Add(time.Duration(secs) * time.Second)
	type tally struct{ scenarios, calls int64 }
	tallies := make([]tally, par)
	errs := make([]error, par)
	var wg sync.WaitGroup
	for w := 0; w < par; w++ {
		wg.Add(1)
		go func(w int) {
			defer wg.Done()
			for k := int64(0); ; k++ {
				left := time.Until(deadline)
				if left < 150*time.Millisecond {
					return
				}
				sc, err := newScenario(mixSeed(seed, int64(w), k), left, st)
				if err != nil {
					errs[w] = err
					return
				}
				tallies[w].calls += sc.run()
				tallies[w].scenarios++
			}
		}(w)
	}
	wg.Wait()

	meta := Meta{Seconds: time.Since(start).Seconds(), Seed: seed, Par: par}
	for _, x := range tallies {
		meta.Scenarios += x.scenarios
		meta.APICalls += x.calls
	}
	for _, err := range errs {
		if err != nil {
			t.Error(err)
		}
	}
	if err := WriteJSON(out+".meta", meta); err != nil {
		t.Fatalf("writing %s.meta: %v", out, err)
	}

	// give goroutines that were told to stop a moment to get there, then look
	time.Sleep(100 * time.Millisecond)
	t.Logf("scenarios=%d api_calls=%d seconds=%.1f goroutines_left=%d", meta.Scenarios, meta.APICalls, meta.Seconds, runtime.NumGoroutine())
	if st != nil {
		ks, m := st.snapshot()
		for _, k := range ks {
			t.Logf("  %-60s %d", k, m[k])
		}
	}

	var files []string
	if p := LogPathFromGORACE(os.Getenv("GORACE")); p != "" {
		f := fmt.Sprintf("%s.%d", p, os.Getpid())
		if _, err := os.Stat(f); err == nil {
			files = append(files, f)
		}
	}
	res := Collect(files, meta)
	if err := WriteJSON(out, res); err != nil {
		t.Fatalf("writing %s: %v", out, err)
	}
	for _, r := range res.Reports {
		t.Logf("race %4dx %s", r.Count, r.Key)
	}
}

// TestParse checks the report parser on a canned detector log.
func TestParse(t *testing.T) {
	const log = `some unrelated line
==================
WARNING: DATA RACE
Read at 0x00c0001a2040 by goroutine 23:
  github.com/ali-assar/NATS-Leader-Election/leader.(*kvElection).Stop()
      /repo/leader/kv_election.go:680 +0x4a4
  verif/harness/race.(*scenario).hammer()
      /verif/harness/race/scenario.go:200 +0x1c4
  verif/harness/race.(*scenario).run.func2()
      /verif/harness/race/scenario.go:300 +0x64

Previous write at 0x00c0001a2040 by goroutine 25:
  github.com/ali-assar/NATS-Leader-Election/leader.(*kvElection).OnDemote()
      /repo/leader/kv_election.go:959 +0x84
  verif/harness/race.(*scenario).hammer()
      /verif/harness/race/scenario.go:180 +0x1c4

Goroutine 23 (running) created at:
  verif/harness/race.(*scenario).run()
      /verif/harness/race/scenario.go:299 +0x5a4

Goroutine 25 (finished) created at:
  verif/harness/race.(*scenario).run()
      /verif/harness/race/scenario.go:299 +0x5a4
==================
==================
WARNING: DATA RACE
Write at 0x00c0001a2048 by goroutine 31:
  sync/atomic.StoreInt64()
      /go/src/runtime/race_amd64.s:237 +0xb
  github.com/ali-assar/NATS-Leader-Election/leader.(*kvElection).becomeLeader.func3.1()
      /repo/leader/kv_election.go:468 +0x84
  github.com/ali-assar/NATS-Leader-Election/leader.(*kvElection).becomeLeader.gowrap2()
      /repo/leader/kv_election.go:469 +0x84

Previous read at 0x00c0001a2048 by main goroutine:
  [failed to restore the stack]

==================
==================
WARNING: DATA RACE
Read at 0x00c0001a2050 by goroutine 40:
  verif/harness/race.(*Store).Get()
      /verif/harness/race/store.go:100 +0x84

Previous write at 0x00c0001a2050 by goroutine 41:
  github.com/nats-io/nats.go.(*Conn).SetClosedHandler()
      /m/nats.go:1589 +0x84
==================
==================
WARNING: DATA RACE
Read at 0x00c0001a2040 by goroutine 23:
  github.com/ali-assar/NATS-Leader-Election/leader.(*kvElection).Stop()
      /repo/leader/kv_election.go:686 +0x4a4

Previous write at 0x00c0001a2040 by goroutine 25:
  github.com/ali-assar/NATS-Leader-Election/leader.(*kvElection).OnDemote()
      /repo/leader/kv_election.go:959 +0x84
==================
`
	raw := ParseReports(log)
	if len(raw) != 4 {
		t.Fatalf("got %d reports, want 4", len(raw))
	}
	reps := Normalise(raw)
	got := map[string]Report{}
	for _, r := range reps {
		got[r.Key] = r
	}
	r, ok := got["(*kvElection).OnDemote|(*kvElection).Stop"]
	if !ok || r.Count != 2 || r.Kinds != "write|read" || len(r.Sites) != 2 ||
		r.Frames[0] != [2]string{"leader.(*kvElection).OnDemote", "kv_election.go:959"} ||
		r.Frames[1] != [2]string{"leader.(*kvElection).Stop", "kv_election.go:680"} {
		t.Errorf("Stop/OnDemote report wrong: %+v", r)
	}
	r, ok = got["(*kvElection).becomeLeader|?"]
	if !ok || r.Frames[0] != [2]string{"leader.(*kvElection).becomeLeader", "kv_election.go:468"} ||
		r.Tops[0][0] != "sync/atomic.StoreInt64" {
		t.Errorf("becomeLeader report wrong: %+v (keys %v)", r, reps)
	}
	if _, ok := got["harness"]; !ok {
		t.Errorf("harness report missing: %v", reps)
	}
	if LogPathFromGORACE("halt_on_error=0 log_path=/tmp/x") != "/tmp/x" || LogPathFromGORACE("log_path=stderr") != "" {
		t.Error("LogPathFromGORACE")
	}
}
