package race

import (
	"bytes"
	"encoding/json"
	"fmt"
	"os"
	"os/exec"
	"runtime"
	"strconv"
	"strings"
	"sync"
	"sync/atomic"
	"syscall"
	"testing"
	"time"
)

func envInt(name string, def int64) int64 {
	if v := os.Getenv(name); v != "" {
		if n, err := strconv.ParseInt(v, 10, 64); err == nil {
			return n
		}
	}
	return def
}

func mixSeed(a, b, c int64) int64 {
	x := uint64(a)*0x9e3779b97f4a7c15 ^ uint64(b)*0xbf58476d1ce4e5b9 ^ uint64(c)*0x94d049bb133111eb
	x ^= x >> 31
	x *= 0xd6e8feb86659fd93
	x ^= x >> 32
	return int64(x &^ (1 << 63))
}

// TestRace is the entry point of the race binary (go test -race -c). Environment:
//
//	RACE_OUT    result file (required; the test is skipped without it)
//	RACE_SECS   wall-clock budget in seconds (default 8)
//	RACE_SEED   PRNG seed (default 1)
//	RACE_PAR    scenario workers running in parallel (default 8)
//	RACE_FORK   0 = run the scenarios in this process (default 1, see below)
//	RACE_STATS  1 = count log messages/transitions and print them (adds synchronisation
//	            to the library's goroutines: for tuning the generator only)
//	GORACE      should be "log_path=<prefix> halt_on_error=0"
//
// Concurrent Start/Stop calls can make the library panic ("sync: WaitGroup is reused
// before previous Wait has returned"), which kills the process. So that such a crash
// neither goes unnoticed nor ends the run, the test re-executes its own binary: the
// scenarios run in a child process (RACE_CHILD=1); when a child dies the crash is
// recorded and another child uses up the rest of the budget; a child that hangs is
// sent SIGQUIT (goroutine dump) and recorded as a hang.
//
// Results: RACE_OUT+".meta" (scenarios, api_calls, seconds, crashes) and RACE_OUT
// (meta plus the normalised reports from the children's detector logs
// "<prefix>.<pid>", which are complete because the children have exited). With
// RACE_FORK=0 the log is still being written while it is parsed; cmd/parse then
// produces the authoritative RACE_OUT after the process has exited.
//
// The test fails (and the binary exits non-zero) iff the detector reported a race or
// a child crashed.
func TestRace(t *testing.T) {
	out := os.Getenv("RACE_OUT")
	if out == "" {
		t.Skip("RACE_OUT not set")
	}
	if os.Getenv("RACE_CHILD") == "1" || os.Getenv("RACE_FORK") == "0" {
		runScenarios(t, out)
		return
	}
	supervise(t, out)
}

func supervise(t *testing.T, out string) {
	secs := envInt("RACE_SECS", 8)
	seed := envInt("RACE_SEED", 1)
	start := time.Now()
	deadline := start.Add(time.Duration(secs) * time.Second)
	logPrefix := LogPathFromGORACE(os.Getenv("GORACE"))
	total := Meta{Seed: seed, Par: int(envInt("RACE_PAR", 8))}
	var files []string
	failed := false

	for run := 0; ; run++ {
		left := time.Until(deadline)
		if left < 700*time.Millisecond || (run > 0 && left < 1500*time.Millisecond) {
			break
		}
		childSeed := seed + int64(run)*1000003
		childOut := fmt.Sprintf("%s.child%d", out, run)
		os.Remove(childOut + ".meta")
		cmd := exec.Command(os.Args[0], "-test.run", "^TestRace$", "-test.count=1", "-test.v")
		cmd.Env = append(os.Environ(), "RACE_CHILD=1", "RACE_OUT="+childOut,
			fmt.Sprintf("RACE_MS=%d", left.Milliseconds()), fmt.Sprintf("RACE_SEED=%d", childSeed))
		if run == 0 && left > 8*time.Second {
			// first a short child with nothing but slow-acknowledgement scenarios (scenario.go, RACE_ONLY)
			cmd.Env = append(cmd.Env, "RACE_ONLY=longslow", "RACE_MS=4500")
		}
		var buf bytes.Buffer
		cmd.Stdout, cmd.Stderr = &buf, &buf
		childStart := time.Now()
		if err := cmd.Start(); err != nil {
			t.Fatalf("starting child: %v", err)
		}
		total.Runs++
		waitErr := make(chan error, 1)
		go func() { waitErr <- cmd.Wait() }()
		var err error
		hung := false
		select {
		case err = <-waitErr:
		case <-time.After(left + 8*time.Second):
			// every scenario ends by itself; a child that is still there is stuck
			hung = true
			_ = cmd.Process.Signal(syscall.SIGQUIT)
			select {
			case err = <-waitErr:
			case <-time.After(3 * time.Second):
				_ = cmd.Process.Kill()
				err = <-waitErr
			}
		}
		after := time.Since(childStart).Seconds()
		if logPrefix != "" {
			f := fmt.Sprintf("%s.%d", logPrefix, cmd.Process.Pid)
			if _, e := os.Stat(f); e == nil {
				files = append(files, f)
			}
		}
		var cm Meta
		if b, e := os.ReadFile(childOut + ".meta"); e == nil {
			_ = json.Unmarshal(b, &cm)
		}
		os.Remove(childOut + ".meta")
		total.Scenarios += cm.Scenarios
		total.APICalls += cm.APICalls
		output := buf.String()
		if os.Getenv("RACE_STATS") == "1" {
			t.Logf("child %d output:\n%s", run, output)
		}
		if err == nil {
			continue
		}
		failed = true
		c, isCrash := ParseCrash(output)
		switch {
		case hung:
			c.Kind, c.Message = "hang", "child did not finish; goroutine dump requested with SIGQUIT"
			if i := strings.Index(output, "SIGQUIT"); i >= 0 {
				output = output[i:]
			}
			if len(output) > 6000 {
				output = output[:6000]
			}
			c.Raw = output
		case isCrash:
		case strings.Contains(output, "race detected during execution of test"):
			continue // the ordinary way for a child to fail
		default:
			c.Kind, c.Message = "exit", err.Error()
			if len(output) > 3000 {
				output = output[len(output)-3000:]
			}
			c.Raw = output
		}
		c.Seed, c.After = childSeed, after
		total.Crashes = append(total.Crashes, c)
		t.Errorf("child %d (seed %d) %s after %.1fs: %s [%s %s]", run, childSeed, c.Kind, after, c.Message, c.Frame[0], c.Frame[1])
	}

	total.Seconds = time.Since(start).Seconds()
	if err := WriteJSON(out+".meta", total); err != nil {
		t.Fatalf("writing %s.meta: %v", out, err)
	}
	res := Collect(files, total)
	if err := WriteJSON(out, res); err != nil {
		t.Fatalf("writing %s: %v", out, err)
	}
	t.Logf("runs=%d scenarios=%d api_calls=%d seconds=%.1f reports=%d keys=%d crashes=%d", total.Runs, total.Scenarios,
		total.APICalls, total.Seconds, res.TotalReports, len(res.Reports), len(total.Crashes))
	for _, r := range res.Reports {
		t.Errorf("race %4dx %s", r.Count, r.Key)
	}
	if failed && len(res.Reports) == 0 && len(total.Crashes) == 0 {
		t.Errorf("a child failed but left no report (GORACE log_path not set?)")
	}
}

// runScenarios is the working part: it runs random scenarios until the budget is used up.
func runScenarios(t *testing.T, out string) {
	budget := time.Duration(envInt("RACE_SECS", 8)) * time.Second
	if v := envInt("RACE_MS", 0); v > 0 {
		budget = time.Duration(v) * time.Millisecond
	}
	seed := envInt("RACE_SEED", 1)
	par := int(envInt("RACE_PAR", 8))
	if par < 1 {
		par = 1
	}
	var st *stats
	if os.Getenv("RACE_STATS") == "1" {
		st = &stats{n: map[string]int64{}}
	}

	start := time.Now()
	deadline := start.Add(budget)
	// progress counters: touched by the workers between scenarios and by the writer
	// below only, never by code that runs concurrently with the library
	var scenarios, calls atomic.Int64
	writeMeta := func() error {
		return WriteJSON(out+".meta", Meta{Scenarios: scenarios.Load(), APICalls: calls.Load(),
			Seconds: time.Since(start).Seconds(), Seed: seed, Par: par})
	}
	stopWriter := make(chan struct{})
	writerDone := make(chan struct{})
	go func() {
		defer close(writerDone)
		tick := time.NewTicker(250 * time.Millisecond)
		defer tick.Stop()
		for {
			select {
			case <-tick.C:
				_ = writeMeta() // survives a crash of the process
			case <-stopWriter:
				return
			}
		}
	}()

	errs := make([]error, par)
	var wg sync.WaitGroup
	for w := 0; w < par; w++ {
		wg.Add(1)
		go func(w int) {
			defer wg.Done()
			for k := int64(0); ; k++ {
				left := time.Until(deadline)
				if left < 150*time.Millisecond {
					return
				}
				sc, err := newScenario(mixSeed(seed, int64(w), k), left, st)
				if err != nil {
					errs[w] = err
					return
				}
				calls.Add(sc.run())
				scenarios.Add(1)
			}
		}(w)
	}
	wg.Wait()
	close(stopWriter)
	<-writerDone
	for _, err := range errs {
		if err != nil {
			t.Error(err)
		}
	}
	if err := writeMeta(); err != nil {
		t.Fatalf("writing %s.meta: %v", out, err)
	}

	// give goroutines that were told to stop a moment to get there, then look
	time.Sleep(100 * time.Millisecond)
	t.Logf("scenarios=%d api_calls=%d seconds=%.1f goroutines_left=%d", scenarios.Load(), calls.Load(),
		time.Since(start).Seconds(), runtime.NumGoroutine())
	if st != nil {
		ks, m := st.snapshot()
		for _, k := range ks {
			t.Logf("  %-60s %d", k, m[k])
		}
	}
	if os.Getenv("RACE_CHILD") == "1" {
		return
	}
	// in-process mode: best effort from the part of the log written so far
	var files []string
	if p := LogPathFromGORACE(os.Getenv("GORACE")); p != "" {
		f := fmt.Sprintf("%s.%d", p, os.Getpid())
		if _, err := os.Stat(f); err == nil {
			files = append(files, f)
		}
	}
	res := Collect(files, Meta{Scenarios: scenarios.Load(), APICalls: calls.Load(), Seconds: time.Since(start).Seconds(), Seed: seed, Par: par, Runs: 1})
	if err := WriteJSON(out, res); err != nil {
		t.Fatalf("writing %s: %v", out, err)
	}
	for _, r := range res.Reports {
		t.Logf("race %4dx %s", r.Count, r.Key)
	}
}

// TestParse checks the report parser on a canned detector log.
func TestParse(t *testing.T) {
	const log = `some unrelated line
==================
WARNING: DATA RACE
Read at 0x00c0001a2040 by goroutine 23:
  github.com/ali-assar/NATS-Leader-Election/leader.(*kvElection).Stop()
      /repo/leader/kv_election.go:680 +0x4a4
  verif/harness/race.(*scenario).hammer()
      /verif/harness/race/scenario.go:200 +0x1c4
  verif/harness/race.(*scenario).run.func2()
      /verif/harness/race/scenario.go:300 +0x64

Previous write at 0x00c0001a2040 by goroutine 25:
  github.com/ali-assar/NATS-Leader-Election/leader.(*kvElection).OnDemote()
      /repo/leader/kv_election.go:959 +0x84
  verif/harness/race.(*scenario).hammer()
      /verif/harness/race/scenario.go:180 +0x1c4

Goroutine 23 (running) created at:
  verif/harness/race.(*scenario).run()
      /verif/harness/race/scenario.go:299 +0x5a4

Goroutine 25 (finished) created at:
  verif/harness/race.(*scenario).run()
      /verif/harness/race/scenario.go:299 +0x5a4
==================
==================
WARNING: DATA RACE
Write at 0x00c0001a2048 by goroutine 31:
  sync/atomic.StoreInt64()
      /go/src/runtime/race_amd64.s:237 +0xb
  github.com/ali-assar/NATS-Leader-Election/leader.(*kvElection).becomeLeader.func3.1()
      /repo/leader/kv_election.go:468 +0x84
  github.com/ali-assar/NATS-Leader-Election/leader.(*kvElection).becomeLeader.gowrap2()
      /repo/leader/kv_election.go:469 +0x84

Previous read at 0x00c0001a2048 by main goroutine:
  [failed to restore the stack]

==================
==================
WARNING: DATA RACE
Read at 0x00c0001a2050 by goroutine 40:
  verif/harness/race.(*Store).Get()
      /verif/harness/race/store.go:100 +0x84

Previous write at 0x00c0001a2050 by goroutine 41:
  github.com/nats-io/nats.go.(*Conn).SetClosedHandler()
      /m/nats.go:1589 +0x84
==================
==================
WARNING: DATA RACE
Read at 0x00c0001a2040 by goroutine 23:
  github.com/ali-assar/NATS-Leader-Election/leader.(*kvElection).Stop()
      /repo/leader/kv_election.go:686 +0x4a4

Previous write at 0x00c0001a2040 by goroutine 25:
  github.com/ali-assar/NATS-Leader-Election/leader.(*kvElection).OnDemote()
      /repo/leader/kv_election.go:959 +0x84
==================
`
	raw := ParseReports(log)
	if len(raw) != 4 {
		t.Fatalf("got %d reports, want 4", len(raw))
	}
	reps := Normalise(raw)
	got := map[string]Report{}
	for _, r := range reps {
		got[r.Key] = r
	}
	r, ok := got["(*kvElection).OnDemote|(*kvElection).Stop"]
	if !ok || r.Count != 2 || r.Kinds != "write|read" || len(r.Sites) != 2 ||
		r.Frames[0] != [2]string{"leader.(*kvElection).OnDemote", "kv_election.go:959"} ||
		r.Frames[1] != [2]string{"leader.(*kvElection).Stop", "kv_election.go:680"} {
		t.Errorf("Stop/OnDemote report wrong: %+v", r)
	}
	r, ok = got["(*kvElection).becomeLeader|?"]
	if !ok || r.Frames[0] != [2]string{"leader.(*kvElection).becomeLeader", "kv_election.go:468"} ||
		r.Tops[0][0] != "sync/atomic.StoreInt64" {
		t.Errorf("becomeLeader report wrong: %+v (keys %v)", r, reps)
	}
	if _, ok := got["harness"]; !ok {
		t.Errorf("harness report missing: %v", reps)
	}
	c, ok := ParseCrash("=== RUN   TestRace\npanic: sync: WaitGroup is reused before previous Wait has returned\n\ngoroutine 15253 [running]:\n" +
		"sync.(*WaitGroup).Wait(0xc00028e858)\n\t/go/src/sync/waitgroup.go:208 +0x172\n" +
		"github.com/ali-assar/NATS-Leader-Election/leader.(*kvElection).StopWithContext.func1()\n\t/repo/leader/kv_election.go:752 +0x3c\n" +
		"created by github.com/ali-assar/NATS-Leader-Election/leader.(*kvElection).StopWithContext in goroutine 14331\n\t/repo/leader/kv_election.go:751 +0x49d\n")
	if !ok || c.Kind != "panic" || c.Frame != [2]string{"leader.(*kvElection).StopWithContext", "kv_election.go:752"} {
		t.Errorf("ParseCrash: %+v", c)
	}
	if LogPathFromGORACE("halt_on_error=0 log_path=/tmp/x") != "/tmp/x" || LogPathFromGORACE("log_path=stderr") != "" {
		t.Error("LogPathFromGORACE")
	}
}
