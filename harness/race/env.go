package race

import (
	"context"
	"reflect"
	"sort"
	"sync"
	"time"
	"unsafe"

	"github.com/ali-assar/NATS-Leader-Election/leader"
	"github.com/nats-io/nats.go"
	"github.com/prometheus/client_golang/prometheus"
	"go.uber.org/zap"
)

// The environment objects handed to the library (logger, metrics, health checker,
// callbacks) deliberately touch NO shared state: every mutex or atomic of the harness
// that library goroutines pass through adds happens-before edges between them and
// hides races of the library from the detector. The only exception is the optional
// statistics (RACE_STATS=1), meant for tuning the generator, not for checking.

// ---------------------------------------------------------------- provider

type provider struct{ kv leader.KeyValue }

func (p *provider) JetStream() (leader.JetStreamContext, error)     { return p, nil }
func (p *provider) KeyValue(bucket string) (leader.KeyValue, error) { return p.kv, nil }

// providerConn additionally implements leader.NATSConnectionProvider: connection
// monitoring is on. The connection is a zero-value nats.Conn that only stores the
// handlers the library registers.
type providerConn struct {
	provider
	nc *nats.Conn
}

func (p *providerConn) NATSConnection() *nats.Conn { return p.nc }

// nats.Conn guards Opts.*CB with its unexported mutex and offers no getter for
// DisconnectedCB. The harness plays the part of the client's own event dispatch, which
// reads the handlers under that mutex, so it takes the same mutex.
var connMuOffset = func() uintptr {
	f, ok := reflect.TypeOf((*nats.Conn)(nil)).Elem().FieldByName("mu")
	if !ok || f.Type.String() != "sync.RWMutex" {
		panic("race harness: nats.Conn has no field mu of type sync.RWMutex")
	}
	return f.Offset
}()

type connHandlers struct{ disconnected, reconnected, closed nats.ConnHandler }

func handlersOf(nc *nats.Conn) connHandlers {
	mu := (*sync.RWMutex)(unsafe.Add(unsafe.Pointer(nc), connMuOffset))
	mu.RLock()
	h := connHandlers{nc.Opts.DisconnectedCB, nc.Opts.ReconnectedCB, nc.Opts.ClosedCB}
	mu.RUnlock()
	return h
}

// ---------------------------------------------------------------- statistics (optional)

type stats struct {
	mu sync.Mutex
	n  map[string]int64
}

func (s *stats) inc(k string) {
	if s == nil {
		return
	}
	s.mu.Lock()
	s.n[k]++
	s.mu.Unlock()
}

func (s *stats) snapshot() ([]string, map[string]int64) {
	s.mu.Lock()
	defer s.mu.Unlock()
	m := make(map[string]int64, len(s.n))
	var ks []string
	for k, v := range s.n {
		m[k] = v
		ks = append(ks, k)
	}
	sort.Strings(ks)
	return ks, m
}

// ---------------------------------------------------------------- logger, metrics

type quietLogger struct{ st *stats }

func (l *quietLogger) Debug(msg string, f ...zap.Field) { l.st.inc("log:" + msg) }
func (l *quietLogger) Info(msg string, f ...zap.Field)  { l.st.inc("log:" + msg) }
func (l *quietLogger) Warn(msg string, f ...zap.Field)  { l.st.inc("log:" + msg) }
func (l *quietLogger) Error(msg string, f ...zap.Field) { l.st.inc("log:" + msg) }
func (l *quietLogger) Fatal(msg string, f ...zap.Field) { l.st.inc("log:" + msg) }

type quietMetrics struct{ st *stats }

// use reads the label map the library built for this call (a map shared between
// goroutines would show up as a race here).
func use(l prometheus.Labels) int { return len(l["instance_id"]) + len(l) }

func (m *quietMetrics) SetIsLeader(v float64, l prometheus.Labels)                    { use(l) }
func (m *quietMetrics) SetConnectionStatus(v float64, l prometheus.Labels)            { use(l) }
func (m *quietMetrics) IncTransitions(l prometheus.Labels)                            { use(l); m.st.inc("to:" + l["to_state"]) }
func (m *quietMetrics) IncFailures(l prometheus.Labels)                               { use(l) }
func (m *quietMetrics) IncAcquireAttempts(l prometheus.Labels)                        { use(l) }
func (m *quietMetrics) IncTokenValidationFailures(l prometheus.Labels)                { use(l) }
func (m *quietMetrics) ObserveHeartbeatDuration(d time.Duration, l prometheus.Labels) { use(l) }
func (m *quietMetrics) ObserveLeaderDuration(d time.Duration, l prometheus.Labels)    { use(l) }

// ---------------------------------------------------------------- health checker

const (
	healthOK = iota
	healthFlaky
	healthSlow
	healthSlowFlaky
	healthBlock
	healthModes
)

// timeRand is a stateless source of "randomness" for code that runs on library
// goroutines: a hash of the clock and a per-object salt.
func timeRand(salt uint64) uint64 {
	x := uint64(time.Now().UnixNano()) ^ salt
	x += 0x9e3779b97f4a7c15
	x = (x ^ (x >> 30)) * 0xbf58476d1ce4e5b9
	x = (x ^ (x >> 27)) * 0x94d049bb133111eb
	return x ^ (x >> 31)
}

type health struct {
	mode int
	salt uint64
}

// waitNoSync waits for d or until stop() holds, whichever comes first, by sleeping in short steps. No timer channel:
// receiving from one orders the receiver after every goroutine whose timers fired on the same processor before (the
// race detector follows the runtime's timer context), which hides races between library goroutines.
func waitNoSync(d time.Duration, stop func() bool) bool {
	end := time.Now().Add(d)
	for {
		left := time.Until(end)
		if left <= 0 {
			return true
		}
		if left > 5*time.Millisecond {
			left = 5 * time.Millisecond
		}
		time.Sleep(left)
		if stop() {
			return false
		}
	}
}

func (h *health) Check(ctx context.Context) bool {
	r := timeRand(h.salt)
	switch h.mode {
	case healthFlaky:
		return r%5 < 2
	case healthSlow, healthSlowFlaky:
		d := time.Duration(r>>8%150) * time.Millisecond
		if r&1 == 0 {
			time.Sleep(d) // ignores the deadline
		} else {
			waitNoSync(d, func() bool { return ctx.Err() != nil })
		}
		if h.mode == healthSlowFlaky {
			return r>>20%3 != 0
		}
		return true
	case healthBlock:
		<-ctx.Done() // at most the library's 100 ms
		return r&2 == 0
	}
	return true
}

// ---------------------------------------------------------------- callbacks

// The callbacks read the election's public state, as real applications do. They are
// closures over the Election only.

func mkPromote(el leader.Election, variant int) func(context.Context, string) {
	return func(ctx context.Context, token string) {
		_ = el.IsLeader()
		_ = el.Token() == token
		switch variant % 4 {
		case 1:
			_ = el.Status()
		case 2:
			// the application's leader task: runs until the term ends (bounded)
			waitNoSync(40*time.Millisecond, func() bool { return ctx.Err() != nil })
			_ = el.IsLeader()
		case 3:
			_ = el.LeaderID()
		}
	}
}

func mkDemote(el leader.Election, variant int) func() {
	return func() {
		_ = el.IsLeader()
		_ = el.Token()
		switch variant % 4 {
		case 1:
			_ = el.Status()
		case 2:
			time.Sleep(time.Duration(variant%5) * time.Millisecond)
			_ = el.LeaderID()
		}
	}
}
