// Package race checks property C20 of the election library: every method of an
// election may be called concurrently from any goroutines, together with the
// library's own background activity and connection notifications, without a data
// race in the sense of the Go memory model.
//
// The package runs the real library in REAL time (no testing/synctest) under the Go
// race detector against a thread-safe in-memory store (store.go), generates random
// scenarios that hammer the public API from unsynchronised goroutines (scenario.go)
// and turns the detector's reports into a normalised JSON result (this file and
// cmd/parse).
package race

import (
	"encoding/json"
	"os"
	"path/filepath"
	"regexp"
	"sort"
	"strings"
)

const (
	leaderPkg  = "github.com/ali-assar/NATS-Leader-Election/leader."
	harnessPkg = "verif/harness/"
)

// Frame is one stack frame of a race report.
type Frame struct {
	Func string // full name as printed by the detector, without the trailing "()"
	File string // absolute path
	Line string
}

// Access is one of the two conflicting accesses of a report.
type Access struct {
	Kind   string // "read", "write", "atomic read", "atomic write"
	Frames []Frame
	NoStk  bool // "[failed to restore the stack]"
}

// RawReport is one parsed "WARNING: DATA RACE" block.
type RawReport struct {
	Text     string
	Accesses []Access // normally exactly two
}

// Report is one entry of the JSON result: all detector reports with the same key.
type Report struct {
	Key    string      `json:"key"`
	Count  int         `json:"count"`
	Kinds  string      `json:"kinds"`
	Frames [][2]string `json:"frames"` // per access: innermost library frame (function, file:line)
	Tops   [][2]string `json:"tops"`   // per access: the frame of the access itself
	Sites  []string    `json:"sites"`  // distinct "file:line|file:line" pairs seen for the key (at most 12)
	Raw    string      `json:"raw"`
}

// Meta is what TestRace knows about its own run.
type Meta struct {
	Scenarios int64   `json:"scenarios"`
	APICalls  int64   `json:"api_calls"`
	Seconds   float64 `json:"seconds"`
	Seed      int64   `json:"seed,omitempty"`
	Par       int     `json:"par,omitempty"`
	Runs      int     `json:"runs,omitempty"`    // child processes used (a crash starts a new one)
	Crashes   []Crash `json:"crashes,omitempty"` // children that died or hung
}

// Crash describes a child process of TestRace that did not end normally: the library
// panicked (e.g. "sync: WaitGroup is reused before previous Wait has returned"), the
// runtime gave up ("fatal error: ..."), or the process hung and was killed.
type Crash struct {
	Kind    string    `json:"kind"` // "panic", "fatal", "hang", "exit"
	Message string    `json:"message"`
	Frame   [2]string `json:"frame"` // innermost library frame of the failing goroutine
	Seed    int64     `json:"seed"`
	After   float64   `json:"after_seconds"`
	Raw     string    `json:"raw"`
}

var traceLocRe = regexp.MustCompile(`^\t(\S.*):(\d+)(?: \+0x[0-9a-f]+)?\s*$`)

// ParseCrash looks for a panic or fatal error in the output of a test binary.
func ParseCrash(out string) (Crash, bool) {
	lines := strings.Split(out, "\n")
	for i, ln := range lines {
		var c Crash
		switch {
		case strings.HasPrefix(ln, "panic: "):
			c.Kind, c.Message = "panic", strings.TrimPrefix(ln, "panic: ")
		case strings.HasPrefix(ln, "fatal error: "):
			c.Kind, c.Message = "fatal", strings.TrimPrefix(ln, "fatal error: ")
		default:
			continue
		}
		raw := strings.Join(lines[i:], "\n")
		if len(raw) > 3000 {
			raw = raw[:3000]
		}
		c.Raw = raw
		// the first goroutine of the trace is the failing one
		started := false
		for j := i + 1; j < len(lines); j++ {
			l := lines[j]
			if strings.HasPrefix(l, "goroutine ") {
				if started {
					break
				}
				started = true
				continue
			}
			if started && strings.HasPrefix(l, leaderPkg) {
				fn := l
				if k := strings.LastIndex(fn, "("); k > 0 {
					fn = fn[:k]
				}
				c.Frame[0] = "leader." + stripClosure(strings.TrimPrefix(fn, leaderPkg))
				if j+1 < len(lines) {
					if m := traceLocRe.FindStringSubmatch(lines[j+1]); m != nil {
						c.Frame[1] = filepath.Base(m[1]) + ":" + m[2]
					}
				}
				break
			}
		}
		return c, true
	}
	return Crash{}, false
}

// Result is the content of RACE_OUT.
type Result struct {
	Meta
	TotalReports int      `json:"total_reports"`
	LogFiles     []string `json:"log_files"`
	Reports      []Report `json:"reports"`
}

var (
	accessRe  = regexp.MustCompile(`(?i)^(previous )?((?:atomic )?(?:read|write)) (?:of size \d+ )?at 0x[0-9a-f]+ by .*:\s*$`)
	locRe     = regexp.MustCompile(`^\s+(\S.*):(\d+)(?: \+0x[0-9a-f]+)?\s*$`)
	closureRe = regexp.MustCompile(`\.(func\d+|gowrap\d+|deferwrap\d+|\d+)$`)
	sepRe     = regexp.MustCompile(`^=+\s*$`)
)

// ParseReports extracts the data race reports from the text of a detector log.
// Reports are delimited by "==================" lines; anything else in the log
// (panics, test output that ended up on the same stream) is ignored.
func ParseReports(text string) []RawReport {
	var out []RawReport
	var cur []string
	in := false
	flush := func() {
		if in && len(cur) > 0 {
			if r, ok := parseBlock(cur); ok {
				out = append(out, r)
			}
		}
		cur = nil
		in = false
	}
	for _, ln := range strings.Split(strings.ReplaceAll(text, "\r\n", "\n"), "\n") {
		switch {
		case sepRe.MatchString(ln) && len(strings.TrimSpace(ln)) >= 10:
			flush()
		case strings.HasPrefix(strings.TrimSpace(ln), "WARNING: DATA RACE"):
			// a report whose leading separator was lost (interleaved output)
			flush()
			in = true
			cur = append(cur, ln)
		default:
			if in {
				cur = append(cur, ln)
			}
		}
	}
	flush()
	return out
}

func parseBlock(lines []string) (RawReport, bool) {
	r := RawReport{Text: strings.TrimRight(strings.Join(lines, "\n"), "\n")}
	var acc *Access
	inAccess := false
	for i := 0; i < len(lines); i++ {
		ln := lines[i]
		if m := accessRe.FindStringSubmatch(ln); m != nil {
			r.Accesses = append(r.Accesses, Access{Kind: strings.ToLower(m[2])})
			acc = &r.Accesses[len(r.Accesses)-1]
			inAccess = true
			continue
		}
		if !inAccess {
			continue
		}
		if strings.TrimSpace(ln) == "" {
			inAccess = false
			continue
		}
		if !strings.HasPrefix(ln, " ") {
			// "Goroutine N (running) created at:" or another header: the access section is over
			inAccess = false
			continue
		}
		if strings.Contains(ln, "failed to restore the stack") {
			acc.NoStk = true
			continue
		}
		// a frame: "  func(args)" followed by "      /path/file.go:LINE +0x.."
		fn := strings.TrimSpace(ln)
		if strings.HasSuffix(fn, "()") {
			fn = fn[:len(fn)-2]
		} else if j := strings.LastIndex(fn, "("); j > 0 && strings.HasSuffix(fn, ")") && !strings.HasSuffix(fn[:j], ".") {
			fn = fn[:j]
		}
		fr := Frame{Func: fn}
		if i+1 < len(lines) {
			if m := locRe.FindStringSubmatch(lines[i+1]); m != nil && strings.HasPrefix(lines[i+1], "   ") {
				fr.File, fr.Line = m[1], m[2]
				i++
			}
		}
		acc.Frames = append(acc.Frames, fr)
	}
	return r, len(r.Accesses) > 0
}

// stripClosure removes ".funcN", ".funcN.M", ".gowrapN", ".deferwrapN" suffixes.
func stripClosure(fn string) string {
	for {
		s := closureRe.ReplaceAllString(fn, "")
		if s == fn {
			return fn
		}
		fn = s
	}
}

type side struct {
	name    string    // key component
	frame   [2]string // innermost library frame, or the top frame when there is none
	top     [2]string
	kind    string
	lib     bool
	harness bool
}

func loc(f Frame) string {
	if f.File == "" {
		return ""
	}
	return filepath.Base(f.File) + ":" + f.Line
}

func classify(a Access) side {
	s := side{kind: a.Kind, name: "external"}
	if len(a.Frames) == 0 {
		s.name = "?"
		return s
	}
	s.top = [2]string{a.Frames[0].Func, loc(a.Frames[0])}
	s.frame = s.top
	for _, f := range a.Frames {
		if strings.HasPrefix(f.Func, leaderPkg) {
			short := stripClosure(strings.TrimPrefix(f.Func, leaderPkg))
			s.name = short
			s.frame = [2]string{"leader." + short, loc(f)}
			s.lib = true
			return s
		}
	}
	for _, f := range a.Frames {
		if strings.HasPrefix(f.Func, harnessPkg) {
			s.harness = true
			s.name = "harness"
			break
		}
	}
	return s
}

// Normalise groups raw reports by key.
func Normalise(raw []RawReport) []Report {
	byKey := map[string]*Report{}
	sites := map[string]map[string]bool{}
	var order []string
	for _, r := range raw {
		var sd []side
		for _, a := range r.Accesses {
			sd = append(sd, classify(a))
			if len(sd) == 2 {
				break
			}
		}
		for len(sd) < 2 {
			sd = append(sd, side{name: "?"})
		}
		sort.SliceStable(sd, func(i, j int) bool { return sd[i].name < sd[j].name })
		var key string
		switch {
		case sd[0].lib || sd[1].lib:
			key = sd[0].name + "|" + sd[1].name
		case sd[0].harness || sd[1].harness:
			key = "harness"
		case sd[0].name == "?" && sd[1].name == "?":
			key = "unknown"
		default:
			key = "external"
		}
		site := sd[0].frame[1] + "|" + sd[1].frame[1]
		rep, ok := byKey[key]
		if !ok {
			txt := r.Text
			if len(txt) > 1500 {
				txt = txt[:1500]
			}
			rep = &Report{
				Key:    key,
				Kinds:  sd[0].kind + "|" + sd[1].kind,
				Frames: [][2]string{sd[0].frame, sd[1].frame},
				Tops:   [][2]string{sd[0].top, sd[1].top},
				Raw:    txt,
			}
			byKey[key] = rep
			sites[key] = map[string]bool{}
			order = append(order, key)
		}
		rep.Count++
		if !sites[key][site] && len(rep.Sites) < 12 {
			sites[key][site] = true
			rep.Sites = append(rep.Sites, site)
		}
	}
	sort.Strings(order)
	out := make([]Report, 0, len(order))
	for _, k := range order {
		out = append(out, *byKey[k])
	}
	return out
}

// LogPathFromGORACE returns the log_path option of a GORACE value ("" if none,
// or if it names stdout/stderr).
func LogPathFromGORACE(v string) string {
	for _, f := range strings.Fields(v) {
		if strings.HasPrefix(f, "log_path=") {
			p := strings.TrimPrefix(f, "log_path=")
			if p == "stdout" || p == "stderr" {
				return ""
			}
			return p
		}
	}
	return ""
}

// Collect parses the given log files and builds the result.
func Collect(files []string, meta Meta) Result {
	res := Result{Meta: meta, LogFiles: []string{}, Reports: []Report{}}
	var raw []RawReport
	sort.Strings(files)
	for _, f := range files {
		b, err := os.ReadFile(f)
		if err != nil {
			continue
		}
		res.LogFiles = append(res.LogFiles, f)
		raw = append(raw, ParseReports(string(b))...)
	}
	res.TotalReports = len(raw)
	if n := Normalise(raw); n != nil {
		res.Reports = n
	}
	return res
}

// LogFiles lists the detector's log files for a log_path prefix: "<prefix>.<pid>".
func LogFiles(prefix string) []string {
	m, _ := filepath.Glob(prefix + ".*")
	var out []string
	for _, f := range m {
		suf := strings.TrimPrefix(f, prefix+".")
		if suf != "" && strings.Trim(suf, "0123456789") == "" {
			out = append(out, f)
		}
	}
	return out
}

// WriteJSON writes v to path atomically enough for our purposes.
func WriteJSON(path string, v interface{}) error {
	b, err := json.MarshalIndent(v, "", " ")
	if err != nil {
		return err
	}
	tmp := path + ".tmp"
	if err := os.WriteFile(tmp, append(b, '\n'), 0o644); err != nil {
		return err
	}
	return os.Rename(tmp, path)
}
