// Command parse turns the Go race detector's log files of a finished TestRace run
// into the normalised JSON result.
//
//	raceparse <log-prefix> <out.json> [meta.json]
//
// <log-prefix> is the value of GORACE log_path: every file "<log-prefix>.<pid>" is
// read (use a fresh prefix per run). meta.json is the file TestRace writes to
// RACE_OUT+".meta" (scenarios, api_calls, seconds); when it is missing (the test
// binary died) those fields are zero. Exit status: 0 = parsed (whether or not races
// were found), 2 = usage or I/O error.
package main

import (
	"encoding/json"
	"fmt"
	"os"

	"verif/harness/race"
)

func main() {
	if len(os.Args) < 3 || len(os.Args) > 4 {
		fmt.Fprintln(os.Stderr, "usage: raceparse <log-prefix> <out.json> [meta.json]")
		os.Exit(2)
	}
	var meta race.Meta
	if len(os.Args) == 4 {
		if b, err := os.ReadFile(os.Args[3]); err == nil {
			if err := json.Unmarshal(b, &meta); err != nil {
				fmt.Fprintf(os.Stderr, "raceparse: %s: %v\n", os.Args[3], err)
			}
		}
	}
	res := race.Collect(race.LogFiles(os.Args[1]), meta)
	if err := race.WriteJSON(os.Args[2], res); err != nil {
		fmt.Fprintf(os.Stderr, "raceparse: %v\n", err)
		os.Exit(2)
	}
	fmt.Printf("raceparse: %d log file(s), %d report(s), %d key(s)\n", len(res.LogFiles), res.TotalReports, len(res.Reports))
	for _, r := range res.Reports {
		fmt.Printf("  %4dx %s\n", r.Count, r.Key)
	}
	for _, c := range res.Crashes {
		fmt.Printf("  crash: %s: %s [%s %s]\n", c.Kind, c.Message, c.Frame[0], c.Frame[1])
	}
}
