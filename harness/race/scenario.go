package race

import (
	"context"
	"encoding/json"
	"fmt"
	"math/rand"
	"os"
	"runtime"
	"sync"
	"sync/atomic"
	"time"

	"github.com/ali-assar/NATS-Leader-Election/leader"
	"github.com/nats-io/nats.go"
)

// instance is one election of a scenario. All fields are written before the scenario's
// goroutines start and are read-only afterwards.
type instance struct {
	id  string
	el  leader.Election
	nc  *nats.Conn // nil: no connection monitoring
	ctx context.Context
	pri int
}

type scenario struct {
	seed      int64
	group     string
	store     *Store
	insts     []*instance
	stop      atomic.Bool // set once by the scenario's main goroutine
	duration  time.Duration
	hammers   int
	churn     int     // scales the probability of Start/Stop calls
	cut       [10]int // cumulative operation weights of the hammers, see opNames
	paceUs    int     // upper bound of the hammers' pauses in microseconds
	sparse    bool    // few notifications, mostly lone disconnects: grace periods can run out
	outsiderQ time.Duration
	st        *stats
}

// The hammers' operations, in the order of scenario.cut.
const (
	opIsLeader = iota
	opLeaderID
	opToken
	opStatus
	opValidate
	opValidateOrDemote
	opOnDemote
	opOnPromote
	opNotify
	opLifeCycle
)

func ms(n int) time.Duration { return time.Duration(n) * time.Millisecond }

func between(r *rand.Rand, lo, hi int) int { return lo + r.Intn(hi-lo+1) }

// newScenario draws one scenario. maxDur bounds its duration (remaining budget).
func newScenario(seed int64, maxDur time.Duration, st *stats) (*scenario, error) {
	r := rand.New(rand.NewSource(seed))
	sc := &scenario{seed: seed, group: fmt.Sprintf("g%d", r.Intn(1000)), st: st}
	n := between(r, 2, 4)
	hs := make([]int, n)
	maxH := 0
	for i := range hs {
		hs[i] = between(r, 20, 60)
		if r.Intn(2) == 0 && i > 0 {
			hs[i] = hs[0] // often the same interval everywhere
		}
		if hs[i] > maxH {
			maxH = hs[i]
		}
	}
	ttl := ms(maxH * between(r, 3, 5))

	prof := FaultProfile{MaxLatency: 3 * time.Millisecond, Slow: 1200 * time.Millisecond}
	longSlow := false
	kind := r.Intn(6)
	if os.Getenv("RACE_ONLY") == "longslow" {
		// the supervisor's first child runs nothing but these: they need 2.5 s of undisturbed run each, and a library panic
		// provoked by the life-cycle churn of a neighbouring scenario (sync: WaitGroup is reused, see D15) would end them early
		kind = 4
	}
	switch kind {
	case 4, 5:
		// heartbeat answers that arrive after the library's own 1 s time-out while the term goes on
		prof.SlowUpdate = 250
		prof.SlowAck = true
		longSlow = true
	case 0: // clean
	case 1:
		prof.ErrPerMille, prof.LostAck, prof.SlowUpdate, prof.SlowOther, prof.WatchClose = 15, 5, 10, 3, 10
	case 2:
		prof.ErrPerMille, prof.LostAck, prof.SlowUpdate, prof.SlowOther, prof.WatchClose = 60, 20, 40, 10, 40
	case 3:
		prof.SlowUpdate, prof.WatchClose = 60, 5
	}
	sc.store = NewStore(r.Int63(), ttl, prof)

	sc.duration = ms(between(r, 300, 1500))
	if prof.SlowUpdate > 0 && r.Intn(2) == 0 {
		// leave room for the library's own 1 s time-out of a hanging heartbeat
		sc.duration = ms(between(r, 1200, 1500))
	}
	if sc.duration > maxDur {
		sc.duration = maxDur
	}
	if longSlow {
		sc.duration = ms(between(r, 2400, 2800))
	}
	sc.hammers = between(r, 4, 8)
	sc.churn = []int{1, 3, 3, 10, 25}[r.Intn(5)]
	if longSlow {
		sc.churn = 1
	}
	sc.outsiderQ = ms([]int{15, 40, 40, 120, 400}[r.Intn(5)])
	pick := func(v ...int) int { return v[r.Intn(len(v))] }
	// weights per 10000 calls; the rates of the calls that change something differ by
	// orders of magnitude between scenarios, so that both "leader lives long" and
	// "everything happens at once" occur
	w := [10]int{
		opIsLeader:         2000,
		opLeaderID:         1500,
		opToken:            1500,
		opStatus:           1500,
		opValidate:         pick(50, 200, 600),
		opValidateOrDemote: pick(5, 40, 150, 400),
		opOnDemote:         pick(300, 1000, 2500),
		opOnPromote:        pick(200, 700),
		opNotify:           pick(3, 20, 100, 400),
		opLifeCycle:        2 * sc.churn,
	}
	sum := 0
	for i, x := range w {
		sum += x
		sc.cut[i] = sum
	}
	sc.paceUs = pick(300, 1500, 1500, 4000)
	sc.sparse = w[opNotify] <= 20

	for i := 0; i < n; i++ {
		h := ms(hs[i])
		cfg := leader.ElectionConfig{
			Bucket:            "leaders",
			Group:             sc.group,
			InstanceID:        fmt.Sprintf("i%d", i+1),
			TTL:               ttl,
			HeartbeatInterval: h,
		}
		if r.Intn(3) != 0 {
			cfg.ValidationInterval = h + ms(r.Intn(hs[i]+1)) // H..2H; otherwise the 5 s default
		}
		if r.Intn(4) != 0 {
			cfg.Logger = &quietLogger{st: st}
		}
		if r.Intn(4) != 0 {
			cfg.Metrics = &quietMetrics{st: st}
		}
		if r.Intn(2) == 0 {
			cfg.HealthChecker = &health{mode: r.Intn(healthModes), salt: r.Uint64()}
			cfg.MaxConsecutiveFailures = r.Intn(3) // 0 = default 3
		}
		switch r.Intn(3) {
		case 0:
			cfg.Priority = between(r, 1, 3)
			cfg.AllowPriorityTakeover = true
		case 1:
			cfg.Priority = r.Intn(3)
		}
		in := &instance{id: cfg.InstanceID, pri: cfg.Priority}
		var prov leader.JetStreamProvider = &provider{kv: sc.store}
		if r.Intn(2) == 0 {
			in.nc = &nats.Conn{}
			prov = &providerConn{provider: provider{kv: sc.store}, nc: in.nc}
			if r.Intn(4) != 0 {
				cfg.DisconnectGracePeriod = 2*h + ms(r.Intn(2*hs[i]+1)) // 2H..4H; otherwise 5 s: never expires here
			}
		}
		el, err := leader.NewElection(prov, cfg)
		if err != nil {
			return nil, fmt.Errorf("scenario %d: NewElection: %w", seed, err)
		}
		in.el = el
		if r.Intn(5) != 0 {
			el.OnPromote(mkPromote(el, r.Intn(8)))
		}
		if r.Intn(5) != 0 {
			el.OnDemote(mkDemote(el, r.Intn(8)))
		}
		sc.insts = append(sc.insts, in)
	}
	return sc, nil
}

func (sc *scenario) payload(id string, pri int, tok string) []byte {
	b, _ := json.Marshal(struct {
		ID       string `json:"id"`
		Token    string `json:"token"`
		Priority int    `json:"priority,omitempty"`
	}{id, tok, pri})
	return b
}

// notify injects one connection notification on its own goroutine, the way the NATS
// client's dispatcher would. nwg belongs to the calling hammer alone.
func (sc *scenario) notify(nwg *sync.WaitGroup, in *instance, which int) {
	if in.nc == nil {
		return
	}
	h := handlersOf(in.nc)
	var cb nats.ConnHandler
	switch which {
	case 0:
		cb = h.disconnected
	case 1:
		cb = h.reconnected
	default:
		cb = h.closed
	}
	if cb == nil {
		return
	}
	nwg.Add(1)
	nc := in.nc
	go func() {
		defer nwg.Done()
		cb(nc)
	}()
}

// hammer calls the public API of random instances in random order until the scenario
// stops. It shares nothing with the other hammers except the elections themselves.
func (sc *scenario) hammer(r *rand.Rand) (calls int64) {
	bg := context.Background()
	var nwg sync.WaitGroup // this hammer's notifications in flight
	defer nwg.Wait()
	for !sc.stop.Load() {
		in := sc.insts[r.Intn(len(sc.insts))]
		el := in.el
		calls++
		x := r.Intn(sc.cut[opLifeCycle])
		op := 0
		for x >= sc.cut[op] {
			op++
		}
		switch op {
		case opIsLeader:
			_ = el.IsLeader()
		case opLeaderID:
			_ = el.LeaderID()
		case opToken:
			_ = el.Token() != "" && el.IsLeader()
		case opStatus:
			st := el.Status()
			_ = st.IsLeader && st.Token == ""
		case opValidate:
			ctx, cancel := context.WithTimeout(bg, 50*time.Millisecond)
			_, _ = el.ValidateToken(ctx)
			cancel()
		case opValidateOrDemote:
			ctx, cancel := context.WithTimeout(bg, 50*time.Millisecond)
			_ = el.ValidateTokenOrDemote(ctx)
			cancel()
		case opOnDemote:
			if r.Intn(10) == 0 {
				el.OnDemote(nil)
			} else {
				el.OnDemote(mkDemote(el, r.Intn(8)))
			}
		case opOnPromote:
			if r.Intn(10) == 0 {
				el.OnPromote(nil)
			} else {
				el.OnPromote(mkPromote(el, r.Intn(8)))
			}
		case opNotify:
			// connection notifications
			if sc.sparse {
				switch y := r.Intn(10); {
				case y < 7:
					sc.notify(&nwg, in, 0)
				case y < 8:
					sc.notify(&nwg, in, 1)
				case y < 9:
					sc.notify(&nwg, in, 2)
				default:
					sc.notify(&nwg, in, 0)
					sc.notify(&nwg, in, 2)
				}
				break
			}
			switch r.Intn(8) {
			case 0, 1, 2:
				sc.notify(&nwg, in, 0)
			case 3, 4, 5:
				sc.notify(&nwg, in, 1)
			case 6:
				sc.notify(&nwg, in, 2)
			default:
				sc.notify(&nwg, in, 0)
				sc.notify(&nwg, in, 1)
			}
		default:
			// life cycle
			switch z := r.Intn(10); {
			case z < 5:
				_ = el.Start(in.ctx)
			case z < 7:
				_ = el.Stop()
			default:
				opts := leader.StopOptions{DeleteKey: r.Intn(2) == 0, WaitForDemote: r.Intn(2) == 0}
				ctx, cancel := bg, context.CancelFunc(func() {})
				switch r.Intn(4) {
				case 0:
					opts.Timeout = ms(between(r, 1, 80))
				case 1:
					ctx, cancel = context.WithTimeout(bg, ms(between(r, 1, 80)))
				case 2:
					ctx, cancel = context.WithTimeout(bg, ms(between(r, 1, 80)))
					opts.Timeout = ms(between(r, 1, 80))
				default:
					ctx, cancel = context.WithCancel(bg)
					cancel() // already cancelled
					opts.Timeout = ms(between(r, 1, 30))
				}
				_ = el.StopWithContext(ctx, opts)
				cancel()
				if r.Intn(2) == 0 {
					_ = el.Start(in.ctx) // ... then Start again
				}
			}
		}
		// pacing: without it the hammers starve the library's own goroutines
		switch p := r.Intn(10); {
		case p < 3:
		case p < 6:
			runtime.Gosched()
		default:
			time.Sleep(time.Duration(r.Intn(sc.paceUs)) * time.Microsecond)
		}
	}
	return calls
}

// outsider writes into the record from outside the library: another instance's payload
// (pre-emption as the watchers see it), garbage, deletions and silent expiry.
func (sc *scenario) outsider(r *rand.Rand) {
	for !sc.stop.Load() {
		time.Sleep(sc.outsiderQ/4 + time.Duration(r.Int63n(int64(sc.outsiderQ))))
		in := sc.insts[r.Intn(len(sc.insts))]
		switch x := r.Intn(10); {
		case x < 5:
			sc.store.ExtPut(sc.group, sc.payload(in.id, in.pri, fmt.Sprintf("ext-%d", r.Int63())))
		case x < 6:
			sc.store.ExtPut(sc.group, sc.payload("outsider", between(r, 0, 4), fmt.Sprintf("ext-%d", r.Int63())))
		case x < 7:
			sc.store.ExtPut(sc.group, []byte([]string{"", "{", `{"id":7}`, `{"id":"i1","token":5}`}[r.Intn(4)]))
		case x < 9:
			sc.store.ExtDelete(sc.group)
		default:
			sc.store.ExtExpire(sc.group)
		}
	}
}

// run executes the scenario and returns the number of API calls made by the hammers.
func (sc *scenario) run() int64 {
	r := rand.New(rand.NewSource(sc.seed ^ 0x5eed))
	var cancels []context.CancelFunc
	for _, in := range sc.insts {
		ctx, cancel := context.WithCancel(context.Background())
		in.ctx = ctx
		cancels = append(cancels, cancel)
	}

	var wg sync.WaitGroup
	calls := make([]int64, sc.hammers)
	// initial Start of most instances, each from its own goroutine, while the hammers begin
	for _, in := range sc.insts {
		if r.Intn(5) == 0 {
			continue // left to the hammers
		}
		wg.Add(1)
		go func(in *instance, d time.Duration) {
			defer wg.Done()
			time.Sleep(d)
			_ = in.el.Start(in.ctx)
		}(in, time.Duration(r.Intn(5000))*time.Microsecond)
	}
	for i := 0; i < sc.hammers; i++ {
		wg.Add(1)
		go func(i int, hr *rand.Rand) {
			defer wg.Done()
			calls[i] = sc.hammer(hr)
		}(i, rand.New(rand.NewSource(r.Int63())))
	}
	wg.Add(1)
	go func(or *rand.Rand) {
		defer wg.Done()
		sc.outsider(or)
	}(rand.New(rand.NewSource(r.Int63())))

	time.Sleep(sc.duration)

	// end: the hammers finish their current call while every instance is stopped twice
	// over, concurrently (Stop and StopWithContext on the same election)
	sc.stop.Store(true)
	var fin sync.WaitGroup
	for _, in := range sc.insts {
		fin.Add(2)
		go func(in *instance) {
			defer fin.Done()
			_ = in.el.Stop()
		}(in)
		go func(in *instance, del bool) {
			defer fin.Done()
			ctx, cancel := context.WithTimeout(context.Background(), 300*time.Millisecond)
			_ = in.el.StopWithContext(ctx, leader.StopOptions{DeleteKey: del})
			cancel()
		}(in, r.Intn(2) == 0)
	}
	// store calls that hang are released shortly after, so that nothing waits for them
	closer := time.AfterFunc(150*time.Millisecond, sc.store.Abort)
	wg.Wait()
	fin.Wait()
	// a hammer may have started an instance again after the final stops
	for _, in := range sc.insts {
		_ = in.el.Stop()
	}
	closer.Stop()
	for _, c := range cancels {
		c()
	}
	sc.store.Close()

	var total int64
	for _, c := range calls {
		total += c
	}
	return total
}
