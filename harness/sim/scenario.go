package sim

import (
	"context"
	"encoding/hex"
	"encoding/json"
	"errors"
	"fmt"
	"runtime"
	"sort"
	"strings"
	"sync/atomic"
	"testing"
	"testing/synctest"
	"time"

	"verif/harness/refstore"

	"github.com/ali-assar/NATS-Leader-Election/leader"
	"github.com/nats-io/nats.go"
)

// Scenario is the self-contained, replayable description of one simulated execution.
type Scenario struct {
	Name       string               `json:"name"`
	Family     string               `json:"family"`
	Seed       int64                `json:"seed"`
	BucketTTL  int64                `json:"bucket_ttl_ns"`
	Instances  []InstSpec           `json:"instances"`
	Latency    [2]int64             `json:"latency_ns"`
	HangNs     int64                `json:"hang_ns,omitempty"`
	WatchDelay [2]int64             `json:"watch_delay_ns"`
	Rules      []Rule               `json:"rules,omitempty"`
	Watch      map[string]WatchPlan `json:"watch,omitempty"`
	Actions    []Action             `json:"actions"`
	Until      int64                `json:"until_ns"`
	Grid       int64                `json:"grid_ns,omitempty"`
	// Yield: the observers the library calls out to (Metrics, Logger) yield the processor, so that whatever else is
	// runnable at that instant runs in between (no time passes): explores interleavings at the call-outs
	Yield bool `json:"yield,omitempty"`
	// Env tags: which environment assumptions the generator kept (checked again by the oracle)
	Env []string `json:"env,omitempty"`
}

type InstSpec struct {
	ID         string      `json:"id"`
	Group      string      `json:"group"`
	H          int64       `json:"h_ns"`
	TTL        int64       `json:"ttl_ns"`
	ValInt     int64       `json:"validation_ns,omitempty"`
	Grace      int64       `json:"grace_ns,omitempty"`
	MaxHealth  int         `json:"max_health,omitempty"`
	Priority   int         `json:"priority,omitempty"`
	Takeover   bool        `json:"takeover,omitempty"`
	Monitor    bool        `json:"monitor,omitempty"`
	Health     *HealthPlan `json:"health,omitempty"`
	Promote    string      `json:"promote,omitempty"` // "", "block", "sleep", "sleepctx", "none"
	PromoteNs  int64       `json:"promote_ns,omitempty"`
	DemoteNs   int64       `json:"demote_ns,omitempty"`
	NoDemoteCb bool        `json:"no_demote_cb,omitempty"`
	// LogDelay: how long the application's Logger takes for a message (by code, see logCodes), in ns
	LogDelay map[string]int64 `json:"log_delay,omitempty"`
	// Script: API calls of this instance's owner, executed one after the other
	// (each step waits After ns after the previous call returned).
	Script []Action `json:"script,omitempty"`
}

type HealthPlan struct {
	Results []bool  `json:"results"`
	DurNs   []int64 `json:"dur_ns,omitempty"`
	Default bool    `json:"default"`
}

type Rule struct {
	Inst  string `json:"inst,omitempty"`
	Kind  string `json:"kind,omitempty"`
	Site  string `json:"site,omitempty"`
	Nth   []int  `json:"nth,omitempty"`
	FromT int64  `json:"from_t,omitempty"`
	ToT   int64  `json:"to_t,omitempty"`
	Pre   int64  `json:"pre_ns"`
	Post  int64  `json:"post_ns"`
	Fault string `json:"fault,omitempty"`
	Hang  int64  `json:"hang_ns,omitempty"`
	// Stall (Get only): the goroutine that receives the answer is descheduled between reading the value and reading the
	// revision of the entry, for this long or until its instance's claim changes, whichever comes first
	Stall int64 `json:"stall_ns,omitempty"`
}

type WatchPlan struct {
	Delay      [2]int64 `json:"delay_ns"`
	Drop       []int    `json:"drop,omitempty"`
	CloseAfter int      `json:"close_after,omitempty"`
	Only       int      `json:"only"` // which Watch call of the instance the drop/close plan applies to (-1 all)
	// Pipe: Delay is a transit time counted from the moment the entry was produced (entries overlap in transit);
	// otherwise each entry is delayed after the previous one has been delivered (a slow consumer)
	Pipe bool `json:"pipe,omitempty"`
	// Stall: the goroutine that handles a delivered entry is descheduled when it first looks at the entry's value, for
	// this long or until its instance's claim changes, whichever comes first
	Stall int64 `json:"stall_ns,omitempty"`
}

type Action struct {
	At    int64  `json:"at,omitempty"`
	After int64  `json:"after,omitempty"`
	Do    string `json:"do"`
	// On: instead of a time, the observation of instance OnI that triggers the action, at that very instant:
	// "log:<code>", "trans:<to-state code>", "flag:<0|1>", "issue:<kind code>", "stall" (a Rule.Stall begins);
	// OnNth picks the occurrence (0 = first)
	On    string `json:"on,omitempty"`
	OnI   string `json:"on_i,omitempty"`
	OnNth int    `json:"on_nth,omitempty"`
	// SyncNs: the observer that triggered the action waits until the action has completed, at most this long
	// (a call-out of the library that is slow because the application reacts to it)
	SyncNs  int64  `json:"sync_ns,omitempty"`
	I       string `json:"i,omitempty"`
	Delete  bool   `json:"delete,omitempty"`
	Wait    bool   `json:"wait,omitempty"`
	Timeout int64  `json:"timeout_ns,omitempty"`
	CtxNs   int64  `json:"ctx_ns,omitempty"`
	Ev      string `json:"ev,omitempty"`
	Key     string `json:"key,omitempty"`
	Hex     string `json:"hex,omitempty"`
	Str     string `json:"str,omitempty"`
	// Then: performed by the same caller after this action has returned (and After ns)
	Then *Action `json:"then,omitempty"`
}

const (
	aStart     = 1
	aStop      = 2
	aStopCtx   = 3
	aValidate  = 4
	aValOrDem  = 5
	aConn      = 7
	aCancelCtx = 8
)

func (w *World) inst(id string) *Inst {
	for _, in := range w.insts {
		if in.spec.ID == id {
			return in
		}
	}
	return nil
}

func b2i(b bool) int64 {
	if b {
		return 1
	}
	return 0
}

// do performs one scripted action. "api i call a b c d gid" ... "apiret i call res err"
func (w *World) do(a Action) {
	w.do1(a)
	for a.Then != nil {
		n := *a.Then
		if n.After > 0 {
			time.Sleep(time.Duration(n.After))
		}
		// a chain does not go on into the harness's own wind-down
		if w.tr.now() >= w.sc.Until {
			return
		}
		if n.I == "" {
			n.I = a.I
		}
		w.do1(n)
		a = n
	}
}

func (w *World) do1(a Action) {
	tr := w.tr
	in := w.inst(a.I)
	switch a.Do {
	case "cancel_ctx":
		// the application cancels the context it passed to Start
		tr.rec("api", int64(in.idx), aCancelCtx, 0, 0, 0, 0, gid())
		in.mu.Lock()
		c := in.startCancel
		in.mu.Unlock()
		if c != nil {
			c()
		}
		tr.rec("apiret", int64(in.idx), aCancelCtx, 0, 0, gid())
	case "start":
		tr.rec("api", int64(in.idx), aStart, 0, 0, 0, 0, gid())
		sctx, scancel := context.WithCancel(context.Background())
		err := in.el.Start(sctx)
		r := int64(0)
		if errors.Is(err, leader.ErrAlreadyStarted) {
			r = 1
		} else if err != nil {
			r = 2
		}
		if err == nil {
			// only a run that was started is ended by a later cancel_ctx
			in.mu.Lock()
			in.startCancel = scancel
			in.mu.Unlock()
		} else {
			scancel()
		}
		tr.rec("apiret", int64(in.idx), aStart, r, 0, gid())
	case "stop":
		tr.rec("api", int64(in.idx), aStop, 0, 0, 0, 0, gid())
		err := in.el.Stop()
		r := int64(0)
		if errors.Is(err, leader.ErrAlreadyStopped) {
			r = 1
		} else if err != nil {
			r = 2
		}
		tr.rec("apiret", int64(in.idx), aStop, r, 0, gid())
	case "stop_ctx":
		ctx := context.Background()
		var cancel context.CancelFunc = func() {}
		if a.CtxNs > 0 {
			ctx, cancel = context.WithTimeout(ctx, time.Duration(a.CtxNs))
		}
		tr.rec("api", int64(in.idx), aStopCtx, b2i(a.Delete), b2i(a.Wait), a.Timeout, a.CtxNs, gid())
		err := in.el.StopWithContext(ctx, leader.StopOptions{DeleteKey: a.Delete, WaitForDemote: a.Wait, Timeout: time.Duration(a.Timeout)})
		cancel()
		r := int64(0)
		switch {
		case err == nil:
		case errors.Is(err, leader.ErrAlreadyStopped):
			r = 1
		case errors.Is(err, context.DeadlineExceeded) || errors.Is(err, context.Canceled):
			r = 4
		case strings.Contains(err.Error(), "timeout"):
			r = 3
		default:
			r = 2
		}
		tr.rec("apiret", int64(in.idx), aStopCtx, r, 0, gid())
	case "validate", "validate_or_demote":
		ctx := context.Background()
		var cancel context.CancelFunc = func() {}
		if a.CtxNs > 0 {
			ctx, cancel = context.WithTimeout(ctx, time.Duration(a.CtxNs))
		} else if a.CtxNs < 0 {
			ctx, cancel = context.WithCancel(ctx)
			cancel()
		}
		code := int64(aValidate)
		if a.Do == "validate_or_demote" {
			code = aValOrDem
		}
		tr.mu.Lock()
		tr.recLocked("api", int64(in.idx), code, a.CtxNs, b2i(in.el.IsLeader()), tr.tokLocked(in.el.Token()), 0, gid())
		tr.mu.Unlock()
		var ok bool
		var err error
		if code == aValidate {
			ok, err = in.el.ValidateToken(ctx)
		} else {
			ok = in.el.ValidateTokenOrDemote(ctx)
		}
		cancel()
		e := int64(0)
		if errors.Is(err, leader.ErrNotLeader) {
			e = 1
		} else if err != nil {
			e = 2
		}
		tr.rec("apiret", int64(in.idx), code, b2i(ok), e, gid())
	case "conn":
		ev := map[string]int64{"disconnect": 1, "reconnect": 2, "closed": 3}[a.Ev]
		tr.rec("api", int64(in.idx), aConn, ev, 0, 0, 0, gid())
		if in.nc != nil {
			switch ev {
			case 1:
				if h := in.nc.Opts.DisconnectedCB; h != nil {
					h(in.nc)
				}
			case 2:
				if h := in.nc.Opts.ReconnectedCB; h != nil {
					h(in.nc)
				}
			case 3:
				if h := in.nc.Opts.ClosedCB; h != nil {
					h(in.nc)
				}
			}
		}
		tr.rec("apiret", int64(in.idx), aConn, ev, 0, gid())
	case "ext_put":
		val := []byte(a.Str)
		if a.Hex != "" {
			val, _ = hex.DecodeString(a.Hex)
		}
		w.extPut(a.Key, val)
	case "ext_tpl":
		// a value derived from the live record (an outside party rewriting what it read)
		w.mu.Lock()
		cur := w.store.Get(a.Key)
		w.mu.Unlock()
		var sp structPayload
		_ = json.Unmarshal(cur.Value, &sp)
		rep := strings.NewReplacer("{val}", string(cur.Value), "{id}", sp.ID, "{tok}", sp.Token, "{prio}", fmt.Sprint(sp.Priority),
			"{ID}", strings.ToUpper(sp.ID), "{TOK}", strings.ToUpper(sp.Token))
		w.extPut(a.Key, []byte(rep.Replace(a.Str)))
	case "ext_del":
		w.extDel(a.Key)
	case "expire":
		w.forceExpire(a.Key)
	case "crash":
		tr.rec("crash", int64(in.idx))
	case "status":
	}
}

func (w *World) snapshotAll() {
	synctest.Wait()
	w.tr.rec("quiet")
	for _, in := range w.insts {
		in.snapshot()
	}
}

func libGoroutines() int {
	buf := make([]byte, 1<<20)
	n := runtime.Stack(buf, true)
	cnt := 0
	for _, g := range strings.Split(string(buf[:n]), "\n\n") {
		if strings.Contains(g, libPrefix) && !strings.Contains(g, "harness/sim") {
			cnt++
		}
	}
	return cnt
}

// Run executes the scenario inside a synctest bubble and returns the trace text.
func Run(t *testing.T, sc *Scenario) (out []byte, counts map[string]int) {
	defer func() {
		if r := recover(); r != nil {
			out = append(out, []byte(fmt.Sprintf("0 harnesspanic 0\n# %v\n", r))...)
		}
	}()
	synctest.Test(t, func(t *testing.T) {
		tr := newTrace()
		w := &World{sc: sc, tr: tr, store: refstore.New()}
		w.store.Now = tr.now
		defer func() {
			out = append([]byte(nil), tr.buf.Bytes()...)
			counts = tr.kinds
		}()
		// instances: "instdef i key H TTL valint grace maxhealth prio takeover monitor hashealth hasdemotecb bucketttl"
		for k, spec := range sc.Instances {
			in := &Inst{w: w, idx: k + 1, spec: spec}
			tr.ids[spec.ID] = int64(k + 1)
			in.kv = &simKV{w: w, in: in, counts: map[string]int{}}
			cfg := leader.ElectionConfig{
				Bucket: "bucket", Group: spec.Group, InstanceID: spec.ID,
				TTL: time.Duration(spec.TTL), HeartbeatInterval: time.Duration(spec.H),
				ValidationInterval: time.Duration(spec.ValInt), DisconnectGracePeriod: time.Duration(spec.Grace),
				MaxConsecutiveFailures: spec.MaxHealth, Priority: spec.Priority, AllowPriorityTakeover: spec.Takeover,
				Logger: &logger{in}, Metrics: &metrics{in},
			}
			if spec.Health != nil {
				cfg.HealthChecker = &health{in}
			}
			var prov leader.JetStreamProvider = &provider{in}
			if spec.Monitor {
				in.nc = &nats.Conn{}
				prov = &providerConn{provider{in}}
			}
			el, err := leader.NewElection(prov, cfg)
			if err != nil {
				tr.rec("newfail", int64(in.idx))
				continue
			}
			in.el = el
			if spec.Promote != "none" {
				el.OnPromote(in.onPromote)
			}
			if !spec.NoDemoteCb {
				el.OnDemote(in.onDemote)
			}
			w.insts = append(w.insts, in)
			tr.mu.Lock()
			tr.recLocked("instdef", int64(in.idx), tr.keyLocked(spec.Group), spec.H, spec.TTL, spec.ValInt, spec.Grace,
				int64(spec.MaxHealth), int64(spec.Priority), b2i(spec.Takeover), b2i(spec.Monitor), b2i(spec.Health != nil),
				b2i(!spec.NoDemoteCb), sc.BucketTTL, b2i(spec.Promote != "none"))
			tr.mu.Unlock()
		}
		w.snapReq = make(chan struct{}, 1)
		for _, in := range w.insts {
			if len(in.spec.Script) == 0 {
				continue
			}
			in := in
			go func() {
				for _, st := range in.spec.Script {
					if st.After > 0 {
						time.Sleep(time.Duration(st.After))
					}
					if w.tr.now() >= sc.Until {
						return
					}
					st.I = in.spec.ID
					w.do(st)
					select {
					case w.snapReq <- struct{}{}:
					default:
					}
				}
			}()
		}
		var acts []Action
		for _, a := range sc.Actions {
			if a.On != "" {
				oi := a.OnI
				if oi == "" {
					oi = a.I
				}
				if in := w.inst(oi); in != nil {
					w.trigMu.Lock()
					w.triggers = append(w.triggers, &trigger{idx: in.idx, on: a.On, nth: a.OnNth, act: a})
					w.trigMu.Unlock()
				}
				continue
			}
			acts = append(acts, a)
		}
		sort.SliceStable(acts, func(i, j int) bool { return acts[i].At < acts[j].At })
		nextGrid := sc.Grid
		ai := 0
		for {
			// next instant of interest
			next := sc.Until
			if ai < len(acts) && acts[ai].At < next {
				next = acts[ai].At
			}
			if sc.Grid > 0 && nextGrid < next {
				next = nextGrid
			}
			if d := next - tr.now(); d > 0 {
				select {
				case <-time.After(time.Duration(d)):
				case <-w.snapReq:
					w.snapshotAll()
					continue
				}
			}
			if next >= sc.Until {
				break
			}
			if sc.Grid > 0 && next == nextGrid {
				nextGrid += sc.Grid
			}
			fired := false
			for ai < len(acts) && acts[ai].At <= next {
				a := acts[ai]
				ai++
				if w.inst(a.I) == nil && a.I != "" {
					continue
				}
				fired = true
				go w.do(a)
			}
			_ = fired
			w.snapshotAll()
		}
		w.snapshotAll()
		// wind down: harness cleanup, marked so that monitors do not take it for scenario behaviour
		// no scenario action is triggered by the harness's own cleanup
		w.trigMu.Lock()
		w.triggers = nil
		w.trigMu.Unlock()
		tr.rec("end")
		for _, in := range w.insts {
			in := in
			go func() { _ = in.el.Stop() }()
		}
		time.Sleep(20 * time.Second)
		w.mu.Lock()
		w.ended = true
		ws := append([]*simWatcher(nil), w.ws...)
		w.mu.Unlock()
		for _, sw := range ws {
			sw.Stop()
		}
		time.Sleep(time.Duration(2*sc.HangNs) + 120*time.Second + time.Duration(sc.BucketTTL))
		synctest.Wait()
		tr.rec("census", int64(libGoroutines()))
	})
	return out, counts
}

// trigger: an action performed when an observation of an instance is made (event-relative stop points etc.)
type trigger struct {
	idx  int
	on   string
	nth  int
	seen int
	done bool
	act  Action
}

// fire is called by the observers (Logger, Metrics, store adapter) right after they recorded an observation
func (w *World) fire(idx int, on string) {
	w.trigMu.Lock()
	var run []Action
	for _, t := range w.triggers {
		if t.done || t.idx != idx || t.on != on {
			continue
		}
		if t.seen == t.nth {
			t.done = true
			run = append(run, t.act)
		}
		t.seen++
	}
	w.trigMu.Unlock()
	for _, a := range run {
		a := a
		if a.SyncNs > 0 {
			// no time may pass here (a goroutine waiting for a mutex does not let the simulated clock advance):
			// yield until the action has completed or cannot get further
			var done atomic.Bool
			go func() { w.do(a); done.Store(true) }()
			for k := 0; k < 400 && !done.Load(); k++ {
				runtime.Gosched()
			}
			continue
		}
		go w.do(a)
	}
}
