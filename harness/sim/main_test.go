package sim

import (
	"bufio"
	"encoding/json"
	"fmt"
	"os"
	"runtime"
	"runtime/pprof"
	"strconv"
	"testing"
	"time"
)

func envInt(name string, def int64) int64 {
	if v := os.Getenv(name); v != "" {
		if n, err := strconv.ParseInt(v, 10, 64); err == nil {
			return n
		}
	}
	return def
}

// TestSim is the entry point of the simulator binary (go test -c). Environment:
//
//	SIM_OUT    trace output file (required)
//	SIM_IN     JSONL file of scenarios to run; otherwise scenarios are generated:
//	SIM_GEN    comma-separated generator families (default: all), SIM_SEED, SIM_N (per family)
//	SIM_SCEN   where to write the scenarios that were run (JSONL, one per line, same order)
//	SIM_SKIP   skip the first k scenarios (resume after a crash/hang)
//	SIM_WALL   wall-clock watchdog per scenario in seconds (default 20)
//
// Output: "BEGIN n name" / trace lines / "END n"; a scenario during which the process
// dies has no END line (the driver marks it crashed/hung and resumes with SIM_SKIP).
func TestSim(t *testing.T) {
	outPath := os.Getenv("SIM_OUT")
	if outPath == "" {
		t.Skip("SIM_OUT not set")
	}
	runtime.GOMAXPROCS(1)
	var scs []*Scenario
	if in := os.Getenv("SIM_IN"); in != "" {
		f, err := os.Open(in)
		if err != nil {
			t.Fatal(err)
		}
		s := bufio.NewScanner(f)
		s.Buffer(make([]byte, 1<<20), 1<<26)
		for s.Scan() {
			if len(s.Bytes()) == 0 {
				continue
			}
			var sc Scenario
			if err := json.Unmarshal(s.Bytes(), &sc); err != nil {
				t.Fatal(err)
			}
			scs = append(scs, &sc)
		}
		f.Close()
	} else {
		scs = Generate(os.Getenv("SIM_GEN"), envInt("SIM_SEED", 1), int(envInt("SIM_N", 10)), t)
	}
	if p := os.Getenv("SIM_SCEN"); p != "" {
		f, err := os.Create(p)
		if err != nil {
			t.Fatal(err)
		}
		w := bufio.NewWriter(f)
		for _, sc := range scs {
			b, _ := json.Marshal(sc)
			w.Write(b)
			w.WriteByte('\n')
		}
		w.Flush()
		f.Close()
	}
	skip := int(envInt("SIM_SKIP", 0))
	flag := os.O_CREATE | os.O_WRONLY | os.O_APPEND
	if skip == 0 {
		flag = os.O_CREATE | os.O_WRONLY | os.O_TRUNC
	}
	f, err := os.OpenFile(outPath, flag, 0o644)
	if err != nil {
		t.Fatal(err)
	}
	defer f.Close()
	wall := time.Duration(envInt("SIM_WALL", 20)) * time.Second
	for n, sc := range scs {
		if n < skip {
			continue
		}
		fmt.Fprintf(f, "BEGIN %d %s\n", n, sc.Name)
		wd := time.AfterFunc(wall, func() {
			fmt.Fprintf(f, "HANG %d\n", n)
			f.Sync()
			pprof.Lookup("goroutine").WriteTo(os.Stderr, 1)
			os.Exit(3)
		})
		out, _ := Run(t, sc)
		wd.Stop()
		f.Write(out)
		fmt.Fprintf(f, "END %d\n", n)
	}
}
