package sim

import (
	"context"
	"fmt"
	"runtime"
	"sync"
	"sync/atomic"
	"time"

	"github.com/ali-assar/NATS-Leader-Election/leader"
	"github.com/nats-io/nats.go"
	"github.com/prometheus/client_golang/prometheus"
	"go.uber.org/zap"
)

// Inst is one election instance of a scenario together with its observers.
type Inst struct {
	w      *World
	idx    int // 1-based; also the interned id of its InstanceID
	spec   InstSpec
	el     leader.Election
	kv     *simKV
	nc     *nats.Conn
	nwatch int64

	mu          sync.Mutex
	startCancel context.CancelFunc
	yieldN      atomic.Int64
	healthN     int
	promotes    int64
	startedCt   int64
}

func (in *Inst) watchPlan(n int) WatchPlan {
	wp := WatchPlan{Delay: in.w.sc.WatchDelay}
	if p, ok := in.w.sc.Watch[in.spec.ID]; ok {
		if p.Delay != [2]int64{} {
			wp.Delay = p.Delay
		}
		wp.Pipe = p.Pipe
		wp.Stall = p.Stall
		if p.Only < 0 || p.Only == n {
			wp.Drop = p.Drop
			wp.CloseAfter = p.CloseAfter
		}
	}
	return wp
}

// provider implements leader.JetStreamProvider (and, when Monitor is set,
// leader.NATSConnectionProvider with a zero-value *nats.Conn that only stores handlers).
type provider struct{ in *Inst }

func (p *provider) JetStream() (leader.JetStreamContext, error) { return p, nil }
func (p *provider) KeyValue(bucket string) (leader.KeyValue, error) {
	return p.in.kv, nil
}

type providerConn struct{ provider }

func (p *providerConn) NATSConnection() *nats.Conn { return p.in.nc }

// ---------------------------------------------------------------- metrics

var stateCode = map[string]int64{"INIT": 0, "CANDIDATE": 1, "LEADER": 2, "FOLLOWER": 3, "DEMOTED": 4, "STOPPED": 5}

func sc(s string) int64 {
	if v, ok := stateCode[s]; ok {
		return v
	}
	return 9
}

type metrics struct{ in *Inst }

func (m *metrics) SetIsLeader(v float64, l prometheus.Labels) {
	b := int64(0)
	if v != 0 {
		b = 1
	}
	in, root := flagSite()
	m.in.w.tr.rec("flag", int64(m.in.idx), b, in, root, gid())
	m.in.w.fire(m.in.idx, fmt.Sprintf("flag:%d", b))
	m.in.yield()
}
func (m *metrics) SetConnectionStatus(v float64, l prometheus.Labels) {
	m.in.w.tr.rec("connstat", int64(m.in.idx), int64(v))
}
func (m *metrics) IncTransitions(l prometheus.Labels) {
	m.in.w.tr.rec("trans", int64(m.in.idx), sc(l["from_state"]), sc(l["to_state"]))
	m.in.w.fire(m.in.idx, fmt.Sprintf("trans:%d", sc(l["to_state"])))
	m.in.yield()
}
func (m *metrics) IncFailures(l prometheus.Labels)        {}
func (m *metrics) IncAcquireAttempts(l prometheus.Labels) {}
func (m *metrics) IncTokenValidationFailures(l prometheus.Labels) {
	m.in.w.tr.rec("tvfail", int64(m.in.idx))
}
func (m *metrics) ObserveHeartbeatDuration(d time.Duration, l prometheus.Labels) {}
func (m *metrics) ObserveLeaderDuration(d time.Duration, l prometheus.Labels) {
	m.in.w.fire(m.in.idx, "ldur") // no observation recorded; a trigger point inside the critical sections that end a term
	m.in.yield()
}

// yield lets every other goroutine that is runnable at this instant run before the library continues
func (in *Inst) yield() {
	if in.w.sc.Yield {
		// how long the call-out stays descheduled varies (derived from the scenario seed): schedules differ between scenarios
		n := in.yieldN.Add(1)
		k := int(uint64(mix(in.w.sc.Seed, int64(in.idx), 91, n, 0)) % 9)
		for ; k > 0; k-- {
			runtime.Gosched()
		}
	}
}

// ---------------------------------------------------------------- logger

// Log messages that mark decision points. "log i msg gid"
var logCodes = map[string]int64{
	"election_started": 1, "attempting_acquire_with_retry": 2, "acquire_failed_max_retries": 3, "acquire_retry": 4,
	"acquire_failed": 5, "acquire_success": 6, "state_transition": 7, "leader_promoted": 8, "priority_takeover_success": 9,
	"leader_demoted": 10, "election_stopped": 11, "shutdown_timeout": 12, "shutdown_cancelled": 13, "key_deletion_failed": 14,
	"key_deleted": 15, "ondemote_callback_timeout": 16, "token_validation_failed": 17, "health_check_failed": 18,
	"health_check_recovered": 19, "heartbeat_failed": 20, "leadership_taken_over": 21, "heartbeat_recovered": 22,
	"demoting_due_to_heartbeat_failure": 23, "demoting_due_to_health_check_failure": 24, "watch_failed": 25,
	"watch_started": 26, "watch_closed": 27, "key_not_found_triggering_reelection": 28, "key_empty_triggering_reelection": 29,
	"leader_changed_periodic_check": 30, "watch_event_key_deleted": 31, "watch_event_key_empty": 32,
	"leadership_lost_via_watcher": 33, "leader_changed": 34, "priority_takeover_opportunity": 35, "priority_takeover_failed": 36,
	"token_validation_recovered": 37, "demoting_due_to_validation_failure": 38, "connection_disconnected": 39,
	"connection_reconnected_before_grace_period": 40, "demoting_due_to_connection_loss": 41, "connection_reconnected": 42,
	"verifying_leadership_after_reconnect": 43, "reconnect_verification_failed": 44, "reconnect_verification_success": 45,
	"demoting_due_to_reconnect_verification_failure": 46, "onpromote_callback_panic": 47,
}

type logger struct{ in *Inst }

func (l *logger) log(msg string, fields []zap.Field) {
	c, ok := logCodes[msg]
	if !ok {
		c = 99
	}
	extra := int64(0)
	if c == 4 { // acquire_retry: backoff duration
		for _, f := range fields {
			if f.Key == "backoff" {
				extra = f.Integer
			}
		}
	}
	if c == 2 {
		for _, f := range fields {
			if f.Key == "initial_jitter" {
				extra = f.Integer
			}
		}
	}
	l.in.w.tr.rec("log", int64(l.in.idx), c, gid(), extra)
	l.in.w.fire(l.in.idx, fmt.Sprintf("log:%d", c))
	l.in.yield()
	// a slow log sink (only for messages the library writes with no lock held: a sleeper under e.mu would keep the
	// simulated clock from advancing)
	if d := l.in.spec.LogDelay[fmt.Sprint(c)]; d > 0 {
		l.in.w.tr.rec("envmark", 15, int64(l.in.idx), d)
		time.Sleep(time.Duration(d))
	}
}
func (l *logger) Debug(msg string, f ...zap.Field) { l.log(msg, f) }
func (l *logger) Info(msg string, f ...zap.Field)  { l.log(msg, f) }
func (l *logger) Warn(msg string, f ...zap.Field)  { l.log(msg, f) }
func (l *logger) Error(msg string, f ...zap.Field) { l.log(msg, f) }
func (l *logger) Fatal(msg string, f ...zap.Field) { l.log(msg, f) }

// ---------------------------------------------------------------- health

type health struct{ in *Inst }

// "health i n result deadline_rel_ns dur"
func (h *health) Check(ctx context.Context) bool {
	in := h.in
	in.mu.Lock()
	n := in.healthN
	in.healthN++
	in.mu.Unlock()
	hp := in.spec.Health
	res := hp.Default
	if n < len(hp.Results) {
		res = hp.Results[n]
	}
	dur := int64(0)
	if n < len(hp.DurNs) {
		dur = hp.DurNs[n]
	}
	dl := int64(-1)
	if d, ok := ctx.Deadline(); ok {
		dl = int64(time.Until(d))
	}
	r := int64(0)
	if res {
		r = 1
	}
	in.w.tr.rec("health", int64(in.idx), int64(n), r, dl, dur)
	if dur > 0 {
		time.Sleep(time.Duration(dur))
	}
	in.w.tr.rec("healthret", int64(in.idx), int64(n))
	return res
}

// ---------------------------------------------------------------- callbacks

// "promote i tok gid", "promoteret i tok", "ctxdone i tok", "demote i gid", "demoteret i"
func (in *Inst) onPromote(ctx context.Context, token string) {
	tr := in.w.tr
	tr.mu.Lock()
	tk := tr.tokLocked(token)
	tr.recLocked("promote", int64(in.idx), tk, gid())
	tr.mu.Unlock()
	// a separate observer of the context handed to the callback; a callback that is itself woken by the end of
	// the context records it before it returns (the context ended while the callback was running)
	obsCtx := ctx
	var once sync.Once
	done := func() { once.Do(func() { tr.rec("ctxdone", int64(in.idx), tk) }) }
	go func() {
		<-obsCtx.Done()
		done()
	}()
	switch in.spec.Promote {
	case "block":
		<-ctx.Done()
		done()
	case "sleep":
		time.Sleep(time.Duration(in.spec.PromoteNs))
	case "sleepctx":
		select {
		case <-ctx.Done():
			done()
		case <-time.After(time.Duration(in.spec.PromoteNs)):
		}
	}
	tr.rec("promoteret", int64(in.idx), tk)
}

func (in *Inst) onDemote() {
	in.w.tr.rec("demote", int64(in.idx), gid())
	if in.spec.DemoteNs > 0 {
		time.Sleep(time.Duration(in.spec.DemoteNs))
	}
	in.w.tr.rec("demoteret", int64(in.idx))
}

// snapshot: "status i state isleader leaderid tok rev ; pub i isleader leaderid tok"
func (in *Inst) snapshot() {
	st := in.el.Status()
	il := int64(0)
	if st.IsLeader {
		il = 1
	}
	pl := int64(0)
	if in.el.IsLeader() {
		pl = 1
	}
	lid, ptok := in.el.LeaderID(), in.el.Token()
	tr := in.w.tr
	tr.mu.Lock()
	tr.recLocked("status", int64(in.idx), sc(st.State), il, tr.idLocked(st.LeaderID), tr.tokLocked(st.Token), int64(st.Revision),
		pl, tr.idLocked(lid), tr.tokLocked(ptok))
	tr.mu.Unlock()
}
