package sim

import (
	"fmt"
	"math/rand"
	"strings"
	"testing"
	"time"
)

const ms = int64(time.Millisecond)
const sec = int64(time.Second)

type rng struct{ *rand.Rand }

func (r rng) between(lo, hi int64) int64 {
	if hi <= lo {
		return lo
	}
	return lo + r.Int63n(hi-lo+1)
}
func (r rng) pick(xs ...int64) int64    { return xs[r.Intn(len(xs))] }
func (r rng) chance(p float64) bool     { return r.Float64() < p }
func (r rng) pick2(xs ...string) string { return xs[r.Intn(len(xs))] }

// curSeed: the seed of the Generate call in progress, for generators that draw a variant from a stream of its own (so that
// adding the variant leaves the scenarios of the main stream as they were)
var curSeed int64

var families = []string{"G1", "G2", "G3", "G4", "G5", "G6", "G7", "G8", "G9"}

// Generate builds n scenarios per requested family, all derived from seed.
func Generate(fams string, seed int64, n int, t *testing.T) []*Scenario {
	want := families
	if fams != "" {
		want = strings.Split(fams, ",")
	}
	var out []*Scenario
	curSeed = seed
	for _, f := range want {
		r := rng{rand.New(rand.NewSource(seed*1000003 + int64(len(f))*7919 + int64(f[len(f)-1])))}
		var g func(rng, int, *testing.T) []*Scenario
		switch f {
		case "G1":
			g = genG1
		case "G2":
			g = genG2
		case "G3":
			g = genG3
		case "G4":
			g = genG4
		case "G5":
			g = genG5
		case "G6":
			g = genG6
		case "G7":
			g = genG7
		case "G8":
			g = genG8
		case "G9":
			g = genG9
		default:
			continue
		}
		for k, sc := range g(r, n, t) {
			sc.Family = f
			sc.Name = fmt.Sprintf("%s-%d-%d", f, seed, k)
			out = append(out, sc)
		}
	}
	return out
}

// timing picks a valid (H, TTL) pair.
func timing(r rng) (int64, int64) {
	// now and then an interval long enough that H/2 exceeds the fixed time-outs of the library (1 s, 2 s)
	h := r.pick(100*ms, 100*ms, 200*ms, 200*ms, 400*ms, 400*ms, 1000*ms, 1000*ms, 2000*ms, 2000*ms, 5000*ms)
	ttl := h * r.pick(3, 3, 4, 6)
	return h, ttl
}

func base(r rng, ninst int, h, ttl int64) *Scenario {
	sc := &Scenario{Seed: r.Int63(), BucketTTL: ttl}
	for i := 0; i < ninst; i++ {
		sc.Instances = append(sc.Instances, InstSpec{ID: fmt.Sprintf("n%d", i+1), Group: "g", H: h, TTL: ttl})
	}
	// total latency of an operation (pre+post) stays strictly below H/2
	q := h/4 - 1
	sc.Latency = [2]int64{0, r.pick(0, q/8, q/2, q)}
	sc.WatchDelay = [2]int64{0, r.pick(0, h/4, h, 2*h)}
	sc.Yield = r.chance(0.5)
	return sc
}

// G1: fault-free churn: starts, stops, restarts, graceful shutdowns, any timing.
func genG1(r rng, n int, t *testing.T) []*Scenario {
	var out []*Scenario
	for k := 0; k < n; k++ {
		h, ttl := timing(r)
		ninst := int(r.between(1, 4))
		sc := base(r, ninst, h, ttl)
		sc.Env = []string{"faultfree"}
		churn := r.chance(0.3) && ninst >= 3
		if churn {
			// hand-over churn: slow (but < H/2) store, leaders shutting down with key deletion again and again
			q := h/4 - 1
			sc.Latency = [2]int64{q / 3, q}
		}
		if r.chance(0.2) && ninst >= 2 {
			sc.Instances[ninst-1].Group = "g2"
		}
		for i := range sc.Instances {
			switch r.Intn(4) {
			case 0:
				sc.Instances[i].Promote = "block"
			case 1:
				sc.Instances[i].Promote = "sleepctx"
				sc.Instances[i].PromoteNs = r.between(0, 3*h)
			case 2:
				if r.chance(0.4) {
					// a callback that ignores its context and outlives Stop's wait
					sc.Instances[i].Promote = "sleep"
					sc.Instances[i].PromoteNs = r.pick(h, 3*sec, 6*sec, 9*sec)
				}
			}
			if r.chance(0.3) {
				sc.Instances[i].DemoteNs = r.between(0, h)
			}
			if r.chance(0.3) {
				sc.Instances[i].ValInt = h * r.pick(1, 2, 3)
			}
		}
		span := h * r.pick(8, 12, 20)
		sc.Until = span + 7*sec
		for i := range sc.Instances {
			at := r.between(0, span/3)
			if i == 0 {
				at = r.between(0, h)
			}
			script := []Action{{After: at, Do: "start"}}
			if churn {
				for at < span {
					d := r.between(h, 4*h)
					at += d
					script = append(script, Action{After: d, Do: "stop_ctx", Delete: true, Wait: r.chance(0.3)})
					d = r.between(1, h)
					at += d
					script = append(script, Action{After: d, Do: "start"})
				}
				sc.Instances[i].Script = script
				continue
			}
			for at < span && r.chance(0.6) {
				d := r.between(h/2, span/2)
				at += d
				if r.chance(0.15) {
					// the application cancels the context it passed to Start, and (usually) calls Stop afterwards
					script = append(script, Action{After: d, Do: "cancel_ctx"})
					if r.chance(0.7) {
						script = append(script, Action{After: r.pick(0, 1, h, 4*h), Do: "stop"})
					}
				} else if r.chance(0.5) {
					script = append(script, Action{After: d, Do: "stop"})
				} else {
					script = append(script, Action{After: d, Do: "stop_ctx", Delete: r.chance(0.6), Wait: r.chance(0.5),
						Timeout: r.pick(0, 0, 10*h)})
				}
				if r.chance(0.2) {
					script = append(script, Action{After: r.between(0, h), Do: r.pick2("stop", "stop_ctx")})
				}
				if r.chance(0.6) {
					d = r.pick(r.between(1, 2*h), r.between(1, 2*h), ttl+r.between(0, 2*h), 2*ttl)
					at += d
					script = append(script, Action{After: d, Do: "start"})
					if r.chance(0.3) {
						// a quick shutdown right after the restart (before watch / periodic check catch up)
						d = r.pick(1*ms, h/4, h/2, 400*ms)
						at += d
						script = append(script, Action{After: d, Do: "stop_ctx", Delete: true, Wait: r.chance(0.5)})
						break
					}
				} else {
					break
				}
			}
			sc.Instances[i].Script = script
		}
		sc.Grid = h / 2
		out = append(out, sc)
	}
	return out
}

// firstLeaderScript: n1 starts at once, the others a little later, nobody stops.
func startAll(sc *Scenario, r rng, h int64) {
	for i := range sc.Instances {
		at := int64(0)
		if i > 0 {
			at = r.between(h/4, 2*h)
		}
		sc.Instances[i].Script = []Action{{After: at, Do: "start"}}
	}
}

// G2: faults on the leader's refreshes: attempt index x fault kind, partitions, and the
// record replaced / deleted / expired underneath.
func genG2(r rng, n int, t *testing.T) []*Scenario {
	var out []*Scenario
	kinds := []string{"err", "timeout", "lostack", "closed", "partition", "extput", "extdel", "expire", "slow"}
	for k := 0; k < n; k++ {
		h := r.pick(100*ms, 400*ms, 1000*ms, 2000*ms, 4000*ms)
		ttl := h * r.pick(3, 4, 6)
		sc := base(r, int(r.between(1, 2)), h, ttl)
		sc.Env = []string{"hbfault"}
		startAll(sc, r, h)
		if r.chance(0.5) {
			sc.Instances[0].ValInt = h * r.pick(1, 2, 3)
		}
		kind := kinds[k%len(kinds)]
		att := int(r.between(0, 5))
		sc.HangNs = r.pick(h/2+1, 1500*ms, 3*h, 10*h)
		switch kind {
		case "err", "closed":
			nth := []int{att}
			for j := 1; j < int(r.between(1, 4)); j++ {
				nth = append(nth, att+j)
			}
			sc.Rules = append(sc.Rules, Rule{Inst: "n1", Kind: "update", Site: "heartbeatLoop", Nth: nth, Pre: -1, Post: -1, Fault: kind})
		case "timeout", "lostack":
			nth := []int{att}
			for j := 1; j < int(r.between(1, 4)); j++ {
				nth = append(nth, att+j)
			}
			sc.Rules = append(sc.Rules, Rule{Inst: "n1", Kind: "update", Site: "heartbeatLoop", Nth: nth, Pre: -1, Post: -1, Fault: kind})
		case "partition":
			from := r.between(h, 6*h)
			to := from + r.pick(h, 3*h, 100*h)
			sc.Rules = append(sc.Rules, Rule{Inst: "n1", FromT: from, ToT: to, Pre: -1, Post: -1, Fault: r.pick2("err", "timeout", "closed")})
		case "extput":
			sc.Actions = append(sc.Actions, Action{At: r.between(h, 6*h), Do: "ext_put", Key: "g",
				Str: r.pick2(`{"id":"intruder","token":"stolen","priority":9}`, `{"id":"n1","token":"forged"}`, `garbage`, ``)})
		case "extdel":
			sc.Actions = append(sc.Actions, Action{At: r.between(h, 6*h), Do: "ext_del", Key: "g"})
		case "expire":
			sc.Actions = append(sc.Actions, Action{At: r.between(h, 6*h), Do: "expire", Key: "g"})
		case "slow":
			// slow but successful refreshes (beyond H/2, possibly beyond the operation time-out)
			sc.Rules = append(sc.Rules, Rule{Inst: "n1", Kind: "update", Site: "heartbeatLoop", Nth: []int{att, att + 1},
				Pre: r.pick(h/2, 900*ms, 1100*ms, h), Post: r.pick(0, h/2, 1100*ms)})
		}
		sc.Until = h*r.pick(12, 20) + 3*sec
		sc.Grid = h / 2
		out = append(out, sc)
	}
	return out
}

var tamperCorpus = []string{
	``, `{}`, `null`, `[]`, `42`, `"str"`, `true`, `{"id":5,"token":"x"}`, `{"id":"n1","token":5}`, `{"id":"n1"}`, `{"token":"t"}`,
	`{"ID":"n1","Token":"t"}`, `{"id":"n1","token":"t","priority":"high"}`, `{"id":"other","token":"tok","priority":5}`,
	`{"id":"n1","tok`, "\xff\xfe{\"id\":\"n1\"}", `{"id":"a","id":"n1","token":"t","token":"u"}`, `{"id":"n1","token":"zzz"}`,
	`{"id":"n2","token":"zzz","priority":-7}`, `{"id":"n1","token":"","priority":0}`, `{"id":"","token":""}`,
	`{"id":"n1","token":"t","priority":9223372036854775807}`, `{"id":"n1","token":"t","priority":1e3}`, `{"id":null,"token":null}`,
	`{"id":["n1"],"token":{"a":1}}`, ` {"id":"n1","token":"t"} `, `{"id":"n1","token":"t"}garbage`, `{"id":"n1","token":"t"}`,
}

// values derived from the live record at the moment of the write: {val} the stored bytes,
// {id} / {tok} / {prio} its decoded fields
var tamperTemplates = []string{
	`{val}garbage`, `{val}}`, `{val} {val}`, "{val}\x00", ` {val}`, `[{val}]`,
	`{"id":"{id}","token":"{tok}"}`, `{"token":"{tok}","id":"{id}","priority":{prio}}`, `{"ID":"{id}","Token":"{tok}"}`,
	`{"id":"someone-else","token":"{tok}"}`, `{"id":"{id}","token":"{tok}x"}`, `{"id":"{ID}","token":"{tok}"}`,
	`{"id":"{id}","token":"{TOK}"}`, `{"id":"{id}","token":"{tok}","priority":"high"}`, `{"id":"{id}","id":"zz","token":"{tok}"}`,
	`{"id":"zz","id":"{id}","token":"{tok}"}`, `{"id":"{id}","token":["{tok}"]}`, `{"id":"{id} ","token":"{tok}"}`,
}

// G3: outside interference: arbitrary bytes written/deleted at any moment, for followers,
// leaders and takeover-enabled candidates.
func genG3(r rng, n int, t *testing.T) []*Scenario {
	var out []*Scenario
	for k := 0; k < n; k++ {
		h, ttl := timing(r)
		if r.chance(0.2) {
			// a left-over acquisition attempt that succeeds under the instance's own running term: the instance follows a
			// foreign record; the record is removed (watch-triggered round, its Create is served late); the periodic check
			// starts a second round that wins; the winner's record is removed as well; the late Create then succeeds
			h, ttl = 2*sec, 6*sec
			sc := base(r, 1, h, ttl)
			sc.Env = []string{"tamper"}
			sc.Latency = [2]int64{ms, 3 * ms}
			sc.Instances[0].Promote = r.pick2("block", "sleepctx")
			sc.Instances[0].PromoteNs = r.between(2*sec, 6*sec)
			sc.Instances[0].Script = []Action{{After: r.between(5*ms, 20*ms), Do: "start"}}
			t1 := r.between(50*ms, 150*ms)
			d := r.between(900*ms, 1500*ms)
			sc.Rules = append(sc.Rules, Rule{Inst: "n1", Kind: "create", Nth: []int{1}, Pre: d, Post: ms})
			sc.Actions = append(sc.Actions,
				Action{At: ms, Do: "ext_put", Key: "g", Str: `{"id":"other","token":"tok-x","priority":0}`},
				Action{At: t1, Do: "ext_del", Key: "g"},
				Action{At: t1 + d - r.between(20*ms, 150*ms), Do: "ext_del", Key: "g"})
			sc.Until = 6 * sec
			sc.Grid = h / 2
			out = append(out, sc)
			continue
		}
		sc := base(r, int(r.between(1, 3)), h, ttl)
		sc.Env = []string{"tamper"}
		startAll(sc, r, h)
		for i := range sc.Instances {
			if r.chance(0.5) {
				sc.Instances[i].Takeover = true
				sc.Instances[i].Priority = int(r.between(1, 3))
			} else if r.chance(0.3) {
				sc.Instances[i].Priority = int(r.between(0, 3))
			}
			if r.chance(0.4) {
				sc.Instances[i].ValInt = h * r.pick(1, 2)
			}
		}
		span := h * r.pick(10, 16)
		sc.Until = span
		nw := int(r.between(1, 4))
		for j := 0; j < nw; j++ {
			at := r.between(0, span-2*h)
			switch r.Intn(6) {
			case 0:
				sc.Actions = append(sc.Actions, Action{At: at, Do: "ext_del", Key: "g"})
			case 1:
				sc.Actions = append(sc.Actions, Action{At: at, Do: "ext_put", Key: "g", Str: strings.Repeat("a", 100000)})
			case 2, 3:
				sc.Actions = append(sc.Actions, Action{At: at, Do: "ext_tpl", Key: "g", Str: tamperTemplates[r.Intn(len(tamperTemplates))]})
			default:
				sc.Actions = append(sc.Actions, Action{At: at, Do: "ext_put", Key: "g", Str: tamperCorpus[r.Intn(len(tamperCorpus))]})
			}
		}
		nv := int(r.between(0, 4))
		for j := 0; j < nv; j++ {
			sc.Actions = append(sc.Actions, Action{At: r.between(0, span), Do: r.pick2("validate", "validate_or_demote"),
				I: sc.Instances[r.Intn(len(sc.Instances))].ID, CtxNs: r.pick(0, 0, 0, -1, h/8, 3*sec)})
		}
		sc.Grid = h / 2
		out = append(out, sc)
	}
	return out
}

// G4: priority takeover: assignments of priorities and flags, start orders, small latencies.
func genG4(r rng, n int, t *testing.T) []*Scenario {
	var out []*Scenario
	for k := 0; k < n; k++ {
		h := r.pick(200*ms, 400*ms, 1000*ms)
		ttl := h * r.pick(3, 5)
		ninst := int(r.between(2, 4))
		sc := base(r, ninst, h, ttl)
		sc.Env = []string{"priority"}
		// latencies up to a tenth of the heartbeat interval (pre+post)
		sc.Latency = [2]int64{0, r.pick(0, h/40, h/20-1)}
		sc.WatchDelay = [2]int64{0, r.pick(0, h/20, h/2)}
		for i := range sc.Instances {
			sc.Instances[i].Priority = int(r.between(1, 3))
			sc.Instances[i].Takeover = r.chance(0.7)
			if r.chance(0.15) {
				sc.Instances[i].Priority = 0
				sc.Instances[i].Takeover = false
			}
		}
		// start order: a random permutation with gaps
		perm := r.Perm(ninst)
		at := int64(0)
		for _, i := range perm {
			sc.Instances[i].Script = []Action{{After: at, Do: "start"}}
			at += r.pick(0, h/3, 2*h, 4*h)
		}
		sc.Until = at + h*r.pick(8, 12)
		if r.chance(0.25) {
			j := r.Intn(ninst)
			sc.Instances[j].Script = append(sc.Instances[j].Script, Action{After: r.between(3*h, 8*h), Do: r.pick2("stop", "stop_ctx"), Delete: r.chance(0.5)})
		}
		sc.Grid = h / 2
		out = append(out, sc)
	}
	return out
}

// G5: connection notifications around the grace boundary, combined with partitions,
// ownership changes and stops.
func genG5(r rng, n int, t *testing.T) []*Scenario {
	var out []*Scenario
	for k := 0; k < n; k++ {
		h := r.pick(200*ms, 1000*ms, 2000*ms)
		ttl := h * r.pick(3, 4)
		sc := base(r, int(r.between(1, 2)), h, ttl)
		sc.Env = []string{"connection"}
		startAll(sc, r, h)
		sc.Instances[0].Monitor = true
		grace := int64(0)
		if r.chance(0.6) {
			grace = h * r.pick(2, 3, 5)
			sc.Instances[0].Grace = grace
		}
		eff := grace
		if eff == 0 {
			eff = 3 * h
			if eff < 5*sec {
				eff = 5 * sec
			}
		}
		at := r.between(h, 3*h)
		nev := int(r.between(1, 5))
		for j := 0; j < nev; j++ {
			ev := r.pick2("disconnect", "disconnect", "reconnect", "reconnect", "closed")
			sc.Actions = append(sc.Actions, Action{At: at, Do: "conn", I: "n1", Ev: ev})
			at += r.pick(1, 50*ms, 100*ms, 150*ms, eff/2, eff-1, eff, eff+1, eff+h)
		}
		if r.chance(0.3) {
			from := r.between(h, at)
			sc.Rules = append(sc.Rules, Rule{Inst: "n1", FromT: from, ToT: from + r.pick(h, eff, 2*eff), Pre: -1, Post: -1, Fault: r.pick2("err", "timeout")})
		}
		if r.chance(0.25) {
			sc.Actions = append(sc.Actions, Action{At: r.between(h, at), Do: "ext_put", Key: "g", Str: `{"id":"intruder","token":"x","priority":1}`})
		}
		if r.chance(0.3) {
			// the reads of the reconnect verification fail (first probe, or only the validation read)
			for _, a := range sc.Actions {
				if a.Do == "conn" && a.Ev == "reconnect" {
					sc.Rules = append(sc.Rules, Rule{Inst: "n1", Kind: "get", Site: r.pick2("validateToken", "verifyLeadershipAfterReconnect", "validateToken"),
						FromT: a.At, ToT: a.At + 400*ms, Pre: -1, Post: -1, Fault: r.pick2("err", "timeout")})
					sc.HangNs = 3 * sec
				}
			}
		}
		if r.chance(0.3) {
			sc.Instances[0].Script = append(sc.Instances[0].Script, Action{After: r.between(h, at+eff), Do: r.pick2("stop", "stop_ctx"), Delete: r.chance(0.5), Wait: r.chance(0.5)})
		} else if r.chance(0.4) {
			// a second cause of demotion lands inside a connection path, between its leadership test and its demotion: the stop
			// (or the fencing check) is made from the call-out that announces the decision
			sc.Yield = true
			sc.Actions = append(sc.Actions, Action{On: r.pick2("log:41", "log:41", "log:46", "log:44"), I: "n1",
				Do: r.pick2("stop", "stop_ctx", "validate_or_demote"), SyncNs: r.pick(0, 1, 1)})
		}
		sc.Until = at + 2*eff + 4*h
		sc.Grid = h / 2
		out = append(out, sc)
	}
	return out
}

// G6: health results x thresholds x several terms (record expiry enables re-election).
func genG6(r rng, n int, t *testing.T) []*Scenario {
	var out []*Scenario
	for k := 0; k < n; k++ {
		h := r.pick(100*ms, 200*ms, 1000*ms)
		ttl := h * 3
		sc := base(r, int(r.between(1, 2)), h, ttl)
		sc.Env = []string{"health"}
		startAll(sc, r, h)
		hp := &HealthPlan{Default: r.chance(0.7)}
		ln := int(r.between(3, 24))
		for j := 0; j < ln; j++ {
			hp.Results = append(hp.Results, r.chance(0.45))
			d := int64(0)
			if r.chance(0.15) {
				d = r.pick(50*ms, 99*ms, 120*ms, h/2)
			}
			hp.DurNs = append(hp.DurNs, d)
		}
		sc.Instances[0].Health = hp
		sc.Instances[0].MaxHealth = int(r.between(0, 4))
		if len(sc.Instances) > 1 && r.chance(0.5) {
			sc.Instances[1].Health = &HealthPlan{Default: true}
		}
		if r.chance(0.3) {
			// a term ended by a stop call after a few unhealthy results, and a restart: the count starts again with the new term
			thr := int64(3)
			if sc.Instances[0].MaxHealth > 0 {
				thr = int64(sc.Instances[0].MaxHealth)
			}
			k0 := int(r.between(2, 5))
			res := make([]bool, 0, ln+8)
			for j := 0; j < k0; j++ {
				res = append(res, true)
			}
			for j := int64(0); j < r.between(1, thr-1) && thr > 1; j++ {
				res = append(res, false)
			}
			stopAt := h*int64(len(res)) + h/2
			for len(res) < ln+8 {
				res = append(res, len(res)%int(thr+1) == int(thr) || r.chance(0.5))
			}
			hp.Results, hp.DurNs = res, nil
			sc.Instances[0].Script = append(sc.Instances[0].Script,
				Action{After: stopAt, Do: r.pick2("stop", "stop_ctx"), Delete: true, Wait: r.chance(0.5)},
				Action{After: r.pick(1, h/2, h, 4*h), Do: "start"})
		}
		sc.Until = h * int64(ln+14)
		sc.Grid = h / 2
		// drawn from a stream of the scenario's own (the main stream stays what it was): the refresh of one or two ticks
		// fails transiently, whatever the health check of that tick said - a healthy result still restarts the count
		if r2 := (rng{rand.New(rand.NewSource(sc.Seed ^ 0x5eed))}); r2.chance(0.3) {
			for j := int64(0); j < r2.between(1, 2); j++ {
				at := r2.between(h, h*int64(ln))
				sc.Rules = append(sc.Rules, Rule{Inst: "n1", Kind: "update", FromT: at, ToT: at + h, Pre: -1, Post: -1, Fault: "err"})
			}
		}
		out = append(out, sc)
	}
	return out
}

// opTimes extracts (issue, apply, ret) instants of the store calls of instance idx from a trace.
func opTimes(trace []byte, idx int) ([][3]int64, [][]int) {
	type rec struct {
		is, ap, rt int64
		cls        string
	}
	m := map[int64]*rec{}
	var order []int64
	for _, line := range strings.Split(string(trace), "\n") {
		f := strings.Fields(line)
		if len(f) < 3 {
			continue
		}
		var tt, a, b int64
		fmt.Sscan(f[0], &tt)
		switch f[1] {
		case "issue":
			fmt.Sscan(f[2], &a)
			fmt.Sscan(f[3], &b)
			if int(a) == idx {
				m[b] = &rec{is: tt, ap: -1, rt: -1, cls: f[4] + "/" + f[5]}
				order = append(order, b)
			}
		case "apply":
			fmt.Sscan(f[2], &b)
			if x, ok := m[b]; ok {
				x.ap = tt
			}
		case "ret":
			fmt.Sscan(f[3], &b)
			if x, ok := m[b]; ok {
				x.rt = tt
			}
		}
	}
	var out [][3]int64
	byCls := map[string][]int{}
	var clsOrder []string
	for k, o := range order {
		out = append(out, [3]int64{m[o].is, m[o].ap, m[o].rt})
		if _, ok := byCls[m[o].cls]; !ok {
			clsOrder = append(clsOrder, m[o].cls)
		}
		byCls[m[o].cls] = append(byCls[m[o].cls], k)
	}
	var classes [][]int
	for _, c := range clsOrder {
		classes = append(classes, byCls[c])
	}
	return out, classes
}

// G7: stop points: for a store call of the stopping instance, stop immediately before it,
// between issue and application, between application and response, immediately after, and
// exactly at its instants; for each stop variant. The base run tells where the calls are.
func genG7(r rng, n int, t *testing.T) []*Scenario {
	var out []*Scenario
	// one in twelve from a stream of their own (genOutlast): the scenarios of the main stream stay what they were
	extra := n / 12
	n -= extra
	for len(out) < n {
		h := r.pick(200*ms, 400*ms, 1000*ms)
		ttl := h * r.pick(3, 4)
		ninst := int(r.between(1, 3))
		if r.chance(0.12) {
			// a stop call that lands inside a demotion (or the other way round): the leader's record is replaced, the owner
			// calls ValidateTokenOrDemote (or the refresh fails), and the stop is made from the call-out that reports the failure
			sc := base(r, ninst, 10*h, 30*h)
			sc.Env = []string{"stoppoint", "tamper"}
			sc.Yield = true
			sc.Latency = [2]int64{ms, 2 * ms}
			startAll(sc, r, h)
			t1 := r.between(3*h, 5*h)
			sc.Actions = append(sc.Actions,
				Action{At: t1, Do: "ext_put", Key: "g", Str: `{"id":"other","token":"tok-x","priority":0}`},
				Action{At: t1 + r.between(ms, 2*h), Do: "validate_or_demote", I: "n1"},
				Action{On: r.pick2("log:17", "log:38", "ldur", "flag:0", "trans:3"), I: "n1", Do: r.pick2("stop", "stop_ctx"), SyncNs: r.pick(0, 0, 1)})
			sc.Until = t1 + 12*h
			sc.Grid = h
			out = append(out, sc)
			continue
		}
		sc := base(r, ninst, h, ttl)
		sc.Env = []string{"stoppoint"}
		q := h/4 - 1
		sc.Latency = [2]int64{q / 4, q}
		startAll(sc, r, h)
		for i := range sc.Instances {
			if r.chance(0.4) {
				sc.Instances[i].Takeover = true
				sc.Instances[i].Priority = int(r.between(1, 3))
				if r.chance(0.3) {
					// the goroutine that reads the record on the takeover path is descheduled between two statements
					sc.Rules = append(sc.Rules, Rule{Inst: sc.Instances[i].ID, Kind: "get", Site: "attemptPriorityTakeover", Pre: -1, Post: -1,
						Stall: r.between(h/2, 3*h)})
				}
			}
			if r.chance(0.3) {
				sc.Instances[i].ValInt = h
			}
			if r.chance(0.3) {
				sc.Instances[i].Promote = "block"
			}
			if r.chance(0.3) {
				sc.Instances[i].DemoteNs = r.between(0, h)
			}
		}
		if r.chance(0.2) {
			// stale news handled slowly: watch entries of one instance are in transit for a while, and the goroutine that
			// handles them is descheduled when it first looks at an entry
			id := sc.Instances[r.Intn(ninst)].ID
			sc.Watch = map[string]WatchPlan{id: {Delay: [2]int64{h / 2, h / 2}, Only: -1, Pipe: true, Stall: r.between(h/2, 2*h)}}
		}
		if r.chance(0.3) {
			sc.Instances[0].Monitor = true
			sc.Actions = append(sc.Actions, Action{At: r.between(h, 3*h), Do: "conn", I: "n1", Ev: "disconnect"},
				Action{At: r.between(3*h, 5*h), Do: "conn", I: "n1", Ev: "reconnect"})
		}
		if r.chance(0.3) {
			sc.Actions = append(sc.Actions, Action{At: r.between(h, 4*h), Do: r.pick2("ext_del", "expire"), Key: "g"})
		}
		sc.Until = h * 8
		sc.Grid = h / 2
		baseTrace, _ := Run(t, sc)
		victim := int(r.between(1, int64(ninst)))
		ops, classes := opTimes(baseTrace, victim)
		if len(ops) == 0 {
			continue
		}
		// derive several stop points from this base
		for d := 0; d < 6 && len(out) < n; d++ {
			// pick a class of calls first (acquisition Create, refresh, reads, ...), then a call of it
			cls := classes[r.Intn(len(classes))]
			op := ops[cls[r.Intn(len(cls))]]
			if op[1] < 0 || op[2] < 0 {
				continue
			}
			var at int64
			switch r.Intn(7) {
			case 0:
				at = op[0] - 1
			case 1:
				at = op[0]
			case 2:
				at = (op[0] + op[1]) / 2
			case 3:
				at = op[1]
			case 4:
				at = (op[1] + op[2]) / 2
			case 5:
				at = op[2]
			default:
				at = op[2] + 1
			}
			if at < 1 {
				at = 1
			}
			c := *sc
			c.Instances = append([]InstSpec(nil), sc.Instances...)
			c.Actions = append([]Action(nil), sc.Actions...)
			id := c.Instances[victim-1].ID
			stop := Action{At: at, Do: "stop", I: id}
			if r.chance(0.65) {
				stop = Action{At: at, Do: "stop_ctx", I: id, Delete: r.chance(0.6), Wait: r.chance(0.5), Timeout: r.pick(0, 0, h/2, 10*h), CtxNs: r.pick(0, 0, h/4, 20*h)}
			}
			if r.chance(0.3) {
				// a stop point relative to an observation of the victim instead of a time: the call is made from inside the
				// library's call-out (state transition, leadership gauge, log line of a decision), and the call-out
				// does not return before the call has got as far as it can
				stop.At = 0
				stop.On = r.pick2("flag:1", "trans:2", "log:6", "log:7", "log:8", "flag:0", "trans:3", "log:10", "log:2", "log:20", "log:23", "log:17", "log:38", "ldur")
				stop.OnNth = r.Intn(2)
				if r.chance(0.7) {
					stop.SyncNs = 1
				}
				if r.chance(0.2) {
					stop.Do, stop.CtxNs = "validate_or_demote", 0
				}
			}
			if r.chance(0.3) {
				stop.Then = &Action{After: r.pick(0, 1, h/2, 6*sec), Do: r.pick2("stop", "stop_ctx", "start")}
			}
			c.Actions = append(c.Actions, stop)
			c.Until = sc.Until + 6*sec
			out = append(out, &c)
		}
	}
	return append(out, genOutlast(rng{rand.New(rand.NewSource(curSeed*1000003 + 424243))}, extra)...)
}

// genOutlast (part of G7, drawn from a stream of its own): a call that outlasts the stop's patience.
func genOutlast(r rng, n int) []*Scenario {
	var out []*Scenario
	for len(out) < n {
		h := r.pick(200*ms, 400*ms, 1000*ms)
		ttl := h * r.pick(3, 4)
		var ninst int
		// a call that outlasts the stop's patience: one kind of store call of one instance is in transit for longer than
		// Stop waits for the background goroutines (5 s), and the stop is made while such a call is in flight; the answer
		// arrives after the stop call has returned, and whatever the goroutine does next is done by a stopped election
		ninst = int(r.between(2, 3))
		sc := base(r, ninst, h, ttl)
		sc.Env = []string{"stoppoint"}
		sc.Latency = [2]int64{ms, 3 * ms}
		startAll(sc, r, h)
		victim := sc.Instances[r.Intn(ninst)].ID
		kind := r.pick2("get", "get", "create", "update")
		if r.chance(0.6) {
			// the victim may take the record over: it outranks the others
			for i := range sc.Instances {
				sc.Instances[i].Priority = 1
				if sc.Instances[i].ID == victim {
					sc.Instances[i].Priority, sc.Instances[i].Takeover = 5, true
				}
			}
		}
		if r.chance(0.3) {
			sc.Actions = append(sc.Actions, Action{At: r.between(2*h, 4*h), Do: r.pick2("ext_del", "expire"), Key: "g"})
		}
		sc.Rules = append(sc.Rules, Rule{Inst: victim, Kind: kind, FromT: r.between(0, 3*h), Pre: r.between(5*sec+h, 8*sec), Post: ms})
		stop := Action{On: fmt.Sprintf("issue:%d", map[string]int{"create": kCreate, "update": kUpdate, "get": kGet}[kind]), OnI: victim,
			OnNth: int(r.between(0, 2)), I: victim, Do: "stop"}
		if r.chance(0.4) {
			stop.Do, stop.Delete, stop.Wait, stop.Timeout = "stop_ctx", r.chance(0.5), r.chance(0.5), r.pick(0, 0, h/2, 2*sec)
		}
		if r.chance(0.2) {
			stop.Then = &Action{After: r.pick(0, 1, h/2), Do: "start"}
		}
		sc.Actions = append(sc.Actions, stop)
		sc.Until = 8*h + 16*sec
		sc.Grid = h
		out = append(out, sc)
	}
	return out
}

// G8: vacancy: the leader shuts down with deletion, is cut off until its record expires, or
// the record is removed; candidates with lost / delayed / closed / failing watches and
// transient store failures.
func genG8(r rng, n int, t *testing.T) []*Scenario {
	var out []*Scenario
	for k := 0; k < n; k++ {
		h := r.pick(100*ms, 200*ms, 1000*ms)
		ttl := h * r.pick(3, 4)
		ninst := int(r.between(2, 4))
		if r.chance(0.15) {
			// stale news: every notification reaches the candidates a constant few seconds late, in order; the leader crashes
			// (its record expires without any notification) while notifications of its earlier refreshes keep trickling in,
			// less than a periodic-check interval apart
			h = r.pick(100*ms, 200*ms)
			ttl = h * 3
			sc := base(r, ninst, h, ttl)
			sc.Env = []string{"vacancy"}
			sc.Latency = [2]int64{0, h / 20}
			startAll(sc, r, h)
			d := r.between(2*sec, 4*sec)
			tv := d + r.between(0, sec)
			sc.Rules = append(sc.Rules, Rule{Inst: "n1", FromT: tv, ToT: 1 << 60, Pre: -1, Post: -1, Fault: "err"})
			sc.Actions = append(sc.Actions, Action{At: tv, Do: "crash", I: "n1"})
			sc.Watch = map[string]WatchPlan{}
			for i := 1; i < ninst; i++ {
				sc.Watch[sc.Instances[i].ID] = WatchPlan{Only: -1, Delay: [2]int64{d, d}, Pipe: true}
			}
			sc.WatchDelay = [2]int64{d, d}
			sc.Until = tv + ttl + d + 3*sec
			sc.Grid = h
			out = append(out, sc)
			continue
		}
		sc := base(r, ninst, h, ttl)
		sc.Env = []string{"vacancy"}
		sc.Latency = [2]int64{0, r.pick(0, h/20, h/8)}
		startAll(sc, r, h)
		tv := r.between(3*h, 6*h)
		switch r.Intn(4) {
		case 0:
			sc.Instances[0].Script = append(sc.Instances[0].Script, Action{After: tv, Do: "stop_ctx", Delete: true})
		case 1:
			// the leader is cut off for good: its record expires
			sc.Rules = append(sc.Rules, Rule{Inst: "n1", FromT: tv, ToT: 1 << 60, Pre: -1, Post: -1, Fault: r.pick2("timeout", "err")})
			sc.Actions = append(sc.Actions, Action{At: tv, Do: "crash", I: "n1"})
		case 2:
			sc.Actions = append(sc.Actions, Action{At: tv, Do: "ext_del", Key: "g"})
		case 3:
			sc.Instances[0].Script = append(sc.Instances[0].Script, Action{After: tv, Do: "stop"})
		}
		sc.Watch = map[string]WatchPlan{}
		for i := 1; i < ninst; i++ {
			id := sc.Instances[i].ID
			wp := WatchPlan{Only: -1}
			switch r.Intn(5) {
			case 0:
				wp.Drop = []int{-1}
			case 1:
				for j := 0; j < 30; j++ {
					if r.chance(0.5) {
						wp.Drop = append(wp.Drop, j)
					}
				}
			case 2:
				wp.CloseAfter = int(r.between(1, 6))
				wp.Only = 0
			case 3:
				sc.Rules = append(sc.Rules, Rule{Inst: id, Kind: "watch", Nth: []int{0}, Pre: -1, Post: -1, Fault: "err"})
			}
			wp.Delay = [2]int64{0, r.pick(0, h, 3*h)}
			sc.Watch[id] = wp
			if r.chance(0.2) {
				// acquisition requests lost during a short outage right after the vacancy (they hang for a long
				// time); reads are answered; the outage then ceases
				sc.Rules = append(sc.Rules, Rule{Inst: id, Kind: "create", FromT: tv - r.between(0, h), ToT: tv + r.between(h/2, 3*h), Pre: -1, Post: -1, Fault: "timeout", Hang: 30 * sec})
			} else if r.chance(0.25) {
				// an outage around the vacancy that then ceases (calls issued during it hang for a long time)
				from := tv - r.between(0, h)
				sc.Rules = append(sc.Rules, Rule{Inst: id, FromT: from, ToT: tv + r.between(1, 3*h), Pre: -1, Post: -1, Fault: r.pick2("timeout", "err", "timeout"), Hang: r.pick(h, 30*sec)})
			} else if r.chance(0.3) {
				// transient failures of the candidate's reads/creates that cease before the vacancy
				from := r.between(0, tv-h)
				sc.Rules = append(sc.Rules, Rule{Inst: id, FromT: from, ToT: from + r.between(1, tv-h-from+1), Pre: -1, Post: -1, Fault: r.pick2("err", "timeout")})
				sc.HangNs = h
			}
		}
		sc.Until = tv + ttl + 8*h + 3*sec
		sc.Grid = h / 2
		out = append(out, sc)
	}
	return out
}

// G9: races between a validation call / a blocking health check and the loss of the record:
// the record is removed, replaced or expires at t; ValidateTokenOrDemote is called around t with a
// slow read; the health check of the tick around t blocks for a while; re-election may happen
// before the slow call returns.
func genG9(r rng, n int, t *testing.T) []*Scenario {
	var out []*Scenario
	for k := 0; k < n; k++ {
		h := r.pick(200*ms, 400*ms, 1000*ms)
		ttl := h * r.pick(3, 4)
		sc := base(r, int(r.between(1, 2)), h, ttl)
		sc.Env = []string{"valrace"}
		sc.Latency = [2]int64{0, r.pick(0, h/40, h/10)}
		sc.WatchDelay = [2]int64{0, r.pick(0, h/10)}
		startAll(sc, r, h)
		if r.chance(0.5) {
			sc.Instances[0].ValInt = h * r.pick(1, 2)
		}
		span := h * 14
		sc.Until = span + ttl + 3*sec
		nrace := int(r.between(1, 3))
		for j := 0; j < nrace; j++ {
			tl := r.between(2*h, span)
			// the loss
			switch r.Intn(4) {
			case 0:
				sc.Actions = append(sc.Actions, Action{At: tl, Do: "ext_del", Key: "g"})
			case 1:
				sc.Actions = append(sc.Actions, Action{At: tl, Do: "expire", Key: "g"})
			case 2:
				sc.Actions = append(sc.Actions, Action{At: tl, Do: "ext_tpl", Key: "g", Str: r.pick2(`{"id":"{id}","token":"{tok}x"}`, `{"id":"intruder","token":"{tok}"}`, `junk`)})
			case 3:
				sc.Actions = append(sc.Actions, Action{At: tl, Do: "ext_del", Key: "g"}, Action{At: tl + r.between(1, h), Do: "ext_del", Key: "g"})
			}
			// the validation call, before or after the loss, with a slow read
			tv := tl + r.pick(-h, -h/4, -1, 0, 1, h/20, h/4)
			if tv < 1 {
				tv = 1
			}
			slow := r.pick(0, h/8, h/2, h, 2*h)
			if slow > 0 {
				sc.Rules = append(sc.Rules, Rule{Inst: "n1", Kind: "get", Site: "validateToken", FromT: tv, ToT: tv + 1, Pre: slow, Post: r.pick(0, slow)})
			}
			sc.Actions = append(sc.Actions, Action{At: tv, Do: r.pick2("validate_or_demote", "validate_or_demote", "validate"), I: "n1", CtxNs: r.pick(0, 0, 4*h)})
		}
		if r.chance(0.5) {
			// a health checker whose checks sometimes block (ignoring their context) across the loss
			hp := &HealthPlan{Default: true}
			healthy := r.pick2("0.9", "0.6", "0.5")
			for j := 0; j < 40; j++ {
				hp.Results = append(hp.Results, r.chance(map[string]float64{"0.9": 0.9, "0.6": 0.6, "0.5": 0.5}[healthy]))
				d := int64(0)
				if r.chance(0.35) {
					d = r.pick(h/4, h/2, h, 2*h)
				}
				hp.DurNs = append(hp.DurNs, d)
			}
			sc.Instances[0].Health = hp
			sc.Instances[0].MaxHealth = int(r.between(1, 4))
		}
		sc.Grid = h / 2
		out = append(out, sc)
	}
	return out
}
