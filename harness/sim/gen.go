package sim

import (
	"fmt"
	"math/rand"
	"strings"
	"testing"
	"time"
)

const ms = int64(time.Millisecond)

type rng struct{ *rand.Rand }

func (r rng) between(lo, hi int64) int64 {
	if hi <= lo {
		return lo
	}
	return lo + r.Int63n(hi-lo+1)
}
func (r rng) pick(xs ...int64) int64 { return xs[r.Intn(len(xs))] }
func (r rng) chance(p float64) bool  { return r.Float64() < p }

var families = []string{"G1", "G2", "G3", "G4", "G5", "G6", "G7", "G8"}

// Generate builds n scenarios per requested family, all derived from seed.
func Generate(fams string, seed int64, n int, t *testing.T) []*Scenario {
	want := families
	if fams != "" {
		want = strings.Split(fams, ",")
	}
	var out []*Scenario
	for _, f := range want {
		r := rng{rand.New(rand.NewSource(seed*1000003 + int64(len(f))*7919 + int64(f[len(f)-1])))}
		var g func(rng, int, *testing.T) []*Scenario
		switch f {
		case "G1":
			g = genG1
		case "G2":
			g = genG2
		case "G3":
			g = genG3
		case "G4":
			g = genG4
		case "G5":
			g = genG5
		case "G6":
			g = genG6
		case "G7":
			g = genG7
		case "G8":
			g = genG8
		default:
			continue
		}
		for k, sc := range g(r, n, t) {
			sc.Family = f
			sc.Name = fmt.Sprintf("%s-%d-%d", f, seed, k)
			out = append(out, sc)
		}
	}
	return out
}

// timing picks a valid (H, TTL) pair.
func timing(r rng) (int64, int64) {
	h := r.pick(100*ms, 200*ms, 400*ms, 1000*ms, 2000*ms)
	ttl := h * r.pick(3, 3, 4, 6)
	return h, ttl
}

func base(r rng, ninst int, h, ttl int64) *Scenario {
	sc := &Scenario{Seed: r.Int63(), BucketTTL: ttl}
	for i := 0; i < ninst; i++ {
		sc.Instances = append(sc.Instances, InstSpec{ID: fmt.Sprintf("n%d", i+1), Group: "g", H: h, TTL: ttl})
	}
	// total latency of an operation (pre+post) stays strictly below H/2
	q := h/4 - 1
	sc.Latency = [2]int64{0, r.pick(0, q/8, q/2, q)}
	sc.WatchDelay = [2]int64{0, r.pick(0, h/4, h, 2*h)}
	return sc
}

// G1: fault-free churn: starts, stops, restarts, graceful shutdowns, any timing.
func genG1(r rng, n int, t *testing.T) []*Scenario {
	var out []*Scenario
	for k := 0; k < n; k++ {
		h, ttl := timing(r)
		ninst := int(r.between(1, 4))
		sc := base(r, ninst, h, ttl)
		sc.Env = []string{"faultfree"}
		if r.chance(0.2) && ninst >= 2 {
			sc.Instances[ninst-1].Group = "g2"
		}
		for i := range sc.Instances {
			switch r.Intn(4) {
			case 0:
				sc.Instances[i].Promote = "block"
			case 1:
				sc.Instances[i].Promote = "sleepctx"
				sc.Instances[i].PromoteNs = r.between(0, 3*h)
			}
			if r.chance(0.3) {
				sc.Instances[i].DemoteNs = r.between(0, h)
			}
			if r.chance(0.3) {
				sc.Instances[i].ValInt = h * r.pick(1, 2, 3)
			}
		}
		span := h * r.pick(8, 12, 20)
		sc.Until = span
		for i, in := range sc.Instances {
			at := r.between(0, span/3)
			if i == 0 {
				at = r.between(0, h)
			}
			sc.Actions = append(sc.Actions, Action{At: at, Do: "start", I: in.ID})
			for at < span && r.chance(0.6) {
				at += r.between(h/2, span/2)
				if at >= span {
					break
				}
				if r.chance(0.5) {
					sc.Actions = append(sc.Actions, Action{At: at, Do: "stop", I: in.ID})
				} else {
					sc.Actions = append(sc.Actions, Action{At: at, Do: "stop_ctx", I: in.ID, Delete: r.chance(0.6), Wait: r.chance(0.5),
						Timeout: r.pick(0, 0, 10*h)})
				}
				if r.chance(0.6) {
					at += r.between(1, 2*h)
					if at < span {
						sc.Actions = append(sc.Actions, Action{At: at, Do: "start", I: in.ID})
					}
				} else {
					break
				}
			}
		}
		if r.chance(0.5) {
			sc.Grid = h / 2
		}
		out = append(out, sc)
	}
	return out
}

func genG2(r rng, n int, t *testing.T) []*Scenario { return nil }
func genG3(r rng, n int, t *testing.T) []*Scenario { return nil }
func genG4(r rng, n int, t *testing.T) []*Scenario { return nil }
func genG5(r rng, n int, t *testing.T) []*Scenario { return nil }
func genG6(r rng, n int, t *testing.T) []*Scenario { return nil }
func genG7(r rng, n int, t *testing.T) []*Scenario { return nil }
func genG8(r rng, n int, t *testing.T) []*Scenario { return nil }
