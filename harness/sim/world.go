// Package sim runs the real election library under virtual time (testing/synctest)
// against a scripted reference store and records the complete observable history as
// an all-integer trace (see TRACE.md). It is the implementation side of the
// correspondence check: the Coq protocol automata and monitors (coq/Sim/*.v,
// extracted to the OCaml oracle) replay these traces.
package sim

import (
	"bytes"
	"encoding/json"
	"fmt"
	"runtime"
	"strconv"
	"strings"
	"sync"
	"time"

	"verif/harness/refstore"

	"github.com/ali-assar/NATS-Leader-Election/leader"
	"github.com/nats-io/nats.go"
)

// ---------------------------------------------------------------- trace

// Trace collects events in the order they are appended under one mutex, which makes the
// order consistent with happens-before.
type Trace struct {
	mu    sync.Mutex
	t0    time.Time
	buf   bytes.Buffer
	n     int
	toks  map[string]int64
	vals  map[string]int64
	keys  map[string]int64
	ids   map[string]int64
	kinds map[string]int
}

func newTrace() *Trace {
	return &Trace{t0: time.Now(), toks: map[string]int64{"": 0}, vals: map[string]int64{}, keys: map[string]int64{},
		ids: map[string]int64{"": 0}, kinds: map[string]int{}}
}

func (tr *Trace) now() int64 { return int64(time.Since(tr.t0)) }

// rec appends one event line: "<t> <kind> <ints...>".
func (tr *Trace) rec(kind string, a ...int64) {
	tr.mu.Lock()
	tr.recLocked(kind, a...)
	tr.mu.Unlock()
}

func (tr *Trace) recLocked(kind string, a ...int64) {
	tr.buf.WriteString(strconv.FormatInt(tr.now(), 10))
	tr.buf.WriteByte(' ')
	tr.buf.WriteString(kind)
	for _, x := range a {
		tr.buf.WriteByte(' ')
		tr.buf.WriteString(strconv.FormatInt(x, 10))
	}
	tr.buf.WriteByte('\n')
	tr.n++
	tr.kinds[kind]++
}

// tok interns a fencing token (0 = empty string).
func (tr *Trace) tokLocked(s string) int64 {
	if v, ok := tr.toks[s]; ok {
		return v
	}
	v := int64(len(tr.toks))
	tr.toks[s] = v
	return v
}

// id interns an instance-id string (0 = empty). Instances are registered first so that
// instance k has id k.
func (tr *Trace) idLocked(s string) int64 {
	if v, ok := tr.ids[s]; ok {
		return v
	}
	v := int64(len(tr.ids))
	if v < 1000 {
		v += 1000 // ids that do not belong to an instance of the scenario
	}
	tr.ids[s] = v
	return v
}

func (tr *Trace) keyLocked(s string) int64 {
	if v, ok := tr.keys[s]; ok {
		return v
	}
	v := int64(len(tr.keys) + 1)
	tr.keys[s] = v
	return v
}

type structPayload struct {
	ID       string `json:"id"`
	Token    string `json:"token"`
	Priority int    `json:"priority,omitempty"`
}

// val interns a record value and, on first sight, emits its definition:
//
//	valdef v len sdec_ok sid stok sprio mdec_ok hasid mid hastok mtok
//
// sdec = json.Unmarshal into the library's payload struct shape, mdec = into
// map[string]interface{} with the "id"/"token" entries type-asserted to string: the two
// decoders the library uses. Decoding is done here with encoding/json itself, so the model
// never has to contain a JSON parser.
func (tr *Trace) valLocked(b []byte) int64 {
	if v, ok := tr.vals[string(b)]; ok {
		return v
	}
	v := int64(len(tr.vals) + 1)
	tr.vals[string(b)] = v
	var sp structPayload
	sok := int64(0)
	var sid, stok, sprio int64
	if err := json.Unmarshal(b, &sp); err == nil {
		sok = 1
		sid, stok, sprio = tr.idLocked(sp.ID), tr.tokLocked(sp.Token), int64(sp.Priority)
	}
	mok := int64(0)
	var hasid, mid, hastok, mtok int64
	m := make(map[string]interface{})
	if err := json.Unmarshal(b, &m); err == nil {
		mok = 1
		// hasid: 0 absent, 1 present and a string, 2 present but not a string
		if x, ok := m["id"]; ok {
			if s, ok := x.(string); ok {
				hasid, mid = 1, tr.idLocked(s)
			} else {
				hasid = 2
			}
		}
		if x, ok := m["token"]; ok {
			if s, ok := x.(string); ok {
				hastok, mtok = 1, tr.tokLocked(s)
			} else {
				hastok = 2
			}
		}
	}
	tr.recLocked("valdef", v, int64(len(b)), sok, sid, stok, sprio, mok, hasid, mid, hastok, mtok)
	return v
}

// ---------------------------------------------------------------- world

const (
	kCreate = 1
	kUpdate = 2
	kGet    = 3
	kDelete = 4
	kWatch  = 5
)

var kindNames = map[int]string{kCreate: "create", kUpdate: "update", kGet: "get", kDelete: "delete", kWatch: "watch"}

// return kinds (what the caller got)
const (
	rOK           = 0
	rKeyExists    = 1
	rWrongLastSeq = 2
	rNotFound     = 3
	rTimeout      = 10
	rConnClosed   = 11
	rNoResponders = 12
	rInjected     = 13
)

// World is one bucket shared by the instances of a scenario.
type World struct {
	sc       *Scenario
	trigMu   sync.Mutex
	triggers []*trigger
	tr       *Trace
	mu       sync.Mutex // guards store, watchers, counters
	store    *refstore.Store
	ops      int64
	insts    []*Inst
	ws       []*simWatcher
	ended    bool
	snapReq  chan struct{}
}

type entry struct {
	key    string
	val    []byte
	rev    uint64
	stall  func() // inside Revision(): answers to reads (Rule.Stall)
	stallV func() // inside Value(): delivered watch entries (WatchPlan.Stall)
}

func (e *entry) Key() string { return e.key }

// Value: the goroutine that handles a delivered watch entry can be descheduled when it first looks at the entry
// (WatchPlan.Stall: for that long, or until its own instance's claim changes, whichever comes first).
func (e *entry) Value() []byte {
	if e.stallV != nil {
		f := e.stallV
		e.stallV = nil
		f()
	}
	return e.val
}

// Revision: a reader of an answer can be descheduled between looking at the value and looking at the revision
// (Rule.Stall: for that long, or until its own instance raises the claim, whichever comes first).
func (e *entry) Revision() uint64 {
	if e.stall != nil {
		f := e.stall
		e.stall = nil
		f()
	}
	return e.rev
}

// sites: the innermost and the outermost library function on the calling goroutine's stack.
var siteNames = []string{"?", "attemptAcquire", "attemptPriorityTakeover", "heartbeatLoop", "validateToken",
	"checkKeyAndReelect", "verifyLeadershipAfterReconnect", "StopWithContext", "watchLoop", "Start",
	"attemptAcquireWithRetry", "handleWatchEvent", "validationLoop", "ValidateToken", "ValidateTokenOrDemote",
	"Stop", "becomeLeader", "becomeFollower", "handleReconnect", "handleGracePeriodExpired", "handleDisconnect",
	"handleHeartbeatFailure", "handleHealthCheckFailure", "handleValidationFailure", "handleReconnectVerificationFailed",
	"recordHeldByOther"}

func siteCode(fn string) int64 {
	for i, n := range siteNames {
		if n == fn {
			return int64(i)
		}
	}
	return 0
}

const libPrefix = "github.com/ali-assar/NATS-Leader-Election/leader."

// libFrames lists the library functions on the calling goroutine's stack, innermost first.
func libFrames() []string {
	pcs := make([]uintptr, 48)
	n := runtime.Callers(3, pcs)
	frames := runtime.CallersFrames(pcs[:n])
	var out []string
	for {
		f, more := frames.Next()
		if strings.HasPrefix(f.Function, libPrefix) {
			name := strings.TrimPrefix(f.Function, libPrefix)
			// "(*kvElection).heartbeatLoop.func1" -> "heartbeatLoop"
			if i := strings.Index(name, ")."); i >= 0 {
				name = name[i+2:]
			}
			if i := strings.Index(name, "."); i >= 0 {
				name = name[:i]
			}
			out = append(out, name)
		}
		if !more {
			break
		}
	}
	return out
}

// callSite returns (inner, root): codes of the innermost and outermost library frames.
func callSite() (int64, int64) {
	fr := libFrames()
	if len(fr) == 0 {
		return 0, 0
	}
	return firstKnown(fr), lastKnown(fr)
}

// firstKnown / lastKnown: the innermost / outermost library frame that is one of the named sites. A frame that is not (a
// helper extracted by a refactoring, a closure turned into a method) is looked through: the call still belongs to the named
// function around it.
func firstKnown(fr []string) int64 {
	for _, f := range fr {
		if c := siteCode(f); c != 0 {
			return c
		}
	}
	return 0
}

func lastKnown(fr []string) int64 {
	for i := len(fr) - 1; i >= 0; i-- {
		if c := siteCode(fr[i]); c != 0 {
			return c
		}
	}
	return 0
}

// flagSite returns (cause, root) for a change of the leadership claim: the function that
// called becomeLeader/becomeFollower (or Stop/StopWithContext themselves).
func flagSite() (int64, int64) {
	fr := libFrames()
	if len(fr) == 0 {
		return 0, 0
	}
	cause := ""
	for i, f := range fr {
		if f == "becomeLeader" || f == "becomeFollower" {
			// the nearest named function around the call (helpers in between are looked through)
			for _, g := range fr[i+1:] {
				if siteCode(g) != 0 {
					cause = g
					break
				}
			}
			break
		}
		if f == "Stop" || f == "StopWithContext" {
			cause = f
			break
		}
	}
	return siteCode(cause), lastKnown(fr)
}

func gid() int64 {
	var b [64]byte
	n := runtime.Stack(b[:], false)
	s := string(b[:n]) // "goroutine 123 [running]:..."
	s = strings.TrimPrefix(s, "goroutine ")
	if i := strings.IndexByte(s, ' '); i > 0 {
		if v, err := strconv.ParseInt(s[:i], 10, 64); err == nil {
			return v
		}
	}
	return 0
}

// ---------------------------------------------------------------- scripted KeyValue

type simKV struct {
	w      *World
	in     *Inst
	counts map[string]int // per (kind) and per (kind,site) call ordinals
}

type plan struct {
	pre, post int64
	fault     string
	hang      int64
	stall     int64
}

func mix(a ...int64) uint64 {
	h := uint64(1469598103934665603)
	for _, x := range a {
		for i := 0; i < 8; i++ {
			h ^= uint64(byte(x >> (8 * i)))
			h *= 1099511628211
		}
	}
	h ^= h >> 29
	h *= 0xbf58476d1ce4e5b9
	h ^= h >> 32
	return h
}

func between(lo, hi int64, h uint64) int64 {
	if hi <= lo {
		return lo
	}
	return lo + int64(h%uint64(hi-lo+1))
}

func (kv *simKV) planFor(kind int, site int64) plan {
	w := kv.w
	sc := w.sc
	kn := kindNames[kind]
	sn := siteNames[site]
	kv.w.mu.Lock()
	nk := kv.counts[kn]
	kv.counts[kn]++
	ns := kv.counts[kn+"@"+sn]
	kv.counts[kn+"@"+sn]++
	nall := kv.counts["*"]
	kv.counts["*"]++
	kv.w.mu.Unlock()
	h := mix(sc.Seed, int64(kv.in.idx), int64(kind), site, int64(ns))
	p := plan{pre: between(sc.Latency[0], sc.Latency[1], h), post: between(sc.Latency[0], sc.Latency[1], h>>17), hang: sc.HangNs}
	if p.hang == 0 {
		p.hang = int64(30 * time.Second)
	}
	now := w.tr.now()
	for _, r := range sc.Rules {
		if r.Inst != "" && r.Inst != kv.in.spec.ID {
			continue
		}
		if r.Kind != "" && r.Kind != "*" && r.Kind != kn {
			continue
		}
		if r.Site != "" && r.Site != sn {
			continue
		}
		if r.ToT > 0 && !(now >= r.FromT && now < r.ToT) {
			continue
		}
		if r.Nth != nil {
			n := nk
			if r.Site != "" {
				n = ns
			}
			if r.Kind == "" || r.Kind == "*" {
				n = nall
			}
			hit := false
			for _, x := range r.Nth {
				if x == n {
					hit = true
				}
			}
			if !hit {
				continue
			}
		}
		if r.Pre >= 0 {
			p.pre = r.Pre
		}
		if r.Post >= 0 {
			p.post = r.Post
		}
		if r.Fault != "" {
			p.fault = r.Fault
		}
		if r.Hang > 0 {
			p.hang = r.Hang
		}
		if r.Stall > 0 {
			p.stall = r.Stall
		}
	}
	return p
}

func faultErr(f string) (error, int64) {
	switch f {
	case "timeout", "lostack":
		return nats.ErrTimeout, rTimeout
	case "closed":
		return nats.ErrConnectionClosed, rConnClosed
	case "err", "noresponders":
		return nats.ErrNoResponders, rNoResponders
	}
	return fmt.Errorf("injected store failure"), rInjected
}

func retKind(k refstore.Kind) int64 {
	switch k {
	case refstore.OK:
		return rOK
	case refstore.KeyExists:
		return rKeyExists
	case refstore.WrongLastSeq:
		return rWrongLastSeq
	case refstore.NotFound:
		return rNotFound
	}
	return rInjected
}

// call runs one store operation with the scripted latency/fault plan.
//
//	issue  i op kind inner root gid key val exp
//	apply  op okind rev val          (val: the value a Get read, else 0)
//	ret    i op rkind rev val
func (kv *simKV) call(kind int, key string, val []byte, exp uint64) (refstore.Outcome, error) {
	out, _, err := kv.callP(kind, key, val, exp)
	return out, err
}

func (kv *simKV) callP(kind int, key string, val []byte, exp uint64) (refstore.Outcome, plan, error) {
	w := kv.w
	inner, root := callSite()
	g := gid()
	p := kv.planFor(kind, inner)
	w.tr.mu.Lock()
	w.mu.Lock()
	w.ops++
	op := w.ops
	w.mu.Unlock()
	v := int64(0)
	if kind == kCreate || kind == kUpdate {
		v = w.tr.valLocked(val)
	}
	w.tr.recLocked("issue", int64(kv.in.idx), op, int64(kind), inner, root, g, w.tr.keyLocked(key), v, int64(exp))
	if p.fault != "" {
		w.tr.recLocked("envmark", 1, int64(kv.in.idx), op)
	}
	if 2*(p.pre+p.post) >= kv.in.spec.H {
		w.tr.recLocked("envmark", 2, int64(kv.in.idx), op)
	}
	if 10*(p.pre+p.post) > kv.in.spec.H {
		w.tr.recLocked("envmark", 12, int64(kv.in.idx), op)
	}
	w.tr.mu.Unlock()
	w.fire(kv.in.idx, fmt.Sprintf("issue:%d", kind))

	if p.pre > 0 {
		time.Sleep(time.Duration(p.pre))
	}
	applied := false
	var out refstore.Outcome
	var lastSeq uint64
	switch p.fault {
	case "timeout", "closed", "err", "noresponders", "fail":
		// not applied
	default:
		w.tr.mu.Lock()
		w.mu.Lock()
		lastSeq = w.store.LastRev(key)
		switch kind {
		case kCreate:
			out = w.store.Create(key, val)
		case kUpdate:
			out = w.store.Update(key, val, exp)
		case kGet:
			out = w.store.Get(key)
		case kDelete:
			out = w.store.Delete(key)
		}
		applied = true
		gv := int64(0)
		if kind == kGet && out.Kind == refstore.OK {
			gv = w.tr.valLocked(out.Value)
		}
		w.tr.recLocked("apply", op, retKind(out.Kind), int64(out.Rev), gv)
		if out.Kind == refstore.OK && kind != kGet {
			w.afterPublishLocked(key, out.Rev)
		}
		w.mu.Unlock()
		w.tr.mu.Unlock()
	}
	var err error
	rk := int64(0)
	switch {
	case !applied && p.fault == "timeout":
		time.Sleep(time.Duration(p.hang))
		err, rk = faultErr(p.fault)
	case !applied:
		err, rk = faultErr(p.fault)
	case p.fault == "lostack":
		if p.post > 0 {
			time.Sleep(time.Duration(p.post))
		}
		time.Sleep(time.Duration(p.hang))
		err, rk = faultErr(p.fault)
	default:
		if p.post > 0 {
			time.Sleep(time.Duration(p.post))
		}
		rk = retKind(out.Kind)
		err = refstore.ErrFor(out.Kind, kindNames[kind], lastSeq)
	}
	w.tr.mu.Lock()
	rv := int64(0)
	rrev := int64(0)
	if err == nil {
		rrev = int64(out.Rev)
		if kind == kGet {
			rv = w.tr.valLocked(out.Value)
		}
	}
	w.tr.recLocked("ret", int64(kv.in.idx), op, rk, rrev, rv)
	w.tr.mu.Unlock()
	if err != nil {
		return refstore.Outcome{}, p, err
	}
	return out, p, nil
}

func (kv *simKV) Create(key string, value []byte, opts ...interface{}) (uint64, error) {
	out, err := kv.call(kCreate, key, value, 0)
	return out.Rev, err
}

func (kv *simKV) Update(key string, value []byte, rev uint64, opts ...interface{}) (uint64, error) {
	out, err := kv.call(kUpdate, key, value, rev)
	return out.Rev, err
}

func (kv *simKV) Get(key string) (leader.Entry, error) {
	out, p, err := kv.callP(kGet, key, nil, 0)
	if err != nil {
		return nil, err
	}
	en := &entry{key: key, val: out.Value, rev: out.Rev}
	if p.stall > 0 {
		in, was := kv.in, kv.in.el != nil && kv.in.el.IsLeader()
		en.stall = func() {
			kv.w.tr.rec("envmark", 14, int64(in.idx), p.stall)
			kv.w.fire(in.idx, "stall")
			for t := int64(0); t < p.stall && in.el.IsLeader() == was; t += int64(time.Millisecond) {
				time.Sleep(time.Millisecond)
			}
			for k := 0; k < 8; k++ {
				runtime.Gosched()
			}
		}
	}
	return en, nil
}

func (kv *simKV) Delete(key string) error {
	_, err := kv.call(kDelete, key, nil, 0)
	return err
}

// ---------------------------------------------------------------- expiry, outside writer

// afterPublishLocked arms the bucket-TTL expiry of the message just written and wakes
// the watcher pumps. Caller holds tr.mu and w.mu.
func (w *World) afterPublishLocked(key string, rev uint64) {
	for _, sw := range w.ws {
		sw.wake()
	}
	ttl := w.sc.BucketTTL
	if ttl <= 0 {
		return
	}
	go func() {
		time.Sleep(time.Duration(ttl))
		w.tr.mu.Lock()
		w.mu.Lock()
		if !w.ended && w.store.LastRev(key) == rev {
			w.store.Expire(key)
			w.tr.recLocked("expire", w.tr.keyLocked(key), int64(rev))
		}
		w.mu.Unlock()
		w.tr.mu.Unlock()
	}()
}

func (w *World) extPut(key string, val []byte) {
	w.tr.mu.Lock()
	w.mu.Lock()
	// an outside writer overwrites unconditionally (kv.Put)
	var out refstore.Outcome
	if w.store.Live(key) || w.store.LastRev(key) != 0 {
		out = w.store.Update(key, val, w.store.LastRev(key))
	} else {
		out = w.store.Create(key, val)
	}
	w.tr.recLocked("extput", w.tr.keyLocked(key), w.tr.valLocked(val), int64(out.Rev))
	w.afterPublishLocked(key, out.Rev)
	w.mu.Unlock()
	w.tr.mu.Unlock()
}

func (w *World) extDel(key string) {
	w.tr.mu.Lock()
	w.mu.Lock()
	out := w.store.Delete(key)
	w.tr.recLocked("extdel", w.tr.keyLocked(key), int64(out.Rev))
	w.afterPublishLocked(key, out.Rev)
	w.mu.Unlock()
	w.tr.mu.Unlock()
}

func (w *World) forceExpire(key string) {
	w.tr.mu.Lock()
	w.mu.Lock()
	if rev := w.store.LastRev(key); rev != 0 {
		w.tr.recLocked("envmark", 11, 0, 0)
		w.store.Expire(key)
		w.tr.recLocked("expire", w.tr.keyLocked(key), int64(rev))
	}
	w.mu.Unlock()
	w.tr.mu.Unlock()
}

// ---------------------------------------------------------------- watch

type simWatcher struct {
	w       *World
	in      *Inst
	id      int64
	rw      *refstore.Watcher
	ch      chan leader.Entry
	sig     chan struct{}
	stop    chan struct{}
	once    sync.Once
	plan    WatchPlan
	sent    int
	closing bool
}

func (sw *simWatcher) wake() {
	select {
	case sw.sig <- struct{}{}:
	default:
	}
}

func (sw *simWatcher) Updates() <-chan leader.Entry { return sw.ch }

func (sw *simWatcher) Stop() {
	sw.once.Do(func() {
		sw.w.mu.Lock()
		sw.rw.Stop()
		sw.w.mu.Unlock()
		sw.w.tr.rec("wstop", int64(sw.in.idx), sw.id)
		close(sw.stop)
	})
}

// pump forwards the reference watcher's queue to the election with the scripted delay.
//
//	wsend i w n isnil rev val     entry n is handed to the channel (received by the library)
//	wdrop i w n rev               entry n is lost (scripted)
//	wclose i w                    channel closed by the environment
func (sw *simWatcher) pump() {
	w := sw.w
	for {
		w.mu.Lock()
		e, ok := sw.rw.Pop()
		w.mu.Unlock()
		if !ok {
			select {
			case <-sw.sig:
				continue
			case <-sw.stop:
				return
			}
		}
		n := sw.sent
		sw.sent++
		h := mix(w.sc.Seed, int64(sw.in.idx), 77, sw.id, int64(n))
		d := between(sw.plan.Delay[0], sw.plan.Delay[1], h)
		if sw.plan.Pipe {
			// a constant transit time: the entry is due d after it was produced (entries stay in order)
			d = e.T + d - w.tr.now()
		}
		if d > 0 {
			select {
			case <-time.After(time.Duration(d)):
			case <-sw.stop:
				return
			}
		}
		dropped := false
		for _, x := range sw.plan.Drop {
			if x == n || x == -1 {
				dropped = true
			}
		}
		if dropped {
			w.tr.rec("wdrop", int64(sw.in.idx), sw.id, int64(n), int64(e.Rev))
		} else {
			var le leader.Entry
			w.tr.mu.Lock()
			isnil, v := int64(0), int64(0)
			if e.Nil {
				isnil = 1
			} else {
				v = w.tr.valLocked(e.Value)
				en := &entry{key: sw.rw.Key(), val: e.Value, rev: e.Rev}
				if st := sw.plan.Stall; st > 0 {
					in := sw.in
					en.stallV = func() {
						was := in.el != nil && in.el.IsLeader()
						w.tr.rec("envmark", 14, int64(in.idx), st)
						w.fire(in.idx, "stall")
						for t := int64(0); t < st && in.el.IsLeader() == was; t += int64(time.Millisecond) {
							time.Sleep(time.Millisecond)
						}
						for k := 0; k < 8; k++ {
							runtime.Gosched()
						}
					}
				}
				le = en
			}
			w.tr.recLocked("wsend", int64(sw.in.idx), sw.id, int64(n), isnil, int64(e.Rev), v)
			w.tr.mu.Unlock()
			select {
			case sw.ch <- le:
				w.tr.rec("wrecv", int64(sw.in.idx), sw.id, int64(n))
			case <-sw.stop:
				return
			}
		}
		if sw.plan.CloseAfter > 0 && sw.sent >= sw.plan.CloseAfter {
			w.tr.rec("wclose", int64(sw.in.idx), sw.id)
			close(sw.ch)
			return
		}
	}
}

func (kv *simKV) Watch(key string, opts ...interface{}) (leader.Watcher, error) {
	w := kv.w
	inner, root := callSite()
	p := kv.planFor(kWatch, inner)
	w.mu.Lock()
	w.ops++
	op := w.ops
	nw := int64(len(w.ws) + 1)
	w.mu.Unlock()
	w.tr.mu.Lock()
	w.tr.recLocked("issue", int64(kv.in.idx), op, kWatch, inner, root, gid(), w.tr.keyLocked(key), 0, 0)
	w.tr.mu.Unlock()
	if p.pre > 0 {
		time.Sleep(time.Duration(p.pre))
	}
	if p.fault != "" {
		err, rk := faultErr(p.fault)
		w.tr.rec("ret", int64(kv.in.idx), op, rk, 0, 0)
		return nil, err
	}
	w.mu.Lock()
	rw := w.store.Watch(key)
	sw := &simWatcher{w: w, in: kv.in, id: nw, rw: rw, ch: make(chan leader.Entry), sig: make(chan struct{}, 1),
		stop: make(chan struct{}), plan: kv.in.watchPlan(int(kv.in.nwatch))}
	kv.in.nwatch++
	w.ws = append(w.ws, sw)
	w.mu.Unlock()
	w.tr.rec("apply", op, rOK, nw, 0)
	go sw.pump()
	if p.post > 0 {
		time.Sleep(time.Duration(p.post))
	}
	w.tr.rec("ret", int64(kv.in.idx), op, rOK, nw, 0)
	return sw, nil
}
