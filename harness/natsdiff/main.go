// Command natsdiff runs random operation sequences against an embedded
// nats-server (JetStream KV) THROUGH the library's adapter
// (leader.VerifNewNATSKeyValue) and against the reference model
// verif/harness/refstore, comparing canonical outcomes step by step.
// See README.md for the trace/error file formats and the established semantics.
//
// Build: go build -tags verif -o <out> ./natsdiff
package main

import (
	"bufio"
	"flag"
	"fmt"
	"math/rand"
	"os"
	"runtime"
	"sort"
	"strings"
	"sync"
	"time"

	"github.com/ali-assar/NATS-Leader-Election/leader"
	"github.com/nats-io/nats-server/v2/server"
	"github.com/nats-io/nats.go"
)

type embedded struct {
	s   *server.Server
	dir string // removed on stop when non-empty
}

// startServerOpts starts an in-process nats-server; dir (if any) is removed on stop.
func startServerOpts(opts *server.Options, dir string) (*embedded, error) {
	s, err := server.NewServer(opts)
	if err != nil {
		if dir != "" {
			os.RemoveAll(dir)
		}
		return nil, err
	}
	go s.Start()
	if !s.ReadyForConnections(10 * time.Second) {
		s.Shutdown()
		if dir != "" {
			os.RemoveAll(dir)
		}
		return nil, fmt.Errorf("embedded nats-server not ready")
	}
	return &embedded{s: s, dir: dir}, nil
}

// startServer starts a JetStream-enabled server on a loopback port (-1 = random
// free port) with its store under os.MkdirTemp.
func startServer(jetstream bool, port int) (*embedded, error) {
	dir, err := os.MkdirTemp("", "natsdiff-js-*")
	if err != nil {
		return nil, err
	}
	return startServerOpts(&server.Options{
		ServerName: "natsdiff",
		Host:       "127.0.0.1",
		Port:       port,
		JetStream:  jetstream,
		StoreDir:   dir,
		NoLog:      true,
		NoSigs:     true,
	}, dir)
}

func (e *embedded) stop() {
	if e == nil || e.s == nil {
		return
	}
	e.s.Shutdown()
	e.s.WaitForShutdown()
	e.s = nil
	if e.dir != "" {
		os.RemoveAll(e.dir)
	}
}

func main() { os.Exit(run()) }

// settle waits (at most 3s) until the goroutine count is <= target, or, with
// target 0, until it has not changed for 200ms; it returns the last count.
func settle(target int) int {
	deadline := time.Now().Add(3 * time.Second)
	prev, same := -1, 0
	for {
		g := runtime.NumGoroutine()
		if g == prev {
			same++
		} else {
			prev, same = g, 0
		}
		if (target > 0 && g <= target) || (target == 0 && same >= 10) || time.Now().After(deadline) {
			return g
		}
		time.Sleep(20 * time.Millisecond)
	}
}

func run() int {
	seed := flag.Int64("seed", 1, "PRNG seed (everything is derived from it)")
	nseqs := flag.Int("seqs", 200, "number of sequences")
	maxops := flag.Int("maxops", 25, "maximum number of generated operations per sequence")
	expiry := flag.Bool("expiry", false, "include real-time expiry steps (bucket TTL 2s, sleeps)")
	outFile := flag.String("out", "", "trace file")
	errsFile := flag.String("errs", "", "captured error values file")
	par := flag.Int("par", 8, "sequences executed concurrently (each on its own bucket; does not influence outcomes)")
	quiet := flag.Duration("quiet", 60*time.Millisecond, "watch-drain quiet period")
	nopace := flag.Bool("nopace", false, "do not wait for the server-side watch consumers after each write: fast overwrites are then conflated (history 1), outcomes of WD become timing dependent and lost entries are reported as extension lines `WL <w#> <rev>`")
	flag.Parse()
	if *maxops < 1 || *nseqs < 0 || *par < 1 {
		fmt.Fprintln(os.Stderr, "bad flags")
		return 2
	}
	start := time.Now()

	srv, err := startServer(true, -1)
	if err != nil {
		fmt.Fprintln(os.Stderr, "start server:", err)
		return 2
	}
	defer srv.stop()
	nc, err := nats.Connect(srv.s.ClientURL())
	if err != nil {
		fmt.Fprintln(os.Stderr, "connect:", err)
		return 2
	}
	defer nc.Close()
	js, err := nc.JetStream()
	if err != nil {
		fmt.Fprintln(os.Stderr, "jetstream:", err)
		return 2
	}

	// 1. Error values (own buckets, own secondary server; done before any
	//    goroutine accounting).
	if *errsFile != "" {
		lines, err := captureStoreErrors(js, *expiry)
		if err == nil {
			var more []errLine
			more, err = captureTransportErrors(js)
			lines = append(lines, more...)
		}
		if err != nil {
			fmt.Fprintln(os.Stderr, "capturing errors:", err)
			return 2
		}
		f, err := os.Create(*errsFile)
		if err != nil {
			fmt.Fprintln(os.Stderr, err)
			return 2
		}
		for _, l := range lines {
			fmt.Fprintf(f, "%s %s\n", l.situation, describeErr(l.err))
		}
		if err := f.Close(); err != nil {
			fmt.Fprintln(os.Stderr, err)
			return 2
		}
	}

	// 2. Generate all sequences from the single PRNG.
	rng := rand.New(rand.NewSource(*seed))
	seqs := make([]sequence, *nseqs)
	for i := range seqs {
		seqs[i] = genSequence(rng, i+1, *maxops, *expiry)
	}

	e := &env{js: js, ttl: 10 * time.Minute, expiry: *expiry, quiet: *quiet, pace: !*nopace}
	if *expiry {
		e.ttl = 2 * time.Second
	}

	// 3. Warm up (lazily started client/server goroutines), then count goroutines.
	warm := genSequence(rand.New(rand.NewSource(0)), 0, 12, false)
	runSequence(&env{js: js, ttl: e.ttl, quiet: 10 * time.Millisecond}, warm)
	time.Sleep(100 * time.Millisecond)
	gBefore := settle(0)
	callsBefore := updatesCalls.Load()

	// 4. Execute, `par` sequences at a time, each on its own bucket.
	results := make([]result, len(seqs))
	var wg sync.WaitGroup
	next := make(chan int)
	for w := 0; w < *par; w++ {
		wg.Add(1)
		go func() {
			defer wg.Done()
			for i := range next {
				results[i] = runSequence(e, seqs[i])
			}
		}()
	}
	for i := range seqs {
		next <- i
	}
	close(next)
	wg.Wait()

	var mismatches, timing []string
	var opHist [nOpKinds]int
	outHist := map[string]int{}
	ops, entries, lost := 0, 0, 0
	for _, r := range results {
		mismatches = append(mismatches, r.mismatches...)
		if r.timing != "" {
			timing = append(timing, r.timing)
		}
		for k, n := range r.opHist {
			opHist[k] += n
			ops += n
		}
		for k, n := range r.outHist {
			outHist[k] += n
		}
		entries += r.entries
		lost += r.lost
	}

	// 5. Goroutine accounting. (a) Whole run: every watcher was stopped and read
	//    until closed, so the count must come back to where it was, no matter how
	//    many times Updates() was called.
	gAfter := settle(gBefore)
	calls := updatesCalls.Load() - callsBefore
	const slack = 3
	if gAfter > gBefore+slack {
		mismatches = append(mismatches, fmt.Sprintf("MISMATCH kind=goroutines seq=- step=- real=%d ref=%d updates_calls=%d (whole run)", gAfter, gBefore, calls))
	}
	//    (b) Probe: one watcher, Updates() called before every single receive.
	p0, p1, pcalls, perr := probeUpdates(js)
	if perr != nil {
		mismatches = append(mismatches, fmt.Sprintf("MISMATCH kind=goroutines seq=- step=- real=probe-error(%v) ref=ok", perr))
	} else if p1 > p0+slack {
		mismatches = append(mismatches, fmt.Sprintf("MISMATCH kind=goroutines seq=- step=- real=%d ref=%d updates_calls=%d (probe)", p1, p0, pcalls))
	}
	//    (c) Informational: Stop() with >= 2 undelivered entries and no further
	//    receive leaves the adapter's forwarding goroutine blocked forever.
	leaked, leakN := probeStopUndrained(js)

	// 6. Trace file.
	if *outFile != "" {
		f, err := os.Create(*outFile)
		if err != nil {
			fmt.Fprintln(os.Stderr, err)
			return 2
		}
		bw := bufio.NewWriter(f)
		for _, r := range results {
			for _, l := range r.trace {
				bw.WriteString(l)
				bw.WriteByte('\n')
			}
		}
		if err := bw.Flush(); err == nil {
			err = f.Close()
		}
		if err != nil {
			fmt.Fprintln(os.Stderr, err)
			return 2
		}
	}

	for _, m := range mismatches {
		fmt.Println(m)
	}
	for _, t := range timing {
		fmt.Println(t)
	}
	var oh []string
	for k := opKind(0); k < nOpKinds; k++ {
		oh = append(oh, fmt.Sprintf("%s=%d", opTag[k], opHist[k]))
	}
	var kinds []string
	for k := range outHist {
		kinds = append(kinds, k)
	}
	sort.Strings(kinds)
	var kh []string
	for _, k := range kinds {
		kh = append(kh, fmt.Sprintf("%s=%d", k, outHist[k]))
	}
	if leaked > 0 {
		mismatches = append(mismatches, fmt.Sprintf("MISMATCH kind=goroutines %d of %d stopped watchers left their forwarding goroutine behind (Stop with undelivered entries)", leaked, leakN))
	}
	for _, m := range mismatches {
		if strings.Contains(m, "kind=goroutines") && leaked > 0 {
			fmt.Println(m)
			break
		}
	}
	status := "OK"
	code := 0
	if len(mismatches) > 0 || len(timing) > 0 {
		status = fmt.Sprintf("FAIL mismatches=%d timing=%d", len(mismatches), len(timing))
		code = 1
	}
	fmt.Printf("%s seed=%d expiry=%v paced=%v seqs=%d ops=%d opkinds{%s} outcomes{%s} watch_entries=%d watch_lost=%d updates_calls=%d goroutines{before=%d after=%d probe=%d->%d over %d Updates() calls} stop_undrained_leak=%d/%d elapsed=%v\n",
		status, *seed, *expiry, !*nopace, len(seqs), ops, strings.Join(oh, " "), strings.Join(kh, " "), entries, lost, calls,
		gBefore, gAfter, p0, p1, pcalls, leaked, leakN, time.Since(start).Round(time.Millisecond))
	return code
}

// probeUpdates opens one watcher and consumes 400 updates, calling Updates()
// before every receive. Returns the goroutine count after the first receive and
// after the last one.
func probeUpdates(js nats.JetStreamContext) (g0, g1 int, calls int, err error) {
	raw, err := js.CreateKeyValue(&nats.KeyValueConfig{Bucket: "PROBE", TTL: 10 * time.Minute, Storage: nats.FileStorage})
	if err != nil {
		return 0, 0, 0, err
	}
	defer js.DeleteKeyValue("PROBE")
	kv := leader.VerifNewNATSKeyValue(raw)
	w, err := kv.Watch("k")
	if err != nil {
		return 0, 0, 0, err
	}
	recv := func() error {
		calls++
		updatesCalls.Add(1)
		select {
		case _, ok := <-w.Updates():
			if !ok {
				return fmt.Errorf("channel closed")
			}
			return nil
		case <-time.After(2 * time.Second):
			return fmt.Errorf("no delivery within 2s")
		}
	}
	if err = recv(); err != nil { // the nil marker
		return
	}
	time.Sleep(50 * time.Millisecond)
	g0 = runtime.NumGoroutine()
	var rev uint64
	for i := 0; i < 400; i++ {
		if rev, err = kv.Update("k", []byte("v"), rev); err != nil {
			return
		}
		if err = recv(); err != nil {
			return
		}
		for j := 0; j < 3; j++ { // and some calls that do not receive at all
			calls++
			updatesCalls.Add(1)
			_ = w.Updates()
		}
	}
	g1 = runtime.NumGoroutine()
	w.Stop()
	for {
		if _, ok := <-w.Updates(); !ok {
			break
		}
	}
	return
}

// probeStopUndrained: n watchers on a present key, each calls Updates() once,
// never receives, and is stopped with two undelivered entries (value + nil
// marker). Returns how many goroutines are still around afterwards.
func probeStopUndrained(js nats.JetStreamContext) (leaked, n int) {
	n = 10
	raw, err := js.CreateKeyValue(&nats.KeyValueConfig{Bucket: "PROBE2", TTL: 10 * time.Minute, Storage: nats.FileStorage})
	if err != nil {
		return -1, n
	}
	defer js.DeleteKeyValue("PROBE2")
	kv := leader.VerifNewNATSKeyValue(raw)
	if _, err := kv.Create("k", []byte("v")); err != nil {
		return -1, n
	}
	g0 := settle(0)
	for i := 0; i < n; i++ {
		w, err := kv.Watch("k")
		if err != nil {
			return -1, n
		}
		_ = w.Updates()
		time.Sleep(20 * time.Millisecond)
		w.Stop()
	}
	time.Sleep(300 * time.Millisecond)
	return runtime.NumGoroutine() - g0, n
}
