package main

import (
	"encoding/hex"
	"errors"
	"fmt"
	"strings"
	"sync/atomic"
	"time"

	"github.com/ali-assar/NATS-Leader-Election/leader"
	"github.com/nats-io/nats.go"

	"verif/harness/refstore"
)

type env struct {
	js     nats.JetStreamContext
	ttl    time.Duration // bucket TTL
	expiry bool          // real-time expiry steps allowed
	quiet  time.Duration // watch-drain quiet period
	pace   bool          // wait for the server-side consumers after every write (no conflation)
}

// updatesCalls counts every call of Watcher.Updates() made by this process.
var updatesCalls atomic.Int64

type result struct {
	trace      []string
	mismatches []string
	timing     string // non-empty: the sequence ran too close to the TTL, result inconclusive
	opHist     [nOpKinds]int
	outHist    map[string]int
	entries    int // watch entries received
	lost       int // watch entries lost by conflation (only without pacing)
}

func hx(b []byte) string {
	if len(b) == 0 {
		return "-"
	}
	return hex.EncodeToString(b)
}

// classify maps an error returned by the real adapter to a canonical kind.
func classify(op string, err error) string {
	if err == nil {
		return "ok"
	}
	var ae *nats.APIError
	isWLS := errors.As(err, &ae) && ae.ErrorCode == nats.JSErrCodeStreamWrongLastSequence
	switch op {
	case "create":
		if isWLS && strings.HasSuffix(err.Error(), ": key exists") {
			return "keyexists"
		}
		if isWLS {
			return "wronglastseq"
		}
	case "update":
		if isWLS {
			return "wronglastseq"
		}
	case "get":
		if errors.Is(err, nats.ErrKeyNotFound) {
			return "notfound"
		}
	}
	return "other"
}

func wentry(e refstore.WEntry) string {
	if e.Nil {
		return "nil"
	}
	return fmt.Sprintf("%d:%s", e.Rev, hx(e.Value))
}

// drainReal receives from the watcher, calling Updates() before EVERY receive
// (like the library's watchLoop). It waits generously (2s per entry) while
// done(got) is false, and then until the channel has been quiet for `quiet`.
// It stops early if the channel is closed.
func drainReal(w leader.Watcher, done func(got []string) bool, quiet time.Duration) (got []string, closed bool) {
	for {
		wait := quiet
		if !done(got) {
			wait = 2 * time.Second
		}
		t := time.NewTimer(wait)
		updatesCalls.Add(1)
		select {
		case e, ok := <-w.Updates():
			t.Stop()
			if !ok {
				return got, true
			}
			if e == nil {
				got = append(got, "nil")
			} else {
				got = append(got, fmt.Sprintf("%d:%s", e.Revision(), hx(e.Value())))
			}
		case <-t.C:
			return got, false
		}
	}
}

func contains(l []string, s string) bool {
	for _, x := range l {
		if x == s {
			return true
		}
	}
	return false
}

func pendingStrings(w *refstore.Watcher) []string {
	var l []string
	for _, we := range w.Pending() {
		l = append(l, wentry(we))
	}
	return l
}

// reconcile explains what the real watcher delivered (got) in terms of the
// model: pending entries the real one skipped are removed with the environment
// step Drop (legal only for entries that were overwritten later, and only if
// allowDrop), then got must be exactly the model's pending list, or, with
// prefix, a prefix of it. It returns the revisions dropped.
func reconcile(w *refstore.Watcher, got []string, prefix, allowDrop bool) (lost []uint64, ok bool) {
	pend := w.Pending()
	limit := len(pend)
	if prefix {
		limit = 0
		for i, e := range pend {
			if contains(got, wentry(e)) {
				limit = i + 1
			}
		}
	}
	for _, e := range pend[:limit] {
		if e.Nil || contains(got, wentry(e)) {
			continue
		}
		if !allowDrop || !w.Drop(e.Rev) {
			return lost, false
		}
		lost = append(lost, e.Rev)
	}
	after := pendingStrings(w)
	if prefix {
		return lost, len(got) <= len(after) && strings.Join(got, " ") == strings.Join(after[:len(got)], " ")
	}
	return lost, strings.Join(got, " ") == strings.Join(after, " ")
}

type watchPair struct {
	real leader.Watcher
	ref  *refstore.Watcher
	key  string
}

// runSequence replays sq on a fresh bucket through the real adapter and on a
// fresh reference store, comparing canonical outcomes after every step.
func runSequence(e *env, sq sequence) (res result) {
	res.outHist = map[string]int{}
	bucket := fmt.Sprintf("D%d", sq.no)
	stream := "KV_" + bucket
	rawKV, err := e.js.CreateKeyValue(&nats.KeyValueConfig{Bucket: bucket, TTL: e.ttl, Storage: nats.FileStorage})
	if err != nil {
		res.mismatches = append(res.mismatches, fmt.Sprintf("MISMATCH seq=%d step=-1 real=create-bucket:%v ref=ok", sq.no, err))
		return
	}
	defer e.js.DeleteKeyValue(bucket)
	kv := leader.VerifNewNATSKeyValue(rawKV)
	ref := refstore.New()
	watchers := map[int]*watchPair{}
	defer func() {
		for _, wp := range watchers { // only on abnormal exit
			wp.real.Stop()
		}
	}()

	step := 0
	mismatch := func(real, model string) {
		res.mismatches = append(res.mismatches, fmt.Sprintf("MISMATCH seq=%d step=%d real=%s ref=%s", sq.no, step, real, model))
	}
	emit := func(format string, a ...any) { res.trace = append(res.trace, fmt.Sprintf(format, a...)) }
	// checkErr compares the real error value with the one the model fabricates.
	checkErr := func(opName string, kind refstore.Kind, lastSeq uint64, real error) {
		if d := errDiff(real, refstore.ErrFor(kind, opName, lastSeq)); d != "" {
			mismatch("error{"+describeErr(real)+"}", "error{"+d+"}")
		}
		if !refstore.Possible(kind, opName) {
			mismatch("possible", fmt.Sprintf("impossible(%v,%s)", kind, opName))
		}
	}

	var epochStart time.Time // first write since the last expiry (only with -expiry)
	wrote := func() {
		if epochStart.IsZero() {
			epochStart = time.Now()
		}
	}

	// Pacing: after a write (and after opening a watcher) wait until the
	// server-side consumer of every open watcher has sent everything up to the
	// key's newest revision, so that nothing can be conflated away. Observed from
	// the outside (consumer info), without touching the watchers' channels.
	want := map[string]uint64{} // newest revision written per key in this epoch
	pace := func() {
		if !e.pace || len(watchers) == 0 {
			return
		}
		need := map[string]int{}
		for _, wp := range watchers {
			need[wp.key]++
		}
		deadline := time.Now().Add(2 * time.Second)
		for {
			have := map[string]int{}
			for ci := range e.js.ConsumersInfo(stream) {
				k := strings.TrimPrefix(ci.Config.FilterSubject, "$KV."+bucket+".")
				if ci.NumPending == 0 && ci.Delivered.Stream >= want[k] {
					have[k]++
				}
			}
			ok := true
			for k, n := range need {
				if have[k] < n {
					ok = false
				}
			}
			if ok || time.Now().After(deadline) {
				return
			}
			time.Sleep(time.Millisecond)
		}
	}
	deleted := func(key string) {
		if e.pace {
			if si, err := e.js.StreamInfo(stream); err == nil {
				want[key] = si.State.LastSeq
			}
		}
	}

	emit("S %d %d", sq.no, sq.nkeys)
	for step = 0; step < len(sq.ops); step++ {
		o := sq.ops[step]
		key := keyName(o.key)
		res.opHist[o.kind]++
		switch o.kind {
		case opCreate:
			last := ref.LastRev(key)
			rev, err := kv.Create(key, o.val)
			kind := classify("create", err)
			m := ref.Create(key, o.val)
			res.outHist[kind]++
			emit("C %d %s %s %d", o.key, hx(o.val), kind, rev)
			if kind != m.Kind.String() || rev != m.Rev {
				mismatch(fmt.Sprintf("%s:%d(%v)", kind, rev, err), fmt.Sprintf("%s:%d", m.Kind, m.Rev))
			} else {
				checkErr("create", m.Kind, last, err)
			}
			if err == nil {
				want[key] = rev
			}
			wrote()
			pace()
		case opUpdate:
			last := ref.LastRev(key)
			rev, err := kv.Update(key, o.val, o.rev)
			kind := classify("update", err)
			m := ref.Update(key, o.val, o.rev)
			res.outHist[kind]++
			emit("U %d %s %d %s %d", o.key, hx(o.val), o.rev, kind, rev)
			if kind != m.Kind.String() || rev != m.Rev {
				mismatch(fmt.Sprintf("%s:%d(%v)", kind, rev, err), fmt.Sprintf("%s:%d", m.Kind, m.Rev))
			} else {
				checkErr("update", m.Kind, last, err)
			}
			if err == nil {
				want[key] = rev
			}
			wrote()
			pace()
		case opGet:
			ent, err := kv.Get(key)
			kind := classify("get", err)
			var rev uint64
			var val []byte
			if err == nil && ent == nil {
				kind = "other" // (nil, nil) never happens on the real adapter
			} else if err == nil {
				rev, val = ent.Revision(), ent.Value()
				if ent.Key() != key {
					kind = "other"
				}
			}
			m := ref.Get(key)
			res.outHist[kind]++
			emit("G %d %s %d %s", o.key, kind, rev, hx(val))
			if kind != m.Kind.String() || rev != m.Rev || hx(val) != hx(m.Value) {
				mismatch(fmt.Sprintf("%s:%d:%s(%v)", kind, rev, hx(val), err), fmt.Sprintf("%s:%d:%s", m.Kind, m.Rev, hx(m.Value)))
			} else {
				checkErr("get", m.Kind, ref.LastRev(key), err)
			}
		case opDelete:
			err := kv.Delete(key)
			kind := classify("delete", err)
			m := ref.Delete(key)
			res.outHist[kind]++
			emit("D %d %s", o.key, kind)
			if kind != m.Kind.String() {
				mismatch(fmt.Sprintf("%s(%v)", kind, err), m.Kind.String())
			}
			deleted(key)
			wrote()
			pace()
		case opWatchOpen:
			w, err := kv.Watch(key)
			if err != nil {
				mismatch(fmt.Sprintf("watch-error(%v)", err), "ok")
				return
			}
			watchers[o.w] = &watchPair{real: w, ref: ref.Watch(key), key: key}
			emit("WO %d %d", o.w, o.key)
			pace()
		case opWatchDrain:
			wp := watchers[o.w]
			// The newest pending revision (and the marker, if due) always arrive;
			// wait for them, then for the quiet period.
			pend := wp.ref.Pending()
			var mustSee []string
			for i := len(pend) - 1; i >= 0; i-- {
				if !pend[i].Nil {
					mustSee = append(mustSee, wentry(pend[i]))
					break
				}
			}
			if contains(pendingStrings(wp.ref), "nil") {
				mustSee = append(mustSee, "nil")
			}
			got, closed := drainReal(wp.real, func(got []string) bool {
				for _, m := range mustSee {
					if !contains(got, m) {
						return false
					}
				}
				return true
			}, e.quiet)
			res.entries += len(got)
			before := strings.Join(pendingStrings(wp.ref), " ")
			lost, ok := reconcile(wp.ref, got, false, !e.pace)
			for _, r := range lost {
				emit("WL %d %d", o.w, r) // extension, only without pacing: entry conflated away
			}
			res.lost += len(lost)
			line := fmt.Sprintf("WD %d %d", o.w, len(got))
			if len(got) > 0 {
				line += " " + strings.Join(got, " ")
			}
			emit("%s", line)
			if closed || !ok {
				mismatch(fmt.Sprintf("[%s]closed=%v", strings.Join(got, " "), closed), fmt.Sprintf("[%s]closed=false", before))
			} else {
				for range got {
					wp.ref.Pop()
				}
			}
		case opWatchStop:
			wp := watchers[o.w]
			delete(watchers, o.w)
			wp.real.Stop()
			wp.ref.Stop()
			emit("WS %d", o.w)
			// Not part of the trace: after Stop the adapter hands out some prefix of
			// the still undelivered entries and then closes the channel. Reading it to
			// the end also lets the adapter's forwarding goroutine terminate.
			before := strings.Join(pendingStrings(wp.ref), " ")
			got, closed := drainReal(wp.real, func([]string) bool { return false }, e.quiet)
			if _, ok := reconcile(wp.ref, got, true, !e.pace); !ok || !closed {
				mismatch(fmt.Sprintf("after-stop[%s]closed=%v", strings.Join(got, " "), closed), fmt.Sprintf("prefix-of[%s]closed=true", before))
			}
		case opExpire:
			// Everything stored so far is older than "now": sleep past the TTL, then
			// wait until the server has really dropped every message of the bucket.
			time.Sleep(e.ttl + 150*time.Millisecond)
			deadline := time.Now().Add(5 * time.Second)
			for {
				si, err := e.js.StreamInfo(stream)
				if err == nil && si.State.Msgs == 0 {
					break
				}
				if time.Now().After(deadline) {
					mismatch(fmt.Sprintf("not-expired(err=%v)", err), "expired")
					return
				}
				time.Sleep(25 * time.Millisecond)
			}
			for k := 0; k < sq.nkeys; k++ {
				if ref.LastRev(keyName(k)) != 0 { // a live value or a tombstone aged out
					emit("X %d", k)
					ref.Expire(keyName(k))
				}
			}
			epochStart = time.Time{}
			want = map[string]uint64{}
		}
		if e.expiry && !epochStart.IsZero() && time.Since(epochStart) > e.ttl-500*time.Millisecond {
			res.timing = fmt.Sprintf("TIMING seq=%d step=%d epoch lasted %v with TTL %v: unintended expiry possible, rerun (lower -par)", sq.no, step, time.Since(epochStart), e.ttl)
			return
		}
	}
	emit("E")

	// Bucket-level bookkeeping: last sequence and number of stored messages.
	si, err := e.js.StreamInfo(stream)
	if err != nil {
		mismatch(fmt.Sprintf("stream-info-error(%v)", err), "ok")
		return
	}
	stored := 0
	for k := 0; k < sq.nkeys; k++ {
		if ref.LastRev(keyName(k)) != 0 {
			stored++
		}
	}
	if si.State.LastSeq != ref.Seq() || si.State.Msgs != uint64(stored) {
		mismatch(fmt.Sprintf("lastseq=%d,msgs=%d", si.State.LastSeq, si.State.Msgs), fmt.Sprintf("lastseq=%d,msgs=%d", ref.Seq(), stored))
	}
	return
}
