package main

import (
	"encoding/hex"
	"errors"
	"fmt"
	"net"
	"strings"
	"time"

	"github.com/ali-assar/NATS-Leader-Election/leader"
	"github.com/nats-io/nats-server/v2/server"
	"github.com/nats-io/nats.go"
)

var sentinels = []struct {
	name string
	err  error
}{
	{"ErrKeyExists", nats.ErrKeyExists},
	{"ErrKeyNotFound", nats.ErrKeyNotFound},
	{"ErrKeyDeleted", nats.ErrKeyDeleted},
	{"ErrTimeout", nats.ErrTimeout},
	{"ErrNoResponders", nats.ErrNoResponders},
	{"ErrConnectionClosed", nats.ErrConnectionClosed},
	{"ErrBadRequest", nats.ErrBadRequest},
}

func isList(err error) string {
	var l []string
	for _, s := range sentinels {
		if errors.Is(err, s.err) {
			l = append(l, s.name)
		}
	}
	if len(l) == 0 {
		return "-"
	}
	return strings.Join(l, ",")
}

func apiOf(err error) *nats.APIError {
	var ae *nats.APIError
	if errors.As(err, &ae) {
		return ae
	}
	return nil
}

// unwrapChain lists the errors reached by repeated errors.Unwrap (err itself excluded).
func unwrapChain(err error) string {
	var l []string
	for e := errors.Unwrap(err); e != nil; e = errors.Unwrap(e) {
		l = append(l, hex.EncodeToString([]byte(e.Error())))
	}
	if len(l) == 0 {
		return "-"
	}
	return strings.Join(l, ",")
}

// describeErr renders an error in the -errs file format (without the situation).
func describeErr(err error) string {
	if err == nil {
		return "<nil> - is=- apicode=0 unwrap=- perm=false trans=false"
	}
	code := 0
	if ae := apiOf(err); ae != nil {
		code = int(ae.ErrorCode)
	}
	return fmt.Sprintf("%T %s is=%s apicode=%d unwrap=%s perm=%v trans=%v",
		err, hex.EncodeToString([]byte(err.Error())), isList(err), code, unwrapChain(err),
		leader.IsPermanentError(err), leader.IsTransientError(err))
}

// errDiff returns "" when the fabricated error is observationally the same as
// the real one: same dynamic type, same text, same errors.Is answers for the
// nats sentinels, same *nats.APIError fields, same Unwrap chain, same
// classification by the library; sentinel errors must be the identical value.
func errDiff(real, model error) string {
	if real == nil || model == nil {
		if real != nil || model != nil {
			return describeErr(model)
		}
		return ""
	}
	same := describeErr(real) == describeErr(model)
	ra, ma := apiOf(real), apiOf(model)
	if (ra == nil) != (ma == nil) || (ra != nil && *ra != *ma) {
		same = false
	}
	if real == nats.ErrKeyNotFound && model != nats.ErrKeyNotFound {
		same = false
	}
	if !same {
		return describeErr(model) + fmt.Sprintf(" api=%+v", ma)
	}
	return ""
}

type errLine struct {
	situation string
	err       error
}

// captureStoreErrors provokes the store-level situations on a live bucket.
func captureStoreErrors(js nats.JetStreamContext, withExpiry bool) (out []errLine, err error) {
	add := func(s string, e error) { out = append(out, errLine{s, e}) }
	raw, err := js.CreateKeyValue(&nats.KeyValueConfig{Bucket: "ERRS", TTL: 10 * time.Minute, Storage: nats.FileStorage})
	if err != nil {
		return nil, err
	}
	defer js.DeleteKeyValue("ERRS")
	kv := leader.VerifNewNATSKeyValue(raw)

	_, e := kv.Get("absent")
	add("get-absent", e)
	_, e = kv.Update("absent", []byte("v"), 5)
	add("update-absent-key-nonzero-rev", e)
	add("delete-absent", kv.Delete("gone")) // writes a tombstone (seq 1)
	add("delete-deleted", kv.Delete("gone"))
	_, e = kv.Get("gone")
	add("get-deleted", e)
	_, e = kv.Update("gone", []byte("v"), 0)
	add("update-rev0-on-tombstone", e)
	_, e = kv.Update("gone", []byte("v"), 1)
	add("update-stale-revision-on-tombstone", e)
	_, e = kv.Create("gone", []byte("v"))
	add("create-on-tombstone", e)

	r1, e := kv.Create("live", []byte(`{"id":"a","token":"t1"}`))
	if e != nil {
		return nil, e
	}
	r2, e := kv.Update("live", []byte(`{"id":"a","token":"t2"}`), r1)
	if e != nil {
		return nil, e
	}
	_, e = kv.Create("live", []byte("w"))
	add("create-on-live-key", e)
	_, e = kv.Update("live", []byte("w"), r1)
	add("update-stale-revision", e)
	_, e = kv.Update("live", []byte("w"), r2+3)
	add("update-future-revision", e)
	_, e = kv.Update("live", []byte("w"), 0)
	add("update-rev0-on-live-key", e)
	if _, e = kv.Create("empty", nil); e != nil {
		return nil, e
	}
	_, e = kv.Create("empty", []byte("w"))
	add("create-on-live-empty-value", e)

	if withExpiry {
		rawT, err := js.CreateKeyValue(&nats.KeyValueConfig{Bucket: "ERRST", TTL: time.Second, Storage: nats.FileStorage})
		if err != nil {
			return nil, err
		}
		defer js.DeleteKeyValue("ERRST")
		kt := leader.VerifNewNATSKeyValue(rawT)
		r, e := kt.Create("k", []byte("v"))
		if e != nil {
			return nil, e
		}
		time.Sleep(1200 * time.Millisecond)
		for i := 0; i < 100; i++ {
			if si, err := js.StreamInfo("KV_ERRST"); err == nil && si.State.Msgs == 0 {
				break
			}
			time.Sleep(25 * time.Millisecond)
		}
		_, e = kt.Get("k")
		add("get-expired", e)
		_, e = kt.Update("k", []byte("w"), r)
		add("update-expired-value-revision", e)
		_, e = kt.Create("k", []byte("w"))
		add("create-after-expiry", e)
	}
	return out, nil
}

func allOps(prefix string, kv leader.KeyValue, add func(string, error)) {
	_, e := kv.Create("k2", []byte("v"))
	add(prefix+"-create", e)
	_, e = kv.Update("k", []byte("v"), 1)
	add(prefix+"-update", e)
	_, e = kv.Get("k")
	add(prefix+"-get", e)
	add(prefix+"-delete", kv.Delete("k"))
	w, e := kv.Watch("k")
	add(prefix+"-watch", e)
	if e == nil && w != nil {
		w.Stop()
	}
}

// captureTransportErrors provokes, on a second embedded server, the errors kv
// operations return when (1) the server is gone and the client is reconnecting
// (requests time out), (2) the client is connected to a server without
// JetStream (no responders), (3) the connection is closed, and on the main
// server (4) the bucket was deleted underneath the handle.
func captureTransportErrors(mainJS nats.JetStreamContext) (out []errLine, err error) {
	add := func(s string, e error) { out = append(out, errLine{s, e}) }

	// (4) bucket deleted underneath
	raw, err := mainJS.CreateKeyValue(&nats.KeyValueConfig{Bucket: "ERRSDEL", TTL: 10 * time.Minute, Storage: nats.FileStorage})
	if err != nil {
		return nil, err
	}
	kvd := leader.VerifNewNATSKeyValue(raw)
	if _, err = kvd.Create("k", []byte("v")); err != nil {
		return nil, err
	}
	if err = mainJS.DeleteKeyValue("ERRSDEL"); err != nil {
		return nil, err
	}
	allOps("bucket-deleted", kvd, add)

	srv, err := startServer(true, -1)
	if err != nil {
		return nil, err
	}
	defer func() { srv.stop() }()
	port := srv.s.Addr().(*net.TCPAddr).Port
	nc, err := nats.Connect(srv.s.ClientURL(), nats.MaxReconnects(-1), nats.ReconnectWait(20*time.Millisecond), nats.Timeout(time.Second))
	if err != nil {
		return nil, err
	}
	defer nc.Close()
	js, err := nc.JetStream(nats.MaxWait(300 * time.Millisecond))
	if err != nil {
		return nil, err
	}
	raw, err = js.CreateKeyValue(&nats.KeyValueConfig{Bucket: "T", TTL: 10 * time.Minute, Storage: nats.FileStorage})
	if err != nil {
		return nil, err
	}
	kv := leader.VerifNewNATSKeyValue(raw)
	if _, err = kv.Create("k", []byte("v")); err != nil {
		return nil, err
	}
	// A second handle on the same bucket with the default JetStream options
	// (MaxWait 5s, publish retried twice, 250ms apart, on "no responders"), which
	// is what the library uses (nc.JetStream() without options).
	jsDef, err := nc.JetStream()
	if err != nil {
		return nil, err
	}
	rawDef, err := jsDef.KeyValue("T")
	if err != nil {
		return nil, err
	}
	kvDef := leader.VerifNewNATSKeyValue(rawDef)

	// (1) server gone, client reconnecting: requests are buffered and time out
	// after the JetStream context's MaxWait (300ms here, 5s by default).
	srv.stop()
	for i := 0; i < 100 && nc.IsConnected(); i++ {
		time.Sleep(10 * time.Millisecond)
	}
	allOps("timeout", kv, add)

	// (2) same port, no JetStream: the client reconnects, nobody answers the API.
	srv2, err := startServerOpts(&server.Options{ServerName: "natsdiff-nojs", Host: "127.0.0.1", Port: port, NoLog: true, NoSigs: true}, "")
	if err != nil {
		return out, fmt.Errorf("restart without JetStream: %w", err)
	}
	defer srv2.stop()
	for i := 0; i < 300 && !nc.IsConnected(); i++ {
		time.Sleep(10 * time.Millisecond)
	}
	if !nc.IsConnected() {
		return out, errors.New("client did not reconnect to the JetStream-less server")
	}
	allOps("no-responders", kvDef, add)

	// (3) closed connection
	nc.Close()
	allOps("connection-closed", kvDef, add)
	return out, nil
}
