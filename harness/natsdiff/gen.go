package main

import (
	"fmt"
	"math/rand"

	"verif/harness/refstore"
)

type opKind int

const (
	opCreate opKind = iota
	opUpdate
	opGet
	opDelete
	opWatchOpen
	opWatchDrain
	opWatchStop
	opExpire
	nOpKinds
)

var opTag = [nOpKinds]string{"C", "U", "G", "D", "WO", "WD", "WS", "X"}

type op struct {
	kind opKind
	key  int    // key number (C U G D WO)
	val  []byte // C U
	rev  uint64 // U: expected revision
	w    int    // watcher number (WO WD WS), unique within the sequence
}

type sequence struct {
	no    int
	nkeys int
	ops   []op
}

func keyName(i int) string { return fmt.Sprintf("key%d", i) }

var valuePool = [][]byte{
	{},
	[]byte(`{"id":"a","token":"t1"}`),
	[]byte(`{"id":"b","token":"t2"}`),
	[]byte(`{"id":"a","token":"t3"}`),
	[]byte(`{"id":"c","token":"t4","priority":7}`),
	[]byte(`{}`),
	[]byte("x"),
	[]byte("hello"),
	{0x00, 0xff, 0x20},
}

// Limits that keep one "epoch" (the stretch between two expiry steps) far below
// the bucket TTL when -expiry is used.
const (
	maxWatchers       = 2
	maxExpiresPerSeq  = 2
	maxDrainsPerEpoch = 5
)

// genSequence draws one operation sequence from rng. The reference model is used
// as an oracle while generating, only to make the choices meaningful (e.g. "the
// latest revision of the key"); the executor later replays the fixed sequence on
// the real adapter and on a fresh model.
func genSequence(rng *rand.Rand, no, maxops int, expiry bool) sequence {
	sq := sequence{no: no, nkeys: 1}
	if rng.Intn(100) < 35 {
		sq.nkeys = 2
	}
	model := refstore.New()
	revs := make([][]uint64, sq.nkeys)  // every revision ever assigned to the key
	tombs := make([][]uint64, sq.nkeys) // those that are tombstones
	var open []int                      // open watcher numbers
	nextW := 0
	expires, drains := 0, 0

	n := maxops
	if maxops > 5 {
		n = 5 + rng.Intn(maxops-4)
	}
	// Burst sequences: a consumer that does not read while the key changes many
	// times must still receive every change once it drains (no backlog limit).
	if !expiry && no%10 == 3 {
		sq.nkeys = 1
		key := keyName(0)
		sq.ops = append(sq.ops, op{kind: opWatchOpen, w: 0})
		writes := 20 + rng.Intn(45)
		for i := 0; i < writes; i++ {
			o := op{key: 0}
			switch c := rng.Intn(10); {
			case c < 7:
				o.kind = opUpdate
				o.val = []byte(fmt.Sprintf(`{"id":"a","token":"t%d"}`, i))
				o.rev = model.LastRev(key)
				model.Update(key, o.val, o.rev)
			case c < 8:
				o.kind = opDelete
				model.Delete(key)
			default:
				o.kind = opCreate
				o.val = []byte("x")
				model.Create(key, o.val)
			}
			sq.ops = append(sq.ops, o)
		}
		sq.ops = append(sq.ops, op{kind: opWatchDrain, w: 0}, op{kind: opWatchStop, w: 0})
		return sq
	}
	pickVal := func() []byte {
		if rng.Intn(100) < 15 {
			return []byte(fmt.Sprintf(`{"id":"n%d","token":"t%d"}`, rng.Intn(3), rng.Intn(1000)))
		}
		return valuePool[rng.Intn(len(valuePool))]
	}
	anyStored := func() bool {
		for k := 0; k < sq.nkeys; k++ {
			if model.LastRev(keyName(k)) != 0 {
				return true
			}
		}
		return false
	}
	for len(sq.ops) < n {
		weights := [nOpKinds]int{opCreate: 16, opUpdate: 30, opGet: 12, opDelete: 12}
		if len(open) < maxWatchers {
			weights[opWatchOpen] = 8
		}
		if len(open) > 0 {
			if !expiry || drains < maxDrainsPerEpoch {
				weights[opWatchDrain] = 10
			}
			weights[opWatchStop] = 3
		}
		if expiry && expires < maxExpiresPerSeq && anyStored() {
			weights[opExpire] = 6
		}
		total := 0
		for _, w := range weights {
			total += w
		}
		r := rng.Intn(total)
		kind := opKind(0)
		for ; r >= weights[kind]; kind++ {
			r -= weights[kind]
		}
		k := rng.Intn(sq.nkeys)
		key := keyName(k)
		o := op{kind: kind, key: k}
		switch kind {
		case opCreate:
			o.val = pickVal()
			if out := model.Create(key, o.val); out.Kind == refstore.OK {
				revs[k] = append(revs[k], out.Rev)
			}
		case opUpdate:
			o.val = pickVal()
			last := model.LastRev(key)
			o.rev = last
			switch c := rng.Intn(100); {
			case c < 40: // latest revision of the key (0 if it has no message)
			case c < 55: // an older revision of the same key
				if len(revs[k]) > 1 {
					o.rev = revs[k][rng.Intn(len(revs[k])-1)]
				}
			case c < 65: // in the future
				o.rev = last + 1 + uint64(rng.Intn(3))
			case c < 77:
				o.rev = 0
			case c < 90: // revision of the key's most recent tombstone (current or stale)
				if len(tombs[k]) > 0 {
					o.rev = tombs[k][len(tombs[k])-1]
				}
			case c < 95: // the other key's latest revision
				if sq.nkeys > 1 {
					o.rev = model.LastRev(keyName(1 - k))
				}
			default: // last revision ever assigned; differs from "latest" only after expiry
				if len(revs[k]) > 0 {
					o.rev = revs[k][len(revs[k])-1]
				}
			}
			if out := model.Update(key, o.val, o.rev); out.Kind == refstore.OK {
				revs[k] = append(revs[k], out.Rev)
			}
		case opGet:
		case opDelete:
			out := model.Delete(key)
			revs[k] = append(revs[k], out.Rev)
			tombs[k] = append(tombs[k], out.Rev)
		case opWatchOpen:
			o.w = nextW
			nextW++
			open = append(open, o.w)
		case opWatchDrain:
			o.w = open[rng.Intn(len(open))]
			drains++
		case opWatchStop:
			i := rng.Intn(len(open))
			o.w = open[i]
			open = append(open[:i], open[i+1:]...)
		case opExpire:
			for j := 0; j < sq.nkeys; j++ {
				model.Expire(keyName(j))
			}
			expires++
			drains = 0
		}
		sq.ops = append(sq.ops, o)
	}
	// Epilogue: drain and stop whatever is still open.
	for _, w := range open {
		sq.ops = append(sq.ops, op{kind: opWatchDrain, w: w}, op{kind: opWatchStop, w: w})
	}
	return sq
}
