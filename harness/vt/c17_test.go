// Package vt holds the parts of the harness that need virtual time
// (testing/synctest); it is built as a test binary (go test -c) and driven through
// environment variables: VT_OUT (output file), VT_SEED, VT_N.
package vt

import (
	"bufio"
	"context"
	"errors"
	"fmt"
	"math"
	"math/big"
	"math/rand"
	"os"
	"strconv"
	"strings"
	"testing"
	"testing/synctest"
	"time"

	"github.com/ali-assar/NATS-Leader-Election/leader"
)

func envInt(name string, def int64) int64 {
	if v := os.Getenv(name); v != "" {
		if n, err := strconv.ParseInt(v, 10, 64); err == nil {
			return n
		}
	}
	return def
}

func ratOf(f float64) string {
	r := new(big.Rat)
	r.SetFloat64(f)
	return r.Num().String() + "/" + r.Denom().String()
}

func openOut(t *testing.T) (*bufio.Writer, func()) {
	path := os.Getenv("VT_OUT")
	if path == "" {
		t.Skip("VT_OUT not set")
	}
	f, err := os.Create(path)
	if err != nil {
		t.Fatal(err)
	}
	w := bufio.NewWriterSize(f, 1<<20)
	return w, func() { w.Flush(); f.Close() }
}

// TestC17 emits three kinds of lines:
//
//	B <init> <max> <mult n/d> <jitter n/d> <attempt> <result ns>            CalculateBackoff
//	K <thr> <cooldown> <n> {<dt> <fails> <res ok|err|rej> <invoked>}*n       CircuitBreaker.Call sequence
//	R <max> <init> <maxb> <mult n/d> <jit n/d> <cancel_before> <n> {<res o|p|t> <cancel_in_wait>}*n | <invocations> <result> {<wait ns>}*
func TestC17(t *testing.T) {
	w, done := openOut(t)
	defer done()
	seed := envInt("VT_SEED", 1)
	n := int(envInt("VT_N", 2000))
	r := rand.New(rand.NewSource(seed))

	inits := []time.Duration{0, 1, time.Millisecond, 50 * time.Millisecond, time.Second, time.Hour, math.MaxInt64 / 4}
	maxs := []time.Duration{0, 1, time.Millisecond, 5 * time.Second, time.Hour, math.MaxInt64 / 2, math.MaxInt64}
	mults := []float64{0, 0.5, 1, 1.5, 2, 10}
	jits := []float64{0, 0.1, 0.25, 0.5, 1}
	atts := []int{0, 1, 2, 3, 4, 5, 7, 10, 20, 40, 63, 64, 100, 1000, 1 << 20, 1 << 30, math.MaxInt32, math.MaxInt64}
	// --- CalculateBackoff: boundary lattice (every run) + random
	emitB := func(c leader.BackoffConfig, a int) {
		for k := 0; k < 3; k++ {
			res := leader.CalculateBackoff(c, a)
			fmt.Fprintf(w, "B %d %d %s %s %d %d\n", int64(c.InitialBackoff), int64(c.MaxBackoff), ratOf(c.BackoffMultiplier), ratOf(c.Jitter), a, int64(res))
		}
	}
	for _, i := range inits {
		for _, m := range maxs {
			for _, mu := range mults {
				for _, j := range jits {
					for _, a := range atts {
						if r.Intn(4) == 0 || os.Getenv("VT_EXHAUSTIVE") != "" {
							emitB(leader.BackoffConfig{InitialBackoff: i, MaxBackoff: m, BackoffMultiplier: mu, Jitter: j}, a)
						}
					}
				}
			}
		}
	}
	for k := 0; k < n; k++ {
		c := leader.BackoffConfig{InitialBackoff: time.Duration(r.Int63n(int64(10 * time.Second))), MaxBackoff: time.Duration(r.Int63n(int64(time.Minute))),
			BackoffMultiplier: float64(r.Intn(40)) / 8, Jitter: float64(r.Intn(9)) / 8}
		emitB(c, r.Intn(40))
	}
	emitB(leader.DefaultBackoffConfig(), 0)
	emitB(leader.DefaultBackoffConfig(), 3)

	// --- CircuitBreaker sequences under virtual time
	for k := 0; k < n/4+1; k++ {
		thr := 1 + r.Intn(4)
		cd := []time.Duration{time.Millisecond, 100 * time.Millisecond, time.Second}[r.Intn(3)]
		steps := 3 + r.Intn(14)
		var sb strings.Builder
		synctest.Test(t, func(t *testing.T) {
			cb := leader.NewCircuitBreaker(thr, cd)
			for s := 0; s < steps; s++ {
				var dt time.Duration
				switch r.Intn(5) {
				case 0:
					dt = cd
				case 1:
					dt = cd - 1
				case 2:
					dt = cd + 1
				case 3:
					dt = 0
				default:
					dt = time.Duration(r.Int63n(int64(2 * cd)))
				}
				time.Sleep(dt)
				fails := r.Intn(3) != 0
				invoked := 0
				err := cb.Call(func() error {
					invoked++
					if fails {
						return errors.New("boom")
					}
					return nil
				})
				res := "ok"
				if err != nil {
					if err.Error() == "circuit breaker is open" {
						res = "rej"
					} else {
						res = "err"
					}
				}
				fmt.Fprintf(&sb, " %d %d %s %d", int64(dt), b01(fails), res, invoked)
			}
		})
		fmt.Fprintf(w, "K %d %d %d%s\n", thr, int64(cd), steps, sb.String())
	}

	// --- RetryWithBackoff under virtual time
	for k := 0; k < n/4+1; k++ {
		maxA := r.Intn(6) // 0 = unbounded
		bc := leader.BackoffConfig{InitialBackoff: []time.Duration{time.Millisecond, 50 * time.Millisecond, time.Second}[r.Intn(3)],
			MaxBackoff: []time.Duration{5 * time.Millisecond, 5 * time.Second, time.Minute}[r.Intn(3)],
			BackoffMultiplier: []float64{1, 1.5, 2}[r.Intn(3)], Jitter: []float64{0, 0.1, 0.5}[r.Intn(3)]}
		steps := 1 + r.Intn(8)
		type st struct {
			res byte
			cw  bool
		}
		script := make([]st, steps)
		for s := range script {
			switch x := r.Intn(10); {
			case x < 6:
				script[s].res = 't'
			case x < 8:
				script[s].res = 'o'
			default:
				script[s].res = 'p'
			}
			script[s].cw = r.Intn(8) == 0
		}
		// the script always ends the loop: last entry is not a plain transient
		if script[steps-1].res == 't' && !script[steps-1].cw {
			script[steps-1].res = 'o'
		}
		cancelBefore := r.Intn(12) == 0
		var times []time.Duration
		var result string
		synctest.Test(t, func(t *testing.T) {
			ctx, cancel := context.WithCancel(context.Background())
			defer cancel()
			if cancelBefore {
				cancel()
			}
			start := time.Now()
			idx := 0
			err := leader.RetryWithBackoff(ctx, leader.RetryConfig{MaxAttempts: maxA, BackoffConfig: bc}, func() error {
				times = append(times, time.Since(start))
				if idx >= len(script) {
					idx++
					return nil // script exhausted (cannot happen: the script ends the loop)
				}
				s := script[idx]
				idx++
				if s.cw {
					cancel()
				}
				switch s.res {
				case 'o':
					return nil
				case 'p':
					return fmt.Errorf("store said: %w", leader.ErrPermissionDenied)
				default:
					return errors.New("connection lost")
				}
			})
			switch {
			case err == nil:
				result = "ok"
			case errors.Is(err, context.Canceled):
				result = "cancelled"
			case strings.HasPrefix(err.Error(), "max attempts"):
				result = "max"
			case errors.Is(err, leader.ErrPermissionDenied):
				result = "perm"
			default:
				result = "other"
			}
		})
		fmt.Fprintf(w, "R %d %d %d %s %s %d %d", maxA, int64(bc.InitialBackoff), int64(bc.MaxBackoff), ratOf(bc.BackoffMultiplier), ratOf(bc.Jitter), b01(cancelBefore), steps)
		for _, s := range script {
			fmt.Fprintf(w, " %c %d", s.res, b01(s.cw))
		}
		fmt.Fprintf(w, " | %d %s", len(times), result)
		for i := 1; i < len(times); i++ {
			fmt.Fprintf(w, " %d", int64(times[i]-times[i-1]))
		}
		fmt.Fprintln(w)
	}
}

func b01(b bool) int {
	if b {
		return 1
	}
	return 0
}
