// Package refstore is a small, deterministic, goroutine-free and time-free
// reference model of ONE JetStream KV bucket (history 1, optional bucket TTL)
// as it is observed THROUGH the library's adapter (natsKeyValueAdapter in
// /repo/leader/election.go, on top of nats.go v1.47.0 and nats-server v2.12.2).
//
// Every rule below was established experimentally against the embedded server
// (see ../natsdiff and its README.md); ../natsdiff checks this model against the
// real adapter step by step on random operation sequences.
//
// State of the model:
//
//   - seq: the bucket-wide (stream) last sequence. It only ever grows, by exactly
//     one for every successful Create, Update and EVERY Delete (also Delete of an
//     absent or already deleted key). Failed operations, Get, Watch and expiry do
//     not change it.
//   - last[key]: the last stored message of the key: its revision (= the value
//     of seq when it was written), its value, and whether it is a delete marker
//     (tombstone). No entry = the stream holds no message for that key (never
//     written, or aged out).
//   - watchers, in registration order, each with a FIFO of undelivered entries.
//
// Everything is deterministic. The two things the real system does on its own
// are explicit environment steps: Store.Expire (a message ages out) and
// Watcher.Drop (a not yet delivered, already overwritten revision is skipped by
// the server-side consumer: watch delivery is conflating, not lossless).
package refstore

import (
	"fmt"

	"github.com/nats-io/nats.go"
)

// Kind is the canonical outcome class of an operation.
type Kind int

const (
	OK           Kind = iota
	KeyExists         // Create on a key whose last message is a live value (also an EMPTY live value)
	WrongLastSeq      // Update whose expected revision differs from the key's last revision (0 if none)
	NotFound          // Get on a key that has no message, or whose last message is a tombstone
)

func (k Kind) String() string {
	switch k {
	case OK:
		return "ok"
	case KeyExists:
		return "keyexists"
	case WrongLastSeq:
		return "wronglastseq"
	case NotFound:
		return "notfound"
	}
	return "other"
}

// Outcome of Create/Update/Get/Delete.
//
// Rev: new revision for Create/Update/Delete(ok) (the adapter's Delete does not
// return it, but the server assigns it and watchers see it), entry revision for
// Get(ok); 0 for every failure. Value only for Get(ok) (non-nil, possibly empty).
type Outcome struct {
	Kind  Kind
	Rev   uint64
	Value []byte
}

// WEntry is one element delivered on a watcher's Updates() channel.
//
// Nil = the adapter delivered a nil Entry (nats.go's "initial values done"
// marker, exactly once per watcher). Every other delivery is a non-nil Entry.
// A deletion is delivered as a NON-nil entry with the tombstone's revision and
// an empty Value; through the adapter (Key/Value/Revision only, no Operation)
// it is indistinguishable from a Create/Update that stored an empty value.
type WEntry struct {
	Nil   bool
	Rev   uint64
	Value []byte
	T     int64 // when the entry was produced (Store.Now; 0 without a clock)
}

type msg struct {
	rev  uint64
	val  []byte
	tomb bool
}

// Store models one bucket.
type Store struct {
	seq      uint64
	last     map[string]msg
	watchers []*Watcher
	// Now, if set, stamps watch entries with the time they were produced
	Now func() int64
}

func (s *Store) now() int64 {
	if s.Now != nil {
		return s.Now()
	}
	return 0
}

// Watcher models one kv.Watch(key) as seen through natsWatcherAdapter.
//
// The undelivered non-nil entries are kept in data. The nil marker is not a
// queue element: nats.go emits it when the watcher is created if the key had no
// stored message at that moment (initPending 0), otherwise right after the
// FIRST entry it delivers (initPending 1), whichever revision that turns out to
// be (normally the value present at Watch time, but a later one if that was
// overwritten before the consumer delivered it, see Drop).
type Watcher struct {
	key         string
	data        []WEntry // undelivered non-nil entries, increasing revisions
	initPending int      // 0 or 1: entries to deliver before the marker
	delivered   int      // non-nil entries popped so far
	markerDue   bool     // the nil marker has not been popped yet
	stopped     bool
}

// New returns an empty bucket (sequence 0).
func New() *Store {
	return &Store{last: make(map[string]msg)}
}

func clone(b []byte) []byte {
	c := make([]byte, len(b))
	copy(c, b)
	return c
}

// Seq is the bucket-wide last sequence.
func (s *Store) Seq() uint64 { return s.seq }

// LastRev is the key's last revision as the server sees it: the revision of the
// last stored message of the key, tombstones included; 0 if the stream holds no
// message for the key (never written or aged out). It is the N of
// "wrong last sequence: N" and the only revision Update accepts.
func (s *Store) LastRev(key string) uint64 { return s.last[key].rev }

// Live reports whether Get(key) would succeed.
func (s *Store) Live(key string) bool {
	m, ok := s.last[key]
	return ok && !m.tomb
}

// Tombstoned reports whether the key's last stored message is a delete marker.
func (s *Store) Tombstoned(key string) bool {
	m, ok := s.last[key]
	return ok && m.tomb
}

func (s *Store) publish(key string, val []byte, tomb bool) uint64 {
	s.seq++
	m := msg{rev: s.seq, val: clone(val), tomb: tomb}
	s.last[key] = m // history 1: the previous message of the key is dropped
	for _, w := range s.watchers {
		if !w.stopped && w.key == key {
			w.data = append(w.data, WEntry{Rev: m.rev, Value: clone(m.val), T: s.now()})
		}
	}
	return m.rev
}

// Create succeeds iff the key has no message (never written / aged out) or its
// last message is a tombstone; otherwise KeyExists, also when the live value is
// empty. (nats.go: Update(rev 0); on failure read the last message and, if it is
// a tombstone, Update(tombstone revision). Sequentially this is atomic; under
// concurrency it is up to three round trips, see natsdiff/README.md.)
func (s *Store) Create(key string, val []byte) Outcome {
	if s.Live(key) {
		return Outcome{Kind: KeyExists}
	}
	return Outcome{Kind: OK, Rev: s.publish(key, val, false)}
}

// Update succeeds iff rev == LastRev(key). Consequences: rev 0 on a key without
// any message behaves like Create; the revision of a tombstone is accepted while
// the tombstone is the last message; after expiry only 0 is accepted. It never
// reports NotFound.
func (s *Store) Update(key string, val []byte, rev uint64) Outcome {
	if rev != s.LastRev(key) {
		return Outcome{Kind: WrongLastSeq}
	}
	return Outcome{Kind: OK, Rev: s.publish(key, val, false)}
}

// Get returns the live value, or NotFound for absent, deleted and expired keys
// alike (the adapter cannot tell them apart: always nats.ErrKeyNotFound).
func (s *Store) Get(key string) Outcome {
	m, ok := s.last[key]
	if !ok || m.tomb {
		return Outcome{Kind: NotFound}
	}
	return Outcome{Kind: OK, Rev: m.rev, Value: clone(m.val)}
}

// Delete ALWAYS succeeds and always appends a tombstone (new revision, watchers
// notified), also on absent, expired and already deleted keys. It is not
// revision-checked.
func (s *Store) Delete(key string) Outcome {
	return Outcome{Kind: OK, Rev: s.publish(key, nil, true)}
}

// Expire is the environment step "the key's stored message aged out" (bucket
// TTL = stream MaxAge). The message (live value OR tombstone: both age out the
// same way) silently disappears: no watch notification, the bucket sequence is
// unchanged, the key's last revision becomes 0. Afterwards Get is NotFound,
// Create and Update(rev 0) succeed with revision Seq()+1, and Update with the
// expired message's revision fails with "wrong last sequence: 0". No-op if the
// key has no message. Watcher queues are not touched: an entry that is already
// pending is still delivered (the model assumes the server-side consumer picked
// it up before it aged out, which takes milliseconds on a healthy connection).
func (s *Store) Expire(key string) {
	delete(s.last, key)
}

// Watch registers a watcher on exactly this key (no wildcards in the model).
// Its queue immediately holds what a fresh kv.Watch(key) delivers: the last
// stored message of the key if there is one (a tombstone is delivered too, as an
// entry with empty value), then the nil marker. With no message (absent or
// expired key): only the nil marker.
func (s *Store) Watch(key string) *Watcher {
	w := &Watcher{key: key, markerDue: true}
	if m, ok := s.last[key]; ok {
		w.data = append(w.data, WEntry{Rev: m.rev, Value: clone(m.val), T: s.now()})
		w.initPending = 1
	}
	s.watchers = append(s.watchers, w)
	return w
}

// Key the watcher is registered on.
func (w *Watcher) Key() string { return w.key }

// Stopped reports whether Stop was called.
func (w *Watcher) Stopped() bool { return w.stopped }

// markerPos is the index in data before which the nil marker is delivered, or
// -1 if the marker is not deliverable in the current state (already delivered,
// or still waiting for a first entry that is not there).
func (w *Watcher) markerPos() int {
	if !w.markerDue {
		return -1
	}
	need := w.initPending - w.delivered
	if need < 0 {
		need = 0
	}
	if need > len(w.data) {
		return -1
	}
	return need
}

// Pending returns the undelivered entries in delivery order (deep copy),
// assuming no (further) entry is dropped.
func (w *Watcher) Pending() []WEntry {
	out := make([]WEntry, 0, len(w.data)+1)
	mp := w.markerPos()
	for i, e := range w.data {
		if i == mp {
			out = append(out, WEntry{Nil: true})
		}
		out = append(out, WEntry{Rev: e.Rev, Value: clone(e.Value)})
	}
	if mp == len(w.data) {
		out = append(out, WEntry{Nil: true})
	}
	return out
}

// Pop removes and returns the next undelivered entry.
func (w *Watcher) Pop() (WEntry, bool) {
	mp := w.markerPos()
	if mp == 0 {
		w.markerDue = false
		return WEntry{Nil: true}, true
	}
	if len(w.data) == 0 {
		return WEntry{}, false
	}
	e := w.data[0]
	w.data = w.data[1:]
	w.delivered++
	return e, true
}

// Drop is the environment step "conflation": the undelivered entry with
// revision rev is never delivered, because (history 1) the message was
// overwritten by a later write to the key before the server-side consumer got
// to it. It is legal, and returns true, only if the entry is pending and a LATER
// entry is pending behind it: the newest revision is never lost. Consequences
// observed on the real adapter: a slow or late consumer sees an increasing
// subsequence of the key's revisions that always ends with the newest one; if
// the value present at Watch time is dropped, the next delivered entry takes its
// place in front of the nil marker.
func (w *Watcher) Drop(rev uint64) bool {
	for i, e := range w.data {
		if e.Rev == rev {
			if i == len(w.data)-1 {
				return false
			}
			w.data = append(w.data[:i:i], w.data[i+1:]...)
			return true
		}
	}
	return false
}

// Stop ends the watch: nothing is queued any more. Entries still pending are
// kept: the real adapter may still hand out some PREFIX of them before its
// channel is closed (then receives yield (nil, false)).
func (w *Watcher) Stop() { w.stopped = true }

// WrongLastSequence builds the API error nats.go returns for a failed
// revision check; lastSeq is the key's last revision on the server (LastRev).
func WrongLastSequence(lastSeq uint64) *nats.APIError {
	return &nats.APIError{
		Code:        400,
		ErrorCode:   nats.JSErrCodeStreamWrongLastSequence, // 10071
		Description: fmt.Sprintf("wrong last sequence: %d", lastSeq),
	}
}

// ErrFor reproduces the error value the real client returns through the adapter.
// op is one of "create", "update", "get", "delete"; lastSeq is LastRev(key) at
// the time of the operation (the N of "wrong last sequence: N").
//
//	OK            nil
//	KeyExists     *fmt.wrapError  "nats: wrong last sequence: N: key exists", wrapping the *nats.APIError below
//	              (only Create produces it)
//	WrongLastSeq  *nats.APIError{Code 400, ErrorCode 10071, Description "wrong last sequence: N"},
//	              Error() = "nats: wrong last sequence: N" (Update; N = 0 when the key has no message)
//	NotFound      nats.ErrKeyNotFound itself (*errors.errorString "nats: key not found"); only Get
//	              produces it, for absent, deleted and expired keys alike (never nats.ErrKeyDeleted)
//
// errors.Is(err, nats.ErrKeyExists) is true for BOTH KeyExists and WrongLastSeq
// (APIError.Is compares only the ErrorCode 10071). Delete never fails for
// store-level reasons. The function is total: the result depends on the kind,
// op only documents the caller's situation (Possible tells which pairs occur).
func ErrFor(k Kind, op string, lastSeq uint64) error {
	switch k {
	case OK:
		return nil
	case KeyExists:
		return fmt.Errorf("%w: %s", WrongLastSequence(lastSeq), "key exists")
	case WrongLastSeq:
		return WrongLastSequence(lastSeq)
	case NotFound:
		return nats.ErrKeyNotFound
	}
	return fmt.Errorf("refstore: unknown outcome kind %d for %s", int(k), op)
}

// Possible reports whether the (kind, op) pair can be observed on the real
// adapter in a sequential execution.
func Possible(k Kind, op string) bool {
	switch op {
	case "create":
		return k == OK || k == KeyExists
	case "update":
		return k == OK || k == WrongLastSeq
	case "get":
		return k == OK || k == NotFound
	case "delete":
		return k == OK
	}
	return false
}
