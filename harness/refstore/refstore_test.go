package refstore

import (
	"errors"
	"fmt"
	"testing"

	"github.com/nats-io/nats.go"
)

// step is one operation of a scripted scenario together with the outcome that
// was observed on the real adapter (see ../natsdiff/README.md).
type step struct {
	op   string // create update get delete expire
	key  string
	val  string
	rev  uint64
	kind Kind
	out  uint64 // expected Outcome.Rev
	get  string // expected value for get
}

func run(t *testing.T, s *Store, steps []step) {
	t.Helper()
	for i, st := range steps {
		var o Outcome
		switch st.op {
		case "create":
			o = s.Create(st.key, []byte(st.val))
		case "update":
			o = s.Update(st.key, []byte(st.val), st.rev)
		case "get":
			o = s.Get(st.key)
		case "delete":
			o = s.Delete(st.key)
		case "expire":
			s.Expire(st.key)
			continue
		default:
			t.Fatalf("step %d: bad op %q", i, st.op)
		}
		if o.Kind != st.kind || o.Rev != st.out {
			t.Fatalf("step %d %s(%s): got %v rev %d, want %v rev %d", i, st.op, st.key, o.Kind, o.Rev, st.kind, st.out)
		}
		if st.op == "get" && o.Kind == OK && string(o.Value) != st.get {
			t.Fatalf("step %d get(%s): got %q want %q", i, st.key, o.Value, st.get)
		}
		if !Possible(o.Kind, st.op) {
			t.Fatalf("step %d: outcome %v not possible for %s", i, o.Kind, st.op)
		}
	}
}

func TestScenarios(t *testing.T) {
	tests := []struct {
		name  string
		steps []step
		seq   uint64
	}{
		{"absent key", []step{
			{op: "get", key: "a", kind: NotFound},
			{op: "update", key: "a", val: "x", rev: 5, kind: WrongLastSeq},
			{op: "update", key: "a", val: "x", rev: 0, kind: OK, out: 1}, // Update(0) on absent key creates
			{op: "update", key: "a", val: "y", rev: 0, kind: WrongLastSeq},
			{op: "create", key: "a", val: "z", kind: KeyExists},
			{op: "get", key: "a", kind: OK, out: 1, get: "x"},
		}, 1},
		{"delete absent writes a tombstone", []step{
			{op: "delete", key: "a", kind: OK, out: 1},
			{op: "get", key: "a", kind: NotFound},
			{op: "delete", key: "a", kind: OK, out: 2},
			{op: "update", key: "a", val: "v", rev: 0, kind: WrongLastSeq}, // tombstone has revision 2
			{op: "update", key: "a", val: "v", rev: 1, kind: WrongLastSeq},
			{op: "update", key: "a", val: "v", rev: 2, kind: OK, out: 3}, // tombstone revision accepted
			{op: "delete", key: "a", kind: OK, out: 4},
			{op: "create", key: "a", val: "w", kind: OK, out: 5}, // create over tombstone
			{op: "get", key: "a", kind: OK, out: 5, get: "w"},
		}, 5},
		{"revisions are bucket wide", []step{
			{op: "create", key: "a", val: "1", kind: OK, out: 1},
			{op: "create", key: "b", val: "1", kind: OK, out: 2},
			{op: "update", key: "a", val: "2", rev: 1, kind: OK, out: 3},
			{op: "update", key: "b", val: "2", rev: 3, kind: WrongLastSeq}, // a's revision is not b's
			{op: "update", key: "b", val: "2", rev: 2, kind: OK, out: 4},
			{op: "update", key: "a", val: "3", rev: 1, kind: WrongLastSeq}, // stale
			{op: "update", key: "a", val: "3", rev: 9, kind: WrongLastSeq}, // future
			{op: "get", key: "a", kind: OK, out: 3, get: "2"},
		}, 4},
		{"empty values are live values", []step{
			{op: "create", key: "e", val: "", kind: OK, out: 1},
			{op: "get", key: "e", kind: OK, out: 1, get: ""},
			{op: "create", key: "e", val: "q", kind: KeyExists},
			{op: "update", key: "e", val: "", rev: 1, kind: OK, out: 2},
			{op: "get", key: "e", kind: OK, out: 2, get: ""},
		}, 2},
		{"expiry of a live value", []step{
			{op: "create", key: "k", val: "v", kind: OK, out: 1},
			{op: "expire", key: "k"},
			{op: "get", key: "k", kind: NotFound},
			{op: "update", key: "k", val: "x", rev: 1, kind: WrongLastSeq}, // "wrong last sequence: 0"
			{op: "update", key: "k", val: "x", rev: 0, kind: OK, out: 2},   // sequence keeps counting
			{op: "expire", key: "k"},
			{op: "create", key: "k", val: "y", kind: OK, out: 3},
		}, 3},
		{"expiry of a tombstone", []step{
			{op: "create", key: "k", val: "v", kind: OK, out: 1},
			{op: "delete", key: "k", kind: OK, out: 2},
			{op: "expire", key: "k"},
			{op: "update", key: "k", val: "x", rev: 2, kind: WrongLastSeq},
			{op: "delete", key: "k", kind: OK, out: 3},
			{op: "create", key: "k", val: "z", kind: OK, out: 4},
			{op: "expire", key: "other"}, // no-op
			{op: "get", key: "k", kind: OK, out: 4, get: "z"},
		}, 4},
	}
	for _, tc := range tests {
		t.Run(tc.name, func(t *testing.T) {
			s := New()
			run(t, s, tc.steps)
			if s.Seq() != tc.seq {
				t.Fatalf("Seq() = %d, want %d", s.Seq(), tc.seq)
			}
		})
	}
}

func show(es []WEntry) string {
	out := ""
	for _, e := range es {
		if e.Nil {
			out += " nil"
		} else {
			out += fmt.Sprintf(" %d:%q", e.Rev, e.Value)
		}
	}
	return out
}

func TestWatch(t *testing.T) {
	s := New()
	w1 := s.Watch("k") // absent: only the marker
	if got := show(w1.Pending()); got != " nil" {
		t.Fatalf("w1 initial:%s", got)
	}
	s.Create("k", []byte("one"))    // 1
	s.Create("other", []byte("o"))  // 2, not for w1
	s.Update("k", []byte{}, 1)      // 3, empty value
	s.Delete("k")                   // 4
	s.Delete("k")                   // 5, again
	s.Update("k", []byte("bad"), 4) // fails, no event
	s.Create("k", []byte("two"))    // 6
	if got, want := show(w1.Pending()), ` nil 1:"one" 3:"" 4:"" 5:"" 6:"two"`; got != want {
		t.Fatalf("w1:%s want%s", got, want)
	}
	w2 := s.Watch("k") // present: value then marker
	if got, want := show(w2.Pending()), ` 6:"two" nil`; got != want {
		t.Fatalf("w2 initial:%s want%s", got, want)
	}
	s.Delete("k")      // 7
	w3 := s.Watch("k") // tombstone: delivered as an entry, then marker
	if got, want := show(w3.Pending()), ` 7:"" nil`; got != want {
		t.Fatalf("w3 initial:%s want%s", got, want)
	}
	if got, want := show(w2.Pending()), ` 6:"two" nil 7:""`; got != want {
		t.Fatalf("w2:%s want%s", got, want)
	}
	w2.Stop()
	s.Create("k", []byte("three")) // 8
	if got, want := show(w2.Pending()), ` 6:"two" nil 7:""`; got != want {
		t.Fatalf("w2 after stop:%s want%s", got, want)
	}
	s.Expire("k") // silent
	if got, want := show(w3.Pending()), ` 7:"" nil 8:"three"`; got != want {
		t.Fatalf("w3:%s want%s", got, want)
	}
	w4 := s.Watch("k") // expired: only the marker
	if got := show(w4.Pending()); got != " nil" {
		t.Fatalf("w4 initial:%s", got)
	}
	if e, ok := w4.Pop(); !ok || !e.Nil {
		t.Fatalf("pop: %v %v", e, ok)
	}
	if _, ok := w4.Pop(); ok {
		t.Fatalf("pop on empty queue")
	}
	s.Update("k", []byte("x"), 0) // 9
	if got, want := show(w4.Pending()), ` 9:"x"`; got != want {
		t.Fatalf("w4:%s want%s", got, want)
	}
	if s.Seq() != 9 {
		t.Fatalf("seq %d", s.Seq())
	}
}

func TestDrop(t *testing.T) {
	s := New()
	s.Create("k", []byte("a")) // 1
	w := s.Watch("k")          // [1 nil]
	if w.Drop(1) {
		t.Fatalf("the newest entry must not be droppable")
	}
	s.Update("k", []byte("b"), 1) // 2
	s.Delete("k")                 // 3
	s.Create("k", []byte("c"))    // 4
	if got, want := show(w.Pending()), ` 1:"a" nil 2:"b" 3:"" 4:"c"`; got != want {
		t.Fatalf("pending:%s want%s", got, want)
	}
	// The value present at Watch time is overwritten before delivery: the next
	// delivered entry takes its place in front of the marker.
	if !w.Drop(1) || !w.Drop(3) {
		t.Fatalf("drop of superseded entries refused")
	}
	if w.Drop(3) || w.Drop(4) || w.Drop(9) {
		t.Fatalf("illegal drop accepted")
	}
	if got, want := show(w.Pending()), ` 2:"b" nil 4:"c"`; got != want {
		t.Fatalf("pending after drops:%s want%s", got, want)
	}
	for _, want := range []string{` 2:"b"`, ` nil`, ` 4:"c"`} {
		e, ok := w.Pop()
		if !ok || show([]WEntry{e}) != want {
			t.Fatalf("pop: got%s want%s", show([]WEntry{e}), want)
		}
	}
	if _, ok := w.Pop(); ok {
		t.Fatalf("pop on empty queue")
	}
	// Absent at Watch time: marker first, regardless of later drops.
	w2 := s.Watch("other")
	s.Create("other", []byte("x")) // 5
	s.Delete("other")              // 6
	if !w2.Drop(5) {
		t.Fatalf("drop refused")
	}
	if got, want := show(w2.Pending()), ` nil 6:""`; got != want {
		t.Fatalf("w2:%s want%s", got, want)
	}
}

func TestErrFor(t *testing.T) {
	tests := []struct {
		k       Kind
		op      string
		last    uint64
		typ     string
		text    string
		exists  bool
		missing bool
		api     bool
	}{
		{OK, "create", 0, "<nil>", "", false, false, false},
		{KeyExists, "create", 2, "*fmt.wrapError", "nats: wrong last sequence: 2: key exists", true, false, true},
		{WrongLastSeq, "update", 4, "*nats.APIError", "nats: wrong last sequence: 4", true, false, true},
		{WrongLastSeq, "update", 0, "*nats.APIError", "nats: wrong last sequence: 0", true, false, true},
		{NotFound, "get", 0, "*errors.errorString", "nats: key not found", false, true, false},
	}
	for _, tc := range tests {
		err := ErrFor(tc.k, tc.op, tc.last)
		if got := fmt.Sprintf("%T", err); got != tc.typ {
			t.Errorf("%v/%s: type %s want %s", tc.k, tc.op, got, tc.typ)
		}
		if err == nil {
			continue
		}
		if err.Error() != tc.text {
			t.Errorf("%v/%s: text %q want %q", tc.k, tc.op, err.Error(), tc.text)
		}
		if errors.Is(err, nats.ErrKeyExists) != tc.exists || errors.Is(err, nats.ErrKeyNotFound) != tc.missing || errors.Is(err, nats.ErrKeyDeleted) {
			t.Errorf("%v/%s: errors.Is mismatch", tc.k, tc.op)
		}
		var ae *nats.APIError
		if errors.As(err, &ae) != tc.api {
			t.Errorf("%v/%s: errors.As(*APIError) = %v", tc.k, tc.op, !tc.api)
		}
		if tc.api && (ae.Code != 400 || ae.ErrorCode != 10071 || ae.Description != fmt.Sprintf("wrong last sequence: %d", tc.last)) {
			t.Errorf("%v/%s: api error %+v", tc.k, tc.op, ae)
		}
	}
	if ErrFor(NotFound, "get", 7) != nats.ErrKeyNotFound {
		t.Errorf("NotFound must be the sentinel itself")
	}
}
