module verif/harness

go 1.25.4

require (
	github.com/ali-assar/NATS-Leader-Election v0.0.0
	github.com/nats-io/nats-server/v2 v2.12.2
	github.com/nats-io/nats.go v1.47.0
	github.com/prometheus/client_golang v1.23.2
	go.uber.org/zap v1.27.1
)

require (
	github.com/antithesishq/antithesis-sdk-go v0.4.3-default-no-op // indirect
	github.com/beorn7/perks v1.0.1 // indirect
	github.com/cespare/xxhash/v2 v2.3.0 // indirect
	github.com/google/uuid v1.6.0 // indirect
	github.com/klauspost/compress v1.18.1 // indirect
	github.com/minio/highwayhash v1.0.4-0.20251030100505-070ab1a87a76 // indirect
	github.com/munnerz/goautoneg v0.0.0-20191010083416-a7dc8b61c822 // indirect
	github.com/nats-io/jwt/v2 v2.8.0 // indirect
	github.com/nats-io/nkeys v0.4.11 // indirect
	github.com/nats-io/nuid v1.0.1 // indirect
	github.com/prometheus/client_model v0.6.2 // indirect
	github.com/prometheus/common v0.66.1 // indirect
	github.com/prometheus/procfs v0.16.1 // indirect
	go.uber.org/multierr v1.10.0 // indirect
	go.yaml.in/yaml/v2 v2.4.2 // indirect
	golang.org/x/crypto v0.43.0 // indirect
	golang.org/x/sys v0.38.0 // indirect
	golang.org/x/time v0.14.0 // indirect
	google.golang.org/protobuf v1.36.8 // indirect
)

replace github.com/ali-assar/NATS-Leader-Election => /repo
