package main

import (
	"fmt"

	"github.com/ali-assar/NATS-Leader-Election/leader"
)

func main() {
	fmt.Println(leader.IsPermanentError(nil), leader.StateLeader)
}
