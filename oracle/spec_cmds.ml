(* spec_cmds.ml — commands that need only the hand-written specifications:
   implementation results are compared with the executable specification. An optional
   [model] (the definition regenerated from the source) is compared too when given. *)
module BZ = Z
open Extracted
open Util

let max_report = 20

(* ---- C16 ----  line: bucket group id ttl hb valint grace maxfail prio takeover result provider_calls *)
let c16 ?(model : (econfig -> Extracted.string option) option) (path : ostring) (mm : ostring) : unit =
  let oc = open_out mm in
  let n = ref 0 and bad_gen = ref 0 and bad_spec = ref 0 and bad_calls = ref 0 and spec_checked = ref 0 in
  let classes = Hashtbl.create 16 in
  let two61 = BZ.shift_left BZ.one 61 in
  iter_lines path (fun _ line ->
      let f = fields line in
      if Array.length f = 12 then begin
        incr n;
        let s i = coqstring_of_string (unhex f.(i)) in
        let zf i = coqz_of_string f.(i) in
        let cfg = { c_Bucket = s 0; c_Group = s 1; c_InstanceID = s 2; c_TTL = zf 3;
                    c_HeartbeatInterval = zf 4; c_ValidationInterval = zf 5;
                    c_DisconnectGracePeriod = zf 6; c_MaxConsecutiveFailures = zf 7;
                    c_Priority = zf 8; c_AllowPriorityTakeover = (f.(9) = "1") } in
        let impl = f.(10) in
        Hashtbl.replace classes impl (1 + try Hashtbl.find classes impl with Not_found -> 0);
        (match model with
         | None -> ()
         | Some vc ->
           let m = match vc cfg with None -> "ok" | Some fld -> "F:" ^ string_of_coqstring fld in
           if m <> impl then begin
             incr bad_gen;
             if !bad_gen <= max_report then Printf.fprintf oc "GEN %s | model=%s\n" line m
           end);
        if BZ.leq (BZ.abs (BZ.of_string f.(4))) two61 then begin
          incr spec_checked;
          let spec_ok = valid_specb cfg in
          if spec_ok <> (impl = "ok") then begin
            incr bad_spec;
            if !bad_spec <= max_report then Printf.fprintf oc "SPEC %s | spec_accepts=%b\n" line spec_ok
          end
        end;
        if impl <> "ok" && f.(11) <> "0" then begin
          incr bad_calls;
          if !bad_calls <= max_report then Printf.fprintf oc "CALLS %s\n" line
        end
      end);
  close_out oc;
  let cls = Hashtbl.fold (fun k v acc -> Printf.sprintf "\"%s\":%d" (json_escape k) v :: acc) classes [] in
  Printf.printf "{\"cases\":%d,\"gen_mismatch\":%d,\"spec_checked\":%d,\"spec_violation\":%d,\"calls_violation\":%d,\"classes\":{%s}}\n"
    !n !bad_gen !spec_checked !bad_spec !bad_calls (Stdlib.String.concat "," (List.sort compare cls))

(* ---- C15 ----  line: <serialised error> | <Error() hex> <perm> <trans>
   or: NIL | - perm trans ; or: N <situation> <texthex> <flags> perm trans *)
let parse_err (toks : ostring array) : err option =
  let pos = ref 0 in
  let next () = let t = toks.(!pos) in incr pos; t in
  let cs h = coqstring_of_string (unhex h) in
  let rec value () : err =
    match next () with
    | "P" -> EPlain (cs (next ()))
    | "S" ->
      let t = next () in
      (match t with
       | "c" -> ESent SCanceled | "d" -> ESent SDeadline | "i" -> ESent SInvalidConfig
       | "p" -> ESent SPermissionDenied | "b" -> ESent SBucketNotFound
       | _ -> ESent (SOther (cs (Stdlib.String.sub t 2 (Stdlib.String.length t - 2)))))
    | "W" -> let pre = cs (next ()) in let post = cs (next ()) in let i = value () in EWrap (pre, i, post)
    | "T" -> let op = cs (next ()) in let d = cs (next ()) in let i = opt () in ETimeout (op, d, i)
    | "E" -> let a = cs (next ()) in let b = cs (next ()) in let c = cs (next ()) in let i = opt () in EElection (a, b, c, i)
    | "K" -> let a = cs (next ()) in let b = cs (next ()) in let c = cs (next ()) in let i = opt () in ETokenVal (a, b, c, i)
    | "V" ->
      let f = cs (next ()) in
      let v = (match next () with "1" -> Some (cs (next ())) | _ -> None) in
      let r = cs (next ()) in
      let i = opt () in
      EValidation (f, v, r, i)
    | t -> failwith ("bad error token " ^ t)
  and opt () : err option = match next () with "1" -> Some (value ()) | _ -> None in
  if toks.(0) = "NIL" then None else Some (value ())

let c15 ?(model : ((err option -> bool) * (err option -> bool)) option) (path : ostring) (mm : ostring) : unit =
  let oc = open_out mm in
  let n = ref 0 and bad_gen = ref 0 and bad_spec = ref 0 and bad_text = ref 0 and nats = ref 0 and bad_nats = ref 0 in
  let classes = Hashtbl.create 16 in
  let bump k = Hashtbl.replace classes k (1 + try Hashtbl.find classes k with Not_found -> 0) in
  iter_lines path (fun _ line ->
      match Stdlib.String.index_opt line '|' with
      | None ->
        let f = fields line in
        if Array.length f = 6 && f.(0) = "N" then begin
          (* NATS sentinel: representable as plain text only if no errors.Is / errors.As flag is set *)
          incr nats;
          let e = Some (EPlain (coqstring_of_string (unhex f.(2)))) in
          if f.(3) <> "000000" then begin
            incr bad_nats; Printf.fprintf oc "NATSREP %s\n" line
          end;
          let perm = f.(4) = "1" and trans = f.(5) = "1" in
          (match model with
           | Some (ip, it) ->
             if ip e <> perm || it e <> trans then begin incr bad_gen; Printf.fprintf oc "GEN %s | model=%b,%b\n" line (ip e) (it e) end
           | None -> ());
          (match nats_situation_permanent (coqstring_of_string f.(1)) with
           | Some p -> if perm <> p || trans <> not p then begin incr bad_spec; Printf.fprintf oc "SPEC %s | nats situation must be permanent=%b\n" line p end
           | None -> ())
        end
      | Some bar ->
        incr n;
        let lhs = fields (Stdlib.String.sub line 0 bar) in
        let rhs = fields (Stdlib.String.sub line (bar + 1) (Stdlib.String.length line - bar - 1)) in
        let oe = parse_err lhs in
        let perm = rhs.(1) = "1" and trans = rhs.(2) = "1" in
        (match oe with
         | Some e ->
           let m = string_of_coqstring (msg e) in
           if m <> unhex rhs.(0) then begin
             incr bad_text;
             if !bad_text <= max_report then Printf.fprintf oc "TEXT %s | model-text=%s\n" line (hex m)
           end;
           let k = (match required_class e with Some true -> "must-permanent" | Some false -> "must-transient" | None -> "free")
                   ^ (if perm then "/perm" else "/trans") in
           bump k
         | None -> bump "nil");
        (match model with
         | Some (ip, it) ->
           if ip oe <> perm || it oe <> trans then begin
             incr bad_gen;
             if !bad_gen <= max_report then Printf.fprintf oc "GEN %s | model=%b,%b\n" line (ip oe) (it oe)
           end
         | None -> ());
        if not (class_ok oe perm trans) then begin
          incr bad_spec;
          if !bad_spec <= max_report then Printf.fprintf oc "SPEC %s | classification (perm=%b, trans=%b) not allowed by the property\n" line perm trans
        end);
  close_out oc;
  let cls = Hashtbl.fold (fun k v acc -> Printf.sprintf "\"%s\":%d" (json_escape k) v :: acc) classes [] in
  Printf.printf "{\"cases\":%d,\"gen_mismatch\":%d,\"text_mismatch\":%d,\"spec_violation\":%d,\"nats_values\":%d,\"nats_unrepresentable\":%d,\"classes\":{%s}}\n"
    !n !bad_gen !bad_text !bad_spec !nats !bad_nats (Stdlib.String.concat "," (List.sort compare cls))
