(* spec_cmds.ml — commands that need only the hand-written specifications:
   implementation results are compared with the executable specification. An optional
   [model] (the definition regenerated from the source) is compared too when given. *)
module BZ = Z
open Extracted
open Util

let max_report = 20

(* ---- C16 ----  line: bucket group id ttl hb valint grace maxfail prio takeover result provider_calls *)
let c16 ?(model : (econfig -> Extracted.string option) option) (path : ostring) (mm : ostring) : unit =
  let oc = open_out mm in
  let n = ref 0 and bad_gen = ref 0 and bad_spec = ref 0 and bad_calls = ref 0 and spec_checked = ref 0 in
  let classes = Hashtbl.create 16 in
  let two61 = BZ.shift_left BZ.one 61 in
  iter_lines path (fun _ line ->
      let f = fields line in
      if Array.length f = 12 then begin
        incr n;
        let s i = coqstring_of_string (unhex f.(i)) in
        let zf i = coqz_of_string f.(i) in
        let cfg = { c_Bucket = s 0; c_Group = s 1; c_InstanceID = s 2; c_TTL = zf 3;
                    c_HeartbeatInterval = zf 4; c_ValidationInterval = zf 5;
                    c_DisconnectGracePeriod = zf 6; c_MaxConsecutiveFailures = zf 7;
                    c_Priority = zf 8; c_AllowPriorityTakeover = (f.(9) = "1") } in
        let impl = f.(10) in
        Hashtbl.replace classes impl (1 + try Hashtbl.find classes impl with Not_found -> 0);
        (match model with
         | None -> ()
         | Some vc ->
           let m = match vc cfg with None -> "ok" | Some fld -> "F:" ^ string_of_coqstring fld in
           if m <> impl then begin
             incr bad_gen;
             if !bad_gen <= max_report then Printf.fprintf oc "GEN %s | model=%s\n" line m
           end);
        if BZ.leq (BZ.abs (BZ.of_string f.(4))) two61 then begin
          incr spec_checked;
          let spec_ok = valid_specb cfg in
          if spec_ok <> (impl = "ok") then begin
            incr bad_spec;
            if !bad_spec <= max_report then Printf.fprintf oc "SPEC %s | spec_accepts=%b\n" line spec_ok
          end
        end;
        if impl <> "ok" && f.(11) <> "0" then begin
          incr bad_calls;
          if !bad_calls <= max_report then Printf.fprintf oc "CALLS %s\n" line
        end
      end);
  close_out oc;
  let cls = Hashtbl.fold (fun k v acc -> Printf.sprintf "\"%s\":%d" (json_escape k) v :: acc) classes [] in
  Printf.printf "{\"cases\":%d,\"gen_mismatch\":%d,\"spec_checked\":%d,\"spec_violation\":%d,\"calls_violation\":%d,\"classes\":{%s}}\n"
    !n !bad_gen !spec_checked !bad_spec !bad_calls (Stdlib.String.concat "," (List.sort compare cls))
