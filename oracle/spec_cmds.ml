(* spec_cmds.ml — commands that need only the hand-written specifications:
   implementation results are compared with the executable specification. An optional
   [model] (the definition regenerated from the source) is compared too when given. *)
module BZ = Z
open Extracted
open Util

let max_report = 20

(* ---- C16 ----  line: bucket group id ttl hb valint grace maxfail prio takeover result provider_calls *)
let c16 ?(model : (econfig -> Extracted.string option) option) (path : ostring) (mm : ostring) : unit =
  let oc = open_out mm in
  let n = ref 0 and bad_gen = ref 0 and bad_spec = ref 0 and bad_calls = ref 0 and spec_checked = ref 0 in
  let classes = Hashtbl.create 16 in
  let two61 = BZ.shift_left BZ.one 61 in
  iter_lines path (fun _ line ->
      let f = fields line in
      if Array.length f = 12 then begin
        incr n;
        let s i = coqstring_of_string (unhex f.(i)) in
        let zf i = coqz_of_string f.(i) in
        let cfg = { c_Bucket = s 0; c_Group = s 1; c_InstanceID = s 2; c_TTL = zf 3;
                    c_HeartbeatInterval = zf 4; c_ValidationInterval = zf 5;
                    c_DisconnectGracePeriod = zf 6; c_MaxConsecutiveFailures = zf 7;
                    c_Priority = zf 8; c_AllowPriorityTakeover = (f.(9) = "1") } in
        let impl = f.(10) in
        Hashtbl.replace classes impl (1 + try Hashtbl.find classes impl with Not_found -> 0);
        (match model with
         | None -> ()
         | Some vc ->
           let m = match vc cfg with None -> "ok" | Some fld -> "F:" ^ string_of_coqstring fld in
           if m <> impl then begin
             incr bad_gen;
             if !bad_gen <= max_report then Printf.fprintf oc "GEN %s | model=%s\n" line m
           end);
        if BZ.leq (BZ.abs (BZ.of_string f.(4))) two61 then begin
          incr spec_checked;
          let spec_ok = valid_specb cfg in
          if spec_ok <> (impl = "ok") then begin
            incr bad_spec;
            if !bad_spec <= max_report then Printf.fprintf oc "SPEC %s | spec_accepts=%b\n" line spec_ok
          end
        end;
        if impl <> "ok" && f.(11) <> "0" then begin
          incr bad_calls;
          if !bad_calls <= max_report then Printf.fprintf oc "CALLS %s\n" line
        end
      end);
  close_out oc;
  let cls = Hashtbl.fold (fun k v acc -> Printf.sprintf "\"%s\":%d" (json_escape k) v :: acc) classes [] in
  Printf.printf "{\"cases\":%d,\"gen_mismatch\":%d,\"spec_checked\":%d,\"spec_violation\":%d,\"calls_violation\":%d,\"classes\":{%s}}\n"
    !n !bad_gen !spec_checked !bad_spec !bad_calls (Stdlib.String.concat "," (List.sort compare cls))

(* ---- C15 ----  line: <serialised error> | <Error() hex> <perm> <trans>
   or: NIL | - perm trans ; or: N <situation> <texthex> <flags> perm trans *)
let parse_err (toks : ostring array) : err option =
  let pos = ref 0 in
  let next () = let t = toks.(!pos) in incr pos; t in
  let cs h = coqstring_of_string (unhex h) in
  let rec value () : err =
    match next () with
    | "P" -> EPlain (cs (next ()))
    | "S" ->
      let t = next () in
      (match t with
       | "c" -> ESent SCanceled | "d" -> ESent SDeadline | "i" -> ESent SInvalidConfig
       | "p" -> ESent SPermissionDenied | "b" -> ESent SBucketNotFound
       | _ -> ESent (SOther (cs (Stdlib.String.sub t 2 (Stdlib.String.length t - 2)))))
    | "W" -> let pre = cs (next ()) in let post = cs (next ()) in let i = value () in EWrap (pre, i, post)
    | "T" -> let op = cs (next ()) in let d = cs (next ()) in let i = opt () in ETimeout (op, d, i)
    | "E" -> let a = cs (next ()) in let b = cs (next ()) in let c = cs (next ()) in let i = opt () in EElection (a, b, c, i)
    | "K" -> let a = cs (next ()) in let b = cs (next ()) in let c = cs (next ()) in let i = opt () in ETokenVal (a, b, c, i)
    | "V" ->
      let f = cs (next ()) in
      let v = (match next () with "1" -> Some (cs (next ())) | _ -> None) in
      let r = cs (next ()) in
      let i = opt () in
      EValidation (f, v, r, i)
    | t -> failwith ("bad error token " ^ t)
  and opt () : err option = match next () with "1" -> Some (value ()) | _ -> None in
  if toks.(0) = "NIL" then None else Some (value ())

let c15 ?(model : ((err option -> bool) * (err option -> bool)) option) (path : ostring) (mm : ostring) : unit =
  let oc = open_out mm in
  let n = ref 0 and bad_gen = ref 0 and bad_spec = ref 0 and bad_text = ref 0 and nats = ref 0 and bad_nats = ref 0 in
  let classes = Hashtbl.create 16 in
  let bump k = Hashtbl.replace classes k (1 + try Hashtbl.find classes k with Not_found -> 0) in
  iter_lines path (fun _ line ->
      match Stdlib.String.index_opt line '|' with
      | None ->
        let f = fields line in
        if Array.length f = 6 && f.(0) = "N" then begin
          (* NATS sentinel: representable as plain text only if no errors.Is / errors.As flag is set *)
          incr nats;
          let e = Some (EPlain (coqstring_of_string (unhex f.(2)))) in
          if f.(3) <> "000000" then begin
            incr bad_nats; Printf.fprintf oc "NATSREP %s\n" line
          end;
          let perm = f.(4) = "1" and trans = f.(5) = "1" in
          (match model with
           | Some (ip, it) ->
             if ip e <> perm || it e <> trans then begin incr bad_gen; Printf.fprintf oc "GEN %s | model=%b,%b\n" line (ip e) (it e) end
           | None -> ());
          (match nats_situation_permanent (coqstring_of_string f.(1)) with
           | Some p -> if perm <> p || trans <> not p then begin incr bad_spec; Printf.fprintf oc "SPEC %s | nats situation must be permanent=%b\n" line p end
           | None -> ())
        end
      | Some bar ->
        incr n;
        let lhs = fields (Stdlib.String.sub line 0 bar) in
        let rhs = fields (Stdlib.String.sub line (bar + 1) (Stdlib.String.length line - bar - 1)) in
        let oe = parse_err lhs in
        let perm = rhs.(1) = "1" and trans = rhs.(2) = "1" in
        (match oe with
         | Some e ->
           let m = string_of_coqstring (msg e) in
           if m <> unhex rhs.(0) then begin
             incr bad_text;
             if !bad_text <= max_report then Printf.fprintf oc "TEXT %s | model-text=%s\n" line (hex m)
           end;
           let k = (match required_class e with Some true -> "must-permanent" | Some false -> "must-transient" | None -> "free")
                   ^ (if perm then "/perm" else "/trans") in
           bump k
         | None -> bump "nil");
        (match model with
         | Some (ip, it) ->
           if ip oe <> perm || it oe <> trans then begin
             incr bad_gen;
             if !bad_gen <= max_report then Printf.fprintf oc "GEN %s | model=%b,%b\n" line (ip oe) (it oe)
           end
         | None -> ());
        if not (class_ok oe perm trans) then begin
          incr bad_spec;
          if !bad_spec <= max_report then Printf.fprintf oc "SPEC %s | classification (perm=%b, trans=%b) not allowed by the property\n" line perm trans
        end);
  close_out oc;
  let cls = Hashtbl.fold (fun k v acc -> Printf.sprintf "\"%s\":%d" (json_escape k) v :: acc) classes [] in
  Printf.printf "{\"cases\":%d,\"gen_mismatch\":%d,\"text_mismatch\":%d,\"spec_violation\":%d,\"nats_values\":%d,\"nats_unrepresentable\":%d,\"classes\":{%s}}\n"
    !n !bad_gen !bad_text !bad_spec !nats !bad_nats (Stdlib.String.concat "," (List.sort compare cls))

(* ---- C17 ---- *)
let coqq_of_string (s : ostring) : q =
  match Stdlib.String.split_on_char '/' s with
  | [n; d] -> { qnum = coqz_of_string n; qden = pos_of_z (BZ.of_string d) }
  | _ -> failwith ("bad rational " ^ s)

let q_of_ints (n : int) (d : int) : q = { qnum = coqz_of_int n; qden = pos_of_z (BZ.of_int d) }

type c17_model = {
  m_cb_call : breaker -> z -> bool -> cbresult * breaker;
  m_calc : bcfg -> z -> q -> z;
}

let c17 ?(model : c17_model option) (path : ostring) (mm : ostring) : unit =
  let oc = open_out mm in
  let n = ref 0 and bad_gen = ref 0 and bad_spec = ref 0 in
  let classes = Hashtbl.create 16 in
  let bump k = Hashtbl.replace classes k (1 + try Hashtbl.find classes k with Not_found -> 0) in
  let report tag line why =
    let r = if tag = "GEN" then bad_gen else bad_spec in
    incr r;
    if !r <= max_report then Printf.fprintf oc "%s %s | %s\n" tag line why in
  (* float64 evaluation in Go vs exact rationals: relative 2^-40, absolute 2 ns *)
  let rel = { qnum = coqz_of_int 1; qden = pos_of_z (BZ.shift_left BZ.one 40) } in
  let abs = q_of_ints 2 1 in
  let within cfg att res = backoff_withinb cfg att res rel abs in
  (* jitter spread per configuration: both sides of the base must occur over many draws when Jitter > 0 *)
  iter_lines path (fun _ line ->
      let f = fields line in
      if Array.length f > 0 then begin
        incr n;
        match f.(0) with
        | "B" ->
          let init = BZ.of_string f.(1) and maxb = BZ.of_string f.(2) in
          let mult = coqq_of_string f.(3) and jit = coqq_of_string f.(4) in
          let att = BZ.of_string f.(5) in
          let res = coqz_of_string f.(6) in
          let cfg = { b_InitialBackoff = coqz_of_z init; b_MaxBackoff = coqz_of_z maxb; b_BackoffMultiplier = mult; b_Jitter = jit } in
          let mult_z = z_of_coqz mult.qnum and mult_d = z_of_pos mult.qden in
          let huge = BZ.gt att (BZ.of_int 200) in
          let cfg', att' =
            if not huge then cfg, coqz_of_z att
            else if BZ.geq (BZ.mul (BZ.of_int 2) mult_z) (BZ.mul (BZ.of_int 3) mult_d) && BZ.gt init BZ.zero then
              (* Multiplier >= 3/2, Initial >= 1 ns, attempt > 200: Initial*Mult^n >= 1.5^200 > 2^63 exceeds every int64 cap, so base = MaxBackoff *)
              ({ cfg with b_InitialBackoff = coqz_of_z maxb; b_BackoffMultiplier = q_of_ints 1 1 }, coqz_of_int 0)
            else if BZ.equal mult_z mult_d || BZ.equal mult_z BZ.zero || BZ.equal init BZ.zero then
              (* Multiplier 1 or 0, or Initial 0: the power is cheap to evaluate exactly / irrelevant *)
              ((if BZ.equal init BZ.zero then { cfg with b_BackoffMultiplier = q_of_ints 1 1 } else cfg), coqz_of_z att)
            else
              (* remaining generated multipliers are <= 1/2: Initial*Mult^n is already below 2^-137 ns at n = 200
                 and only shrinks; evaluate with attempt 200 *)
              (cfg, coqz_of_int 200) in
          let ok = within cfg' att' res in
          bump (if huge then "backoff/huge-attempt" else if BZ.equal (z_of_coqz jit.qnum) BZ.zero then "backoff/no-jitter" else "backoff/jitter");
          if not ok then report "SPEC" line "CalculateBackoff result outside +-Jitter of min(MaxBackoff, Initial*Multiplier^n) or negative";
          (* without jitter the result is deterministic: compare the regenerated function value for value (float slack) *)
          (match model with
           | Some m when (not huge) && BZ.equal (z_of_coqz jit.qnum) BZ.zero ->
             let g = z_of_coqz (m.m_calc cfg (coqz_of_z att) (q_of_ints 1 2)) and i = z_of_coqz res in
             let tol = BZ.add (BZ.of_int 2) (BZ.shift_right (BZ.abs i) 40) in
             if BZ.gt (BZ.abs (BZ.sub g i)) tol then
               report "GEN" line (Printf.sprintf "CalculateBackoff without jitter: implementation %s, generated function %s" (BZ.to_string i) (BZ.to_string g))
           | _ -> ())
        | "K" ->
          let thr = coqz_of_string f.(1) and cd = coqz_of_string f.(2) in
          let steps = int_of_string f.(3) in
          let cb0 = { cb_threshold = thr; cb_cooldown = cd; cb_st = CBClosed; cb_fail = Z0; cb_last = Z0 } in
          let spec = ref cb0 and gen = ref cb0 and now = ref BZ.zero in
          let opened = ref false and rejected = ref false in
          for s = 0 to steps - 1 do
            let b = 4 + 4 * s in
            now := BZ.add !now (BZ.of_string f.(b));
            let fails = f.(b + 1) = "1" in
            let impl = f.(b + 2) and invoked = f.(b + 3) in
            let (r, cb') = cb_spec_step !spec (coqz_of_z !now) fails in
            spec := cb';
            let rs = (match r with CROk -> "ok" | CRErr -> "err" | CRRejected -> "rej") in
            if rs = "rej" then rejected := true;
            if cb'.cb_st = CBOpen then opened := true;
            if rs <> impl then report "SPEC" line (Printf.sprintf "breaker step %d: implementation %s, reference automaton %s" s impl rs);
            if (impl = "rej") <> (invoked = "0") then report "SPEC" line (Printf.sprintf "breaker step %d: operation invoked=%s with result %s" s invoked impl);
            (match model with
             | Some m ->
               let (r2, cb2) = m.m_cb_call !gen (coqz_of_z !now) fails in
               gen := cb2;
               let rs2 = (match r2 with CROk -> "ok" | CRErr -> "err" | CRRejected -> "rej") in
               if rs2 <> impl then report "GEN" line (Printf.sprintf "breaker step %d: implementation %s, generated cb_call %s" s impl rs2)
             | None -> ())
          done;
          bump (if !rejected then "breaker/rejected-while-open" else if !opened then "breaker/opened" else "breaker/stayed-closed")
        | "R" ->
          let maxa = coqz_of_string f.(1) in
          let cfg = { b_InitialBackoff = coqz_of_string f.(2); b_MaxBackoff = coqz_of_string f.(3);
                      b_BackoffMultiplier = coqq_of_string f.(4); b_Jitter = coqq_of_string f.(5) } in
          let cancel_before = f.(6) = "1" in
          let steps = int_of_string f.(7) in
          let script = List.init steps (fun s ->
              let res = (match f.(8 + 2 * s) with "o" -> FOk | "p" -> FPermanent | _ -> FTransient) in
              { it_cancelled_before = (s = 0 && cancel_before); it_res = res; it_cancelled_in_wait = (f.(9 + 2 * s) = "1") }) in
          let bar = 8 + 2 * steps in
          let inv = int_of_string f.(bar + 1) and result = f.(bar + 2) in
          let waits = Array.to_list (Array.sub f (bar + 3) (Array.length f - bar - 3)) in
          let ((mn, mwaits), mres) = retry_loop maxa Z0 script in
          let rec nat_to_int = function O -> 0 | S k -> 1 + nat_to_int k in
          let mres_s = (match mres with ROk -> "ok" | RPermanent -> "perm" | RMaxAttempts -> "max" | RCancelled -> "cancelled" | RScriptEnd -> "scriptend") in
          bump ("retry/" ^ mres_s);
          if nat_to_int mn <> inv || mres_s <> result then
            report "GEN" line (Printf.sprintf "RetryWithBackoff: implementation %d invocations/%s, model %d/%s" inv result (nat_to_int mn) mres_s);
          (* property: at most MaxAttempts invocations *)
          let maxi = BZ.to_int (z_of_coqz maxa) in
          if maxi > 0 && inv > maxi then report "SPEC" line "more invocations than MaxAttempts";
          (* property: each wait is the computed backoff of that attempt index *)
          List.iteri (fun k wns ->
              if not (within cfg (coqz_of_int k) (coqz_of_string wns)) then
                report "SPEC" line (Printf.sprintf "wait %d (%s ns) is not the backoff of attempt %d" k wns k)) waits;
          if List.length waits <> List.length mwaits && not (List.length waits = List.length mwaits - 1) then
            report "GEN" line "RetryWithBackoff: number of completed waits differs from the model"
        | _ -> ()
      end);
  close_out oc;
  let cls = Hashtbl.fold (fun k v acc -> Printf.sprintf "\"%s\":%d" (json_escape k) v :: acc) classes [] in
  Printf.printf "{\"cases\":%d,\"gen_mismatch\":%d,\"spec_violation\":%d,\"classes\":{%s}}\n"
    !n !bad_gen !bad_spec (Stdlib.String.concat "," (List.sort compare cls))

(* ---- C14 ---- replay of natsdiff traces (outcomes of the REAL adapter) on Store.v *)
let c14 (path : ostring) (mm : ostring) : unit =
  let oc = open_out mm in
  let nseq = ref 0 and nops = ref 0 and bad = ref 0 in
  let classes = Hashtbl.create 16 in
  let bump k = Hashtbl.replace classes k (1 + try Hashtbl.find classes k with Not_found -> 0) in
  let st = ref empty_store in
  let seqno = ref "" in
  let seq_lines = Buffer.create 1024 in
  let seq_bad = ref false in
  let wmap : (ostring, nat) Hashtbl.t = Hashtbl.create 8 in
  let rec nat_of_int n = if n <= 0 then O else S (nat_of_int (n - 1)) in
  let key k = coqstring_of_string ("k" ^ k) in
  let kind_s = function KOk -> "ok" | KKeyExists -> "keyexists" | KWrongLastSeq -> "wronglastseq" | KNotFound -> "notfound" in
  let fail line why =
    if not !seq_bad then begin
      seq_bad := true; incr bad;
      if !bad <= max_report then
        Printf.fprintf oc "SPEC seq=%s step=[%s] history=[%s] | %s\n" !seqno line (Buffer.contents seq_lines) why
    end in
  iter_lines path (fun _ line ->
      let f = fields line in
      if Array.length f > 0 then begin
        (match f.(0) with
         | "S" -> incr nseq; st := empty_store; seqno := f.(1); Buffer.clear seq_lines; seq_bad := false; Hashtbl.clear wmap
         | "E" -> ()
         | "C" ->
           incr nops;
           let (s', r) = sstep !st (OCreate (key f.(1), coqstring_of_string (unhex f.(2)))) in
           st := s';
           (match r with
            | RKV o ->
              bump ("create/" ^ kind_s o.o_kind);
              if kind_s o.o_kind <> f.(3) || (o.o_kind = KOk && string_of_coqz o.o_rev <> f.(4)) then
                fail line (Printf.sprintf "Create: adapter %s rev %s, contract %s rev %s" f.(3) f.(4) (kind_s o.o_kind) (string_of_coqz o.o_rev))
            | _ -> fail line "model error")
         | "U" ->
           incr nops;
           let (s', r) = sstep !st (OUpdate (key f.(1), coqstring_of_string (unhex f.(2)), coqz_of_string f.(3))) in
           st := s';
           (match r with
            | RKV o ->
              bump ("update/" ^ kind_s o.o_kind);
              if kind_s o.o_kind <> f.(4) || (o.o_kind = KOk && string_of_coqz o.o_rev <> f.(5)) then
                fail line (Printf.sprintf "Update: adapter %s rev %s, contract %s rev %s" f.(4) f.(5) (kind_s o.o_kind) (string_of_coqz o.o_rev))
            | _ -> fail line "model error")
         | "G" ->
           incr nops;
           let (_, r) = sstep !st (OGet (key f.(1))) in
           (match r with
            | RKV o ->
              bump ("get/" ^ kind_s o.o_kind);
              if kind_s o.o_kind <> f.(2) || (o.o_kind = KOk && (string_of_coqz o.o_rev <> f.(3) || hex (string_of_coqstring o.o_val) <> f.(4))) then
                fail line (Printf.sprintf "Get: adapter %s %s %s, contract %s %s %s" f.(2) f.(3) f.(4) (kind_s o.o_kind) (string_of_coqz o.o_rev) (hex (string_of_coqstring o.o_val)))
            | _ -> fail line "model error")
         | "D" ->
           incr nops;
           let (s', r) = sstep !st (ODelete (key f.(1))) in
           st := s';
           bump "delete";
           if f.(2) <> "ok" then fail line ("Delete: adapter " ^ f.(2) ^ ", contract ok")
         | "X" -> incr nops; bump "expire"; let (s', _) = sstep !st (OExpire (key f.(1))) in st := s'
         | "WO" ->
           incr nops; bump "watch-open";
           let (s', r) = sstep !st (OWatch (key f.(2))) in
           st := s';
           (match r with RWatch i -> Hashtbl.replace wmap f.(1) i | _ -> fail line "model error")
         | "WD" ->
           incr nops;
           let i = (try Hashtbl.find wmap f.(1) with Not_found -> O) in
           let n = int_of_string f.(2) in
           for j = 0 to n - 1 do
             let got = f.(3 + j) in
             let (s', r) = sstep !st (OPop i) in
             st := s';
             let exp = (match r with
                 | RPop (Some None) -> "nil"
                 | RPop (Some (Some (rev, v))) -> string_of_coqz rev ^ ":" ^ hex (string_of_coqstring v)
                 | RPop None -> "<nothing>"
                 | _ -> "<bad>") in
             bump (if got = "nil" then "watch-entry/nil-marker" else "watch-entry/value");
             if exp <> got then fail line (Printf.sprintf "watch entry %d: adapter delivered %s, contract %s" j got exp)
           done;
           (* after a drain the contract has nothing more to deliver: every change was delivered *)
           (match sstep !st (OPop i) with
            | (_, RPop None) -> ()
            | (_, RPop (Some e)) ->
              let miss = (match e with None -> "nil" | Some (rev, _) -> string_of_coqz rev) in
              (match Hashtbl.find_opt wmap ("stopped" ^ f.(1)) with
               | Some _ -> ()
               | None -> fail line (Printf.sprintf "watch: the adapter did not deliver entry %s (every change must be delivered once)" miss))
            | _ -> ())
         | "WL" ->
           let i = (try Hashtbl.find wmap f.(1) with Not_found -> O) in
           bump "watch-conflated";
           let (s', r) = sstep !st (ODrop (i, coqz_of_string f.(2))) in
           st := s';
           if r = RBad then fail line "conflation of the newest pending revision (never legal)"
         | "WS" ->
           incr nops; bump "watch-stop";
           let i = (try Hashtbl.find wmap f.(1) with Not_found -> O) in
           Hashtbl.replace wmap ("stopped" ^ f.(1)) O;
           let (s', _) = sstep !st (OStop i) in st := s'
         | _ -> ());
        if f.(0) <> "S" && f.(0) <> "E" then begin Buffer.add_string seq_lines line; Buffer.add_string seq_lines "; " end
      end);
  close_out oc;
  let cls = Hashtbl.fold (fun k v acc -> Printf.sprintf "\"%s\":%d" (json_escape k) v :: acc) classes [] in
  Printf.printf "{\"cases\":%d,\"ops\":%d,\"spec_violation\":%d,\"classes\":{%s}}\n"
    !nseq !nops !bad (Stdlib.String.concat "," (List.sort compare cls))
