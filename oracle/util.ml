(* util.ml — conversions between OCaml values and the extracted Coq inductives,
   and line/field helpers. Trusted glue (kept small). *)
module BZ = Z
type ostring = string
open Extracted

let rec pos_of_z (n : BZ.t) : positive =
  if BZ.equal n BZ.one then XH
  else if BZ.is_even n then XO (pos_of_z (BZ.shift_right n 1))
  else XI (pos_of_z (BZ.shift_right n 1))

let coqz_of_z (n : BZ.t) : z =
  if BZ.sign n = 0 then Z0 else if BZ.sign n > 0 then Zpos (pos_of_z n) else Zneg (pos_of_z (BZ.neg n))

let coqz_of_string (s : ostring) : z = coqz_of_z (BZ.of_string s)
let coqz_of_int (i : int) : z = coqz_of_z (BZ.of_int i)

let rec z_of_pos (p : positive) : BZ.t =
  match p with
  | XH -> BZ.one
  | XO q -> BZ.shift_left (z_of_pos q) 1
  | XI q -> BZ.succ (BZ.shift_left (z_of_pos q) 1)

let z_of_coqz (x : z) : BZ.t =
  match x with Z0 -> BZ.zero | Zpos p -> z_of_pos p | Zneg p -> BZ.neg (z_of_pos p)

let string_of_coqz x = BZ.to_string (z_of_coqz x)

let ascii_of_char (c : char) : ascii =
  let n = Char.code c in
  let b i = (n lsr i) land 1 = 1 in
  Ascii (b 0, b 1, b 2, b 3, b 4, b 5, b 6, b 7)

let char_of_ascii (a : ascii) : char =
  match a with
  | Ascii (b0, b1, b2, b3, b4, b5, b6, b7) ->
    let v b i = if b then 1 lsl i else 0 in
    Char.chr (v b0 0 + v b1 1 + v b2 2 + v b3 3 + v b4 4 + v b5 5 + v b6 6 + v b7 7)

let coqstring_of_string (s : ostring) : Extracted.string =
  let r = ref EmptyString in
  for i = Stdlib.String.length s - 1 downto 0 do
    r := String (ascii_of_char s.[i], !r)
  done;
  !r

let string_of_coqstring (s : Extracted.string) : ostring =
  let b = Buffer.create 16 in
  let rec go = function
    | EmptyString -> ()
    | String (a, r) -> Buffer.add_char b (char_of_ascii a); go r
  in
  go s; Buffer.contents b

(* "-" is the empty string, otherwise lowercase hex *)
let unhex (h : ostring) : ostring =
  if h = "-" then ""
  else begin
    let n = Stdlib.String.length h / 2 in
    Stdlib.String.init n (fun i -> Char.chr (int_of_string ("0x" ^ Stdlib.String.sub h (2 * i) 2)))
  end

let hex (s : ostring) : ostring =
  if s = "" then "-"
  else Stdlib.String.concat "" (List.map (fun c -> Printf.sprintf "%02x" (Char.code c)) (List.of_seq (Stdlib.String.to_seq s)))

let fields (line : ostring) : ostring array =
  Array.of_list (List.filter (fun s -> s <> "") (Stdlib.String.split_on_char ' ' line))

let iter_lines (path : ostring) (f : int -> ostring -> unit) : unit =
  let ic = open_in path in
  let n = ref 0 in
  (try
     while true do
       let l = input_line ic in
       incr n; f !n l
     done
   with End_of_file -> ());
  close_in ic

let json_escape (s : ostring) : ostring =
  let b = Buffer.create (Stdlib.String.length s + 8) in
  Stdlib.String.iter
    (fun c ->
      match c with
      | '"' -> Buffer.add_string b "\\\""
      | '\\' -> Buffer.add_string b "\\\\"
      | '\n' -> Buffer.add_string b "\\n"
      | c when Char.code c < 32 || Char.code c > 126 -> Buffer.add_string b (Printf.sprintf "\\u%04x" (Char.code c))
      | c -> Buffer.add_char b c)
    s;
  Buffer.contents b
