(* main_spec.ml — oracle without anything regenerated from /repo (specifications only) *)
let () =
  match Array.to_list Sys.argv with
  | _ :: "c16" :: path :: mm :: _ -> Spec_cmds.c16 path mm
  | _ :: "c15" :: path :: mm :: _ -> Spec_cmds.c15 path mm
  | _ :: "c17" :: path :: mm :: _ -> Spec_cmds.c17 path mm
  | _ :: "c14" :: path :: mm :: _ -> Spec_cmds.c14 path mm
  | _ :: "sim" :: path :: mm :: _ -> Sim_cmds.sim path mm
  | _ -> prerr_endline "usage: oracle_spec <command> <cases> <mismatch-out>"; exit 2
