(* main_full.ml — oracle with the regenerated definitions: oracle <command> <cases> <mismatch-out> *)
open Extracted

let () =
  match Array.to_list Sys.argv with
  | _ :: "c16" :: path :: mm :: _ -> Spec_cmds.c16 ~model:validate_config path mm
  | _ :: "c15" :: path :: mm :: _ -> Spec_cmds.c15 ~model:(is_permanent, is_transient) path mm
  | _ :: "c17" :: path :: mm :: _ -> Spec_cmds.c17 ~model:{ Spec_cmds.m_cb_call = cb_call; m_calc = calculate_backoff } path mm
  | _ :: "c14" :: path :: mm :: _ -> Spec_cmds.c14 path mm
  | _ :: "sim" :: path :: mm :: _ -> Sim_cmds.sim path mm
  | _ -> prerr_endline "usage: oracle <command> <cases> <mismatch-out>"; exit 2
