(* sim_cmds.ml — replays simulator traces (harness/sim) on the extracted monitors and
   protocol automata. Input: "BEGIN n name" / "<t> <kind> <ints...>" / "END n" blocks.
   Output, one line per scenario:  R <n> <name> <events> <verdict> | <idx>:<alarm> ... | <idx>:<rule> ... | <first observation outside the lease environment, -1 if none>
   verdict: ok | crash (no END) | hang *)
module BZ = Z
open Extracted
open Util

let kind_tbl : (ostring, int) Hashtbl.t =
  let h = Hashtbl.create 64 in
  List.iteri (fun i s -> Hashtbl.replace h (string_of_coqstring s) i) kind_names;
  h

let parse_line (line : ostring) : (z * ev) option =
  let f = fields line in
  if Array.length f < 2 then None
  else
    match Hashtbl.find_opt kind_tbl f.(1) with
    | None -> None
    | Some k ->
      let args = ref [] in
      for i = Array.length f - 1 downto 2 do
        args := coqz_of_string f.(i) :: !args
      done;
      Some (coqz_of_string f.(0), decode (coqz_of_int k) !args)

let sim (path : ostring) (out : ostring) : unit =
  let oc = open_out out in
  let cur = ref [] and name = ref "" and num = ref (-1) and inside = ref false and hang = ref false in
  let flush_scn verdict =
    let tr = List.rev !cur in
    let alarms = check_trace tr in
    let guards = check_guards2 tr in
    Printf.fprintf oc "R %d %s %d %s |" !num !name (List.length tr) verdict;
    List.iter (fun (i, a) -> Printf.fprintf oc " %s:%s" (string_of_coqz i) (string_of_coqz a)) alarms;
    Printf.fprintf oc " |";
    List.iter (fun (i, a) -> Printf.fprintf oc " %s:%s" (string_of_coqz i) (string_of_coqz a)) guards;
    Printf.fprintf oc " | %s %s %s\n" (string_of_coqz (check_env tr)) (string_of_coqz (check_envT tr)) (string_of_coqz (check_envC tr));
    cur := []; inside := false; hang := false
  in
  iter_lines path (fun _ line ->
      if String.length line >= 5 && String.sub line 0 5 = "BEGIN" then begin
        if !inside then flush_scn "crash";
        let f = fields line in
        num := int_of_string f.(1);
        name := (if Array.length f > 2 then f.(2) else "-");
        inside := true
      end
      else if String.length line >= 3 && String.sub line 0 3 = "END" then flush_scn "ok"
      else if String.length line >= 4 && String.sub line 0 4 = "HANG" then hang := true
      else if String.length line > 0 && line.[0] = '#' then ()
      else
        match parse_line line with
        | Some te -> cur := te :: !cur
        | None -> ());
  if !inside then flush_scn (if !hang then "hang" else "crash");
  close_out oc
