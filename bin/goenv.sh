# source this: Go 1.25.4 offline for the harness/translator modules
export PATH=/root/go/pkg/mod/golang.org/toolchain@v0.0.1-go1.25.4.linux-amd64/bin:$PATH
export GOTOOLCHAIN=local GOFLAGS=-mod=mod GOPROXY=off GOSUMDB=off GOCACHE=/verif/.build/gocache
