(* Props/C10.v — property C10: theorems only; each closed by [exact] of a lemma proved elsewhere, followed by
   Print Assumptions. The statements are about every trace admitted by the protocol model (Sim/Proto.v,
   rules with constants regenerated from /repo), at every position of the trace. *)
From LE Require Import Base Ev World Mon Mon2 Proto Consts GenGuards Config ConfigSpec GenConfig SimBasics SimOwn SimCallbacks SimTheorems GuardFacts Timing Witness.
Open Scope Z_scope.

Theorem C10_takeover_only_strictly_lower :
  forall tr, admits base0 tr = true -> at_every_position tr (fun b te =>
    In 1001 (mon_C10s b te) ->
    exists op okind rev val p, snd te = EApply op okind rev val /\ aget (b_pend b) op = Some p /\ p_inner p <> sTakeover).
Proof. exact C10_takeover_only_lower_thm. Qed.
Print Assumptions C10_takeover_only_strictly_lower.

Theorem C10_legitimate_takeover :
  forall tr, admits base0 tr = true -> at_every_position tr (fun b te => ~ In 103 (mon_C01 b te) /\ ~ In 106 (mon_C01 b te)).
Proof. exact C01_identity_and_takeover_thm. Qed.
Print Assumptions C10_legitimate_takeover.

Theorem C10_yields_on_equal_priority :
  forall mine stored, gen_takeover_yields mine stored = (mine <=? stored).
Proof. exact takeover_yields_is_le. Qed.
Print Assumptions C10_yields_on_equal_priority.

Theorem C10_enabled_needs_flag_and_positive_priority :
  forall a p, gen_takeover_enabled a p = (a && (0 <? p))%bool.
Proof. exact takeover_enabled_is. Qed.
Print Assumptions C10_enabled_needs_flag_and_positive_priority.

