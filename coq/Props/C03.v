(* Props/C03.v — property C03: theorems only; each closed by [exact] of a lemma proved elsewhere, followed by
   Print Assumptions. The statements are about every trace admitted by the protocol model (Sim/Proto.v,
   rules with constants regenerated from /repo), at every position of the trace. *)
From LE Require Import Base Ev World Mon Mon2 Proto Consts GenGuards Config ConfigSpec GenConfig SimBasics SimOwn SimCallbacks SimTheorems GuardFacts Timing Witness.
Open Scope Z_scope.

Theorem C03_cut_off_leader_bound :
  forall H ts e0 a1 e1 a2 e2 a3 e3,
  0 <= H -> e0 <= ts + H ->
  next_start_ok H ts e0 a1 -> e1 <= a1 + gen_hb_update_timeout H ->
  next_start_ok H a1 e1 a2 -> e2 <= a2 + gen_hb_update_timeout H ->
  next_start_ok H a2 e2 a3 -> e3 <= a3 + gen_hb_update_timeout H ->
  e3 <= ts + 3 * H + 3 * hb_update_timeout H.
Proof. exact three_failures_bound_code. Qed.
Print Assumptions C03_cut_off_leader_bound.

Theorem C03_deposed_leader_bound :
  forall H T tc a0 e0 a1 e1,
  0 <= H -> 0 <= T -> a0 <= tc -> e0 <= a0 + T ->
  next_start_ok H a0 e0 a1 -> e1 <= a1 + T -> e1 <= tc + H + 2 * T.
Proof. exact next_attempt_bound. Qed.
Print Assumptions C03_deposed_leader_bound.

Theorem C03_three_strikes :
  forall count, gen_hb_trips count gen_hb_max_failures = true -> gen_hb_trips (count - 1) gen_hb_max_failures = false -> count = 3.
Proof. exact hb_trips_exactly. Qed.
Print Assumptions C03_three_strikes.

(* over EVERY history of refresh outcomes of a term: the regenerated "three strikes" comparison holds exactly when the
   last three refreshes all failed (a success in between starts the count again) *)
Theorem C03_three_strikes_every_history :
  forall outs, gen_hb_trips (Z.of_nat (hrun outs)) gen_hb_max_failures = true <->
               exists pre, outs = pre ++ [false; false; false].
Proof. exact hb_trips_history. Qed.
Print Assumptions C03_three_strikes_every_history.

Theorem C03_timeout_is_max_half_interval_one_second :
  forall H, gen_hb_update_timeout H = Z.max (Z.quot H 2) (1 * sec).
Proof. exact hb_update_timeout_agree. Qed.
Print Assumptions C03_timeout_is_max_half_interval_one_second.

