(* Props/C11.v — property C11: theorems only; each closed by [exact] of a lemma proved elsewhere, followed by
   Print Assumptions. The statements are about every trace admitted by the protocol model (Sim/Proto.v,
   rules with constants regenerated from /repo), at every position of the trace. *)
From LE Require Import Base Ev World Mon Mon2 Proto Consts GenGuards Config ConfigSpec GenConfig SimBasics SimOwn SimCallbacks SimTheorems GuardFacts Timing Witness.
From LE Require Import Locks GenLocks Race RaceFacts RaceNow.
Open Scope Z_scope.

Theorem C11_default_grace_period :
  forall H, 0 < H -> gen_default_grace H = Z.max (3 * H) (5 * sec).
Proof. exact grace_default. Qed.
Print Assumptions C11_default_grace_period.

Theorem C11_no_lock_order_cycle : has_cycle (order_edges acquires) = false.
Proof. exact lock_order_acyclic_now. Qed.
Print Assumptions C11_no_lock_order_cycle.
