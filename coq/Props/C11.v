(* Props/C11.v — property C11: theorems only; each closed by [exact] of a lemma proved elsewhere, followed by
   Print Assumptions. The statements are about every trace admitted by the protocol model (Sim/Proto.v,
   rules with constants regenerated from /repo), at every position of the trace. *)
From LE Require Import Base Ev World Mon Mon2 Proto Consts GenGuards Config ConfigSpec GenConfig SimBasics SimOwn SimCallbacks SimTheorems GuardFacts Timing Witness.
Open Scope Z_scope.

Theorem C11_default_grace_period :
  forall H, 0 < H -> gen_default_grace H = Z.max (3 * H) (5 * sec).
Proof. exact grace_default. Qed.
Print Assumptions C11_default_grace_period.

