(* Property C14 — the NATS adapter provides the store contract the election relies on.
   The contract is Store.v; these theorems are about it, for all operation sequences.
   The tie to the code is the property itself: on every run natsdiff drives the real
   adapter (through the verif hook) against an embedded nats-server and the oracle
   replays every recorded outcome on the extracted Store.v (and on the Go reference
   store the simulator uses). *)
From LE Require Import Base Store StoreProofs.
Open Scope Z_scope.

(* Create succeeds exactly when the key has no live value (also after deletion or expiry) *)
Theorem C14_create_iff_absent :
  forall s k v, o_kind (snd (create s k v)) = KOk <-> live s k = false.
Proof. exact create_ok_iff. Qed.
Print Assumptions C14_create_iff_absent.

(* Update succeeds exactly when the given revision is the key's latest *)
Theorem C14_update_iff_latest :
  forall s k v rev, o_kind (snd (update s k v rev)) = KOk <-> rev = last_rev s k.
Proof. exact update_ok_iff. Qed.
Print Assumptions C14_update_iff_latest.

(* failed writes change nothing *)
Theorem C14_failed_write_unchanged :
  forall s k v rev,
    (o_kind (snd (create s k v)) <> KOk -> fst (create s k v) = s) /\
    (o_kind (snd (update s k v rev)) <> KOk -> fst (update s k v rev) = s).
Proof. intros. split; [apply create_fail_unchanged | apply update_fail_unchanged]. Qed.
Print Assumptions C14_failed_write_unchanged.

(* revisions strictly increase: after any history, a successful write gets a revision
   above every revision stored for any key *)
Theorem C14_revisions_strictly_increase :
  forall ops k v k' m,
    let s := fst (srun empty_store ops) in
    last_msg s k' = Some m ->
    forall o, (snd (create s k v) = o \/ exists rev, snd (update s k v rev) = o) ->
              o_kind o = KOk -> m_rev m < o_rev o.
Proof. exact write_rev_fresh. Qed.
Print Assumptions C14_revisions_strictly_increase.

(* Get returns the latest live value, or an error when there is none *)
Theorem C14_get_latest_live :
  forall s k,
    match last_msg s k with
    | Some m => if m_tomb m then o_kind (get s k) = KNotFound
                else get s k = mkOut KOk (m_rev m) (m_val m)
    | None => o_kind (get s k) = KNotFound
    end.
Proof. exact get_spec. Qed.
Print Assumptions C14_get_latest_live.

(* a watch delivers every subsequent change of the key exactly once, in revision order,
   deletions as empty values (pub_of records a deletion as the empty value) *)
Theorem C14_watch_exactly_once_in_order :
  forall ops s i w k,
    nth_error (s_watchers s) i = Some w -> w_key w = k -> w_stopped w = false ->
    forallb (fun o => negb (touches i o)) ops = true ->
    exists w', nth_error (s_watchers (fst (srun s ops))) i = Some w' /\
               popped i s ops ++ w_data w' = w_data w ++ published k s ops.
Proof. exact watch_exactly_once. Qed.
Print Assumptions C14_watch_exactly_once_in_order.

Theorem C14_changes_in_revision_order :
  forall ops k s, increasing (published k s ops) (s_seq s).
Proof. exact published_increasing. Qed.
Print Assumptions C14_changes_in_revision_order.
