(* Property C17 — retry, backoff, jitter and circuit breaker keep their contracts.
   calculate_backoff, cb_call, default_backoff and the round constants are
   regenerated from /repo/leader/retry.go and kv_election.go on every run;
   retry_loop is the hand-written model of RetryWithBackoff (Retry.v), tied to the
   code by the virtual-time harness. *)
From Coq Require Import QArith.
From LE Require Import Base Retry RetrySpec GenBackoff RetryProofs.
Open Scope Z_scope.

(* CalculateBackoff(cfg, n) lies within +-Jitter of min(MaxBackoff, Initial*Multiplier^n) and is
   never negative: every attempt number n >= 0, every draw 0 <= r < 1 of the random source, every
   configuration with non-negative fields and Jitter <= 1 (exact rationals; the 1 ns is the
   truncation to integer nanoseconds). *)
Theorem C17_backoff_bounds :
  forall c n r, bcfg_ok c -> 0 <= n -> (0 <= r)%Q -> (r < 1)%Q ->
                backoff_within c n (calculate_backoff c n r).
Proof. exact calculate_backoff_within. Qed.
Print Assumptions C17_backoff_bounds.

(* the generated breaker step is the reference automaton *)
Theorem C17_breaker_refines :
  forall cb now ff, cb_wf cb now -> cb_call cb now ff = cb_spec_step cb now ff.
Proof. exact cb_call_spec. Qed.
Print Assumptions C17_breaker_refines.

(* ... which opens after exactly failureThreshold consecutive failures (not before), *)
Theorem C17_breaker_opens_at_threshold :
  forall nows t cb,
    cb_st cb = CBClosed -> cb_fail cb = 0 -> 1 <= cb_threshold cb ->
    Z.of_nat (List.length nows) + 1 = cb_threshold cb ->
    cb_st (fail_times cb nows) = CBClosed /\
    cb_st (fail_times cb (nows ++ [t])) = CBOpen /\
    cb_last (fail_times cb (nows ++ [t])) = t.
Proof. exact opens_at_threshold. Qed.
Print Assumptions C17_breaker_opens_at_threshold.

(* never invokes the operation while open within its cooldown (CRRejected is returned before the
   operation is invoked: enforced syntactically by the translator), *)
Theorem C17_breaker_rejects_in_cooldown :
  forall cb now ff, cb_st cb = CBOpen -> now - cb_last cb < cb_cooldown cb ->
                    cb_spec_step cb now ff = (CRRejected, cb).
Proof. exact open_rejects_within_cooldown. Qed.
Print Assumptions C17_breaker_rejects_in_cooldown.

(* and closes on the first success afterwards. *)
Theorem C17_breaker_success_closes :
  forall cb now r cb', cb_spec_step cb now false = (r, cb') -> r <> CRRejected ->
                       r = CROk /\ cb_st cb' = CBClosed /\ cb_fail cb' = 0.
Proof. exact success_closes. Qed.
Print Assumptions C17_breaker_success_closes.

(* The same for EVERY history of calls (any times, any outcomes, any length) on a new breaker: the
   counter is the number of failed invocations since the last successful one (rejected calls are not
   invocations), and the breaker is open exactly when that number has reached the threshold - so it
   opens after exactly failureThreshold consecutive failures, never earlier, and a success closes it. *)
Theorem C17_breaker_every_history :
  forall calls thr cd,
    1 <= thr ->
    let rs := fst (cb_run (mkCB thr cd CBClosed 0 0) calls) in
    let cb' := snd (cb_run (mkCB thr cd CBClosed 0 0) calls) in
    cb_fail cb' = trailing_fails rs 0 /\
    (cb_st cb' = CBOpen <-> thr <= trailing_fails rs 0) /\
    List.length rs = List.length calls.
Proof.
  intros calls thr cd Hthr.
  destruct (cb_history calls (mkCB thr cd CBClosed 0 0) Hthr) as (_ & B & C & D).
  - unfold cb_open_iff; cbn; split; [discriminate | lia].
  - cbv zeta. repeat split; try exact B; try exact D; apply C.
Qed.
Print Assumptions C17_breaker_every_history.

(* ... and the same of the automaton REGENERATED from retry.go on this run (int64 arithmetic written out), for
   every history whose call times are clock readings in [0, 2^62) ns and whose length is below 2^63 - 1 *)
Theorem C17_breaker_every_history_of_the_code :
  forall calls thr cd,
    1 <= thr -> Z.of_nat (List.length calls) < two63 - 1 ->
    Forall (fun c => 0 <= fst c < two62) calls ->
    let rs := fst (cb_run_gen (mkCB thr cd CBClosed 0 0) calls) in
    let cb' := snd (cb_run_gen (mkCB thr cd CBClosed 0 0) calls) in
    cb_fail cb' = trailing_fails rs 0 /\
    (cb_st cb' = CBOpen <-> thr <= trailing_fails rs 0) /\
    List.length rs = List.length calls.
Proof.
  intros calls thr cd Hthr Hlen Hall.
  rewrite (cb_run_gen_spec calls (mkCB thr cd CBClosed 0 0)); cbn [cb_fail cb_last];
    try assumption; try (unfold two62; lia).
  exact (C17_breaker_every_history calls thr cd Hthr).
Qed.
Print Assumptions C17_breaker_every_history_of_the_code.

(* one call of any history: it is refused exactly when the breaker is open within its cooldown *)
Theorem C17_breaker_rejects_exactly_in_cooldown :
  forall cb t ff, 1 <= cb_threshold cb -> cb_open_iff cb ->
    (fst (cb_spec_step cb t ff) = CRRejected <->
     cb_st cb = CBOpen /\ t - cb_last cb < cb_cooldown cb).
Proof.
  intros cb t ff Hthr Hiff.
  destruct (cb_step_history cb t ff Hthr Hiff) as (_ & _ & _ & D & E).
  split; [exact D | intros [X Y]; exact (E X Y)].
Qed.
Print Assumptions C17_breaker_rejects_exactly_in_cooldown.

(* RetryWithBackoff: at most MaxAttempts invocations (MaxAttempts > 0; unbounded for 0) *)
Theorem C17_retry_at_most_max :
  forall script max n w r, 0 < max -> retry_loop max 0 script = (n, w, r) -> Z.of_nat n <= max.
Proof.
  intros script max n w r Hm H.
  pose proof (retry_invocations_le_max script max 0 n w r Hm ltac:(lia) H). lia.
Qed.
Print Assumptions C17_retry_at_most_max.

(* never after success, a permanent error or cancellation (every invocation but the last returned a
   transient error and was not interrupted), and the waits are the backoffs of attempts 0, 1, 2, ... *)
Theorem C17_retry_stops_and_waits :
  forall script max n w r,
    retry_loop max 0 script = (n, w, r) ->
    w = map (fun k => 0 + Z.of_nat k) (seq 0 (List.length w)) /\
    (pred n <= List.length w <= n)%nat /\
    (forall k, (k < pred n)%nat ->
       exists it, nth_error script k = Some it /\ it_res it = FTransient /\
                  it_cancelled_before it = false /\ it_cancelled_in_wait it = false) /\
    (n <= List.length script)%nat.
Proof. intros script max n w r. exact (retry_prefix_transient script max 0 n w r). Qed.
Print Assumptions C17_retry_stops_and_waits.

(* acquisition rounds: 10-100 ms initial jitter, at most four attempts, default backoff in between
   (constants regenerated from kv_election.go; the rounds themselves are observed by the simulator) *)
Theorem C17_round_constants :
  round_jitterMin = 10 * ms /\ round_jitterMax = 100 * ms /\ round_maxRetries + 1 = 4 /\
  bcfg_ok default_backoff /\ b_InitialBackoff default_backoff = 50 * ms /\ b_MaxBackoff default_backoff = 5 * sec.
Proof. vm_compute. repeat split; try reflexivity; try discriminate. Qed.
Print Assumptions C17_round_constants.

(* non-vacuity: a configuration satisfying bcfg_ok, and a breaker history *)
Example C17_example :
  bcfg_ok default_backoff /\ calculate_backoff default_backoff 3 (1 # 2) = 400 * ms /\
  cb_st (fail_times (mkCB 2 sec CBClosed 0 0) [5; 7]) = CBOpen /\
  fst (cb_run (mkCB 2 sec CBClosed 0 0) [(1, true); (2, false); (3, true); (4, true); (5, false); (4 + sec, false)])
    = [CRErr; CROk; CRErr; CRErr; CRRejected; CROk].
Proof. vm_compute. repeat split; try reflexivity; discriminate. Qed.
