(* Props/C12.v — property C12: theorems only; each closed by [exact] of a lemma proved elsewhere, followed by
   Print Assumptions. The statements are about every trace admitted by the protocol model (Sim/Proto.v,
   rules with constants regenerated from /repo), at every position of the trace. *)
From LE Require Import Base Ev World Mon Mon2 Proto Consts GenGuards Config ConfigSpec GenConfig SimBasics SimOwn SimCallbacks SimTheorems GuardFacts Timing Witness.
Open Scope Z_scope.

Theorem C12_demotion_at_exactly_the_threshold :
  forall count thr, 1 <= thr -> gen_health_trips count thr = true -> gen_health_trips (count - 1) thr = false -> count = thr.
Proof. exact health_trips_exactly. Qed.
Print Assumptions C12_demotion_at_exactly_the_threshold.

Theorem C12_threshold_default_three :
  forall m, gen_health_threshold m = (if m <=? 0 then 3 else m).
Proof. exact health_threshold_agree. Qed.
Print Assumptions C12_threshold_default_three.

Theorem C12_threshold_positive :
  forall m, 1 <= health_threshold m.
Proof. exact health_threshold_pos. Qed.
Print Assumptions C12_threshold_positive.

Theorem C12_check_deadline_100ms :
  gen_health_check_timeout = 100 * ms.
Proof. exact health_check_timeout_agree. Qed.
Print Assumptions C12_check_deadline_100ms.

