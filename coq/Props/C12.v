(* Props/C12.v — property C12: theorems only; each closed by [exact] of a lemma proved elsewhere, followed by
   Print Assumptions. The statements are about every trace admitted by the protocol model (Sim/Proto.v,
   rules with constants regenerated from /repo), at every position of the trace. *)
From LE Require Import Base Ev World Mon Mon2 Proto Consts GenGuards Config ConfigSpec GenConfig SimBasics SimOwn SimCallbacks SimTheorems GuardFacts Timing Witness.
Open Scope Z_scope.

Theorem C12_demotion_at_exactly_the_threshold :
  forall count thr, 1 <= thr -> gen_health_trips count thr = true -> gen_health_trips (count - 1) thr = false -> count = thr.
Proof. exact health_trips_exactly. Qed.
Print Assumptions C12_demotion_at_exactly_the_threshold.

Theorem C12_threshold_default_three :
  forall m, gen_health_threshold m = (if m <=? 0 then 3 else m).
Proof. exact health_threshold_agree. Qed.
Print Assumptions C12_threshold_default_three.

Theorem C12_threshold_positive :
  forall m, 1 <= health_threshold m.
Proof. exact health_threshold_pos. Qed.
Print Assumptions C12_threshold_positive.

Theorem C12_check_deadline_100ms :
  gen_health_check_timeout = 100 * ms.
Proof. exact health_check_timeout_agree. Qed.
Print Assumptions C12_check_deadline_100ms.


(* Over EVERY history of health-check outcomes of a term (any length, any mix): with the counter the heartbeat loop
   keeps (one more per unhealthy result, zero after a healthy one), the regenerated comparison that triggers the
   demotion holds exactly when the last [thr] results were all unhealthy - so an isolated or separated failure never
   demotes, and thr consecutive ones always reach the trigger. *)
Theorem C12_trigger_iff_last_thr_unhealthy :
  forall outs thr, 1 <= thr ->
    (gen_health_trips (Z.of_nat (hrun outs)) thr = true <->
     exists pre, outs = pre ++ List.repeat false (Z.to_nat thr)).
Proof. exact health_trips_history. Qed.
Print Assumptions C12_trigger_iff_last_thr_unhealthy.

Example C12_history_example :
  gen_health_trips (Z.of_nat (hrun [false; false; true; false; false])) 3 = false /\
  gen_health_trips (Z.of_nat (hrun [false; true; false; false; false])) 3 = true.
Proof. vm_compute. split; reflexivity. Qed.
