(* Props/C01.v — property C01: theorems only; each closed by [exact] of a lemma proved elsewhere, followed by
   Print Assumptions. The statements are about every trace admitted by the protocol model (Sim/Proto.v,
   rules with constants regenerated from /repo), at every position of the trace. *)
From LE Require Import Base Ev World Mon Mon2 Proto Consts GenGuards Config ConfigSpec GenConfig SimBasics SimOwn SimCallbacks SimTheorems GuardFacts Timing Witness.
Open Scope Z_scope.

Theorem C01_group_isolation :
  forall tr, admits base0 tr = true -> at_every_position tr (fun b te => ~ In 101 (mon_C01 b te)).
Proof. exact C01_group_isolation_thm. Qed.
Print Assumptions C01_group_isolation.

Theorem C01_creation_only_when_vacant_and_exact_revision :
  forall tr, admits base0 tr = true -> at_every_position tr (fun b te => ~ In 102 (mon_C01 b te) /\ ~ In 104 (mon_C01 b te)).
Proof. exact C01_create_and_revision_thm. Qed.
Print Assumptions C01_creation_only_when_vacant_and_exact_revision.

Theorem C01_identity_and_legitimate_takeover :
  forall tr, admits base0 tr = true -> at_every_position tr (fun b te => ~ In 103 (mon_C01 b te) /\ ~ In 106 (mon_C01 b te)).
Proof. exact C01_identity_and_takeover_thm. Qed.
Print Assumptions C01_identity_and_legitimate_takeover.

Theorem C01_witness_admitted :
  admits base0 witness_trace = true /\ (100 < List.length witness_trace)%nat.
Proof. exact witness_admitted. Qed.
Print Assumptions C01_witness_admitted.

Theorem C01_refresh_only_own_version_same_token :
  forall tr, admits base0 tr = true -> at_every_position tr (fun b te => ~ In 105 (mon_C01 b te) /\ ~ In 503 (mon_C05 b te)).
Proof. exact refresh_legit_thm. Qed.
Print Assumptions C01_refresh_only_own_version_same_token.

