(* Props/C19.v — property C19: theorems only (see Props/C01.v for the conventions). The statement of
   this property is decided by the monitor on real traces; what is proved here is only what is listed. *)
From LE Require Import Base Ev World Mon Mon2 Proto Consts GenGuards SimBasics SimOwn SimCallbacks SimTheorems GuardFacts Timing Witness.
Open Scope Z_scope.

Theorem C19_callbacks_alternate :
  forall tr, admits base0 tr = true -> at_every_position tr (fun b te => forall m, ~ In 801 (mon_C08 b m te) /\ ~ In 802 (mon_C08 b m te)).
Proof. exact C08_alternation_thm. Qed.
Print Assumptions C19_callbacks_alternate.

