(* Props/C19.v — property C19: theorems only (see Props/C01.v for the conventions).
   Proved from the table regenerated from the source on every run (gen/GenTermCtx.v: every way through every exclusive
   section of kvElection.mu, as operations on the claim, the run's context and the context stored in e.termCancel; machine
   in TermCtx.v): the context handed to the promotion callback is a child of the term's context; between two sections no
   term context is live while the instance does not claim leadership and none is out of the library's reach; a section
   that finds the instance leading and leaves it leading touches neither context. PARTIAL with respect to the property:
   "promptly" is "within the section that ends the term", the callback's own goroutine and the cancellation by the
   caller of Start (which ends the context before the claim is dropped) are decided by the monitor on real traces. *)
From LE Require Import Base Ev World Mon Mon2 Proto Consts GenGuards SimBasics SimOwn SimCallbacks SimTheorems GuardFacts Timing Witness.
From LE Require Import TermCtx GenTermCtx TermCtxInv TermCtxNow.
Open Scope Z_scope.

(* cancelled once the term ends, for every cause: whatever sections of the current source run, in whatever order and
   number, interleaved with cancellations of the run by the caller of Start - at every point between two of them: no context
   created for a term is live unless the instance claims leadership; no live term context has been dropped from
   e.termCancel; a live term context belongs to a live run *)
Theorem C19_partial_no_live_term_context_without_the_claim :
  forall evs, (forall p, In (EvPath p) evs -> In p term_paths /\ tp_ctor p = false) ->
  forall s, tinv s = true ->
  forall pre post s1, evs = (pre ++ post)%list -> trun s pre = Some s1 ->
  (t_il s1 = false -> t_cur s1 <> Some true) /\ t_stale s1 = false /\ (t_cur s1 = Some true -> t_run s1 = true).
Proof. exact term_ctx_now. Qed.
Print Assumptions C19_partial_no_live_term_context_without_the_claim.

(* not cancelled while the instance still leads that term: no section that starts and ends with the claim up cancels,
   clears or replaces the term's context, or cancels the run *)
Theorem C19_partial_leading_term_context_untouched :
  forall p, In p term_paths -> tp_ctor p = false -> forall s s', tinv s = true -> exec_path s (tp_ops p) = Some s' ->
  t_il s = true -> t_il s' = true -> t_cur s' = t_cur s /\ t_run s' = t_run s.
Proof. exact leading_term_untouched_now. Qed.
Print Assumptions C19_partial_leading_term_context_untouched.

Theorem C19_promotion_context_is_child_of_term_context : promote_ctx_is_term_child = true.
Proof. exact promote_ctx_is_term_child_now. Qed.
Print Assumptions C19_promotion_context_is_child_of_term_context.

Theorem C19_constructor_establishes_invariant :
  forall p, In p term_paths -> tp_ctor p = true -> exists s0, exec_path tstate0 (tp_ops p) = Some s0 /\ tinv s0 = true.
Proof. exact ctor_now. Qed.
Print Assumptions C19_constructor_establishes_invariant.

Theorem C19_table_nonvacuous :
  existsb tp_ctor term_paths = true /\
  existsb (fun p => existsb (fun o => match o with TNewTerm => true | _ => false end) (tp_ops p)) term_paths = true /\
  existsb (fun p => existsb (fun o => match o with TCancelTerm => true | _ => false end) (tp_ops p) &&
                    existsb (fun o => match o with TSetLeader false => true | _ => false end) (tp_ops p)) term_paths = true.
Proof. exact term_table_nontrivial. Qed.
Print Assumptions C19_table_nonvacuous.

Theorem C19_callbacks_alternate :
  forall tr, admits base0 tr = true -> at_every_position tr (fun b te => forall m, ~ In 801 (mon_C08 b m te) /\ ~ In 802 (mon_C08 b m te)).
Proof. exact C08_alternation_thm. Qed.
Print Assumptions C19_callbacks_alternate.

