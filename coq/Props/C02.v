(* Props/C02.v — property C02: theorems only; each closed by [exact] of a lemma proved elsewhere, followed by
   Print Assumptions. The statements are about every trace admitted by the protocol model (Sim/Proto.v,
   rules with constants regenerated from /repo), at every position of the trace. *)
From LE Require Import Base Ev World Mon Mon2 Proto Consts GenGuards Config ConfigSpec GenConfig SimBasics SimOwn SimCallbacks SimTheorems GuardFacts Timing Witness.
Open Scope Z_scope.

Theorem C02_acquisition_only_when_vacant :
  forall tr, admits base0 tr = true -> at_every_position tr (fun b te => ~ In 102 (mon_C01 b te) /\ ~ In 104 (mon_C01 b te)).
Proof. exact C01_create_and_revision_thm. Qed.
Print Assumptions C02_acquisition_only_when_vacant.

Theorem C02_claim_rests_on_own_write :
  forall tr, admits base0 tr = true -> at_every_position tr (fun b te => ~ In 1302 (mon_C13 b te)).
Proof. exact C13_claim_needs_own_write_thm. Qed.
Print Assumptions C02_claim_rests_on_own_write.

Theorem C02_lease_never_lapses_under_fast_store :
  forall cfg a_prev ap_prev e_prev a_next ap_next,
  dur_in_range cfg -> validate_config cfg = None ->
  let H := c_HeartbeatInterval cfg in
  a_prev <= ap_prev -> ap_prev <= e_prev -> 2 * (e_prev - a_prev) < H ->
  next_start_ok H a_prev e_prev a_next ->
  a_next <= ap_next -> 2 * (ap_next - a_next) < H ->
  ap_next - ap_prev < c_TTL cfg.
Proof. exact refresh_gap_lt_ttl. Qed.
Print Assumptions C02_lease_never_lapses_under_fast_store.

