(* Props/C02.v — property C02: theorems only; each closed by [exact] of a lemma proved elsewhere, followed by
   Print Assumptions. The statements are about every trace admitted by the protocol model (Sim/Proto.v,
   rules with constants regenerated from /repo), at every position of the trace. *)
From LE Require Import Base Ev World Mon Mon2 Proto Consts GenGuards Config ConfigSpec GenConfig SimBasics SimOwn SimCallbacks SimTheorems GuardFacts Timing Witness Env EnvT SimRefresh SimLease SimLeaseT SimLeaseC Witness2.
Open Scope Z_scope.

Theorem C02_acquisition_only_when_vacant :
  forall tr, admits base0 tr = true -> at_every_position tr (fun b te => ~ In 102 (mon_C01 b te) /\ ~ In 104 (mon_C01 b te)).
Proof. exact C01_create_and_revision_thm. Qed.
Print Assumptions C02_acquisition_only_when_vacant.

Theorem C02_claim_rests_on_own_write :
  forall tr, admits base0 tr = true -> at_every_position tr (fun b te => ~ In 1302 (mon_C13 b te)).
Proof. exact C13_claim_needs_own_write_thm. Qed.
Print Assumptions C02_claim_rests_on_own_write.

Theorem C02_lease_never_lapses_under_fast_store :
  forall cfg a_prev ap_prev e_prev a_next ap_next,
  dur_in_range cfg -> validate_config cfg = None ->
  let H := c_HeartbeatInterval cfg in
  a_prev <= ap_prev -> ap_prev <= e_prev -> 2 * (e_prev - a_prev) < H ->
  next_start_ok H a_prev e_prev a_next ->
  a_next <= ap_next -> 2 * (ap_next - a_next) < H ->
  ap_next - ap_prev < c_TTL cfg.
Proof. exact refresh_gap_lt_ttl. Qed.
Print Assumptions C02_lease_never_lapses_under_fast_store.


(* The claim itself: at every position of every admitted trace in the lease environment (Sim/Env.v: no priority
   takeover configured, no outside writer, no expiry and no Delete of a key under a holder), at most one instance
   claims a key and every claim is backed by the live record with the claimant's identity and current token
   (monitor clauses 201 and 202, evaluated on the state after the observation).
   PARTIAL with respect to the property text: the property's environment is "every store operation answers within
   H/2"; that this keeps the record from expiring under its holder is the arithmetic of
   [C02_lease_never_lapses_under_fast_store] above and is not yet derived for traces; "no Delete under a holder"
   excludes the recorded residual of D5 (non-atomic check-then-delete in StopWithContext). *)
Theorem C02_partial_one_claimant_backed_by_its_record :
  forall tr, admits base0 tr = true -> env_admits base0 tr = true ->
  forall pre te post, tr = pre ++ te :: post ->
    ~ In 201 (mon_C02 (bapply (brun pre) te) te) /\ ~ In 202 (mon_C02 (bapply (brun pre) te) te).
Proof. exact C02_mutual_exclusion. Qed.
Print Assumptions C02_partial_one_claimant_backed_by_its_record.

(* the hypotheses are satisfiable by a trace of the real library in which two instances claim leadership in turn *)
Theorem C02_partial_nonvacuous :
  admits base0 lease_witness = true /\ env_admits base0 lease_witness = true /\
  List.length (filter (fun te => match snd te with EFlag _ 1 _ _ _ => true | _ => false end) lease_witness) = 2%nat.
Proof. exact (conj lease_witness_admitted (conj lease_witness_env lease_witness_claims)). Qed.
Print Assumptions C02_partial_nonvacuous.

(* The same in the environment the property names (Sim/EnvT.v): every store call in flight is younger than H/2 and
   returns without a transport fault, 0 < H and 3 H <= the bucket's maximum age, a message ages out only when that old,
   nobody else writes, no health checker, no takeover. That the record does not expire under its holder is derived
   here - from the urgency rules of the protocol model (refresh ticks on time 2070, a shutdown drops the claim at once
   2072, the refresh loop is sequential 2073) - not assumed.
   PARTIAL: two hypotheses remain inside [envT_admits] - "no Delete takes effect on a key under a holder" (the recorded
   residual of D5) and "a refresh attempt of a claiming instance is answered with success" (true of the rules; its
   derivation from them is the next step, see DESIGN.md). *)
Theorem C02_partial_one_claimant_while_the_store_is_fast :
  forall tr, admits base0 tr = true -> envT_admits base0 tr = true ->
  forall pre te post, tr = pre ++ te :: post ->
    ~ In 201 (mon_C02 (bapply (brun pre) te) te) /\ ~ In 202 (mon_C02 (bapply (brun pre) te) te).
Proof. exact C02_mutual_exclusion_fast_store. Qed.
Print Assumptions C02_partial_one_claimant_while_the_store_is_fast.

Theorem C02_partial_fast_store_nonvacuous : admits base0 lease_witness = true /\ envT_admits base0 lease_witness = true.
Proof. exact (conj lease_witness_admitted lease_witness_envT). Qed.
Print Assumptions C02_partial_fast_store_nonvacuous.

(* The statement with nothing assumed about refreshes (Proofs/SimLeaseC.v): in the fast-store environment [envC_admits]
   (EnvT.v: calls in flight younger than H/2 and answered without transport fault, 0 < H, 3 H <= the bucket's maximum age,
   no early expiry, no outside writer, no health checker, no takeover, no Delete under a holder) every refresh attempt of
   a claiming instance succeeds - it goes against the key's latest revision, attempts of a term are sequential, and
   attempts left over from earlier terms expect a revision older than the write the running term rests on - hence the
   record never ages out under its holder, hence at most one claimant, backed by its record.
   PARTIAL only in this: "no Delete takes effect on a key under a holder" stays a hypothesis (the recorded residual of D5),
   and instances with a health checker are outside the environment. *)
Theorem C02_one_claimant_backed_by_its_record_while_the_store_is_fast :
  forall tr, admits base0 tr = true -> envC_admits base0 tr = true ->
  forall pre te post, tr = pre ++ te :: post ->
    ~ In 201 (mon_C02 (bapply (brun pre) te) te) /\ ~ In 202 (mon_C02 (bapply (brun pre) te) te).
Proof. exact C02_mutual_exclusion_fast_store_full. Qed.
Print Assumptions C02_one_claimant_backed_by_its_record_while_the_store_is_fast.

Theorem C02_fast_store_nonvacuous : admits base0 lease_witness = true /\ envC_admits base0 lease_witness = true.
Proof. exact (conj lease_witness_admitted lease_witness_envC). Qed.
Print Assumptions C02_fast_store_nonvacuous.
