(* Props/C13.v — property C13: theorems only; each closed by [exact] of a lemma proved elsewhere, followed by
   Print Assumptions. The statements are about every trace admitted by the protocol model (Sim/Proto.v,
   rules with constants regenerated from /repo), at every position of the trace. *)
From LE Require Import Base Ev World Mon Mon2 Proto Consts GenGuards Config ConfigSpec GenConfig SimBasics SimOwn SimCallbacks SimTheorems GuardFacts Timing Witness.
Open Scope Z_scope.

Theorem C13_claim_needs_own_write :
  forall tr, admits base0 tr = true -> at_every_position tr (fun b te => ~ In 1302 (mon_C13 b te)).
Proof. exact C13_claim_needs_own_write_thm. Qed.
Print Assumptions C13_claim_needs_own_write.

Theorem C13_no_takeover_of_unreadable_record :
  forall tr, admits base0 tr = true -> at_every_position tr (fun b te => ~ In 103 (mon_C01 b te) /\ ~ In 106 (mon_C01 b te)).
Proof. exact C01_identity_and_takeover_thm. Qed.
Print Assumptions C13_no_takeover_of_unreadable_record.

