(* Props/C08.v — property C08: theorems only; each closed by [exact] of a lemma proved elsewhere, followed by
   Print Assumptions. The statements are about every trace admitted by the protocol model (Sim/Proto.v,
   rules with constants regenerated from /repo), at every position of the trace. *)
From LE Require Import Base Ev World Mon Mon2 Proto Consts GenGuards Config ConfigSpec GenConfig SimBasics SimOwn SimCallbacks SimTheorems GuardFacts Timing Witness.
Open Scope Z_scope.

Theorem C08_callbacks_alternate :
  forall tr, admits base0 tr = true -> at_every_position tr (fun b te => forall m, ~ In 801 (mon_C08 b m te) /\ ~ In 802 (mon_C08 b m te)).
Proof. exact C08_alternation_thm. Qed.
Print Assumptions C08_callbacks_alternate.

