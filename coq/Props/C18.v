(* Props/C18.v — property C18: theorems only (see Props/C01.v for the conventions). The statement of
   this property is decided by the monitor on real traces; what is proved here is only what is listed. *)
From LE Require Import Base Ev World Mon Mon2 Proto Consts GenGuards SimBasics SimOwn SimCallbacks SimTheorems GuardFacts Timing Witness.
Open Scope Z_scope.

Theorem C18_model_state_is_invariant :
  forall tr, admits base0 tr = true -> at_every_position tr (fun b te => Inv b /\ guards b te = []).
Proof. exact admitted_everywhere. Qed.
Print Assumptions C18_model_state_is_invariant.

Theorem C18_witness_admitted :
  admits base0 witness_trace = true /\ (100 < List.length witness_trace)%nat.
Proof. exact witness_admitted. Qed.
Print Assumptions C18_witness_admitted.

