(* Props/C18.v — property C18: theorems only (see Props/C01.v for the conventions). The first clause of the property
   (every Status() snapshot is self-consistent: IsLeader exactly when State is LEADER, a leader shows its own id and its term
   token, State is a documented value) is proved from the table of status writers regenerated from the source on every run
   (gen/GenStatus.v, machine in Status.v); the rest of the statement (revision, convergence of a follower's
   LeaderID, gauge, transition chain) is decided by the monitor on real traces. *)
From LE Require Import Base Ev World Mon Mon2 Proto Consts GenGuards SimBasics SimOwn SimCallbacks SimTheorems GuardFacts Timing Witness.
From LE Require Import Locks Status GenStatus StatusInv StatusNow.
Open Scope Z_scope.

(* Whatever groups of status stores of the current source run, in whatever order and number - they are serialised by
   kvElection.mu, which every one of them holds exclusively (part of the table check) - the three fields satisfy
   "isLeader = (state = LEADER), a leader's leaderID is its own id and its token is the one its term was promoted with, state is
   a documented value" between any two of them.
   [senabled]: a group behind `if e.isLeader.Load() { return }` inside the same exclusive section runs only when the
   instance does not lead. PARTIAL with respect to the property: the revision is not in the machine (the leader's own refresh
   stores it outside the lock). *)
Theorem C18_partial_status_fields_consistent_whenever_the_lock_is_free :
  forall gs, (forall g, In g gs -> In g status_groups) ->
  forall s, SInv s -> senabled s gs ->
  forall pre post, gs = (pre ++ post)%list -> SInv (srun s pre).
Proof. exact status_consistent_now. Qed.
Print Assumptions C18_partial_status_fields_consistent_whenever_the_lock_is_free.

(* Status() loads each of the three fields with kvElection.mu held (shared), so a snapshot is taken between two groups *)
Theorem C18_status_reads_inside_the_lock : loads_ok status_loads = true.
Proof. exact status_loads_ok. Qed.
Print Assumptions C18_status_reads_inside_the_lock.

Theorem C18_constructor_establishes_consistency :
  exists g, In g status_groups /\ sg_ctor g = true /\ forall s, SInv (sstep s g).
Proof. exact ctor_establishes_now. Qed.
Print Assumptions C18_constructor_establishes_consistency.

Theorem C18_status_table_nonvacuous :
  existsb (fun g => match sg_il g with [true] => true | _ => false end) status_groups = true /\
  existsb (fun g => match sg_il g with [false] => negb (sg_ctor g) | _ => false end) status_groups = true /\
  (3 <= List.length status_loads)%nat.
Proof. exact status_table_nontrivial. Qed.
Print Assumptions C18_status_table_nonvacuous.

Theorem C18_model_state_is_invariant :
  forall tr, admits base0 tr = true -> at_every_position tr (fun b te => Inv b /\ guards b te = []).
Proof. exact admitted_everywhere. Qed.
Print Assumptions C18_model_state_is_invariant.

Theorem C18_witness_admitted :
  admits base0 witness_trace = true /\ (100 < List.length witness_trace)%nat.
Proof. exact witness_admitted. Qed.
Print Assumptions C18_witness_admitted.

