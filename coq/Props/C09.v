(* Props/C09.v — property C09: theorems only; each closed by [exact] of a lemma proved elsewhere, followed by
   Print Assumptions. The statements are about every trace admitted by the protocol model (Sim/Proto.v,
   rules with constants regenerated from /repo), at every position of the trace. *)
From LE Require Import Base Ev World Mon Mon2 Proto Consts GenGuards Config ConfigSpec GenConfig SimBasics SimOwn SimCallbacks SimTheorems GuardFacts Timing Witness.
From LE Require Import Locks GenLocks Race RaceFacts RaceNow.
Open Scope Z_scope.

Theorem C09_stopped_never_claims :
  forall tr, admits base0 tr = true -> at_every_position tr (fun b te => forall m, ~ In 901 (mon_C09 b m te)).
Proof. exact C09_stopped_never_claims_thm. Qed.
Print Assumptions C09_stopped_never_claims.

Theorem C09_stop_waits_five_seconds :
  gen_stop_default_timeout = 5 * sec.
Proof. exact stop_default_timeout_agree. Qed.
Print Assumptions C09_stop_waits_five_seconds.

Theorem C09_no_lock_order_cycle : has_cycle (order_edges acquires) = false.
Proof. exact lock_order_acyclic_now. Qed.
Print Assumptions C09_no_lock_order_cycle.
