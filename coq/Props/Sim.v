(* placeholder while the protocol model is under construction *)
From LE Require Import Base Ev World Mon Proto Run.
