(* Props/C05.v — property C05: theorems only; each closed by [exact] of a lemma proved elsewhere, followed by
   Print Assumptions. The statements are about every trace admitted by the protocol model (Sim/Proto.v,
   rules with constants regenerated from /repo), at every position of the trace. *)
From LE Require Import Base Ev World Mon Mon2 Proto Consts GenGuards Config ConfigSpec GenConfig SimBasics SimOwn SimCallbacks SimTheorems GuardFacts Timing Witness Env EnvT SimRefresh SimLease SimLeaseT SimLeaseC SimFresh Witness2.
Open Scope Z_scope.

Theorem C05_acquisition_token_readable_nonempty :
  forall b op p, Inv b -> aget (b_pend b) op = Some p -> p_kind p = kCreate ->
  sok_of b (p_val p) = true /\ tok_of b (p_val p) <> 0 /\ sid_of b (p_val p) = p_i p.
Proof. exact C05_create_token. Qed.
Print Assumptions C05_acquisition_token_readable_nonempty.

Theorem C05_invariant_holds_on_admitted_traces :
  forall tr, admits base0 tr = true -> at_every_position tr (fun b te => Inv b /\ guards b te = []).
Proof. exact admitted_everywhere. Qed.
Print Assumptions C05_invariant_holds_on_admitted_traces.

Theorem C05_refresh_republishes_term_token :
  forall tr, admits base0 tr = true -> at_every_position tr (fun b te => ~ In 105 (mon_C01 b te) /\ ~ In 503 (mon_C05 b te)).
Proof. exact refresh_legit_thm. Qed.
Print Assumptions C05_refresh_republishes_term_token.


(* first clause of the property: every successful acquisition publishes a token that has never appeared in the record
   before - for every admitted trace in which nobody else writes the bucket and no priority takeover is configured
   (Proofs/SimFresh.v: tokens in the history are tokens of applied Creates; pending Creates carry pairwise different tokens).
   PARTIAL: with an outside writer the clause is decided by the monitor only (the writer could publish any token), and the
   takeover path (which republishes the payload of the attempt's own, unsuccessful, Create) is not covered by the theorem. *)
Theorem C05_partial_acquisition_token_is_fresh :
  forall tr, admits base0 tr = true -> env5_admits base0 tr = true ->
  forall pre te post, tr = pre ++ te :: post -> ~ In 501 (mon_C05 (brun pre) te).
Proof. exact C05_acquisition_token_is_fresh. Qed.
Print Assumptions C05_partial_acquisition_token_is_fresh.

Theorem C05_partial_nonvacuous : admits base0 lease_witness = true /\ env5_admits base0 lease_witness = true.
Proof. exact (conj lease_witness_admitted lease_witness_env5). Qed.
Print Assumptions C05_partial_nonvacuous.
