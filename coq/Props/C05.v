(* Props/C05.v — property C05: theorems only; each closed by [exact] of a lemma proved elsewhere, followed by
   Print Assumptions. The statements are about every trace admitted by the protocol model (Sim/Proto.v,
   rules with constants regenerated from /repo), at every position of the trace. *)
From LE Require Import Base Ev World Mon Mon2 Proto Consts GenGuards Config ConfigSpec GenConfig SimBasics SimOwn SimCallbacks SimTheorems GuardFacts Timing Witness.
Open Scope Z_scope.

Theorem C05_acquisition_token_readable_nonempty :
  forall b op p, Inv b -> aget (b_pend b) op = Some p -> p_kind p = kCreate ->
  sok_of b (p_val p) = true /\ tok_of b (p_val p) <> 0 /\ sid_of b (p_val p) = p_i p.
Proof. exact C05_create_token. Qed.
Print Assumptions C05_acquisition_token_readable_nonempty.

Theorem C05_invariant_holds_on_admitted_traces :
  forall tr, admits base0 tr = true -> at_every_position tr (fun b te => Inv b /\ guards b te = []).
Proof. exact admitted_everywhere. Qed.
Print Assumptions C05_invariant_holds_on_admitted_traces.

Theorem C05_refresh_republishes_term_token :
  forall tr, admits base0 tr = true -> at_every_position tr (fun b te => ~ In 105 (mon_C01 b te) /\ ~ In 503 (mon_C05 b te)).
Proof. exact refresh_legit_thm. Qed.
Print Assumptions C05_refresh_republishes_term_token.

