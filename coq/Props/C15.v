(* Property C15 — error classification is total, exclusive and faithful to the NATS
   client. Statements about the classifiers regenerated from /repo/leader/error.go,
   for every error value of the algebra in Err.v. gen/GenNatsErrors.v holds the error
   values captured from the real NATS client on this run. *)
From LE Require Import Base Strs Err ErrSpec GenErrors ErrProofs GenNatsErrors.

Theorem C15_exclusive :
  forall oe, is_permanent oe = true -> is_transient oe = true -> False.
Proof. exact exclusive. Qed.
Print Assumptions C15_exclusive.

Theorem C15_nil : is_permanent None = false /\ is_transient None = false.
Proof. exact nil_neither. Qed.
Print Assumptions C15_nil.

Theorem C15_total :
  forall e, xorb (is_permanent (Some e)) (is_transient (Some e)) = true.
Proof. exact total. Qed.
Print Assumptions C15_total.

(* context cancellation, deadline expiry and TimeoutError at any depth of the Unwrap chain *)
Theorem C15_ctx_timeout_transient :
  forall e, transient_cause e = true -> permanent_cause e = false ->
            is_permanent (Some e) = false /\ is_transient (Some e) = true.
Proof. exact transient_cause_transient. Qed.
Print Assumptions C15_ctx_timeout_transient.

(* configuration, permission and missing-bucket errors at any depth *)
Theorem C15_config_permanent :
  forall e, permanent_cause e = true -> transient_cause e = false ->
            is_permanent (Some e) = true /\ is_transient (Some e) = false.
Proof. exact permanent_cause_permanent. Qed.
Print Assumptions C15_config_permanent.

(* the values the real NATS client returned on this run, by situation *)
Theorem C15_nats_faithful :
  forallb (fun se : string * err =>
             match nats_situation_permanent (fst se) with
             | Some p => Bool.eqb (is_permanent (Some (snd se))) p &&
                         Bool.eqb (is_transient (Some (snd se))) (negb p)
             | None => true
             end) nats_errors = true.
Proof. vm_compute. reflexivity. Qed.
Print Assumptions C15_nats_faithful.

(* the captured list is not empty and contains the two revision-conflict situations *)
Theorem C15_nats_nonvacuous :
  existsb (fun se : string * err => String.eqb (fst se) "create-on-live-key") nats_errors = true /\
  existsb (fun se : string * err => String.eqb (fst se) "update-stale-revision") nats_errors = true.
Proof. vm_compute. split; reflexivity. Qed.
Print Assumptions C15_nats_nonvacuous.
