(* Property C16 — configuration validation accepts exactly the documented
   configurations. Statements only; proofs live in Proofs/ConfigProofs.v and are
   about the definition regenerated from /repo/leader/validation.go. *)
From LE Require Import Base Config ConfigSpec GenConfig ConfigProofs.

Theorem C16_iff :
  forall c, dur_in_range c -> (validate_config c = None <-> valid_spec c).
Proof. exact validate_config_iff. Qed.
Print Assumptions C16_iff.

Theorem C16_field :
  forall c f, dur_in_range c -> validate_config c = Some f -> field_violated f c.
Proof. exact validate_config_field. Qed.
Print Assumptions C16_field.

(* "before the store is contacted or anything is started": the constructor's first
   statement is the validation and returns its error (fact regenerated from
   kv_election.go / election.go). *)
Theorem C16_before_store : ctor_validates_first = true.
Proof. reflexivity. Qed.
Print Assumptions C16_before_store.
