(* Props/C04.v — property C04: theorems only (see Props/C01.v for the conventions). *)
From LE Require Import Base Ev World Mon Mon2 Proto Consts GenGuards Verdict GuardFacts Timing.
Open Scope Z_scope.

Theorem C04_verdict_iff :
  forall tok me e, verdict tok me e = true <->
  tok <> 0 /\ exists x, e = Some x /\ v_mok x = true /\ v_hastok x = 1 /\ v_mtok x = tok /\ v_hasid x = 1 /\ v_mid x = me.
Proof. exact verdict_iff. Qed.
Print Assumptions C04_verdict_iff.

Theorem C04_monitor_demands_the_verdict :
  forall b i tok, record_good b i tok = verdict tok i (live_info b i).
Proof. exact record_good_is_verdict. Qed.
Print Assumptions C04_monitor_demands_the_verdict.

