(* Props/C07.v — property C07: theorems only; each closed by [exact] of a lemma proved elsewhere, followed by
   Print Assumptions. The statements are about every trace admitted by the protocol model (Sim/Proto.v,
   rules with constants regenerated from /repo), at every position of the trace. *)
From LE Require Import Base Ev World Mon Mon2 Proto Consts GenGuards Config ConfigSpec GenConfig SimBasics SimOwn SimCallbacks SimTheorems GuardFacts Timing Witness Env EnvT SimRefresh SimLease SimWatch SimLeaseT SimLeaseC SimStable Causes SimCauses SimValid Witness2.
Open Scope Z_scope.

Theorem C07_lease_never_lapses_under_fast_store :
  forall cfg a_prev ap_prev e_prev a_next ap_next,
  dur_in_range cfg -> validate_config cfg = None ->
  let H := c_HeartbeatInterval cfg in
  a_prev <= ap_prev -> ap_prev <= e_prev -> 2 * (e_prev - a_prev) < H ->
  next_start_ok H a_prev e_prev a_next ->
  a_next <= ap_next -> 2 * (ap_next - a_next) < H ->
  ap_next - ap_prev < c_TTL cfg.
Proof. exact refresh_gap_lt_ttl. Qed.
Print Assumptions C07_lease_never_lapses_under_fast_store.

Theorem C07_no_takeover_of_equal_priority :
  forall mine stored, gen_takeover_yields mine stored = (mine <=? stored).
Proof. exact takeover_yields_is_le. Qed.
Print Assumptions C07_no_takeover_of_equal_priority.


(* store calls answered within half a heartbeat interval never run into the time-outs of the validation read and of
   the refresh (so neither loop counts a failure in fault-free operation), for every heartbeat interval *)
Theorem C07_fast_store_never_times_out :
  forall H lat, 0 < H -> 2 * lat + 1 < H -> lat < gen_val_read_timeout H /\ lat < gen_hb_update_timeout H.
Proof. exact (fun H lat Hp Hl => conj (val_read_tolerates_fast_store H lat Hp Hl) (hb_update_tolerates_fast_store H lat Hp Hl)). Qed.
Print Assumptions C07_fast_store_never_times_out.

(* one cause of demotion excluded for every trace: in the fast-store environment (EnvT.envC_admits) the heartbeat-failure
   path never gives up a claim - refresh attempts of a claiming instance succeed, in time (SimLeaseC), and that path acts
   only after a failed or timed-out attempt of the running term (rule 2080, validated on every real trace; it exposed
   defect 7e97bac). PARTIAL: the other causes of demotion (validation, watcher, connection, health) are decided by the
   monitor on the fault-free traces only. *)
Theorem C07_partial_never_demoted_by_refresh_failure :
  forall tr, admits base0 tr = true -> envC_admits base0 tr = true ->
  forall pre te post, tr = pre ++ te :: post -> hb_demotion (brun pre) te = false.
Proof. exact C07_never_demoted_by_refresh_failure. Qed.
Print Assumptions C07_partial_never_demoted_by_refresh_failure.

(* the record never lapses or changes owner under a claiming leader (C02's theorem, restated for this property) *)
Theorem C07_partial_record_stays_with_the_leader :
  forall tr, admits base0 tr = true -> envC_admits base0 tr = true ->
  forall pre te post, tr = pre ++ te :: post ->
    ~ In 201 (mon_C02 (bapply (brun pre) te) te) /\ ~ In 202 (mon_C02 (bapply (brun pre) te) te).
Proof. exact C02_mutual_exclusion_fast_store_full. Qed.
Print Assumptions C07_partial_record_stays_with_the_leader.

(* a second cause of demotion excluded for every trace: in the lease environment (Env.env_admits: nobody else writes the
   bucket, no takeover configured, no expiry or Delete under a holder - no timing assumption) the watcher path ("preempted")
   never gives up a claim. That path acts only on a readable version of the record that names another instance and is newer
   than the write the running term rests on (rule 2082, validated on every real trace), and while an instance holds a claim
   every newer readable version of its record is its own (Proofs/SimWatch.v, from the lease invariant applied to the state
   after each write). Late, duplicated or reordered notifications therefore never disturb the leader, whatever their delay. *)
Theorem C07_partial_never_demoted_by_the_watcher :
  forall tr, admits base0 tr = true -> env_admits base0 tr = true ->
  forall pre te post, tr = pre ++ te :: post -> watch_demotion (brun pre) te = false.
Proof. exact C07_never_demoted_by_the_watcher. Qed.
Print Assumptions C07_partial_never_demoted_by_the_watcher.

Theorem C07_partial_watcher_nonvacuous : admits base0 lease_witness = true /\ env_admits base0 lease_witness = true.
Proof. exact (conj lease_witness_admitted lease_witness_env). Qed.
Print Assumptions C07_partial_watcher_nonvacuous.

(* four more causes excluded, for every trace that satisfies rules 2083-2085 (Sim/Causes.v, validated on every real trace like
   the rules of Proto.v) in the quiet environment of this property (no connection notification, healthy health checks): the
   grace-period path, the verification after a reconnect, the health path and the acquisition rounds never give up a claim.
   With the two theorems above, what can end a term in the property's environment is a stop, a cancelled context, or the
   validation of the fencing token - the last one is decided by the monitor only. *)
Theorem C07_partial_never_demoted_by_connection_health_or_acquisition :
  forall tr, cadmits base0 caux0 tr = true -> envQ_admits tr = true ->
  forall pre te post, tr = pre ++ te :: post -> other_demotion (brun pre) te = false.
Proof. exact (fun tr => C07_never_demoted_by_connection_health_or_acquisition tr base0 caux0 eq_refl eq_refl). Qed.
Print Assumptions C07_partial_never_demoted_by_connection_health_or_acquisition.

Theorem C07_partial_quiet_nonvacuous : cadmits base0 caux0 lease_witness = true /\ envQ_admits lease_witness = true.
Proof. exact quiet_witness. Qed.
Print Assumptions C07_partial_quiet_nonvacuous.

(* the last cause other than a stop: in the fast-store environment the instance's own validation loop never gives up a claim
   (Proofs/SimValid.v). Rule 2086 (the loop acts only on a validation read issued after the running term began that timed out or
   was answered with an error or a foreign record) meets: a fast store answers before the time-out; no answer is an error; a read
   applied while its issuer claims returns the issuer's own record (lease invariant) in the view of the decoder the validation
   uses (rule 2090). *)
Theorem C07_partial_never_demoted_by_validation :
  forall tr, admits base0 tr = true -> cadmits base0 caux0 tr = true -> envC_admits base0 tr = true ->
  forall pre te post, tr = pre ++ te :: post -> val_demotion (brun pre) te = false.
Proof. exact C07_never_demoted_by_validation. Qed.
Print Assumptions C07_partial_never_demoted_by_validation.

(* all together: in the property's environment - a store that answers within half a heartbeat interval without transport
   faults, nobody else writing the bucket, no takeover or health checker configured, no expiry or Delete under a holder
   (envC, env), no connection notification and no unhealthy result (envQ) - no observation of any admitted trace shows a claim
   given up by the refresh-failure path, the watcher, the connection paths, the health path, an acquisition round or the
   instance's own validation loop: what is left is a stop call, the cancellation of the context passed to Start and the
   fencing check the application itself asks for (ValidateTokenOrDemote).
   PARTIAL with respect to the property text: (1) the local rules (Proto.v, Causes.v) are validated on real traces, not
   derived from the source; (2) "no Delete under a holder" is the residual window D5; (3) "with the same token" and the
   callbacks are C05 / C08. *)
Theorem C07_partial_only_a_stop_ends_a_term :
  forall tr, admits base0 tr = true -> cadmits base0 caux0 tr = true ->
  envC_admits base0 tr = true -> env_admits base0 tr = true -> envQ_admits tr = true ->
  forall pre te post, tr = pre ++ te :: post ->
    hb_demotion (brun pre) te = false /\ watch_demotion (brun pre) te = false /\
    other_demotion (brun pre) te = false /\ val_demotion (brun pre) te = false.
Proof.
  exact (fun tr A Ca EC E0 EQ pre te post Eq =>
    conj (C07_never_demoted_by_refresh_failure tr A EC pre te post Eq)
   (conj (C07_never_demoted_by_the_watcher tr A E0 pre te post Eq)
   (conj (C07_never_demoted_by_connection_health_or_acquisition tr base0 caux0 eq_refl eq_refl Ca EQ pre te post Eq)
         (C07_never_demoted_by_validation tr A Ca EC pre te post Eq)))).
Qed.
Print Assumptions C07_partial_only_a_stop_ends_a_term.

Theorem C07_partial_all_nonvacuous :
  admits base0 lease_witness = true /\ cadmits base0 caux0 lease_witness = true /\ envC_admits base0 lease_witness = true /\
  env_admits base0 lease_witness = true /\ envQ_admits lease_witness = true.
Proof. exact (conj lease_witness_admitted (conj (proj1 quiet_witness) (conj lease_witness_envC (conj lease_witness_env (proj2 quiet_witness))))). Qed.
Print Assumptions C07_partial_all_nonvacuous.
