(* Props/C06.v — property C06: theorems only; each closed by [exact] of a lemma proved elsewhere, followed by
   Print Assumptions. The statements are about every trace admitted by the protocol model (Sim/Proto.v,
   rules with constants regenerated from /repo), at every position of the trace. *)
From LE Require Import Base Ev World Mon Mon2 Proto Consts GenGuards Config ConfigSpec GenConfig SimBasics SimOwn SimCallbacks SimTheorems GuardFacts Timing Witness.
Open Scope Z_scope.

Theorem C06_vacancy_fill_bound :
  forall tv tick get_done round_start create_done L,
  0 <= L -> tick <= tv + gen_watch_check_interval -> get_done <= tick + L ->
  round_start <= get_done + gen_round_jitter_max -> create_done <= round_start + L ->
  create_done <= tv + watch_check_interval + round_jitter_max + 4 * L.
Proof. exact vacancy_fill_bound. Qed.
Print Assumptions C06_vacancy_fill_bound.

Theorem C06_check_interval_is_500ms :
  gen_watch_check_interval = 500 * ms.
Proof. exact watch_check_interval_agree. Qed.
Print Assumptions C06_check_interval_is_500ms.

