(* RaceNow.v — the lock discipline and lock order of the CURRENT source, by computation over gen/GenLocks.v. *)
From LE Require Import Base Locks GenLocks Race RaceFacts.
Open Scope string_scope.

Lemma discipline_now : racy_fields accesses = [("kvElection", "ctx")].
Proof. vm_compute. reflexivity. Qed.

Lemma lock_order_acyclic_now : has_cycle (order_edges acquires) = false.
Proof. vm_compute. reflexivity. Qed.

(* every conflicting pair of accesses outside the listed field is excluded by a common lock held exclusively by
   the writing side: the premise of Race.lock_orders_accesses *)
Lemma discipline_pairs : forall a1 a2, In a1 accesses -> In a2 accesses ->
  conflicting a1 a2 = true -> a_write a1 = true ->
  excluded a1 a2 = true \/ (a_struct a1 = "kvElection" /\ a_field a1 = "ctx").
Proof.
  assert (H : forallb (fun a1 => forallb (fun a2 =>
              negb (conflicting a1 a2 && a_write a1) || excluded a1 a2 ||
              (String.eqb (a_struct a1) "kvElection" && String.eqb (a_field a1) "ctx")) accesses) accesses = true)
    by (vm_compute; reflexivity).
  intros a1 a2 H1 H2 Hc Hw.
  rewrite forallb_forall in H. specialize (H a1 H1). rewrite forallb_forall in H. specialize (H a2 H2).
  rewrite Hc, Hw in H. cbn in H.
  destruct (excluded a1 a2); [left; reflexivity|]. cbn in H.
  apply andb_prop in H. destruct H as [A B]. apply String.eqb_eq in A. apply String.eqb_eq in B. right. auto.
Qed.
