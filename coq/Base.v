(* Base.v — arithmetic and list helpers shared by the whole development. *)
From Coq Require Export ZArith List Bool String Lia.
Export ListNotations.
Open Scope Z_scope.

(** Go's int64 arithmetic: results are reduced into [-2^63, 2^63). *)
Definition two63 : Z := 9223372036854775808.
Definition two64 : Z := 18446744073709551616.
Definition wrap64 (x : Z) : Z := (x + two63) mod two64 - two63.

Definition in_int64 (x : Z) : Prop := - two63 <= x < two63.

Lemma wrap64_id : forall x, in_int64 x -> wrap64 x = x.
Proof.
  intros x [Hlo Hhi]. unfold wrap64.
  rewrite Z.mod_small; [lia|]. unfold two63, two64 in *. lia.
Qed.

Lemma wrap64_range : forall x, in_int64 (wrap64 x).
Proof.
  intros x. unfold wrap64, in_int64.
  pose proof (Z.mod_pos_bound (x + two63) two64 ltac:(unfold two64; lia)) as H.
  unfold two63, two64 in *. lia.
Qed.

(** Durations are nanoseconds. *)
Definition ns : Z := 1.
Definition us : Z := 1000.
Definition ms : Z := 1000000.
Definition sec : Z := 1000000000.
