(* Err.v — the algebra of error values the classifiers are applied to, with the
   two observations the classifiers make: the Error() text and errors.Is /
   errors.As along the Unwrap chain. Hand-written model; validated on every run
   by the pure harness (texts and classifications compared with Go). *)
From LE Require Import Base Strs.

(** Sentinels the classifiers test with errors.Is; every other sentinel or opaque
    error value (library sentinels, nats.go's exported errors, API errors) is
    [SOther text] — for the classifiers only its text matters. *)
Inductive sentinel :=
| SCanceled | SDeadline | SInvalidConfig | SPermissionDenied | SBucketNotFound
| SOther (text : string).

Definition sentinel_text (s : sentinel) : string :=
  match s with
  | SCanceled => "context canceled"
  | SDeadline => "context deadline exceeded"
  | SInvalidConfig => "invalid config"
  | SPermissionDenied => "permission denied"
  | SBucketNotFound => "bucket not found"
  | SOther t => t
  end.

Definition sentinel_eqb (a b : sentinel) : bool :=
  match a, b with
  | SCanceled, SCanceled | SDeadline, SDeadline | SInvalidConfig, SInvalidConfig
  | SPermissionDenied, SPermissionDenied | SBucketNotFound, SBucketNotFound => true
  | SOther x, SOther y => String.eqb x y
  | _, _ => false
  end.

Inductive err :=
| EPlain (text : string)                                   (* errors.New, fmt.Errorf without %w *)
| ESent (s : sentinel)
| EWrap (pre : string) (inner : err) (post : string)       (* fmt.Errorf(pre + "%w" + post, inner) *)
| ETimeout (op : string) (dur : string) (inner : option err)          (* *TimeoutError; dur = fmt.Sprint(Timeout) *)
| EElection (code inst reason : string) (inner : option err)          (* *ElectionError *)
| ETokenVal (loc kv reason : string) (inner : option err)             (* *TokenValidationError *)
| EValidation (field : string) (value : option string) (reason : string) (inner : option err). (* *ValidationError; value = fmt.Sprint(Value) *)

Definition nonempty (s : string) : bool := negb (String.eqb s "").
Local Open Scope string_scope.

(** Error() *)
Fixpoint msg (e : err) : string :=
  match e with
  | EPlain t => t
  | ESent s => sentinel_text s
  | EWrap pre i post => pre ++ msg i ++ post
  | ETimeout op dur i =>
    match i with
    | Some i => "operation " ++ op ++ " timed out after " ++ dur ++ ": " ++ msg i
    | None => if nonempty op then "operation " ++ op ++ " timed out after " ++ dur
              else "operation timed out after " ++ dur
    end
  | EElection code inst reason i =>
    "election error [" ++ code ++ "]" ++
    (if nonempty inst then " for instance " ++ inst else "") ++
    (if nonempty reason then ": " ++ reason else "") ++
    (match i with Some i => ": " ++ msg i | None => "" end)
  | ETokenVal loc kv reason i =>
    "token validation failed: " ++ reason ++
    (if (nonempty loc && nonempty kv)%bool then " (local: " ++ loc ++ ", kv: " ++ kv ++ ")" else "") ++
    (match i with Some i => ": " ++ msg i | None => "" end)
  | EValidation field value reason i =>
    "invalid configuration: field " ++ field ++
    (match value with Some v => " = " ++ v | None => "" end) ++
    (if nonempty reason then ": " ++ reason else "") ++
    (match i with Some i => ": " ++ msg i | None => "" end)
  end.

(** errors.Is(e, sentinel): identity at each node of the Unwrap chain. (TimeoutError's
    own Is method only answers for *TimeoutError targets, so it never matches a sentinel.) *)
Fixpoint err_is (e : err) (s : sentinel) : bool :=
  match e with
  | EPlain _ => false
  | ESent s' => sentinel_eqb s' s
  | EWrap _ i _ => err_is i s
  | ETimeout _ _ i | EElection _ _ _ i | ETokenVal _ _ _ i | EValidation _ _ _ i =>
    match i with Some i => err_is i s | None => false end
  end.

(** errors.As(e, **TimeoutError) *)
Fixpoint err_as_timeout (e : err) : bool :=
  match e with
  | EPlain _ | ESent _ => false
  | ETimeout _ _ _ => true
  | EWrap _ i _ => err_as_timeout i
  | EElection _ _ _ i | ETokenVal _ _ _ i | EValidation _ _ _ i =>
    match i with Some i => err_as_timeout i | None => false end
  end.

(** _, ok := e.( *TimeoutError ) — the outermost value only *)
Definition top_is_timeout (e : err) : bool :=
  match e with ETimeout _ _ _ => true | _ => false end.
