(* RaceQuery.v — printed on every run of check C20: the unprotected pairs and the lock-order edges of the
   current source (used to name the failing pair when the discipline theorem breaks). Not part of the proofs. *)
From LE Require Import Base Locks GenLocks Race RaceFacts.
Eval vm_compute in pair_keys accesses.
Eval vm_compute in order_edges acquires.
Eval vm_compute in has_cycle (order_edges acquires).
