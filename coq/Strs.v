(* Strs.v — byte-string helpers: ASCII lower-casing and substring test, as used by
   the error classifiers (strings.ToLower / strings.Contains on ASCII text). *)
From Coq Require Import Ascii.
From LE Require Import Base.

Definition lower_ascii (a : ascii) : ascii :=
  let n := nat_of_ascii a in
  if (Nat.leb 65 n && Nat.leb n 90)%bool then ascii_of_nat (n + 32) else a.

Fixpoint lower (s : string) : string :=
  match s with
  | EmptyString => EmptyString
  | String a r => String (lower_ascii a) (lower r)
  end.

Fixpoint prefixb (p s : string) : bool :=
  match p with
  | EmptyString => true
  | String a p' =>
    match s with
    | EmptyString => false
    | String b s' => (Ascii.eqb a b && prefixb p' s')%bool
    end
  end.

(** [contains s p]: p occurs in s as a contiguous substring. *)
Fixpoint contains (s p : string) : bool :=
  (prefixb p s ||
   match s with
   | EmptyString => false
   | String _ s' => contains s' p
   end)%bool.

Lemma prefixb_correct : forall p s, prefixb p s = true <-> exists r, s = (p ++ r)%string.
Proof.
  induction p as [|a p IH]; intros s; cbn [prefixb].
  - split; [intros _; exists s; reflexivity | reflexivity].
  - destruct s as [|b s]; [split; [discriminate | intros [r H]; discriminate]|].
    rewrite andb_true_iff, Ascii.eqb_eq, IH. split.
    + intros [-> [r ->]]. exists r. reflexivity.
    + intros [r H]. cbn in H. inversion H; subst. split; [reflexivity | exists r; reflexivity].
Qed.

Lemma contains_correct : forall s p,
  contains s p = true <-> exists l r, s = (l ++ p ++ r)%string.
Proof.
  induction s as [|a s IH]; intros p; cbn [contains].
  - rewrite orb_false_r, prefixb_correct. split.
    + intros [r H]. exists EmptyString, r. exact H.
    + intros [l [r H]]. destruct l; cbn in H; [exists r; exact H | discriminate].
  - rewrite orb_true_iff, prefixb_correct, IH. split.
    + intros [[r H] | [l [r H]]].
      * exists EmptyString, r. exact H.
      * exists (String a l), r. cbn. rewrite H. reflexivity.
    + intros [l [r H]]. destruct l as [|b l]; cbn in H.
      * left. exists r. exact H.
      * right. inversion H; subst. exists l, r. reflexivity.
Qed.
