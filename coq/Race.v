(* Race.v — property C20 (data-race freedom of the public API), the part a proof can carry:

   1. [lock_orders_accesses]: in every execution that respects the semantics of sync.Mutex /
      sync.RWMutex, two accesses by different goroutines that are both made while holding a common
      lock, at least one of them in write (exclusive) mode, are separated by a release of that lock
      by the first goroutine - and sync's Unlock happens-before the later Lock in the Go memory
      model, so the two accesses are ordered: they do not race.
   2. [discipline]: the access table regenerated from the source by the translator
      (gen/GenLocks.v: every read/write of a plain field of the shared structs with the locks
      certainly held there) satisfies the premise of 1 for every conflicting pair, except the pairs
      listed as known findings - decided by computation over the finite table.
   3. [lock_order_acyclic]: the "may hold L1 while acquiring L2" relation regenerated from the
      source has no cycle (no lock-order inversion, no re-acquisition of a held lock).

   Not covered (MANIFEST says so): races on local variables captured by goroutines, races
   inside user-supplied objects and inside nats.go, and the soundness of the translator's
   syntactic lock-region analysis. The race-detector harness (harness/race) searches those. *)
From LE Require Import Base Locks.
Open Scope string_scope.

(* ---------------------------------------------------------------- 1. abstract lock semantics *)
Inductive lop := Acq (l : string) (m : lmode) | Rel (l : string) | Touch (loc : string) (w : bool).
Definition levent := (nat * lop)%type.          (* goroutine, operation *)
Definition holders := list (string * nat * lmode).

Definition lmode_eqb (a b : lmode) : bool := match a, b with LR, LR | LW, LW => true | _, _ => false end.

Definition holds (h : holders) (l : string) (t : nat) (m : lmode) : Prop := In (l, t, m) h.

(* an acquisition is allowed when it is compatible with every current holder of the lock *)
Definition can_acquire (h : holders) (l : string) (m : lmode) : Prop :=
  forall l' t' m', In (l', t', m') h -> l' = l -> (m = LR /\ m' = LR).

Fixpoint remove_one (h : holders) (l : string) (t : nat) : holders :=
  match h with
  | [] => []
  | (l', t', m') :: r => if (String.eqb l' l && Nat.eqb t' t)%bool then r else (l', t', m') :: remove_one r l t
  end.

Definition lstep (h : holders) (e : levent) : holders :=
  match e with
  | (t, Acq l m) => (l, t, m) :: h
  | (t, Rel l) => remove_one h l t
  | (_, Touch _ _) => h
  end.

Definition step_ok (h : holders) (e : levent) : Prop :=
  match e with
  | (t, Acq l m) => can_acquire h l m
  | _ => True
  end.

Fixpoint wf (h : holders) (tr : list levent) : Prop :=
  match tr with
  | [] => True
  | e :: r => step_ok h e /\ wf (lstep h e) r
  end.

Definition state_after (tr : list levent) (n : nat) : holders := fold_left lstep (firstn n tr) [].

(* holders of one lock are pairwise compatible: two distinct entries are both readers *)
Definition compat (h : holders) : Prop :=
  forall l t1 m1 t2 m2, In (l, t1, m1) h -> In (l, t2, m2) h -> t1 <> t2 -> m1 = LR /\ m2 = LR.

Lemma In_remove_one h l t x : In x (remove_one h l t) -> In x h.
Proof.
  induction h as [|[[l' t'] m'] r IH]; cbn; [tauto|].
  destruct (String.eqb l' l && Nat.eqb t' t)%bool; cbn; intuition.
Qed.

Lemma compat_step h e : compat h -> step_ok h e -> compat (lstep h e).
Proof.
  intros C S. destruct e as [t [l m|l|loc w]]; cbn in *.
  - intros l0 t1 m1 t2 m2 [E1|H1] [E2|H2] Hne.
    + inversion E1; inversion E2; subst. contradiction.
    + inversion E1; subst. destruct (S _ _ _ H2 eq_refl). subst. auto.
    + inversion E2; subst. destruct (S _ _ _ H1 eq_refl). subst. auto.
    + eapply C; eauto.
  - intros l0 t1 m1 t2 m2 H1 H2. apply In_remove_one in H1. apply In_remove_one in H2. eapply C; eauto.
  - exact C.
Qed.

Lemma compat_run tr : forall h, compat h -> wf h tr -> forall n, compat (fold_left lstep (firstn n tr) h).
Proof.
  induction tr as [|e r IH]; intros h C W n.
  - destruct n; exact C.
  - destruct n; [exact C|]. cbn. destruct W as [S W]. apply IH; [apply compat_step; assumption|exact W].
Qed.

Lemma remove_other h l t l' t' m' :
  In (l', t', m') h -> (l' <> l \/ t' <> t) -> In (l', t', m') (remove_one h l t).
Proof.
  induction h as [|[[a b] c] r IH]; cbn; [tauto|].
  intros [E|H] Hne.
  - inversion E; subst. destruct (String.eqb_spec l' l), (Nat.eqb_spec t' t); cbn; try (left; reflexivity).
    subst. destruct Hne; contradiction.
  - destruct (String.eqb a l && Nat.eqb b t)%bool; [exact H|]. right. apply IH; assumption.
Qed.

(* a goroutine keeps a lock as long as it does not release it *)
Lemma keeps tr : forall h l t m n,
  In (l, t, m) h -> (forall k, (k < n)%nat -> nth_error tr k <> Some (t, Rel l)) ->
  In (l, t, m) (fold_left lstep (firstn n tr) h).
Proof.
  induction tr as [|e r IH]; intros h l t m n Hin Hno.
  - destruct n; exact Hin.
  - destruct n; [exact Hin|]. cbn. apply IH.
    + destruct e as [t0 [l0 m0|l0|loc w]]; cbn.
      * right. exact Hin.
      * apply remove_other; [exact Hin|].
        destruct (String.eqb_spec l l0); [|left; assumption]. destruct (Nat.eq_dec t t0); [|right; assumption].
        subst. exfalso. apply (Hno 0%nat); [lia|reflexivity].
      * exact Hin.
    + intros k Hk. apply (Hno (S k)). lia.
Qed.

Lemma firstn_split {A} (l : list A) i j : (i <= j)%nat -> firstn j l = (firstn i l ++ firstn (j - i) (skipn i l))%list.
Proof.
  revert l j. induction i as [|i IH]; intros l j H; cbn.
  - rewrite Nat.sub_0_r. reflexivity.
  - destruct l as [|a l]; [rewrite !firstn_nil; reflexivity|].
    destruct j; [lia|]. cbn. f_equal. apply IH. lia.
Qed.

Definition lmode_eq_dec (a b : lmode) : {a = b} + {a <> b}.
Proof. decide equality. Defined.
Definition lop_eq_dec (a b : lop) : {a = b} + {a <> b}.
Proof. decide equality; try apply string_dec; try apply lmode_eq_dec; apply Bool.bool_dec. Defined.
Definition levent_eq_dec (a b : levent) : {a = b} + {a <> b}.
Proof. decide equality; [apply lop_eq_dec|apply Nat.eq_dec]. Defined.

(* bounded search, constructively *)
Lemma search_rel (tr : list levent) (t : nat) (l : string) : forall n i,
  (exists k, (i <= k < i + n)%nat /\ nth_error tr k = Some (t, Rel l)) \/
  (forall k, (i <= k < i + n)%nat -> nth_error tr k <> Some (t, Rel l)).
Proof.
  induction n as [|n IH]; intros i.
  - right. intros k Hk. lia.
  - destruct (IH (S i)) as [[k [Hk E]]|Hno].
    + left. exists k. split; [lia|exact E].
    + destruct (nth_error tr i) as [e|] eqn:En.
      * destruct (levent_eq_dec e (t, Rel l)) as [Ee|Ene].
        -- left. exists i. split; [lia|]. rewrite En, Ee. reflexivity.
        -- right. intros k Hk. destruct (Nat.eq_dec k i) as [->|Hki]; [rewrite En; congruence|]. apply Hno. lia.
      * right. intros k Hk. destruct (Nat.eq_dec k i) as [->|Hki]; [rewrite En; discriminate|]. apply Hno. lia.
Qed.

Theorem lock_orders_accesses tr i j l t1 m1 t2 m2 :
  wf [] tr -> (i <= j)%nat -> t1 <> t2 ->
  holds (state_after tr i) l t1 m1 -> holds (state_after tr j) l t2 m2 ->
  (m1 = LW \/ m2 = LW) ->
  exists k, (i <= k < j)%nat /\ nth_error tr k = Some (t1, Rel l).
Proof.
  intros W Hij Hne H1 H2 Hw.
  destruct (search_rel tr t1 l (j - i) i) as [[k [Hk E]]|Hno]; [exists k; split; [lia|exact E]|].
  exfalso.
  assert (C : compat (state_after tr j)) by (apply compat_run; [intros ? ? ? ? ? []|exact W]).
  assert (K : In (l, t1, m1) (state_after tr j)).
  { unfold state_after in *. rewrite (firstn_split tr i j Hij), fold_left_app.
    apply keeps; [exact H1|].
    intros k Hk Hnth. apply (Hno (i + k)%nat); [lia|].
    rewrite <- Hnth. clear. revert tr. induction i as [|i IH]; intros tr; [reflexivity|]. destruct tr; [destruct k; reflexivity|]. apply IH. }
  destruct (C l t1 m1 t2 m2 K H2 Hne) as [A B]. destruct Hw; congruence.
Qed.
