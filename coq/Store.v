(* Store.v — reference model of one JetStream KV bucket (history 1, optional bucket
   TTL) as observed through the library's adapter. Hand-written; it is the contract
   of property C14 and the substrate of the election model. It mirrors
   /verif/harness/refstore (the Go reference store used by the simulator); both are
   compared with the real adapter on an embedded nats-server on every run of C14.

   seq      bucket-wide last sequence; +1 for every successful Create/Update and every Delete
   last     per key the last stored message (revision, value, tombstone?); no entry = no message
   watchers per watcher a FIFO of undelivered entries plus the bookkeeping of the nil
            "initial values done" marker of nats.go
   Expiry (bucket TTL) and conflation (Drop) are explicit environment steps. *)
From LE Require Import Base.
Open Scope Z_scope.

Record smsg := mkMsg { m_rev : Z; m_val : string; m_tomb : bool }.

Record watcher := mkW {
  w_key : string;
  w_data : list (Z * string);   (* undelivered non-nil entries, increasing revisions *)
  w_initPending : nat;          (* 0 or 1: entries to deliver before the nil marker *)
  w_delivered : nat;            (* non-nil entries delivered so far *)
  w_markerDue : bool;           (* the nil marker has not been delivered yet *)
  w_stopped : bool
}.

Record store := mkStore {
  s_seq : Z;
  s_last : list (string * smsg);   (* association list, first match wins *)
  s_watchers : list watcher        (* addressed by position *)
}.

Definition empty_store : store := mkStore 0 [] [].

Fixpoint lookup (l : list (string * smsg)) (k : string) : option smsg :=
  match l with
  | [] => None
  | (k', m) :: r => if String.eqb k' k then Some m else lookup r k
  end.

Fixpoint remove_key (l : list (string * smsg)) (k : string) : list (string * smsg) :=
  match l with
  | [] => []
  | (k', m) :: r => if String.eqb k' k then remove_key r k else (k', m) :: remove_key r k
  end.

Definition last_msg (s : store) (k : string) : option smsg := lookup (s_last s) k.

(** the key's last revision as the server sees it (0 when it holds no message) *)
Definition last_rev (s : store) (k : string) : Z :=
  match last_msg s k with Some m => m_rev m | None => 0 end.

Definition live (s : store) (k : string) : bool :=
  match last_msg s k with Some m => negb (m_tomb m) | None => false end.

Inductive skind := KOk | KKeyExists | KWrongLastSeq | KNotFound.
Record outcome := mkOut { o_kind : skind; o_rev : Z; o_val : string }.

Definition notify (k : string) (rev : Z) (v : string) (w : watcher) : watcher :=
  if (negb (w_stopped w) && String.eqb (w_key w) k)%bool
  then mkW (w_key w) (w_data w ++ [(rev, v)]) (w_initPending w) (w_delivered w) (w_markerDue w) (w_stopped w)
  else w.

Definition publish (s : store) (k : string) (v : string) (tomb : bool) : store * Z :=
  let rev := s_seq s + 1 in
  (mkStore rev ((k, mkMsg rev v tomb) :: s_last s) (map (notify k rev v) (s_watchers s)), rev).

Definition create (s : store) (k v : string) : store * outcome :=
  if live s k then (s, mkOut KKeyExists 0 "")
  else let '(s', rev) := publish s k v false in (s', mkOut KOk rev "").

Definition update (s : store) (k v : string) (rev : Z) : store * outcome :=
  if negb (rev =? last_rev s k) then (s, mkOut KWrongLastSeq 0 "")
  else let '(s', r) := publish s k v false in (s', mkOut KOk r "").

Definition get (s : store) (k : string) : outcome :=
  match last_msg s k with
  | Some m => if m_tomb m then mkOut KNotFound 0 "" else mkOut KOk (m_rev m) (m_val m)
  | None => mkOut KNotFound 0 ""
  end.

Definition delete (s : store) (k : string) : store * outcome :=
  let '(s', rev) := publish s k "" true in (s', mkOut KOk rev "").

(** environment: the key's stored message aged out (silently) *)
Definition expire (s : store) (k : string) : store :=
  mkStore (s_seq s) (remove_key (s_last s) k) (s_watchers s).

(** returns the new store and the index of the new watcher *)
Definition watch (s : store) (k : string) : store * nat :=
  let w :=
    match last_msg s k with
    | Some m => mkW k [(m_rev m, m_val m)] 1 0 true false
    | None => mkW k [] 0 0 true false
    end in
  (mkStore (s_seq s) (s_last s) (s_watchers s ++ [w]), List.length (s_watchers s)).

(** position in w_data before which the nil marker is delivered; None = not deliverable now *)
Definition marker_pos (w : watcher) : option nat :=
  if w_markerDue w then
    let need := (w_initPending w - w_delivered w)%nat in
    if Nat.leb need (List.length (w_data w)) then Some need else None
  else None.

(** an entry delivered on the watcher's channel: None = nil marker *)
Definition wentry := option (Z * string).

Definition wpop (w : watcher) : option (wentry * watcher) :=
  match marker_pos w with
  | Some O => Some (None, mkW (w_key w) (w_data w) (w_initPending w) (w_delivered w) false (w_stopped w))
  | _ =>
    match w_data w with
    | [] => None
    | e :: r => Some (Some e, mkW (w_key w) r (w_initPending w) (S (w_delivered w)) (w_markerDue w) (w_stopped w))
    end
  end.

Fixpoint drop_rev (l : list (Z * string)) (rev : Z) : option (list (Z * string)) :=
  match l with
  | [] => None
  | (r, v) :: rest =>
    if r =? rev then (match rest with [] => None | _ => Some rest end)
    else match drop_rev rest rev with Some rest' => Some ((r, v) :: rest') | None => None end
  end.

(** environment: conflation — a pending, already overwritten revision is skipped *)
Definition wdrop (w : watcher) (rev : Z) : option watcher :=
  match drop_rev (w_data w) rev with
  | Some d => Some (mkW (w_key w) d (w_initPending w) (w_delivered w) (w_markerDue w) (w_stopped w))
  | None => None
  end.

Definition wstop (w : watcher) : watcher :=
  mkW (w_key w) (w_data w) (w_initPending w) (w_delivered w) (w_markerDue w) true.

Fixpoint set_nth {A} (l : list A) (n : nat) (x : A) : list A :=
  match l, n with
  | [], _ => []
  | _ :: r, O => x :: r
  | y :: r, S n' => y :: set_nth r n' x
  end.

Definition with_watcher (s : store) (i : nat) (w : watcher) : store :=
  mkStore (s_seq s) (s_last s) (set_nth (s_watchers s) i w).

(** ---------------------------------------------------------------- *)
(** Operation sequences (what natsdiff runs against the real adapter) *)
Inductive sop :=
| OCreate (k v : string)
| OUpdate (k v : string) (rev : Z)
| OGet (k : string)
| ODelete (k : string)
| OExpire (k : string)
| OWatch (k : string)
| OPop (w : nat)            (* receive one entry from watcher w *)
| ODrop (w : nat) (rev : Z)
| OStop (w : nat).

Inductive sres :=
| RKV (o : outcome)
| RWatch (w : nat)
| RPop (e : option wentry)  (* None: nothing to deliver *)
| RUnit
| RBad.                     (* ill-formed step (unknown watcher, illegal drop) *)

Definition sstep (s : store) (o : sop) : store * sres :=
  match o with
  | OCreate k v => let '(s', r) := create s k v in (s', RKV r)
  | OUpdate k v rev => let '(s', r) := update s k v rev in (s', RKV r)
  | OGet k => (s, RKV (get s k))
  | ODelete k => let '(s', r) := delete s k in (s', RKV r)
  | OExpire k => (expire s k, RUnit)
  | OWatch k => let '(s', i) := watch s k in (s', RWatch i)
  | OPop i =>
    match nth_error (s_watchers s) i with
    | Some w =>
      match wpop w with
      | Some (e, w') => (with_watcher s i w', RPop (Some e))
      | None => (s, RPop None)
      end
    | None => (s, RBad)
    end
  | ODrop i rev =>
    match nth_error (s_watchers s) i with
    | Some w => match wdrop w rev with Some w' => (with_watcher s i w', RUnit) | None => (s, RBad) end
    | None => (s, RBad)
    end
  | OStop i =>
    match nth_error (s_watchers s) i with
    | Some w => (with_watcher s i (wstop w), RUnit)
    | None => (s, RBad)
    end
  end.

Fixpoint srun (s : store) (ops : list sop) : store * list sres :=
  match ops with
  | [] => (s, [])
  | o :: r => let '(s1, x) := sstep s o in let '(s2, xs) := srun s1 r in (s2, x :: xs)
  end.
