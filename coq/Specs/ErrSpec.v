(* Specs/ErrSpec.v — what property C15 demands of the two classifiers, as an
   executable check on (error value, permanent?, transient?) triples. Independent of
   the generated code. *)
From LE Require Import Base Strs Err.

Definition transient_cause (e : err) : bool :=
  (err_is e SCanceled || err_is e SDeadline || err_as_timeout e)%bool.
Definition permanent_cause (e : err) : bool :=
  (err_is e SInvalidConfig || err_is e SPermissionDenied || err_is e SBucketNotFound)%bool.

(** Required class: Some true = permanent, Some false = transient, None = the
    property does not say (no classified cause, or causes of both kinds). *)
Definition required_class (e : err) : option bool :=
  match transient_cause e, permanent_cause e with
  | true, false => Some false
  | false, true => Some true
  | _, _ => None
  end.

(** [class_ok oe perm trans]: the answers (perm, trans) of the two classifiers on
    [oe] are acceptable. *)
Definition class_ok (oe : option err) (perm trans : bool) : bool :=
  match oe with
  | None => (negb perm && negb trans)%bool
  | Some e =>
    (xorb perm trans &&
     match required_class e with
     | Some p => Bool.eqb perm p
     | None => true
     end)%bool
  end.

(** What the real NATS client returns, by situation: true = must be permanent. *)
Definition nats_situation_permanent (sit : string) : option bool :=
  if String.eqb sit "create-on-live-key" then Some true
  else if String.eqb sit "update-stale-revision" then Some true
  else if String.eqb sit "timeout" then Some false
  else if String.eqb sit "no-responders" then Some false
  else if String.eqb sit "connection-closed" then Some false
  else None.
