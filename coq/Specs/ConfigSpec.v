(* Specs/ConfigSpec.v — hand-written specification of property C16 (independent of the
   generated code, so that it still runs when the translation or a proof breaks). *)
From LE Require Import Base Config.
Open Scope Z_scope.

(** The documented set of acceptable configurations (the property's nine conjuncts). *)
Definition valid_spec (c : econfig) : Prop :=
  c_Bucket c <> ""%string /\ c_Group c <> ""%string /\ c_InstanceID c <> ""%string /\
  0 < c_TTL c /\ 0 < c_HeartbeatInterval c /\
  3 * c_HeartbeatInterval c <= c_TTL c /\
  (c_ValidationInterval c = 0 \/ c_HeartbeatInterval c <= c_ValidationInterval c) /\
  (c_DisconnectGracePeriod c = 0 \/ 2 * c_HeartbeatInterval c <= c_DisconnectGracePeriod c) /\
  0 <= c_MaxConsecutiveFailures c /\
  (c_AllowPriorityTakeover c = true -> 0 < c_Priority c).

(** Executable version of the specification (used by the search for a failing
    input when the proof or the correspondence breaks). *)
Definition valid_specb (c : econfig) : bool :=
  negb (String.eqb (c_Bucket c) ""%string) && negb (String.eqb (c_Group c) ""%string) &&
  negb (String.eqb (c_InstanceID c) ""%string) &&
  (0 <? c_TTL c) && (0 <? c_HeartbeatInterval c) &&
  (3 * c_HeartbeatInterval c <=? c_TTL c) &&
  ((c_ValidationInterval c =? 0) || (c_HeartbeatInterval c <=? c_ValidationInterval c)) &&
  ((c_DisconnectGracePeriod c =? 0) || (2 * c_HeartbeatInterval c <=? c_DisconnectGracePeriod c)) &&
  (0 <=? c_MaxConsecutiveFailures c) &&
  (negb (c_AllowPriorityTakeover c) || (0 <? c_Priority c)).

(** The conjunct(s) that mention a field, negated. *)
Definition field_violated (f : string) (c : econfig) : Prop :=
  if String.eqb f "Bucket"%string then c_Bucket c = ""%string
  else if String.eqb f "Group"%string then c_Group c = ""%string
  else if String.eqb f "InstanceID"%string then c_InstanceID c = ""%string
  else if String.eqb f "TTL"%string then c_TTL c <= 0 \/ c_TTL c < 3 * c_HeartbeatInterval c
  else if String.eqb f "HeartbeatInterval"%string then c_HeartbeatInterval c <= 0
  else if String.eqb f "ValidationInterval"%string then
         c_ValidationInterval c <> 0 /\ c_ValidationInterval c < c_HeartbeatInterval c
  else if String.eqb f "DisconnectGracePeriod"%string then
         c_DisconnectGracePeriod c <> 0 /\ c_DisconnectGracePeriod c < 2 * c_HeartbeatInterval c
  else if String.eqb f "MaxConsecutiveFailures"%string then c_MaxConsecutiveFailures c < 0
  else if String.eqb f "Priority"%string then c_AllowPriorityTakeover c = true /\ c_Priority c <= 0
  else False.

(** Range in which Go's int64 products 3*H and 2*H are exact: |H| <= 2^61 ns
    (about 73 years; the property's lattice goes up to one year). *)
Definition dur_in_range (c : econfig) : Prop :=
  Z.abs (c_HeartbeatInterval c) <= 2305843009213693952.

Lemma valid_specb_spec : forall c, valid_specb c = true <-> valid_spec c.
Proof.
  intros c. unfold valid_specb, valid_spec.
  rewrite !andb_true_iff, !orb_true_iff, !negb_true_iff.
  rewrite !Z.ltb_lt, !Z.leb_le, !Z.eqb_eq.
  repeat match goal with |- context [String.eqb ?a ?b = false] =>
    rewrite (String.eqb_neq a b) end.
  destruct (c_AllowPriorityTakeover c); intuition (try congruence; try lia).
Qed.

