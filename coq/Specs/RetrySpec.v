(* Specs/RetrySpec.v — what property C17 demands, independent of the generated code. *)
From Coq Require Import QArith Qminmax.
From LE Require Import Base Retry.
Open Scope Z_scope.

(** min(MaxBackoff, InitialBackoff * Multiplier^n) *)
Definition backoff_base (c : bcfg) (n : Z) : Q :=
  Qmin (inject_Z (b_MaxBackoff c)) (inject_Z (b_InitialBackoff c) * Qpower (b_BackoffMultiplier c) n).

(** configurations the statement is about *)
Definition bcfg_ok (c : bcfg) : Prop :=
  0 <= b_InitialBackoff c /\ 0 <= b_MaxBackoff c < two63 /\
  (0 <= b_BackoffMultiplier c)%Q /\ (0 <= b_Jitter c)%Q /\ (b_Jitter c <= 1)%Q.

(** the result (integer nanoseconds, after truncation) lies within +-Jitter of the base *)
Definition backoff_within (c : bcfg) (n : Z) (res : Z) : Prop :=
  0 <= res /\
  (inject_Z res <= backoff_base c n * (1 + b_Jitter c))%Q /\
  (backoff_base c n * (1 - b_Jitter c) - 1 < inject_Z res)%Q.

(** executable form with a slack for the float64 evaluation in Go: relative [rel]
    plus [abs] nanoseconds *)
Definition backoff_withinb (c : bcfg) (n : Z) (res : Z) (rel : Q) (abs : Q) : bool :=
  let base := backoff_base c n in
  let slack := (base * rel + abs)%Q in
  ((0 <=? res) &&
   Qle_bool (inject_Z res) (base * (1 + b_Jitter c) + slack) &&
   Qle_bool (base * (1 - b_Jitter c) - 1 - slack) (inject_Z res))%bool.

(** ---- circuit breaker: reference automaton (independent of the generated code) ---- *)
Definition cb_spec_step (cb : breaker) (now : Z) (fn_fails : bool) : cbresult * breaker :=
  let reject := (cbstate_eqb (cb_st cb) CBOpen && (now - cb_last cb <? cb_cooldown cb))%bool in
  if reject then (CRRejected, cb)
  else if fn_fails then
    let f := cb_fail cb + 1 in
    let st := if cb_threshold cb <=? f then CBOpen
              else if cbstate_eqb (cb_st cb) CBOpen then CBHalfOpen else cb_st cb in
    (CRErr, mkCB (cb_threshold cb) (cb_cooldown cb) st f now)
  else (CROk, mkCB (cb_threshold cb) (cb_cooldown cb) CBClosed 0 (cb_last cb)).

Definition breaker_eqb (a b : breaker) : bool :=
  ((cb_threshold a =? cb_threshold b) && (cb_cooldown a =? cb_cooldown b) &&
   cbstate_eqb (cb_st a) (cb_st b) && (cb_fail a =? cb_fail b) && (cb_last a =? cb_last b))%bool.
Definition cbresult_eqb (a b : cbresult) : bool :=
  match a, b with CROk, CROk | CRErr, CRErr | CRRejected, CRRejected => true | _, _ => false end.
