(* Config.v — the election configuration as the model sees it. The translator
   checks on every run that /repo's ElectionConfig still has these fields with
   the corresponding Go types (string / time.Duration / int / bool). *)
From LE Require Import Base.

Record econfig := mkCfg {
  c_Bucket : string;
  c_Group : string;
  c_InstanceID : string;
  c_TTL : Z;                       (* time.Duration, ns *)
  c_HeartbeatInterval : Z;
  c_ValidationInterval : Z;
  c_DisconnectGracePeriod : Z;
  c_MaxConsecutiveFailures : Z;    (* int *)
  c_Priority : Z;                  (* int *)
  c_AllowPriorityTakeover : bool
}.
