(* Retry.v — data types for the generated retry/backoff/breaker code, and the
   hand-written model of RetryWithBackoff's loop (validated against the real
   function under virtual time by the harness). *)
From Coq Require Import QArith.
From LE Require Import Base.
Open Scope Z_scope.

Record bcfg := mkBcfg {
  b_InitialBackoff : Z;        (* time.Duration, ns *)
  b_MaxBackoff : Z;
  b_BackoffMultiplier : Q;     (* float64, modelled exactly *)
  b_Jitter : Q
}.

(** strict comparison on rationals (QArith has only Qle_bool) *)
Definition Qlt_bool (a b : Q) : bool := negb (Qle_bool b a).

Lemma Qlt_bool_iff : forall a b, Qlt_bool a b = true <-> (a < b)%Q.
Proof.
  intros a b. unfold Qlt_bool. rewrite negb_true_iff. split.
  - intros H. apply Qnot_le_lt. intros Hle. apply Qle_bool_iff in Hle. congruence.
  - intros H. destruct (Qle_bool b a) eqn:E; [|reflexivity].
    apply Qle_bool_iff in E. exfalso. exact (Qlt_not_le _ _ H E).
Qed.

(** time.Duration(x) for a float x: truncation toward zero *)
Definition qtrunc (q : Q) : Z := Z.quot (Qnum q) (Zpos (Qden q)).

Inductive cbstate := CBClosed | CBOpen | CBHalfOpen.
Definition cbstate_eqb (a b : cbstate) : bool :=
  match a, b with
  | CBClosed, CBClosed | CBOpen, CBOpen | CBHalfOpen, CBHalfOpen => true
  | _, _ => false
  end.

Record breaker := mkCB {
  cb_threshold : Z;
  cb_cooldown : Z;
  cb_st : cbstate;
  cb_fail : Z;
  cb_last : Z                  (* time of the last failure, ns *)
}.

(** result of CircuitBreaker.Call: operation succeeded / operation failed (its
    error is returned) / rejected without invoking the operation *)
Inductive cbresult := CROk | CRErr | CRRejected.

(** ------------------------------------------------------------------ *)
(** RetryWithBackoff (without breaker), hand-written from retry.go.
    One loop iteration consumes one script entry:
      cancelled_before : ctx.Err() != nil at the top of the iteration
      res              : what the operation returns when invoked
      cancelled_in_wait: ctx is cancelled during the backoff wait *)
Inductive fnres := FOk | FPermanent | FTransient.
Inductive rres := ROk | RPermanent | RMaxAttempts | RCancelled | RScriptEnd.

Record iter := mkIter { it_cancelled_before : bool; it_res : fnres; it_cancelled_in_wait : bool }.

(** returns (number of invocations, list of attempt indices whose backoff was
    waited in full, result) *)
Fixpoint retry_loop (max : Z) (attempt : Z) (script : list iter) : nat * list Z * rres :=
  match script with
  | [] => (O, [], RScriptEnd)
  | it :: rest =>
    if it_cancelled_before it then (O, [], RCancelled)
    else
      match it_res it with
      | FOk => (1%nat, [], ROk)
      | FPermanent => (1%nat, [], RPermanent)
      | FTransient =>
        if ((0 <? max) && (max - 1 <=? attempt))%bool then (1%nat, [], RMaxAttempts)
        else if it_cancelled_in_wait it then (1%nat, [], RCancelled)
        else
          let '(n, waits, r) := retry_loop max (attempt + 1) rest in
          (S n, attempt :: waits, r)
      end
  end.
