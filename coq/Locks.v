(* Locks.v — vocabulary of the lock-discipline facts the translator extracts (gen/GenLocks.v). *)
From LE Require Import Base.
Open Scope string_scope.

Inductive lmode := LR | LW.
Record access := mkAcc { a_struct : string; a_field : string; a_write : bool; a_func : string;
                         a_held : list (string * lmode); a_ctor : bool; a_pos : string }.
Record acquire := mkAcq { q_lock : string; q_mode : lmode; q_func : string; q_held : list (string * lmode); q_pos : string }.
