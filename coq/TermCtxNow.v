(* TermCtxNow.v — the table of the CURRENT source (gen/GenTermCtx.v) passes the check, by computation. *)
From LE Require Import Base TermCtx GenTermCtx TermCtxInv.
Open Scope string_scope.

Lemma term_table_ok : forallb path_ok term_paths = true.
Proof. vm_compute. reflexivity. Qed.

Lemma promote_ctx_is_term_child_now : promote_ctx_is_term_child = true.
Proof. vm_compute. reflexivity. Qed.

Lemma term_ctx_now :
  forall evs, (forall p, In (EvPath p) evs -> In p term_paths /\ tp_ctor p = false) ->
  forall s, tinv s = true ->
  forall pre post s1, evs = (pre ++ post)%list -> trun s pre = Some s1 ->
  (t_il s1 = false -> t_cur s1 <> Some true) /\ t_stale s1 = false /\ (t_cur s1 = Some true -> t_run s1 = true).
Proof.
  intros evs Hin s Hs pre post s1 E Hrun. apply tinv_spec.
  exact (term_ctx_invariant_everywhere term_paths term_table_ok evs Hin s Hs pre post s1 E Hrun).
Qed.

Lemma leading_term_untouched_now :
  forall p, In p term_paths -> tp_ctor p = false -> forall s s', tinv s = true -> exec_path s (tp_ops p) = Some s' ->
  t_il s = true -> t_il s' = true -> t_cur s' = t_cur s /\ t_run s' = t_run s.
Proof. exact (leading_term_untouched term_paths term_table_ok). Qed.

Lemma ctor_now :
  forall p, In p term_paths -> tp_ctor p = true -> exists s0, exec_path tstate0 (tp_ops p) = Some s0 /\ tinv s0 = true.
Proof. exact (ctor_establishes term_paths term_table_ok). Qed.

(* non-vacuity: the table has a constructor path, a path that creates a term context and one that cancels it, and a
   whole life (construct, start, lead with a callback, step down) runs on the machine and ends with no live context *)
Lemma term_table_nontrivial :
  existsb tp_ctor term_paths = true /\
  existsb (fun p => existsb (fun o => match o with TNewTerm => true | _ => false end) (tp_ops p)) term_paths = true /\
  existsb (fun p => existsb (fun o => match o with TCancelTerm => true | _ => false end) (tp_ops p) &&
                    existsb (fun o => match o with TSetLeader false => true | _ => false end) (tp_ops p)) term_paths = true.
Proof. vm_compute. repeat split; reflexivity. Qed.
