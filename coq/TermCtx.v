(* TermCtx.v — vocabulary of the table gen/GenTermCtx.v (what each exclusive section of kvElection.mu does to the
   leadership claim, to the run's context and to the context handed to the promotion callback, path by path), and the
   abstract machine those paths run on.

   State of one election object, as far as the promotion context is concerned:
     t_il     the claim (isLeader)
     t_run    the run's context (e.ctx) has not been cancelled
     t_cur    the context whose cancel function e.termCancel holds: None when the field is nil, Some live otherwise
     t_stale  some context created for a term is still live although e.termCancel no longer refers to it (nothing in
              the library could ever cancel it except the end of the run)
   Term contexts are children of the run's context: cancelling the run cancels them. *)
From LE Require Import Base.
Open Scope string_scope.

Inductive top :=
| TAssumeLeader (b : bool) | TAssumeRunDead | TAssumeTerm (b : bool)
| TSetLeader (b : bool)
| TCancelTerm | TClearTerm | TNewTerm
| TCancelRun | TNewRun | TClearRun
| TUnlocked | TUnknown.

Record tpath := mkTP { tp_fn : string; tp_pos : string; tp_ctor : bool; tp_ops : list top }.

Record tstate := mkTS { t_il : bool; t_run : bool; t_cur : option bool; t_stale : bool }.

Definition cur_live (s : tstate) : bool := match t_cur s with Some true => true | _ => false end.

(* None: the path is not possible from this state (a test it lies behind came out the other way) *)
Definition exec_op (s : tstate) (o : top) : option tstate :=
  match o with
  | TAssumeLeader b => if Bool.eqb (t_il s) b then Some s else None
  | TAssumeRunDead => if t_run s then None else Some s
  | TAssumeTerm b => if Bool.eqb (match t_cur s with Some _ => true | None => false end) b then Some s else None
  | TSetLeader b => Some (mkTS b (t_run s) (t_cur s) (t_stale s))
  | TCancelTerm => Some (mkTS (t_il s) (t_run s) (option_map (fun _ => false) (t_cur s)) (t_stale s))
  | TClearTerm => Some (mkTS (t_il s) (t_run s) None (t_stale s || cur_live s))
  | TNewTerm => Some (mkTS (t_il s) (t_run s) (Some (t_run s)) (t_stale s || cur_live s))
  | TCancelRun => Some (mkTS (t_il s) false (option_map (fun _ => false) (t_cur s)) false)
  | TNewRun => Some (mkTS (t_il s) true (t_cur s) (t_stale s))
  | TClearRun => Some s
  | TUnlocked => Some s
  | TUnknown => Some s
  end.

Fixpoint exec_path (s : tstate) (ops : list top) : option tstate :=
  match ops with
  | [] => Some s
  | o :: r => match exec_op s o with Some s' => exec_path s' r | None => None end
  end.

(* the caller of Start cancels the context it passed: the run's context and every child of it die; nothing else changes *)
Definition ext_cancel (s : tstate) : tstate := mkTS (t_il s) false (option_map (fun _ => false) (t_cur s)) false.

(* between two sections:
   - no context created for a term is live while the instance does not claim leadership (cancelled once the term ends);
   - no live term context is out of the library's reach;
   - a live term context belongs to a live run (so that ending the run ends it). *)
Definition tinv (s : tstate) : bool :=
  (t_il s || negb (cur_live s)) && negb (t_stale s) && (negb (cur_live s) || t_run s).

Definition all_tstates : list tstate :=
  flat_map (fun il => flat_map (fun run => flat_map (fun cur => map (fun st => mkTS il run cur st) [false; true])
    [None; Some false; Some true]) [false; true]) [false; true].

Definition well_formed (p : tpath) : bool :=
  forallb (fun o => match o with TUnknown => false | TUnlocked => tp_ctor p | _ => true end) (tp_ops p).

(* one path, from one state: keeps the invariant, and does not touch the contexts when the instance leads before and after *)
Definition path_state_ok (p : tpath) (s : tstate) : bool :=
  negb (tinv s) ||
  match exec_path s (tp_ops p) with
  | None => true
  | Some s' =>
      tinv s' &&
      (negb (t_il s && t_il s') ||
       (match t_cur s, t_cur s' with Some a, Some b => Bool.eqb a b | None, None => true | _, _ => false end &&
        Bool.eqb (t_run s) (t_run s')))
  end.

(* a fresh object: no claim, no run, e.termCancel nil *)
Definition tstate0 := mkTS false false None false.

(* the constructor runs once, on a fresh object, before the object is shared *)
Definition ctor_ok (p : tpath) : bool :=
  well_formed p && match exec_path tstate0 (tp_ops p) with Some s' => tinv s' | None => false end.

Definition path_ok (p : tpath) : bool :=
  if tp_ctor p then ctor_ok p else well_formed p && forallb (path_state_ok p) all_tstates.

(* a schedule: sections of the table and cancellations of the run by the caller of Start, in any order *)
Inductive tev := EvPath (p : tpath) | EvExtCancel.

Fixpoint trun (s : tstate) (evs : list tev) : option tstate :=
  match evs with
  | [] => Some s
  | EvPath p :: r => match exec_path s (tp_ops p) with Some s' => trun s' r | None => None end
  | EvExtCancel :: r => trun (ext_cancel s) r
  end.
