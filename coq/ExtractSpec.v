(* ExtractSpec.v — like Extract.v but only the hand-written specifications and
   models (nothing regenerated from /repo): used to search for a failing input
   when the translation or a proof about the generated code is broken. *)
From Coq Require Import Extraction ExtrOcamlBasic.
From LE Require Import Base Config ConfigSpec.

Extraction Language OCaml.
Extraction "extracted.ml"
  valid_specb mkCfg.
