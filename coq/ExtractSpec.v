(* ExtractSpec.v — like Extract.v but only the hand-written specifications and
   models (nothing regenerated from /repo): used to search for a failing input
   when the translation or a proof about the generated code is broken. *)
From Coq Require Import Extraction ExtrOcamlBasic.
From LE Require Import Base Strs Config Err ConfigSpec ErrSpec Retry RetrySpec Store Ev World Mon Mon2 NoProto Run Env EnvT.

Extraction Language OCaml.
Extraction "extracted.ml"
  valid_specb mkCfg
  msg class_ok required_class nats_situation_permanent
  sstep srun empty_store
  backoff_withinb cb_spec_step retry_loop
  kind_names decode check_trace check_guards check_guards2 check_env check_envT check_envC.
