(* Extract.v — extraction of the executable definitions (generated code, model,
   specifications, monitors) to OCaml for the oracle.
   ExtrOcamlBasic only (bool, option, list, prod, unit, sumbool -> OCaml natives);
   Z, N, positive, nat, ascii and string stay the extracted inductives.
   No Extract Constant / Extract Inductive of our own. Run from the output directory:
     cd /verif/.build/oracle && coqc -Q /verif/coq LE /verif/coq/Extract.v *)
From Coq Require Import Extraction ExtrOcamlBasic.
From LE Require Import Base Strs Config Err ConfigSpec ErrSpec GenConfig GenErrors Retry RetrySpec Store GenBackoff Ev World Mon Proto Causes Run Env EnvT.

Extraction Language OCaml.
Extraction "extracted.ml"
  validate_config valid_specb mkCfg
  msg is_permanent is_transient class_ok required_class nats_situation_permanent
  sstep srun empty_store
  backoff_withinb cb_spec_step retry_loop calculate_backoff cb_call default_backoff round_jitterMin round_jitterMax round_maxRetries
  kind_names decode check_trace check_guards check_guards2 check_env check_envT check_envC.
