(* StatusNow.v — the status-writer table of the CURRENT source (gen/GenStatus.v) passes the check, by computation. *)
From LE Require Import Base Locks Status GenStatus StatusInv.
Open Scope string_scope.

Lemma status_table_ok : forallb group_ok status_groups = true.
Proof. vm_compute. reflexivity. Qed.

Lemma status_loads_ok : loads_ok status_loads = true.
Proof. vm_compute. reflexivity. Qed.

(* between any two groups of status stores of the current source, in any order and number *)
Lemma status_consistent_now :
  forall gs, (forall g, In g gs -> In g status_groups) ->
  forall s, SInv s -> senabled s gs ->
  forall pre post, gs = (pre ++ post)%list -> SInv (srun s pre).
Proof. exact (status_invariant_everywhere status_groups status_table_ok). Qed.

(* the constructor establishes the invariant whatever the memory held before *)
Lemma ctor_establishes_now :
  exists g, In g status_groups /\ sg_ctor g = true /\ forall s, SInv (sstep s g).
Proof.
  assert (H : existsb (fun g => sg_ctor g && match sg_il g with [_] => true | _ => false end) status_groups = true)
    by (vm_compute; reflexivity).
  apply existsb_exists in H. destruct H as [g [Hin Hg]].
  apply andb_prop in Hg. destruct Hg as [Hc Hil].
  exists g. split; [exact Hin|]. split; [exact Hc|].
  intros s. apply paired_group_establishes.
  - pose proof status_table_ok as T. rewrite forallb_forall in T. exact (T g Hin).
  - destruct (sg_il g) as [|b [|b2 l]]; try discriminate Hil. exists b. reflexivity.
Qed.

(* non-vacuity: the table contains a promotion and a demotion, and running them in turn is enabled *)
Lemma status_table_nontrivial :
  existsb (fun g => match sg_il g with [true] => true | _ => false end) status_groups = true /\
  existsb (fun g => match sg_il g with [false] => negb (sg_ctor g) | _ => false end) status_groups = true /\
  (3 <= List.length status_loads)%nat.
Proof. vm_compute. repeat split; try reflexivity; repeat constructor. Qed.
