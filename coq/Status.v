(* Status.v — vocabulary of the status-writer table the translator extracts (gen/GenStatus.v), the boolean check of
   that table, and the abstract machine the check is about.

   The three atomic fields Status() combines (isLeader, state, leaderID) are stored independently; what makes a
   snapshot self-consistent is that every writer changes them inside one exclusive section of kvElection.mu, together,
   and that Status() reads them inside a shared section of the same lock. The translator lists every group of stores
   that is executed together (one straight-line run); the machine below executes groups one after the other - which
   is all that can happen while kvElection.mu serialises them - and the theorem in Proofs/StatusInv.v says that
   "IsLeader iff State = LEADER, and a leader's LeaderID is its own id" holds between any two groups. *)
From LE Require Import Base Locks.
Open Scope string_scope.

Inductive lidv := LOwn | LEmpty | LAny.
Inductive tokv := KParam | KEmpty | KAny.

Record sgroup := mkSG {
  sg_fn : string; sg_pos : string;
  sg_mu : option lmode;        (* mode in which kvElection.mu is certainly held at every store of the group *)
  sg_ctor : bool;              (* the constructor: the object is not shared yet *)
  sg_guard : bool;             (* inside the same acquisition, behind `if e.isLeader.Load() { ... return }` *)
  sg_il : list bool;           (* values stored to isLeader (at most one expected) *)
  sg_st : list string;         (* values stored to state *)
  sg_lid : list lidv;          (* values stored to leaderID *)
  sg_tok : list tokv;          (* values stored to token: a parameter of the function, "", anything else *)
  sg_unknown : bool            (* a store whose argument the translator could not classify *)
}.

Definition is_leader_state (s : string) : bool := String.eqb s "LEADER".
Definition documented_state (s : string) : bool :=
  existsb (String.eqb s) ["INIT"; "CANDIDATE"; "LEADER"; "FOLLOWER"; "STOPPED"].

Definition exclusive (g : sgroup) : bool :=
  sg_ctor g || match sg_mu g with Some LW => true | _ => false end.

(* the check of one group *)
Definition group_ok (g : sgroup) : bool :=
  negb (sg_unknown g) && exclusive g &&
  forallb documented_state (sg_st g) &&
  match sg_il g, sg_st g with
  | [b], [s] => Bool.eqb b (is_leader_state s)
  | [], [s] => negb (is_leader_state s) && sg_guard g
  | [], [] => true
  | _, _ => false
  end &&
  match sg_il g, sg_lid g with
  | [true], [LOwn] => true
  | [true], _ => false
  | _, [] => true
  | [false], [_] => true
  | [], [LOwn] => true
  | [], [_] => sg_guard g
  | _, _ => false
  end &&
  (* the token: a promotion stores the token it was called with; nothing else stores one, except the constructor *)
  match sg_il g, sg_tok g with
  | [true], [KParam] => true
  | [true], _ => false
  | _, [] => true
  | [false], [_] => sg_ctor g
  | _, _ => false
  end.

Definition loads_ok (l : list (string * string * option lmode)) : bool :=
  forallb (fun x => match snd x with Some _ => true | None => false end) l &&
  forallb (fun f => existsb (fun x => String.eqb (fst (fst x)) f) l) ["isLeader"; "state"; "leaderID"].

(* abstract status of one election object *)
Record sstate := mkSS { ss_il : bool; ss_st : string; ss_own : bool (* leaderID holds the instance's own id *);
                        ss_tok : bool (* token holds the token the running term was promoted with *) }.

Definition last_or {A} (l : list A) (d : A) : A := match l with [] => d | x :: _ => last l x end.

Definition sstep (s : sstate) (g : sgroup) : sstate :=
  mkSS (last_or (sg_il g) (ss_il s)) (last_or (sg_st g) (ss_st s))
       (match sg_lid g with [] => ss_own s | l => match last l LAny with LOwn => true | _ => false end end)
       (match sg_il g, sg_tok g with
        | [true], [KParam] => true            (* a promotion with its token: the term's token *)
        | _, [] => match sg_il g with [true] => false | _ => ss_tok s end   (* a promotion without token store would leave the old one *)
        | _, _ => false                       (* any other store replaces it *)
        end).

(* a group behind the not-leader guard runs only when the instance does not lead: the test and the stores are in one
   exclusive section, and every store to isLeader is in an exclusive section too (checked: [exclusive]) *)
Definition enabled (s : sstate) (g : sgroup) : Prop := sg_guard g = true -> ss_il s = false.

Fixpoint srun (s : sstate) (gs : list sgroup) : sstate :=
  match gs with [] => s | g :: r => srun (sstep s g) r end.

Fixpoint senabled (s : sstate) (gs : list sgroup) : Prop :=
  match gs with [] => True | g :: r => enabled s g /\ senabled (sstep s g) r end.

Definition SInv (s : sstate) : Prop :=
  (ss_il s = is_leader_state (ss_st s)) /\ (ss_il s = true -> ss_own s = true /\ ss_tok s = true) /\ documented_state (ss_st s) = true.
