(* RaceFacts.v — the lock discipline of the current source (gen/GenLocks.v), decided by computation. *)
From Coq Require Import Ascii.
From LE Require Import Base Locks GenLocks Race.
Open Scope string_scope.

Fixpoint mode_of (l : string) (h : list (string * lmode)) : option lmode :=
  match h with
  | [] => None
  | (l', m) :: r => if String.eqb l' l then Some m else mode_of l r
  end.

(* a common lock under which the two accesses exclude each other: every writing side holds it exclusively *)
Definition excluded (a1 a2 : access) : bool :=
  existsb (fun lm => match mode_of (fst lm) (a_held a2) with
                     | Some m2 => (negb (a_write a1) || lmode_eqb (snd lm) LW) && (negb (a_write a2) || lmode_eqb m2 LW)
                     | None => false
                     end) (a_held a1).

Definition conflicting (a1 a2 : access) : bool :=
  String.eqb (a_struct a1) (a_struct a2) && String.eqb (a_field a1) (a_field a2) &&
  (a_write a1 || a_write a2) && negb (a_ctor a1) && negb (a_ctor a2).

(* conflicting pairs that no common lock orders *)
Definition unprotected (tbl : list access) : list (access * access) :=
  flat_map (fun a1 => flat_map (fun a2 => if conflicting a1 a2 && negb (excluded a1 a2) && a_write a1 then [(a1, a2)] else []) tbl) tbl.

(* the fields on which some conflicting pair is not ordered by a lock *)
Fixpoint add_field (f : string * string) (l : list (string * string)) : list (string * string) :=
  match l with
  | [] => [f]
  | g :: r => if (String.eqb (fst f) (fst g) && String.eqb (snd f) (snd g))%bool then l else g :: add_field f r
  end.
Definition racy_fields (tbl : list access) : list (string * string) :=
  fold_left (fun acc p => add_field (a_struct (fst p), a_field (fst p)) acc) (unprotected tbl) [].

(* lock order: L1 -> L2 when L2 is acquired while L1 may be held *)
Definition order_edges (qs : list acquire) : list (string * string) :=
  flat_map (fun q => map (fun lm => (fst lm, q_lock q)) (q_held q)) qs.

Fixpoint reach (fuel : nat) (es : list (string * string)) (from : string) (target : string) : bool :=
  match fuel with
  | O => false
  | S n => existsb (fun e => String.eqb (fst e) from && (String.eqb (snd e) target || reach n es (snd e) target)) es
  end.
(* some lock reaches itself through at least one edge *)
Definition has_cycle (es : list (string * string)) : bool :=
  existsb (fun e => reach (S (List.length es)) es (fst e) (fst e)) es.

(* (field, writing function, other function) of every unprotected conflicting pair, without repetition *)
Fixpoint add_key (k : string * string * string) (l : list (string * string * string)) : list (string * string * string) :=
  match l with
  | [] => [k]
  | g :: r => let '(a, b, c) := k in let '(a', b', c') := g in
              if (String.eqb a a' && String.eqb b b' && String.eqb c c')%bool then l else g :: add_key k r
  end.
Definition strip_closure (f : string) : string :=
  (fix go (s : string) : string := match s with
     | EmptyString => EmptyString
     | String c r => if Ascii.eqb c (Ascii.ascii_of_nat 36) then EmptyString else String c (go r)
     end) f.
Definition pair_keys (tbl : list access) : list (string * string * string) :=
  fold_left (fun acc p => add_key (a_struct (fst p) ++ "." ++ a_field (fst p), strip_closure (a_func (fst p)), strip_closure (a_func (snd p))) acc)
            (unprotected tbl) [].

