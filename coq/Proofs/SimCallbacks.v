(* Proofs/SimCallbacks.v — C08: the local callback rules (one promotion per term, entered while the
   term is alive and before it ends; a demotion only when one is owed; the claim is raised only when no
   demotion is owed) imply that promotions and demotions strictly alternate, starting with a promotion. *)
From RecordUpdate Require Import RecordUpdate.
From LE Require Import Base Ev World Mon Proto SimBasics SimOwn.
Open Scope Z_scope.

Definition has_cbs (b : base) (i : Z) : bool := ic_hasdemote (cfg_of b i) && ic_haspromote (cfg_of b i).

Record CB1 (x : iobs) : Prop := mkCB1 {
  cb_terms : io_terms x = io_ended x + (if io_flag x then 1 else 0);
  cb_prom_le : io_promotes x <= io_terms x;
  (* the promotion of a term that has just ended may still be on its way *)
  cb_prom_ge : io_ended x - (if io_flag x then 0 else 1) <= io_promotes x;
  cb_dem_le : io_demotes x <= io_ended x;
  cb_dem_ge : io_ended x - 1 <= io_demotes x;
  cb_flag_dem : io_flag x = true -> io_demotes x = io_ended x;
  cb_dem_prom : io_demotes x <= io_promotes x;
  cb_nonneg : 0 <= io_ended x
}.

Definition CB (b : base) : Prop := forall i, has_cbs b i = true -> CB1 (inst_of b i).

Lemma CB1_0 : CB1 iobs0.
Proof. constructor; cbn; intros; try lia; try discriminate. Qed.

Lemma CB0 : CB base0.
Proof. intros i H. unfold has_cbs, cfg_of in H. cbn in H. discriminate. Qed.

(* the five fields the rules talk about *)
Definition cbview (x : iobs) := (io_flag x, io_terms x, io_ended x, io_promotes x, io_demotes x).

Lemma CB1_view x y : cbview x = cbview y -> CB1 x -> CB1 y.
Proof.
  unfold cbview. intros E [A1 A2 A3 A4 A5 A6 A8 A7]. inversion E as [[E1 E2 E3 E4 E5]].
  constructor; rewrite <- ?E1, <- ?E2, <- ?E3, <- ?E4, <- ?E5; assumption.
Qed.

Lemma has_cbs_defined b i : has_cbs b i = true -> exists c, aget (b_cfgs b) i = Some c.
Proof.
  unfold has_cbs, cfg_of. destruct (aget (b_cfgs b) i) as [c|]; [eauto|cbn; discriminate].
Qed.

(* events that do not touch the callback-related fields nor the configurations *)
Definition cb_neutral (e : ev) : bool :=
  match e with
  | EFlag _ _ _ _ _ | EPromote _ _ _ | EDemote _ _ | EInstDef _ _ _ _ _ _ _ _ _ _ _ _ _ _ => false
  | _ => true
  end.

Lemma neutral_view b t e j : cb_neutral e = true -> cbview (inst_of (bapply b (t, e)) j) = cbview (inst_of b j).
Proof.
  intros Hn. destruct e; try discriminate; cbn [bapply];
    repeat match goal with
           | |- context [match ?d with _ => _ end] => destruct d
           end;
    try reflexivity;
    repeat rewrite inst_of_upd;
    repeat match goal with |- context [?a =? j] => destruct (Z.eqb_spec a j); [subst|] end; reflexivity.
Qed.

Lemma neutral_cfg b t e : cb_neutral e = true -> b_cfgs (bapply b (t, e)) = b_cfgs b.
Proof.
  intros Hn. destruct e; try discriminate; cbn [bapply];
    repeat match goal with
           | |- context [match ?d with _ => _ end] => destruct d
           end; reflexivity.
Qed.

Lemma cfgs_same b t e :
  (match e with EInstDef _ _ _ _ _ _ _ _ _ _ _ _ _ _ => false | _ => true end) = true -> b_cfgs (bapply b (t, e)) = b_cfgs b.
Proof.
  intros Hn. destruct e; try discriminate; cbn [bapply];
    repeat match goal with
           | |- context [match ?d with _ => _ end] => destruct d
           end; reflexivity.
Qed.

Lemma has_cbs_same b t e j :
  (match e with EInstDef _ _ _ _ _ _ _ _ _ _ _ _ _ _ => false | _ => true end) = true ->
  has_cbs (bapply b (t, e)) j = has_cbs b j.
Proof. intros H. unfold has_cbs, cfg_of. rewrite (cfgs_same _ _ _ H). reflexivity. Qed.

Lemma CB_step b te : CB b -> guards0 b te = [] -> late_claim b te = [] -> CB (bapply b te).
Proof.
  intros C G GL. destruct te as [t e].
  destruct (cb_neutral e) eqn:En.
  { intros j Hj. unfold has_cbs, cfg_of in Hj. rewrite (neutral_cfg _ _ _ En) in Hj.
    eapply CB1_view; [symmetry; apply (neutral_view _ t _ j En)|]. apply C. exact Hj. }
  destruct e; try discriminate.
  - (* EInstDef *)
    cbn in G. apply pwhen_nil in G.
    intros j Hj. cbn [bapply]. unfold inst_of. cbn. rewrite aget_aset.
    destruct (Z.eqb_spec i j) as [E|E]; [apply CB1_0|].
    assert (Hj' : has_cbs b j = true).
    { unfold has_cbs, cfg_of in *. cbn in Hj. rewrite aget_aset in Hj. destruct (Z.eqb_spec i j); [contradiction|exact Hj]. }
    apply (C j Hj').
  - (* EFlag *)
    intros j Hj. assert (Hj' : has_cbs b j = true) by (rewrite has_cbs_same in Hj; [exact Hj|reflexivity]).
    cbn [bapply]. destruct (zb b0) eqn:Ef.
    + (* the claim is raised *)
      cbn in G. rewrite Ef in G.
      apply app_nil_l2 in G. destruct G as [_ G]. apply app_nil_l2 in G. destruct G as [G1 G].
      apply app_nil_l2 in G. destruct G as [G2 _]. apply pwhen_nil in G1. apply pwhen_nil in G2.
      cbn in GL. rewrite Ef in GL. apply app_nil_l2 in GL. destruct GL as [_ G3]. apply app_nil_l2 in G3. destruct G3 as [G3 _]. apply pwhen_nil in G3. cbn [andb] in G3.
      destruct (aget (b_rets (b <| b_now := t |>)) gid); rewrite inst_of_upd;
        (destruct (Z.eqb_spec i j) as [E|E]; [subst j|apply (C j Hj')]);
        destruct (C i Hj') as [A1 A2 A3 A4 A5 A6 A8 A7];
        change (inst_of (b <| b_now := t |>) i) with (inst_of b i);
        unfold has_cbs in Hj'; apply andb_prop in Hj'; destruct Hj' as [Hd Hp];
        rewrite Hd in G2; cbn in G2; apply Bool.negb_false_iff in G2; apply Z.eqb_eq in G2;
        rewrite Hp in G3; cbn in G3; apply Bool.negb_false_iff in G3; apply Z.eqb_eq in G3;
        rewrite G1 in A1, A3; constructor; cbn; intros; lia.
    + (* the claim is cleared *)
      rewrite inst_of_upd. destruct (Z.eqb_spec i j) as [E|E]; [subst j|apply (C j Hj')].
      destruct (C i Hj') as [A1 A2 A3 A4 A5 A6 A8 A7].
      change (inst_of (b <| b_now := t |>) i) with (inst_of b i).
      destruct (io_flag (inst_of b i)) eqn:Efl.
      * specialize (A6 eq_refl). constructor; cbn; intros; try lia; try discriminate.
      * constructor; cbn; intros; try lia; try discriminate.
  - (* EPromote *)
    intros j Hj. assert (Hj' : has_cbs b j = true) by (rewrite has_cbs_same in Hj; [exact Hj|reflexivity]).
    cbn [bapply]. rewrite inst_of_upd. destruct (Z.eqb_spec i j) as [E|E]; [subst j|apply (C j Hj')].
    cbn in G. apply pwhen_nil in G. apply Bool.negb_false_iff in G. apply Z.ltb_lt in G.
    destruct (C i Hj') as [A1 A2 A3 A4 A5 A6 A8 A7].
    change (inst_of (b <| b_now := t |>) i) with (inst_of b i).
    constructor; cbn; intros; try lia; try (apply A6; assumption);
      destruct (io_flag (inst_of b i)); lia.
  - (* EDemote *)
    intros j Hj. assert (Hj' : has_cbs b j = true) by (rewrite has_cbs_same in Hj; [exact Hj|reflexivity]).
    cbn [bapply]. rewrite inst_of_upd. destruct (Z.eqb_spec i j) as [E|E]; [subst j|apply (C j Hj')].
    cbn in G. apply pwhen_nil in G. apply Bool.negb_false_iff in G. apply Z.ltb_lt in G.
    cbn in GL. apply pwhen_nil in GL.
    destruct (C i Hj') as [A1 A2 A3 A4 A5 A6 A8 A7].
    change (inst_of (b <| b_now := t |>) i) with (inst_of b i).
    unfold has_cbs in Hj'. apply andb_prop in Hj'. destruct Hj' as [Hd Hp]. rewrite Hp in GL. cbn [andb] in GL. apply Z.ltb_ge in GL.
    constructor; cbn; intros; try lia;
      destruct (io_flag (inst_of b i)); try (specialize (A6 eq_refl)); try lia; try discriminate.
Qed.

(* strict alternation, starting with a promotion *)
Lemma C08_alternation_local b te : CB b -> guards0 b te = [] -> late_claim b te = [] ->
  forall m, ~ In 801 (mon_C08 b m te) /\ ~ In 802 (mon_C08 b m te).
Proof.
  intros C G GL m. destruct te as [t e].
  destruct e; cbn [mon_C08 snd]; try (split; intros []).
  - (* EPromote *)
    split; [|intros H; apply in_app_or in H; destruct H as [H|H]; apply mwhen_in in H; destruct H; discriminate].
    intros H. apply in_app_or in H. destruct H as [H|H]; [|apply mwhen_in in H; destruct H; discriminate].
    apply mwhen_in in H. destruct H as [H _]. apply andb_prop in H. destruct H as [Hc H].
    cbn in G. apply pwhen_nil in G. apply Bool.negb_false_iff in G. apply Z.ltb_lt in G.
    destruct (C i Hc) as [A1 A2 A3 A4 A5 A6 A8 A7].
    apply Bool.negb_true_iff in H. apply Z.eqb_neq in H.
    destruct (io_flag (inst_of b i)); [specialize (A6 eq_refl); lia|lia].
  - (* EDemote *)
    split; [intros H; apply mwhen_in in H; destruct H; discriminate|].
    intros H. apply mwhen_in in H. destruct H as [H _]. apply andb_prop in H. destruct H as [Hc H].
    cbn in G. apply pwhen_nil in G. apply Bool.negb_false_iff in G. apply Z.ltb_lt in G.
    cbn in GL. apply pwhen_nil in GL.
    pose proof Hc as Hc'. unfold has_cbs in Hc'. apply andb_prop in Hc'. destruct Hc' as [Hd Hp]. rewrite Hp in GL. cbn [andb] in GL. apply Z.ltb_ge in GL.
    destruct (C i Hc) as [A1 A2 A3 A4 A5 A6 A8 A7].
    apply Bool.negb_true_iff in H. apply Z.eqb_neq in H.
    destruct (io_flag (inst_of b i)); [specialize (A6 eq_refl); lia|]. lia.
  - (* EQuiet: other clauses *)
    split; intros H; apply in_flat_map in H; destruct H as (ic & _ & H);
      destruct (ic_hasdemote (snd ic) && ic_haspromote (snd ic) && negb (io_stopping (inst_of b (fst ic))) && negb (b_ended b))%bool;
      [|destruct H| |destruct H];
      repeat (apply in_app_or in H; destruct H as [H|H]); apply mwhen_in in H; destruct H; discriminate.
Qed.

Lemma admitted_prefix_cb tr : forall b, CB b -> admits b tr = true ->
  forall pre te post, tr = pre ++ te :: post -> CB (fold_left bapply pre b) /\ guards (fold_left bapply pre b) te = [].
Proof.
  induction tr as [|x tr IH]; intros b I A pre te post E.
  - destruct pre; discriminate.
  - cbn in A. destruct (guards b x) eqn:G; [|discriminate].
    destruct pre as [|y pre]; cbn in E.
    + inversion E. subst x post. cbn. auto.
    + inversion E. subst y. cbn [fold_left]. eapply IH; eauto. apply CB_step; [assumption|apply guards_split in G; tauto|apply guards_late; exact G].
Qed.
