(* Proofs/SimValid.v — property C07, the last cause of demotion other than a stop: in the fast-store environment the
   validation loop never gives up a claim. Rule 2086 (that loop acts only on a validation read issued after the running term
   began that was not answered within the read's time-out, or was answered with an error or with a record that is not the
   instance's own) meets three facts: a fast store answers before the time-out (SimLeaseT.fast_pend); no answer is an error
   (the environment); and a read applied while its issuer claims returns the issuer's own record with its own token
   (the lease invariant), in the view of the decoder the validation uses (rule 2090: both decoders agree on what the
   library writes). *)
From RecordUpdate Require Import RecordUpdate.
From LE Require Import Base Ev Consts World Mon Proto Causes Env EnvT GenGuards SimBasics SimOwn SimRefresh SimLease SimWatch SimLeaseT SimLeaseC GuardFacts.
Open Scope Z_scope.

Record XInv (b : base) (a : caux) : Prop := mkX {
  x_le : forall op n, aget (ca_opno a) op = Some n -> n <= ca_n a;
  x_vc : forall op q, aget (b_pend b) op = Some q -> (p_kind q = kCreate \/ p_kind q = kUpdate) -> views_agree b (p_val q) = true;
  x_vh : forall x, In x (b_hist b) -> ver_tomb x = false -> views_agree b (ver_val x) = true;
  x_rk : forall g lr, aget (b_rets b) g = Some lr -> lr_rk lr < 10;
  x_good : forall op q ok rv v t', aget (b_pend b) op = Some q -> p_kind q = kGet -> p_inner q = sValidate ->
      io_flag (inst_of b (p_i q)) = true -> in_term a (p_i q) op = true -> p_applied q = Some (ok, rv, v, t') ->
      ok = oOk /\ good_map b v (p_i q) (io_tok (inst_of b (p_i q))) = true
}.

Lemma XInv0 : XInv base0 caux0.
Proof. constructor; cbn; intros; try discriminate; try contradiction. Qed.

(* a value some decoder reads successfully is a defined value *)
Lemma mok_defined b v : v_mok (vinfo_of b v) = true -> exists x, aget (b_vals b) v = Some x.
Proof. unfold vinfo_of. destruct (aget (b_vals b) v) as [x|]; [eauto|cbn; discriminate]. Qed.

Lemma views_agree_sok b v : views_agree b v = true -> sok_of b v = true.
Proof.
  unfold views_agree, sok_of. cbv zeta. intros H.
  repeat (apply andb_prop in H; destruct H as [H _]). exact H.
Qed.

(* agreement of the decoders turns the struct view of a record into the map view *)
Lemma agree_good b v i tk :
  views_agree b v = true -> sid_of b v = i -> tok_of b v = tk -> good_map b v i tk = true.
Proof.
  unfold views_agree, good_map, sid_of, tok_of. cbv zeta. intros H Hi Ht.
  apply andb_prop in H. destruct H as [H M5]. apply andb_prop in H. destruct H as [H M4].
  apply andb_prop in H. destruct H as [H M3]. apply andb_prop in H. destruct H as [H M2].
  apply andb_prop in H. destruct H as [_ M1].
  apply Z.eqb_eq in M3, M5. rewrite M1, M2, M4. rewrite M3, M5, Hi, Ht, !Z.eqb_refl. reflexivity.
Qed.

(* steps that leave the store-side state and the call numbering alone *)
Lemma X_frame b b' a a' :
  b_pend b' = b_pend b -> b_hist b' = b_hist b -> b_vals b' = b_vals b -> b_rets b' = b_rets b ->
  ca_n a' = ca_n a -> ca_opno a' = ca_opno a -> ca_tstart a' = ca_tstart a ->
  (forall j, io_flag (inst_of b' j) = true -> io_flag (inst_of b j) = true /\ io_tok (inst_of b' j) = io_tok (inst_of b j)) ->
  XInv b a -> XInv b' a'.
Proof.
  intros Hp Hh Hv Hr Hn Ho Ht Hf [X1 X2 X3 X4 X5].
  assert (Vs : forall v, vinfo_of b' v = vinfo_of b v) by (intros; unfold vinfo_of; rewrite Hv; reflexivity).
  constructor.
  - intros op n. rewrite Ho, Hn. apply X1.
  - intros op q. rewrite Hp. unfold views_agree. rewrite Vs. apply X2.
  - intros x. rewrite Hh. unfold views_agree. rewrite Vs. apply X3.
  - intros g lr. rewrite Hr. apply X4.
  - intros op q ok rv v t'. rewrite Hp. intros A B C D E F. destruct (Hf _ D) as [D1 D2].
    unfold in_term in E. rewrite Ht, Ho in E.
    destruct (X5 op q ok rv v t' A B C D1 E F) as [G1 G2]. split; [exact G1|].
    unfold good_map in *. rewrite Vs, D2. exact G2.
Qed.

(* ---------------------------------------------------------------- configuration and values *)
Lemma X_instdef b a t i key H TTL vi gr mh pr tk mo hh hd bt hp :
  XInv b a -> XInv (bapply b (t, EInstDef i key H TTL vi gr mh pr tk mo hh hd bt hp)) (capply a (t, EInstDef i key H TTL vi gr mh pr tk mo hh hd bt hp)).
Proof.
  intros X. cbn [bapply capply snd]. match goal with |- XInv ?x _ => set (b' := x) end.
  assert (Hi : forall j, inst_of b' j = if i =? j then iobs0 else inst_of b j).
  { intros j. unfold inst_of. unfold b'. cbn. rewrite aget_aset. destruct (i =? j); reflexivity. }
  apply (X_frame b b' a a); try reflexivity; [|exact X].
  intros j F. rewrite Hi in F |- *. destruct (i =? j); [cbn in F; discriminate|auto].
Qed.

Lemma X_valdef b a t v len sok sid stok sprio mok hasid mid hastok mtok :
  XInv b a -> guards0 b (t, EValDef v len sok sid stok sprio mok hasid mid hastok mtok) = [] ->
  XInv (bapply b (t, EValDef v len sok sid stok sprio mok hasid mid hastok mtok)) (capply a (t, EValDef v len sok sid stok sprio mok hasid mid hastok mtok)).
Proof.
  intros [X1 X2 X3 X4 X5] G.
  pose proof (fun x => vinfo_stable b _ x G) as Vst.
  assert (Vd : forall x y, aget (b_vals b) x = Some y -> vinfo_of (bapply b (t, EValDef v len sok sid stok sprio mok hasid mid hastok mtok)) x = vinfo_of b x).
  { intros x y Hx. unfold vinfo_of. rewrite (vals_stable _ _ _ _ G Hx), Hx. reflexivity. }
  cbn [capply snd].
  set (b' := bapply b (t, EValDef v len sok sid stok sprio mok hasid mid hastok mtok)) in *.
  constructor.
  - exact X1.
  - intros op q A K. change (aget (b_pend b) op = Some q) in A. pose proof (X2 op q A K) as Y.
    unfold views_agree. rewrite (Vst _ (views_agree_sok _ _ Y)). exact Y.
  - intros x A T. change (In x (b_hist b)) in A. pose proof (X3 x A T) as Y.
    unfold views_agree. rewrite (Vst _ (views_agree_sok _ _ Y)). exact Y.
  - exact X4.
  - intros op q ok rv w t' A B C D E F. change (aget (b_pend b) op = Some q) in A.
    change (inst_of b' (p_i q)) with (inst_of b (p_i q)) in *.
    destruct (X5 op q ok rv w t' A B C D E F) as [G1 G2]. split; [exact G1|].
    assert (M : v_mok (vinfo_of b w) = true).
    { unfold good_map in G2. cbv zeta in G2. repeat (apply andb_prop in G2; destruct G2 as [G2 _]). exact G2. }
    destruct (mok_defined b w M) as [y Hy]. unfold good_map in *. rewrite (Vd w y Hy). exact G2.
Qed.

(* ---------------------------------------------------------------- a call is issued *)
Lemma X_issue b a t i op kind inner root gid key val exp :
  XInv b a -> guards0 b (t, EIssue i op kind inner root gid key val exp) = [] ->
  cause_rules b a (t, EIssue i op kind inner root gid key val exp) = [] ->
  XInv (bapply b (t, EIssue i op kind inner root gid key val exp)) (capply a (t, EIssue i op kind inner root gid key val exp)).
Proof.
  intros [X1 X2 X3 X4 X5] G C.
  destruct (issue_shape b t i op kind inner root gid key val exp) as (Hp & Hr & _ & Hv & Hh & _).
  destruct (issue_shape2 b t i op kind inner root gid key val exp) as (_ & _ & _ & _ & _ & _ & Hf).
  cbn [capply snd].
  set (b' := bapply b (t, EIssue i op kind inner root gid key val exp)) in *.
  assert (Vs : forall v, vinfo_of b' v = vinfo_of b v) by (intros; unfold vinfo_of; rewrite Hv; reflexivity).
  (* the call is new: it was not pending (rule 2009) *)
  assert (Hnew : aget (b_pend b) op = None).
  { cbn in G. apply app_nil_l2 in G. destruct G as [G _]. destruct (aget (b_pend b) op); [discriminate|reflexivity]. }
  constructor.
  - intros op' n. cbn [ca_opno ca_n]. rewrite aget_aset. destruct (op =? op').
    + intros E. inversion E. lia.
    + intros E. pose proof (X1 op' n E). lia.
  - intros op' q. rewrite Hp. destruct (op =? op') eqn:Eo.
    + intros E K. inversion E. subst q. cbn [p_val p_kind] in *.
      cbn in C. apply pwhen_nil in C. unfold views_agree. rewrite Vs.
      destruct K as [K|K]; rewrite K in C; cbn [orb andb] in C;
        [change (kCreate =? kCreate) with true in C|change (kUpdate =? kCreate) with false in C; change (kUpdate =? kUpdate) with true in C];
        cbn [orb andb] in C; apply Bool.negb_false_iff in C; exact C.
    + intros E K. unfold views_agree. rewrite Vs. apply (X2 op' q E K).
  - intros x. rewrite Hh. unfold views_agree. rewrite Vs. apply X3.
  - intros g lr. rewrite Hr. apply X4.
  - intros op' q ok rv w t'. rewrite Hp. destruct (op =? op') eqn:Eo.
    + intros E. inversion E. subst q. cbn. intros; discriminate.
    + intros A B Cc D E F. destruct (Hf (p_i q)) as [F1 F2]. rewrite F1 in D.
      assert (E' : in_term a (p_i q) op' = true).
      { unfold in_term in *. cbn [ca_tstart ca_opno] in E. rewrite aget_aset, Eo in E. exact E. }
      destruct (X5 op' q ok rv w t' A B Cc D E' F) as [G1 G2]. split; [exact G1|].
      unfold good_map in *. rewrite Vs, F2. exact G2.
Qed.

(* ---------------------------------------------------------------- a call takes effect in the store *)
Lemma X_apply b a t op okind rev val :
  Inv b -> Inv2 b -> LInv b -> XInv b a -> b_now b <= t ->
  guards0 b (t, EApply op okind rev val) = [] -> env_okb b (t, EApply op okind rev val) = true ->
  XInv (bapply b (t, EApply op okind rev val)) (capply a (t, EApply op okind rev val)).
Proof.
  intros I I2 IL [X1 X2 X3 X4 X5] Hn G E.
  destruct (aget (b_pend b) op) as [p|] eqn:Hop.
  2:{ cbn in G. rewrite Hop in G. discriminate. }
  destruct (apply_shape b t op okind rev val p Hop) as (Ht & Hr & Hd & Hv & Hc & Hi & Hp & Hl).
  destruct (apply_hist b t op okind rev val p Hop) as (Hm & Hh).
  cbn [capply snd].
  set (b' := bapply b (t, EApply op okind rev val)) in *.
  assert (Vs : forall v, vinfo_of b' v = vinfo_of b v) by (intros x; unfold vinfo_of; rewrite Hv; reflexivity).
  assert (Is : forall j, inst_of b' j = inst_of b j) by (intros j; unfold inst_of; rewrite Hi; reflexivity).
  constructor.
  - exact X1.
  - intros op' q. rewrite Hp. unfold views_agree. rewrite Vs. destruct (op =? op') eqn:Eo; [|apply X2].
    intros A K. inversion A. subst q. cbn [p_val p_kind] in *. apply (X2 op p Hop K).
  - intros x Hin T. unfold views_agree. rewrite Vs.
    destruct (Hh x Hin) as [Old|(Wr & K1 & K2 & K3 & K4)]; [apply (X3 x Old T)|].
    rewrite T in K3. symmetry in K3. apply Bool.negb_false_iff in K3. rewrite K3 in K4. rewrite K4.
    apply (X2 op p Hop). apply Bool.orb_true_iff in K3. destruct K3 as [K|K]; apply Z.eqb_eq in K; auto.
  - intros g lr. rewrite Hr. apply X4.
  - intros op' q ok rv w t'. rewrite Hp. rewrite Is. unfold good_map. rewrite Vs.
    destruct (op =? op') eqn:Eo; [|apply X5].
    apply Z.eqb_eq in Eo. subst op'.
    intros A Kg Ks Fl Tm Ap. inversion A. subst q. clear A.
    change (p_kind (p <| p_applied := Some (okind, rev, val, t) |>)) with (p_kind p) in Kg.
    change (p_inner (p <| p_applied := Some (okind, rev, val, t) |>)) with (p_inner p) in Ks.
    change (p_i (p <| p_applied := Some (okind, rev, val, t) |>)) with (p_i p) in *.
    change (p_applied (p <| p_applied := Some (okind, rev, val, t) |>)) with (Some (okind, rev, val, t)) in Ap.
    inversion Ap. subst ok rv w t'. clear Ap.
    (* a validation read of a claiming instance, applied now: the live record is the instance's own *)
    assert (Ew : p_kind p =? kWatch = false) by (rewrite Kg; reflexivity).
    cbn in G. rewrite Hop, Ew in G.
    destruct (store_outcome b (p_kind p) (p_key p) (p_exp p)) as [ok r] eqn:So.
    apply app_nil_l2 in G. destruct G as [_ G]. apply app_nil_l2 in G. destruct G as [G2 G3].
    apply pwhen_nil in G2. apply Bool.negb_false_iff in G2. apply andb_prop in G2. destruct G2 as [Go Gr].
    apply Z.eqb_eq in Go. subst ok.
    unfold store_outcome in So. rewrite Kg in So.
    change (kGet =? kCreate) with false in So. change (kGet =? kUpdate) with false in So. change (kGet =? kGet) with true in So. cbn iota in So.
    destruct (i2_key _ I2 op p Hop) as [Kk _].
    assert (Cl : claim b (b_now b) (p_key p) (p_i p) (io_tok (inst_of b (p_i p)))) by (apply cl_flag; auto).
    destruct (l_holds _ IL _ _ _ Cl) as (r1 & v1 & Lv & S1 & S2 & S3).
    rewrite Lv in So. inversion So. subst okind r. split; [reflexivity|].
    rewrite Kg in G3. change (kGet =? kGet) with true in G3. change (oOk =? oOk) with true in G3. cbn [andb] in G3.
    apply pwhen_nil in G3. apply Bool.negb_false_iff in G3. rewrite Lv in G3. apply Z.eqb_eq in G3. subst val.
    (* that record is a version of the history written by the library: both decoders agree on it *)
    assert (El : last_of b (p_key p) = Some (r1, v1, false)).
    { unfold live_val in Lv. destruct (last_of b (p_key p)) as [[[r0 v0] [|]]|]; try discriminate. inversion Lv. reflexivity. }
    destruct (inv_last _ I _ _ _ _ El) as (x & Hx & _ & _ & Xv & Xt).
    pose proof (X3 x Hx Xt) as Ag. rewrite Xv in Ag.
    apply (agree_good b v1 (p_i p) _ Ag S2 S3).
Qed.

(* ---------------------------------------------------------------- a call returns *)
Lemma X_ret b a t i op rk rev val :
  XInv b a -> guards0 b (t, ERet i op rk rev val) = [] -> rk < 10 ->
  XInv (bapply b (t, ERet i op rk rev val)) (capply a (t, ERet i op rk rev val)).
Proof.
  intros [X1 X2 X3 X4 X5] G Hrk.
  destruct (aget (b_pend b) op) as [p|] eqn:Hop.
  2:{ cbn in G. rewrite Hop in G. discriminate. }
  destruct (ret_shape b t i op rk rev val p Hop) as (Ht & Hp & Hd & Hl & Hv & Hc & Hr & Hf).
  pose proof (ret_hist b t i op rk rev val) as Hh.
  cbn [capply snd].
  set (b' := bapply b (t, ERet i op rk rev val)) in *.
  assert (Vs : forall v, vinfo_of b' v = vinfo_of b v) by (intros x; unfold vinfo_of; rewrite Hv; reflexivity).
  constructor.
  - exact X1.
  - intros op' q. rewrite Hp. unfold views_agree. rewrite Vs. apply X2.
  - intros x. rewrite Hh. unfold views_agree. rewrite Vs. apply X3.
  - intros g lr. rewrite Hr. destruct (p_gid p =? g); [intros E; inversion E; cbn; exact Hrk|apply X4].
  - intros op' q ok rv w t'. rewrite Hp. intros A B C D E F. destruct (Hf (p_i q)) as [F1 F2]. rewrite F1 in D.
    destruct (X5 op' q ok rv w t' A B C D E F) as [G1 G2]. split; [exact G1|].
    unfold good_map in *. rewrite Vs, F2. exact G2.
Qed.

(* ---------------------------------------------------------------- the claim is raised or cleared *)
Lemma X_flag b a t i fl cause root gid :
  XInv b a -> XInv (bapply b (t, EFlag i fl cause root gid)) (capply a (t, EFlag i fl cause root gid)).
Proof.
  intros [X1 X2 X3 X4 X5]. cbn [bapply capply snd]. destruct (zb fl) eqn:Efl.
  - (* raised: the term begins now, no call has been issued in it yet *)
    change (b_rets (b <| b_now := t |>)) with (b_rets b).
    destruct (aget (b_rets b) gid) as [lr0|] eqn:Hg;
      (match goal with |- XInv ?x _ => set (b' := x) end;
       assert (Hi : forall j, inst_of b' j = if i =? j then _ else inst_of b j) by (intros j; unfold b'; rewrite inst_of_upd; reflexivity);
       constructor;
       [exact X1|exact X2|exact X3|exact X4|];
       intros op q ok rv w t' A B C D E F; change (aget (b_pend b) op = Some q) in A;
       unfold in_term in E; cbn [ca_tstart ca_opno] in E; rewrite aget_aset in E;
       rewrite Hi in D |- *; unfold good_map; change (vinfo_of b' w) with (vinfo_of b w);
       destruct (i =? p_i q) eqn:Ei;
       [destruct (aget (ca_opno a) op) as [n|] eqn:En; [|discriminate E];
        apply Z.ltb_lt in E; pose proof (X1 op n En); lia
       |apply (X5 op q ok rv w t' A B C D); [unfold in_term; exact E|exact F]]).
  - (* cleared *)
    match goal with |- XInv ?x _ => set (b' := x) end.
    assert (Hi : forall j, inst_of b' j = if i =? j then _ else inst_of b j) by (intros j; unfold b'; rewrite inst_of_upd; reflexivity).
    apply (X_frame b b' a a); try reflexivity; [|constructor; assumption].
    intros j F. rewrite Hi in F |- *. destruct (i =? j); [cbn in F; discriminate|auto].
Qed.

(* ---------------------------------------------------------------- every observation *)
Ltac quietX X :=
  cbn [bapply capply snd];
  repeat match goal with |- XInv (if ?c then _ else _) _ => destruct c end;
  repeat match goal with |- XInv _ (if ?c then _ else _) => destruct c end;
  (eapply (X_frame _ _ _ _) with (9 := X); try reflexivity;
   first [apply flags_upd; intros x; cbn; auto; discriminate | intros j; auto]).

Lemma X_step b a te :
  Inv b -> Inv2 b -> LInv b -> XInv b a -> guards b te = [] -> cause_rules b a te = [] -> env_okb b te = true ->
  (match snd te with ERet _ _ rk _ _ => rk < 10 | _ => True end) ->
  XInv (bapply b te) (capply a te).
Proof.
  intros I I2 IL X G C E Hrk.
  apply guards_split in G. destruct G as (G & _ & Hn).
  destruct te as [t e]. cbn [fst] in Hn. apply Z.ltb_ge in Hn. cbn [snd] in Hrk.
  destruct e;
    try (apply X_instdef; assumption); try (apply X_valdef; assumption); try (apply X_issue; assumption);
    try (apply X_apply; assumption); try (apply X_ret; assumption); try (apply X_flag; assumption);
    try (cbn in E; discriminate);
    quietX X.
Qed.

(* the observation "the claim is dropped by the instance's own validation loop" *)
Definition val_demotion (b : base) (te : Z * ev) : bool :=
  match snd te with
  | EFlag i fl cause root _ => negb (zb fl) && io_flag (inst_of b i) && (cause =? sValFail) && (root =? 16)
  | _ => false
  end.

Lemma no_val_demotion b a te :
  LInv b -> TInv b -> ND b -> XInv b a -> cause_rules b a te = [] -> fastb b (fst te) = true -> val_demotion b te = false.
Proof.
  intros IL IT [N1 _] X C F. destruct te as [t e]. destruct e; try reflexivity. cbn [fst] in F.
  unfold val_demotion. cbn [snd].
  match goal with |- ?c = false => destruct c eqn:Hd; [exfalso|reflexivity] end.
  apply andb_prop in Hd. destruct Hd as [Hd Er]. apply andb_prop in Hd. destruct Hd as [Hd Ec].
  apply andb_prop in Hd. destruct Hd as [Hfl Fi].
  unfold cause_rules in C. cbn [snd] in C. cbv zeta in C.
  apply app_nil_l2 in C. destruct C as [_ C]. apply app_nil_l2 in C. destruct C as [_ C]. apply app_nil_l2 in C. destruct C as [_ C].
  apply pwhen_nil in C. rewrite Hfl, Fi, Ec, Er in C. cbn [andb] in C.
  apply Bool.negb_false_iff in C. apply existsb_exists in C. destruct C as ([op q] & Hin & Hq). cbn [fst snd] in Hq.
  apply andb_prop in Hq. destruct Hq as [Hq Hj]. apply andb_prop in Hq. destruct Hq as [Hq Tm].
  apply andb_prop in Hq. destruct Hq as [Hq Ei]. apply andb_prop in Hq. destruct Hq as [Kg Ks].
  apply Z.eqb_eq in Kg, Ks, Ei.
  pose proof (In_aget _ _ _ N1 Hin) as Hop.
  destruct (existsb (Z.eqb op) (b_done b)) eqn:Dn.
  - (* answered *)
    apply Bool.orb_true_iff in Hj. destruct Hj as [Hj|Hj].
    + destruct (p_applied q) as [[[[ok rv] w] t']|] eqn:Ea; [|discriminate Hj].
      assert (Fq : io_flag (inst_of b (p_i q)) = true) by (rewrite Ei; exact Fi).
      assert (Tq : in_term a (p_i q) op = true) by (rewrite Ei; exact Tm).
      destruct (x_good _ _ X op q ok rv w t' Hop Kg Ks Fq Tq Ea) as [G1 G2].
      rewrite Ei in G2. subst ok. rewrite G2 in Hj. cbn in Hj. discriminate Hj.
    + destruct (aget (b_rets b) (p_gid q)) as [lr|] eqn:Hr; [|discriminate Hj].
      apply andb_prop in Hj. destruct Hj as [_ Hj]. apply Z.leb_le in Hj.
      pose proof (x_rk _ _ X _ _ Hr). lia.
  - (* not answered: a fast store does not let the read reach its time-out *)
    apply Z.leb_le in Hj.
    destruct (l_fcfg _ IL i Fi) as [c Hcf]. assert (Ecf : cfg_of b i = c) by (unfold cfg_of; rewrite Hcf; reflexivity).
    destruct (t_cfg _ IT i c Hcf) as (Hpos & _ & _).
    assert (Hkw : p_kind q <> kWatch) by (rewrite Kg; discriminate).
    pose proof (fast_pend b t op q F Hop Hkw Dn) as Ff. rewrite Ei, Ecf in Ff.
    pose proof (val_read_tolerates_fast_store (ic_H c) (t - p_t q) Hpos Ff) as Lt.
    rewrite Ecf in Hj. lia.
Qed.

Lemma admitted_prefixX tr : forall b a, Inv b -> Inv2 b -> LInv b -> TInv b -> ND b -> VInv b -> XInv b a ->
  admits b tr = true -> cadmits b a tr = true -> envC_admits b tr = true ->
  forall pre te post, tr = pre ++ te :: post -> val_demotion (fold_left bapply pre b) te = false.
Proof.
  induction tr as [|x tr IH]; intros b a I I2 IL IT N IV X A Ca E pre te post Eq.
  - destruct pre; discriminate.
  - cbn in A, Ca, E. destruct (guards b x) eqn:G; [|discriminate]. destruct (cause_rules b a x) eqn:C; [|discriminate].
    apply andb_prop in E. destruct E as [E1 E2].
    assert (F : fastb b (fst x) = true) by (unfold envC_okb in E1; apply andb_prop in E1; tauto).
    destruct pre as [|y pre]; cbn in Eq.
    + inversion Eq. subst x post. cbn. apply (no_val_demotion b a); assumption.
    + inversion Eq. subst y. cbn [fold_left].
      pose proof (envC_envT b x IV G E1) as ET.
      pose proof (envT_env b x I2 IL IT N G ET) as E0.
      pose proof (L_step b x I I2 IL G E0) as IL'.
      pose proof (T_step b x I2 IL IT G ET) as IT'.
      assert (Hrk : match snd x with ERet _ _ rk _ _ => rk < 10 | _ => True end).
      { unfold envC_okb in E1. apply andb_prop in E1. destruct E1 as [_ E1]. destruct (snd x); try exact Logic.I. apply Z.ltb_lt. exact E1. }
      pose proof (V_step b x I I2 IL IT IV G E0 F Hrk) as IV'.
      pose proof (X_step b a x I I2 IL X G C E0 Hrk) as X'.
      apply guards_split in G. destruct G as [G _].
      eapply (IH (bapply b x) (capply a x)); eauto; [apply Inv_step|apply Inv2_step|apply ND_step]; assumption.
Qed.

Theorem C07_never_demoted_by_validation tr :
  admits base0 tr = true -> cadmits base0 caux0 tr = true -> envC_admits base0 tr = true ->
  forall pre te post, tr = pre ++ te :: post -> val_demotion (brun pre) te = false.
Proof.
  intros A Ca E pre te post Eq.
  apply (admitted_prefixX tr base0 caux0 Inv0 Inv2_0 LInv0 TInv0 ND0 VInv0 XInv0 A Ca E pre te post Eq).
Qed.
