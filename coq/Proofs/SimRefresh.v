(* Proofs/SimRefresh.v — C01 clause "a refresh by the instance that wrote the previous version,
   republishing the same identity and fencing token against that exact revision" and C05 clause
   "every refresh of that term republishes exactly that token and identity": for every admitted trace,
   every successful heartbeat Update replaces a live version written by the same instance with the
   same id and token (monitor clauses 105 and 503). *)
From RecordUpdate Require Import RecordUpdate.
From LE Require Import Base Ev Consts World Mon Proto GenGuards SimBasics SimOwn.
Open Scope Z_scope.

Definition in_hist_by (b : base) (k r v a : Z) : Prop :=
  exists ver, In ver (b_hist b) /\ ver_key ver = k /\ ver_rev ver = r /\ ver_val ver = v /\ ver_tomb ver = false /\ ver_author ver = a.

Lemma in_hist_by_in_hist b k r v a : in_hist_by b k r v a -> in_hist b k r v false.
Proof. intros (x & H & A & B & C & D & _). exists x. auto. Qed.

Definition own_version (b : base) (k r i tk : Z) : Prop :=
  exists pv, in_hist_by b k r pv i /\ sok_of b pv = true /\ sid_of b pv = i /\ tok_of b pv = tk.

Record Inv2 (b : base) : Prop := mkInv2 {
  (* every call targets its issuer's key; refresh and takeover payloads are readable and name the issuer *)
  i2_key : forall op p, aget (b_pend b) op = Some p -> p_key p = ic_key (cfg_of b (p_i p)) /\ (exists c, aget (b_cfgs b) (p_i p) = Some c);
  i2_payload : forall op p, aget (b_pend b) op = Some p -> p_kind p = kUpdate ->
      sok_of b (p_val p) = true /\ sid_of b (p_val p) = p_i p;
  (* a refresh in flight was computed from a (token, revision) view of its issuer *)
  i2_hb : forall op p, aget (b_pend b) op = Some p -> p_kind p = kUpdate -> p_inner p = sHeartbeat -> p_applied p = None ->
      own_version b (p_key p) (p_exp p) (p_i p) (tok_of b (p_val p));
  (* every view an instance holds is a version it wrote itself with that token *)
  i2_views : forall i tk r, In (tk, r) (io_views (inst_of b i)) -> own_version b (ic_key (cfg_of b i)) r i tk;
  (* what a successful write returned is a version of the history by its issuer *)
  i2_applied : forall op p r v t, aget (b_pend b) op = Some p -> (p_kind p = kCreate \/ p_kind p = kUpdate) ->
      p_applied p = Some (oOk, r, v, t) -> in_hist_by b (p_key p) r (p_val p) (p_i p);
  i2_won : forall g r, aget (b_rets b) g = Some r -> (lr_kind r = kCreate \/ lr_kind r = kUpdate) -> lr_rk r = oOk ->
      in_hist_by b (lr_key r) (lr_rev r) (lr_val r) (lr_i r) /\ sok_of b (lr_val r) = true /\ sid_of b (lr_val r) = lr_i r
}.

Lemma Inv2_0 : Inv2 base0.
Proof. constructor; cbn; intros; try discriminate; try contradiction. Qed.

(* ---------------------------------------------------------------- monotonicity helpers *)
Lemma own_version_mono b b' k r i tk :
  (forall x, In x (b_hist b) -> In x (b_hist b')) ->
  (forall v, sok_of b v = true -> vinfo_of b' v = vinfo_of b v) ->
  own_version b k r i tk -> own_version b' k r i tk.
Proof.
  intros Hh Hv (pv & (x & Hx & A) & S1 & S2 & S3).
  exists pv. unfold sok_of, sid_of, tok_of in *. rewrite (Hv pv S1). repeat split; auto.
  exists x. split; [apply Hh; exact Hx|exact A].
Qed.

Lemma in_hist_by_mono b b' k r v a :
  (forall x, In x (b_hist b) -> In x (b_hist b')) -> in_hist_by b k r v a -> in_hist_by b' k r v a.
Proof. intros Hh (x & Hx & A). exists x. split; [apply Hh; exact Hx|exact A]. Qed.

(* a state change that keeps pend, rets, cfgs, vals and only extends the history and changes instances' views monotonically *)
Lemma Inv2_transfer b b' :
  b_pend b' = b_pend b -> b_rets b' = b_rets b -> b_cfgs b' = b_cfgs b -> b_vals b' = b_vals b ->
  (forall x, In x (b_hist b) -> In x (b_hist b')) ->
  (forall i tk r, In (tk, r) (io_views (inst_of b' i)) -> own_version b' (ic_key (cfg_of b' i)) r i tk) ->
  Inv2 b -> Inv2 b'.
Proof.
  intros Hp Hr Hc Hv Hh Hviews [A1 A2 A3 A4 A5 A6].
  assert (Ev : forall v, vinfo_of b' v = vinfo_of b v) by (intros; unfold vinfo_of; rewrite Hv; reflexivity).
  assert (Ec : forall i, cfg_of b' i = cfg_of b i) by (intros; unfold cfg_of; rewrite Hc; reflexivity).
  constructor.
  - intros op p. rewrite Hp, Ec, Hc. apply A1.
  - intros op p. rewrite Hp. unfold sok_of, sid_of. rewrite Ev. apply A2.
  - intros op p. rewrite Hp. intros H1 H2 H3 H4. unfold tok_of. rewrite Ev.
    eapply own_version_mono; [exact Hh|intros; apply Ev|]. apply (A3 op p); assumption.
  - exact Hviews.
  - intros op p r v t. rewrite Hp. intros H1 H2 H3. eapply in_hist_by_mono; [exact Hh|]. apply (A5 op p r v t); assumption.
  - intros g r. rewrite Hr. intros H1 H2 H3. destruct (A6 g r H1 H2 H3) as (X & Y & Z0).
    unfold sok_of, sid_of. rewrite Ev. repeat split; auto. eapply in_hist_by_mono; [exact Hh|exact X].
Qed.

Lemma views_same_transfer b b' :
  b_cfgs b' = b_cfgs b -> b_vals b' = b_vals b ->
  (forall x, In x (b_hist b) -> In x (b_hist b')) ->
  (forall i, io_views (inst_of b' i) = io_views (inst_of b i)) ->
  Inv2 b -> forall i tk r, In (tk, r) (io_views (inst_of b' i)) -> own_version b' (ic_key (cfg_of b' i)) r i tk.
Proof.
  intros Hc Hv Hh Hvw I i tk r Hin. rewrite Hvw in Hin.
  assert (Ec : cfg_of b' i = cfg_of b i) by (unfold cfg_of; rewrite Hc; reflexivity). rewrite Ec.
  eapply own_version_mono; [exact Hh| |apply (i2_views _ I); exact Hin].
  intros v _. unfold vinfo_of. rewrite Hv. reflexivity.
Qed.

(* ---------------------------------------------------------------- events that only extend the history / touch instances *)
Definition neutral2 (e : ev) : bool :=
  match e with
  | EInstDef _ _ _ _ _ _ _ _ _ _ _ _ _ _ | EValDef _ _ _ _ _ _ _ _ _ _ _ | EIssue _ _ _ _ _ _ _ _ _
  | EApply _ _ _ _ | ERet _ _ _ _ _ | EFlag _ _ _ _ _ => false
  | _ => true
  end.

Lemma neutral2_facts b t e : neutral2 e = true ->
  let b' := bapply b (t, e) in
  b_pend b' = b_pend b /\ b_rets b' = b_rets b /\ b_cfgs b' = b_cfgs b /\ b_vals b' = b_vals b /\
  (forall x, In x (b_hist b) -> In x (b_hist b')) /\
  (forall i, io_views (inst_of b' i) = io_views (inst_of b i)).
Proof.
  intros Hn. destruct e; try discriminate; cbn [bapply];
    repeat match goal with
           | |- context [match ?d with _ => _ end] => destruct d
           end;
    cbn; repeat split; auto;
    try (intros x Hx; right; exact Hx);
    try (intros j; rewrite inst_of_upd; match goal with |- context [?a =? j] => destruct (Z.eqb_spec a j); [subst|]; reflexivity end).
Qed.

Lemma Inv2_neutral b t e : neutral2 e = true -> Inv2 b -> Inv2 (bapply b (t, e)).
Proof.
  intros Hn I. destruct (neutral2_facts b t e Hn) as (Hp & Hr & Hc & Hv & Hh & Hvw).
  apply (Inv2_transfer b); auto. apply (views_same_transfer b); auto.
Qed.

(* ---------------------------------------------------------------- the claim is raised *)
Lemma Inv2_flag b t i fl cause root gid :
  Inv b -> Inv2 b -> guards0 b (t, EFlag i fl cause root gid) = [] -> Inv2 (bapply b (t, EFlag i fl cause root gid)).
Proof.
  intros I0 I G.
  assert (Hb : forall f, let b' := upd_inst (b <| b_now := t |>) i f in
               b_pend b' = b_pend b /\ b_rets b' = b_rets b /\ b_cfgs b' = b_cfgs b /\ b_vals b' = b_vals b /\
               (forall x, In x (b_hist b) -> In x (b_hist b'))).
  { intros f. cbn. repeat split; auto. }
  cbn [bapply]. destruct (zb fl) eqn:Ef.
  - cbn in G. rewrite Ef in G.
    apply app_nil_l2 in G. destruct G as [_ G]. apply app_nil_l2 in G. destruct G as [_ G].
    apply app_nil_l2 in G. destruct G as [_ G].
    change (b_rets (b <| b_now := t |>)) with (b_rets b).
    destruct (aget (b_rets b) gid) as [r|] eqn:Er; [|discriminate].
    apply app_nil_l2 in G. destruct G as [G Gt].
    apply pwhen_nil in G. apply Bool.negb_false_iff in G.
    apply andb_prop in G. destruct G as [G Gk]. apply andb_prop in G. destruct G as [Gw Gi].
    apply Z.eqb_eq in Gk, Gi.
    match goal with |- Inv2 (upd_inst _ _ ?f) => destruct (Hb f) as (Hp & Hr & Hc & Hv & Hh) end.
    apply (Inv2_transfer b); auto.
    intros j tk rv. rewrite inst_of_upd. destruct (Z.eqb_spec i j) as [E|E].
    + subst j. cbn [io_views]. change (inst_of (b <| b_now := t |>) i) with (inst_of b i).
      intros [Hhd|Htl].
      * inversion Hhd. subst tk rv.
        assert (Hk : lr_kind r = kCreate \/ lr_kind r = kUpdate).
        { unfold lr_won in Gw. apply andb_prop in Gw. destruct Gw as [Gw _].
          apply Bool.orb_true_iff in Gw. destruct Gw as [Gw|Gw]; [left; apply Z.eqb_eq; exact Gw|].
          apply andb_prop in Gw. destruct Gw as [Gw _]. right. apply Z.eqb_eq. exact Gw. }
        assert (Hok : lr_rk r = oOk).
        { unfold lr_won in Gw. apply andb_prop in Gw. destruct Gw as [_ Gw]. apply Z.eqb_eq. exact Gw. }
        destruct (i2_won _ I gid r Er Hk Hok) as (X & Y & Z0).
        exists (lr_val r). rewrite Gi in X, Z0. unfold cfg_of. rewrite Hc. fold (cfg_of b i). rewrite <- Gk.
        split; [eapply in_hist_by_mono; [exact Hh|exact X]|].
        unfold sok_of, sid_of, tok_of, vinfo_of in *. rewrite Hv. repeat split; assumption.
      * unfold cfg_of. rewrite Hc. fold (cfg_of b i).
        eapply own_version_mono; [exact Hh| |apply (i2_views _ I); exact Htl].
        intros v _. reflexivity.
    + intros Hin. unfold cfg_of. rewrite Hc. fold (cfg_of b j).
      eapply own_version_mono; [exact Hh| |apply (i2_views _ I); exact Hin].
      intros v _. reflexivity.
  - match goal with |- Inv2 (upd_inst _ _ ?f) => destruct (Hb f) as (Hp & Hr & Hc & Hv & Hh) end.
    apply (Inv2_transfer b); auto. apply (views_same_transfer b); auto.
    intros j. rewrite inst_of_upd. destruct (Z.eqb_spec i j); [subst|]; reflexivity.
Qed.

(* ---------------------------------------------------------------- value and instance tables *)
Lemma Inv2_valdef b t v len sok sid stok sprio mok hasid mid hastok mtok :
  Inv2 b -> guards0 b (t, EValDef v len sok sid stok sprio mok hasid mid hastok mtok) = [] ->
  Inv2 (bapply b (t, EValDef v len sok sid stok sprio mok hasid mid hastok mtok)).
Proof.
  intros I G.
  set (te := (t, EValDef v len sok sid stok sprio mok hasid mid hastok mtok)) in *.
  assert (Vst : forall x, sok_of b x = true -> vinfo_of (bapply b te) x = vinfo_of b x) by (intros; apply vinfo_stable; assumption).
  set (b' := bapply b te) in *.
  assert (Hp : b_pend b' = b_pend b) by reflexivity.
  assert (Hr : b_rets b' = b_rets b) by reflexivity.
  assert (Hc : b_cfgs b' = b_cfgs b) by reflexivity.
  assert (Hh : b_hist b' = b_hist b) by reflexivity.
  assert (Hi : b_inst b' = b_inst b) by reflexivity.
  assert (Ec : forall i, cfg_of b' i = cfg_of b i) by (intros; unfold cfg_of; rewrite Hc; reflexivity).
  assert (OV : forall k r i tk, own_version b k r i tk -> own_version b' k r i tk).
  { intros k r i tk H. apply (own_version_mono b b'); [rewrite Hh; auto|exact Vst|exact H]. }
  destruct I as [A1 A2 A3 A4 A5 A6].
  constructor.
  - intros op p. rewrite Hp, Ec, Hc. apply A1.
  - intros op p. rewrite Hp. intros H1 H2. destruct (A2 op p H1 H2) as [S1 S2].
    unfold sok_of, sid_of in *. rewrite (Vst _ S1). auto.
  - intros op p. rewrite Hp. intros H1 H2 H3 H4. destruct (A2 op p H1 H2) as [S1 _].
    unfold tok_of. rewrite (Vst _ S1). apply OV. apply (A3 op p); assumption.
  - intros i tk r. unfold inst_of. rewrite Hi. fold (inst_of b i). rewrite Ec. intros H. apply OV. apply A4. exact H.
  - intros op p r v0 t0. rewrite Hp. intros H1 H2 H3. unfold in_hist_by. rewrite Hh. apply (A5 op p r v0 t0); assumption.
  - intros g r. rewrite Hr. intros H1 H2 H3. destruct (A6 g r H1 H2 H3) as (X & Y & Z0).
    unfold sok_of, sid_of, in_hist_by in *. rewrite Hh, (Vst _ Y). auto.
Qed.

Lemma Inv2_instdef b t i key H TTL vi gr mh pr tk mo hh hd bt hp :
  Inv2 b -> guards0 b (t, EInstDef i key H TTL vi gr mh pr tk mo hh hd bt hp) = [] ->
  Inv2 (bapply b (t, EInstDef i key H TTL vi gr mh pr tk mo hh hd bt hp)).
Proof.
  intros I G. cbn in G. apply pwhen_nil in G.
  set (b' := bapply b (t, EInstDef i key H TTL vi gr mh pr tk mo hh hd bt hp)).
  assert (Hp : b_pend b' = b_pend b) by reflexivity.
  assert (Hr : b_rets b' = b_rets b) by reflexivity.
  assert (Hv : b_vals b' = b_vals b) by reflexivity.
  assert (Hh : b_hist b' = b_hist b) by reflexivity.
  assert (Ev : forall v, vinfo_of b' v = vinfo_of b v) by (intros; unfold vinfo_of; rewrite Hv; reflexivity).
  assert (Ec : forall j, j <> i -> cfg_of b' j = cfg_of b j).
  { intros j Hj. unfold cfg_of, b'. cbn. rewrite aget_aset. destruct (Z.eqb_spec i j); [congruence|reflexivity]. }
  assert (Ed : forall j c, aget (b_cfgs b) j = Some c -> j <> i).
  { intros j c Hj E. subst j. rewrite Hj in G. discriminate. }
  assert (OV : forall k r j tk0, own_version b k r j tk0 -> own_version b' k r j tk0).
  { intros k r j tk0 Hx. apply (own_version_mono b b'); [rewrite Hh; auto|intros; apply Ev|exact Hx]. }
  destruct I as [A1 A2 A3 A4 A5 A6].
  constructor.
  - intros op p. rewrite Hp. intros H1. destruct (A1 op p H1) as [K [c Hc]].
    rewrite (Ec _ (Ed _ _ Hc)). split; [exact K|]. exists c. unfold b'. cbn. rewrite aget_aset.
    destruct (Z.eqb_spec i (p_i p)); [exfalso; apply (Ed _ _ Hc); congruence|exact Hc].
  - intros op p. rewrite Hp. unfold sok_of, sid_of. rewrite Ev. apply A2.
  - intros op p. rewrite Hp. intros H1 H2 H3 H4. unfold tok_of. rewrite Ev. apply OV. apply (A3 op p); assumption.
  - intros j tk0 r. destruct (Z.eq_dec j i) as [E|E].
    + subst j. assert (Ei : inst_of b' i = iobs0) by (unfold inst_of, b'; cbn; rewrite aget_aset, Z.eqb_refl; reflexivity).
      rewrite Ei. cbn. intros [].
    + assert (Ei : inst_of b' j = inst_of b j).
      { unfold inst_of, b'. cbn. rewrite aget_aset. destruct (Z.eqb_spec i j); [congruence|reflexivity]. }
      rewrite Ei, (Ec j E). intros Hin. apply OV. apply A4. exact Hin.
  - intros op p r v0 t0. rewrite Hp. intros H1 H2 H3. unfold in_hist_by. rewrite Hh. apply (A5 op p r v0 t0); assumption.
  - intros g r. rewrite Hr. intros H1 H2 H3. destruct (A6 g r H1 H2 H3) as (X & Y & Z0).
    unfold sok_of, sid_of, in_hist_by in *. rewrite Hh, Ev. auto.
Qed.

(* ---------------------------------------------------------------- store calls *)
Lemma view_mem_In tk r l : view_mem tk r l = true -> In (tk, r) l.
Proof.
  induction l as [|[a c] l IH]; cbn; [discriminate|].
  intros H. apply Bool.orb_true_iff in H. destruct H as [H|H].
  - apply andb_prop in H. destruct H as [A B]. apply Z.eqb_eq in A, B. subst. left. reflexivity.
  - right. apply IH. exact H.
Qed.

Lemma issue_shape b t i op kind inner root gid key val exp :
  let b' := bapply b (t, EIssue i op kind inner root gid key val exp) in
  (forall op', aget (b_pend b') op' = if op =? op' then Some (mkPend i kind inner root gid key val exp t None) else aget (b_pend b) op') /\
  b_rets b' = b_rets b /\ b_cfgs b' = b_cfgs b /\ b_vals b' = b_vals b /\ b_hist b' = b_hist b /\
  (forall j, io_views (inst_of b' j) = io_views (inst_of b j)).
Proof.
  cbn [bapply].
  match goal with |- context [if ?c then _ else _] => destruct c end; cbn; repeat split; auto;
    try (intros; apply aget_aset);
    intros j; try reflexivity;
    rewrite inst_of_upd; destruct (Z.eqb_spec i j); [subst|]; reflexivity.
Qed.

Lemma Inv2_issue b t i op kind inner root gid key val exp :
  Inv2 b -> guards0 b (t, EIssue i op kind inner root gid key val exp) = [] ->
  Inv2 (bapply b (t, EIssue i op kind inner root gid key val exp)).
Proof.
  intros I G.
  cbn in G. apply app_nil_l2 in G. destruct G as [G0 G]. apply app_nil_l2 in G. destruct G as [Gk G].
  apply app_nil_l2 in G. destruct G as [G Gd].
  apply pwhen_nil in G0. apply pwhen_nil in Gk. apply Bool.negb_false_iff in Gk. apply Z.eqb_eq in Gk. apply pwhen_nil in Gd.
  assert (Hdef : exists c, aget (b_cfgs b) i = Some c) by (destruct (aget (b_cfgs b) i); [eauto|discriminate]).
  set (p := mkPend i kind inner root gid key val exp t None).
  set (b' := bapply b (t, EIssue i op kind inner root gid key val exp)).
  destruct (issue_shape b t i op kind inner root gid key val exp) as (Hp & Hr & Hc & Hv & Hh & Hvw).
  fold p in Hp. fold b' in Hp, Hr, Hc, Hv, Hh, Hvw.
  assert (Ev : forall v, vinfo_of b' v = vinfo_of b v) by (intros; unfold vinfo_of; rewrite Hv; reflexivity).
  assert (Ec : forall j, cfg_of b' j = cfg_of b j) by (intros; unfold cfg_of; rewrite Hc; reflexivity).
  assert (OV : forall k r j tk, own_version b k r j tk <-> own_version b' k r j tk).
  { intros. unfold own_version, in_hist_by, sok_of, sid_of, tok_of. rewrite Hh. split; intros (pv & X); exists pv; rewrite ?Ev in *; exact X. }
  destruct I as [A1 A2 A3 A4 A5 A6].
  constructor.
  - intros op' q. rewrite Hp, Ec, Hc. destruct (op =? op'); [|apply A1].
    intros Hq. inversion Hq. subst q. cbn. split; [exact Gk|exact Hdef].
  - intros op' q. rewrite Hp. unfold sok_of, sid_of. rewrite Ev. destruct (op =? op'); [|apply A2].
    intros Hq Hk. inversion Hq. subst q. cbn in Hk |- *. subst kind.
    change (kUpdate =? kCreate) with false in G. change (kUpdate =? kUpdate) with true in G. cbn iota in G.
    destruct (inner =? sHeartbeat).
    + apply pwhen_nil in G. apply Bool.negb_false_iff in G. apply andb_prop in G. destruct G as [G _].
      apply andb_prop in G. destruct G as [S1 S2]. apply Z.eqb_eq in S2. auto.
    + destruct (inner =? sTakeover); [|discriminate].
      apply pwhen_nil in G. apply Bool.negb_false_iff in G.
      destruct (takeover_ok_spec _ _ _ _ _ G) as (r & _ & _ & _ & _ & _ & _ & _ & _ & _ & Vsok & Vsid). auto.
  - intros op' q. rewrite Hp. unfold tok_of. rewrite Ev. destruct (op =? op') eqn:E.
    + intros Hq Hk Hin _. inversion Hq. subst q. cbn in Hk, Hin |- *. subst kind inner.
      change (kUpdate =? kCreate) with false in G. change (kUpdate =? kUpdate) with true in G.
      change (sHeartbeat =? sHeartbeat) with true in G. cbn iota in G.
      apply pwhen_nil in G. apply Bool.negb_false_iff in G. apply andb_prop in G. destruct G as [_ Gm].
      apply view_mem_In in Gm. apply OV. rewrite Gk. apply A4. exact Gm.
    + intros H1 H2 H3 H4. apply OV. apply (A3 op' q); assumption.
  - intros j tk r. rewrite Hvw, Ec. intros H. apply OV. apply A4. exact H.
  - intros op' q r v0 t0. rewrite Hp. destruct (op =? op').
    + intros Hq _ Ha. inversion Hq. subst q. cbn in Ha. discriminate.
    + intros H1 H2 H3. unfold in_hist_by. rewrite Hh. apply (A5 op' q r v0 t0); assumption.
  - intros g r. rewrite Hr. intros H1 H2 H3. destruct (A6 g r H1 H2 H3) as (X & Y & Z0).
    unfold sok_of, sid_of, in_hist_by in *. rewrite Hh, Ev. auto.
Qed.

Lemma Inv2_apply b t op okind rev val :
  Inv b -> Inv2 b -> guards0 b (t, EApply op okind rev val) = [] -> Inv2 (bapply b (t, EApply op okind rev val)).
Proof.
  intros I0 I G.
  destruct (aget (b_pend b) op) as [p|] eqn:Hop.
  2:{ assert (E : bapply b (t, EApply op okind rev val) = b <| b_now := t |>).
      { cbn [bapply]. change (b_pend (b <| b_now := t |>)) with (b_pend b). rewrite Hop. reflexivity. }
      rewrite E. apply (Inv2_transfer b); auto. apply (views_same_transfer b); auto. }
  set (p' := p <| p_applied := Some (okind, rev, val, t) |>).
  set (b1 := b <| b_now := t |> <| b_pend ::= fun m => aset m op p' |>).
  (* which state results: b1 itself, or b1 with one more version published by p *)
  assert (Hshape : exists b', bapply b (t, EApply op okind rev val) = b' /\
            (forall op', aget (b_pend b') op' = if op =? op' then Some p' else aget (b_pend b) op') /\
            b_rets b' = b_rets b /\ b_cfgs b' = b_cfgs b /\ b_vals b' = b_vals b /\ b_inst b' = b_inst b /\
            (forall x, In x (b_hist b) -> In x (b_hist b')) /\
            (okind = oOk -> (p_kind p = kCreate \/ p_kind p = kUpdate) -> in_hist_by b' (p_key p) rev (p_val p) (p_i p))).
  { cbn [bapply]. change (b_pend (b <| b_now := t |>)) with (b_pend b). rewrite Hop. fold p'. fold b1.
    assert (Hp1 : forall op', aget (b_pend b1) op' = if op =? op' then Some p' else aget (b_pend b) op') by (intros; unfold b1; cbn; apply aget_aset).
    destruct (okind =? oOk) eqn:Eok.
    - destruct (p_kind p =? kCreate) eqn:K1.
      + eexists. split; [reflexivity|]. cbn. repeat split; auto. intros _ _. eexists. split; [left; reflexivity|]. cbn. auto.
      + destruct (p_kind p =? kUpdate) eqn:K2.
        * eexists. split; [reflexivity|]. cbn. repeat split; auto. intros _ _. eexists. split; [left; reflexivity|]. cbn. auto.
        * destruct (p_kind p =? kDelete) eqn:K3.
          -- eexists. split; [reflexivity|]. cbn. repeat split; auto.
             intros _ [K|K]; rewrite K in *; discriminate.
          -- eexists. split; [reflexivity|]. cbn. repeat split; auto.
             intros _ [K|K]; rewrite K in *; discriminate.
    - eexists. split; [reflexivity|]. cbn. repeat split; auto. intros E. subst okind. discriminate. }
  destruct Hshape as (b' & Eb & Hp & Hr & Hc & Hv & Hi & Hh & Hnew).
  rewrite Eb. clear Eb.
  assert (Ev : forall v, vinfo_of b' v = vinfo_of b v) by (intros; unfold vinfo_of; rewrite Hv; reflexivity).
  assert (Ec : forall j, cfg_of b' j = cfg_of b j) by (intros; unfold cfg_of; rewrite Hc; reflexivity).
  assert (OV : forall k r j tk, own_version b k r j tk -> own_version b' k r j tk).
  { intros k r j tk Hx. apply (own_version_mono b b'); [exact Hh|intros; apply Ev|exact Hx]. }
  assert (Happ : p_applied p = None).
  { cbn in G. rewrite Hop in G. apply app_nil_l2 in G. destruct G as [G _]. apply pwhen_nil in G. destruct (p_applied p); [discriminate|reflexivity]. }
  destruct I as [A1 A2 A3 A4 A5 A6].
  constructor.
  - intros op' q. rewrite Hp, Ec, Hc. destruct (Z.eqb_spec op op'); [|apply A1].
    subst op'. intros Hq. inversion Hq. subst q. cbn. apply (A1 op p Hop).
  - intros op' q. rewrite Hp. unfold sok_of, sid_of. rewrite Ev. destruct (Z.eqb_spec op op'); [|apply A2].
    subst op'. intros Hq. inversion Hq. subst q. cbn. apply (A2 op p Hop).
  - intros op' q. rewrite Hp. unfold tok_of. rewrite Ev. destruct (Z.eqb_spec op op').
    + intros Hq _ _ Hn. inversion Hq. subst q. cbn in Hn. discriminate.
    + intros H1 H2 H3 H4. apply OV. apply (A3 op' q); assumption.
  - intros j tk r. unfold inst_of. rewrite Hi. fold (inst_of b j). rewrite Ec. intros H. apply OV. apply A4. exact H.
  - intros op' q r v0 t0. rewrite Hp. destruct (Z.eqb_spec op op').
    + subst op'. intros Hq Hk Ha. inversion Hq. subst q. cbn in Ha, Hk |- *. inversion Ha. subst. apply Hnew; auto.
    + intros H1 H2 H3. eapply in_hist_by_mono; [exact Hh|]. apply (A5 op' q r v0 t0); assumption.
  - intros g r. rewrite Hr. intros H1 H2 H3. destruct (A6 g r H1 H2 H3) as (X & Y & Z0).
    unfold sok_of, sid_of. rewrite Ev. repeat split; auto. eapply in_hist_by_mono; [exact Hh|exact X].
Qed.

Lemma Inv2_ret b t i op rk rev val :
  Inv b -> Inv2 b -> guards0 b (t, ERet i op rk rev val) = [] -> Inv2 (bapply b (t, ERet i op rk rev val)).
Proof.
  intros I0 I G.
  destruct (aget (b_pend b) op) as [p|] eqn:Hop.
  2:{ assert (E : bapply b (t, ERet i op rk rev val) = b <| b_now := t |>).
      { cbn [bapply]. change (b_pend (b <| b_now := t |>)) with (b_pend b). rewrite Hop. reflexivity. }
      rewrite E. apply (Inv2_transfer b); auto. apply (views_same_transfer b); auto. }
  set (v := if p_kind p =? kGet then val else p_val p).
  set (lr := mkLR i (p_kind p) (p_inner p) rk rev v (p_key p) t).
  set (b1 := b <| b_now := t |> <| b_rets ::= fun m => aset m (p_gid p) lr |> <| b_done ::= cons op |>).
  cbn in G. rewrite Hop in G. apply app_nil_l2 in G. destruct G as [Gi G]. apply pwhen_nil in Gi.
  apply app_nil_l2 in G. destruct G as [_ G].
  apply Bool.negb_false_iff in Gi. apply Z.eqb_eq in Gi.
  (* facts about a successful write that returns *)
  assert (Hw : (p_kind p = kCreate \/ p_kind p = kUpdate) -> rk = oOk ->
               in_hist_by b (p_key p) rev (p_val p) (p_i p) /\ sok_of b (p_val p) = true /\ sid_of b (p_val p) = p_i p).
  { intros Hk Hok. subst rk.
    assert (Ew : p_kind p =? kWatch = false) by (destruct Hk as [K|K]; rewrite K; reflexivity).
    rewrite Ew in G. change (oOk <? 10) with true in G. cbn [andb negb] in G.
    destruct (p_applied p) as [[[[ok r] v'] t']|] eqn:Ea; [|discriminate].
    apply pwhen_nil in G. apply Bool.negb_false_iff in G.
    apply andb_prop in G. destruct G as [G _]. apply andb_prop in G. destruct G as [G1 G2].
    apply Z.eqb_eq in G1. subst ok. change (oOk =? oOk) with true in G2. cbn [negb orb] in G2. rewrite Bool.orb_false_r in G2.
    apply Z.eqb_eq in G2. subst r.
    split; [apply (i2_applied _ I op p rev v' t' Hop Hk Ea)|].
    destruct Hk as [K|K].
    - destruct (inv_create _ I0 op p Hop K) as (S1 & S2 & _). auto.
    - apply (i2_payload _ I op p Hop K). }
  (* the state after recording the return *)
  assert (I1 : Inv2 b1).
  { assert (Hr : forall g, aget (b_rets b1) g = if p_gid p =? g then Some lr else aget (b_rets b) g) by (intros; unfold b1; cbn; apply aget_aset).
    apply mkInv2; try (destruct I as [A1 A2 A3 A4 A5 A6]; assumption).
    intros g r. rewrite Hr. destruct (p_gid p =? g); [|apply (i2_won _ I)].
    intros Hsome Hk Hok. inversion Hsome. subst r. cbn in Hk, Hok |- *.
    assert (Hv : v = p_val p) by (unfold v; destruct Hk as [K|K]; rewrite K; reflexivity).
    rewrite Hv, <- Gi. apply Hw; assumption. }
  cbn [bapply]. change (b_pend (b <| b_now := t |>)) with (b_pend b). rewrite Hop. fold v. fold lr. fold b1.
  destruct ((io_hb_op (inst_of b1 i) =? op) && (io_hb_te (inst_of b1 i) <? 0)) eqn:Ecur; [|exact I1]. cbv zeta.
  set (b2 := upd_inst b1 i (fun x => x <| io_hb_te := t |>)).
  assert (S2 : b_pend b2 = b_pend b1 /\ b_rets b2 = b_rets b1 /\ b_cfgs b2 = b_cfgs b1 /\ b_vals b2 = b_vals b1 /\
               b_hist b2 = b_hist b1 /\ (forall j, io_views (inst_of b2 j) = io_views (inst_of b1 j))).
  { unfold b2. repeat split; auto.
    intros j. rewrite inst_of_upd. destruct (Z.eqb_spec i j); [subst|]; reflexivity. }
  destruct S2 as (P2 & R2 & C2 & V2 & H2 & W2).
  assert (I2 : Inv2 b2).
  { apply (Inv2_transfer b1); auto. apply (views_same_transfer b1); auto. }
  destruct ((p_kind p =? kUpdate) && (p_inner p =? sHeartbeat) && (rk =? oOk) && io_flag (inst_of b2 i)
            && (v_stok (vinfo_of b2 (p_val p)) =? io_tok (inst_of b2 i))
            && (t - p_t p <? hb_update_timeout (ic_H (cfg_of b2 i))))%bool eqn:Econd; [|exact I2].
  (* the instance takes the new revision as a view of its running term *)
  apply andb_prop in Econd. destruct Econd as [Econd _].
  apply andb_prop in Econd. destruct Econd as [Econd Etok]. apply andb_prop in Econd. destruct Econd as [Econd _].
  apply andb_prop in Econd. destruct Econd as [Econd Eok]. apply andb_prop in Econd. destruct Econd as [Ek _].
  apply Z.eqb_eq in Ek, Eok, Etok.
  destruct (Hw (or_intror Ek) Eok) as (X & Y & Z0).
  destruct (i2_key _ I op p Hop) as [Kk _].
  assert (Ec2 : cfg_of b2 i = cfg_of b i) by (unfold cfg_of; rewrite C2; reflexivity).
  assert (Ev2 : forall v, vinfo_of b2 v = vinfo_of b v) by (intros; unfold vinfo_of; rewrite V2; reflexivity).
  apply (Inv2_transfer b2); auto.
  intros j tk r. rewrite inst_of_upd. destruct (Z.eqb_spec i j) as [E|E].
  - subst j. cbn [io_views]. intros [Hhd|Htl].
    + inversion Hhd. subst tk r. exists (p_val p).
      change (cfg_of (upd_inst b2 i _) i) with (cfg_of b2 i). rewrite Ec2, <- Gi, <- Kk.
      split; [destruct X as (x & Hx & A); exists x; split; [exact Hx|exact A]|].
      unfold sok_of, sid_of, tok_of in *. change (vinfo_of (upd_inst b2 (p_i p) _) (p_val p)) with (vinfo_of b2 (p_val p)).
      rewrite Ev2. repeat split; auto.
      rewrite Gi. rewrite Ev2 in Etok. exact Etok.
    + apply (i2_views _ I2). exact Htl.
  - intros Hin. apply (i2_views _ I2 j tk r Hin).
Qed.

Lemma Inv2_step b te : Inv b -> Inv2 b -> guards0 b te = [] -> Inv2 (bapply b te).
Proof.
  intros I0 I G. destruct te as [t e].
  destruct (neutral2 e) eqn:En; [apply Inv2_neutral; assumption|].
  destruct e; try discriminate.
  - apply Inv2_instdef; assumption.
  - apply Inv2_valdef; assumption.
  - apply Inv2_issue; assumption.
  - apply Inv2_apply; assumption.
  - apply Inv2_ret; assumption.
  - apply Inv2_flag; assumption.
Qed.

(* ================================================================ the refresh clause *)
Lemma find_ver_unique b k r x :
  Inv b -> In x (b_hist b) -> ver_key x = k -> ver_rev x = r -> find_ver (b_hist b) k r = Some x.
Proof.
  intros I Hx Hk Hr.
  assert (U := inv_uniq _ I).
  revert Hx U. generalize (b_hist b) as h. induction h as [|y h IH]; intros Hx U; [destruct Hx|].
  cbn. destruct ((ver_key y =? k) && (ver_rev y =? r))%bool eqn:E.
  - apply andb_prop in E. destruct E as [E1 E2]. apply Z.eqb_eq in E1, E2.
    f_equal. apply U; [left; reflexivity|exact Hx|congruence].
  - destruct Hx as [Hx|Hx].
    + subst y. rewrite Hk, Hr, !Z.eqb_refl in E. discriminate.
    + apply IH; [exact Hx|]. intros v1 v2 H1 H2. apply U; right; assumption.
Qed.

Lemma refresh_legit_apply b t op okind rev val :
  Inv b -> Inv2 b -> guards0 b (t, EApply op okind rev val) = [] ->
  ~ In 105 (mon_C01 b (t, EApply op okind rev val)) /\ ~ In 503 (mon_C05 b (t, EApply op okind rev val)).
Proof.
  intros I0 I G. cbn [mon_C01 mon_C05 snd].
  destruct (aget (b_pend b) op) as [p|] eqn:Hp; [|split; intros []].
  destruct (okind =? oOk) eqn:Eok; cbn [negb]; [|split; intros []].
  apply Z.eqb_eq in Eok. subst okind.
  destruct (p_kind p =? kCreate) eqn:Kc.
  { split.
    - intros H. apply in_app_or in H. destruct H as [H|H]; apply mwhen_in in H; destruct H; discriminate.
    - cbn [orb]. intros H. apply in_app_or in H. destruct H as [H|H]; apply mwhen_in in H; destruct H; discriminate. }
  destruct (p_kind p =? kUpdate) eqn:Ku; cbn [orb andb].
  2:{ split.
      - destruct (p_kind p =? kDelete); [|intros []].
        destruct (last_of b (p_key p)) as [[[r pv] [|]]|]; intros H; apply mwhen_in in H; destruct H; discriminate.
      - intros []. }
  assert (Kw : p_kind p =? kWatch = false) by (apply Z.eqb_eq in Ku; rewrite Ku; reflexivity).
  destruct (guards_apply _ _ _ _ _ _ _ Hp G Kw) as (Hn & Ho & _).
  unfold store_outcome in Ho. rewrite Kc, Ku in Ho.
  destruct (p_exp p =? last_rev_of b (p_key p)) eqn:Ee; [|cbn in Ho; discriminate].
  apply Z.eqb_eq in Ee. unfold last_rev_of in Ee.
  destruct (p_inner p =? sHeartbeat) eqn:Eh.
  2:{ (* not a refresh *)
      split.
      - destruct (last_of b (p_key p)) as [[[r pv] tomb]|]; [|intros H; apply mwhen_in in H; destruct H; discriminate].
        intros H. apply in_app_or in H. destruct H as [H|H]; [apply mwhen_in in H; destruct H; discriminate|].
        destruct (p_inner p =? sTakeover); [apply mwhen_in in H; destruct H; discriminate|]. cbn in H. intuition discriminate.
      - destruct (p_inner p =? sTakeover); cbn [andb].
        + intros H. apply in_app_or in H. destruct H as [H|H]; apply mwhen_in in H; destruct H; discriminate.
        + intros []. }
  apply Z.eqb_eq in Ku, Eh.
  destruct (i2_hb _ I op p Hp Ku Eh Hn) as (pv0 & (x & Hx & X1 & X2 & X3 & X4 & X5) & S1 & S2 & S3).
  destruct (i2_payload _ I op p Hp Ku) as [V1 V2].
  destruct (last_of b (p_key p)) as [[[r pv] tomb]|] eqn:El.
  2:{ (* no last message: then the expected revision is 0, but the view's version has a positive revision *)
      exfalso. pose proof (inv_seq _ I0 x Hx). lia. }
  assert (L := inv_last _ I0 _ _ _ _ El). rewrite <- Ee in L.
  assert (P4 : in_hist b (p_key p) (p_exp p) pv0 false) by (exists x; auto).
  destruct (in_hist_uniq _ _ _ _ _ _ _ I0 L P4) as [Epv Etomb]. subst pv tomb.
  assert (Fv : find_ver (b_hist b) (p_key p) r = Some x) by (apply find_ver_unique; auto; congruence).
  assert (Hs : p_inner p =? sTakeover = false) by (rewrite Eh; reflexivity).
  split.
  - intros H. apply in_app_or in H. destruct H as [H|H]; [apply mwhen_in in H; destruct H; discriminate|].
    cbn iota in H.
    apply mwhen_in in H. destruct H as [H _]. rewrite Fv, X5, Z.eqb_refl, S1, V1, S2, V2, !Z.eqb_refl, S3, Z.eqb_refl in H. discriminate.
  - rewrite Eh. change (sHeartbeat =? sTakeover) with false. cbn [andb orb]. cbn iota.
    intros H. apply mwhen_in in H. destruct H as [H _]. rewrite S3, Z.eqb_refl, S2, V2, Z.eqb_refl in H. discriminate.
Qed.

Lemma admitted_prefix2 tr : forall b, Inv b -> Inv2 b -> admits b tr = true ->
  forall pre te post, tr = pre ++ te :: post ->
  Inv (fold_left bapply pre b) /\ Inv2 (fold_left bapply pre b) /\ guards (fold_left bapply pre b) te = [].
Proof.
  induction tr as [|x tr IH]; intros b I I2 A pre te post E.
  - destruct pre; discriminate.
  - cbn in A. destruct (guards b x) eqn:G; [|discriminate].
    destruct pre as [|y pre]; cbn in E.
    + inversion E. subst x post. cbn. auto.
    + inversion E. subst y. cbn [fold_left]. apply guards_split in G. destruct G as [G _].
      eapply IH; eauto; [apply Inv_step|apply Inv2_step]; assumption.
Qed.
