(* Proofs about the generated classifiers (property C15), for every error value of
   the algebra: any nesting depth, any texts. *)
From LE Require Import Base Strs Err ErrSpec GenErrors.

Ltac case_if_b :=
  match goal with
  | |- context [if ?b then _ else _] => destruct b eqn:?
  end.

Lemma is_transient_nn_neg : forall e, is_transient_nn e = negb (is_permanent_nn e).
Proof.
  intros e. unfold is_transient_nn. cbv zeta.
  destruct (is_permanent_nn e); [reflexivity|]. cbn [negb].
  repeat first [ reflexivity | progress cbv iota zeta | progress cbn [orb andb negb] | case_if_b ].
Qed.

Lemma exclusive : forall oe, is_permanent oe = true -> is_transient oe = true -> False.
Proof.
  intros [e|]; cbn; [|discriminate].
  rewrite is_transient_nn_neg. destruct (is_permanent_nn e); discriminate.
Qed.

Lemma nil_neither : is_permanent None = false /\ is_transient None = false.
Proof. split; reflexivity. Qed.

Lemma total : forall e, xorb (is_permanent (Some e)) (is_transient (Some e)) = true.
Proof.
  intros e. cbn. rewrite is_transient_nn_neg. destruct (is_permanent_nn e); reflexivity.
Qed.

Ltac settle_flags :=
  repeat match goal with
         | H : ?x = true |- context [if ?x then _ else _] => rewrite H
         | H : ?x = false |- context [if ?x then _ else _] => rewrite H
         end.

Lemma transient_cause_transient :
  forall e, transient_cause e = true -> permanent_cause e = false ->
            is_permanent (Some e) = false /\ is_transient (Some e) = true.
Proof.
  intros e Ht _. cbn. rewrite is_transient_nn_neg.
  assert (Hp : is_permanent_nn e = false).
  { unfold transient_cause in Ht. unfold is_permanent_nn. cbv zeta.
    destruct (err_is e SCanceled) eqn:H1, (err_is e SDeadline) eqn:H2, (err_as_timeout e) eqn:H3;
      cbn in Ht; try discriminate Ht;
      repeat first [ reflexivity | progress cbv iota zeta | progress cbn [orb andb negb] | case_if_b ]. }
  rewrite Hp. split; reflexivity.
Qed.

Lemma permanent_cause_permanent :
  forall e, permanent_cause e = true -> transient_cause e = false ->
            is_permanent (Some e) = true /\ is_transient (Some e) = false.
Proof.
  intros e Hp Ht. cbn. rewrite is_transient_nn_neg.
  assert (H : is_permanent_nn e = true).
  { unfold transient_cause in Ht. unfold permanent_cause in Hp.
    apply orb_false_iff in Ht as [Ht Ht3]. apply orb_false_iff in Ht as [Ht1 Ht2].
    unfold is_permanent_nn. cbv zeta. rewrite ?Ht1, ?Ht2, ?Ht3. cbn [orb andb negb]. cbv iota.
    destruct (err_is e SInvalidConfig) eqn:H1, (err_is e SPermissionDenied) eqn:H2,
             (err_is e SBucketNotFound) eqn:H3;
      cbn in Hp; try discriminate Hp;
      repeat first [ reflexivity | progress cbv iota zeta | progress cbn [orb andb negb] | case_if_b ]. }
  rewrite H. split; reflexivity.
Qed.

(** The classifiers satisfy the executable specification on every value. *)
Lemma class_ok_all : forall oe, class_ok oe (is_permanent oe) (is_transient oe) = true.
Proof.
  intros [e|]; [|reflexivity]. unfold class_ok.
  rewrite total. cbn [andb]. unfold required_class.
  destruct (transient_cause e) eqn:Ht, (permanent_cause e) eqn:Hp; try reflexivity.
  - destruct (transient_cause_transient e Ht Hp) as [-> _]. reflexivity.
  - destruct (permanent_cause_permanent e Hp Ht) as [-> _]. reflexivity.
Qed.

(** Non-vacuity and the two repaired defects as concrete instances. *)
Local Open Scope string_scope.
Example wrapped_timeout_with_permanent_text :
  let e := EWrap "takeover failed: " (ETimeout "authentication refresh" "2s" None) "" in
  transient_cause e = true /\ permanent_cause e = false /\
  contains (lower (msg e)) "authentication" = true /\ is_transient (Some e) = true.
Proof. vm_compute. repeat split. Qed.

Example wrapped_config_error :
  let e := EWrap "start: " (EElection "CFG" "a" "bad" (Some (ESent SInvalidConfig))) "" in
  permanent_cause e = true /\ transient_cause e = false /\ is_permanent (Some e) = true.
Proof. vm_compute. repeat split. Qed.

Example nats_wrong_last_sequence_permanent :
  is_permanent (Some (EPlain "nats: wrong last sequence: 7")) = true /\
  is_permanent (Some (EWrap "" (EPlain "nats: wrong last sequence: 1") ": key exists")) = true.
Proof. vm_compute. split; reflexivity. Qed.
