(* Proofs/SimTheorems.v — the statements about every admitted trace, at every position. *)
From RecordUpdate Require Import RecordUpdate.
From LE Require Import Base Ev World Mon Proto GenGuards SimBasics SimOwn Witness.
Open Scope Z_scope.

(* P holds of (state before, observation) at every position of the trace *)
Definition at_every_position (tr : trace) (P : base -> Z * ev -> Prop) : Prop :=
  forall pre te post, tr = pre ++ te :: post -> P (brun pre) te.

Lemma admitted_everywhere tr :
  admits base0 tr = true -> at_every_position tr (fun b te => Inv b /\ guards b te = []).
Proof.
  intros A pre te post E. unfold brun. eapply admitted_prefix; eauto. apply Inv0.
Qed.

Lemma C01_group_isolation_thm tr :
  admits base0 tr = true -> at_every_position tr (fun b te => ~ In 101 (mon_C01 b te)).
Proof.
  intros A pre te post E. destruct (admitted_everywhere tr A pre te post E) as [_ G]. apply guards_split in G. destruct G as [G _].
  apply C01_group_isolation. exact G.
Qed.

Lemma C01_create_and_revision_thm tr :
  admits base0 tr = true -> at_every_position tr (fun b te => ~ In 102 (mon_C01 b te) /\ ~ In 104 (mon_C01 b te)).
Proof.
  intros A pre te post E. destruct (admitted_everywhere tr A pre te post E) as [_ G]. apply guards_split in G. destruct G as [G _].
  apply C01_store_contract. exact G.
Qed.

Lemma C01_identity_and_takeover_thm tr :
  admits base0 tr = true -> at_every_position tr (fun b te => ~ In 103 (mon_C01 b te) /\ ~ In 106 (mon_C01 b te)).
Proof.
  intros A pre te post E. destruct (admitted_everywhere tr A pre te post E) as [I G]. apply guards_split in G. destruct G as [G _].
  destruct te as [t e].
  destruct e; try (destruct (C01_identity_takeover_apply _ _ _ _ _ _ I G) as (X & Y & _); split; assumption);
    cbn [mon_C01 snd]; split; intros Hin; try apply mwhen_in in Hin; cbn in Hin; intuition congruence.
Qed.

Lemma C10_takeover_only_lower_thm tr :
  admits base0 tr = true ->
  at_every_position tr (fun b te =>
    In 1001 (mon_C10s b te) ->
    exists op okind rev val p, snd te = EApply op okind rev val /\ aget (b_pend b) op = Some p /\ p_inner p <> sTakeover).
Proof.
  intros A pre te post E. destruct (admitted_everywhere tr A pre te post E) as [I G]. apply guards_split in G. destruct G as [G _].
  destruct te as [t e]. cbv beta.
  destruct e;
    try (intros Hin; destruct (C01_identity_takeover_apply _ _ _ _ _ _ I G) as (_ & _ & Hz);
         destruct (Hz Hin) as (p & Hp & Hn); exists op, okind, rev, val, p; split; [reflexivity|split; assumption]);
    cbn [mon_C10s snd]; intros [].
Qed.

Lemma C13_claim_needs_own_write_thm tr :
  admits base0 tr = true -> at_every_position tr (fun b te => ~ In 1302 (mon_C13 b te)).
Proof.
  intros A pre te post E. destruct (admitted_everywhere tr A pre te post E) as [_ G]. apply guards_split in G. destruct G as [G _].
  apply claim_needs_own_write. exact G.
Qed.

Lemma notin_app {A} (x : A) l1 l2 : ~ In x l1 -> ~ In x l2 -> ~ In x (l1 ++ l2).
Proof. intros H1 H2 H. apply in_app_or in H. tauto. Qed.

Lemma notin_when x c a : x <> a -> ~ In x (Mon.when c a).
Proof. intros Hne H. apply mwhen_in in H. destruct H. congruence. Qed.

Ltac notin :=
  repeat match goal with
         | |- ~ In _ (_ ++ _) => apply notin_app
         | |- ~ In _ (Mon.when _ _) => apply notin_when; discriminate
         | |- ~ In _ [] => intros []
         | |- ~ In _ (if ?c then _ else _) => destruct c
         | |- ~ In _ (match ?x with _ => _ end) => destruct x
         | |- ~ In _ (_ :: _) => cbn; intuition discriminate
         end.

Lemma C09_stopped_never_claims_thm tr :
  admits base0 tr = true -> at_every_position tr (fun b te => forall m, ~ In 901 (mon_C09 b m te)).
Proof.
  intros A pre te post E. destruct (admitted_everywhere tr A pre te post E) as [I G]. apply guards_split in G. destruct G as [G _]. intros m.
  destruct te as [t e]. destruct e; try (apply C09_final_flag; assumption); cbn [mon_C09 snd fst]; notin.
Qed.

(* non-vacuity: a trace recorded from the real library (with a preemption, a graceful shutdown with key
   deletion and an API validation) is admitted by the rules *)
Example witness_admitted : admits base0 witness_trace = true /\ (100 < List.length witness_trace)%nat.
Proof. split; [vm_compute; reflexivity|vm_compute; lia]. Qed.

From LE Require Import SimCallbacks.
Lemma C08_alternation_thm tr :
  admits base0 tr = true -> at_every_position tr (fun b te => forall m, ~ In 801 (mon_C08 b m te) /\ ~ In 802 (mon_C08 b m te)).
Proof.
  intros A pre te post E. unfold brun.
  destruct (admitted_prefix_cb tr base0 CB0 A pre te post E) as [C G]. pose proof (guards_late _ _ G) as GL.
  apply guards_split in G. destruct G as [G _]. intros m.
  apply C08_alternation_local; assumption.
Qed.

From LE Require Import SimRefresh.
Lemma refresh_legit_thm tr :
  admits base0 tr = true -> at_every_position tr (fun b te => ~ In 105 (mon_C01 b te) /\ ~ In 503 (mon_C05 b te)).
Proof.
  intros A pre te post E. unfold brun.
  destruct (admitted_prefix2 tr base0 Inv0 Inv2_0 A pre te post E) as (I & I2 & G). apply guards_split in G. destruct G as [G _].
  destruct te as [t e]. cbv beta.
  destruct e; try (apply refresh_legit_apply; assumption); cbn [mon_C01 mon_C05 snd]; split; notin.
Qed.
