(* Proofs/GuardFacts.v — the constants and comparisons regenerated from the source
   (gen/GenGuards.v) coincide with the numbers the properties name (Sim/Consts.v).
   An edit of a constant or comparison in the code breaks one of these lemmas. *)
From LE Require Import Base GenGuards Consts.
Open Scope Z_scope.

(* the regenerated definitions are small cascades of comparisons; their shape (a clamp, an early return, a helper executed in
   place) depends on how the source is written, what they compute does not: every test is decided, the rest is arithmetic *)
Ltac split_ifs :=
  cbv zeta;
  repeat match goal with
         | |- context [if (?a <? ?b)%Z then _ else _] => destruct (Z.ltb_spec a b)
         | |- context [if (?a <=? ?b)%Z then _ else _] => destruct (Z.leb_spec a b)
         | |- context [if (?a =? ?b)%Z then _ else _] => destruct (Z.eqb_spec a b)
         | |- context [if negb (?a =? ?b)%Z then _ else _] => destruct (Z.eqb_spec a b); cbn [negb]
         | |- context [if negb (?a <? ?b)%Z then _ else _] => destruct (Z.ltb_spec a b); cbn [negb]
         | |- context [if negb (?a <=? ?b)%Z then _ else _] => destruct (Z.leb_spec a b); cbn [negb]
         | |- context [if ?c then _ else _] => destruct c eqn:?
         end.

Lemma hb_update_timeout_agree H : gen_hb_update_timeout H = hb_update_timeout H.
Proof.
  unfold gen_hb_update_timeout, hb_update_timeout, sec. split_ifs; lia.
Qed.

Lemma hb_max_failures_agree : gen_hb_max_failures = hb_max_failures.
Proof. reflexivity. Qed.

Lemma hb_trips_spec count thr : gen_hb_trips count thr = (thr <=? count).
Proof. unfold gen_hb_trips. rewrite Z.geb_leb. reflexivity. Qed.

Lemma default_grace_agree H : gen_default_grace H = default_grace H.
Proof.
  unfold gen_default_grace, default_grace, sec. split_ifs; lia.
Qed.

Lemma health_threshold_agree m : gen_health_threshold m = health_threshold m.
Proof. unfold gen_health_threshold, health_threshold. split_ifs; lia. Qed.

Lemma health_trips_spec count thr : gen_health_trips count thr = (thr <=? count).
Proof. unfold gen_health_trips. rewrite Z.geb_leb. reflexivity. Qed.

Lemma health_check_timeout_agree : gen_health_check_timeout = health_check_timeout.
Proof. reflexivity. Qed.

Lemma verify_settle_delay_agree : gen_verify_settle_delay = verify_settle_delay.
Proof. reflexivity. Qed.

Lemma watch_check_interval_agree : gen_watch_check_interval = watch_check_interval.
Proof. reflexivity. Qed.

Lemma round_jitter_agree : gen_round_jitter_min = round_jitter_min /\ gen_round_jitter_max = round_jitter_max.
Proof. split; reflexivity. Qed.

Lemma stop_default_timeout_agree : gen_stop_default_timeout = stop_default_timeout.
Proof. reflexivity. Qed.

Lemma takeover_yields_is_le mine stored : gen_takeover_yields mine stored = (mine <=? stored).
Proof. reflexivity. Qed.

Lemma takeover_enabled_is a p : gen_takeover_enabled a p = (a && (0 <? p))%bool.
Proof. unfold gen_takeover_enabled. rewrite Z.gtb_ltb. reflexivity. Qed.

Lemma health_threshold_pos m : 1 <= health_threshold m.
Proof. unfold health_threshold. destruct (Z.leb_spec m 0); lia. Qed.

(* the count goes up by one per unhealthy tick from 0: the comparison first holds exactly at the threshold *)
Lemma health_trips_exactly count thr :
  1 <= thr -> gen_health_trips count thr = true -> gen_health_trips (count - 1) thr = false -> count = thr.
Proof.
  rewrite !health_trips_spec. intros Hthr H1 H2. apply Z.leb_le in H1. apply Z.leb_gt in H2. lia.
Qed.

Lemma hb_trips_exactly count :
  gen_hb_trips count gen_hb_max_failures = true -> gen_hb_trips (count - 1) gen_hb_max_failures = false -> count = 3.
Proof.
  rewrite !hb_trips_spec. unfold gen_hb_max_failures. intros H1 H2. apply Z.leb_le in H1. apply Z.leb_gt in H2. lia.
Qed.

(* C07: a store call that is answered within half a heartbeat interval (to the nanosecond: 2 lat + 1 < H) is answered
   before the validation read's time-out and before the refresh's time-out: a fast store never makes a leader fail
   validation or a refresh by timing out *)
Lemma val_read_tolerates_fast_store H lat : 0 < H -> 2 * lat + 1 < H -> lat < gen_val_read_timeout H.
Proof.
  intros Hp Hl. unfold gen_val_read_timeout. cbv zeta.
  pose proof (Z.quot_div_nonneg H 2 ltac:(lia) ltac:(lia)) as Q. pose proof (Z.div_mod H 2 ltac:(lia)) as D.
  pose proof (Z.mod_pos_bound H 2 ltac:(lia)) as M.
  split_ifs; lia.
Qed.

Lemma hb_update_tolerates_fast_store H lat : 0 < H -> 2 * lat + 1 < H -> lat < gen_hb_update_timeout H.
Proof.
  intros Hp Hl. unfold gen_hb_update_timeout. cbv zeta.
  pose proof (Z.quot_div_nonneg H 2 ltac:(lia) ltac:(lia)) as Q. pose proof (Z.div_mod H 2 ltac:(lia)) as D.
  pose proof (Z.mod_pos_bound H 2 ltac:(lia)) as M.
  split_ifs; lia.
Qed.
