(* Proofs/GuardFacts.v — the constants and comparisons regenerated from the source
   (gen/GenGuards.v) coincide with the numbers the properties name (Sim/Consts.v).
   An edit of a constant or comparison in the code breaks one of these lemmas. *)
From LE Require Import Base GenGuards Consts.
Open Scope Z_scope.

(* the regenerated definitions are small cascades of comparisons; their shape (a clamp, an early return, a helper executed in
   place) depends on how the source is written, what they compute does not: every test is decided, the rest is arithmetic *)
Ltac split_ifs :=
  cbv zeta;
  repeat match goal with
         | |- context [if (?a <? ?b)%Z then _ else _] => destruct (Z.ltb_spec a b)
         | |- context [if (?a <=? ?b)%Z then _ else _] => destruct (Z.leb_spec a b)
         | |- context [if (?a =? ?b)%Z then _ else _] => destruct (Z.eqb_spec a b)
         | |- context [if negb (?a =? ?b)%Z then _ else _] => destruct (Z.eqb_spec a b); cbn [negb]
         | |- context [if negb (?a <? ?b)%Z then _ else _] => destruct (Z.ltb_spec a b); cbn [negb]
         | |- context [if negb (?a <=? ?b)%Z then _ else _] => destruct (Z.leb_spec a b); cbn [negb]
         | |- context [if ?c then _ else _] => destruct c eqn:?
         end.

Lemma hb_update_timeout_agree H : gen_hb_update_timeout H = hb_update_timeout H.
Proof.
  unfold gen_hb_update_timeout, hb_update_timeout, sec. split_ifs; lia.
Qed.

Lemma hb_max_failures_agree : gen_hb_max_failures = hb_max_failures.
Proof. reflexivity. Qed.

Lemma hb_trips_spec count thr : gen_hb_trips count thr = (thr <=? count).
Proof. unfold gen_hb_trips. rewrite Z.geb_leb. reflexivity. Qed.

Lemma default_grace_agree H : gen_default_grace H = default_grace H.
Proof.
  unfold gen_default_grace, default_grace, sec. split_ifs; lia.
Qed.

Lemma health_threshold_agree m : gen_health_threshold m = health_threshold m.
Proof. unfold gen_health_threshold, health_threshold. split_ifs; lia. Qed.

Lemma health_trips_spec count thr : gen_health_trips count thr = (thr <=? count).
Proof. unfold gen_health_trips. rewrite Z.geb_leb. reflexivity. Qed.

Lemma health_check_timeout_agree : gen_health_check_timeout = health_check_timeout.
Proof. reflexivity. Qed.

Lemma verify_settle_delay_agree : gen_verify_settle_delay = verify_settle_delay.
Proof. reflexivity. Qed.

Lemma watch_check_interval_agree : gen_watch_check_interval = watch_check_interval.
Proof. reflexivity. Qed.

Lemma round_jitter_agree : gen_round_jitter_min = round_jitter_min /\ gen_round_jitter_max = round_jitter_max.
Proof. split; reflexivity. Qed.

Lemma stop_default_timeout_agree : gen_stop_default_timeout = stop_default_timeout.
Proof. reflexivity. Qed.

Lemma takeover_yields_is_le mine stored : gen_takeover_yields mine stored = (mine <=? stored).
Proof. reflexivity. Qed.

Lemma takeover_enabled_is a p : gen_takeover_enabled a p = (a && (0 <? p))%bool.
Proof. unfold gen_takeover_enabled. rewrite Z.gtb_ltb. reflexivity. Qed.

Lemma health_threshold_pos m : 1 <= health_threshold m.
Proof. unfold health_threshold. destruct (Z.leb_spec m 0); lia. Qed.

(* the count goes up by one per unhealthy tick from 0: the comparison first holds exactly at the threshold *)
Lemma health_trips_exactly count thr :
  1 <= thr -> gen_health_trips count thr = true -> gen_health_trips (count - 1) thr = false -> count = thr.
Proof.
  rewrite !health_trips_spec. intros Hthr H1 H2. apply Z.leb_le in H1. apply Z.leb_gt in H2. lia.
Qed.

Lemma hb_trips_exactly count :
  gen_hb_trips count gen_hb_max_failures = true -> gen_hb_trips (count - 1) gen_hb_max_failures = false -> count = 3.
Proof.
  rewrite !hb_trips_spec. unfold gen_hb_max_failures. intros H1 H2. apply Z.leb_le in H1. apply Z.leb_gt in H2. lia.
Qed.

(* C07: a store call that is answered within half a heartbeat interval (to the nanosecond: 2 lat + 1 < H) is answered
   before the validation read's time-out and before the refresh's time-out: a fast store never makes a leader fail
   validation or a refresh by timing out *)
Lemma val_read_tolerates_fast_store H lat : 0 < H -> 2 * lat + 1 < H -> lat < gen_val_read_timeout H.
Proof.
  intros Hp Hl. unfold gen_val_read_timeout. cbv zeta.
  pose proof (Z.quot_div_nonneg H 2 ltac:(lia) ltac:(lia)) as Q. pose proof (Z.div_mod H 2 ltac:(lia)) as D.
  pose proof (Z.mod_pos_bound H 2 ltac:(lia)) as M.
  split_ifs; lia.
Qed.

Lemma hb_update_tolerates_fast_store H lat : 0 < H -> 2 * lat + 1 < H -> lat < gen_hb_update_timeout H.
Proof.
  intros Hp Hl. unfold gen_hb_update_timeout. cbv zeta.
  pose proof (Z.quot_div_nonneg H 2 ltac:(lia) ltac:(lia)) as Q. pose proof (Z.div_mod H 2 ltac:(lia)) as D.
  pose proof (Z.mod_pos_bound H 2 ltac:(lia)) as M.
  split_ifs; lia.
Qed.

(** ---- C12 over every history of health-check outcomes ----
    [hrun outs] is the counter the heartbeat loop keeps (heartbeat.go: Add(1) on an unhealthy result, Store(0) on a
    healthy one; the monitor's n_hrun, Sim/Mon2.v, is the same fold and is compared with the real runs). *)
Definition hrun (outs : list bool) : nat :=
  List.fold_left (fun acc (healthy : bool) => if healthy then O else S acc) outs O.

Lemma hrun_snoc : forall l x, hrun (l ++ [x]) = if x then O else S (hrun l).
Proof. intros l x. unfold hrun. rewrite List.fold_left_app. reflexivity. Qed.

Lemma repeat_snoc : forall (n : nat), List.repeat false n ++ [false] = List.repeat false (S n).
Proof. induction n as [|n IH]; cbn; [reflexivity|]. f_equal. exact IH. Qed.

Lemma hrun_ge_suffix : forall outs n,
  (n <= hrun outs)%nat <-> exists pre, outs = pre ++ List.repeat false n.
Proof.
  induction outs as [|x l IH] using List.rev_ind; intros n.
  - cbn. split.
    + intros H. assert (n = O) by lia. subst. exists []. reflexivity.
    + intros [pre E]. destruct n as [|n]; [lia|].
      destruct pre; cbn in E; discriminate.
  - rewrite hrun_snoc. destruct n as [|n].
    + split; [intros _; exists (l ++ [x]); cbn; rewrite List.app_nil_r; reflexivity | lia].
    + split.
      * intros H. destruct x; [lia|].
        assert (Hn : (n <= hrun l)%nat) by lia.
        apply IH in Hn. destruct Hn as [pre E]. exists pre.
        rewrite E, <- List.app_assoc, repeat_snoc. reflexivity.
      * intros [pre E]. rewrite <- repeat_snoc, List.app_assoc in E.
        apply List.app_inj_tail in E. destruct E as [E ->].
        assert (Hn : (n <= hrun l)%nat) by (apply IH; exists pre; exact E). lia.
Qed.

(* the regenerated comparison holds after a history exactly when its last [thr] outcomes were all unhealthy *)
Lemma health_trips_history : forall outs thr,
  1 <= thr ->
  (gen_health_trips (Z.of_nat (hrun outs)) thr = true <->
   exists pre, outs = pre ++ List.repeat false (Z.to_nat thr)).
Proof.
  intros outs thr Hthr. rewrite health_trips_spec, <- hrun_ge_suffix.
  rewrite Z.leb_le. lia.
Qed.

(* the same for the refresh-failure counter of the heartbeat loop (outcome [true]: the refresh succeeded) *)
Lemma hb_trips_history : forall outs,
  gen_hb_trips (Z.of_nat (hrun outs)) gen_hb_max_failures = true <->
  exists pre, outs = pre ++ [false; false; false].
Proof.
  intros outs. rewrite hb_trips_spec. unfold gen_hb_max_failures.
  change [false; false; false] with (List.repeat false 3).
  rewrite <- hrun_ge_suffix, Z.leb_le. lia.
Qed.
