(* Proofs/SimCauses.v — in the quiet environment (no connection notification, no unhealthy result) a trace that satisfies
   rules 2083-2085 never shows a claim given up by the grace-period path, the reconnect-verification path, the health path
   or an acquisition round. *)
From LE Require Import Base Ev World Proto Causes SimBasics SimOwn Witness2.
Open Scope Z_scope.

Definition other_demotion (b : base) (te : Z * ev) : bool :=
  match snd te with
  | EFlag i fl cause _ _ =>
      negb (zb fl) && io_flag (inst_of b i) &&
      ((cause =? sGraceExpired) || (cause =? sVerifyFail) || (cause =? sHealthFail) || (cause =? sRound))
  | _ => false
  end.

Lemma capply_quiet a te : envQ_okb te = true -> ca_conn a = [] -> ca_sick a = [] ->
  ca_conn (capply a te) = [] /\ ca_sick (capply a te) = [].
Proof.
  intros E C S. destruct te as [t e]. unfold capply, envQ_okb in *. cbn [snd] in *.
  destruct e; auto;
    repeat match goal with
           | |- context [if ?c then _ else _] => let H := fresh "Hc" in destruct c eqn:H
           end; cbn; auto;
    try (rewrite S; cbn; auto);
    try (rewrite Hc in E; cbn in E; discriminate E);
    try discriminate E; try (cbn in E; discriminate E).
Qed.

Lemma no_other_demotion b a te :
  ca_conn a = [] -> ca_sick a = [] -> cause_rules b a te = [] -> other_demotion b te = false.
Proof.
  intros C S G. destruct te as [t e]. destruct e; try reflexivity.
  unfold other_demotion, cause_rules in *. cbn [snd] in *. cbv zeta in G. rewrite C, S in G. cbn [zmem existsb negb] in G.
  apply app_nil_l2 in G. destruct G as [G1 G]. apply app_nil_l2 in G. destruct G as [G2 G]. apply app_nil_l2 in G. destruct G as [G3 _].
  apply pwhen_nil in G1. apply pwhen_nil in G2. apply pwhen_nil in G3.
  rewrite Bool.andb_true_r in G1, G2.
  match goal with |- ?p && ?q = false => destruct p eqn:Hd; [|reflexivity] end.
  cbn [andb] in *.
  apply Bool.orb_false_iff in G1. destruct G1 as [Ga Gb].
  rewrite Ga, Gb, G2, G3. reflexivity.
Qed.

Theorem C07_never_demoted_by_connection_health_or_acquisition tr :
  forall b a, ca_conn a = [] -> ca_sick a = [] ->
  cadmits b a tr = true -> envQ_admits tr = true ->
  forall pre te post, tr = pre ++ te :: post -> other_demotion (fold_left bapply pre b) te = false.
Proof.
  induction tr as [|x tr IH]; intros b a C S A E pre te post Eq.
  - destruct pre; discriminate.
  - cbn in A, E. destruct (cause_rules b a x) eqn:G; [|discriminate]. apply andb_prop in E. destruct E as [E1 E2].
    destruct pre as [|y pre]; cbn in Eq.
    + inversion Eq. subst x post. cbn. apply (no_other_demotion b a); assumption.
    + inversion Eq. subst y. cbn [fold_left].
      destruct (capply_quiet a x E1 C S) as [C' S'].
      apply (IH (bapply b x) (capply a x) C' S' A E2 pre te post). exact H1.
Qed.

(* non-vacuity: the recorded real trace satisfies the three rules and lies in the quiet environment *)
Lemma quiet_witness : cadmits base0 caux0 lease_witness = true /\ envQ_admits lease_witness = true.
Proof. vm_compute. split; reflexivity. Qed.
