(* Proofs/Timing.v — the time bounds the properties state, derived from the thread-level timing
   rules of the loops (ticker with a one-slot buffer, per-attempt time-out), for all schedules. *)
From LE Require Import Base Config ConfigSpec GenConfig ConfigProofs GenGuards Consts GuardFacts.
Open Scope Z_scope.

(* Ticker rule of a loop `for { select { case <-ticker.C: body } }` with period H whose body takes at
   most T: the next iteration starts no later than max(previous start + H, previous end), because a
   tick that fires while the body runs is kept in the channel's one-slot buffer. *)
Definition next_start_ok (H a_prev e_prev a_next : Z) : Prop := a_next <= Z.max (a_prev + H) e_prev.

(* C03, cut-off leader: the last successful refresh starts at ts and is answered within one interval;
   the next three attempts fail, each within the per-attempt time-out T. The third failure completes
   within 3H + 3T of ts. *)
Theorem three_failures_bound H T ts e0 a1 e1 a2 e2 a3 e3 :
  0 <= H -> 0 <= T -> e0 <= ts + H ->
  next_start_ok H ts e0 a1 -> e1 <= a1 + T ->
  next_start_ok H a1 e1 a2 -> e2 <= a2 + T ->
  next_start_ok H a2 e2 a3 -> e3 <= a3 + T ->
  e3 <= ts + 3 * H + 3 * T.
Proof. unfold next_start_ok. intros. lia. Qed.

(* C03, deposed leader: the record changes at tc. The attempt in flight (started at a0 <= tc) ends within
   T; the next attempt starts by the ticker rule and, the store being responsive, is answered (with the
   conflict) within T: it completes within H + 2T of the change. *)
Theorem next_attempt_bound H T tc a0 e0 a1 e1 :
  0 <= H -> 0 <= T -> a0 <= tc -> e0 <= a0 + T ->
  next_start_ok H a0 e0 a1 -> e1 <= a1 + T ->
  e1 <= tc + H + 2 * T.
Proof. unfold next_start_ok. intros. lia. Qed.

(* the same bounds with the constants of the code *)
Corollary three_failures_bound_code H ts e0 a1 e1 a2 e2 a3 e3 :
  0 <= H -> e0 <= ts + H ->
  next_start_ok H ts e0 a1 -> e1 <= a1 + gen_hb_update_timeout H ->
  next_start_ok H a1 e1 a2 -> e2 <= a2 + gen_hb_update_timeout H ->
  next_start_ok H a2 e2 a3 -> e3 <= a3 + gen_hb_update_timeout H ->
  e3 <= ts + 3 * H + 3 * hb_update_timeout H.
Proof.
  rewrite hb_update_timeout_agree. intros. eapply three_failures_bound; eauto.
  unfold hb_update_timeout, sec. lia.
Qed.

(* C02/C07, the lease: with a configuration the constructor accepts (generated validate_config), every
   refresh applied within half an interval of its issue, and attempts started by the ticker rule,
   two consecutive refresh applications are less than TTL apart: the record cannot lapse under a
   healthy leader. *)
Theorem refresh_gap_lt_ttl cfg a_prev ap_prev e_prev a_next ap_next :
  dur_in_range cfg -> validate_config cfg = None ->
  let H := c_HeartbeatInterval cfg in
  a_prev <= ap_prev -> ap_prev <= e_prev -> 2 * (e_prev - a_prev) < H ->
  next_start_ok H a_prev e_prev a_next ->
  a_next <= ap_next -> 2 * (ap_next - a_next) < H ->
  ap_next - ap_prev < c_TTL cfg.
Proof.
  intros Hr Hv H. apply (validate_config_iff cfg Hr) in Hv.
  destruct Hv as (_ & _ & _ & _ & HH & HT & _). fold H in HH, HT.
  unfold next_start_ok. intros. lia.
Qed.

(* C06: vacancy at tv; the candidate's periodic check fires within the check interval, its read takes at
   most L, the acquisition round waits at most the maximum jitter, its Create takes at most L *)
Theorem vacancy_fill_bound tv tick get_done round_start create_done L :
  0 <= L -> tick <= tv + gen_watch_check_interval -> get_done <= tick + L ->
  round_start <= get_done + gen_round_jitter_max -> create_done <= round_start + L ->
  create_done <= tv + watch_check_interval + round_jitter_max + 4 * L.
Proof.
  rewrite watch_check_interval_agree. destruct round_jitter_agree as [_ E]. rewrite E. intros. lia.
Qed.

(* C11: the grace timer armed at the disconnect fires exactly after the configured period *)
Theorem grace_default H : 0 < H -> gen_default_grace H = Z.max (3 * H) (5 * sec).
Proof. intros _. rewrite default_grace_agree. reflexivity. Qed.
