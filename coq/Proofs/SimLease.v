(* Proofs/SimLease.v — property C02 (mutual exclusion of the claim): for every trace admitted by the
   protocol rules (Proto.v) in an environment where the record does not vanish under its holder
   (Env.v: no expiry / Delete / foreign write under a holder, no priority takeover configured),
   at every position at most one instance claims leadership of a key, and the live record of the key
   is the claimant's own, carrying the token of its term (monitor clauses 201 and 202).

   The invariant: every CLAIM on a key - a raised leadership flag, a winning write applied and not yet
   returned, a winning write returned at this instant - is matched by the live record of the key
   (same identity, same token). One live record, hence one claimant. *)
From RecordUpdate Require Import RecordUpdate.
From LE Require Import Base Ev Consts World Mon Proto Env GenGuards SimBasics SimOwn SimRefresh.
Open Scope Z_scope.

Definition holds (b : base) (k i tk : Z) : Prop :=
  exists r v, live_val b k = Some (r, v) /\ sok_of b v = true /\ sid_of b v = i /\ tok_of b v = tk.

(* claims at time t *)
Inductive claim (b : base) (t k i tk : Z) : Prop :=
| cl_flag : ic_key (cfg_of b i) = k -> io_flag (inst_of b i) = true -> io_tok (inst_of b i) = tk -> claim b t k i tk
| cl_win op p : aget (b_pend b) op = Some p -> wonkind p = true -> applied_ok p = true -> is_done b op = false ->
    p_key p = k -> p_i p = i -> tok_of b (p_val p) = tk -> claim b t k i tk
| cl_ret g r : aget (b_rets b) g = Some r -> lr_won r = true -> lr_t r = t ->
    lr_key r = k -> lr_i r = i -> tok_of b (lr_val r) = tk -> claim b t k i tk.

Record LInv (b : base) : Prop := mkL {
  l_holds : forall k i tk, claim b (b_now b) k i tk -> holds b k i tk;
  l_time : forall g r, aget (b_rets b) g = Some r -> lr_t r <= b_now b;
  l_upd : forall op p, aget (b_pend b) op = Some p -> p_kind p = kUpdate -> p_inner p = sHeartbeat \/ p_inner p = sTakeover;
  l_notk : forall i c, aget (b_cfgs b) i = Some c -> ic_takeover c = false;
  l_nodup : NoDup (map fst (b_cfgs b));
  (* whoever claims, and whoever has had a store call answered, is a configured instance *)
  l_fcfg : forall i, io_flag (inst_of b i) = true -> exists c, aget (b_cfgs b) i = Some c;
  l_rcfg : forall g r, aget (b_rets b) g = Some r -> exists c, aget (b_cfgs b) (lr_i r) = Some c
}.

Lemma LInv0 : LInv base0.
Proof.
  constructor; cbn; try (intros; discriminate); [|constructor].
  intros k i tk [A B C|op p A|g r A]; cbn in *; discriminate.
Qed.

Lemma flagged_in_cfgs b i : (forall j, io_flag (inst_of b j) = true -> exists c, aget (b_cfgs b) j = Some c) ->
  io_flag (inst_of b i) = true -> In (i, cfg_of b i) (b_cfgs b).
Proof.
  intros H F. destruct (H i F) as [c Hc]. unfold cfg_of. rewrite Hc. apply aget_In. exact Hc.
Qed.

(* a claim at a later time is a claim now *)
Lemma claim_now b t k i tk :
  (forall g r, aget (b_rets b) g = Some r -> lr_t r <= b_now b) -> b_now b <= t ->
  claim b t k i tk -> claim b (b_now b) k i tk.
Proof.
  intros Ht Hn [A B C|op p A B C D E F G|g r A B C D E F].
  - apply cl_flag; assumption.
  - apply (cl_win b _ k i tk op p); assumption.
  - apply (cl_ret b _ k i tk g r); auto. pose proof (Ht g r A). lia.
Qed.

(* a claim on a key shows in the executable predicate of the environment hypothesis *)
Lemma claim_protected b t k i tk :
  (forall j, io_flag (inst_of b j) = true -> exists c, aget (b_cfgs b) j = Some c) ->
  claim b t k i tk -> protectedb b t k = true.
Proof.
  intros Hcf [A B C|op p A B C D E F G|g r A B C D E F]; unfold protectedb.
  - apply Bool.orb_true_iff. left. apply Bool.orb_true_iff. left.
    apply existsb_exists. exists (i, cfg_of b i). split; [apply flagged_in_cfgs; assumption|].
    cbn [fst snd]. rewrite B, A, Z.eqb_refl. reflexivity.
  - apply Bool.orb_true_iff. left. apply Bool.orb_true_iff. right.
    apply existsb_exists. exists (op, p). split; [apply aget_In; exact A|]. cbn [fst snd]. rewrite B, C, D, E, Z.eqb_refl. reflexivity.
  - apply Bool.orb_true_iff. right.
    apply existsb_exists. exists (g, r). split; [apply aget_In; exact A|]. cbn [fst snd]. rewrite B, C, D, !Z.eqb_refl. reflexivity.
Qed.

Lemma is_done_cons (op op' : Z) (l : list Z) : existsb (Z.eqb op') (op :: l) = false -> op' <> op /\ existsb (Z.eqb op') l = false.
Proof.
  cbn. intros H. apply Bool.orb_false_iff in H. destruct H as [A B]. split; [apply Z.eqb_neq; exact A|exact B].
Qed.

(* ---------------------------------------------------------------- frames *)
Lemma holds_frame b b' k i tk :
  last_of b' k = last_of b k -> (forall v, sok_of b v = true -> vinfo_of b' v = vinfo_of b v) ->
  holds b k i tk -> holds b' k i tk.
Proof.
  intros Hl Hv (r & v & A & B & C & D). exists r, v.
  unfold live_val, sok_of, sid_of, tok_of in *. rewrite Hl, (Hv v B). auto.
Qed.

Lemma tok_same b b' v : b_vals b' = b_vals b -> tok_of b' v = tok_of b v.
Proof. intros H. unfold tok_of, vinfo_of. rewrite H. reflexivity. Qed.

Lemma cfg_same b b' i : b_cfgs b' = b_cfgs b -> cfg_of b' i = cfg_of b i.
Proof. intros H. unfold cfg_of. rewrite H. reflexivity. Qed.

(* claims of the new state that were claims of the old one: the store-side parts of the state unchanged *)
Lemma claim_back b b' t k i tk :
  b_pend b' = b_pend b -> b_rets b' = b_rets b -> b_done b' = b_done b ->
  b_vals b' = b_vals b -> b_cfgs b' = b_cfgs b ->
  (forall j, io_flag (inst_of b' j) = true -> io_flag (inst_of b j) = true /\ io_tok (inst_of b' j) = io_tok (inst_of b j)) ->
  claim b' t k i tk -> claim b t k i tk.
Proof.
  intros Hp Hr Hd Hv Hc Hf [A B C|op p A B C D E F G|g r A B C D E F].
  - destruct (Hf i B) as [X Y]. apply cl_flag; [rewrite <- (cfg_same b b' i Hc); exact A|exact X|congruence].
  - apply (cl_win b t k i tk op p); auto; try congruence.
    + unfold is_done in *. rewrite <- Hd. exact D.
    + rewrite <- (tok_same b b' _ Hv). exact G.
  - rewrite Hr in A. apply (cl_ret b t k i tk g r); auto.
    rewrite <- (tok_same b b' _ Hv). exact F.
Qed.

Lemma L_quiet b b' :
  b_now b <= b_now b' -> b_pend b' = b_pend b -> b_rets b' = b_rets b -> b_done b' = b_done b ->
  b_last b' = b_last b -> b_vals b' = b_vals b -> b_cfgs b' = b_cfgs b ->
  (forall j, io_flag (inst_of b' j) = true -> io_flag (inst_of b j) = true /\ io_tok (inst_of b' j) = io_tok (inst_of b j)) ->
  LInv b -> LInv b'.
Proof.
  intros Hn Hp Hr Hd Hl Hv Hc Hf [L1 L2 L3 L4 L5 L6 L7].
  constructor.
  - intros k i tk C. apply (holds_frame b).
    + unfold last_of. rewrite Hl. reflexivity.
    + intros v _. unfold vinfo_of. rewrite Hv. reflexivity.
    + apply L1. apply (claim_now b (b_now b')); auto. apply (claim_back b b'); auto.
  - intros g r. rewrite Hr. intros A. pose proof (L2 g r A). lia.
  - intros op p. rewrite Hp. apply L3.
  - intros i c. rewrite Hc. apply L4.
  - rewrite Hc. exact L5.
  - intros i F. rewrite Hc. apply L6. apply (Hf i F).
  - intros g r. rewrite Hr, Hc. apply L7.
Qed.

(* an update of one instance that leaves the claim flag and the token alone, or clears the flag *)
Lemma flags_upd b t i f :
  (forall x, io_flag (f x) = true -> io_flag x = true /\ io_tok (f x) = io_tok x) ->
  forall j, io_flag (inst_of (upd_inst (b <| b_now := t |>) i f) j) = true ->
            io_flag (inst_of b j) = true /\ io_tok (inst_of (upd_inst (b <| b_now := t |>) i f) j) = io_tok (inst_of b j).
Proof.
  intros Hf j. rewrite inst_of_upd.
  change (inst_of (b <| b_now := t |>) i) with (inst_of b i). change (inst_of (b <| b_now := t |>) j) with (inst_of b j).
  destruct (Z.eqb_spec i j) as [->|Hne]; [apply Hf|auto].
Qed.

(* ---------------------------------------------------------------- what makes a write a winning one *)
Lemma wonkind_cases p : wonkind p = true -> p_kind p = kCreate \/ (p_kind p = kUpdate /\ p_inner p = sTakeover).
Proof.
  unfold wonkind. intros H. apply Bool.orb_true_iff in H. destruct H as [H|H].
  - left. apply Z.eqb_eq. exact H.
  - right. apply andb_prop in H. destruct H as [A B]. split; apply Z.eqb_eq; assumption.
Qed.

Lemma lr_won_cases r : lr_won r = true ->
  (lr_kind r = kCreate \/ (lr_kind r = kUpdate /\ lr_inner r = sTakeover)) /\ lr_rk r = oOk.
Proof.
  unfold lr_won. intros H. apply andb_prop in H. destruct H as [H K]. split; [|apply Z.eqb_eq; exact K].
  apply Bool.orb_true_iff in H. destruct H as [H|H].
  - left. apply Z.eqb_eq. exact H.
  - right. apply andb_prop in H. destruct H as [A B]. split; apply Z.eqb_eq; assumption.
Qed.

Lemma wonkind_sok b op p : Inv b -> Inv2 b -> aget (b_pend b) op = Some p -> wonkind p = true ->
  sok_of b (p_val p) = true /\ sid_of b (p_val p) = p_i p.
Proof.
  intros I I2 Hp W. destruct (wonkind_cases p W) as [K|[K _]].
  - destruct (inv_create _ I op p Hp K) as (A & B & _). auto.
  - apply (i2_payload _ I2 op p Hp K).
Qed.

Lemma lr_won_sok b g r : Inv2 b -> aget (b_rets b) g = Some r -> lr_won r = true -> sok_of b (lr_val r) = true.
Proof.
  intros I2 Hr W. destruct (lr_won_cases r W) as [K Ok].
  assert (K' : lr_kind r = kCreate \/ lr_kind r = kUpdate) by (destruct K as [K|[K _]]; auto).
  destruct (i2_won _ I2 g r Hr K' Ok) as (_ & S & _). exact S.
Qed.

(* ---------------------------------------------------------------- configuration and value tables *)
Lemma L_instdef b t i key H TTL vi gr mh pr tk mo hh hd bt hp :
  LInv b -> b_now b <= t ->
  guards0 b (t, EInstDef i key H TTL vi gr mh pr tk mo hh hd bt hp) = [] ->
  env_okb b (t, EInstDef i key H TTL vi gr mh pr tk mo hh hd bt hp) = true ->
  LInv (bapply b (t, EInstDef i key H TTL vi gr mh pr tk mo hh hd bt hp)).
Proof.
  intros [L1 L2 L3 L4 L5 L6 L7] Hn G E.
  cbn in G. destruct (aget (b_cfgs b) i) eqn:Hci; [discriminate|]. clear G.
  cbn in E. apply Bool.negb_true_iff in E.
  cbn [bapply].
  match goal with |- LInv ?x => set (b' := x) end.
  assert (Hc : forall j, aget (b_cfgs b') j = if i =? j then Some (mkICfg key H TTL vi gr mh pr (zb tk) (zb mo) (zb hh) (zb hd) bt (zb hp)) else aget (b_cfgs b) j)
    by (intros; apply aget_aset).
  assert (Hi : forall j, inst_of b' j = if i =? j then iobs0 else inst_of b j).
  { intros j. unfold inst_of. unfold b'. cbn. rewrite aget_aset. destruct (i =? j); reflexivity. }
  constructor.
  - intros k j tk' C. apply (holds_frame b); [reflexivity|intros; reflexivity|].
    apply L1. apply (claim_now b t); auto.
    destruct C as [A B C|op p A B C D E' F G|g r A B C D E' F].
    + rewrite Hi in B, C. destruct (i =? j) eqn:X; [cbn in B; discriminate|].
      apply cl_flag; auto. unfold cfg_of in *. rewrite Hc, X in A. exact A.
    + apply (cl_win b t k j tk' op p); auto.
    + apply (cl_ret b t k j tk' g r); auto.
  - intros g r A. pose proof (L2 g r A). cbn. lia.
  - exact L3.
  - intros j c0. rewrite Hc. destruct (i =? j); [intros X; inversion X; cbn; exact E|apply L4].
  - unfold b'. cbn. apply NoDup_aset. exact L5.
  - intros j F. rewrite Hi in F. rewrite Hc. destruct (i =? j); [eauto|apply L6; exact F].
  - intros g r A. change (aget (b_rets b) g = Some r) in A. rewrite Hc. destruct (i =? lr_i r); [eauto|apply (L7 g r A)].
Qed.

Lemma L_valdef b t v len sok sid stok sprio mok hasid mid hastok mtok :
  Inv b -> Inv2 b -> LInv b -> b_now b <= t ->
  guards0 b (t, EValDef v len sok sid stok sprio mok hasid mid hastok mtok) = [] ->
  LInv (bapply b (t, EValDef v len sok sid stok sprio mok hasid mid hastok mtok)).
Proof.
  intros I I2 [L1 L2 L3 L4 L5 L6 L7] Hn G.
  pose proof (fun x => vinfo_stable b _ x G) as Vst.
  set (b' := bapply b (t, EValDef v len sok sid stok sprio mok hasid mid hastok mtok)) in *.
  assert (Hp : b_pend b' = b_pend b) by reflexivity.
  assert (Hr : b_rets b' = b_rets b) by reflexivity.
  assert (Hc : b_cfgs b' = b_cfgs b) by reflexivity.
  constructor.
  - intros k j tk' C. apply (holds_frame b); [reflexivity|exact Vst|].
    apply L1. apply (claim_now b t); auto.
    destruct C as [A B C|op p A B C D E' F G'|g r A B C D E' F].
    + apply cl_flag; auto.
    + apply (cl_win b t k j tk' op p); auto.
      destruct (wonkind_sok b op p I I2 A B) as [S _]. unfold tok_of in *. rewrite <- (Vst _ S). exact G'.
    + apply (cl_ret b t k j tk' g r); auto.
      pose proof (lr_won_sok b g r I2 A B) as S. unfold tok_of in *. rewrite <- (Vst _ S). exact F.
  - intros g r A. pose proof (L2 g r A). cbn. lia.
  - exact L3.
  - exact L4.
  - exact L5.
  - exact L6.
  - exact L7.
Qed.

(* ---------------------------------------------------------------- a call is issued *)
Lemma issue_shape2 b t i op kind inner root gid key val exp :
  let b' := bapply b (t, EIssue i op kind inner root gid key val exp) in
  b_now b' = t /\ b_rets b' = b_rets b /\ b_done b' = b_done b /\ b_last b' = b_last b /\ b_vals b' = b_vals b /\ b_cfgs b' = b_cfgs b /\
  (forall j, io_flag (inst_of b' j) = io_flag (inst_of b j) /\ io_tok (inst_of b' j) = io_tok (inst_of b j)).
Proof.
  cbn [bapply].
  match goal with |- context [if ?c then _ else _] => destruct c end; cbn; repeat split; auto;
    rewrite inst_of_upd; destruct (Z.eqb_spec i j); subst; reflexivity.
Qed.

Lemma L_issue b t i op kind inner root gid key val exp :
  LInv b -> b_now b <= t ->
  guards0 b (t, EIssue i op kind inner root gid key val exp) = [] ->
  LInv (bapply b (t, EIssue i op kind inner root gid key val exp)).
Proof.
  intros [L1 L2 L3 L4 L5 L6 L7] Hn G.
  destruct (issue_shape b t i op kind inner root gid key val exp) as (Hp & _).
  destruct (issue_shape2 b t i op kind inner root gid key val exp) as (Ht & Hr & Hd & Hl & Hv & Hc & Hf).
  set (b' := bapply b (t, EIssue i op kind inner root gid key val exp)) in *.
  constructor.
  - intros k j tk' C. apply (holds_frame b).
    { unfold last_of. rewrite Hl. reflexivity. }
    { intros x _. unfold vinfo_of. rewrite Hv. reflexivity. }
    apply L1. apply (claim_now b t); auto. rewrite Ht in C.
    destruct C as [A B C|op' p A B C D E' F G'|g r A B C D E' F].
    + destruct (Hf j) as [X Y]. apply cl_flag; [rewrite <- (cfg_same b b' j Hc); exact A|congruence|congruence].
    + rewrite Hp in A. destruct (op =? op').
      * inversion A. subst p. cbn in C. discriminate.
      * apply (cl_win b t k j tk' op' p); auto; [unfold is_done in *; rewrite <- Hd; exact D|rewrite <- (tok_same b b' _ Hv); exact G'].
    + rewrite Hr in A. apply (cl_ret b t k j tk' g r); auto. rewrite <- (tok_same b b' _ Hv). exact F.
  - intros g r. rewrite Hr, Ht. intros A. pose proof (L2 g r A). lia.
  - intros op' p. rewrite Hp. destruct (op =? op'); [|apply L3].
    intros X. inversion X. subst p. cbn [p_kind p_inner]. intros K. subst kind.
    cbn in G. apply app_nil_l2 in G. destruct G as [_ G]. apply app_nil_l2 in G. destruct G as [_ G].
    apply app_nil_l2 in G. destruct G as [G _].
    change (kUpdate =? kCreate) with false in G. change (kUpdate =? kUpdate) with true in G. cbn iota in G.
    destruct (Z.eqb_spec inner sHeartbeat); [left; assumption|].
    destruct (Z.eqb_spec inner sTakeover); [right; assumption|discriminate].
  - intros j c. rewrite Hc. apply L4.
  - rewrite Hc. exact L5.
  - intros j F. rewrite Hc. apply L6. destruct (Hf j) as [X _]. congruence.
  - intros g r. rewrite Hr, Hc. apply L7.
Qed.

(* ---------------------------------------------------------------- a call returns *)
Lemma ret_shape b t i op rk rev val p :
  aget (b_pend b) op = Some p ->
  let b' := bapply b (t, ERet i op rk rev val) in
  let lr := mkLR i (p_kind p) (p_inner p) rk rev (if p_kind p =? kGet then val else p_val p) (p_key p) t in
  b_now b' = t /\ b_pend b' = b_pend b /\ b_done b' = op :: b_done b /\ b_last b' = b_last b /\ b_vals b' = b_vals b /\ b_cfgs b' = b_cfgs b /\
  (forall g, aget (b_rets b') g = if p_gid p =? g then Some lr else aget (b_rets b) g) /\
  (forall j, io_flag (inst_of b' j) = io_flag (inst_of b j) /\ io_tok (inst_of b' j) = io_tok (inst_of b j)).
Proof.
  intros Hop. cbn [bapply]. change (b_pend (b <| b_now := t |>)) with (b_pend b). rewrite Hop. cbv zeta.
  repeat match goal with |- context [if ?c then _ else _] =>
    lazymatch c with
    | (_ =? _) => fail
    | _ => destruct c
    end end; cbn; repeat split; auto; try (intros; apply aget_aset);
    repeat (rewrite inst_of_upd; match goal with |- context [?a =? ?b] => destruct (Z.eqb_spec a b); subst end); try reflexivity.
Qed.

Lemma L_ret b t i op rk rev val :
  Inv2 b -> LInv b -> b_now b <= t ->
  guards0 b (t, ERet i op rk rev val) = [] ->
  LInv (bapply b (t, ERet i op rk rev val)).
Proof.
  intros I2 [L1 L2 L3 L4 L5 L6 L7] Hn G.
  destruct (aget (b_pend b) op) as [p|] eqn:Hop.
  2:{ cbn in G. rewrite Hop in G. discriminate. }
  destruct (ret_shape b t i op rk rev val p Hop) as (Ht & Hp & Hd & Hl & Hv & Hc & Hr & Hf).
  set (b' := bapply b (t, ERet i op rk rev val)) in *.
  cbn in G. rewrite Hop in G. apply app_nil_l2 in G. destruct G as [Gi G]. apply app_nil_l2 in G. destruct G as [Gd G].
  apply pwhen_nil in Gi. apply Bool.negb_false_iff in Gi. apply Z.eqb_eq in Gi. apply pwhen_nil in Gd.
  constructor.
  - intros k j tk' C. apply (holds_frame b).
    { unfold last_of. rewrite Hl. reflexivity. }
    { intros x _. unfold vinfo_of. rewrite Hv. reflexivity. }
    apply L1. apply (claim_now b t); auto. rewrite Ht in C.
    destruct C as [A B C|op' p' A B C D E' F G'|g r A B C D E' F].
    + destruct (Hf j) as [X Y]. apply cl_flag; [rewrite <- (cfg_same b b' j Hc); exact A|congruence|congruence].
    + rewrite Hp in A. unfold is_done in D. rewrite Hd in D. apply is_done_cons in D. destruct D as [_ D].
      apply (cl_win b t k j tk' op' p'); auto. rewrite <- (tok_same b b' _ Hv). exact G'.
    + rewrite Hr in A. destruct (p_gid p =? g).
      * (* the call that returns now: its write was applied and had not returned *)
        inversion A. subst r. clear A. cbn in C, D, E', F.
        unfold lr_won in B. cbn [lr_kind lr_inner lr_rk] in B.
        apply andb_prop in B. destruct B as [W Ok]. apply Z.eqb_eq in Ok. subst rk.
        assert (Ew : p_kind p =? kWatch = false).
        { destruct (wonkind_cases p W) as [K|[K _]]; rewrite K; reflexivity. }
        assert (Eg : p_kind p =? kGet = false).
        { destruct (wonkind_cases p W) as [K|[K _]]; rewrite K; reflexivity. }
        rewrite Ew in G. change (oOk <? 10) with true in G. cbn [andb negb] in G.
        destruct (p_applied p) as [[[[ok r0] v0] t0]|] eqn:Ea; [|discriminate].
        apply pwhen_nil in G. apply Bool.negb_false_iff in G.
        apply andb_prop in G. destruct G as [G _]. apply andb_prop in G. destruct G as [G _].
        apply (cl_win b t k j tk' op p); auto.
        -- unfold applied_ok. rewrite Ea. exact G.
        -- congruence.
        -- rewrite Eg in F. rewrite <- (tok_same b b' _ Hv). exact F.
      * apply (cl_ret b t k j tk' g r); auto. rewrite <- (tok_same b b' _ Hv). exact F.
  - intros g r. rewrite Hr, Ht. destruct (p_gid p =? g).
    + intros A. inversion A. cbn. lia.
    + intros A. pose proof (L2 g r A). lia.
  - intros op' p'. rewrite Hp. apply L3.
  - intros j c. rewrite Hc. apply L4.
  - rewrite Hc. exact L5.
  - intros j F. rewrite Hc. apply L6. destruct (Hf j) as [X _]. congruence.
  - intros g r. rewrite Hr, Hc. destruct (p_gid p =? g); [|apply L7].
    intros A. inversion A. cbn [lr_i]. rewrite <- Gi. destruct (i2_key _ I2 op p Hop) as [_ X]. exact X.
Qed.

(* ---------------------------------------------------------------- the claim is raised or cleared *)
Lemma L_flag b t i fl cause root gid :
  LInv b -> b_now b <= t ->
  guards0 b (t, EFlag i fl cause root gid) = [] ->
  LInv (bapply b (t, EFlag i fl cause root gid)).
Proof.
  intros IL Hn G.
  cbn in G. cbn [bapply]. destruct (zb fl) eqn:Efl.
  2:{ apply (L_quiet b); auto; try reflexivity.
      apply flags_upd. intros x. cbn. discriminate. }
  apply app_nil_l2 in G. destruct G as [_ G]. apply app_nil_l2 in G. destruct G as [_ G]. apply app_nil_l2 in G. destruct G as [_ G].
  change (b_rets (b <| b_now := t |>)) with (b_rets b).
  destruct (aget (b_rets b) gid) as [r|] eqn:Hg; [|discriminate].
  apply app_nil_l2 in G. destruct G as [G1 G2]. apply pwhen_nil in G1. apply pwhen_nil in G2.
  apply Bool.negb_false_iff in G1, G2. cbn [fst] in G2. apply Z.eqb_eq in G2.
  apply andb_prop in G1. destruct G1 as [G1 Gk]. apply andb_prop in G1. destruct G1 as [Gw Gi].
  apply Z.eqb_eq in Gk, Gi.
  destruct IL as [L1 L2 L3 L4 L5 L6 L7].
  match goal with |- LInv ?x => set (b' := x) end.
  assert (Hi : forall j, inst_of b' j = if i =? j then
            inst_of b i <| io_flag := true |> <| io_tok := v_stok (vinfo_of b (lr_val r)) |> <| io_acq_rev := lr_rev r |>
                        <| io_terms ::= Z.succ |> <| io_views ::= cons (v_stok (vinfo_of b (lr_val r)), lr_rev r) |>
                        <| io_hb_ta := t |> <| io_hb_te := t |> <| io_hb_op := 0 |> <| io_hb_ok := true |> else inst_of b j).
  { intros j. unfold b'. rewrite inst_of_upd. reflexivity. }
  constructor.
  - intros k j tk' C. apply (holds_frame b); [reflexivity|intros; reflexivity|].
    apply L1. apply (claim_now b t); auto.
    destruct C as [A B C|op' p' A B C D E' F G'|g r' A B C D E' F].
    + rewrite Hi in B, C. destruct (Z.eqb_spec i j) as [->|Hne].
      * cbn in C. apply (cl_ret b t k j tk' gid r); auto. rewrite <- A. exact Gk.
      * apply cl_flag; auto.
    + apply (cl_win b t k j tk' op' p'); auto.
    + apply (cl_ret b t k j tk' g r'); auto.
  - intros g r' A. pose proof (L2 g r' A). cbn. lia.
  - exact L3.
  - exact L4.
  - exact L5.
  - intros j F. rewrite Hi in F. change (b_cfgs b') with (b_cfgs b). destruct (Z.eqb_spec i j) as [E|Hne]; [|apply L6; exact F].
    subst j. rewrite <- Gi. apply (L7 gid r Hg).
  - exact L7.
Qed.

(* ---------------------------------------------------------------- the record expires *)
Lemma L_expire b t key rev :
  LInv b -> b_now b <= t ->
  env_okb b (t, EExpire key rev) = true ->
  LInv (bapply b (t, EExpire key rev)).
Proof.
  intros [L1 L2 L3 L4 L5 L6 L7] Hn E. cbn in E. apply Bool.negb_true_iff in E.
  cbn [bapply]. match goal with |- LInv ?x => set (b' := x) end.
  constructor.
  - intros k j tk' C.
    assert (C0 : claim b t k j tk').
    { destruct C as [A B C|op' p' A B C D E' F G'|g r' A B C D E' F];
        [apply cl_flag; auto|apply (cl_win b t k j tk' op' p'); auto|apply (cl_ret b t k j tk' g r'); auto]. }
    destruct (Z.eqb_spec key k) as [->|Hne].
    + rewrite (claim_protected b t k j tk' L6 C0) in E. discriminate.
    + apply (holds_frame b); [|intros; reflexivity|apply L1; apply (claim_now b t); auto].
      unfold last_of, b'. cbn. apply aget_adel_other. congruence.
  - intros g r' A. pose proof (L2 g r' A). cbn. lia.
  - exact L3.
  - exact L4.
  - exact L5.
  - exact L6.
  - exact L7.
Qed.

(* ---------------------------------------------------------------- a call takes effect in the store *)
Definition writes (okind kind : Z) : bool := (okind =? oOk) && ((kind =? kCreate) || (kind =? kUpdate) || (kind =? kDelete)).

Lemma apply_shape b t op okind rev val p :
  aget (b_pend b) op = Some p ->
  let b' := bapply b (t, EApply op okind rev val) in
  let p' := p <| p_applied := Some (okind, rev, val, t) |> in
  b_now b' = t /\ b_rets b' = b_rets b /\ b_done b' = b_done b /\ b_vals b' = b_vals b /\ b_cfgs b' = b_cfgs b /\ b_inst b' = b_inst b /\
  (forall op', aget (b_pend b') op' = if op =? op' then Some p' else aget (b_pend b) op') /\
  (forall k, last_of b' k = if writes okind (p_kind p) && (p_key p =? k)
                            then Some (rev, (if (p_kind p =? kCreate) || (p_kind p =? kUpdate) then p_val p else 0),
                                       negb ((p_kind p =? kCreate) || (p_kind p =? kUpdate)))
                            else last_of b k).
Proof.
  intros Hop. cbn [bapply]. change (b_pend (b <| b_now := t |>)) with (b_pend b). rewrite Hop. cbv zeta. unfold writes.
  destruct (okind =? oOk); [|cbn; repeat split; auto; intros; apply aget_aset].
  destruct (p_kind p =? kCreate) eqn:E1; [cbn; repeat split; auto; intros; [apply aget_aset|rewrite last_of_publish; destruct (p_key p =? k); reflexivity]|].
  destruct (p_kind p =? kUpdate) eqn:E2; [cbn; repeat split; auto; intros; [apply aget_aset|rewrite last_of_publish; destruct (p_key p =? k); reflexivity]|].
  destruct (p_kind p =? kDelete) eqn:E3; [cbn; repeat split; auto; intros; [apply aget_aset|rewrite last_of_publish; destruct (p_key p =? k); reflexivity]|].
  cbn; repeat split; auto; intros; apply aget_aset.
Qed.

Lemma live_of_holds b k i tk : holds b k i tk -> live_of b k = true.
Proof.
  intros (r & v & A & _). unfold live_val, live_of in *. destruct (last_of b k) as [[[r0 v0] [|]]|]; try discriminate. reflexivity.
Qed.

Lemma L_apply b t op okind rev val :
  Inv b -> Inv2 b -> LInv b -> b_now b <= t ->
  guards0 b (t, EApply op okind rev val) = [] ->
  env_okb b (t, EApply op okind rev val) = true ->
  LInv (bapply b (t, EApply op okind rev val)).
Proof.
  intros I I2 [L1 L2 L3 L4 L5 L6 L7] Hn G E.
  destruct (aget (b_pend b) op) as [p|] eqn:Hop.
  2:{ cbn in G. rewrite Hop in G. discriminate. }
  destruct (apply_shape b t op okind rev val p Hop) as (Ht & Hr & Hd & Hv & Hc & Hi & Hp & Hl).
  set (b' := bapply b (t, EApply op okind rev val)) in *.
  set (p' := p <| p_applied := Some (okind, rev, val, t) |>) in *.
  cbn in E. rewrite Hop in E. apply Bool.negb_true_iff in E.
  (* claims of the new state: old ones, or the write that has just been applied *)
  assert (CB : forall k j tk', claim b' t k j tk' ->
             claim b t k j tk' \/ (wonkind p = true /\ okind = oOk /\ p_key p = k /\ p_i p = j /\ tok_of b (p_val p) = tk')).
  { intros k j tk' [A B C|op' q A B C D E' F G'|g r A B C D E' F].
    - left. apply cl_flag; [rewrite <- (cfg_same b b' j Hc); exact A|unfold inst_of in *; rewrite <- Hi; exact B|unfold inst_of in *; rewrite <- Hi; exact C].
    - rewrite Hp in A. destruct (op =? op').
      + right. inversion A. subst q. cbn in B, C, E', F, G'. unfold applied_ok in C. cbn in C. apply Z.eqb_eq in C.
        rewrite (tok_same b b' _ Hv) in G'. auto.
      + left. apply (cl_win b t k j tk' op' q); auto; [unfold is_done in *; rewrite <- Hd; exact D|rewrite <- (tok_same b b' _ Hv); exact G'].
    - left. rewrite Hr in A. apply (cl_ret b t k j tk' g r); auto. rewrite <- (tok_same b b' _ Hv). exact F. }
  assert (Vs : forall x, sok_of b x = true -> vinfo_of b' x = vinfo_of b x) by (intros x _; unfold vinfo_of; rewrite Hv; reflexivity).
  assert (Old : forall k j tk', claim b t k j tk' -> holds b k j tk') by (intros; apply L1; apply (claim_now b t); auto).
  constructor.
  2:{ intros g r. rewrite Hr, Ht. intros A. pose proof (L2 g r A). lia. }
  2:{ intros op' q. rewrite Hp. destruct (op =? op'); [|apply L3]. intros X. inversion X. subst q. cbn [p_kind p_inner p']. apply (L3 op p Hop). }
  2:{ intros j c. rewrite Hc. apply L4. }
  2:{ rewrite Hc. exact L5. }
  2:{ intros j F. rewrite Hc. apply L6. unfold inst_of in *. rewrite <- Hi. exact F. }
  2:{ intros g r. rewrite Hr, Hc. apply L7. }
  intros k j tk' C. rewrite Ht in C. apply CB in C.
  destruct (writes okind (p_kind p) && (p_key p =? k)) eqn:W.
  2:{ (* nothing written to this key *)
      destruct C as [C|(Wk & Ok & Kk & _)].
      - apply (holds_frame b); auto. rewrite Hl, W. reflexivity.
      - exfalso. unfold writes in W. subst okind. rewrite Kk, !Z.eqb_refl in W.
        destruct (wonkind_cases p Wk) as [K|[K _]]; rewrite K in W; cbn in W; discriminate. }
  apply andb_prop in W. destruct W as [W Wk]. apply Z.eqb_eq in Wk. subst k.
  unfold writes in W. apply andb_prop in W. destruct W as [Ok W]. apply Z.eqb_eq in Ok. subst okind.
  assert (Ew : p_kind p =? kWatch = false).
  { apply Bool.orb_true_iff in W. destruct W as [W|W]; [apply Bool.orb_true_iff in W; destruct W as [W|W]|]; apply Z.eqb_eq in W; rewrite W; reflexivity. }
  destruct (guards_apply _ _ _ _ _ _ _ Hop G Ew) as (Hnone & So & Sr).
  destruct (Z.eqb_spec (p_kind p) kCreate) as [Kc|Kc].
  - (* Create: the key had no live record, so nobody had a claim on it *)
    unfold store_outcome in So. rewrite Kc in So. change (kCreate =? kCreate) with true in So. cbn iota in So.
    destruct (live_of b (p_key p)) eqn:Lv; [cbn in So; discriminate|].
    destruct C as [C|(_ & _ & _ & Ej & Etk)].
    + apply Old in C. apply live_of_holds in C. congruence.
    + destruct (inv_create _ I op p Hop Kc) as (S1 & S2 & _).
      exists rev, (p_val p). split; [unfold live_val; rewrite Hl; unfold writes; rewrite Kc, !Z.eqb_refl; reflexivity|].
      unfold sok_of, sid_of, tok_of in *. rewrite (Vs _ S1). repeat split; congruence.
  - destruct (Z.eqb_spec (p_kind p) kUpdate) as [Ku|Ku].
    + (* Update *)
      unfold store_outcome in So. rewrite Ku in So. change (kUpdate =? kCreate) with false in So. change (kUpdate =? kUpdate) with true in So. cbn iota in So.
      destruct (p_exp p =? last_rev_of b (p_key p)) eqn:Ee; [|cbn in So; discriminate]. apply Z.eqb_eq in Ee.
      destruct (L3 op p Hop Ku) as [Eh|Et].
      2:{ (* a takeover: not configured anywhere *)
          exfalso. destruct (inv_takeover _ I op p Hop Ku Et Hnone) as (pv & _ & _ & T & _).
          unfold cfg_of in T. destruct (aget (b_cfgs b) (p_i p)) as [c|] eqn:Hcf; [rewrite (L4 _ _ Hcf) in T|cbn in T]; discriminate. }
      assert (Wf : wonkind p = false) by (unfold wonkind; rewrite Ku, Eh; reflexivity).
      destruct C as [C|(Wt & _)]; [|congruence].
      apply Old in C. destruct C as (r & v & Lv & S1 & S2 & S3).
      (* the refresh replaces the claimant's own version with the same identity and token *)
      assert (El : last_of b (p_key p) = Some (r, v, false)).
      { unfold live_val in Lv. destruct (last_of b (p_key p)) as [[[r0 v0] [|]]|]; try discriminate. inversion Lv. reflexivity. }
      unfold last_rev_of in Ee. rewrite El in Ee.
      destruct (i2_hb _ I2 op p Hop Ku Eh Hnone) as (pv & Hby & P1 & P2 & P3).
      pose proof (inv_last _ I _ _ _ _ El) as Hin. rewrite <- Ee in Hin.
      destruct (in_hist_uniq _ _ _ _ _ _ _ I Hin (in_hist_by_in_hist _ _ _ _ _ Hby)) as [Ev _]. subst pv.
      destruct (i2_payload _ I2 op p Hop Ku) as [V1 V2].
      exists rev, (p_val p). split; [unfold live_val; rewrite Hl; unfold writes; rewrite Ku, !Z.eqb_refl; reflexivity|].
      unfold sok_of, sid_of, tok_of in *. rewrite (Vs _ V1). repeat split; congruence.
    + (* Delete: excluded under a holder by the environment hypothesis *)
      assert (Kd : p_kind p =? kDelete = true).
      { cbn [orb] in W. exact W. }
      rewrite Kd in E. change (oOk =? oOk) with true in E. cbn [andb] in E.
      destruct C as [C|(Wt & _)].
      * rewrite (claim_protected _ _ _ _ _ L6 C) in E. discriminate.
      * apply Z.eqb_eq in Kd. destruct (wonkind_cases p Wt) as [K|[K _]]; congruence.
Qed.

(* ---------------------------------------------------------------- every observation *)
Ltac quiet_step IL Hn :=
  cbn [bapply];
  repeat match goal with |- LInv (if ?c then _ else _) => destruct c end;
  (apply (L_quiet _ _) with (9 := IL); try reflexivity; try exact Hn;
   [first [apply flags_upd; intros x; cbn; auto; discriminate | intros j; auto]]).

Lemma L_step b te :
  Inv b -> Inv2 b -> LInv b -> guards b te = [] -> env_okb b te = true -> LInv (bapply b te).
Proof.
  intros I I2 IL G E. apply guards_split in G. destruct G as (G & _ & Hn).
  destruct te as [t e]. cbn [fst] in Hn. apply Z.ltb_ge in Hn.
  destruct e.
  - apply L_instdef; assumption.
  - apply L_valdef; assumption.
  - apply L_issue; assumption.
  - apply L_apply; assumption.
  - apply L_ret; assumption.
  - apply L_flag; assumption.
  - quiet_step IL Hn.
  - quiet_step IL Hn.
  - quiet_step IL Hn.
  - quiet_step IL Hn.
  - quiet_step IL Hn.
  - quiet_step IL Hn.
  - quiet_step IL Hn.
  - quiet_step IL Hn.
  - quiet_step IL Hn.
  - quiet_step IL Hn.
  - quiet_step IL Hn.
  - quiet_step IL Hn.
  - quiet_step IL Hn.
  - quiet_step IL Hn.
  - cbn in E. discriminate.
  - cbn in E. discriminate.
  - apply L_expire; assumption.
  - quiet_step IL Hn.
  - quiet_step IL Hn.
  - quiet_step IL Hn.
  - quiet_step IL Hn.
  - quiet_step IL Hn.
  - quiet_step IL Hn.
  - quiet_step IL Hn.
  - quiet_step IL Hn.
  - quiet_step IL Hn.
  - quiet_step IL Hn.
  - quiet_step IL Hn.
  - quiet_step IL Hn.
Qed.

(* ---------------------------------------------------------------- the monitor clauses *)
Lemma in_flat_when {A} (f : A -> bool) (c : Z) (l : list A) : In c (flat_map (fun x => Mon.when (f x) c) l) -> exists x, In x l /\ f x = true.
Proof.
  intros H. apply in_flat_map in H. destruct H as (x & Hx & Hin). exists x. split; [exact Hx|].
  destruct (f x); [reflexivity|destruct Hin].
Qed.

Lemma C02_backed b : LInv b -> forall i c, In (i, c) (b_cfgs b) -> io_flag (inst_of b i) = true -> backed b i = true.
Proof.
  intros IL i c Hin Hf.
  destruct (l_holds _ IL (ic_key (cfg_of b i)) i (io_tok (inst_of b i))) as (r & v & A & B & C & D); [apply cl_flag; auto|].
  unfold backed. rewrite A, B, C, D, !Z.eqb_refl. reflexivity.
Qed.

Lemma NoDup_two {A} (l : list A) : NoDup l -> (1 < List.length l)%nat -> exists x y, In x l /\ In y l /\ x <> y.
Proof.
  intros N H. destruct l as [|x [|y l]]; cbn in H; try lia.
  exists x, y. repeat split; [left; reflexivity|right; left; reflexivity|].
  inversion N as [|? ? Hn _]. subst. intros ->. apply Hn. left. reflexivity.
Qed.

Lemma NoDup_map_filter {A B} (g : A -> B) (f : A -> bool) (l : list A) : NoDup (map g l) -> NoDup (map g (filter f l)).
Proof.
  induction l as [|x l IH]; cbn; [auto|]. intros N. inversion N as [|? ? Hn Hd]. subst.
  destruct (f x); [|auto]. cbn. constructor; [|auto].
  intros Hin. apply Hn. apply in_map_iff in Hin. destruct Hin as (y & E & Hy). apply filter_In in Hy. destruct Hy as [Hy _].
  rewrite <- E. apply in_map. exact Hy.
Qed.

Lemma C02_one_claimant b k : LInv b -> (List.length (claimants b k) <= 1)%nat.
Proof.
  intros IL. destruct (Nat.leb_spec (List.length (claimants b k)) 1) as [|Hgt]; [assumption|exfalso].
  unfold claimants in Hgt.
  pose proof (NoDup_map_filter fst (fun ic => (ic_key (snd ic) =? k) && io_flag (inst_of b (fst ic))) (b_cfgs b) (l_nodup _ IL)) as N.
  destruct (NoDup_two _ N Hgt) as (x & y & Hx & Hy & Hne).
  assert (Cl : forall z, In z (map fst (filter (fun ic => (ic_key (snd ic) =? k) && io_flag (inst_of b (fst ic))) (b_cfgs b))) ->
               exists r v, live_val b k = Some (r, v) /\ sid_of b v = z).
  { intros z Hz. apply in_map_iff in Hz. destruct Hz as ([i c] & Ez & Hic). cbn in Ez. subst z.
    apply filter_In in Hic. destruct Hic as [Hin Hf]. cbn [fst snd] in Hf. apply andb_prop in Hf. destruct Hf as [Hk Hf]. apply Z.eqb_eq in Hk.
    pose proof (In_aget _ _ _ (l_nodup _ IL) Hin) as Hg.
    assert (Ec : cfg_of b i = c) by (unfold cfg_of; rewrite Hg; reflexivity).
    destruct (l_holds _ IL k i (io_tok (inst_of b i))) as (r & v & A & _ & C & _); [apply cl_flag; auto; congruence|].
    exists r, v. auto. }
  destruct (Cl x Hx) as (r1 & v1 & A1 & S1). destruct (Cl y Hy) as (r2 & v2 & A2 & S2).
  rewrite A1 in A2. inversion A2. subst. contradiction.
Qed.

Lemma C02_monitor b te : LInv b -> ~ In 201 (mon_C02 b te) /\ ~ In 202 (mon_C02 b te).
Proof.
  intros IL. unfold mon_C02. destruct (changes_claim_or_record (snd te)); [|split; intros []].
  split; intros H; apply in_app_or in H; destruct H as [H|H].
  - apply in_flat_when in H. destruct H as (k & _ & Hk). apply Nat.ltb_lt in Hk. pose proof (C02_one_claimant b k IL). lia.
  - apply in_flat_map in H. destruct H as (x & _ & Hin). destruct (io_flag (inst_of b (fst x)) && negb (backed b (fst x))); [destruct Hin as [X|[]]; discriminate|destruct Hin].
  - apply in_flat_map in H. destruct H as (x & _ & Hin). destruct (Nat.ltb 1 (List.length (claimants b x))); [destruct Hin as [X|[]]; discriminate|destruct Hin].
  - apply in_flat_when in H. destruct H as ([i c] & Hic & Hf). cbn [fst] in Hf. apply andb_prop in Hf. destruct Hf as [Hf Hb].
    rewrite (C02_backed b IL i c Hic Hf) in Hb. discriminate.
Qed.

(* ---------------------------------------------------------------- every admitted trace in the environment *)
Lemma admitted_prefix3 tr : forall b, Inv b -> Inv2 b -> LInv b -> admits b tr = true -> env_admits b tr = true ->
  forall pre te post, tr = pre ++ te :: post -> LInv (bapply (fold_left bapply pre b) te).
Proof.
  induction tr as [|x tr IH]; intros b I I2 IL A E pre te post Eq.
  - destruct pre; discriminate.
  - cbn in A, E. destruct (guards b x) eqn:G; [|discriminate]. apply andb_prop in E. destruct E as [E1 E2].
    pose proof (L_step b x I I2 IL G E1) as IL'.
    destruct pre as [|y pre]; cbn in Eq.
    + inversion Eq. subst x post. cbn. exact IL'.
    + inversion Eq. subst y. cbn [fold_left]. apply guards_split in G. destruct G as [G _].
      eapply IH; eauto; [apply Inv_step|apply Inv2_step]; assumption.
Qed.

Theorem C02_mutual_exclusion tr :
  admits base0 tr = true -> env_admits base0 tr = true ->
  forall pre te post, tr = pre ++ te :: post ->
    ~ In 201 (mon_C02 (bapply (brun pre) te) te) /\ ~ In 202 (mon_C02 (bapply (brun pre) te) te).
Proof.
  intros A E pre te post Eq. apply C02_monitor.
  apply (admitted_prefix3 tr base0 Inv0 Inv2_0 LInv0 A E pre te post Eq).
Qed.

(* ---------------------------------------------------------------- non-vacuity *)
(* a trace of the real library (two instances; the first leads and refreshes, stops with deletion, the second takes
   over) is admitted by the rules, lies in the environment, and contains claims by both instances *)
From LE Require Import Witness2.
Lemma lease_witness_admitted : admits base0 lease_witness = true.
Proof. vm_compute. reflexivity. Qed.
Lemma lease_witness_env : env_admits base0 lease_witness = true.
Proof. vm_compute. reflexivity. Qed.
Lemma lease_witness_claims :
  List.length (filter (fun te => match snd te with EFlag _ 1 _ _ _ => true | _ => false end) lease_witness) = 2%nat.
Proof. vm_compute. reflexivity. Qed.
