(* Proofs/StatusInv.v — a table of status writers that passes [group_ok] keeps the status invariant between any
   two groups, whatever groups run, in whatever order and number. *)
From LE Require Import Base Locks Status.
Open Scope string_scope.

(* After the shapes of the four lists are fixed (at most one store per field), the statement is propositional in a handful
   of booleans and two three-valued stores: it is decided by cases. *)
Ltac bool_cases :=
  repeat match goal with
         | x : lidv |- _ => destruct x
         | x : tokv |- _ => destruct x
         end;
  cbn in *; try discriminate;
  repeat match goal with
         | H : context [if ?c then _ else _] |- _ => is_var c; destruct c; cbn in *; try discriminate
         | |- context [if ?c then _ else _] => is_var c; destruct c; cbn in *; try discriminate
         end;
  repeat match goal with
         | H : ?g = true -> ?s = false |- _ => is_var g; destruct g; [specialize (H eq_refl); try subst|clear H]
         end;
  cbn in *; try discriminate;
  repeat split; intros; subst; cbn in *; try discriminate; try reflexivity; try assumption; try tauto; try congruence;
  repeat match goal with
         | H : ?a = true -> _ /\ _, H' : ?a = true |- _ => destruct (H H'); clear H
         end; try assumption; try congruence;
  (* what is left is about a few booleans only *)
  repeat match goal with x : bool |- _ => destruct x end; cbn in *; try discriminate; try reflexivity; try tauto; try congruence.

Lemma step_inv g s : group_ok g = true -> SInv s -> enabled s g -> SInv (sstep s g).
Proof.
  unfold group_ok, SInv, enabled, sstep, exclusive.
  destruct g as [fn pos mu ctor guard il st lid tk unk];
    cbn [sg_unknown sg_ctor sg_mu sg_guard sg_il sg_st sg_lid sg_tok ss_il ss_st ss_own ss_tok].
  destruct s as [sil sst sown stok]; cbn [ss_il ss_st ss_own ss_tok].
  intros Hok [H1 [H2 H3]] Hen.
  rewrite !Bool.andb_true_iff in Hok. destruct Hok as [[[[[Hu Hex] Hdoc] Hpair] Hlid] Htok].
  clear Hu Hex fn pos mu unk.
  destruct il as [|b [|b2 il]]; destruct st as [|x [|x2 st]]; try discriminate Hpair;
    destruct lid as [|v [|v2 lid]]; try (destruct b; discriminate Hlid); try discriminate Hlid; try (destruct v; discriminate Hlid);
    destruct tk as [|k [|k2 tk]]; try (destruct b; discriminate Htok); try discriminate Htok; try (destruct k; discriminate Htok);
    cbn [last_or last forallb] in *;
    try (rewrite Bool.andb_true_iff in Hdoc; destruct Hdoc as [Hd1 _]);
    try (set (lx := is_leader_state x) in *; set (dx := documented_state x) in *; clearbody lx dx);
    set (ls := is_leader_state sst) in *; set (ds := documented_state sst) in *; clearbody ls ds;
    bool_cases.
Qed.

Theorem status_invariant (tbl : list sgroup) :
  forallb group_ok tbl = true ->
  forall gs, (forall g, In g gs -> In g tbl) ->
  forall s, SInv s -> senabled s gs -> SInv (srun s gs).
Proof.
  intros Htbl gs. induction gs as [|g gs IH]; intros Hin s Hs Hen; cbn [srun]; [exact Hs|].
  cbn [senabled] in Hen. destruct Hen as [Hg Hr].
  apply IH; [intros g' Hg'; apply Hin; right; exact Hg'| |exact Hr].
  apply step_inv; [|exact Hs|exact Hg].
  rewrite forallb_forall in Htbl. apply Htbl, Hin. left; reflexivity.
Qed.

(* every intermediate state, not only the last one *)
Theorem status_invariant_everywhere (tbl : list sgroup) :
  forallb group_ok tbl = true ->
  forall gs, (forall g, In g gs -> In g tbl) ->
  forall s, SInv s -> senabled s gs ->
  forall pre post, gs = (pre ++ post)%list -> SInv (srun s pre).
Proof.
  intros Htbl gs Hin s Hs Hen pre post E. subst gs.
  apply (status_invariant tbl Htbl pre); [intros g Hg; apply Hin, in_or_app; left; exact Hg|exact Hs|].
  clear -Hen. revert s Hen. induction pre as [|g pre IH]; intros s Hen; cbn [senabled]; [exact I|].
  cbn [app senabled] in Hen. destruct Hen as [Hg Hr]. split; [exact Hg|apply IH; exact Hr].
Qed.

(* a group that stores isLeader and state together (the constructor does) establishes the invariant from any state *)
Lemma paired_group_establishes g s :
  group_ok g = true -> (exists b, sg_il g = [b]) -> SInv (sstep s g).
Proof.
  unfold group_ok, SInv, sstep.
  destruct g as [fn pos mu ctor guard il st lid tk unk];
    cbn [sg_unknown sg_ctor sg_mu sg_guard sg_il sg_st sg_lid sg_tok ss_il ss_st ss_own ss_tok].
  intros Hok [b Eb]. subst il.
  rewrite !Bool.andb_true_iff in Hok. destruct Hok as [[[[[Hu Hex] Hdoc] Hpair] Hlid] Htok].
  destruct st as [|x [|x2 st]]; try discriminate Hpair. cbn [last_or last].
  apply Bool.eqb_prop in Hpair.
  cbn [forallb] in Hdoc. rewrite Bool.andb_true_iff in Hdoc. destruct Hdoc as [Hd1 _].
  split; [exact Hpair|]. split; [|exact Hd1].
  intros Hb. rewrite Hb in Hlid, Htok. rewrite Hb.
  destruct lid as [|v [|v2 lid]]; try discriminate Hlid; destruct v; try discriminate Hlid.
  destruct tk as [|k [|k2 tk]]; try discriminate Htok; destruct k; try discriminate Htok.
  split; reflexivity.
Qed.
