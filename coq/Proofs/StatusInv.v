(* Proofs/StatusInv.v — a table of status writers that passes [group_ok] keeps the status invariant between any
   two groups, whatever groups run, in whatever order and number. *)
From LE Require Import Base Locks Status.
Open Scope string_scope.

Lemma step_inv g s : group_ok g = true -> SInv s -> enabled s g -> SInv (sstep s g).
Proof.
  unfold group_ok, SInv, enabled, sstep.
  destruct g as [fn pos mu ctor guard il st lid unk];
    cbn [sg_unknown sg_ctor sg_mu sg_guard sg_il sg_st sg_lid ss_il ss_st ss_own].
  destruct s as [sil sst sown]; cbn [ss_il ss_st ss_own].
  intros Hok [H1 [H2 H3]] Hen.
  rewrite !Bool.andb_true_iff in Hok. destruct Hok as [[[[Hu Hex] Hdoc] Hpair] Hlid].
  destruct il as [|b [|b2 il]]; destruct st as [|x [|x2 st]]; try discriminate Hpair; cbn [last_or last].
  - (* neither isLeader nor state is stored *)
    split; [exact H1|]. split; [|exact H3].
    intros Hl. destruct lid as [|v [|v2 lid]]; [auto| |destruct v; discriminate Hlid].
    destruct v; cbn [last]; [reflexivity| |]; cbn in Hlid; rewrite (Hen Hlid) in Hl; discriminate Hl.
  - (* state alone: behind the not-leader guard, to a state other than LEADER *)
    rewrite Bool.andb_true_iff in Hpair. destruct Hpair as [Hnl Hg].
    rewrite (Hen Hg) in *.
    split; [symmetry; apply Bool.negb_true_iff; exact Hnl|].
    split; [intros Hl; discriminate Hl|].
    cbn [forallb] in Hdoc. rewrite Bool.andb_true_iff in Hdoc. exact (proj1 Hdoc).
  - (* isLeader and state together *)
    apply Bool.eqb_prop in Hpair.
    split; [exact Hpair|].
    split.
    + intros Hb. rewrite Hb in Hlid. destruct lid as [|v [|v2 lid]]; [discriminate Hlid| |destruct v; discriminate Hlid].
      destruct v; try discriminate Hlid. reflexivity.
    + cbn [forallb] in Hdoc. rewrite Bool.andb_true_iff in Hdoc. exact (proj1 Hdoc).
Qed.

Theorem status_invariant (tbl : list sgroup) :
  forallb group_ok tbl = true ->
  forall gs, (forall g, In g gs -> In g tbl) ->
  forall s, SInv s -> senabled s gs -> SInv (srun s gs).
Proof.
  intros Htbl gs. induction gs as [|g gs IH]; intros Hin s Hs Hen; cbn [srun]; [exact Hs|].
  cbn [senabled] in Hen. destruct Hen as [Hg Hr].
  apply IH; [intros g' Hg'; apply Hin; right; exact Hg'| |exact Hr].
  apply step_inv; [|exact Hs|exact Hg].
  rewrite forallb_forall in Htbl. apply Htbl, Hin. left; reflexivity.
Qed.

(* every intermediate state, not only the last one *)
Theorem status_invariant_everywhere (tbl : list sgroup) :
  forallb group_ok tbl = true ->
  forall gs, (forall g, In g gs -> In g tbl) ->
  forall s, SInv s -> senabled s gs ->
  forall pre post, gs = (pre ++ post)%list -> SInv (srun s pre).
Proof.
  intros Htbl gs Hin s Hs Hen pre post E. subst gs.
  apply (status_invariant tbl Htbl pre); [intros g Hg; apply Hin, in_or_app; left; exact Hg|exact Hs|].
  clear -Hen. revert s Hen. induction pre as [|g pre IH]; intros s Hen; cbn [senabled]; [exact I|].
  cbn [app senabled] in Hen. destruct Hen as [Hg Hr]. split; [exact Hg|apply IH; exact Hr].
Qed.

(* a group that stores isLeader and state together (the constructor does) establishes the invariant from any state *)
Lemma paired_group_establishes g s :
  group_ok g = true -> (exists b, sg_il g = [b]) -> SInv (sstep s g).
Proof.
  unfold group_ok, SInv, sstep.
  destruct g as [fn pos mu ctor guard il st lid unk];
    cbn [sg_unknown sg_ctor sg_mu sg_guard sg_il sg_st sg_lid ss_il ss_st ss_own].
  intros Hok [b Eb]. subst il.
  rewrite !Bool.andb_true_iff in Hok. destruct Hok as [[[[Hu Hex] Hdoc] Hpair] Hlid].
  destruct st as [|x [|x2 st]]; try discriminate Hpair. cbn [last_or last].
  apply Bool.eqb_prop in Hpair.
  split; [exact Hpair|]. split.
  - intros Hb. rewrite Hb in Hlid. destruct lid as [|v [|v2 lid]]; [discriminate Hlid| |destruct v; discriminate Hlid].
    destruct v; try discriminate Hlid. reflexivity.
  - cbn [forallb] in Hdoc. rewrite Bool.andb_true_iff in Hdoc. exact (proj1 Hdoc).
Qed.
