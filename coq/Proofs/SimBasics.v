(* Proofs/SimBasics.v — lemmas about the association maps and the shared state update. *)
From RecordUpdate Require Import RecordUpdate.
From LE Require Import Base Ev World Mon Proto.
Open Scope Z_scope.

Lemma aget_adel_same {A} (m : amap A) k : aget (adel m k) k = None.
Proof.
  induction m as [|[k' v] m IH]; cbn [adel aget]; [reflexivity|].
  destruct (k' =? k) eqn:E; [exact IH|]. cbn [aget]. rewrite E. exact IH.
Qed.

Lemma aget_adel_other {A} (m : amap A) k k' : k' <> k -> aget (adel m k) k' = aget m k'.
Proof.
  intros Hne. induction m as [|[k0 v] m IH]; cbn [adel aget]; [reflexivity|].
  destruct (k0 =? k) eqn:E.
  - apply Z.eqb_eq in E. subst k0. destruct (k =? k') eqn:E2; [apply Z.eqb_eq in E2; congruence|exact IH].
  - cbn [aget]. destruct (k0 =? k'); [reflexivity|exact IH].
Qed.

Lemma aget_aset {A} (m : amap A) k v k' : aget (aset m k v) k' = if k =? k' then Some v else aget m k'.
Proof.
  unfold aset. cbn [aget]. destruct (k =? k') eqn:E; [reflexivity|].
  apply aget_adel_other. apply Z.eqb_neq in E. congruence.
Qed.

Lemma when_nil c r : Proto.when c r = [] -> c = false.
Proof. destruct c; cbn; [discriminate|reflexivity]. Qed.

Lemma app_nil_l2 {A} (l1 l2 : list A) : l1 ++ l2 = [] -> l1 = [] /\ l2 = [].
Proof. destruct l1; cbn; [auto|discriminate]. Qed.

Lemma aget_In {A} (m : amap A) k v : aget m k = Some v -> In (k, v) m.
Proof.
  induction m as [|[k' v'] m IH]; cbn [aget]; [discriminate|].
  destruct (Z.eqb_spec k' k); [intros E; inversion E; subst; left; reflexivity|intros H; right; auto].
Qed.

Lemma In_adel {A} (m : amap A) k x : In x (map fst (adel m k)) -> x <> k /\ In x (map fst m).
Proof.
  induction m as [|[k' v'] m IH]; cbn [adel map]; [intros []|].
  destruct (Z.eqb_spec k' k).
  - intros H. destruct (IH H). split; [assumption|right; assumption].
  - cbn [map In fst]. intros [H|H]; [subst; split; [assumption|left; reflexivity]|destruct (IH H); split; [assumption|right; assumption]].
Qed.

Lemma NoDup_adel {A} (m : amap A) k : NoDup (map fst m) -> NoDup (map fst (adel m k)).
Proof.
  induction m as [|[k' v'] m IH]; cbn [adel map]; [auto|].
  intros H. inversion H as [|x l Hn Hd]. subst.
  destruct (Z.eqb_spec k' k); [auto|].
  cbn [map fst]. constructor; [|auto]. intros Hin. apply In_adel in Hin. cbn [fst] in Hn. tauto.
Qed.

Lemma NoDup_aset {A} (m : amap A) k v : NoDup (map fst m) -> NoDup (map fst (aset m k v)).
Proof.
  intros H. unfold aset. cbn [map fst]. constructor; [|apply NoDup_adel; exact H].
  intros Hin. apply In_adel in Hin. tauto.
Qed.

Lemma In_aget {A} (m : amap A) k v : NoDup (map fst m) -> In (k, v) m -> aget m k = Some v.
Proof.
  induction m as [|[k' v'] m IH]; cbn [aget map]; [intros _ []|].
  intros H [E|Hin]; inversion H as [|x l Hn Hd]; subst.
  - inversion E. subst. rewrite Z.eqb_refl. reflexivity.
  - destruct (Z.eqb_spec k' k) as [->|Hne]; [|auto].
    exfalso. apply Hn. cbn [fst]. apply (in_map fst) in Hin. exact Hin.
Qed.


#[global] Arguments aget : simpl never.
#[global] Arguments aset : simpl never.
#[global] Arguments adel : simpl never.

(* the value table only grows, and a defined value keeps its decoding *)
Lemma vals_stable b te v x :
  guards0 b te = [] -> aget (b_vals b) v = Some x -> aget (b_vals (bapply b te)) v = Some x.
Proof.
  intros G H. destruct te as [t e]. destruct e; cbn in *;
    try (repeat match goal with |- context [match ?d with _ => _ end] => destruct d end; cbn; assumption).
  (* EValDef *)
  rewrite aget_aset. destruct (v0 =? v) eqn:E; [|exact H].
  apply Z.eqb_eq in E. subst v0. rewrite H in G. cbn in G. discriminate.
Qed.

Lemma sok_defined b v : sok_of b v = true -> exists x, aget (b_vals b) v = Some x.
Proof.
  unfold sok_of, vinfo_of. destruct (aget (b_vals b) v) as [x|]; [eauto|cbn; discriminate].
Qed.

Lemma vinfo_stable b te v :
  guards0 b te = [] -> sok_of b v = true -> vinfo_of (bapply b te) v = vinfo_of b v.
Proof.
  intros G H. destruct (sok_defined _ _ H) as [x Hx].
  unfold vinfo_of. rewrite (vals_stable _ _ _ _ G Hx), Hx. reflexivity.
Qed.

(* configurations are defined once *)
Lemma cfgs_stable b te i c :
  guards0 b te = [] -> aget (b_cfgs b) i = Some c -> aget (b_cfgs (bapply b te)) i = Some c.
Proof.
  intros G H. destruct te as [t e]. destruct e; cbn in *;
    try (repeat match goal with |- context [match ?d with _ => _ end] => destruct d end; cbn; assumption).
  rewrite aget_aset. destruct (i0 =? i) eqn:E; [|exact H].
  apply Z.eqb_eq in E. subst i0. rewrite H in G. cbn in G. discriminate.
Qed.
