(* Proofs/SimStable.v — property C07, one clause as a theorem about every admitted trace in the fast-store environment:
   a leader is never demoted by the heartbeat-failure path. Rule 2080 (that path gives up the claim only after a refresh
   attempt of the running term was not answered with success in time, or is in flight past the loop's time-out) meets
   the invariants of SimLeaseT/SimLeaseC: attempts of a claiming instance succeed, in time. *)
From RecordUpdate Require Import RecordUpdate.
From LE Require Import Base Ev Consts World Mon Proto Env EnvT GenGuards SimBasics SimOwn SimRefresh SimLease SimLeaseT SimLeaseC GuardFacts.
Open Scope Z_scope.
#[local] Arguments Z.mul : simpl never.
#[local] Arguments Z.add : simpl never.
#[local] Arguments Z.sub : simpl never.

Definition KInv (b : base) : Prop :=
  forall i, io_flag (inst_of b i) = true -> 0 <= io_hb_te (inst_of b i) -> io_hb_ok (inst_of b i) = true.

Lemma KInv0 : KInv base0.
Proof. intros i F. cbn in F. discriminate. Qed.

(* the answer to the attempt in flight of a claiming instance is taken as a view: a success, in time *)
Lemma current_view_cond b t i op rk rev val p :
  LInv b -> TInv b -> VInv b -> guards0 b (t, ERet i op rk rev val) = [] -> fastb b t = true -> rk < 10 ->
  aget (b_pend b) op = Some p -> current b i op -> view_cond b t i op rk p = true.
Proof.
  intros IL IT IV G F Hrk Hop C. pose proof C as (Fi & Te & Eo).
  destruct (refresh_succeeds b t i op rk rev val IV G Hrk C) as (Ok & (q & Q1 & Q2 & Q3 & Q4 & Q5)). rewrite Hop in Q1. inversion Q1. subst q rk.
  assert (Hk : p_kind p <> kWatch) by (rewrite (proj1 Q2); discriminate).
  destruct (ret_applied b t i op oOk rev val p Hop G Hrk Hk) as (_ & Dn & _).
  destruct (l_fcfg _ IL i Fi) as [c Hcf]. assert (Ecf : cfg_of b i = c) by (unfold cfg_of; rewrite Hcf; reflexivity).
  destruct (t_cfg _ IT i c Hcf) as (Hpos & _ & _).
  pose proof (fast_pend b t op p F Hop Hk Dn) as Ff. rewrite Q3, Ecf in Ff.
  unfold view_cond. rewrite Eo, Z.eqb_refl. apply Z.ltb_lt in Te. rewrite Te. cbn [andb].
  rewrite (proj1 Q2), (proj2 Q2). change (kUpdate =? kUpdate) with true. change (sHeartbeat =? sHeartbeat) with true. change (oOk =? oOk) with true.
  rewrite Fi. cbn [andb]. change (v_stok (vinfo_of b (p_val p))) with (tok_of b (p_val p)). rewrite Q4, Z.eqb_refl. cbn [andb].
  rewrite Ecf. apply fast_in_time; assumption.
Qed.

Lemma ret_hb_ok b t i op rk rev val p :
  aget (b_pend b) op = Some p ->
  forall j, io_hb_ok (inst_of (bapply b (t, ERet i op rk rev val)) j) =
            (if (i =? j) && view_cond b t i op rk p then true else io_hb_ok (inst_of b j)).
Proof.
  intros Hop j. cbn [bapply]. change (b_pend (b <| b_now := t |>)) with (b_pend b). rewrite Hop. cbv zeta. unfold view_cond.
  set (b1 := b <| b_now := t |> <| b_rets ::= _ |> <| b_done ::= _ |>).
  change (inst_of b1 i) with (inst_of b i).
  assert (E1 : forall k, inst_of b1 k = inst_of b k) by reflexivity.
  destruct ((io_hb_op (inst_of b i) =? op) && (io_hb_te (inst_of b i) <? 0)) eqn:Ecd.
  - set (b2 := upd_inst b1 i (fun x => x <| io_hb_te := t |>)).
    assert (E2 : forall k, inst_of b2 k = if i =? k then inst_of b i <| io_hb_te := t |> else inst_of b k).
    { intros k. unfold b2. rewrite inst_of_upd. reflexivity. }
    assert (Ei2 : inst_of b2 i = inst_of b i <| io_hb_te := t |>) by (rewrite E2, Z.eqb_refl; reflexivity).
    rewrite Ei2.
    change (vinfo_of b2 (p_val p)) with (vinfo_of b (p_val p)). change (cfg_of b2 i) with (cfg_of b i).
    change (io_flag (inst_of b i <| io_hb_te := t |>)) with (io_flag (inst_of b i)).
    change (io_tok (inst_of b i <| io_hb_te := t |>)) with (io_tok (inst_of b i)).
    cbn [andb].
    destruct ((p_kind p =? kUpdate) && (p_inner p =? sHeartbeat) && (rk =? oOk) && io_flag (inst_of b i)
              && (v_stok (vinfo_of b (p_val p)) =? io_tok (inst_of b i)) && (t - p_t p <? hb_update_timeout (ic_H (cfg_of b i)))).
    + rewrite inst_of_upd, !E2. destruct (Z.eqb_spec i j) as [->|Hne]; [rewrite Z.eqb_refl|]; reflexivity.
    + rewrite E2. destruct (Z.eqb_spec i j) as [->|Hne]; reflexivity.
  - cbn [andb]. rewrite E1. destruct (i =? j); reflexivity.
Qed.

Lemma K_issue b t i op kind inner root gid key val exp : KInv b -> KInv (bapply b (t, EIssue i op kind inner root gid key val exp)).
Proof.
  intros K j. destruct (issue_shape3 b t i op kind inner root gid key val exp) as (_ & _ & _ & _ & _ & Hi). rewrite Hi.
  destruct (hbcond b i kind inner val && (i =? j)); [cbn; intros _ Hz; lia|apply K].
Qed.

Lemma K_apply b t op okind rev val : KInv b -> KInv (bapply b (t, EApply op okind rev val)).
Proof.
  intros K j. destruct (aget (b_pend b) op) as [p|] eqn:Hop; [|cbn [bapply]; change (b_pend (b <| b_now := t |>)) with (b_pend b); rewrite Hop; apply K].
  destruct (apply_shape b t op okind rev val p Hop) as (_ & _ & _ & _ & _ & Hi & _). unfold inst_of. rewrite Hi. apply K.
Qed.

Lemma K_ret b t i op rk rev val :
  LInv b -> TInv b -> VInv b -> KInv b -> guards0 b (t, ERet i op rk rev val) = [] -> fastb b t = true -> rk < 10 ->
  KInv (bapply b (t, ERet i op rk rev val)).
Proof.
  intros IL IT IV K G0 F Hrk j.
  destruct (aget (b_pend b) op) as [p|] eqn:Hop; [|cbn [bapply]; change (b_pend (b <| b_now := t |>)) with (b_pend b); rewrite Hop; apply K].
  destruct (ret_shape_hb b t i op rk rev val p Hop) as (_ & Hx). destruct (Hx j) as (Xf & _ & _ & _ & _ & Xe & _). cbv zeta in Xf, Xe.
  rewrite Xf, Xe, (ret_hb_ok b t i op rk rev val p Hop j). intros Fj Te.
  destruct ((i =? j) && (io_hb_op (inst_of b j) =? op) && (io_hb_te (inst_of b j) <? 0)) eqn:Ecd.
  - apply andb_prop in Ecd. destruct Ecd as [Ecd Ete]. apply andb_prop in Ecd. destruct Ecd as [Eij Eop].
    apply Z.eqb_eq in Eij, Eop. apply Z.ltb_lt in Ete. rewrite <- Eij in *.
    assert (C : current b i op) by (unfold current; repeat split; assumption).
    rewrite Z.eqb_refl, (current_view_cond b t i op rk rev val p IL IT IV G0 F Hrk Hop C). reflexivity.
  - destruct ((i =? j) && view_cond b t i op rk p); [reflexivity|apply K; assumption].
Qed.

Lemma K_flag b t i fl cause root gid : KInv b -> guards0 b (t, EFlag i fl cause root gid) = [] -> KInv (bapply b (t, EFlag i fl cause root gid)).
Proof.
  intros K G0 j. cbn [bapply]. destruct (zb fl) eqn:Efl.
  - change (b_rets (b <| b_now := t |>)) with (b_rets b). destruct (aget (b_rets b) gid) eqn:Hg.
    + rewrite inst_of_upd. split_ij j; cbn; [intros; reflexivity|apply K].
    + cbn in G0. rewrite Efl in G0. change (b_rets (b <| b_now := t |>)) with (b_rets b) in G0. rewrite Hg in G0.
      apply app_nil_l2 in G0. destruct G0 as [_ G0]. apply app_nil_l2 in G0. destruct G0 as [_ G0]. apply app_nil_l2 in G0. destruct G0 as [_ G0]. discriminate.
  - rewrite inst_of_upd. split_ij j; cbn; [discriminate|apply K].
Qed.

Lemma K_instdef b t i key H TTL vi gr mh pr tk mo hh hd bt hp :
  KInv b -> KInv (bapply b (t, EInstDef i key H TTL vi gr mh pr tk mo hh hd bt hp)).
Proof.
  intros K j. cbn [bapply]. unfold inst_of. cbn. rewrite aget_aset. destruct (i =? j); [cbn; discriminate|apply K].
Qed.

Lemma K_step b te :
  LInv b -> TInv b -> VInv b -> KInv b -> guards b te = [] -> envC_okb b te = true -> KInv (bapply b te).
Proof.
  intros IL IT IV K G E. pose proof (guards_split _ _ G) as (G0 & _).
  assert (F : fastb b (fst te) = true) by (unfold envC_okb in E; apply andb_prop in E; tauto).
  destruct te as [t e]. cbn [fst] in F.
  destruct e;
    try (apply K_instdef; assumption); try (apply K_issue; assumption); try (apply K_apply; assumption); try (apply K_flag; assumption);
    try (apply K_ret; try assumption; unfold envC_okb in E; apply andb_prop in E; destruct E as [_ E]; cbn in E; apply Z.ltb_lt; exact E);
    (* observations that leave the claim, the refresh clock and its outcome alone *)
    (intros j; cbn [bapply];
     repeat match goal with |- context [if ?c then _ else _] => destruct c end;
     try rewrite inst_of_upd; try split_ij j; cbn; try apply K; try discriminate).
Qed.

(* the observation "the claim is dropped by the heartbeat-failure path" *)
Definition hb_demotion (b : base) (te : Z * ev) : bool :=
  match snd te with
  | EFlag i fl cause _ _ => negb (zb fl) && io_flag (inst_of b i) && (cause =? sHbFail)
  | _ => false
  end.

Lemma no_hb_demotion_flag b t i fl cause root gid :
  LInv b -> TInv b -> KInv b -> guards b (t, EFlag i fl cause root gid) = [] -> fastb b t = true ->
  hb_demotion b (t, EFlag i fl cause root gid) = false.
Proof.
  intros IL IT K G F. pose proof (guards_late _ _ G) as GL.
  unfold hb_demotion. cbn [snd].
  destruct (negb (zb fl) && io_flag (inst_of b i) && (cause =? sHbFail)) eqn:Hd; [exfalso|reflexivity].
  apply andb_prop in Hd. destruct Hd as [Hd Ec]. apply andb_prop in Hd. destruct Hd as [Hfl Fi].
  cbn in GL. apply app_nil_l2 in GL. destruct GL as [_ GL]. apply app_nil_l2 in GL. destruct GL as [_ GL]. apply app_nil_l2 in GL. destruct GL as [_ GL].
  apply app_nil_l2 in GL. destruct GL as [GL _].
  apply pwhen_nil in GL. rewrite Hfl, Fi, Ec in GL. cbn [andb] in GL.
  apply Bool.orb_false_iff in GL. destruct GL as [Gok Gto].
  destruct (Z.ltb_spec (io_hb_te (inst_of b i)) 0) as [Te|Te].
  - (* an attempt is in flight: a fast store does not let it reach the loop's time-out *)
    destruct (l_fcfg _ IL i Fi) as [c Hcf]. assert (Ecf : cfg_of b i = c) by (unfold cfg_of; rewrite Hcf; reflexivity).
    destruct (t_cfg _ IT i c Hcf) as (Hpos & _ & _).
    destruct (t_flag _ IT i Fi) as (_ & Tfly & _). cbv zeta in Tfly. destruct (Tfly Te) as ((p & Hp & Pt & Pd & Pi & Pk) & _).
    assert (Hkw : p_kind p <> kWatch) by (rewrite Pk; discriminate).
    pose proof (fast_pend b t _ p F Hp Hkw Pd) as Ff. rewrite Pi, Ecf, Pt in Ff.
    pose proof (hb_update_tolerates_fast_store (ic_H c) (t - io_hb_ta (inst_of b i)) Hpos Ff) as Lt.
    rewrite Ecf in Gto. cbn [andb] in Gto. apply Z.ltb_ge in Gto. lia.
  - rewrite (K i Fi Te) in Gok. discriminate.
Qed.

Lemma no_hb_demotion b te :
  LInv b -> TInv b -> KInv b -> guards b te = [] -> fastb b (fst te) = true -> hb_demotion b te = false.
Proof.
  intros IL IT K G F. destruct te as [t e]. destruct e; try reflexivity. apply no_hb_demotion_flag; assumption.
Qed.

Lemma admitted_prefix6 tr : forall b, Inv b -> Inv2 b -> LInv b -> TInv b -> ND b -> VInv b -> KInv b ->
  admits b tr = true -> envC_admits b tr = true ->
  forall pre te post, tr = pre ++ te :: post -> hb_demotion (fold_left bapply pre b) te = false.
Proof.
  induction tr as [|x tr IH]; intros b I I2 IL IT N IV K A E pre te post Eq.
  - destruct pre; discriminate.
  - cbn in A, E. destruct (guards b x) eqn:G; [|discriminate]. apply andb_prop in E. destruct E as [E1 E2].
    assert (F : fastb b (fst x) = true) by (unfold envC_okb in E1; apply andb_prop in E1; tauto).
    destruct pre as [|y pre]; cbn in Eq.
    + inversion Eq. subst x post. cbn. apply no_hb_demotion; assumption.
    + inversion Eq. subst y. cbn [fold_left].
      pose proof (envC_envT b x IV G E1) as ET.
      pose proof (envT_env b x I2 IL IT N G ET) as E0.
      pose proof (L_step b x I I2 IL G E0) as IL'.
      pose proof (T_step b x I2 IL IT G ET) as IT'.
      assert (Hrk : match snd x with ERet _ _ rk _ _ => rk < 10 | _ => True end).
      { unfold envC_okb in E1. apply andb_prop in E1. destruct E1 as [_ E1]. destruct (snd x); try exact Logic.I. apply Z.ltb_lt. exact E1. }
      pose proof (V_step b x I I2 IL IT IV G E0 F Hrk) as IV'.
      pose proof (K_step b x IL IT IV K G E1) as K'.
      apply guards_split in G. destruct G as [G _].
      eapply IH; eauto; [apply Inv_step|apply Inv2_step|apply ND_step]; assumption.
Qed.

Theorem C07_never_demoted_by_refresh_failure tr :
  admits base0 tr = true -> envC_admits base0 tr = true ->
  forall pre te post, tr = pre ++ te :: post -> hb_demotion (brun pre) te = false.
Proof.
  intros A E pre te post Eq.
  apply (admitted_prefix6 tr base0 Inv0 Inv2_0 LInv0 TInv0 ND0 VInv0 KInv0 A E pre te post Eq).
Qed.
