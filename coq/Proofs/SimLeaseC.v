(* Proofs/SimLeaseC.v — the last step of C02 in the fast-store environment: a refresh attempt of a claiming instance
   is answered with success. With it the hypothesis "refreshes succeed" leaves the environment predicate
   (EnvT.envC_okb is EnvT.envT_okb without that clause).

   Why a refresh of a claiming instance i cannot fail: while i claims, only i's own refreshes can write its key
   (SimLease.L_apply). The attempt in flight goes against the head of i's views (rule 2074), which is the key's latest
   revision (invariant below), so it succeeds - unless another refresh of i slipped in. Attempts of the running term are
   sequential (rule 2073 + fast store), and attempts left over from earlier terms expect a revision older than the write
   the running term rests on: they were issued before that write was applied, because between its application and the
   claim the instance does not claim (two winning writes of one instance carry different tokens, but both would have to
   be the one live record), and only a claiming instance refreshes (rule 2075). *)
From RecordUpdate Require Import RecordUpdate.
From LE Require Import Base Ev Consts World Mon Proto Env EnvT GenGuards SimBasics SimOwn SimRefresh SimLease SimLeaseT GuardFacts.
Open Scope Z_scope.
#[local] Arguments Z.mul : simpl never.
#[local] Arguments Z.add : simpl never.
#[local] Arguments Z.sub : simpl never.

Definition is_hb (q : pend) : Prop := p_kind q = kUpdate /\ p_inner q = sHeartbeat.

(* the refresh attempt in flight of a claiming instance *)
Definition current (b : base) (i op : Z) : Prop :=
  io_flag (inst_of b i) = true /\ io_hb_te (inst_of b i) < 0 /\ io_hb_op (inst_of b i) = op.

(* every other refresh of i still to be applied expects a revision below R *)
Definition stale (b : base) (i R : Z) : Prop :=
  forall op q, aget (b_pend b) op = Some q -> is_hb q -> p_i q = i -> p_applied q = None -> ~ current b i op -> p_exp q < R.

Record VInv (b : base) : Prop := mkV {
  v_hbonly : forall op p, aget (b_pend b) op = Some p -> p_kind p = kUpdate -> p_inner p = sHeartbeat;
  v_tokd : forall op1 c1 op2 c2, aget (b_pend b) op1 = Some c1 -> aget (b_pend b) op2 = Some c2 ->
      p_kind c1 = kCreate -> p_kind c2 = kCreate -> tok_of b (p_val c1) = tok_of b (p_val c2) -> op1 = op2;
  v_win : forall op c r v ta, aget (b_pend b) op = Some c -> p_kind c = kCreate -> p_applied c = Some (oOk, r, v, ta) -> is_done b op = false ->
      last_rev_of b (p_key c) = r /\ stale b (p_i c) r;
  v_ret : forall g r, aget (b_rets b) g = Some r -> lr_won r = true -> lr_t r = b_now b -> io_acq_rev (inst_of b (lr_i r)) < lr_rev r ->
      lr_kind r = kCreate /\ last_rev_of b (lr_key r) = lr_rev r /\ stale b (lr_i r) (lr_rev r) /\ io_flag (inst_of b (lr_i r)) = false /\
      (exists op c, aget (b_pend b) op = Some c /\ p_kind c = kCreate /\ p_i c = lr_i r /\ tok_of b (p_val c) = tok_of b (lr_val r) /\ is_done b op = true);
  v_flag : forall i, io_flag (inst_of b i) = true ->
      let x := inst_of b i in let k := ic_key (cfg_of b i) in
      io_acq_rev x <= last_rev_of b k /\ stale b i (io_acq_rev x) /\
      (exists opx cx, aget (b_pend b) opx = Some cx /\ p_kind cx = kCreate /\ p_i cx = i /\ tok_of b (p_val cx) = io_tok x /\ is_done b opx = true) /\
      (exists rh rest, io_views x = (io_tok x, rh) :: rest /\
         (0 <= io_hb_te x -> last_rev_of b k = rh) /\
         (io_hb_te x < 0 -> exists p, aget (b_pend b) (io_hb_op x) = Some p /\ p_exp p = rh /\ tok_of b (p_val p) = io_tok x /\ is_hb p /\ p_key p = k /\ p_i p = i /\
              match p_applied p with None => last_rev_of b k = rh | Some (ok, r', _, _) => ok = oOk /\ last_rev_of b k = r' end))
}.

Lemma VInv0 : VInv base0.
Proof. constructor; cbn; intros; try discriminate. Qed.

(* the spec's time-out, too, exceeds every answer time of a fast store *)
Lemma fast_in_time H d : 0 < H -> 2 * d + 1 < H -> (d <? hb_update_timeout H) = true.
Proof.
  intros Hp Hd. apply Z.ltb_lt. rewrite <- hb_update_timeout_agree. apply hb_update_tolerates_fast_store; assumption.
Qed.

(* ---------------------------------------------------------------- consequences *)
Lemma live_val_fun b k r1 v1 r2 v2 : live_val b k = Some (r1, v1) -> live_val b k = Some (r2, v2) -> r1 = r2 /\ v1 = v2.
Proof. intros A B. rewrite A in B. inversion B. auto. Qed.

Lemma holds_tok b k i tk1 tk2 : holds b k i tk1 -> holds b k i tk2 -> tk1 = tk2.
Proof.
  intros (r1 & v1 & A1 & _ & _ & T1) (r2 & v2 & A2 & _ & _ & T2). destruct (live_val_fun _ _ _ _ _ _ A1 A2) as [_ E]. subst. reflexivity.
Qed.

(* while a winning write of an instance is applied and has not returned, the instance does not claim *)
Lemma no_claim_in_window b op c r v ta :
  Inv2 b -> LInv b -> VInv b ->
  aget (b_pend b) op = Some c -> p_kind c = kCreate -> p_applied c = Some (oOk, r, v, ta) -> is_done b op = false ->
  io_flag (inst_of b (p_i c)) = false.
Proof.
  intros I2 IL IV Hc Kc Ea Hd. destruct (io_flag (inst_of b (p_i c))) eqn:F; [exfalso|reflexivity].
  destruct (i2_key _ I2 op c Hc) as [Kk _].
  assert (W : wonkind c = true) by (unfold wonkind; rewrite Kc; reflexivity).
  assert (A : applied_ok c = true) by (unfold applied_ok; rewrite Ea; reflexivity).
  pose proof (l_holds _ IL _ _ _ (cl_win b (b_now b) (p_key c) (p_i c) _ op c Hc W A Hd eq_refl eq_refl eq_refl)) as H1.
  pose proof (l_holds _ IL _ _ _ (cl_flag b (b_now b) (p_key c) (p_i c) _ (eq_sym Kk) F eq_refl)) as H2.
  pose proof (holds_tok _ _ _ _ _ H1 H2) as Et.
  destruct (v_flag _ IV (p_i c) F) as (_ & _ & (opx & cx & Hx & Kx & Ix & Tx & Dx) & _).
  assert (E : op = opx) by (apply (v_tokd _ IV op c opx cx); auto; congruence).
  subst opx. congruence.
Qed.

(* ---------------------------------------------------------------- frames *)
Definition term_same (x' x : iobs) : Prop :=
  io_tok x' = io_tok x /\ io_views x' = io_views x /\ io_hb_te x' = io_hb_te x /\ io_hb_op x' = io_hb_op x.

Lemma last_rev_same b b' k : b_last b' = b_last b -> last_rev_of b' k = last_rev_of b k.
Proof. intros H. unfold last_rev_of, last_of. rewrite H. reflexivity. Qed.

Lemma is_done_same b b' op : b_done b' = b_done b -> is_done b' op = is_done b op.
Proof. intros H. unfold is_done. rewrite H. reflexivity. Qed.

(* observations that leave the call tables, the bucket and the tables alone and per instance keep the term data; they
   may clear a claim *)
Lemma V_frame b b' :
  Inv b -> Inv2 b -> LInv b ->
  b_now b <= b_now b' -> b_pend b' = b_pend b -> b_rets b' = b_rets b -> b_done b' = b_done b -> b_last b' = b_last b ->
  (forall v, sok_of b v = true -> vinfo_of b' v = vinfo_of b v) -> b_cfgs b' = b_cfgs b ->
  (forall i, io_acq_rev (inst_of b' i) = io_acq_rev (inst_of b i)) ->
  (forall i, io_flag (inst_of b' i) = true -> io_flag (inst_of b i) = true /\ term_same (inst_of b' i) (inst_of b i)) ->
  VInv b -> VInv b'.
Proof.
  intros I I2 IL Hn Hp Hr Hd Hl Hv Hc Ha Hf IV.
  pose proof (l_time _ IL) as Ht.
  assert (Et : forall v, sok_of b v = true -> tok_of b' v = tok_of b v) by (intros v S; unfold tok_of; rewrite (Hv v S); reflexivity).
  assert (Etc : forall op c, aget (b_pend b) op = Some c -> p_kind c = kCreate -> tok_of b' (p_val c) = tok_of b (p_val c)).
  { intros op c A K. apply Et. destruct (inv_create _ I op c A K) as (S & _). exact S. }
  assert (El : forall k, last_rev_of b' k = last_rev_of b k) by (intros; apply last_rev_same; exact Hl).
  assert (Ed : forall op, is_done b' op = is_done b op) by (intros; apply is_done_same; exact Hd).
  assert (Ec : forall i, cfg_of b' i = cfg_of b i) by (intros; apply cfg_same; exact Hc).
  assert (St : forall i R, (io_flag (inst_of b i) = true -> io_flag (inst_of b' i) = true) -> stale b i R -> stale b' i R).
  { intros i R Hk S op q A Hh Hi Hn' Hnc. rewrite Hp in A. apply (S op q A Hh Hi Hn').
    intros (F & E & O). apply Hnc. specialize (Hk F). destruct (Hf i Hk) as (_ & _ & _ & E1 & E2).
    unfold current. rewrite E1, E2. auto. }
  destruct IV as [V1 V2 V3 V4 V5].
  constructor.
  - intros op p. rewrite Hp. apply V1.
  - intros op1 c1 op2 c2. rewrite Hp. intros A1 A2 K1 K2. rewrite (Etc _ _ A1 K1), (Etc _ _ A2 K2). apply V2; assumption.
  - intros op c r v ta. rewrite Hp, Ed, El. intros A K Ea D. destruct (V3 op c r v ta A K Ea D) as [X Y]. split; [exact X|].
    apply St; [|exact Y]. intros F. pose proof (no_claim_in_window b op c r v ta I2 IL (mkV b V1 V2 V3 V4 V5) A K Ea D). congruence.
  - intros g r. rewrite Hr, Ha, El. intros A W T Hlt.
    assert (Tn : lr_t r = b_now b) by (pose proof (Ht g r A); lia).
    destruct (V4 g r A W Tn Hlt) as (K & X & Y & F & (op & c & Z1 & Z2 & Z3 & Z4 & Z5)).
    split; [exact K|]. split; [exact X|]. split; [apply St; [intros F'; congruence|exact Y]|]. split.
    + destruct (io_flag (inst_of b' (lr_i r))) eqn:F'; [destruct (Hf _ F'); congruence|reflexivity].
    + exists op, c. rewrite Hp, Ed, (Etc _ _ Z1 Z2), (Et _ (lr_won_sok b g r I2 A W)). auto.
  - intros i F. destruct (Hf i F) as (F0 & E1 & E2 & E3 & E4). cbv zeta. rewrite Ha, E1, E2, E3, E4, Ec, El.
    destruct (V5 i F0) as (X & Y & (opx & cx & Z1 & Z2 & Z3 & Z4 & Z5) & (rh & rest & W1 & W2 & W3)). cbv zeta in X, Y, Z4, W1, W2, W3.
    split; [exact X|]. split; [apply St; [intros _; exact F|exact Y]|]. split.
    + exists opx, cx. rewrite Hp, Ed, (Etc _ _ Z1 Z2). auto.
    + exists rh, rest. split; [exact W1|split; [exact W2|]]. intros Ee. destruct (W3 Ee) as (p & P1 & P2 & P3 & P4 & P5 & P6 & P7).
      exists p. rewrite Hp. destruct (i2_payload _ I2 _ p P1 (proj1 P4)) as [S _]. rewrite (Et _ S). repeat split; auto; try apply P4.
Qed.

(* ---------------------------------------------------------------- a new instance *)
Lemma V_instdef b t i key H TTL vi gr mh pr tk mo hh hd bt hp :
  Inv2 b -> LInv b -> VInv b -> b_now b <= t ->
  guards0 b (t, EInstDef i key H TTL vi gr mh pr tk mo hh hd bt hp) = [] ->
  VInv (bapply b (t, EInstDef i key H TTL vi gr mh pr tk mo hh hd bt hp)).
Proof.
  intros I2 IL [V1 V2 V3 V4 V5] Hn G.
  cbn in G. destruct (aget (b_cfgs b) i) eqn:Hci; [discriminate|]. clear G.
  cbn [bapply]. match goal with |- VInv ?x => set (b' := x) end.
  assert (Hi : forall j, inst_of b' j = if i =? j then iobs0 else inst_of b j).
  { intros j. unfold inst_of. unfold b'. cbn. rewrite aget_aset. destruct (i =? j); reflexivity. }
  assert (Ec : forall j, j <> i -> cfg_of b' j = cfg_of b j).
  { intros j Hne. unfold cfg_of, b'. cbn. rewrite aget_aset. destruct (Z.eqb_spec i j); [congruence|reflexivity]. }
  (* whoever has a call in flight, an answered call or a claim is configured, hence is not the new instance *)
  assert (Np : forall op p, aget (b_pend b) op = Some p -> p_i p <> i).
  { intros op p A E. destruct (i2_key _ I2 op p A) as [_ [c Hc]]. rewrite E in Hc. congruence. }
  assert (Cur : forall j op, j <> i -> (current b' j op <-> current b j op)).
  { intros j op Hne. unfold current. rewrite Hi. destruct (Z.eqb_spec i j); [congruence|tauto]. }
  assert (St : forall j R, j <> i -> stale b j R -> stale b' j R).
  { intros j R Hne S op q A Hh Hj Hn' Hnc. apply (S op q A Hh Hj Hn'). intros C. apply Hnc. apply Cur; assumption. }
  constructor.
  - exact V1.
  - exact V2.
  - intros op c r v ta A K Ea D. destruct (V3 op c r v ta A K Ea D) as [X Y]. split; [exact X|]. apply St; [apply (Np op c A)|exact Y].
  - intros g r A W T Hlt. destruct (l_rcfg _ IL g r A) as [c Hc].
    assert (Hne : lr_i r <> i) by (intros E; rewrite E in Hc; congruence).
    rewrite Hi in Hlt |- *. destruct (Z.eqb_spec i (lr_i r)) as [E|_]; [congruence|].
    pose proof (l_time _ IL g r A) as Lt. change (b_now b') with t in T.
    assert (Tn : lr_t r = b_now b) by lia.
    destruct (V4 g r A W Tn Hlt) as (K & X & Y & F & Z0). split; [exact K|]. split; [exact X|]. split; [apply St; assumption|]. split; [exact F|exact Z0].
  - intros j F. rewrite Hi in F |- *. destruct (Z.eqb_spec i j) as [E|Hne]; [cbn in F; discriminate|].
    assert (Hne' : j <> i) by congruence. cbv zeta. rewrite (Ec j Hne').
    destruct (V5 j F) as (X & Y & Z0 & W). split; [exact X|]. split; [apply St; assumption|]. split; [exact Z0|exact W].
Qed.

(* ---------------------------------------------------------------- a call is issued *)
(* a refresh is issued by a claiming instance, with its token, against the head of its views, and only when the
   previous attempt has been answered (it cannot have timed out under a fast store) *)
Lemma refresh_issue_facts b t i op root gid key val exp :
  TInv b -> guards b (t, EIssue i op kUpdate sHeartbeat root gid key val exp) = [] -> fastb b t = true ->
  io_flag (inst_of b i) = true /\ tok_of b val = io_tok (inst_of b i) /\ 0 <= io_hb_te (inst_of b i) /\
  exists rest, io_views (inst_of b i) = (io_tok (inst_of b i), exp) :: rest.
Proof.
  intros IT G F. destruct (guards_urgency _ _ G) as (_ & _ & Go & _). cbn [fst] in *.
  apply guards_split in G. destruct G as (G & _).
  cbn in Go.
  destruct (io_flag (inst_of b i) && (tok_of b val =? io_tok (inst_of b i))) eqn:Hb; [|discriminate].
  apply andb_prop in Hb. destruct Hb as [Hfl Htok]. apply Z.eqb_eq in Htok.
  apply app_nil_l2 in Go. destruct Go as [Go1 Go2]. apply pwhen_nil in Go1. apply pwhen_nil in Go2.
  apply Bool.negb_false_iff in Go1, Go2.
  split; [exact Hfl|]. split; [exact Htok|]. split.
  - apply Bool.orb_true_iff in Go1. destruct Go1 as [Go1|Go1]; [apply Z.leb_le in Go1; exact Go1|]. apply Z.leb_le in Go1.
    destruct (Z.ltb_spec (io_hb_te (inst_of b i)) 0) as [Ee|Ee]; [|exact Ee]. exfalso.
    destruct (t_flag _ IT i Hfl) as (_ & Tfly & _). cbv zeta in Tfly.
    destruct (Tfly Ee) as ((p & Hpp & Pt & Pd & Pi & Pk) & _).
    assert (Hkw : p_kind p <> kWatch) by (rewrite Pk; discriminate).
    pose proof (fast_pend b t _ p F Hpp Hkw Pd) as Ff. rewrite Pi, Pt in Ff.
    assert (Hcfg : exists c, aget (b_cfgs b) i = Some c).
    { cbn in G. apply app_nil_l2 in G. destruct G as [_ G]. apply app_nil_l2 in G. destruct G as [_ G]. apply app_nil_l2 in G. destruct G as [_ G].
      destruct (aget (b_cfgs b) i); [eauto|discriminate]. }
    destruct Hcfg as [c Hcf]. assert (Ecf : cfg_of b i = c) by (unfold cfg_of; rewrite Hcf; reflexivity).
    destruct (t_cfg _ IT i c Hcf) as (Hpos & _ & _). rewrite Ecf in *.
    pose proof (timeout_ge_half (ic_H c) Hpos). lia.
  - destruct (io_views (inst_of b i)) as [|[tk r] rest]; [discriminate|].
    apply andb_prop in Go2. destruct Go2 as [A B]. apply Z.eqb_eq in A, B. subst. eauto.
Qed.

Lemma update_is_refresh b t i op inner root gid key val exp :
  LInv b -> guards0 b (t, EIssue i op kUpdate inner root gid key val exp) = [] -> inner = sHeartbeat.
Proof.
  intros IL G. cbn in G. apply app_nil_l2 in G. destruct G as [_ G]. apply app_nil_l2 in G. destruct G as [_ G].
  apply app_nil_l2 in G. destruct G as [G _].
  change (kUpdate =? kCreate) with false in G. change (kUpdate =? kUpdate) with true in G. cbn iota in G.
  destruct (Z.eqb_spec inner sHeartbeat) as [E|_]; [exact E|].
  destruct (Z.eqb_spec inner sTakeover) as [_|_]; [|discriminate].
  apply pwhen_nil in G. apply Bool.negb_false_iff in G.
  destruct (takeover_ok_spec _ _ _ _ _ G) as (r & _ & _ & _ & _ & _ & _ & _ & _ & T & _).
  exfalso. unfold cfg_of in T. destruct (aget (b_cfgs b) i) as [c|] eqn:Hc; [rewrite (l_notk _ IL _ _ Hc) in T|cbn in T]; discriminate.
Qed.

Lemma create_is_fresh b t i op inner root gid key val exp op1 c1 :
  Inv b -> guards0 b (t, EIssue i op kCreate inner root gid key val exp) = [] ->
  aget (b_pend b) op1 = Some c1 -> p_kind c1 = kCreate -> tok_of b (p_val c1) <> tok_of b val.
Proof.
  intros I G A K E.
  cbn in G. apply app_nil_l2 in G. destruct G as [_ G]. apply app_nil_l2 in G. destruct G as [_ G].
  apply app_nil_l2 in G. destruct G as [G _].
  change (kCreate =? kCreate) with true in G. cbn iota in G. apply app_nil_l2 in G. destruct G as [_ G].
  apply pwhen_nil in G. apply Bool.negb_false_iff in G. unfold fresh_payload in G. apply andb_prop in G. destruct G as [G1 G2].
  destruct (inv_create _ I op1 c1 A K) as (S & _).
  destruct (sok_defined _ _ S) as [x Hx].
  rewrite forallb_forall in G2. specialize (G2 (p_val c1, x) (aget_In _ _ _ Hx)). cbn [fst snd] in G2.
  assert (Ex : v_stok x = tok_of b (p_val c1)) by (unfold tok_of, vinfo_of; rewrite Hx; reflexivity).
  rewrite Ex, E, Z.eqb_refl in G2. cbn in G2. rewrite Bool.orb_false_r in G2. apply Z.eqb_eq in G2.
  apply Bool.negb_true_iff in G1.
  assert (X : existsb (fun o => p_val (snd o) =? val) (b_pend b) = true).
  { apply existsb_exists. exists (op1, c1). split; [apply aget_In; exact A|]. cbn. apply Z.eqb_eq. exact G2. }
  congruence.
Qed.

Lemma V_issue b t i op kind inner root gid key val exp :
  Inv b -> Inv2 b -> LInv b -> TInv b -> VInv b ->
  guards b (t, EIssue i op kind inner root gid key val exp) = [] -> fastb b t = true ->
  VInv (bapply b (t, EIssue i op kind inner root gid key val exp)).
Proof.
  intros I I2 IL IT IV G F.
  pose proof (guards_urgency _ _ G) as (_ & _ & _ & Hn). cbn [fst] in Hn.
  pose proof (guards_split _ _ G) as (G0 & _).
  destruct (issue_shape b t i op kind inner root gid key val exp) as (Hp & _).
  destruct (issue_shape2 b t i op kind inner root gid key val exp) as (_ & _ & _ & Hl & _).
  destruct (issue_shape3 b t i op kind inner root gid key val exp) as (Ht & Hr & Hd & _ & Hc & Hi).
  set (b' := bapply b (t, EIssue i op kind inner root gid key val exp)) in *.
  set (q := mkPend i kind inner root gid key val exp t None) in *.
  assert (Hnew : aget (b_pend b) op = None).
  { cbn in G0. apply app_nil_l2 in G0. destruct G0 as [G0 _]. destruct (aget (b_pend b) op); [discriminate|reflexivity]. }
  assert (Hv : b_vals b' = b_vals b).
  { destruct (issue_shape2 b t i op kind inner root gid key val exp) as (_ & _ & _ & _ & X & _). exact X. }
  assert (Et : forall v, tok_of b' v = tok_of b v) by (intros; apply tok_same; exact Hv).
  assert (El : forall k, last_rev_of b' k = last_rev_of b k) by (intros; apply last_rev_same; exact Hl).
  assert (Ed : forall o, is_done b' o = is_done b o) by (intros; apply is_done_same; exact Hd).
  assert (Ec : forall j, cfg_of b' j = cfg_of b j) by (intros; apply cfg_same; exact Hc).
  assert (Hold : forall o p, aget (b_pend b) o = Some p -> aget (b_pend b') o = Some p).
  { intros o p A. rewrite Hp. destruct (Z.eqb_spec op o) as [E|_]; [subst o; congruence|exact A]. }
  assert (Hinv : forall o p, aget (b_pend b') o = Some p -> (o = op /\ p = q) \/ aget (b_pend b) o = Some p).
  { intros o p. rewrite Hp. destruct (Z.eqb_spec op o) as [E|_]; [intros X; inversion X; auto|auto]. }
  pose proof (l_time _ IL) as Ltime.
  destruct IV as [V1 V2 V3 V4 V5]. pose proof (mkV b V1 V2 V3 V4 V5) as IV.
  destruct (Z.eqb_spec kind kUpdate) as [Ku|Ku].
  - (* a refresh *)
    subst kind. pose proof (update_is_refresh _ _ _ _ _ _ _ _ _ _ IL G0) as Ein. subst inner.
    destruct (refresh_issue_facts b t i op root gid key val exp IT G F) as (Fi & Tk & Te & (rest & Hviews)).
    assert (Hb : hbcond b i kUpdate sHeartbeat val = true).
    { unfold hbcond. change (kUpdate =? kUpdate) with true. change (sHeartbeat =? sHeartbeat) with true. rewrite Fi. cbn [andb].
      apply Z.eqb_eq. exact Tk. }
    rewrite Hb in Hi. cbn [andb] in Hi.
    assert (Kq : key = ic_key (cfg_of b i)).
    { cbn in G0. apply app_nil_l2 in G0. destruct G0 as [_ G0]. apply app_nil_l2 in G0. destruct G0 as [G0 _].
      apply pwhen_nil in G0. apply Bool.negb_false_iff in G0. apply Z.eqb_eq in G0. exact G0. }
    (* before, no attempt of i was in flight *)
    assert (Nc : forall o, ~ current b i o) by (intros o (_ & E & _); lia).
    assert (Cur : forall j o, current b' j o <-> (if i =? j then o = op else current b j o)).
    { intros j o. unfold current. rewrite Hi. destruct (Z.eqb_spec i j) as [E|E]; [subst j; cbn|tauto].
      split; [intros (_ & _ & X); auto|intros X; repeat split; auto; lia]. }
    assert (St : forall j R, stale b j R -> stale b' j R).
    { intros j R S o p A Hh Hj Hn' Hnc. destruct (Hinv o p A) as [[Eo Ep]|A0].
      - subst o p. cbn in Hj. subst j. exfalso. apply Hnc. apply Cur. rewrite Z.eqb_refl. reflexivity.
      - apply (S o p A0 Hh Hj Hn'). intros C. apply Hnc. apply Cur. destruct (Z.eqb_spec i j) as [E|E]; [exfalso; rewrite <- E in C; apply (Nc o C)|exact C]. }
    constructor.
    + intros o p A Kp. destruct (Hinv o p A) as [[Eo Ep]|A0]; [subst p; reflexivity|apply (V1 o p A0 Kp)].
    + intros o1 c1 o2 c2 A1 A2 K1 K2. rewrite !Et.
      destruct (Hinv o1 c1 A1) as [[E1 P1]|B1]; [subst c1; discriminate|]. destruct (Hinv o2 c2 A2) as [[E2 P2]|B2]; [subst c2; discriminate|].
      apply (V2 o1 c1 o2 c2 B1 B2 K1 K2).
    + intros o c r v ta A K Ea D. destruct (Hinv o c A) as [[Eo Ep]|A0]; [subst c; discriminate|].
      rewrite Ed in D. rewrite El. destruct (V3 o c r v ta A0 K Ea D) as [X Y]. split; [exact X|apply St; exact Y].
    + intros g r. rewrite Hr, El. intros A W T Hlt.
      assert (Ea : io_acq_rev (inst_of b' (lr_i r)) = io_acq_rev (inst_of b (lr_i r))) by (rewrite Hi; destruct (Z.eqb_spec i (lr_i r)) as [E|E]; [rewrite <- E; reflexivity|reflexivity]).
      rewrite Ea in Hlt. rewrite Ht in T. assert (Tn : lr_t r = b_now b) by (pose proof (Ltime g r A); lia).
      destruct (V4 g r A W Tn Hlt) as (K & X & Y & Fl & (o & c & Z1 & Z2 & Z3 & Z4 & Z5)).
      split; [exact K|]. split; [exact X|]. split; [apply St; exact Y|]. split.
      * rewrite Hi. destruct (Z.eqb_spec i (lr_i r)) as [E|_]; [rewrite <- E in Fl; congruence|exact Fl].
      * exists o, c. rewrite (Hold _ _ Z1), Ed, !Et. auto.
    + intros j Fj. rewrite Hi in Fj |- *. cbv zeta. rewrite Ec, El.
      destruct (Z.eqb_spec i j) as [E|E].
      * subst j. destruct (V5 i Fi) as (X & Y & (opx & cx & Z1 & Z2 & Z3 & Z4 & Z5) & (rh & rest' & W1 & W2 & W3)). cbv zeta in X, Y, Z4, W1, W2, W3.
        rewrite Hviews in W1. inversion W1. subst rh rest'.
        change (io_acq_rev (inst_of b i <| io_hb_ta := t |> <| io_hb_te := -1 |> <| io_hb_op := op |> <| io_hb_ok := false |>)) with (io_acq_rev (inst_of b i)).
        change (io_tok (inst_of b i <| io_hb_ta := t |> <| io_hb_te := -1 |> <| io_hb_op := op |> <| io_hb_ok := false |>)) with (io_tok (inst_of b i)).
        change (io_views (inst_of b i <| io_hb_ta := t |> <| io_hb_te := -1 |> <| io_hb_op := op |> <| io_hb_ok := false |>)) with (io_views (inst_of b i)).
        change (io_hb_te (inst_of b i <| io_hb_ta := t |> <| io_hb_te := -1 |> <| io_hb_op := op |> <| io_hb_ok := false |>)) with (-1).
        change (io_hb_op (inst_of b i <| io_hb_ta := t |> <| io_hb_te := -1 |> <| io_hb_op := op |> <| io_hb_ok := false |>)) with op.
        split; [exact X|]. split; [apply St; exact Y|]. split.
        -- exists opx, cx. rewrite (Hold _ _ Z1), Ed, Et. auto.
        -- exists exp, rest. split; [exact Hviews|]. split; [intros; lia|]. intros _.
           exists q. rewrite Hp, Z.eqb_refl, Et. unfold q. cbn. repeat split; auto.
      * destruct (V5 j Fj) as (X & Y & (opx & cx & Z1 & Z2 & Z3 & Z4 & Z5) & (rh & rest' & W1 & W2 & W3)). cbv zeta in X, Y, Z4, W1, W2, W3.
        split; [exact X|]. split; [apply St; exact Y|]. split.
        -- exists opx, cx. rewrite (Hold _ _ Z1), Ed, Et. auto.
        -- exists rh, rest'. split; [exact W1|]. split; [exact W2|]. intros Ee. destruct (W3 Ee) as (p & P1 & P2 & P3 & P4 & P5 & P6 & P7).
           exists p. rewrite (Hold _ _ P1), Et. repeat split; auto; try apply P4.
  - (* any other call: the instances are untouched *)
    assert (Hb : hbcond b i kind inner val = false).
    { unfold hbcond. destruct (Z.eqb_spec kind kUpdate); [contradiction|reflexivity]. }
    rewrite Hb in Hi. cbn [andb] in Hi.
    assert (Nh : ~ is_hb q) by (intros [X _]; cbn in X; contradiction).
    assert (Cur : forall j o, current b' j o <-> current b j o) by (intros; unfold current; rewrite Hi; tauto).
    assert (St : forall j R, stale b j R -> stale b' j R).
    { intros j R S o p A Hh Hj Hn' Hnc. destruct (Hinv o p A) as [[Eo Ep]|A0]; [subst p; contradiction|].
      apply (S o p A0 Hh Hj Hn'). intros C. apply Hnc. apply Cur. exact C. }
    constructor.
    + intros o p A Kp. destruct (Hinv o p A) as [[Eo Ep]|A0]; [subst p; cbn in Kp; contradiction|apply (V1 o p A0 Kp)].
    + intros o1 c1 o2 c2 A1 A2 K1 K2. rewrite !Et. intros Etok.
      destruct (Hinv o1 c1 A1) as [[E1 P1]|B1]; destruct (Hinv o2 c2 A2) as [[E2 P2]|B2].
      * congruence.
      * exfalso. subst c1. cbn in K1, Etok. subst kind. apply (create_is_fresh b t i op inner root gid key val exp o2 c2 I G0 B2 K2). congruence.
      * exfalso. subst c2. cbn in K2, Etok. subst kind. apply (create_is_fresh b t i op inner root gid key val exp o1 c1 I G0 B1 K1). congruence.
      * apply (V2 o1 c1 o2 c2 B1 B2 K1 K2 Etok).
    + intros o c r v ta A K Ea D. destruct (Hinv o c A) as [[Eo Ep]|A0]; [subst c; discriminate|].
      rewrite Ed in D. rewrite El. destruct (V3 o c r v ta A0 K Ea D) as [X Y]. split; [exact X|apply St; exact Y].
    + intros g r. rewrite Hr, El, Hi. intros A W T Hlt.
      rewrite Ht in T. assert (Tn : lr_t r = b_now b) by (pose proof (Ltime g r A); lia).
      destruct (V4 g r A W Tn Hlt) as (K & X & Y & Fl & (o & c & Z1 & Z2 & Z3 & Z4 & Z5)).
      split; [exact K|]. split; [exact X|]. split; [apply St; exact Y|]. split; [exact Fl|].
      exists o, c. rewrite (Hold _ _ Z1), Ed, !Et. auto.
    + intros j Fj. rewrite Hi in Fj |- *. cbv zeta. rewrite Ec, El.
      destruct (V5 j Fj) as (X & Y & (opx & cx & Z1 & Z2 & Z3 & Z4 & Z5) & (rh & rest' & W1 & W2 & W3)). cbv zeta in X, Y, Z4, W1, W2, W3.
      split; [exact X|]. split; [apply St; exact Y|]. split.
      * exists opx, cx. rewrite (Hold _ _ Z1), Ed, Et. auto.
      * exists rh, rest'. split; [exact W1|]. split; [exact W2|]. intros Ee. destruct (W3 Ee) as (p & P1 & P2 & P3 & P4 & P5 & P6 & P7).
        exists p. rewrite (Hold _ _ P1), Et. repeat split; auto; try apply P4.
Qed.

(* ---------------------------------------------------------------- a call takes effect *)
Lemma hb_apply_claimant b op p k i tk :
  Inv b -> Inv2 b -> holds b k i tk -> aget (b_pend b) op = Some p -> is_hb p -> p_applied p = None ->
  p_key p = k -> p_exp p = last_rev_of b k -> p_i p = i /\ tok_of b (p_val p) = tk.
Proof.
  intros I I2 (r & v & Lv & S1 & S2 & S3) Hop [Ku Eh] Hnone Kk Ee.
  assert (El : last_of b k = Some (r, v, false)).
  { unfold live_val in Lv. destruct (last_of b k) as [[[r0 v0] [|]]|]; try discriminate. inversion Lv. reflexivity. }
  unfold last_rev_of in Ee. rewrite El in Ee.
  destruct (i2_hb _ I2 op p Hop Ku Eh Hnone) as (pv & Hby & P1 & P2 & P3).
  pose proof (inv_last _ I _ _ _ _ El) as Hin. rewrite <- Ee, <- Kk in Hin.
  destruct (in_hist_uniq _ _ _ _ _ _ _ I Hin (in_hist_by_in_hist _ _ _ _ _ Hby)) as [Ev _]. subst pv.
  split; congruence.
Qed.

Lemma exp_le_seq b op q : Inv b -> Inv2 b -> aget (b_pend b) op = Some q -> is_hb q -> p_applied q = None -> p_exp q <= b_seq b.
Proof.
  intros I I2 A [Ku Eh] Hn. destruct (i2_hb _ I2 op q A Ku Eh Hn) as (pv & (x & Hx & _ & Xr & _) & _).
  pose proof (inv_seq _ I x Hx). lia.
Qed.

Lemma last_rev_le_seq b k : Inv b -> last_rev_of b k <= b_seq b.
Proof.
  intros I. unfold last_rev_of. destruct (last_of b k) as [[[r v] tomb]|] eqn:E; [|apply (inv_seq0 _ I)].
  destruct (inv_last _ I _ _ _ _ E) as (x & Hx & _ & Xr & _). pose proof (inv_seq _ I x Hx). lia.
Qed.

Lemma V_apply b t op okind rev val :
  Inv b -> Inv2 b -> LInv b -> VInv b -> b_now b <= t ->
  guards0 b (t, EApply op okind rev val) = [] -> env_okb b (t, EApply op okind rev val) = true ->
  VInv (bapply b (t, EApply op okind rev val)).
Proof.
  intros I I2 IL IV Hn G E.
  destruct (aget (b_pend b) op) as [p|] eqn:Hop.
  2:{ cbn in G. rewrite Hop in G. discriminate. }
  destruct (apply_shape b t op okind rev val p Hop) as (Ht & Hr & Hd & Hv & Hc & Hi & Hp & Hl).
  set (b' := bapply b (t, EApply op okind rev val)) in *.
  set (p' := p <| p_applied := Some (okind, rev, val, t) |>) in *.
  set (W := writes okind (p_kind p)) in *.
  cbn in E. rewrite Hop in E. apply Bool.negb_true_iff in E.
  pose proof (l_time _ IL) as Ltime.
  assert (Hnone : p_applied p = None).
  { cbn in G. rewrite Hop in G. apply app_nil_l2 in G. destruct G as [G _]. destruct (p_applied p); [discriminate|reflexivity]. }
  assert (Et : forall v, tok_of b' v = tok_of b v) by (intros; apply tok_same; exact Hv).
  assert (Ed : forall o, is_done b' o = is_done b o) by (intros; apply is_done_same; exact Hd).
  assert (Ec : forall j, cfg_of b' j = cfg_of b j) by (intros; apply cfg_same; exact Hc).
  assert (Ei : forall j, inst_of b' j = inst_of b j) by (intros; unfold inst_of; rewrite Hi; reflexivity).
  assert (Elr : forall k, last_rev_of b' k = if W && (p_key p =? k) then rev else last_rev_of b k).
  { intros k. unfold last_rev_of. rewrite Hl. fold W. destruct (W && (p_key p =? k)); reflexivity. }
  assert (Cur : forall j o, current b' j o <-> current b j o) by (intros; unfold current; rewrite Ei; tauto).
  assert (Hinv : forall o q, aget (b_pend b') o = Some q -> (o = op /\ q = p') \/ (o <> op /\ aget (b_pend b) o = Some q)).
  { intros o q. rewrite Hp. destruct (Z.eqb_spec op o) as [Eo|Eo]; [intros X; inversion X; auto|intros X; right; split; [congruence|exact X]]. }
  assert (Hold : forall o q, o <> op -> aget (b_pend b) o = Some q -> aget (b_pend b') o = Some q).
  { intros o q Hne A. rewrite Hp. destruct (Z.eqb_spec op o); [congruence|exact A]. }
  assert (St : forall j R, stale b j R -> stale b' j R).
  { intros j R S o q A Hh Hj Hn' Hnc. destruct (Hinv o q A) as [[Eo Eq]|[Hne A0]]; [subst q; discriminate|].
    apply (S o q A0 Hh Hj Hn'). intros C. apply Hnc. apply Cur. exact C. }
  destruct IV as [V1 V2 V3 V4 V5]. pose proof (mkV b V1 V2 V3 V4 V5) as IV.
  (* when the call writes its key: what the store contract says, and who may have a claim on that key *)
  assert (Holds : forall k i tk, claim b t k i tk -> holds b k i tk).
  { intros k i tk C. apply (l_holds _ IL). apply (claim_now b t); auto. }
  assert (Wfacts : W = true -> okind = oOk /\ rev = b_seq b + 1 /\
            (forall i tk, claim b t (p_key p) i tk -> is_hb p /\ p_exp p = last_rev_of b (p_key p) /\ p_i p = i /\ tok_of b (p_val p) = tk)).
  { intros Hw. unfold W, writes in Hw. apply andb_prop in Hw. destruct Hw as [Ok Hk]. apply Z.eqb_eq in Ok. subst okind.
    assert (Ew : p_kind p =? kWatch = false).
    { apply Bool.orb_true_iff in Hk. destruct Hk as [Hk|Hk]; [apply Bool.orb_true_iff in Hk; destruct Hk as [Hk|Hk]|]; apply Z.eqb_eq in Hk; rewrite Hk; reflexivity. }
    destruct (guards_apply _ _ _ _ _ _ _ Hop G Ew) as (_ & So & Sr).
    split; [reflexivity|].
    destruct (Z.eqb_spec (p_kind p) kCreate) as [Kc|Kc].
    - unfold store_outcome in So, Sr. rewrite Kc in So, Sr. change (kCreate =? kCreate) with true in So, Sr. cbn iota in So, Sr.
      destruct (live_of b (p_key p)) eqn:Lv; [cbn in So; discriminate|]. cbn in Sr. split; [auto|].
      intros i tk C. apply Holds in C. apply live_of_holds in C. congruence.
    - destruct (Z.eqb_spec (p_kind p) kUpdate) as [Ku|Ku].
      + unfold store_outcome in So, Sr. rewrite Ku in So, Sr. change (kUpdate =? kCreate) with false in So, Sr. change (kUpdate =? kUpdate) with true in So, Sr. cbn iota in So, Sr.
        destruct (p_exp p =? last_rev_of b (p_key p)) eqn:Ee; [|cbn in So; discriminate]. apply Z.eqb_eq in Ee. cbn in Sr. split; [auto|].
        intros i tk C. apply Holds in C.
        assert (Hh : is_hb p) by (split; [exact Ku|apply (V1 op p Hop Ku)]).
        destruct (hb_apply_claimant b op p (p_key p) i tk I I2 C Hop Hh Hnone eq_refl Ee) as [X Y]. auto.
      + assert (Kd : p_kind p =? kDelete = true) by (cbn [orb] in Hk; exact Hk).
        pose proof Kd as Kd'. apply Z.eqb_eq in Kd'. unfold store_outcome in Sr. rewrite Kd' in Sr. cbn in Sr. split; [auto|].
        rewrite Kd in E. change (oOk =? oOk) with true in E. cbn [andb] in E.
        intros i tk C. rewrite (claim_protected b t _ i tk (l_fcfg _ IL) C) in E. discriminate. }
  (* a refresh that writes the key of a claim is the attempt in flight of the (claiming) claimant *)
  assert (Wcur : forall i tk R, W = true -> claim b t (p_key p) i tk -> stale b i R -> R <= last_rev_of b (p_key p) -> current b i op).
  { intros i tk R Hw C S HR. destruct (Wfacts Hw) as (_ & _ & Wc). destruct (Wc i tk C) as (Hh & Ee & Ei' & _).
    destruct (io_flag (inst_of b i)) eqn:Fi.
    - destruct (Z.ltb_spec (io_hb_te (inst_of b i)) 0) as [Te|Te].
      + destruct (Z.eq_dec (io_hb_op (inst_of b i)) op) as [Eo|Eo]; [unfold current; auto|].
        exfalso. assert (Nc : ~ current b i op) by (intros (_ & _ & X); contradiction).
        pose proof (S op p Hop Hh Ei' Hnone Nc). lia.
      + exfalso. assert (Nc : ~ current b i op) by (intros (_ & X & _); lia).
        pose proof (S op p Hop Hh Ei' Hnone Nc). lia.
    - exfalso. assert (Nc : ~ current b i op) by (intros (X & _); congruence).
      pose proof (S op p Hop Hh Ei' Hnone Nc). lia. }
  constructor.
  - intros o q A Kq. destruct (Hinv o q A) as [[Eo Eq]|[_ A0]]; [subst q; apply (V1 op p Hop Kq)|apply (V1 o q A0 Kq)].
  - intros o1 c1 o2 c2 A1 A2 K1 K2. rewrite !Et. intros Etok.
    assert (Back : forall o c, aget (b_pend b') o = Some c -> exists c0, aget (b_pend b) o = Some c0 /\ p_kind c0 = p_kind c /\ p_val c0 = p_val c).
    { intros o c A. destruct (Hinv o c A) as [[Eo Eq]|[_ A0]]; [subst o c; exists p; auto|exists c; auto]. }
    destruct (Back o1 c1 A1) as (d1 & B1 & Kd1 & Vd1). destruct (Back o2 c2 A2) as (d2 & B2 & Kd2 & Vd2).
    apply (V2 o1 d1 o2 d2 B1 B2); congruence.
  - (* winning writes applied and not yet returned *)
    intros o c r v ta A K Ea D. rewrite Ed in D. rewrite Elr.
    destruct (Hinv o c A) as [[Eo Eq]|[Hne A0]].
    + (* the write applied now *)
      subst o c. change (p_kind p' ) with (p_kind p) in K. change (p_key p') with (p_key p). change (p_i p') with (p_i p).
      change (p_applied p') with (Some (okind, rev, val, t)) in Ea. inversion Ea. subst okind r v ta.
      assert (Hw : W = true) by (unfold W, writes; rewrite K; reflexivity).
      rewrite Hw, Z.eqb_refl. cbn [andb]. split; [reflexivity|].
      destruct (Wfacts Hw) as (_ & Er & _).
      intros o q Aq Hh Hj Hn' _. destruct (Hinv o q Aq) as [[Eo Eq]|[Hne A0]]; [subst q; discriminate|].
      pose proof (exp_le_seq b o q I I2 A0 Hh Hn'). lia.
    + destruct (V3 o c r v ta A0 K Ea D) as [X Y].
      destruct (W && (p_key p =? p_key c)) eqn:Hwk; [exfalso|split; [exact X|apply St; exact Y]].
      apply andb_prop in Hwk. destruct Hwk as [Hw Ek]. apply Z.eqb_eq in Ek.
      assert (Cl : claim b t (p_key p) (p_i c) (tok_of b (p_val c))).
      { apply (cl_win b t _ _ _ o c); auto; [unfold wonkind; rewrite K; reflexivity|unfold applied_ok; rewrite Ea; reflexivity]. }
      assert (HR : r <= last_rev_of b (p_key p)) by (rewrite Ek, X; lia).
      destruct (Wcur _ _ r Hw Cl Y HR) as (Fc & _).
      pose proof (no_claim_in_window b o c r v ta I2 IL IV A0 K Ea D). congruence.
  - (* winning writes returned at this instant *)
    intros g r. rewrite Hr, Ei, Elr. intros A Wn T Hlt. rewrite Ht in T.
    assert (Tn : lr_t r = b_now b) by (pose proof (Ltime g r A); lia).
    destruct (V4 g r A Wn Tn Hlt) as (K & X & Y & Fl & (o & c & Z1 & Z2 & Z3 & Z4 & Z5)).
    assert (Fwd : forall o0 c0, aget (b_pend b) o0 = Some c0 -> exists c1, aget (b_pend b') o0 = Some c1 /\ p_kind c1 = p_kind c0 /\ p_val c1 = p_val c0 /\ p_i c1 = p_i c0).
    { intros o0 c0 A0. rewrite Hp. destruct (Z.eqb_spec op o0) as [Eo|Eo]; [subst o0; rewrite Hop in A0; inversion A0; subst c0; exists p'; auto|exists c0; auto]. }
    destruct (W && (p_key p =? lr_key r)) eqn:Hwk.
    + exfalso. apply andb_prop in Hwk. destruct Hwk as [Hw Ek]. apply Z.eqb_eq in Ek.
      assert (Cl : claim b t (p_key p) (lr_i r) (tok_of b (lr_val r))) by (apply (cl_ret b t _ _ _ g r); auto; lia).
      assert (HR : lr_rev r <= last_rev_of b (p_key p)) by (rewrite Ek, X; lia).
      destruct (Wcur _ _ _ Hw Cl Y HR) as (Fc & _). congruence.
    + split; [exact K|]. split; [exact X|]. split; [apply St; exact Y|]. split; [exact Fl|].
      destruct (Fwd o c Z1) as (c1 & B1 & B2 & B3 & B4). exists o, c1. rewrite Ed, !Et. repeat split; auto; congruence.
  - (* claims *)
    intros j Fj. rewrite Ei in Fj |- *. cbv zeta. rewrite Ec, Elr.
    destruct (V5 j Fj) as (X & Y & (opx & cx & Z1 & Z2 & Z3 & Z4 & Z5) & (rh & rest & W1 & W2 & W3)). cbv zeta in X, Y, Z4, W1, W2, W3.
    assert (Fwd : forall o0 c0, aget (b_pend b) o0 = Some c0 -> exists c1, aget (b_pend b') o0 = Some c1 /\ p_kind c1 = p_kind c0 /\ p_val c1 = p_val c0 /\ p_i c1 = p_i c0).
    { intros o0 c0 A0. rewrite Hp. destruct (Z.eqb_spec op o0) as [Eo|Eo]; [subst o0; rewrite Hop in A0; inversion A0; subst c0; exists p'; auto|exists c0; auto]. }
    assert (Hcx : exists opx0 cx0, aget (b_pend b') opx0 = Some cx0 /\ p_kind cx0 = kCreate /\ p_i cx0 = j /\ tok_of b' (p_val cx0) = io_tok (inst_of b j) /\ is_done b' opx0 = true).
    { destruct (Fwd opx cx Z1) as (c1 & B1 & B2 & B3 & B4). exists opx, c1. rewrite Ed, Et. repeat split; auto; congruence. }
    destruct (W && (p_key p =? ic_key (cfg_of b j))) eqn:Hwk.
    + (* the attempt in flight of j is applied, successfully *)
      apply andb_prop in Hwk. destruct Hwk as [Hw Ek]. apply Z.eqb_eq in Ek.
      assert (Cl : claim b t (p_key p) j (io_tok (inst_of b j))) by (apply cl_flag; auto).
      assert (HR : io_acq_rev (inst_of b j) <= last_rev_of b (p_key p)) by (rewrite Ek; exact X).
      destruct (Wcur _ _ _ Hw Cl Y HR) as (_ & Te & Eo).
      destruct (Wfacts Hw) as (Ok & Er & Wc). destruct (Wc _ _ Cl) as (Hh & Ee & Ej & Etk).
      pose proof (last_rev_le_seq b (ic_key (cfg_of b j)) I) as Ls.
      split; [lia|]. split; [apply St; exact Y|]. split; [exact Hcx|].
      exists rh, rest. split; [exact W1|]. split; [intros; lia|]. intros _.
      destruct (W3 Te) as (q & P1 & P2 & P3 & P4 & P5 & P6 & P7). rewrite Eo, Hop in P1. inversion P1. subst q.
      exists p'. rewrite Eo, Hp, Z.eqb_refl, Et. repeat split; auto; try apply P4.
    + split; [exact X|]. split; [apply St; exact Y|]. split; [exact Hcx|].
      exists rh, rest. split; [exact W1|]. split; [exact W2|]. intros Te.
      destruct (W3 Te) as (q & P1 & P2 & P3 & P4 & P5 & P6 & P7).
      destruct (Z.eq_dec (io_hb_op (inst_of b j)) op) as [Eo|Eo].
      * (* the attempt in flight is applied without writing: impossible, it goes against the latest revision *)
        exfalso. rewrite Eo, Hop in P1. inversion P1. subst q. rewrite Hnone in P7.
        rewrite P5, Z.eqb_refl, Bool.andb_true_r in Hwk.
        assert (Ew : p_kind p =? kWatch = false) by (rewrite (proj1 P4); reflexivity).
        destruct (guards_apply _ _ _ _ _ _ _ Hop G Ew) as (_ & So & _).
        unfold store_outcome in So. rewrite (proj1 P4) in So. change (kUpdate =? kCreate) with false in So. change (kUpdate =? kUpdate) with true in So. cbn iota in So.
        rewrite P2, P5, <- P7, Z.eqb_refl in So. cbn in So.
        unfold W, writes in Hwk. rewrite <- So, (proj1 P4) in Hwk. cbn in Hwk. discriminate.
      * exists q. rewrite (Hold _ _ Eo P1), Et. repeat split; auto; try apply P4.
Qed.

(* ---------------------------------------------------------------- a call returns *)
Lemma ret_applied b t i op rk rev val p :
  aget (b_pend b) op = Some p -> guards0 b (t, ERet i op rk rev val) = [] -> rk < 10 -> p_kind p <> kWatch ->
  p_i p = i /\ is_done b op = false /\ exists r0 v0 t0, p_applied p = Some (rk, r0, v0, t0) /\ (rk = oOk -> r0 = rev).
Proof.
  intros Hop G Hrk Hk. cbn in G. rewrite Hop in G. apply app_nil_l2 in G. destruct G as [Gi G]. apply app_nil_l2 in G. destruct G as [Gd G].
  apply pwhen_nil in Gi. apply Bool.negb_false_iff in Gi. apply Z.eqb_eq in Gi. apply pwhen_nil in Gd.
  split; [exact Gi|]. split; [exact Gd|].
  apply Z.eqb_neq in Hk. rewrite Hk in G. apply Z.ltb_lt in Hrk. rewrite Hrk in G. cbn [andb negb] in G.
  destruct (p_applied p) as [[[[ok r0] v0] t0]|]; [|discriminate].
  apply pwhen_nil in G. apply Bool.negb_false_iff in G.
  apply andb_prop in G. destruct G as [G _]. apply andb_prop in G. destruct G as [G1 G2]. apply Z.eqb_eq in G1. subst ok.
  exists r0, v0, t0. split; [reflexivity|]. intros ->. change (oOk =? oOk) with true in G2. cbn in G2. rewrite Bool.orb_false_r in G2.
  apply Z.eqb_eq in G2. exact G2.
Qed.

(* the answer to the attempt in flight of a claiming instance is a success *)
Lemma refresh_succeeds b t i op rk rev val :
  VInv b -> guards0 b (t, ERet i op rk rev val) = [] -> rk < 10 -> current b i op ->
  rk = oOk /\ exists p, aget (b_pend b) op = Some p /\ is_hb p /\ p_i p = i /\ tok_of b (p_val p) = io_tok (inst_of b i) /\
                        last_rev_of b (ic_key (cfg_of b i)) = rev.
Proof.
  intros IV G Hrk (Fi & Te & Eo).
  destruct (v_flag _ IV i Fi) as (_ & _ & _ & (rh & rest & _ & _ & W3)). cbv zeta in W3.
  destruct (W3 Te) as (p & P1 & P2 & P3 & P4 & P5 & P6 & P7). rewrite Eo in P1.
  assert (Hk : p_kind p <> kWatch) by (rewrite (proj1 P4); discriminate).
  destruct (ret_applied b t i op rk rev val p P1 G Hrk Hk) as (_ & _ & (r0 & v0 & t0 & Ea & Er)).
  rewrite Ea in P7. destruct P7 as [Ok Lr]. split; [exact Ok|]. exists p. repeat split; auto; try apply P4. rewrite Lr. auto.
Qed.

Lemma V_ret b t i op rk rev val :
  Inv b -> Inv2 b -> LInv b -> TInv b -> VInv b -> b_now b <= t ->
  guards0 b (t, ERet i op rk rev val) = [] -> fastb b t = true -> rk < 10 ->
  VInv (bapply b (t, ERet i op rk rev val)).
Proof.
  intros I I2 IL IT IV Hn G F Hrk.
  destruct (aget (b_pend b) op) as [p|] eqn:Hop.
  2:{ cbn in G. rewrite Hop in G. discriminate. }
  destruct (ret_shape b t i op rk rev val p Hop) as (Ht & Hp & Hd & Hl & Hv & Hc & Hr & _).
  destruct (ret_shape_hb b t i op rk rev val p Hop) as (_ & Hx).
  set (b' := bapply b (t, ERet i op rk rev val)) in *.
  set (lr := mkLR i (p_kind p) (p_inner p) rk rev (if p_kind p =? kGet then val else p_val p) (p_key p) t) in *.
  pose proof (l_time _ IL) as Ltime.
  assert (Et : forall v, tok_of b' v = tok_of b v) by (intros; apply tok_same; exact Hv).
  assert (El : forall k, last_rev_of b' k = last_rev_of b k) by (intros; apply last_rev_same; exact Hl).
  assert (Ec : forall j, cfg_of b' j = cfg_of b j) by (intros; apply cfg_same; exact Hc).
  assert (Ed : forall o, is_done b' o = (op =? o) || is_done b o).
  { intros o. unfold is_done. rewrite Hd. cbn [existsb]. rewrite (Z.eqb_sym o op). reflexivity. }
  assert (Edt : forall o, is_done b o = true -> is_done b' o = true) by (intros o X; rewrite Ed, X; apply Bool.orb_true_r).
  assert (Edf : forall o, is_done b' o = false -> o <> op /\ is_done b o = false).
  { intros o X. rewrite Ed in X. apply Bool.orb_false_iff in X. destruct X as [A B]. split; [apply Z.eqb_neq in A; congruence|exact B]. }
  assert (Ef : forall j, io_flag (inst_of b' j) = io_flag (inst_of b j)) by (intros j; destruct (Hx j) as (X & _); exact X).
  assert (Ea : forall j, io_acq_rev (inst_of b' j) = io_acq_rev (inst_of b j)) by (intros j; destruct (Hx j) as (_ & _ & _ & _ & _ & _ & X & _); exact X).
  (* an attempt in flight afterwards was in flight before *)
  assert (Cur : forall j o, current b' j o -> current b j o).
  { intros j o (Fj & Te & Eo). destruct (Hx j) as (Xf & _ & Xo & _ & _ & Xe & _). cbv zeta in Xf, Xo, Xe.
    rewrite Xf in Fj. rewrite Xo in Eo. rewrite Xe in Te.
    destruct ((i =? j) && (io_hb_op (inst_of b j) =? op) && (io_hb_te (inst_of b j) <? 0)); [pose proof (t_now0 _ IT); lia|]. unfold current. auto. }
  (* the attempt that stops being in flight has been applied *)
  assert (St : forall j R, stale b j R -> stale b' j R).
  { intros j R S o q A Hh Hj Hn' Hnc. rewrite Hp in A. apply (S o q A Hh Hj Hn'). intros C. apply Hnc.
    destruct C as (Fj & Te & Eo). destruct (Hx j) as (Xf & _ & Xo & _ & _ & Xe & _). cbv zeta in Xf, Xo, Xe.
    unfold current. rewrite Xf, Xo, Xe.
    destruct ((i =? j) && (io_hb_op (inst_of b j) =? op) && (io_hb_te (inst_of b j) <? 0)) eqn:Ecd; [|auto].
    exfalso. apply andb_prop in Ecd. destruct Ecd as [Ecd _]. apply andb_prop in Ecd. destruct Ecd as [_ Eop]. apply Z.eqb_eq in Eop.
    assert (Eoo : o = op) by congruence. rewrite Eoo, Hop in A. inversion A. subst q.
    assert (Hk : p_kind p <> kWatch) by (rewrite (proj1 Hh); discriminate).
    destruct (ret_applied b t i op rk rev val p Hop G Hrk Hk) as (_ & _ & (r0 & v0 & t0 & Eap & _)). congruence. }
  destruct IV as [V1 V2 V3 V4 V5]. pose proof (mkV b V1 V2 V3 V4 V5) as IV.
  constructor.
  - intros o q. rewrite Hp. apply V1.
  - intros o1 c1 o2 c2. rewrite Hp, !Et. apply V2.
  - intros o c r v ta. rewrite Hp, El. intros A K Eap D. destruct (Edf o D) as [Hne D0].
    destruct (V3 o c r v ta A K Eap D0) as [X Y]. split; [exact X|apply St; exact Y].
  - intros g r. rewrite Hr, Ea, El, Ef. intros A Wn T Hlt. rewrite Ht in T.
    destruct (p_gid p =? g).
    + (* the winning write that returns now *)
      inversion A. subst r. clear A. unfold lr in *. cbn [lr_kind lr_key lr_rev lr_i lr_val lr_t] in *.
      unfold lr_won in Wn. cbn [lr_kind lr_inner lr_rk] in Wn. apply andb_prop in Wn. destruct Wn as [Wk Ok]. apply Z.eqb_eq in Ok. subst rk.
      assert (Kc : p_kind p = kCreate).
      { apply Bool.orb_true_iff in Wk. destruct Wk as [Wk|Wk]; [apply Z.eqb_eq; exact Wk|].
        apply andb_prop in Wk. destruct Wk as [Ku Kt]. apply Z.eqb_eq in Ku, Kt. pose proof (V1 op p Hop Ku). rewrite Kt in H. discriminate. }
      assert (Hk : p_kind p <> kWatch) by (rewrite Kc; discriminate).
      destruct (ret_applied b t i op oOk rev val p Hop G Hrk Hk) as (Ei & Dn & (r0 & v0 & t0 & Eap & Er)). specialize (Er eq_refl). subst r0.
      destruct (V3 op p rev v0 t0 Hop Kc Eap Dn) as [X Y].
      pose proof (no_claim_in_window b op p rev v0 t0 I2 IL IV Hop Kc Eap Dn) as Nf. rewrite Ei in *.
      split; [exact Kc|]. split; [exact X|]. split; [apply St; exact Y|]. split; [exact Nf|].
      exists op, p. rewrite Hp, Ed, Z.eqb_refl, Kc. change (kCreate =? kGet) with false. cbn [orb]. auto.
    + assert (Tn : lr_t r = b_now b) by (pose proof (Ltime g r A); lia).
      destruct (V4 g r A Wn Tn Hlt) as (K & X & Y & Fl & (o & c & Z1 & Z2 & Z3 & Z4 & Z5)).
      split; [exact K|]. split; [exact X|]. split; [apply St; exact Y|]. split; [exact Fl|].
      exists o, c. rewrite Hp, !Et, (Edt _ Z5). auto.
  - intros j Fj. rewrite Ef in Fj. cbv zeta. rewrite Ea, Ec, El.
    destruct (V5 j Fj) as (X & Y & (opx & cx & Z1 & Z2 & Z3 & Z4 & Z5) & (rh & rest & W1 & W2 & W3)). cbv zeta in X, Y, Z4, W1, W2, W3.
    destruct (Hx j) as (_ & _ & Xo & _ & _ & Xe & _ & Xt & Xv). cbv zeta in Xo, Xe, Xt, Xv. rewrite Xo, Xe, Xt, Xv.
    split; [exact X|]. split; [apply St; exact Y|]. split; [exists opx, cx; rewrite Hp, Et, (Edt _ Z5); auto|].
    destruct ((i =? j) && (io_hb_op (inst_of b j) =? op) && (io_hb_te (inst_of b j) <? 0)) eqn:Ecd.
    + (* the answer to j's attempt in flight: a success, taken as the new head view *)
      apply andb_prop in Ecd. destruct Ecd as [Ecd Ete]. apply andb_prop in Ecd. destruct Ecd as [Eij Eop].
      apply Z.eqb_eq in Eij, Eop. apply Z.ltb_lt in Ete. rewrite <- Eij in *. clear Eij.
      assert (C : current b i op) by (unfold current; repeat split; assumption).
      destruct (refresh_succeeds b t i op rk rev val IV G Hrk C) as (Ok & (q & Q1 & Q2 & Q3 & Q4 & Q5)). rewrite Hop in Q1. inversion Q1. subst q rk.
      assert (Hk : p_kind p <> kWatch) by (rewrite (proj1 Q2); discriminate).
      destruct (ret_applied b t i op oOk rev val p Hop G Hrk Hk) as (_ & Dn & _).
      destruct (l_fcfg _ IL i Fj) as [c Hcf]. assert (Ecf : cfg_of b i = c) by (unfold cfg_of; rewrite Hcf; reflexivity).
      destruct (t_cfg _ IT i c Hcf) as (Hpos & _ & _).
      pose proof (fast_pend b t op p F Hop Hk Dn) as Ff. rewrite Q3, Ecf in Ff.
      assert (Vc : view_cond b t i op oOk p = true).
      { unfold view_cond. rewrite Eop, Z.eqb_refl. apply Z.ltb_lt in Ete. rewrite Ete. cbn [andb].
        rewrite (proj1 Q2), (proj2 Q2). change (kUpdate =? kUpdate) with true. change (sHeartbeat =? sHeartbeat) with true. change (oOk =? oOk) with true.
        rewrite Fj. cbn [andb]. change (v_stok (vinfo_of b (p_val p))) with (tok_of b (p_val p)). rewrite Q4, Z.eqb_refl. cbn [andb].
        rewrite Ecf. apply fast_in_time; assumption. }
      rewrite Z.eqb_refl, Vc. cbn [andb].
      exists rev, (io_views (inst_of b i)). split; [reflexivity|]. split; [intros _; exact Q5|]. intros Hlt0. pose proof (t_now0 _ IT). lia.
    + assert (Nv : (i =? j) && view_cond b t i op rk p = false).
      { destruct (Z.eqb_spec i j) as [Eij|Eij]; [|reflexivity]. cbn [andb] in Ecd |- *. unfold view_cond. rewrite Eij. rewrite Ecd. reflexivity. }
      rewrite Nv. exists rh, rest. split; [exact W1|]. split; [exact W2|]. intros Te.
      destruct (W3 Te) as (q & P1 & P2 & P3 & P4 & P5 & P6 & P7). exists q. rewrite Hp, Et. repeat split; auto; try apply P4.
Qed.

(* ---------------------------------------------------------------- the claim is raised *)
Lemma V_flag b t i fl cause root gid :
  Inv b -> Inv2 b -> LInv b -> TInv b -> VInv b -> guards b (t, EFlag i fl cause root gid) = [] ->
  VInv (bapply b (t, EFlag i fl cause root gid)).
Proof.
  intros I I2 IL IT IV G. pose proof (guards_urgency _ _ G) as (_ & _ & Go & Hn). cbn [fst] in Hn.
  pose proof (guards_split _ _ G) as (G0 & _).
  cbn in G0, Go. cbn [bapply]. destruct (zb fl) eqn:Efl.
  2:{ revert IV. apply (V_frame b); auto; try reflexivity; try (cbn; lia).
      - intros j. rewrite inst_of_upd. destruct (Z.eqb_spec i j) as [E|E]; [subst j|]; reflexivity.
      - intros j. rewrite inst_of_upd. destruct (Z.eqb_spec i j) as [E|E]; [subst j; cbn; discriminate|]. intros Fj. split; [exact Fj|]. repeat split. }
  apply app_nil_l2 in G0. destruct G0 as [_ G0]. apply app_nil_l2 in G0. destruct G0 as [G31 G0]. apply app_nil_l2 in G0. destruct G0 as [_ G0].
  apply pwhen_nil in G31.
  change (b_rets (b <| b_now := t |>)) with (b_rets b).
  destruct (aget (b_rets b) gid) as [r|] eqn:Hg; [|discriminate].
  apply app_nil_l2 in G0. destruct G0 as [G1 G2]. apply pwhen_nil in G1. apply pwhen_nil in G2.
  apply Bool.negb_false_iff in G1, G2. cbn [fst] in G2. apply Z.eqb_eq in G2.
  apply andb_prop in G1. destruct G1 as [G1 Gk]. apply andb_prop in G1. destruct G1 as [Gw Gi]. apply Z.eqb_eq in Gk, Gi.
  apply pwhen_nil in Go. apply Z.leb_gt in Go.
  pose proof (l_time _ IL) as Ltime.
  assert (Tn : lr_t r = b_now b) by (pose proof (Ltime gid r Hg); lia).
  assert (Tb : b_now b = t) by lia.
  destruct IV as [V1 V2 V3 V4 V5]. pose proof (mkV b V1 V2 V3 V4 V5) as IV.
  rewrite <- Gi in Go.
  destruct (V4 gid r Hg Gw Tn Go) as (Kr & Xr & Yr & Flr & (oc & cc & C1 & C2 & C3 & C4 & C5)). rewrite Gi in *.
  match goal with |- VInv ?x => set (b' := x) end.
  set (x' := inst_of b i <| io_flag := true |> <| io_tok := v_stok (vinfo_of b (lr_val r)) |> <| io_acq_rev := lr_rev r |>
                        <| io_terms ::= Z.succ |> <| io_views ::= cons (v_stok (vinfo_of b (lr_val r)), lr_rev r) |>
                        <| io_hb_ta := t |> <| io_hb_te := t |> <| io_hb_op := 0 |> <| io_hb_ok := true |>).
  assert (Hi : forall j, inst_of b' j = if i =? j then x' else inst_of b j).
  { intros j. unfold b'. rewrite inst_of_upd. reflexivity. }
  assert (T0 : 0 <= t) by (pose proof (t_now0 _ IT); lia).
  (* nobody's attempt is in flight that was not before; i has none *)
  assert (Cur : forall j o, current b' j o -> j <> i /\ current b j o).
  { intros j o (Fj & Te & Eo). rewrite Hi in Fj, Te, Eo. destruct (Z.eqb_spec i j) as [E|E]; [cbn in Te; lia|]. split; [congruence|unfold current; auto]. }
  assert (St : forall j R, stale b j R -> stale b' j R).
  { intros j R S o q A Hh Hj Hn' Hnc. apply (S o q A Hh Hj Hn'). intros (Fj & Te & Eo). apply Hnc.
    unfold current. rewrite Hi. destruct (Z.eqb_spec i j) as [E|E]; [subst j; congruence|auto]. }
  constructor.
  - exact V1.
  - exact V2.
  - intros o c r0 v ta A K Ea D. destruct (V3 o c r0 v ta A K Ea D) as [X Y]. split; [exact X|apply St; exact Y].
  - intros g r'. change (b_rets b') with (b_rets b). change (b_now b') with t. rewrite Hi. intros A Wn T Hlt.
    assert (Tn' : lr_t r' = b_now b) by lia.
    destruct (Z.eqb_spec i (lr_i r')) as [E|E].
    + (* a second winning write of i returned at this instant: both would be the key's latest revision *)
      exfalso. cbn in Hlt.
      assert (Hlt0 : io_acq_rev (inst_of b i) < lr_rev r') by lia. rewrite E in Hlt0.
      destruct (V4 g r' A Wn Tn' Hlt0) as (_ & Xr' & _).
      destruct (t_ret _ IT g r' A Wn) as [K1 _]. destruct (t_ret _ IT gid r Hg Gw) as [K2 _]. rewrite <- E in K1. rewrite Gi in K2.
      rewrite K1 in Xr'. rewrite K2 in Xr. lia.
    + destruct (V4 g r' A Wn Tn' Hlt) as (K & X & Y & Fl & Z0). split; [exact K|]. split; [exact X|]. split; [apply St; exact Y|]. split; [exact Fl|exact Z0].
  - intros j Fj. rewrite Hi in Fj |- *. cbv zeta. change (cfg_of b' j) with (cfg_of b j).
    destruct (Z.eqb_spec i j) as [E|E].
    + subst j. unfold x'. cbn. change (v_stok (vinfo_of b (lr_val r))) with (tok_of b (lr_val r)).
      assert (El : forall k, last_rev_of b' k = last_rev_of b k) by reflexivity.
      assert (Et : forall v, tok_of b' v = tok_of b v) by reflexivity.
      rewrite !El. rewrite <- Gk. split; [lia|]. split; [apply St; exact Yr|]. split; [exists oc, cc; rewrite Et; auto|].
      exists (lr_rev r), (io_views (inst_of b i)). split; [reflexivity|]. split; [intros _; exact Xr|intros; lia].
    + destruct (V5 j Fj) as (X & Y & Z0 & W). split; [exact X|]. split; [apply St; exact Y|]. split; [exact Z0|exact W].
Qed.

(* ---------------------------------------------------------------- the record ages out *)
Lemma V_expire b t key rev :
  Inv b -> Inv2 b -> LInv b -> VInv b -> b_now b <= t -> env_okb b (t, EExpire key rev) = true ->
  VInv (bapply b (t, EExpire key rev)).
Proof.
  intros I I2 IL IV Hn E. cbn in E. apply Bool.negb_true_iff in E.
  cbn [bapply]. match goal with |- VInv ?x => set (b' := x) end.
  pose proof (l_time _ IL) as Ltime.
  assert (El : forall k, k <> key -> last_rev_of b' k = last_rev_of b k).
  { intros k Hne. unfold last_rev_of, last_of, b'. cbn. rewrite aget_adel_other; [reflexivity|exact Hne]. }
  assert (Np : forall k i tk, claim b t k i tk -> k <> key).
  { intros k i tk C Ek. subst k. rewrite (claim_protected b t key i tk (l_fcfg _ IL) C) in E. discriminate. }
  assert (Cur : forall j o, current b' j o <-> current b j o) by (intros; unfold current; tauto).
  assert (St : forall j R, stale b j R -> stale b' j R).
  { intros j R S o q A Hh Hj Hn' Hnc. apply (S o q A Hh Hj Hn'). intros C. apply Hnc. apply Cur. exact C. }
  destruct IV as [V1 V2 V3 V4 V5].
  constructor.
  - exact V1.
  - exact V2.
  - intros o c r v ta A K Ea D. destruct (V3 o c r v ta A K Ea D) as [X Y].
    assert (Hk : p_key c <> key).
    { apply (Np _ (p_i c) (tok_of b (p_val c))). apply (cl_win b t _ _ _ o c); auto; [unfold wonkind; rewrite K; reflexivity|unfold applied_ok; rewrite Ea; reflexivity]. }
    rewrite (El _ Hk). split; [exact X|apply St; exact Y].
  - intros g r A Wn T Hlt. change (b_now b') with t in T.
    assert (Tn : lr_t r = b_now b) by (pose proof (Ltime g r A); lia).
    destruct (V4 g r A Wn Tn Hlt) as (K & X & Y & Fl & Z0).
    assert (Hk : lr_key r <> key) by (apply (Np _ (lr_i r) (tok_of b (lr_val r))); apply (cl_ret b t _ _ _ g r); auto).
    rewrite (El _ Hk). split; [exact K|]. split; [exact X|]. split; [apply St; exact Y|]. split; [exact Fl|exact Z0].
  - intros j Fj. cbv zeta. change (cfg_of b' j) with (cfg_of b j). change (inst_of b' j) with (inst_of b j) in *.
    destruct (V5 j Fj) as (X & Y & Z0 & (rh & rest & W1 & W2 & W3)). cbv zeta in X, Y, W1, W2, W3.
    assert (Hk : ic_key (cfg_of b j) <> key) by (apply (Np _ j (io_tok (inst_of b j))); apply cl_flag; auto).
    rewrite (El _ Hk). split; [exact X|]. split; [apply St; exact Y|]. split; [exact Z0|].
    exists rh, rest. split; [exact W1|]. split; [exact W2|]. intros Te. destruct (W3 Te) as (q & P1 & P2 & P3 & P4 & P5 & P6 & P7).
    exists q. repeat split; auto; try apply P4.
Qed.

(* ---------------------------------------------------------------- every observation *)
Ltac v_quiet I I2 IL IV Hn :=
  cbn [bapply];
  repeat match goal with |- VInv (if ?c then _ else _) => destruct c end;
  revert IV; apply (V_frame _ _ I I2 IL); try reflexivity; try (cbn; exact Hn);
  try (intros j; rewrite inst_of_upd; split_ij j; reflexivity);
  try (intros j; rewrite inst_of_upd; split_ij j; cbn; intros Hflagq; (split; [exact Hflagq|repeat split]));
  try (intros j Hflagq; split; [exact Hflagq|repeat split]).

Lemma V_step b te :
  Inv b -> Inv2 b -> LInv b -> TInv b -> VInv b -> guards b te = [] -> env_okb b te = true -> fastb b (fst te) = true ->
  (match snd te with ERet _ _ rk _ _ => rk < 10 | _ => True end) ->
  VInv (bapply b te).
Proof.
  intros I I2 IL IT IV G E F Hrk. pose proof (guards_urgency _ _ G) as (_ & _ & _ & Hn).
  pose proof (guards_split _ _ G) as (G0 & _).
  destruct te as [t e]. cbn [fst snd] in *.
  destruct e.
  - apply V_instdef; assumption.
  - (* EValDef *)
    revert IV. apply (V_frame _ _ I I2 IL); try reflexivity; try (cbn; exact Hn).
    + intros x S. apply (vinfo_stable b _ x G0 S).
    + intros j Fj. split; [exact Fj|repeat split].
  - apply V_issue; assumption.
  - apply V_apply; assumption.
  - apply V_ret; assumption.
  - apply V_flag; assumption.
  - v_quiet I I2 IL IV Hn.
  - v_quiet I I2 IL IV Hn.
  - v_quiet I I2 IL IV Hn.
  - v_quiet I I2 IL IV Hn.
  - v_quiet I I2 IL IV Hn.
  - v_quiet I I2 IL IV Hn.
  - v_quiet I I2 IL IV Hn.
  - v_quiet I I2 IL IV Hn.
  - v_quiet I I2 IL IV Hn.
  - v_quiet I I2 IL IV Hn.
  - v_quiet I I2 IL IV Hn.
  - v_quiet I I2 IL IV Hn.
  - v_quiet I I2 IL IV Hn.
  - v_quiet I I2 IL IV Hn.
  - cbn in E. discriminate.
  - cbn in E. discriminate.
  - apply V_expire; assumption.
  - v_quiet I I2 IL IV Hn.
  - v_quiet I I2 IL IV Hn.
  - v_quiet I I2 IL IV Hn.
  - v_quiet I I2 IL IV Hn.
  - v_quiet I I2 IL IV Hn.
  - v_quiet I I2 IL IV Hn.
  - v_quiet I I2 IL IV Hn.
  - v_quiet I I2 IL IV Hn.
  - v_quiet I I2 IL IV Hn.
  - v_quiet I I2 IL IV Hn.
  - v_quiet I I2 IL IV Hn.
  - v_quiet I I2 IL IV Hn.
Qed.

(* ---------------------------------------------------------------- the environment without the refresh clause *)
Lemma envC_envT_ret b t i op rk rev val :
  VInv b -> guards0 b (t, ERet i op rk rev val) = [] -> (rk <? 10) = true ->
  (rk <? 10) && (negb ((op =? io_hb_op (inst_of b i)) && (io_hb_te (inst_of b i) <? 0) && io_flag (inst_of b i)) || (rk =? oOk)) = true.
Proof.
  intros IV G0 E. rewrite E. cbn [andb]. apply Z.ltb_lt in E.
  destruct ((op =? io_hb_op (inst_of b i)) && (io_hb_te (inst_of b i) <? 0) && io_flag (inst_of b i)) eqn:Hc; [|reflexivity].
  apply andb_prop in Hc. destruct Hc as [Hc Fi]. apply andb_prop in Hc. destruct Hc as [Eo Te]. apply Z.eqb_eq in Eo. apply Z.ltb_lt in Te.
  assert (C : current b i op) by (unfold current; repeat split; auto).
  destruct (refresh_succeeds b t i op rk rev val IV G0 E C) as [Ok _]. subst rk. reflexivity.
Qed.

Lemma envC_envT b te :
  VInv b -> guards b te = [] -> envC_okb b te = true -> envT_okb b te = true.
Proof.
  intros IV G E. pose proof (guards_split _ _ G) as (G0 & _).
  destruct te as [t e]. unfold envC_okb in E. unfold envT_okb. cbn [fst snd] in *.
  apply andb_prop in E. destruct E as [F E]. rewrite F. cbn [andb].
  destruct e; try exact E.
  eapply envC_envT_ret; eassumption.
Qed.

Lemma admitted_prefix5 tr : forall b, Inv b -> Inv2 b -> LInv b -> TInv b -> ND b -> VInv b ->
  admits b tr = true -> envC_admits b tr = true ->
  forall pre te post, tr = pre ++ te :: post -> LInv (bapply (fold_left bapply pre b) te).
Proof.
  induction tr as [|x tr IH]; intros b I I2 IL IT N IV A E pre te post Eq.
  - destruct pre; discriminate.
  - cbn in A, E. destruct (guards b x) eqn:G; [|discriminate]. apply andb_prop in E. destruct E as [E1 E2].
    pose proof (envC_envT b x IV G E1) as ET.
    pose proof (envT_env b x I2 IL IT N G ET) as E0.
    pose proof (L_step b x I I2 IL G E0) as IL'.
    destruct pre as [|y pre]; cbn in Eq.
    + inversion Eq. subst x post. cbn. exact IL'.
    + inversion Eq. subst y. cbn [fold_left].
      pose proof (T_step b x I2 IL IT G ET) as IT'.
      assert (F : fastb b (fst x) = true) by (unfold envC_okb in E1; apply andb_prop in E1; tauto).
      assert (Hrk : match snd x with ERet _ _ rk _ _ => rk < 10 | _ => True end).
      { unfold envC_okb in E1. apply andb_prop in E1. destruct E1 as [_ E1]. destruct (snd x); try exact Logic.I. apply Z.ltb_lt. exact E1. }
      pose proof (V_step b x I I2 IL IT IV G E0 F Hrk) as IV'.
      apply guards_split in G. destruct G as [G _].
      eapply IH; eauto; [apply Inv_step|apply Inv2_step|apply ND_step]; assumption.
Qed.

(* C02 in the environment the property names, with nothing about refreshes assumed *)
Theorem C02_mutual_exclusion_fast_store_full tr :
  admits base0 tr = true -> envC_admits base0 tr = true ->
  forall pre te post, tr = pre ++ te :: post ->
    ~ In 201 (mon_C02 (bapply (brun pre) te) te) /\ ~ In 202 (mon_C02 (bapply (brun pre) te) te).
Proof.
  intros A E pre te post Eq. apply C02_monitor.
  apply (admitted_prefix5 tr base0 Inv0 Inv2_0 LInv0 TInv0 ND0 VInv0 A E pre te post Eq).
Qed.

From LE Require Import Witness2.
Lemma lease_witness_envC : envC_admits base0 lease_witness = true.
Proof. vm_compute. reflexivity. Qed.
