(* Proofs about the reference store (the contract of property C14). *)
From LE Require Import Base Store.
Open Scope Z_scope.

(** ---------- Create / Update / Get ---------- *)
Lemma create_ok_iff : forall s k v, o_kind (snd (create s k v)) = KOk <-> live s k = false.
Proof.
  intros s k v. unfold create. destruct (live s k); cbn; split; intro H; try discriminate; reflexivity.
Qed.

Lemma update_ok_iff : forall s k v rev, o_kind (snd (update s k v rev)) = KOk <-> rev = last_rev s k.
Proof.
  intros s k v rev. unfold update. destruct (Z.eqb_spec rev (last_rev s k)); cbn; split; intro H;
    try discriminate; try reflexivity; congruence.
Qed.

Lemma create_fail_unchanged : forall s k v, o_kind (snd (create s k v)) <> KOk -> fst (create s k v) = s.
Proof. intros s k v. unfold create. destruct (live s k); cbn; [reflexivity | congruence]. Qed.

Lemma update_fail_unchanged : forall s k v rev, o_kind (snd (update s k v rev)) <> KOk -> fst (update s k v rev) = s.
Proof. intros s k v rev. unfold update. destruct (rev =? last_rev s k); cbn; [congruence | reflexivity]. Qed.

Lemma lookup_cons_same : forall l k m, lookup ((k, m) :: l) k = Some m.
Proof. intros. cbn. rewrite String.eqb_refl. reflexivity. Qed.

Lemma create_ok_effect : forall s k v,
  live s k = false ->
  let '(s', o) := create s k v in
  o_rev o = s_seq s + 1 /\ s_seq s' = s_seq s + 1 /\ last_msg s' k = Some (mkMsg (s_seq s + 1) v false).
Proof.
  intros s k v H. unfold create. rewrite H. unfold publish, last_msg. cbn [s_last s_seq o_rev].
  rewrite lookup_cons_same. repeat split.
Qed.

Lemma update_ok_effect : forall s k v rev,
  rev = last_rev s k ->
  let '(s', o) := update s k v rev in
  o_rev o = s_seq s + 1 /\ s_seq s' = s_seq s + 1 /\ last_msg s' k = Some (mkMsg (s_seq s + 1) v false).
Proof.
  intros s k v rev H. unfold update. subst rev. rewrite Z.eqb_refl. cbn [negb]. unfold publish, last_msg. cbn [s_last s_seq o_rev].
  rewrite lookup_cons_same. repeat split.
Qed.

(** Get returns the latest live value, or not-found when there is none *)
Lemma get_spec : forall s k,
  match last_msg s k with
  | Some m => if m_tomb m then o_kind (get s k) = KNotFound
              else get s k = mkOut KOk (m_rev m) (m_val m)
  | None => o_kind (get s k) = KNotFound
  end.
Proof. intros s k. unfold get. destruct (last_msg s k) as [m|]; [destruct (m_tomb m)|]; reflexivity. Qed.

Lemma get_after_write : forall s k v,
  live s k = false -> get (fst (create s k v)) k = mkOut KOk (s_seq s + 1) v.
Proof.
  intros s k v H. pose proof (create_ok_effect s k v H) as E.
  destruct (create s k v) as [s' o]. destruct E as (_ & _ & E). cbn [fst]. unfold get. rewrite E. reflexivity.
Qed.

(** ---------- revisions ---------- *)
Definition revs_bounded (s : store) : Prop :=
  0 <= s_seq s /\ forall k m, last_msg s k = Some m -> 0 < m_rev m <= s_seq s.

Lemma lookup_remove_key : forall l k k', lookup (remove_key l k) k' = if String.eqb k k' then None else lookup l k'.
Proof.
  induction l as [|[k0 m0] l IH]; intros k k'; cbn.
  - destruct (String.eqb k k'); reflexivity.
  - destruct (String.eqb_spec k0 k) as [->|Hne].
    + rewrite IH. destruct (String.eqb_spec k k'); reflexivity.
    + cbn. rewrite IH. destruct (String.eqb_spec k0 k') as [->|Hne2].
      * destruct (String.eqb_spec k k'); [congruence | reflexivity].
      * reflexivity.
Qed.

Lemma publish_bounded : forall s k v t, revs_bounded s -> revs_bounded (fst (publish s k v t)).
Proof.
  intros s k v t [H0 H]. unfold publish, revs_bounded, last_msg. cbn [fst s_seq s_last].
  split; [lia|]. intros k' m. cbn [lookup].
  destruct (String.eqb k k'); intro E.
  - inversion E; subst. cbn. lia.
  - specialize (H k' m E). lia.
Qed.

Lemma sstep_bounded : forall s o, revs_bounded s -> revs_bounded (fst (sstep s o)).
Proof.
  intros s o Hb. destruct o as [k v|k v rev|k|k|k|k|w|w rev|w]; cbn [sstep].
  - unfold create. destruct (live s k); [exact Hb|].
    pose proof (publish_bounded s k v false Hb). destruct (publish s k v false). exact H.
  - unfold update. destruct (negb (rev =? last_rev s k)); [exact Hb|].
    pose proof (publish_bounded s k v false Hb). destruct (publish s k v false). exact H.
  - exact Hb.
  - unfold delete. pose proof (publish_bounded s k "" true Hb). destruct (publish s k "" true). exact H.
  - destruct Hb as [H0 H]. split; [exact H0|]. intros k' m. cbn [fst]. unfold last_msg, expire. cbn [s_last].
    rewrite lookup_remove_key. destruct (String.eqb k k'); [discriminate | apply H].
  - unfold watch. cbn. exact Hb.
  - destruct (nth_error (s_watchers s) w) as [w0|]; [|exact Hb].
    destruct (wpop w0) as [[e w']|]; exact Hb.
  - destruct (nth_error (s_watchers s) w) as [w0|]; [|exact Hb].
    destruct (wdrop w0 rev); exact Hb.
  - destruct (nth_error (s_watchers s) w) as [w0|]; exact Hb.
Qed.

Lemma sstep_seq_monotone : forall s o, s_seq s <= s_seq (fst (sstep s o)).
Proof.
  intros s o. destruct o as [k v|k v rev|k|k|k|k|i|i rev|i]; cbn [sstep].
  - unfold create. destruct (live s k); cbn; lia.
  - unfold update. destruct (negb (rev =? last_rev s k)); cbn; lia.
  - cbn. lia.
  - cbn. lia.
  - cbn. lia.
  - cbn. lia.
  - destruct (nth_error (s_watchers s) i) as [w0|]; [|cbn; lia].
    destruct (wpop w0) as [[e w']|]; cbn; lia.
  - destruct (nth_error (s_watchers s) i) as [w0|]; [|cbn; lia].
    destruct (wdrop w0 rev); cbn; lia.
  - destruct (nth_error (s_watchers s) i) as [w0|]; cbn; lia.
Qed.

Lemma srun_bounded : forall ops s, revs_bounded s -> revs_bounded (fst (srun s ops)).
Proof.
  induction ops as [|o r IH]; intros s Hb; cbn [srun]; [exact Hb|].
  pose proof (sstep_bounded s o Hb) as H1. destruct (sstep s o) as [s1 x].
  specialize (IH s1 H1). destruct (srun s1 r) as [s2 xs]. exact IH.
Qed.

(** revisions strictly increase: in every reachable store, a successful write gets a
    revision above every revision currently stored (for any key) *)
Lemma write_rev_fresh : forall ops k v k' m,
  let s := fst (srun empty_store ops) in
  last_msg s k' = Some m ->
  forall o, (snd (create s k v) = o \/ exists rev, snd (update s k v rev) = o) ->
  o_kind o = KOk -> m_rev m < o_rev o.
Proof.
  intros ops k v k' m s Hm o Ho Hk.
  assert (Hb : revs_bounded s).
  { apply srun_bounded. split; [cbn; lia|]. intros k0 m0. unfold last_msg. cbn. discriminate. }
  destruct Hb as [_ Hb]. specialize (Hb k' m Hm).
  destruct Ho as [Ho|[rev Ho]]; subst o.
  - unfold create in *. destruct (live s k); cbn in *; [discriminate | lia].
  - unfold update in *. destruct (negb (rev =? last_rev s k)); cbn in *; [discriminate | lia].
Qed.

(** ---------- watch: every change exactly once, in order ---------- *)
(** what the run publishes on key k, and what it pops (non-nil) from watcher i *)
Definition pub_of (k : string) (s : store) (o : sop) : list (Z * string) :=
  match o with
  | OCreate k' v => if (String.eqb k' k && negb (live s k'))%bool then [(s_seq s + 1, v)] else []
  | OUpdate k' v rev => if (String.eqb k' k && (rev =? last_rev s k'))%bool then [(s_seq s + 1, v)] else []
  | ODelete k' => if String.eqb k' k then [(s_seq s + 1, ""%string)] else []
  | _ => []
  end.

Fixpoint published (k : string) (s : store) (ops : list sop) : list (Z * string) :=
  match ops with
  | [] => []
  | o :: r => pub_of k s o ++ published k (fst (sstep s o)) r
  end.

Definition pop_of (i : nat) (s : store) (o : sop) : list (Z * string) :=
  match o with
  | OPop j => if Nat.eqb j i then
                match snd (sstep s o) with RPop (Some (Some e)) => [e] | _ => [] end
              else []
  | _ => []
  end.

Fixpoint popped (i : nat) (s : store) (ops : list sop) : list (Z * string) :=
  match ops with
  | [] => []
  | o :: r => pop_of i s o ++ popped i (fst (sstep s o)) r
  end.

Definition touches (i : nat) (o : sop) : bool :=
  match o with
  | ODrop j _ | OStop j => Nat.eqb j i
  | _ => false
  end.

Lemma nth_error_set_nth_same : forall A (l : list A) i x y, nth_error l i = Some y -> nth_error (set_nth l i x) i = Some x.
Proof. induction l as [|a l IH]; intros [|i] x y H; cbn in *; try discriminate; [reflexivity | eapply IH; eauto]. Qed.
Lemma nth_error_set_nth_other : forall A (l : list A) i j x, i <> j -> nth_error (set_nth l i x) j = nth_error l j.
Proof. induction l as [|a l IH]; intros [|i] [|j] x H; cbn; try reflexivity; try congruence. apply IH. congruence. Qed.

Lemma nth_error_map_notify : forall ws i w k rev v,
  nth_error ws i = Some w -> nth_error (map (notify k rev v) ws) i = Some (notify k rev v w).
Proof. intros. rewrite nth_error_map, H. reflexivity. Qed.

Lemma nth_error_app_left : forall A (l l' : list A) i x, nth_error l i = Some x -> nth_error (l ++ l') i = Some x.
Proof. intros. rewrite nth_error_app1; [exact H|]. apply nth_error_Some. congruence. Qed.

(** one step: the watcher on k at position i, not stopped, not dropped from *)
Lemma step_watch : forall s o i w k,
  nth_error (s_watchers s) i = Some w -> w_key w = k -> w_stopped w = false -> touches i o = false ->
  exists w', nth_error (s_watchers (fst (sstep s o))) i = Some w' /\ w_key w' = k /\ w_stopped w' = false /\
             pop_of i s o ++ w_data w' = w_data w ++ pub_of k s o.
Proof.
  intros s o i w k Hn Hk Hs Ht.
  assert (Hnot : forall rev v, notify k rev v w = mkW (w_key w) (w_data w ++ [(rev, v)]) (w_initPending w) (w_delivered w) (w_markerDue w) (w_stopped w)).
  { intros. unfold notify. rewrite Hs, Hk, String.eqb_refl. reflexivity. }
  assert (Hnot' : forall k' rev v, String.eqb k' k = false -> notify k' rev v w = w).
  { intros k' rev v E. unfold notify. rewrite Hk. rewrite String.eqb_sym in E. rewrite E, andb_false_r. reflexivity. }
  destruct o; cbn [sstep pop_of pub_of touches] in *.
  - (* create *) unfold create. destruct (live s k0) eqn:Hl; cbn [negb andb fst].
    + rewrite andb_false_r. exists w. rewrite app_nil_r. auto.
    + rewrite andb_true_r. cbn [publish fst s_watchers].
      destruct (String.eqb k0 k) eqn:E.
      * apply String.eqb_eq in E. subst k0. eexists. split; [apply nth_error_map_notify; exact Hn|].
        rewrite Hnot. cbn. auto.
      * eexists. split; [apply nth_error_map_notify; exact Hn|]. rewrite (Hnot' _ _ _ E), app_nil_r. auto.
  - (* update *) unfold update. destruct (rev =? last_rev s k0) eqn:Hr; cbn [negb andb fst].
    + rewrite andb_true_r. cbn [publish fst s_watchers].
      destruct (String.eqb k0 k) eqn:E.
      * apply String.eqb_eq in E. subst k0. eexists. split; [apply nth_error_map_notify; exact Hn|].
        rewrite Hnot. cbn. auto.
      * eexists. split; [apply nth_error_map_notify; exact Hn|]. rewrite (Hnot' _ _ _ E), app_nil_r. auto.
    + rewrite andb_false_r. exists w. rewrite app_nil_r. auto.
  - exists w. rewrite app_nil_r. auto.
  - (* delete *) unfold delete. cbn [publish fst s_watchers].
    destruct (String.eqb k0 k) eqn:E.
    + apply String.eqb_eq in E. subst k0. eexists. split; [apply nth_error_map_notify; exact Hn|].
      rewrite Hnot. cbn. auto.
    + eexists. split; [apply nth_error_map_notify; exact Hn|]. rewrite (Hnot' _ _ _ E), app_nil_r. auto.
  - exists w. cbn. rewrite app_nil_r. auto.
  - exists w. unfold watch. cbn [fst s_watchers]. split; [apply nth_error_app_left; exact Hn|]. rewrite app_nil_r. auto.
  - (* pop *) destruct (Nat.eqb_spec w0 i) as [->|Hne].
    + rewrite Hn. unfold wpop.
      destruct (marker_pos w) as [[|n]|] eqn:Hm.
      * cbn [fst snd with_watcher s_watchers]. eexists. split; [eapply nth_error_set_nth_same; exact Hn|].
        cbn. rewrite app_nil_r. auto.
      * destruct (w_data w) as [|e r] eqn:Hd.
        -- exists w. cbn. rewrite ?Hd, ?app_nil_r. auto.
        -- cbn [fst snd with_watcher s_watchers]. eexists. split; [eapply nth_error_set_nth_same; exact Hn|].
           cbn. rewrite app_nil_r. auto.
      * destruct (w_data w) as [|e r] eqn:Hd.
        -- exists w. cbn. rewrite ?Hd, ?app_nil_r. auto.
        -- cbn [fst snd with_watcher s_watchers]. eexists. split; [eapply nth_error_set_nth_same; exact Hn|].
           cbn. rewrite app_nil_r. auto.
    + destruct (nth_error (s_watchers s) w0) as [wo|] eqn:Ho.
      * destruct (wpop wo) as [[e w']|]; cbn [fst with_watcher s_watchers].
        -- exists w. rewrite nth_error_set_nth_other by exact Hne. rewrite app_nil_r. auto.
        -- exists w. rewrite app_nil_r. auto.
      * exists w. cbn. rewrite app_nil_r. auto.
  - (* drop on another watcher *) apply Nat.eqb_neq in Ht.
    destruct (nth_error (s_watchers s) w0) as [wo|] eqn:Ho; [|exists w; cbn; rewrite app_nil_r; auto].
    destruct (wdrop wo rev); cbn [fst with_watcher s_watchers]; exists w;
      rewrite ?nth_error_set_nth_other by exact Ht; rewrite app_nil_r; auto.
  - (* stop of another watcher *) apply Nat.eqb_neq in Ht.
    destruct (nth_error (s_watchers s) w0) as [wo|] eqn:Ho; cbn [fst with_watcher s_watchers]; exists w;
      rewrite ?nth_error_set_nth_other by exact Ht; rewrite app_nil_r; auto.
Qed.

(** Every change of the watched key made after the watcher was opened is delivered to
    it exactly once and in order: what has been received so far followed by what is
    still queued is exactly what was queued at the start followed by all later
    changes (absent the two environment steps Drop and Stop on that watcher). *)
Lemma watch_exactly_once : forall ops s i w k,
  nth_error (s_watchers s) i = Some w -> w_key w = k -> w_stopped w = false ->
  forallb (fun o => negb (touches i o)) ops = true ->
  exists w', nth_error (s_watchers (fst (srun s ops))) i = Some w' /\
             popped i s ops ++ w_data w' = w_data w ++ published k s ops.
Proof.
  induction ops as [|o r IH]; intros s i w k Hn Hk Hs Hall; cbn [srun popped published].
  - exists w. cbn. rewrite app_nil_r. auto.
  - cbn [forallb] in Hall. apply andb_true_iff in Hall as [Ho Hr]. apply negb_true_iff in Ho.
    destruct (step_watch s o i w k Hn Hk Hs Ho) as (w1 & Hn1 & Hk1 & Hs1 & E1).
    destruct (sstep s o) as [s1 x] eqn:Est. cbn [fst] in *.
    destruct (IH s1 i w1 k Hn1 Hk1 Hs1 Hr) as (w2 & Hn2 & E2).
    destruct (srun s1 r) as [s2 xs] eqn:Er. cbn [fst] in *.
    exists w2. split; [exact Hn2|].
    rewrite <- app_assoc, E2, app_assoc, E1, <- app_assoc. reflexivity.
Qed.

(** the queue of a watcher holds strictly increasing revisions (deliveries are in revision order) *)
Fixpoint increasing (l : list (Z * string)) (lo : Z) : Prop :=
  match l with
  | [] => True
  | (r, _) :: rest => lo < r /\ increasing rest r
  end.

Lemma published_increasing : forall ops k s, increasing (published k s ops) (s_seq s).
Proof.
  induction ops as [|o r IH]; intros k s; cbn [published]; [exact I|].
  pose proof (sstep_seq_monotone s o) as Hm.
  specialize (IH k (fst (sstep s o))).
  assert (Hlift : forall l a b, a <= b -> increasing l b -> increasing l a).
  { intros l. destruct l as [|[r0 v0] l]; cbn; intros; [exact I|]. intuition lia. }
  destruct o; cbn [pub_of]; try (cbn [app]; eapply Hlift; [exact Hm | exact IH]).
  - destruct (String.eqb k0 k && negb (live s k0))%bool eqn:E; cbn [app]; [|eapply Hlift; [exact Hm | exact IH]].
    apply andb_true_iff in E as [_ E]. apply negb_true_iff in E.
    cbn [sstep] in IH |- *. unfold create in IH |- *. rewrite E in IH |- *. cbn in IH |- *. split; [lia | exact IH].
  - destruct (String.eqb k0 k && (rev =? last_rev s k0))%bool eqn:E; cbn [app]; [|eapply Hlift; [exact Hm | exact IH]].
    apply andb_true_iff in E as [_ E].
    cbn [sstep] in IH |- *. unfold update in IH |- *. rewrite E in IH |- *. cbn in IH |- *. split; [lia | exact IH].
  - destruct (String.eqb k0 k) eqn:E; cbn [app]; [|eapply Hlift; [exact Hm | exact IH]].
    cbn [sstep] in IH |- *. unfold delete in IH |- *. cbn in IH |- *. split; [lia | exact IH].
Qed.

(** Non-vacuity: a concrete history *)
Example store_example :
  let ops := [OWatch "g"; OCreate "g" "a"; OCreate "g" "b"; OUpdate "g" "c" 1; OPop 0; OPop 0; ODelete "g"; OPop 0; OPop 0; OCreate "g" "d"]%string in
  snd (srun empty_store ops) =
  [RWatch 0; RKV (mkOut KOk 1 ""); RKV (mkOut KKeyExists 0 ""); RKV (mkOut KOk 2 "");
   RPop (Some None); RPop (Some (Some (1, "a"%string))); RKV (mkOut KOk 3 "");
   RPop (Some (Some (2, "c"%string))); RPop (Some (Some (3, ""%string))); RKV (mkOut KOk 4 "")]%string.
Proof. vm_compute. reflexivity. Qed.
