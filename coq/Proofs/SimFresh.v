(* Proofs/SimFresh.v — property C05, first clause: every successful acquisition publishes a fencing token that has never
   appeared in the record before (monitor clause 501), for every trace admitted by the protocol rules in which nobody
   else writes the bucket and no priority takeover is configured.

   Invariant: every token that a live-able version of the history carries is the token of a Create that has been applied;
   pending Creates carry pairwise different tokens (rule 2003). A Create that is applied now has not been applied before
   (rule 2011), so no version carries its token. *)
From RecordUpdate Require Import RecordUpdate.
From LE Require Import Base Ev Consts World Mon Proto Env EnvT GenGuards SimBasics SimOwn SimRefresh SimLease SimLeaseT SimLeaseC.
Open Scope Z_scope.

(* evaluated on the state before the observation *)
Definition env5_okb (b : base) (te : Z * ev) : bool :=
  match snd te with
  | EInstDef i key H TTL vi gr mh pr tk mo hh hd bt hp => negb (zb tk)
  | EExtPut _ _ _ | EExtDel _ _ => false
  | _ => true
  end.
Fixpoint env5_admits (b : base) (tr : trace) : bool :=
  match tr with
  | [] => true
  | te :: r => env5_okb b te && env5_admits (bapply b te) r
  end.

Definition applied_create (b : base) (tk : Z) : Prop :=
  exists op c r v ta, aget (b_pend b) op = Some c /\ p_kind c = kCreate /\ p_applied c = Some (oOk, r, v, ta) /\ tok_of b (p_val c) = tk.

Record FInv (b : base) : Prop := mkF {
  f_notk : forall i c, aget (b_cfgs b) i = Some c -> ic_takeover c = false;
  f_hbonly : forall op p, aget (b_pend b) op = Some p -> p_kind p = kUpdate -> p_inner p = sHeartbeat;
  f_tokd : forall op1 c1 op2 c2, aget (b_pend b) op1 = Some c1 -> aget (b_pend b) op2 = Some c2 ->
      p_kind c1 = kCreate -> p_kind c2 = kCreate -> tok_of b (p_val c1) = tok_of b (p_val c2) -> op1 = op2;
  (* nobody else writes: every live-able version carries a readable value, whose token is that of an applied Create *)
  f_hist : forall ver, In ver (b_hist b) -> ver_tomb ver = false -> sok_of b (ver_val ver) = true /\ applied_create b (tok_of b (ver_val ver))
}.

Lemma FInv0 : FInv base0.
Proof. constructor; cbn; intros; try discriminate; contradiction. Qed.

Lemma tok_in_hist_spec b h tk : tok_in_hist b h tk = true ->
  exists ver, In ver h /\ ver_tomb ver = false /\ sok_of b (ver_val ver) = true /\ tok_of b (ver_val ver) = tk.
Proof.
  induction h as [|v h IH]; cbn; [discriminate|]. intros H. apply Bool.orb_true_iff in H. destruct H as [H|H].
  - apply andb_prop in H. destruct H as [H T]. apply andb_prop in H. destruct H as [A B]. apply Bool.negb_true_iff in A. apply Z.eqb_eq in T.
    exists v. auto.
  - destruct (IH H) as (x & Hx & R). exists x. split; [right; exact Hx|exact R].
Qed.

Lemma update_is_refresh' b t i op inner root gid key val exp :
  (forall j c, aget (b_cfgs b) j = Some c -> ic_takeover c = false) ->
  guards0 b (t, EIssue i op kUpdate inner root gid key val exp) = [] -> inner = sHeartbeat.
Proof.
  intros Hnt G. cbn in G. apply app_nil_l2 in G. destruct G as [_ G]. apply app_nil_l2 in G. destruct G as [_ G].
  apply app_nil_l2 in G. destruct G as [G _].
  change (kUpdate =? kCreate) with false in G. change (kUpdate =? kUpdate) with true in G. cbn iota in G.
  destruct (Z.eqb_spec inner sHeartbeat) as [E|_]; [exact E|].
  destruct (Z.eqb_spec inner sTakeover) as [_|_]; [|discriminate].
  apply pwhen_nil in G. apply Bool.negb_false_iff in G.
  destruct (takeover_ok_spec _ _ _ _ _ G) as (r & _ & _ & _ & _ & _ & _ & _ & _ & T & _).
  exfalso. unfold cfg_of in T. destruct (aget (b_cfgs b) i) as [c|] eqn:Hc; [rewrite (Hnt _ _ Hc) in T|cbn in T]; discriminate.
Qed.

(* what the history, the calls in flight and the value table do in one step *)
Lemma applied_create_mono b b' tk :
  (forall op c, aget (b_pend b) op = Some c -> exists c', aget (b_pend b') op = Some c' /\ p_kind c' = p_kind c /\ p_val c' = p_val c /\
                                                          (forall r v ta, p_applied c = Some (oOk, r, v, ta) -> p_applied c' = Some (oOk, r, v, ta))) ->
  (forall v, sok_of b v = true -> vinfo_of b' v = vinfo_of b v) -> Inv b ->
  applied_create b tk -> applied_create b' tk.
Proof.
  intros Hp Hv I (op & c & r & v & ta & A & K & Ea & T). destruct (Hp op c A) as (c' & A' & K' & V' & Ea').
  exists op, c', r, v, ta. repeat split; auto; try congruence.
  destruct (inv_create _ I op c A K) as (S & _). unfold tok_of in *. rewrite V', (Hv _ S). exact T.
Qed.

Definition f_neutral (e : ev) : bool :=
  match e with
  | EIssue _ _ _ _ _ _ _ _ _ | EApply _ _ _ _ | EInstDef _ _ _ _ _ _ _ _ _ _ _ _ _ _ | EExtPut _ _ _ | EExtDel _ _ => false
  | _ => true
  end.

Lemma f_neutral_same b t e : f_neutral e = true ->
  b_pend (bapply b (t, e)) = b_pend b /\ b_hist (bapply b (t, e)) = b_hist b /\ b_cfgs (bapply b (t, e)) = b_cfgs b.
Proof.
  intros H. destruct e; try discriminate; cbn [bapply];
    repeat match goal with
           | |- context [match aget ?m ?k with _ => _ end] => destruct (aget m k)
           | |- context [if ?c then _ else _] => destruct c
           end; cbn; auto.
Qed.

Lemma F_neutral b t e : Inv b -> FInv b -> guards0 b (t, e) = [] -> f_neutral e = true -> FInv (bapply b (t, e)).
Proof.
  intros I [F1 F2 F3 F4] G Hn. destruct (f_neutral_same b t e Hn) as (Hp & Hh & Hc).
  pose proof (fun x => vinfo_stable b (t, e) x G) as Vst.
  assert (Etc : forall op c, aget (b_pend b) op = Some c -> p_kind c = kCreate -> tok_of (bapply b (t, e)) (p_val c) = tok_of b (p_val c)).
  { intros op c A K. destruct (inv_create _ I op c A K) as (S & _). unfold tok_of. rewrite (Vst _ S). reflexivity. }
  constructor.
  - intros i c. rewrite Hc. apply F1.
  - intros op p. rewrite Hp. apply F2.
  - intros op1 c1 op2 c2. rewrite Hp. intros A1 A2 K1 K2. rewrite (Etc _ _ A1 K1), (Etc _ _ A2 K2). apply F3; assumption.
  - intros ver. rewrite Hh. intros Hin Ht. destruct (F4 ver Hin Ht) as [S0 Ac].
    assert (Ev : vinfo_of (bapply b (t, e)) (ver_val ver) = vinfo_of b (ver_val ver)) by (apply Vst; exact S0).
    split; [unfold sok_of; rewrite Ev; exact S0|].
    unfold tok_of at 1. rewrite Ev. fold (tok_of b (ver_val ver)).
    apply (applied_create_mono b); [|exact Vst|exact I|exact Ac].
    intros op c A. exists c. rewrite Hp. repeat split; auto.
Qed.



Lemma apply_hist b t op okind rev val p ver :
  aget (b_pend b) op = Some p -> In ver (b_hist (bapply b (t, EApply op okind rev val))) ->
  In ver (b_hist b) \/ (okind = oOk /\ ((p_kind p = kCreate \/ p_kind p = kUpdate) /\ ver_val ver = p_val p /\ ver_tomb ver = false \/ ver_tomb ver = true)).
Proof.
  intros Hop. cbn [bapply]. change (b_pend (b <| b_now := t |>)) with (b_pend b). rewrite Hop. cbv zeta.
  destruct (Z.eqb_spec okind oOk) as [Ok|Ok]; [|cbn; auto].
  destruct (Z.eqb_spec (p_kind p) kCreate) as [Kc|Kc]; [cbn; intros [E|H]; [subst ver; cbn; auto 8|auto]|].
  destruct (Z.eqb_spec (p_kind p) kUpdate) as [Ku|Ku]; [cbn; intros [E|H]; [subst ver; cbn; auto 8|auto]|].
  destruct (p_kind p =? kDelete); [cbn; intros [E|H]; [subst ver; cbn; auto 8|auto]|cbn; auto].
Qed.

Lemma F_step b te : Inv b -> Inv2 b -> FInv b -> guards0 b te = [] -> env5_okb b te = true -> FInv (bapply b te).
Proof.
  intros I I2 IF G E. destruct te as [t e].
  destruct (f_neutral e) eqn:Hn; [apply F_neutral; assumption|].
  destruct IF as [F1 F2 F3 F4].
  pose proof (fun x => vinfo_stable b (t, e) x G) as Vst.
  destruct e; try discriminate.
  - (* EInstDef *)
    cbn in E. apply Bool.negb_true_iff in E.
    constructor; cbn [bapply]; cbn.
    + intros j c. rewrite aget_aset. destruct (i =? j); [intros X; inversion X; cbn; exact E|apply F1].
    + exact F2.
    + exact F3.
    + exact F4.
  - (* EIssue *)
    destruct (issue_shape b t i op kind inner root gid key val exp) as (Hp & _ & Hc & Hv & Hh & _).
    set (b' := bapply b (t, EIssue i op kind inner root gid key val exp)) in *.
    assert (Hnew : aget (b_pend b) op = None).
    { cbn in G. apply app_nil_l2 in G. destruct G as [G _]. destruct (aget (b_pend b) op); [discriminate|reflexivity]. }
    assert (Et : forall v, tok_of b' v = tok_of b v) by (intros; apply tok_same; exact Hv).
    assert (Hinv : forall o q, aget (b_pend b') o = Some q -> (o = op /\ q = mkPend i kind inner root gid key val exp t None) \/ aget (b_pend b) o = Some q).
    { intros o q. rewrite Hp. destruct (Z.eqb_spec op o) as [Eo|_]; [intros X; inversion X; auto|auto]. }
    constructor.
    + intros j c. rewrite Hc. apply F1.
    + intros o q A Kq. destruct (Hinv o q A) as [[Eo Eq]|A0]; [|apply (F2 o q A0 Kq)].
      subst q. cbn in Kq |- *. subst kind. apply (update_is_refresh' b t i op inner root gid key val exp F1 G).
    + intros o1 c1 o2 c2 A1 A2 K1 K2. rewrite !Et. intros Etok.
      destruct (Hinv o1 c1 A1) as [[E1 P1]|B1]; destruct (Hinv o2 c2 A2) as [[E2 P2]|B2].
      * congruence.
      * exfalso. subst c1. cbn in K1, Etok. subst kind. apply (create_is_fresh b t i op inner root gid key val exp o2 c2 I G B2 K2). congruence.
      * exfalso. subst c2. cbn in K2, Etok. subst kind. apply (create_is_fresh b t i op inner root gid key val exp o1 c1 I G B1 K1). congruence.
      * apply (F3 o1 c1 o2 c2 B1 B2 K1 K2 Etok).
    + intros ver. rewrite Hh. intros Hin Ht. destruct (F4 ver Hin Ht) as [S0 Ac].
      split; [unfold sok_of, vinfo_of; rewrite Hv; exact S0|]. rewrite Et.
      apply (applied_create_mono b); [|intros v _; unfold vinfo_of; rewrite Hv; reflexivity|exact I|exact Ac].
      intros o c A. exists c. rewrite Hp. destruct (Z.eqb_spec op o) as [Eo|_]; [subst o; congruence|]. repeat split; auto.
  - (* EApply *)
    destruct (aget (b_pend b) op) as [p|] eqn:Hop.
    2:{ cbn in G. rewrite Hop in G. discriminate. }
    destruct (apply_shape b t op okind rev val p Hop) as (_ & _ & _ & Hv & Hc & _ & Hp & _).
    pose proof (fun ver => apply_hist b t op okind rev val p ver Hop) as Hh.
    set (b' := bapply b (t, EApply op okind rev val)) in *.
    set (p' := p <| p_applied := Some (okind, rev, val, t) |>) in *.
    assert (Hnone : p_applied p = None).
    { cbn in G. rewrite Hop in G. apply app_nil_l2 in G. destruct G as [G _]. destruct (p_applied p); [discriminate|reflexivity]. }
    assert (Et : forall v, tok_of b' v = tok_of b v) by (intros; apply tok_same; exact Hv).
    assert (Back : forall o c, aget (b_pend b') o = Some c -> exists c0, aget (b_pend b) o = Some c0 /\ p_kind c0 = p_kind c /\ p_val c0 = p_val c /\ p_inner c0 = p_inner c).
    { intros o c. rewrite Hp. destruct (Z.eqb_spec op o) as [Eo|Eo]; [intros X; inversion X; subst o; exists p; auto|intros X; exists c; auto]. }
    assert (Mono : forall tk, applied_create b tk -> applied_create b' tk).
    { intros tk. apply (applied_create_mono b); [|intros v _; unfold vinfo_of; rewrite Hv; reflexivity|exact I].
      intros o c A. rewrite Hp. destruct (Z.eqb_spec op o) as [Eo|Eo]; [|exists c; repeat split; auto].
      subst o. rewrite Hop in A. inversion A. subst c. exists p'. repeat split; auto. intros r v ta X. congruence. }
    constructor.
    + intros j c. rewrite Hc. apply F1.
    + intros o q A Kq. destruct (Back o q A) as (c0 & A0 & K0 & _ & In0). rewrite <- In0. apply (F2 o c0 A0). congruence.
    + intros o1 c1 o2 c2 A1 A2 K1 K2. rewrite !Et. intros Etok.
      destruct (Back o1 c1 A1) as (d1 & B1 & Kd1 & Vd1 & _). destruct (Back o2 c2 A2) as (d2 & B2 & Kd2 & Vd2 & _).
      apply (F3 o1 d1 o2 d2 B1 B2); congruence.
    + intros ver Hin Ht. destruct (Hh ver Hin) as [Hold|[Ok [[Hk [Ev _]]|Htomb]]].
      * destruct (F4 ver Hold Ht) as [S0 Ac]. split; [unfold sok_of, vinfo_of; rewrite Hv; exact S0|]. rewrite Et. apply Mono. exact Ac.
      * subst okind. rewrite Ev, Et. unfold sok_of, vinfo_of. rewrite Hv. fold (vinfo_of b (p_val p)). fold (sok_of b (p_val p)).
        destruct Hk as [Kc|Ku].
        -- destruct (inv_create _ I op p Hop Kc) as (S & _). split; [exact S|].
           exists op, p', rev, val, t. rewrite Hp, Z.eqb_refl, Et. repeat split; auto.
        -- destruct (i2_payload _ I2 op p Hop Ku) as [S _]. split; [exact S|].
           pose proof (F2 op p Hop Ku) as Eh.
           destruct (i2_hb _ I2 op p Hop Ku Eh Hnone) as (pv & (x & Hx & _ & _ & Xv & Xt & _) & P1 & _ & P3).
           destruct (F4 x Hx Xt) as [_ Ac]. rewrite Xv, P3 in Ac. apply Mono. exact Ac.
      * congruence.
Qed.

(* clause 501 *)
Lemma C05_fresh_local b te : Inv b -> FInv b -> guards0 b te = [] -> ~ In 501 (mon_C05 b te).
Proof.
  intros I [F1 F2 F3 F4] G. destruct te as [t e]. destruct e; cbn [mon_C05 snd]; try (intros []).
  2,3: intros H;
    repeat match type of H with
           | In _ (_ ++ _) => apply in_app_or in H; destruct H as [H|H]
           | In _ (Mon.when _ _) => apply mwhen_in in H; destruct H; discriminate
           | In _ (match ?x with _ => _ end) => destruct x
           | In _ [] => destruct H
           | In _ [_] => destruct H as [H|[]]; discriminate
           end.
  destruct (aget (b_pend b) op) as [p|] eqn:Hop; [|intros []].
  destruct (negb (okind =? oOk)) eqn:Eok; [intros []|].
  assert (Hnone : p_applied p = None).
  { cbn in G. rewrite Hop in G. apply app_nil_l2 in G. destruct G as [G _]. destruct (p_applied p); [discriminate|reflexivity]. }
  destruct ((p_kind p =? kCreate) || (p_kind p =? kUpdate) && (p_inner p =? sTakeover)) eqn:Ek.
  - intros H. apply in_app_or in H. destruct H as [H|H]; [apply mwhen_in in H; destruct H; discriminate|].
    apply mwhen_in in H. destruct H as [H _]. apply tok_in_hist_spec in H. destruct H as (ver & Hin & Ht & S & T).
    destruct (F4 ver Hin Ht) as [_ (o & c & r & v & ta & A & K & Ea & Tc)].
    apply Bool.orb_true_iff in Ek. destruct Ek as [Kc|Kt].
    + apply Z.eqb_eq in Kc. assert (Eo : o = op) by (apply (F3 o c op p A Hop K Kc); congruence). subst o. congruence.
    + apply andb_prop in Kt. destruct Kt as [Ku Kt]. apply Z.eqb_eq in Ku, Kt. pose proof (F2 op p Hop Ku). rewrite Kt in H. discriminate.
  - destruct ((p_kind p =? kUpdate) && (p_inner p =? sHeartbeat)); [|intros []].
    destruct (last_of b (p_key p)) as [[[r pv] [|]]|]; intros H; try apply mwhen_in in H; cbn in H; intuition discriminate.
Qed.

Lemma admitted_prefix_f tr : forall b, Inv b -> Inv2 b -> FInv b -> admits b tr = true -> env5_admits b tr = true ->
  forall pre te post, tr = pre ++ te :: post ->
  Inv (fold_left bapply pre b) /\ FInv (fold_left bapply pre b) /\ guards (fold_left bapply pre b) te = [].
Proof.
  induction tr as [|x tr IH]; intros b I I2 IF A E pre te post Eq.
  - destruct pre; discriminate.
  - cbn in A, E. destruct (guards b x) eqn:G; [|discriminate]. apply andb_prop in E. destruct E as [E1 E2].
    destruct pre as [|y pre]; cbn in Eq.
    + inversion Eq. subst x post. cbn. auto.
    + inversion Eq. subst y. cbn [fold_left]. apply guards_split in G. destruct G as [G _].
      eapply IH; eauto; [apply Inv_step|apply Inv2_step|apply F_step]; assumption.
Qed.

Theorem C05_acquisition_token_is_fresh tr :
  admits base0 tr = true -> env5_admits base0 tr = true ->
  forall pre te post, tr = pre ++ te :: post -> ~ In 501 (mon_C05 (brun pre) te).
Proof.
  intros A E pre te post Eq. destruct (admitted_prefix_f tr base0 Inv0 Inv2_0 FInv0 A E pre te post Eq) as (I & IF & G).
  apply guards_split in G. destruct G as [G _]. apply C05_fresh_local; assumption.
Qed.

From LE Require Import Witness2.
Lemma lease_witness_env5 : env5_admits base0 lease_witness = true.
Proof. vm_compute. reflexivity. Qed.
