(* Proofs/TermCtxInv.v — a table of paths that passes [path_ok] keeps the term-context invariant under every schedule
   of its sections and of cancellations by the caller, and never touches the contexts of a term that goes on. The state
   space of the machine is finite (24 states): the per-path facts are checked on all of them and lifted. *)
From LE Require Import Base TermCtx.
Open Scope string_scope.

Lemma all_tstates_complete : forall s, In s all_tstates.
Proof.
  intros [il run cur st]. unfold all_tstates.
  destruct il, run, cur as [[|]|], st; vm_compute; tauto.
Qed.

Lemma path_step p s s' :
  path_ok p = true -> tp_ctor p = false -> tinv s = true -> exec_path s (tp_ops p) = Some s' ->
  tinv s' = true /\
  (t_il s = true -> t_il s' = true -> t_cur s' = t_cur s /\ t_run s' = t_run s).
Proof.
  unfold path_ok. intros Hok Hc Hs Hex. rewrite Hc in Hok.
  apply andb_prop in Hok. destruct Hok as [_ Hall].
  rewrite forallb_forall in Hall. specialize (Hall s (all_tstates_complete s)).
  unfold path_state_ok in Hall. rewrite Hs, Hex in Hall. cbn [negb orb] in Hall.
  apply andb_prop in Hall. destruct Hall as [Hi Hk]. split; [exact Hi|].
  intros H1 H2. rewrite H1, H2 in Hk. cbn [andb negb orb] in Hk.
  apply andb_prop in Hk. destruct Hk as [Hq Hr].
  apply Bool.eqb_prop in Hr. split; [|symmetry; exact Hr].
  destruct (t_cur s) as [a|], (t_cur s') as [b|]; try discriminate Hq; [|reflexivity].
  apply Bool.eqb_prop in Hq. subst b. reflexivity.
Qed.

Lemma ext_cancel_inv s : tinv s = true -> tinv (ext_cancel s) = true.
Proof.
  destruct s as [il run cur st]. destruct il, run, cur as [[|]|], st; vm_compute; intros H; try reflexivity; discriminate H.
Qed.

Theorem term_ctx_invariant (tbl : list tpath) :
  forallb path_ok tbl = true ->
  forall evs, (forall p, In (EvPath p) evs -> In p tbl /\ tp_ctor p = false) ->
  forall s s', tinv s = true -> trun s evs = Some s' -> tinv s' = true.
Proof.
  intros Htbl evs. induction evs as [|e evs IH]; intros Hin s s' Hs Hrun; cbn [trun] in Hrun.
  - injection Hrun as <-. exact Hs.
  - destruct e as [p|].
    + destruct (exec_path s (tp_ops p)) as [s1|] eqn:E; [|discriminate Hrun].
      apply (IH (fun q Hq => Hin q (or_intror Hq)) s1 s'); [|exact Hrun].
      rewrite forallb_forall in Htbl.
      destruct (Hin p (or_introl eq_refl)) as [Hp Hc].
      exact (proj1 (path_step p s s1 (Htbl p Hp) Hc Hs E)).
    + apply (IH (fun q Hq => Hin q (or_intror Hq)) (ext_cancel s) s'); [|exact Hrun].
      apply ext_cancel_inv, Hs.
Qed.

(* at every point of the schedule, not only at its end *)
Theorem term_ctx_invariant_everywhere (tbl : list tpath) :
  forallb path_ok tbl = true ->
  forall evs, (forall p, In (EvPath p) evs -> In p tbl /\ tp_ctor p = false) ->
  forall s, tinv s = true ->
  forall pre post s1, evs = (pre ++ post)%list -> trun s pre = Some s1 -> tinv s1 = true.
Proof.
  intros Htbl evs Hin s Hs pre post s1 E Hrun. subst evs.
  apply (term_ctx_invariant tbl Htbl pre (fun p Hp => Hin p (in_or_app _ _ _ (or_introl Hp))) s s1 Hs Hrun).
Qed.

(* a section that finds the instance leading and leaves it leading has not touched the two contexts *)
Theorem leading_term_untouched (tbl : list tpath) :
  forallb path_ok tbl = true ->
  forall p, In p tbl -> tp_ctor p = false -> forall s s', tinv s = true -> exec_path s (tp_ops p) = Some s' ->
  t_il s = true -> t_il s' = true -> t_cur s' = t_cur s /\ t_run s' = t_run s.
Proof.
  intros Htbl p Hp Hc s s' Hs Hex. rewrite forallb_forall in Htbl.
  exact (proj2 (path_step p s s' (Htbl p Hp) Hc Hs Hex)).
Qed.

(* the constructor leaves the object in a state that satisfies the invariant *)
Theorem ctor_establishes (tbl : list tpath) :
  forallb path_ok tbl = true ->
  forall p, In p tbl -> tp_ctor p = true -> exists s0, exec_path tstate0 (tp_ops p) = Some s0 /\ tinv s0 = true.
Proof.
  intros Htbl p Hp Hc. rewrite forallb_forall in Htbl. specialize (Htbl p Hp).
  unfold path_ok in Htbl. rewrite Hc in Htbl. unfold ctor_ok in Htbl.
  apply andb_prop in Htbl. destruct Htbl as [_ H].
  destruct (exec_path tstate0 (tp_ops p)) as [s0|]; [|discriminate H]. exists s0. split; [reflexivity|exact H].
Qed.

(* what the invariant says, spelled out *)
Lemma tinv_spec s : tinv s = true ->
  (t_il s = false -> t_cur s <> Some true) /\ t_stale s = false /\ (t_cur s = Some true -> t_run s = true).
Proof.
  destruct s as [il run cur st]. destruct il, run, cur as [[|]|], st; vm_compute; intros H; try discriminate H;
    (split; [|split]); intros; try reflexivity; try discriminate; try congruence.
Qed.
