(* Proofs about the generated validate_config (property C16). *)
From LE Require Import Base Config ConfigSpec GenConfig.
Open Scope Z_scope.

Lemma wrap_mul3 : forall h, Z.abs h <= 2305843009213693952 -> wrap64 (h * 3) = 3 * h.
Proof. intros h H. rewrite wrap64_id; [lia|]. unfold in_int64, two63. lia. Qed.
Lemma wrap_mul2 : forall h, Z.abs h <= 2305843009213693952 -> wrap64 (h * 2) = 2 * h.
Proof. intros h H. rewrite wrap64_id; [lia|]. unfold in_int64, two63. lia. Qed.

Ltac case_if :=
  match goal with
  | |- context [if String.eqb ?a ?b then _ else _] => destruct (String.eqb_spec a b)
  | |- context [if (?a <=? ?b)%Z then _ else _] => destruct (Z.leb_spec a b)
  | |- context [if (?a <? ?b)%Z then _ else _] => destruct (Z.ltb_spec a b)
  | |- context [if (?a =? ?b)%Z then _ else _] => destruct (Z.eqb_spec a b)
  | |- context [if ?b then _ else _] => destruct b eqn:?
  end.

(* conditions that are conjunctions / disjunctions / negations of comparisons (a refactoring may merge nested ifs): as
   propositions *)
Ltac bool2prop :=
  repeat match goal with
         | H : (_ && _)%bool = true |- _ => apply andb_prop in H; destruct H
         | H : (_ && _)%bool = false |- _ => apply Bool.andb_false_iff in H; destruct H
         | H : (_ || _)%bool = true |- _ => apply Bool.orb_true_iff in H; destruct H
         | H : (_ || _)%bool = false |- _ => apply Bool.orb_false_iff in H; destruct H
         | H : negb _ = true |- _ => apply Bool.negb_true_iff in H
         | H : negb _ = false |- _ => apply Bool.negb_false_iff in H
         | H : (_ <? _)%Z = true |- _ => apply Z.ltb_lt in H
         | H : (_ <? _)%Z = false |- _ => apply Z.ltb_ge in H
         | H : (_ <=? _)%Z = true |- _ => apply Z.leb_le in H
         | H : (_ <=? _)%Z = false |- _ => apply Z.leb_gt in H
         | H : (_ =? _)%Z = true |- _ => apply Z.eqb_eq in H
         | H : (_ =? _)%Z = false |- _ => apply Z.eqb_neq in H
         | H : String.eqb _ _ = true |- _ => apply String.eqb_eq in H
         | H : String.eqb _ _ = false |- _ => apply String.eqb_neq in H
         end.

Lemma validate_config_iff :
  forall c, dur_in_range c -> (validate_config c = None <-> valid_spec c).
Proof.
  intros c Hr. unfold dur_in_range in Hr.
  unfold validate_config, valid_spec.
  rewrite ?wrap_mul3, ?wrap_mul2 by exact Hr.
  cbv zeta.
  repeat case_if; bool2prop; split; intro HH; try discriminate; try reflexivity;
    try (exfalso; intuition (try congruence; try lia); fail);
    intuition (try congruence; try lia).
Qed.

Lemma validate_config_field :
  forall c f, dur_in_range c -> validate_config c = Some f -> field_violated f c.
Proof.
  intros c f Hr. unfold dur_in_range in Hr.
  unfold validate_config.
  rewrite ?wrap_mul3, ?wrap_mul2 by exact Hr.
  cbv zeta.
  repeat case_if; bool2prop; intro HH; inversion HH; subst f; unfold field_violated; simpl String.eqb; cbv iota; try lia; try (split; [congruence|lia]); try (split; lia); auto.
Qed.

(** Non-vacuity: a concrete valid configuration, and a concrete rejected one. *)
Definition sample_cfg : econfig :=
  mkCfg "leaders"%string "g"%string "a"%string (3 * sec) (1 * sec) 0 0 0 0 false.
Example sample_cfg_valid : dur_in_range sample_cfg /\ validate_config sample_cfg = None.
Proof. split; [unfold dur_in_range; cbn; lia | vm_compute; reflexivity]. Qed.
Example sample_cfg_rejected :
  validate_config (mkCfg "leaders"%string "g"%string "a"%string (3 * sec - 1) (1 * sec) 0 0 0 0 false) = Some "TTL"%string.
Proof. vm_compute. reflexivity. Qed.

(** Outside the property's range (informational): the product 3*H wraps and a
    TTL far below 3*H is accepted. *)
Example overflow_accepts_short_ttl :
  validate_config (mkCfg "b"%string "g"%string "a"%string 1 3074457345618258603 0 0 0 0 false) = None.
Proof. vm_compute. reflexivity. Qed.
