(* Proofs/SimWatch.v — property C07, a second cause of demotion excluded for every admitted trace in the lease
   environment (Sim/Env.v: nobody else writes the bucket, no takeover configured, no expiry or Delete under a holder):
   the watcher path ("preempted") never gives up a claim. Rule 2082 (that path acts only on a readable version of the
   record that names another instance and is newer than the write the running term rests on) meets the history
   invariant below: while an instance holds a claim that rests on revision r, every newer readable version of its
   record is its own. The invariant follows from the lease invariant (SimLease.LInv: a claim is backed by the claimant's
   own live record) applied to the state *after* each write. *)
From RecordUpdate Require Import RecordUpdate.
From LE Require Import Base Ev Consts World Mon Proto Env GenGuards SimBasics SimOwn SimRefresh SimLease.
Open Scope Z_scope.

Definition newer_foreign (b : base) (k i r : Z) (v : version) : Prop :=
  ver_key v = k /\ r < ver_rev v /\ ver_tomb v = false /\ sok_of b (ver_val v) = true /\ sid_of b (ver_val v) <> i.

(* claims, with the revision of the write they rest on *)
Inductive claimR (b : base) (t k i r : Z) : Prop :=
| cr_flag : ic_key (cfg_of b i) = k -> io_flag (inst_of b i) = true -> io_acq_rev (inst_of b i) = r -> claimR b t k i r
| cr_win op p vv tt : aget (b_pend b) op = Some p -> wonkind p = true -> p_applied p = Some (oOk, r, vv, tt) -> is_done b op = false ->
    p_key p = k -> p_i p = i -> claimR b t k i r
| cr_ret g lr : aget (b_rets b) g = Some lr -> lr_won lr = true -> lr_t lr = t -> lr_key lr = k -> lr_i lr = i -> lr_rev lr = r ->
    claimR b t k i r.

Lemma claimR_claim b t k i r : claimR b t k i r -> exists tk, claim b t k i tk.
Proof.
  intros [A B C|op p vv tt A B C D E F|g lr A B C D E F].
  - exists (io_tok (inst_of b i)). apply cl_flag; auto.
  - exists (tok_of b (p_val p)). apply (cl_win b t k i _ op p); auto. unfold applied_ok. rewrite C. reflexivity.
  - exists (tok_of b (lr_val lr)). apply (cl_ret b t k i _ g lr); auto.
Qed.

Record WInv (b : base) : Prop := mkW {
  w_own : forall k i r, claimR b (b_now b) k i r -> forall v, In v (b_hist b) -> ~ newer_foreign b k i r v;
  (* every live version in the history carries a readable payload (written by a Create or an Update of the library) *)
  w_sok : forall v, In v (b_hist b) -> ver_tomb v = false -> sok_of b (ver_val v) = true
}.

Lemma WInv0 : WInv base0.
Proof. constructor; cbn; intros; contradiction. Qed.

(* a step that leaves the history and the values alone and creates no claim *)
Lemma W_frame b b' :
  b_hist b' = b_hist b -> (forall v, sok_of b v = true -> vinfo_of b' v = vinfo_of b v) ->
  (forall k i r, claimR b' (b_now b') k i r -> claimR b (b_now b) k i r) ->
  WInv b -> WInv b'.
Proof.
  intros Hh Hv Hc [W1 W2]. constructor.
  - intros k i r C v Hin (N1 & N2 & N3 & N4 & N5). rewrite Hh in Hin.
    pose proof (W2 v Hin N3) as S. apply (W1 k i r (Hc _ _ _ C) v Hin).
    unfold newer_foreign, sok_of, sid_of in *. rewrite (Hv _ S) in N5. auto.
  - intros v Hin T. rewrite Hh in Hin. pose proof (W2 v Hin T) as S. unfold sok_of in *. rewrite (Hv _ S). exact S.
Qed.

(* claims of the new state that were claims of the old one *)
Lemma claimR_back b b' k i r :
  b_now b <= b_now b' -> (forall g lr, aget (b_rets b) g = Some lr -> lr_t lr <= b_now b) ->
  b_pend b' = b_pend b -> b_rets b' = b_rets b -> b_done b' = b_done b -> b_cfgs b' = b_cfgs b ->
  (forall j, io_flag (inst_of b' j) = true -> io_flag (inst_of b j) = true /\ io_acq_rev (inst_of b' j) = io_acq_rev (inst_of b j)) ->
  claimR b' (b_now b') k i r -> claimR b (b_now b) k i r.
Proof.
  intros Hn Ht Hp Hr Hd Hc Hf [A B C|op p vv tt A B C D E F|g lr A B C D E F].
  - destruct (Hf i B) as [X Y]. apply cr_flag; [rewrite <- (cfg_same b b' i Hc); exact A|exact X|congruence].
  - apply (cr_win b _ k i r op p vv tt); auto; try congruence. unfold is_done in *. rewrite <- Hd. exact D.
  - rewrite Hr in A. apply (cr_ret b _ k i r g lr); auto. pose proof (Ht g lr A). lia.
Qed.

Lemma W_quiet b b' :
  b_now b <= b_now b' -> b_pend b' = b_pend b -> b_rets b' = b_rets b -> b_done b' = b_done b ->
  b_hist b' = b_hist b -> b_vals b' = b_vals b -> b_cfgs b' = b_cfgs b ->
  (forall j, io_flag (inst_of b' j) = true -> io_flag (inst_of b j) = true /\ io_acq_rev (inst_of b' j) = io_acq_rev (inst_of b j)) ->
  LInv b -> WInv b -> WInv b'.
Proof.
  intros Hn Hp Hr Hd Hh Hv Hc Hf IL W. apply (W_frame b b' Hh); [|intros k i r; apply claimR_back; auto; apply (l_time _ IL)|exact W].
  intros v _. unfold vinfo_of. rewrite Hv. reflexivity.
Qed.

Lemma flagsR_upd b t i f :
  (forall x, io_flag (f x) = true -> io_flag x = true /\ io_acq_rev (f x) = io_acq_rev x) ->
  forall j, io_flag (inst_of (upd_inst (b <| b_now := t |>) i f) j) = true ->
            io_flag (inst_of b j) = true /\ io_acq_rev (inst_of (upd_inst (b <| b_now := t |>) i f) j) = io_acq_rev (inst_of b j).
Proof.
  intros H j. rewrite inst_of_upd. destruct (Z.eqb_spec i j) as [->|Hne]; [|auto].
  change (inst_of (b <| b_now := t |>) j) with (inst_of b j). apply H.
Qed.

(* ---------------------------------------------------------------- configuration, values, issue, expiry *)
Lemma W_instdef b t i key H TTL vi gr mh pr tk mo hh hd bt hp :
  LInv b -> WInv b -> b_now b <= t ->
  guards0 b (t, EInstDef i key H TTL vi gr mh pr tk mo hh hd bt hp) = [] ->
  WInv (bapply b (t, EInstDef i key H TTL vi gr mh pr tk mo hh hd bt hp)).
Proof.
  intros IL W Hn G.
  cbn in G. destruct (aget (b_cfgs b) i) eqn:Hci; [discriminate|]. clear G.
  cbn [bapply]. match goal with |- WInv ?x => set (b' := x) end.
  assert (Hc : forall j, aget (b_cfgs b') j = if i =? j then Some (mkICfg key H TTL vi gr mh pr (zb tk) (zb mo) (zb hh) (zb hd) bt (zb hp)) else aget (b_cfgs b) j)
    by (intros; apply aget_aset).
  assert (Hi : forall j, inst_of b' j = if i =? j then iobs0 else inst_of b j).
  { intros j. unfold inst_of. unfold b'. cbn. rewrite aget_aset. destruct (i =? j); reflexivity. }
  apply (W_frame b b'); [reflexivity|intros; reflexivity| |exact W].
  intros k j r [A B C|op p vv tt A B C D E F|g lr A B C D E F].
  - rewrite Hi in B, C. destruct (i =? j) eqn:X; [cbn in B; discriminate|].
    apply cr_flag; auto. unfold cfg_of in *. rewrite Hc, X in A. exact A.
  - apply (cr_win b _ k j r op p vv tt); auto.
  - apply (cr_ret b _ k j r g lr); auto. change (aget (b_rets b) g = Some lr) in A.
    pose proof (l_time _ IL g lr A). change (b_now b') with t in C. lia.
Qed.

Lemma W_valdef b t v len sok sid stok sprio mok hasid mid hastok mtok :
  LInv b -> WInv b -> b_now b <= t ->
  guards0 b (t, EValDef v len sok sid stok sprio mok hasid mid hastok mtok) = [] ->
  WInv (bapply b (t, EValDef v len sok sid stok sprio mok hasid mid hastok mtok)).
Proof.
  intros IL W Hn G.
  pose proof (fun x => vinfo_stable b _ x G) as Vst.
  set (b' := bapply b (t, EValDef v len sok sid stok sprio mok hasid mid hastok mtok)) in *.
  apply (W_frame b b'); [reflexivity|exact Vst| |exact W].
  intros k i r. apply claimR_back; try reflexivity; [exact Hn|apply (l_time _ IL)|intros j F; auto].
Qed.

Lemma issue_acq b t i op kind inner root gid key val exp j :
  io_acq_rev (inst_of (bapply b (t, EIssue i op kind inner root gid key val exp)) j) = io_acq_rev (inst_of b j).
Proof.
  cbn [bapply]. match goal with |- context [if ?c then _ else _] => destruct c end; [|reflexivity].
  rewrite inst_of_upd. destruct (Z.eqb_spec i j); subst; reflexivity.
Qed.

Lemma W_issue b t i op kind inner root gid key val exp :
  LInv b -> WInv b -> b_now b <= t ->
  WInv (bapply b (t, EIssue i op kind inner root gid key val exp)).
Proof.
  intros IL W Hn.
  destruct (issue_shape b t i op kind inner root gid key val exp) as (Hp & _ & _ & _ & Hh & _).
  destruct (issue_shape2 b t i op kind inner root gid key val exp) as (Ht & Hr & Hd & Hl & Hv & Hc & Hf).
  pose proof (issue_acq b t i op kind inner root gid key val exp) as Ha.
  set (b' := bapply b (t, EIssue i op kind inner root gid key val exp)) in *.
  apply (W_frame b b' Hh); [intros x _; unfold vinfo_of; rewrite Hv; reflexivity| |exact W].
  intros k j r [A B C|op' p vv tt A B C D E F|g lr A B C D E F].
  - destruct (Hf j) as [X Y]. apply cr_flag; [rewrite <- (cfg_same b b' j Hc); exact A|congruence|rewrite <- Ha; exact C].
  - rewrite Hp in A. destruct (op =? op').
    + inversion A. subst p. cbn in C. discriminate.
    + apply (cr_win b _ k j r op' p vv tt); auto. unfold is_done in *. rewrite <- Hd. exact D.
  - rewrite Hr in A. apply (cr_ret b _ k j r g lr); auto. pose proof (l_time _ IL g lr A). rewrite Ht in C. lia.
Qed.

Lemma W_expire b t key rev :
  LInv b -> WInv b -> b_now b <= t -> WInv (bapply b (t, EExpire key rev)).
Proof.
  intros IL W Hn. cbn [bapply]. match goal with |- WInv ?x => set (b' := x) end.
  apply (W_frame b b'); [reflexivity|intros; reflexivity| |exact W].
  intros k i r. apply claimR_back; try reflexivity; [exact Hn|apply (l_time _ IL)|intros j F; auto].
Qed.

(* ---------------------------------------------------------------- a call returns *)
Lemma ret_acq b t i op rk rev val j :
  io_acq_rev (inst_of (bapply b (t, ERet i op rk rev val)) j) = io_acq_rev (inst_of b j).
Proof.
  cbn [bapply]. change (b_pend (b <| b_now := t |>)) with (b_pend b).
  destruct (aget (b_pend b) op) as [p|]; [|reflexivity]. cbv zeta.
  repeat match goal with |- context [if ?c then _ else _] =>
    lazymatch c with
    | (_ =? _) => fail
    | _ => destruct c
    end end; cbn;
    repeat (rewrite inst_of_upd; match goal with |- context [?a =? ?b] => destruct (Z.eqb_spec a b); subst end); try reflexivity.
Qed.

Lemma ret_hist b t i op rk rev val : b_hist (bapply b (t, ERet i op rk rev val)) = b_hist b.
Proof.
  cbn [bapply]. change (b_pend (b <| b_now := t |>)) with (b_pend b).
  destruct (aget (b_pend b) op) as [p|]; [|reflexivity]. cbv zeta.
  repeat match goal with |- context [if ?c then _ else _] => destruct c end; reflexivity.
Qed.

Lemma W_ret b t i op rk rev val :
  LInv b -> WInv b -> b_now b <= t ->
  guards0 b (t, ERet i op rk rev val) = [] ->
  WInv (bapply b (t, ERet i op rk rev val)).
Proof.
  intros IL W Hn G.
  destruct (aget (b_pend b) op) as [p|] eqn:Hop.
  2:{ cbn in G. rewrite Hop in G. discriminate. }
  destruct (ret_shape b t i op rk rev val p Hop) as (Ht & Hp & Hd & Hl & Hv & Hc & Hr & Hf).
  pose proof (ret_acq b t i op rk rev val) as Ha.
  pose proof (ret_hist b t i op rk rev val) as Hh.
  set (b' := bapply b (t, ERet i op rk rev val)) in *.
  cbn in G. rewrite Hop in G. apply app_nil_l2 in G. destruct G as [Gi G]. apply app_nil_l2 in G. destruct G as [Gd G].
  apply pwhen_nil in Gi. apply Bool.negb_false_iff in Gi. apply Z.eqb_eq in Gi. apply pwhen_nil in Gd.
  apply (W_frame b b' Hh); [intros x _; unfold vinfo_of; rewrite Hv; reflexivity| |exact W].
  intros k j r C. rewrite Ht in C.
  destruct C as [A B C|op' p' vv tt A B C D E' F|g lr A B C D E' F].
  - destruct (Hf j) as [X Y]. apply cr_flag; [rewrite <- (cfg_same b b' j Hc); exact A|congruence|rewrite <- Ha; exact C].
  - rewrite Hp in A. unfold is_done in D. rewrite Hd in D. apply is_done_cons in D. destruct D as [_ D].
    apply (cr_win b _ k j r op' p' vv tt); auto.
  - rewrite Hr in A. destruct (p_gid p =? g).
    + (* the call that returns now: its write was applied, with this revision, and had not returned *)
      inversion A. subst lr. clear A. cbn in C, D, E', F.
      unfold lr_won in B. cbn [lr_kind lr_inner lr_rk] in B.
      apply andb_prop in B. destruct B as [Wn Ok]. apply Z.eqb_eq in Ok. subst rk.
      assert (Ew : p_kind p =? kWatch = false).
      { destruct (wonkind_cases p Wn) as [K|[K _]]; rewrite K; reflexivity. }
      rewrite Ew in G. change (oOk <? 10) with true in G. cbn [andb negb] in G.
      destruct (p_applied p) as [[[[ok r0] v0] t0]|] eqn:Ea; [|discriminate].
      apply pwhen_nil in G. apply Bool.negb_false_iff in G.
      apply andb_prop in G. destruct G as [G _]. apply andb_prop in G. destruct G as [G1 G2].
      apply Z.eqb_eq in G1. subst ok.
      change (oOk =? oOk) with true in G2. cbn [negb orb] in G2. rewrite Bool.orb_false_r in G2. apply Z.eqb_eq in G2. subst r0.
      apply (cr_win b _ k j r op p v0 t0); auto; congruence.
    + apply (cr_ret b _ k j r g lr); auto. pose proof (l_time _ IL g lr A). lia.
Qed.

(* ---------------------------------------------------------------- the claim is raised or cleared *)
Lemma W_flag b t i fl cause root gid :
  LInv b -> WInv b -> b_now b <= t ->
  guards0 b (t, EFlag i fl cause root gid) = [] ->
  WInv (bapply b (t, EFlag i fl cause root gid)).
Proof.
  intros IL W Hn G.
  cbn in G. cbn [bapply]. destruct (zb fl) eqn:Efl.
  2:{ apply (W_quiet b); auto; try reflexivity. apply flagsR_upd. intros x. cbn. discriminate. }
  apply app_nil_l2 in G. destruct G as [_ G]. apply app_nil_l2 in G. destruct G as [_ G]. apply app_nil_l2 in G. destruct G as [_ G].
  change (b_rets (b <| b_now := t |>)) with (b_rets b).
  destruct (aget (b_rets b) gid) as [lr0|] eqn:Hg; [|discriminate].
  apply app_nil_l2 in G. destruct G as [G1 G2]. apply pwhen_nil in G1. apply pwhen_nil in G2.
  apply Bool.negb_false_iff in G1, G2. cbn [fst] in G2. apply Z.eqb_eq in G2.
  apply andb_prop in G1. destruct G1 as [G1 Gk]. apply andb_prop in G1. destruct G1 as [Gw Gi].
  apply Z.eqb_eq in Gk, Gi.
  match goal with |- WInv ?x => set (b' := x) end.
  assert (Hi : forall j, inst_of b' j = if i =? j then _ else inst_of b j) by (intros j; unfold b'; rewrite inst_of_upd; reflexivity).
  apply (W_frame b b'); [reflexivity|intros; reflexivity| |exact W].
  intros k j r [A B C|op p vv tt A B C D E F|g lr A B C D E F].
  - rewrite Hi in B, C. change (cfg_of b' j) with (cfg_of b j) in A. destruct (Z.eqb_spec i j) as [<-|Hne].
    + (* the new claim rests on the winning call that returned at this instant *)
      cbn in C. apply (cr_ret b _ k i r gid lr0); auto; try congruence.
      pose proof (l_time _ IL gid lr0 Hg). lia.
    + apply cr_flag; auto.
  - apply (cr_win b _ k j r op p vv tt); auto.
  - change (aget (b_rets b) g = Some lr) in A. apply (cr_ret b _ k j r g lr); auto.
    pose proof (l_time _ IL g lr A). change (b_now b') with t in C. lia.
Qed.

(* ---------------------------------------------------------------- a call takes effect in the store *)
Lemma apply_hist b t op okind rev val p :
  aget (b_pend b) op = Some p ->
  let b' := bapply b (t, EApply op okind rev val) in
  (forall x, In x (b_hist b) -> In x (b_hist b')) /\
  (forall x, In x (b_hist b') -> In x (b_hist b) \/
     (writes okind (p_kind p) = true /\ ver_key x = p_key p /\ ver_rev x = rev /\
      ver_tomb x = negb ((p_kind p =? kCreate) || (p_kind p =? kUpdate)) /\
      ver_val x = (if (p_kind p =? kCreate) || (p_kind p =? kUpdate) then p_val p else 0))).
Proof.
  intros Hop. cbn [bapply]. change (b_pend (b <| b_now := t |>)) with (b_pend b). rewrite Hop. cbv zeta. unfold writes.
  destruct (okind =? oOk); [|cbn; split; auto].
  destruct (p_kind p =? kCreate) eqn:E1; [cbn; split; [auto|intros x [<-|H]; [right; cbn; auto|auto]]|].
  destruct (p_kind p =? kUpdate) eqn:E2; [cbn; split; [auto|intros x [<-|H]; [right; cbn; auto|auto]]|].
  destruct (p_kind p =? kDelete) eqn:E3; [cbn; split; [auto|intros x [<-|H]; [right; cbn; auto|auto]]|].
  cbn; split; auto.
Qed.

Lemma W_apply b t op okind rev val :
  Inv b -> Inv2 b -> LInv b -> WInv b -> b_now b <= t ->
  guards0 b (t, EApply op okind rev val) = [] ->
  LInv (bapply b (t, EApply op okind rev val)) ->
  WInv (bapply b (t, EApply op okind rev val)).
Proof.
  intros I I2 IL [W1 W2] Hn G IL'.
  destruct (aget (b_pend b) op) as [p|] eqn:Hop.
  2:{ cbn in G. rewrite Hop in G. discriminate. }
  destruct (apply_shape b t op okind rev val p Hop) as (Ht & Hr & Hd & Hv & Hc & Hi & Hp & Hl).
  destruct (apply_hist b t op okind rev val p Hop) as (Hm & Hh).
  set (b' := bapply b (t, EApply op okind rev val)) in *.
  assert (Vs : forall x, vinfo_of b' x = vinfo_of b x) by (intros x; unfold vinfo_of; rewrite Hv; reflexivity).
  (* claims of the new state: old ones, or the write that has just been applied *)
  assert (CB : forall k j r, claimR b' t k j r ->
             claimR b (b_now b) k j r \/ (wonkind p = true /\ okind = oOk /\ p_key p = k /\ p_i p = j /\ r = rev)).
  { intros k j r [A B C|op' q vv tt A B C D E' F|g lr A B C D E' F].
    - left. apply cr_flag; [rewrite <- (cfg_same b b' j Hc); exact A|unfold inst_of in *; rewrite <- Hi; exact B|unfold inst_of in *; rewrite <- Hi; exact C].
    - rewrite Hp in A. destruct (op =? op').
      + right. inversion A. subst q. cbn in B, C, E', F. inversion C. auto.
      + left. apply (cr_win b _ k j r op' q vv tt); auto. unfold is_done in *. rewrite <- Hd. exact D.
    - left. rewrite Hr in A. apply (cr_ret b _ k j r g lr); auto. pose proof (l_time _ IL g lr A). lia. }
  constructor.
  - intros k j r C x Hin (N1 & N2 & N3 & N4 & N5). rewrite Ht in C.
    destruct (Hh x Hin) as [Old|(Wr & X1 & X2 & X3 & X4)].
    + (* an older version *)
      destruct (CB k j r C) as [C0|(Wk & Ok & Kk & Kj & Er)].
      * apply (W1 k j r C0 x Old). unfold newer_foreign, sok_of, sid_of in *. rewrite Vs in N4, N5. auto.
      * (* the claim of the write applied now rests on the newest revision *)
        subst okind r.
        assert (Ew : p_kind p =? kWatch = false).
        { destruct (wonkind_cases p Wk) as [K|[K _]]; rewrite K; reflexivity. }
        destruct (guards_apply _ _ _ _ _ _ _ Hop G Ew) as (_ & So & Sr).
        pose proof (inv_seq _ I x Old) as Sq.
        unfold store_outcome in So, Sr.
        destruct (wonkind_cases p Wk) as [K|[K _]]; rewrite K in So, Sr.
        -- change (kCreate =? kCreate) with true in So, Sr. cbn iota in So, Sr.
           destruct (live_of b (p_key p)); cbn in So, Sr; [discriminate|lia].
        -- change (kUpdate =? kCreate) with false in So, Sr. change (kUpdate =? kUpdate) with true in So, Sr. cbn iota in So, Sr.
           destruct (p_exp p =? last_rev_of b (p_key p)); cbn in So, Sr; [lia|discriminate].
    + (* the version written now: it is the live record, and a claim is backed by the claimant's own live record *)
      unfold writes in Wr. apply andb_prop in Wr. destruct Wr as [Ok Wr]. apply Z.eqb_eq in Ok. subst okind.
      destruct ((p_kind p =? kCreate) || (p_kind p =? kUpdate)) eqn:Ecu; [|rewrite N3 in X3; discriminate].
      destruct (claimR_claim b' t k j r C) as [tk Cl].
      assert (Cn : claim b' (b_now b') k j tk) by (rewrite Ht; exact Cl).
      destruct (l_holds _ IL' k j tk Cn) as (r1 & v1 & Lv & _ & S2 & _).
      assert (Wt : writes oOk (p_kind p) && (p_key p =? k) = true).
      { unfold writes. rewrite Ecu. rewrite X1 in N1. rewrite N1, !Z.eqb_refl. reflexivity. }
      unfold live_val in Lv. rewrite Hl, Wt in Lv. cbn in Lv. inversion Lv. subst r1 v1.
      apply N5. rewrite X4. exact S2.
  - intros x Hin T. unfold sok_of. rewrite Vs.
    destruct (Hh x Hin) as [Old|(Wr & X1 & X2 & X3 & X4)]; [apply (W2 x Old T)|].
    rewrite T in X3. symmetry in X3. apply Bool.negb_false_iff in X3. rewrite X3 in X4. rewrite X4.
    apply Bool.orb_true_iff in X3. destruct X3 as [K|K]; apply Z.eqb_eq in K.
    + destruct (inv_create _ I op p Hop K) as (S1 & _). exact S1.
    + destruct (i2_payload _ I2 op p Hop K) as (S1 & _). exact S1.
Qed.

(* ---------------------------------------------------------------- every observation *)
Ltac quietW IL W Hn :=
  cbn [bapply];
  repeat match goal with |- WInv (if ?c then _ else _) => destruct c end;
  (apply (W_quiet _ _) with (9 := IL) (10 := W); try reflexivity; try exact Hn;
   [first [apply flagsR_upd; intros x; cbn; auto; discriminate | intros j; auto]]).

Lemma W_step b te :
  Inv b -> Inv2 b -> LInv b -> WInv b -> guards b te = [] -> env_okb b te = true -> WInv (bapply b te).
Proof.
  intros I I2 IL W G E. pose proof (L_step b te I I2 IL G E) as IL'.
  apply guards_split in G. destruct G as (G & _ & Hn).
  destruct te as [t e]. cbn [fst] in Hn. apply Z.ltb_ge in Hn.
  destruct e;
    try (apply W_instdef; assumption); try (apply W_valdef; assumption); try (apply W_issue; assumption);
    try (apply W_apply; assumption); try (apply W_ret; assumption); try (apply W_flag; assumption);
    try (apply W_expire; assumption);
    try (cbn in E; discriminate);
    quietW IL W Hn.
Qed.

(* the observation "the claim is dropped by the watcher path" *)
Definition watch_demotion (b : base) (te : Z * ev) : bool :=
  match snd te with
  | EFlag i fl cause _ _ => negb (zb fl) && io_flag (inst_of b i) && (cause =? sWatchEvt)
  | _ => false
  end.

Lemma no_watch_demotion b te :
  WInv b -> guards b te = [] -> watch_demotion b te = false.
Proof.
  intros W G. destruct te as [t e]. destruct e; try reflexivity.
  pose proof (guards_late _ _ G) as GL.
  unfold watch_demotion. cbn [snd].
  match goal with |- ?c = false => destruct c eqn:Hd; [exfalso|reflexivity] end.
  apply andb_prop in Hd. destruct Hd as [Hd Ec]. apply andb_prop in Hd. destruct Hd as [Hfl Fi].
  cbn in GL. apply app_nil_l2 in GL. destruct GL as [_ GL]. apply app_nil_l2 in GL. destruct GL as [_ GL].
  apply app_nil_l2 in GL. destruct GL as [_ GL]. apply app_nil_l2 in GL. destruct GL as [_ GL].
  apply pwhen_nil in GL. rewrite Hfl, Fi, Ec in GL. cbn [andb] in GL.
  apply Bool.negb_false_iff in GL. apply existsb_exists in GL. destruct GL as (v & Hin & Hv).
  apply andb_prop in Hv. destruct Hv as [Hv N5]. apply andb_prop in Hv. destruct Hv as [Hv N4].
  apply andb_prop in Hv. destruct Hv as [Hv N3]. apply andb_prop in Hv. destruct Hv as [N1 N2].
  apply Z.eqb_eq in N1. apply Z.ltb_lt in N2. apply Bool.negb_true_iff in N3, N5. apply Z.eqb_neq in N5.
  apply (w_own _ W (ic_key (cfg_of b i)) i (io_acq_rev (inst_of b i))) with (v := v); [apply cr_flag; auto|exact Hin|].
  repeat split; auto.
Qed.

Lemma admitted_prefixW tr : forall b, Inv b -> Inv2 b -> LInv b -> WInv b -> admits b tr = true -> env_admits b tr = true ->
  forall pre te post, tr = pre ++ te :: post -> watch_demotion (fold_left bapply pre b) te = false.
Proof.
  induction tr as [|x tr IH]; intros b I I2 IL W A E pre te post Eq.
  - destruct pre; discriminate.
  - cbn in A, E. destruct (guards b x) eqn:G; [|discriminate]. apply andb_prop in E. destruct E as [E1 E2].
    destruct pre as [|y pre]; cbn in Eq.
    + inversion Eq. subst x post. cbn. apply no_watch_demotion; assumption.
    + inversion Eq. subst y. cbn [fold_left].
      pose proof (L_step b x I I2 IL G E1) as IL'.
      pose proof (W_step b x I I2 IL W G E1) as W'.
      apply guards_split in G. destruct G as [G _].
      eapply IH; eauto; [apply Inv_step|apply Inv2_step]; assumption.
Qed.

Theorem C07_never_demoted_by_the_watcher tr :
  admits base0 tr = true -> env_admits base0 tr = true ->
  forall pre te post, tr = pre ++ te :: post -> watch_demotion (brun pre) te = false.
Proof.
  intros A E pre te post Eq.
  apply (admitted_prefixW tr base0 Inv0 Inv2_0 LInv0 WInv0 A E pre te post Eq).
Qed.
