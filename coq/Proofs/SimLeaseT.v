(* Proofs/SimLeaseT.v — property C02 in the environment the property names: while the store answers every
   operation within half a heartbeat interval (EnvT.v), the record never ages out under its holder, so the
   mutual-exclusion theorem of SimLease.v applies without assuming it.

   The timing invariant: the key of every claim was written recently -
     * a winning write applied and not yet returned was issued less than H/2 ago (fast store);
     * a winning write that has returned did so less than H/2 after it was applied;
     * a claiming instance's refresh clock (start a and end e of the latest attempt; World.v) bounds the age
       of its record: e - a < H/2 and a - written < H/2 when idle, a - written < 5H/2 while an attempt is in
       flight; the urgency rules (2070 ticks on time, 2072 a shutdown drops the claim at once, 2073 the loop
       is sequential) bound "now - a";
   hence at every observation time t: t - written < 3 H <= the bucket's maximum age. *)
From RecordUpdate Require Import RecordUpdate.
From LE Require Import Base Ev Consts World Mon Proto Env EnvT GenGuards SimBasics SimOwn SimRefresh SimLease.
Open Scope Z_scope.
#[local] Arguments Z.mul : simpl never.
#[local] Arguments Z.add : simpl never.
#[local] Arguments Z.sub : simpl never.

Record TInv (b : base) : Prop := mkT {
  t_cfg : forall i c, aget (b_cfgs b) i = Some c -> 0 < ic_H c /\ 3 * ic_H c <= ic_bttl c /\ ic_hashealth c = false;
  t_wt : forall k, wt_of b k <= b_now b;
  t_pend : forall op p, aget (b_pend b) op = Some p -> p_t p <= b_now b;
  t_applied : forall op p r v ta, aget (b_pend b) op = Some p -> p_applied p = Some (oOk, r, v, ta) ->
      (p_kind p = kCreate \/ p_kind p = kUpdate) -> p_t p <= ta /\ ta <= wt_of b (p_key p);
  t_ret : forall g r, aget (b_rets b) g = Some r -> lr_won r = true ->
      lr_key r = ic_key (cfg_of b (lr_i r)) /\ 2 * (lr_t r - wt_of b (lr_key r)) < ic_H (cfg_of b (lr_i r));
  t_stop : forall i, io_stop_t (inst_of b i) <= b_now b;
  t_now0 : 0 <= b_now b;
  t_done : forall op, In op (b_done b) -> exists p, aget (b_pend b) op = Some p;
  t_flag : forall i, io_flag (inst_of b i) = true ->
      let x := inst_of b i in let k := ic_key (cfg_of b i) in let H := ic_H (cfg_of b i) in
      (0 <= io_hb_te x -> io_hb_ta x <= io_hb_te x /\ 2 * (io_hb_te x - io_hb_ta x) < H /\ 2 * (io_hb_ta x - wt_of b k) < H) /\
      (io_hb_te x < 0 ->
         (exists p, aget (b_pend b) (io_hb_op x) = Some p /\ p_t p = io_hb_ta x /\ is_done b (io_hb_op x) = false /\
                    p_i p = i /\ p_kind p = kUpdate) /\
         2 * (io_hb_ta x - wt_of b k) < 3 * H) /\
      (io_stopping x = true -> io_stop_t x <= io_hb_ta x + H)
}.

Lemma TInv0 : TInv base0.
Proof. constructor; cbn; intros; try discriminate; try lia. Qed.

(* ---------------------------------------------------------------- reading the urgency rules *)
Lemma flat_map_nil {A B} (f : A -> list B) (l : list A) x : flat_map f l = [] -> In x l -> f x = [].
Proof.
  induction l as [|y l IH]; cbn; [intros _ []|]. intros H [E|Hin].
  - subst. apply app_nil_l2 in H. tauto.
  - apply app_nil_l2 in H. destruct H as [_ H]. auto.
Qed.

Lemma guards_urgency b te :
  guards b te = [] ->
  overdue_ticks b (fst te) = [] /\ late_drop b (fst te) = [] /\ refresh_order b te = [] /\ b_now b <= fst te.
Proof.
  unfold guards. intros G. apply app_nil_l2 in G. destruct G as [_ G]. apply app_nil_l2 in G. destruct G as [G1 G].
  apply app_nil_l2 in G. destruct G as [G2 G]. apply app_nil_l2 in G. destruct G as [_ G]. apply app_nil_l2 in G. destruct G as [G3 G4].
  repeat split; auto. destruct (fst te <? b_now b) eqn:E; [discriminate|]. apply Z.ltb_ge in E. exact E.
Qed.

Lemma fast_pend b t op p : fastb b t = true -> aget (b_pend b) op = Some p -> p_kind p <> kWatch -> is_done b op = false ->
  2 * (t - p_t p) + 1 < ic_H (cfg_of b (p_i p)).
Proof.
  intros F Hp Hk Hd. unfold fastb in F. rewrite forallb_forall in F. specialize (F (op, p) (aget_In _ _ _ Hp)). cbn [fst snd] in F.
  rewrite Hd in F. apply Z.eqb_neq in Hk. rewrite Hk in F. cbn in F. apply Z.ltb_lt in F. exact F.
Qed.

(* the age of the key of a claim, at the time of the next observation *)
Lemma claim_age b t k i tk :
  Inv2 b -> LInv b -> TInv b ->
  overdue_ticks b t = [] -> late_drop b t = [] -> fastb b t = true -> b_now b <= t ->
  claim b t k i tk ->
  (exists c, aget (b_cfgs b) i = Some c /\ ic_key c = k) /\ t - wt_of b k < 3 * ic_H (cfg_of b i).
Proof.
  intros I2 IL IT Gt Gd F Hn [A B C|op p A B C D E' F' G'|g r A B C D E' F'].
  - (* a raised claim *)
    destruct (l_fcfg _ IL i B) as [c Hc].
    assert (Ec : cfg_of b i = c) by (unfold cfg_of; rewrite Hc; reflexivity).
    split; [exists c; split; [exact Hc|congruence]|].
    destruct (t_cfg _ IT i c Hc) as (Hpos & _ & Hh).
    destruct (t_flag _ IT i B) as (Tidle & Tfly & Tstop). cbv zeta in Tidle, Tfly, Tstop. rewrite A, Ec in *.
    pose proof (flat_map_nil _ _ (i, c) Gt (aget_In _ _ _ Hc)) as Gt'. cbn [fst snd] in Gt'.
    pose proof (flat_map_nil _ _ (i, c) Gd (aget_In _ _ _ Hc)) as Gd'. cbn [fst snd] in Gd'.
    rewrite B in Gd'. cbn [andb] in Gd'.
    destruct (io_stopping (inst_of b i)) eqn:Es.
    + cbn [andb] in Gd'. apply pwhen_nil in Gd'. apply Z.ltb_ge in Gd'. pose proof (Tstop eq_refl) as Ts.
      destruct (Z.ltb_spec (io_hb_te (inst_of b i)) 0) as [Ee|Ee].
      * destruct (Tfly Ee) as (_ & Tw). lia.
      * destruct (Tidle Ee) as (X & Y & Z0). lia.
    + unfold ticking in Gt'. cbn [fst snd] in Gt'. rewrite B, Es, Hh in Gt'. cbn [andb negb] in Gt'.
      apply pwhen_nil in Gt'. apply Z.ltb_ge in Gt'. unfold tick_due in Gt'. cbn [fst snd] in Gt'.
      destruct (io_hb_te (inst_of b i) <? 0) eqn:Ee.
      * apply Z.ltb_lt in Ee. destruct (Tfly Ee) as ((p & Hp & Pt & Pd & Pi & Pk) & Tw).
        assert (Hkw : p_kind p <> kWatch) by (rewrite Pk; discriminate).
        pose proof (fast_pend b t _ p F Hp Hkw Pd) as Ff. rewrite Pi, Ec, Pt in Ff. lia.
      * apply Z.ltb_ge in Ee. destruct (Tidle Ee) as (X & Y & Z0). lia.
  - (* a winning write applied, not yet returned *)
    destruct (i2_key _ I2 op p A) as [Kk [c Hc]]. rewrite F' in *.
    assert (Ec : cfg_of b i = c) by (unfold cfg_of; rewrite Hc; reflexivity).
    split; [exists c; split; [exact Hc|congruence]|].
    destruct (t_cfg _ IT i c Hc) as (Hpos & _ & _).
    unfold applied_ok in C. destruct (p_applied p) as [[[[ok r0] v0] ta]|] eqn:Ea; [|discriminate]. apply Z.eqb_eq in C. subst ok.
    assert (Kw : p_kind p = kCreate \/ p_kind p = kUpdate) by (destruct (wonkind_cases p B) as [K|[K _]]; auto).
    destruct (t_applied _ IT op p r0 v0 ta A Ea Kw) as [X Y].
    assert (Hkw : p_kind p <> kWatch) by (destruct Kw as [K|K]; rewrite K; discriminate).
    pose proof (fast_pend b t op p F A Hkw D) as Ff. rewrite F', Ec in Ff. rewrite E' in Y. rewrite Ec. lia.
  - (* a winning write that returns at this instant *)
    destruct (l_rcfg _ IL g r A) as [c Hc]. rewrite E' in *.
    assert (Ec : cfg_of b i = c) by (unfold cfg_of; rewrite Hc; reflexivity).
    destruct (t_ret _ IT g r A B) as [Kk X]. rewrite E', D, C in X. rewrite E', D in Kk.
    destruct (t_cfg _ IT i c Hc) as (Hpos & _ & _).
    split; [|rewrite Ec in *; lia].
    exists c. split; [exact Hc|congruence].
Qed.

(* ---------------------------------------------------------------- the call tables have one entry per key *)
Definition ND (b : base) : Prop := NoDup (map fst (b_pend b)) /\ NoDup (map fst (b_rets b)).

Lemma ND0 : ND base0.
Proof. split; constructor. Qed.

Lemma ND_step b te : ND b -> ND (bapply b te).
Proof.
  intros [N1 N2]. destruct te as [t e]. unfold ND.
  destruct e; cbn [bapply];
    repeat match goal with
           | |- context [match aget ?m ?k with _ => _ end] => destruct (aget m k)
           | |- context [if ?c then _ else _] => destruct c
           end; cbn; split; try apply NoDup_aset; assumption.
Qed.

Lemma protected_claim b t k : LInv b -> ND b -> protectedb b t k = true -> exists i tk, claim b t k i tk.
Proof.
  intros IL [N1 N2] P. unfold protectedb in P.
  apply Bool.orb_true_iff in P. destruct P as [P|P]; [apply Bool.orb_true_iff in P; destruct P as [P|P]|];
    apply existsb_exists in P.
  - destruct P as ([i c] & Hin & Hc). cbn [fst snd] in Hc. apply andb_prop in Hc. destruct Hc as [Hf Hk]. apply Z.eqb_eq in Hk.
    pose proof (In_aget _ _ _ (l_nodup _ IL) Hin) as Hg.
    exists i, (io_tok (inst_of b i)). apply cl_flag; auto. unfold cfg_of. rewrite Hg. exact Hk.
  - destruct P as ([op p] & Hin & Hc). cbn [fst snd] in Hc.
    apply andb_prop in Hc. destruct Hc as [Hc Hk]. apply andb_prop in Hc. destruct Hc as [Hc Hd]. apply andb_prop in Hc. destruct Hc as [Hw Ha].
    apply Z.eqb_eq in Hk. apply Bool.negb_true_iff in Hd.
    exists (p_i p), (tok_of b (p_val p)). apply (cl_win b t k _ _ op p); auto. apply In_aget; assumption.
  - destruct P as ([g r] & Hin & Hc). cbn [fst snd] in Hc.
    apply andb_prop in Hc. destruct Hc as [Hc Hk]. apply andb_prop in Hc. destruct Hc as [Hw Ht].
    apply Z.eqb_eq in Hk, Ht.
    exists (lr_i r), (tok_of b (lr_val r)). apply (cl_ret b t k _ _ g r); auto. apply In_aget; assumption.
Qed.

(* the timed environment implies the environment of the untimed theorem *)
Lemma envT_env b te :
  Inv2 b -> LInv b -> TInv b -> ND b -> guards b te = [] -> envT_okb b te = true -> env_okb b te = true.
Proof.
  intros I2 IL IT N G E. destruct (guards_urgency b te G) as (Gt & Gd & _ & Hn).
  destruct te as [t e]. unfold envT_okb in E. cbn [fst snd] in *. apply andb_prop in E. destruct E as [F E].
  destruct e; cbn [env_okb snd fst]; try reflexivity; try exact E.
  - (* EInstDef *) apply andb_prop in E. destruct E as [E _]. apply andb_prop in E. destruct E as [E _]. apply andb_prop in E. destruct E as [E _]. exact E.
  - (* EExpire *)
    destruct (protectedb b t key) eqn:P; [exfalso|reflexivity].
    destruct (protected_claim b t key IL N P) as (i & tk & C).
    destruct (claim_age b t key i tk I2 IL IT Gt Gd F Hn C) as ((c & Hc & Hk) & Age).
    unfold no_early_expiry in E. rewrite forallb_forall in E. specialize (E (i, c) (aget_In _ _ _ Hc)). cbn [fst snd] in E.
    rewrite Hk, Z.eqb_refl in E. cbn in E. apply Z.leb_le in E.
    assert (Ec : cfg_of b i = c) by (unfold cfg_of; rewrite Hc; reflexivity). rewrite Ec in Age.
    destruct (t_cfg _ IT i c Hc) as (_ & Hb & _). lia.
Qed.

(* ---------------------------------------------------------------- the timing invariant, step by step *)
Definition hb_same (x' x : iobs) : Prop :=
  io_hb_ta x' = io_hb_ta x /\ io_hb_te x' = io_hb_te x /\ io_hb_op x' = io_hb_op x.

Lemma wt_same b b' k : b_wt b' = b_wt b -> wt_of b' k = wt_of b k.
Proof. intros H. unfold wt_of. rewrite H. reflexivity. Qed.

(* observations that leave the call tables, the write times and the configurations alone, and per instance keep the
   refresh clock, may only clear the claim or the shutdown mark *)
Lemma T_frame b b' :
  b_now b <= b_now b' -> b_cfgs b' = b_cfgs b -> b_wt b' = b_wt b -> b_pend b' = b_pend b -> b_rets b' = b_rets b -> b_done b' = b_done b ->
  (forall i, io_stop_t (inst_of b' i) = io_stop_t (inst_of b i)) ->
  (forall i, io_flag (inst_of b' i) = true ->
             io_flag (inst_of b i) = true /\ hb_same (inst_of b' i) (inst_of b i) /\
             (io_stopping (inst_of b' i) = true -> io_stopping (inst_of b i) = true)) ->
  TInv b -> TInv b'.
Proof.
  intros Hn Hc Hw Hp Hr Hd Hs Hf [T1 T2 T3 T4 T5 T6 T7 T8 T9].
  assert (Ec : forall i, cfg_of b' i = cfg_of b i) by (intros; apply cfg_same; exact Hc).
  assert (Ew : forall k, wt_of b' k = wt_of b k) by (intros; apply wt_same; exact Hw).
  constructor.
  - intros i c. rewrite Hc. apply T1.
  - intros k. rewrite Ew. pose proof (T2 k). lia.
  - intros op p. rewrite Hp. intros A. pose proof (T3 op p A). lia.
  - intros op p r v ta. rewrite Hp, Ew. apply T4.
  - intros g r. rewrite Hr, Ew, Ec. apply T5.
  - intros i. rewrite Hs. pose proof (T6 i). lia.
  - lia.
  - intros op. rewrite Hd, Hp. apply T8.
  - intros i F. destruct (Hf i F) as (F0 & (A & B & C) & S). cbv zeta. rewrite A, B, C, Ec, Ew, Hs, Hp.
    unfold is_done. rewrite Hd. fold (is_done b (io_hb_op (inst_of b i))).
    destruct (T9 i F0) as (X & Y & Z0). cbv zeta in X, Y, Z0. repeat split; auto.
    + apply X; assumption.
    + apply X; assumption.
    + apply X; assumption.
    + apply Y; assumption.
    + apply Y; assumption.
Qed.

Lemma timeout_ge_half H : 0 < H -> H - 1 <= 2 * gen_hb_update_timeout H.
Proof.
  intros Hp. unfold gen_hb_update_timeout. cbv zeta.
  pose proof (Z.quot_div_nonneg H 2 ltac:(lia) ltac:(lia)) as Q. pose proof (Z.div_mod H 2 ltac:(lia)) as D.
  pose proof (Z.mod_pos_bound H 2 ltac:(lia)) as M.
  destruct (H ÷ 2 <? 1 * 1000000000) eqn:E; [apply Z.ltb_lt in E|]; lia.
Qed.

Lemma T_instdef b t i key H TTL vi gr mh pr tk mo hh hd bt hp :
  LInv b -> TInv b -> b_now b <= t ->
  guards0 b (t, EInstDef i key H TTL vi gr mh pr tk mo hh hd bt hp) = [] ->
  envT_okb b (t, EInstDef i key H TTL vi gr mh pr tk mo hh hd bt hp) = true ->
  TInv (bapply b (t, EInstDef i key H TTL vi gr mh pr tk mo hh hd bt hp)).
Proof.
  intros IL [T1 T2 T3 T4 T5 T6 T7 T8 T9] Hn G E.
  cbn in G. destruct (aget (b_cfgs b) i) eqn:Hci; [discriminate|]. clear G.
  unfold envT_okb in E. cbn [fst snd] in E. apply andb_prop in E. destruct E as [_ E].
  apply andb_prop in E. destruct E as [E E4]. apply andb_prop in E. destruct E as [E E3]. apply andb_prop in E. destruct E as [_ E2].
  apply Z.ltb_lt in E3. apply Z.leb_le in E4. apply Bool.negb_true_iff in E2.
  cbn [bapply]. match goal with |- TInv ?x => set (b' := x) end.
  assert (Hc : forall j, aget (b_cfgs b') j = if i =? j then Some (mkICfg key H TTL vi gr mh pr (zb tk) (zb mo) (zb hh) (zb hd) bt (zb hp)) else aget (b_cfgs b) j)
    by (intros; apply aget_aset).
  assert (Hi : forall j, inst_of b' j = if i =? j then iobs0 else inst_of b j).
  { intros j. unfold inst_of. unfold b'. cbn. rewrite aget_aset. destruct (i =? j); reflexivity. }
  assert (Ec : forall j, j <> i -> cfg_of b' j = cfg_of b j).
  { intros j Hne. unfold cfg_of. rewrite Hc. destruct (Z.eqb_spec i j); [congruence|reflexivity]. }
  constructor.
  - intros j c. rewrite Hc. destruct (i =? j); [|apply T1]. intros X. inversion X. cbn. auto.
  - intros k. pose proof (T2 k). cbn. change (wt_of b' k) with (wt_of b k). lia.
  - intros op p A. pose proof (T3 op p A). cbn. lia.
  - exact T4.
  - intros g r A W. destruct (l_rcfg _ IL g r A) as [c Hcr].
    assert (Hne : lr_i r <> i) by (intros X; rewrite X in Hcr; congruence).
    rewrite (Ec _ Hne). apply (T5 g r A W).
  - intros j. rewrite Hi. destruct (i =? j); [cbn; lia|]. pose proof (T6 j). cbn. lia.
  - cbn. lia.
  - exact T8.
  - intros j F. rewrite Hi in F |- *. destruct (Z.eqb_spec i j) as [->|Hne]; [cbn in F; discriminate|].
    assert (Hne' : j <> i) by congruence. rewrite (Ec _ Hne'). apply (T9 j F).
Qed.

Definition hbcond (b : base) (i kind inner val : Z) : bool :=
  (kind =? kUpdate) && (inner =? sHeartbeat) && io_flag (inst_of b i) && (v_stok (vinfo_of b val) =? io_tok (inst_of b i)).

Lemma issue_shape3 b t i op kind inner root gid key val exp :
  let b' := bapply b (t, EIssue i op kind inner root gid key val exp) in
  b_now b' = t /\ b_rets b' = b_rets b /\ b_done b' = b_done b /\ b_wt b' = b_wt b /\ b_cfgs b' = b_cfgs b /\
  (forall j, inst_of b' j = if hbcond b i kind inner val && (i =? j)
                            then inst_of b i <| io_hb_ta := t |> <| io_hb_te := -1 |> <| io_hb_op := op |> <| io_hb_ok := false |>
                            else inst_of b j).
Proof.
  cbn [bapply]. unfold hbcond.
  change (inst_of (b <| b_now := t |>) i) with (inst_of b i). change (vinfo_of (b <| b_now := t |>) val) with (vinfo_of b val).
  destruct ((kind =? kUpdate) && (inner =? sHeartbeat) && io_flag (inst_of b i) && (v_stok (vinfo_of b val) =? io_tok (inst_of b i)));
    cbn; repeat split; auto; intros j.
  rewrite inst_of_upd. reflexivity.
Qed.

Lemma T_issue b t i op kind inner root gid key val exp :
  TInv b -> guards b (t, EIssue i op kind inner root gid key val exp) = [] -> fastb b t = true ->
  TInv (bapply b (t, EIssue i op kind inner root gid key val exp)).
Proof.
  intros IT G F. destruct (guards_urgency _ _ G) as (Gt & Gd & Go & Hn). cbn [fst] in *.
  apply guards_split in G. destruct G as (G & _).
  destruct (issue_shape b t i op kind inner root gid key val exp) as (Hp & _).
  destruct (issue_shape3 b t i op kind inner root gid key val exp) as (Ht & Hr & Hd & Hw & Hc & Hi).
  set (b' := bapply b (t, EIssue i op kind inner root gid key val exp)) in *.
  (* the call is new *)
  assert (Hnew : aget (b_pend b) op = None).
  { cbn in G. apply app_nil_l2 in G. destruct G as [G _]. destruct (aget (b_pend b) op); [discriminate|reflexivity]. }
  destruct IT as [T1 T2 T3 T4 T5 T6 T7 T8 T9].
  assert (Ec : forall j, cfg_of b' j = cfg_of b j) by (intros; apply cfg_same; exact Hc).
  assert (Ew : forall k, wt_of b' k = wt_of b k) by (intros; apply wt_same; exact Hw).
  assert (Hnd : is_done b op = false).
  { unfold is_done. destruct (existsb (Z.eqb op) (b_done b)) eqn:X; [|reflexivity].
    apply existsb_exists in X. destruct X as (o & Hin & Eo). apply Z.eqb_eq in Eo. subst o. destruct (T8 op Hin) as [p Hp']. congruence. }
  constructor.
  - intros j c. rewrite Hc. apply T1.
  - intros k. rewrite Ew, Ht. pose proof (T2 k). lia.
  - intros op' p. rewrite Hp, Ht. destruct (op =? op'); [intros X; inversion X; cbn; lia|]. intros A. pose proof (T3 op' p A). lia.
  - intros op' p r v ta. rewrite Hp, Ew. destruct (op =? op'); [intros X; inversion X; subst p; cbn; discriminate|]. apply T4.
  - intros g r. rewrite Hr, Ew, Ec. apply T5.
  - intros j. rewrite Hi, Ht. destruct (hbcond b i kind inner val && (i =? j)); [cbn|]; pose proof (T6 i); pose proof (T6 j); lia.
  - lia.
  - intros op'. rewrite Hd, Hp. intros Hin. destruct (op =? op'); [eauto|apply T8; exact Hin].
  - intros j Fj. rewrite Hi in Fj |- *. cbv zeta. rewrite Ec, Ew.
    destruct (hbcond b i kind inner val && (i =? j)) eqn:Hb.
    + (* a refresh attempt of the claiming instance starts now *)
      apply andb_prop in Hb. destruct Hb as [Hb Eij]. apply Z.eqb_eq in Eij. subst j.
      cbn [io_hb_ta io_hb_te io_hb_op io_stopping io_stop_t io_flag] in *.
      unfold hbcond in Hb. apply andb_prop in Hb. destruct Hb as [Hb Htok]. apply andb_prop in Hb. destruct Hb as [Hb Hfl].
      apply andb_prop in Hb. destruct Hb as [Hk Hin]. apply Z.eqb_eq in Hk, Hin. subst kind inner.
      destruct (T9 i Hfl) as (Tidle & Tfly & Tstop). cbv zeta in Tidle, Tfly, Tstop.
      (* the configuration of a claiming instance *)
      cbn in Go. change (tok_of b val) with (v_stok (vinfo_of b val)) in Go. rewrite Hfl, Htok in Go. cbn [andb] in Go.
      apply app_nil_l2 in Go. destruct Go as [Go _]. apply pwhen_nil in Go. apply Bool.negb_false_iff in Go.
      assert (Hcfg : exists c, aget (b_cfgs b) i = Some c).
      { cbn in G. apply app_nil_l2 in G. destruct G as [_ G]. apply app_nil_l2 in G. destruct G as [_ G]. apply app_nil_l2 in G. destruct G as [_ G].
        destruct (aget (b_cfgs b) i); [eauto|discriminate]. }
      destruct Hcfg as [c Hcf]. assert (Ecf : cfg_of b i = c) by (unfold cfg_of; rewrite Hcf; reflexivity).
      destruct (T1 i c Hcf) as (Hpos & _ & Hh). rewrite Ecf in *.
      pose proof (flat_map_nil _ _ (i, c) Gt (aget_In _ _ _ Hcf)) as Gt'. cbn [fst snd] in Gt'.
      pose proof (flat_map_nil _ _ (i, c) Gd (aget_In _ _ _ Hcf)) as Gd'. cbn [fst snd] in Gd'.
      rewrite Hfl in Gd'. cbn [andb] in Gd'.
      (* the previous attempt has ended: otherwise it would have timed out, which a fast store excludes *)
      assert (He : 0 <= io_hb_te (inst_of b i)).
      { apply Bool.orb_true_iff in Go. destruct Go as [Go|Go]; [apply Z.leb_le in Go; exact Go|]. apply Z.leb_le in Go.
        destruct (Z.ltb_spec (io_hb_te (inst_of b i)) 0) as [Ee|Ee]; [|exact Ee]. exfalso.
        destruct (Tfly Ee) as ((p & Hpp & Pt & Pd & Pi & Pk) & _).
        assert (Hkw : p_kind p <> kWatch) by (rewrite Pk; discriminate).
        pose proof (fast_pend b t _ p F Hpp Hkw Pd) as Ff. rewrite Pi, Ecf, Pt in Ff.
        pose proof (timeout_ge_half (ic_H c) Hpos). lia. }
      destruct (Tidle He) as (X & Y & Z0).
      assert (Hage : 2 * (t - wt_of b (ic_key c)) < 3 * ic_H c).
      { destruct (io_stopping (inst_of b i)) eqn:Es.
        - cbn [andb] in Gd'. apply pwhen_nil in Gd'. apply Z.ltb_ge in Gd'. pose proof (Tstop eq_refl). lia.
        - unfold ticking in Gt'. cbn [fst snd] in Gt'. rewrite Hfl, Es, Hh in Gt'. cbn [andb negb] in Gt'.
          apply pwhen_nil in Gt'. apply Z.ltb_ge in Gt'. unfold tick_due in Gt'. cbn [fst snd] in Gt'.
          destruct (io_hb_te (inst_of b i) <? 0) eqn:Ee; [apply Z.ltb_lt in Ee; lia|]. lia. }
      split; [|split].
      * intros Hz. cbn in Hz. lia.
      * intros _. split; [|cbn; lia].
        exists (mkPend i kUpdate sHeartbeat root gid key val exp t None).
        change (io_hb_op (inst_of b i <| io_hb_ta := t |> <| io_hb_te := -1 |> <| io_hb_op := op |> <| io_hb_ok := false |>)) with op.
        change (io_hb_ta (inst_of b i <| io_hb_ta := t |> <| io_hb_te := -1 |> <| io_hb_op := op |> <| io_hb_ok := false |>)) with t.
        rewrite Hp, Z.eqb_refl.
        unfold is_done. rewrite Hd. fold (is_done b op). repeat split; auto.
      * intros Es. cbn in Es |- *. pose proof (T6 i). lia.
    + (* everybody else, and calls that are not refreshes *)
      destruct (T9 j Fj) as (Tidle & Tfly & Tstop). cbv zeta in Tidle, Tfly, Tstop.
      split; [exact Tidle|split; [|exact Tstop]].
      intros Ee. destruct (Tfly Ee) as ((p & Hpp & Pt & Pd & Pi & Pk) & Tw). split; [|exact Tw].
      exists p. rewrite Hp. unfold is_done. rewrite Hd. fold (is_done b (io_hb_op (inst_of b j))).
      destruct (Z.eqb_spec op (io_hb_op (inst_of b j))) as [Eo|_]; [rewrite <- Eo in Hpp; congruence|]. repeat split; auto.
Qed.

Lemma wt_publish b key rev author val tomb how site exp k :
  wt_of (publish b key rev author val tomb how site exp) k = if key =? k then b_now b else wt_of b k.
Proof. unfold wt_of, publish. cbn. rewrite aget_aset. destruct (key =? k); reflexivity. Qed.

Lemma apply_wt b t op okind rev val p :
  aget (b_pend b) op = Some p ->
  forall k, wt_of (bapply b (t, EApply op okind rev val)) k = if writes okind (p_kind p) && (p_key p =? k) then t else wt_of b k.
Proof.
  intros Hop k. cbn [bapply]. change (b_pend (b <| b_now := t |>)) with (b_pend b). rewrite Hop. cbv zeta. unfold writes.
  destruct (okind =? oOk); [|reflexivity].
  destruct (p_kind p =? kCreate); [rewrite wt_publish; cbn [andb orb]; destruct (p_key p =? k); reflexivity|].
  destruct (p_kind p =? kUpdate); [rewrite wt_publish; cbn [andb orb]; destruct (p_key p =? k); reflexivity|].
  destruct (p_kind p =? kDelete); [rewrite wt_publish; cbn [andb orb]; destruct (p_key p =? k); reflexivity|].
  reflexivity.
Qed.

Lemma T_apply b t op okind rev val :
  TInv b -> b_now b <= t -> guards0 b (t, EApply op okind rev val) = [] ->
  TInv (bapply b (t, EApply op okind rev val)).
Proof.
  intros [T1 T2 T3 T4 T5 T6 T7 T8 T9] Hn G.
  destruct (aget (b_pend b) op) as [p|] eqn:Hop.
  2:{ cbn in G. rewrite Hop in G. discriminate. }
  destruct (apply_shape b t op okind rev val p Hop) as (Ht & Hr & Hd & _ & Hc & Hi & Hp & _).
  pose proof (apply_wt b t op okind rev val p Hop) as Hw.
  set (b' := bapply b (t, EApply op okind rev val)) in *.
  assert (Hnone : p_applied p = None).
  { cbn in G. rewrite Hop in G. apply app_nil_l2 in G. destruct G as [G _]. destruct (p_applied p); [discriminate|reflexivity]. }
  assert (Ec : forall j, cfg_of b' j = cfg_of b j) by (intros; apply cfg_same; exact Hc).
  assert (Ei : forall j, inst_of b' j = inst_of b j) by (intros; unfold inst_of; rewrite Hi; reflexivity).
  assert (Wm : forall k, wt_of b k <= wt_of b' k /\ wt_of b' k <= t).
  { intros k. rewrite Hw. pose proof (T2 k). destruct (writes okind (p_kind p) && (p_key p =? k)); lia. }
  constructor.
  - intros j c. rewrite Hc. apply T1.
  - intros k. rewrite Ht. apply Wm.
  - intros op' q. rewrite Hp, Ht. destruct (op =? op').
    + intros X. inversion X. cbn. pose proof (T3 op p Hop). lia.
    + intros A. pose proof (T3 op' q A). lia.
  - intros op' q r v ta. rewrite Hp. destruct (Z.eqb_spec op op') as [<-|Hne].
    + intros X. inversion X. subst q.
      change (p_applied (p <| p_applied := Some (okind, rev, val, t) |>)) with (Some (okind, rev, val, t)).
      change (p_kind (p <| p_applied := Some (okind, rev, val, t) |>)) with (p_kind p).
      change (p_t (p <| p_applied := Some (okind, rev, val, t) |>)) with (p_t p).
      change (p_key (p <| p_applied := Some (okind, rev, val, t) |>)) with (p_key p).
      intros Ea Hk. inversion Ea. subst okind r v ta.
      pose proof (T3 op p Hop). rewrite Hw. unfold writes. rewrite !Z.eqb_refl.
      assert (Hkk : ((p_kind p =? kCreate) || (p_kind p =? kUpdate) || (p_kind p =? kDelete)) = true).
      { destruct Hk as [K|K]; rewrite K; reflexivity. }
      rewrite Hkk. cbn [andb]. lia.
    + intros A Ea Hk. destruct (T4 op' q r v ta A Ea Hk) as [X Y]. split; [exact X|]. pose proof (Wm (p_key q)). lia.
  - intros g r. rewrite Hr, Ec. intros A W. destruct (T5 g r A W) as [X Y]. split; [exact X|]. pose proof (Wm (lr_key r)). lia.
  - intros j. rewrite Ei, Ht. pose proof (T6 j). lia.
  - lia.
  - intros op'. rewrite Hd, Hp. intros Hin. destruct (op =? op'); [eauto|apply T8; exact Hin].
  - intros j Fj. rewrite Ei in Fj |- *. cbv zeta. rewrite Ec.
    destruct (T9 j Fj) as (Tidle & Tfly & Tstop). cbv zeta in Tidle, Tfly, Tstop.
    pose proof (Wm (ic_key (cfg_of b j))) as Wk.
    split; [|split; [|exact Tstop]].
    + intros Hz. destruct (Tidle Hz) as (X & Y & Z0). repeat split; auto. lia.
    + intros Ee. destruct (Tfly Ee) as ((q & Hq & Pt & Pd & Pi & Pk) & Tw). split; [|lia].
      unfold is_done. rewrite Hd. fold (is_done b (io_hb_op (inst_of b j))). rewrite Hp.
      destruct (Z.eqb_spec op (io_hb_op (inst_of b j))) as [Eo|_].
      * rewrite <- Eo in Hq. rewrite Hop in Hq. inversion Hq. subst q.
        exists (p <| p_applied := Some (okind, rev, val, t) |>). repeat split; auto.
      * exists q. repeat split; auto.
Qed.

Definition view_cond (b : base) (t i op rk : Z) (p : pend) : bool :=
  (io_hb_op (inst_of b i) =? op) && (io_hb_te (inst_of b i) <? 0) &&
  ((p_kind p =? kUpdate) && (p_inner p =? sHeartbeat) && (rk =? oOk) && io_flag (inst_of b i)
   && (v_stok (vinfo_of b (p_val p)) =? io_tok (inst_of b i)) && (t - p_t p <? hb_update_timeout (ic_H (cfg_of b i)))).

Lemma ret_shape_hb b t i op rk rev val p :
  aget (b_pend b) op = Some p ->
  let b' := bapply b (t, ERet i op rk rev val) in
  b_wt b' = b_wt b /\
  (forall j, let x' := inst_of b' j in let x := inst_of b j in
     io_flag x' = io_flag x /\ io_hb_ta x' = io_hb_ta x /\ io_hb_op x' = io_hb_op x /\ io_stopping x' = io_stopping x /\ io_stop_t x' = io_stop_t x /\
     io_hb_te x' = (if (i =? j) && (io_hb_op x =? op) && (io_hb_te x <? 0) then t else io_hb_te x) /\
     io_acq_rev x' = io_acq_rev x /\ io_tok x' = io_tok x /\
     io_views x' = (if (i =? j) && view_cond b t i op rk p then (io_tok x, rev) :: io_views x else io_views x)).
Proof.
  intros Hop. cbn [bapply]. change (b_pend (b <| b_now := t |>)) with (b_pend b). rewrite Hop. cbv zeta. unfold view_cond.
  set (b1 := b <| b_now := t |> <| b_rets ::= _ |> <| b_done ::= _ |>).
  change (inst_of b1 i) with (inst_of b i).
  assert (E1 : forall j, inst_of b1 j = inst_of b j) by reflexivity.
  destruct ((io_hb_op (inst_of b i) =? op) && (io_hb_te (inst_of b i) <? 0)) eqn:Ecd.
  - set (b2 := upd_inst b1 i (fun x => x <| io_hb_te := t |>)).
    assert (E2 : forall j, inst_of b2 j = if i =? j then inst_of b i <| io_hb_te := t |> else inst_of b j).
    { intros j. unfold b2. rewrite inst_of_upd. reflexivity. }
    assert (Ei2 : inst_of b2 i = inst_of b i <| io_hb_te := t |>) by (rewrite E2, Z.eqb_refl; reflexivity).
    rewrite Ei2.
    change (vinfo_of b2 (p_val p)) with (vinfo_of b (p_val p)). change (cfg_of b2 i) with (cfg_of b i).
    change (io_flag (inst_of b i <| io_hb_te := t |>)) with (io_flag (inst_of b i)).
    change (io_tok (inst_of b i <| io_hb_te := t |>)) with (io_tok (inst_of b i)).
    cbn [andb].
    destruct ((p_kind p =? kUpdate) && (p_inner p =? sHeartbeat) && (rk =? oOk) && io_flag (inst_of b i)
              && (v_stok (vinfo_of b (p_val p)) =? io_tok (inst_of b i)) && (t - p_t p <? hb_update_timeout (ic_H (cfg_of b i)))).
    + split; [reflexivity|]. intros j. cbv zeta. rewrite inst_of_upd, !E2.
      destruct (Z.eqb_spec i j) as [->|Hne]; [rewrite Z.eqb_refl|]; cbn; rewrite ?Ecd; repeat split; reflexivity.
    + split; [reflexivity|]. intros j. cbv zeta. rewrite E2.
      destruct (Z.eqb_spec i j) as [->|Hne]; cbn; rewrite ?Ecd; repeat split; reflexivity.
  - cbn [andb]. split; [reflexivity|]. intros j. cbv zeta. rewrite E1.
    destruct (Z.eqb_spec i j) as [->|Hne]; cbn; rewrite ?Ecd; repeat split; reflexivity.
Qed.

Lemma T_ret b t i op rk rev val :
  Inv2 b -> TInv b -> b_now b <= t -> guards0 b (t, ERet i op rk rev val) = [] -> fastb b t = true ->
  envT_okb b (t, ERet i op rk rev val) = true ->
  TInv (bapply b (t, ERet i op rk rev val)).
Proof.
  intros I2 [T1 T2 T3 T4 T5 T6 T7 T8 T9] Hn G F E.
  destruct (aget (b_pend b) op) as [p|] eqn:Hop.
  2:{ cbn in G. rewrite Hop in G. discriminate. }
  destruct (ret_shape b t i op rk rev val p Hop) as (Ht & Hp & Hd & _ & _ & Hc & Hr & _).
  destruct (ret_shape_hb b t i op rk rev val p Hop) as (Hw & Hx).
  set (b' := bapply b (t, ERet i op rk rev val)) in *.
  cbn in G. rewrite Hop in G. apply app_nil_l2 in G. destruct G as [Gi G]. apply app_nil_l2 in G. destruct G as [Gd G].
  apply pwhen_nil in Gi. apply Bool.negb_false_iff in Gi. apply Z.eqb_eq in Gi. apply pwhen_nil in Gd.
  fold (is_done b op) in Gd.
  unfold envT_okb in E. cbn [fst snd] in E. apply andb_prop in E. destruct E as [_ E]. apply andb_prop in E. destruct E as [Erk Ehb].
  apply Z.ltb_lt in Erk.
  assert (Ec : forall j, cfg_of b' j = cfg_of b j) by (intros; apply cfg_same; exact Hc).
  assert (Ew : forall k, wt_of b' k = wt_of b k) by (intros; apply wt_same; exact Hw).
  destruct (i2_key _ I2 op p Hop) as [Kk [c Hcf]]. rewrite Gi in Kk, Hcf.
  assert (Ecf : cfg_of b i = c) by (unfold cfg_of; rewrite Hcf; reflexivity).
  (* what a successful return of a write says about the write *)
  assert (Hwr : rk = oOk -> (p_kind p = kCreate \/ p_kind p = kUpdate) -> p_t p <= wt_of b (p_key p) /\ 2 * (t - p_t p) + 1 < ic_H c).
  { intros -> Hk.
    assert (Ewt : p_kind p =? kWatch = false) by (destruct Hk as [K|K]; rewrite K; reflexivity).
    rewrite Ewt in G. change (oOk <? 10) with true in G. cbn [andb negb] in G.
    destruct (p_applied p) as [[[[ok r0] v0] ta]|] eqn:Ea; [|discriminate].
    apply pwhen_nil in G. apply Bool.negb_false_iff in G.
    apply andb_prop in G. destruct G as [G _]. apply andb_prop in G. destruct G as [G _]. apply Z.eqb_eq in G. subst ok.
    destruct (T4 op p r0 v0 ta Hop Ea Hk) as [X Y].
    assert (Hkw : p_kind p <> kWatch) by (destruct Hk as [K|K]; rewrite K; discriminate).
    pose proof (fast_pend b t op p F Hop Hkw Gd) as Ff. rewrite Gi, Ecf in Ff. split; lia. }
  constructor.
  - intros j c0. rewrite Hc. apply T1.
  - intros k. rewrite Ew, Ht. pose proof (T2 k). lia.
  - intros op' q. rewrite Hp, Ht. intros A. pose proof (T3 op' q A). lia.
  - intros op' q r v ta. rewrite Hp, Ew. apply T4.
  - intros g r. rewrite Hr, Ew, Ec. destruct (p_gid p =? g); [|apply T5].
    intros X W. inversion X. subst r. clear X. cbn [lr_key lr_i lr_t].
    unfold lr_won in W. cbn [lr_kind lr_inner lr_rk] in W. apply andb_prop in W. destruct W as [W Ok]. apply Z.eqb_eq in Ok.
    assert (Hk : p_kind p = kCreate \/ p_kind p = kUpdate) by (destruct (wonkind_cases p W) as [K|[K _]]; auto).
    destruct (Hwr Ok Hk) as [X Y]. rewrite Ecf. rewrite Ecf in Kk. split; [exact Kk|]. lia.
  - intros j. destruct (Hx j) as (_ & _ & _ & _ & S & _ & _). cbv zeta in S. rewrite S, Ht. pose proof (T6 j). lia.
  - lia.
  - intros op'. rewrite Hd, Hp. intros [<-|Hin]; [eauto|apply T8; exact Hin].
  - intros j Fj. destruct (Hx j) as (Xf & Xa & Xo & Xs & Xst & Xe & _). cbv zeta in Xf, Xa, Xo, Xs, Xst, Xe.
    rewrite Xf in Fj. cbv zeta. rewrite Xa, Xo, Xs, Xst, Xe, Ec, Ew.
    destruct (T9 j Fj) as (Tidle & Tfly & Tstop). cbv zeta in Tidle, Tfly, Tstop.
    destruct ((i =? j) && (io_hb_op (inst_of b j) =? op) && (io_hb_te (inst_of b j) <? 0)) eqn:Ecd.
    + (* the answer to the refresh attempt in flight *)
      apply andb_prop in Ecd. destruct Ecd as [Ecd Ee]. apply andb_prop in Ecd. destruct Ecd as [Eij Eo].
      apply Z.eqb_eq in Eij, Eo. apply Z.ltb_lt in Ee. subst j.
      destruct (Tfly Ee) as ((q & Hq & Pt & Pd & Pi & Pk) & Tw). rewrite Eo, Hop in Hq. inversion Hq. subst q.
      assert (Hok : rk = oOk).
      { rewrite Fj, Eo, Z.eqb_refl in Ehb. apply Z.ltb_lt in Ee. rewrite Ee in Ehb. cbn in Ehb. apply Z.eqb_eq in Ehb. exact Ehb. }
      destruct (Hwr Hok (or_intror Pk)) as [X Y]. rewrite Ecf, <- Kk in *. pose proof (T3 op p Hop).
      split; [|split; [intros; lia|exact Tstop]].
      intros _. lia.
    + split; [exact Tidle|split; [|exact Tstop]].
      intros Ee. destruct (Tfly Ee) as ((q & Hq & Pt & Pd & Pi & Pk) & Tw). split; [|exact Tw].
      exists q. rewrite Hp. repeat split; auto.
      unfold is_done. rewrite Hd. cbn [existsb]. fold (is_done b (io_hb_op (inst_of b j))). rewrite Pd, Bool.orb_false_r.
      apply Z.eqb_neq. intros Eo.
      (* the attempt in flight of j is this call: then j is the caller *)
      rewrite Eo, Hop in Hq. inversion Hq. subst q. rewrite Gi in Pi. subst j.
      rewrite Z.eqb_refl, Eo, Z.eqb_refl in Ecd. apply Z.ltb_lt in Ee. rewrite Ee in Ecd. discriminate.
Qed.

Ltac split_ij j :=
  match goal with |- context [?a =? j] => destruct (Z.eqb_spec a j) as [?E|?E]; [subst j|] end.
Ltac frame_inst Hn :=
  apply (T_frame _ _); try reflexivity; try exact Hn;
  [ intros j; rewrite inst_of_upd; split_ij j; reflexivity
  | intros j; rewrite inst_of_upd; split_ij j;
    cbn; intros ?F; repeat split; auto; try discriminate ].

Lemma T_flag b t i fl cause root gid :
  LInv b -> TInv b -> b_now b <= t -> guards0 b (t, EFlag i fl cause root gid) = [] ->
  TInv (bapply b (t, EFlag i fl cause root gid)).
Proof.
  intros IL IT Hn G. cbn in G. cbn [bapply]. destruct (zb fl) eqn:Efl.
  2:{ revert IT. frame_inst Hn. }
  apply app_nil_l2 in G. destruct G as [_ G]. apply app_nil_l2 in G. destruct G as [_ G]. apply app_nil_l2 in G. destruct G as [_ G].
  change (b_rets (b <| b_now := t |>)) with (b_rets b).
  destruct (aget (b_rets b) gid) as [r|] eqn:Hg; [|discriminate].
  apply app_nil_l2 in G. destruct G as [G1 G2]. apply pwhen_nil in G1. apply pwhen_nil in G2.
  apply Bool.negb_false_iff in G1, G2. cbn [fst] in G2. apply Z.eqb_eq in G2.
  apply andb_prop in G1. destruct G1 as [G1 Gk]. apply andb_prop in G1. destruct G1 as [Gw Gi]. apply Z.eqb_eq in Gk, Gi.
  destruct IT as [T1 T2 T3 T4 T5 T6 T7 T8 T9].
  match goal with |- TInv ?x => set (b' := x) end.
  assert (Hi : forall j, inst_of b' j = if i =? j then
            inst_of b i <| io_flag := true |> <| io_tok := v_stok (vinfo_of b (lr_val r)) |> <| io_acq_rev := lr_rev r |>
                        <| io_terms ::= Z.succ |> <| io_views ::= cons (v_stok (vinfo_of b (lr_val r)), lr_rev r) |>
                        <| io_hb_ta := t |> <| io_hb_te := t |> <| io_hb_op := 0 |> <| io_hb_ok := true |> else inst_of b j).
  { intros j. unfold b'. rewrite inst_of_upd. reflexivity. }
  destruct (l_rcfg _ IL gid r Hg) as [c Hcf]. rewrite Gi in Hcf.
  assert (Ecf : cfg_of b i = c) by (unfold cfg_of; rewrite Hcf; reflexivity).
  destruct (T1 i c Hcf) as (Hpos & _ & _).
  destruct (T5 gid r Hg Gw) as [_ Tr]. rewrite Gi, Gk, G2, Ecf in Tr.
  constructor; try assumption.
  - intros k. pose proof (T2 k). change (wt_of b' k) with (wt_of b k). cbn. lia.
  - intros op p A. pose proof (T3 op p A). cbn. lia.
  - intros j. rewrite Hi. destruct (i =? j); cbn; pose proof (T6 i); pose proof (T6 j); lia.
  - cbn. lia.
  - intros j Fj. rewrite Hi in Fj |- *. cbv zeta. change (cfg_of b' j) with (cfg_of b j).
    destruct (Z.eqb_spec i j) as [Eij|Hne]; [subst j|apply (T9 j Fj)].
    rewrite Ecf. change (wt_of b' (ic_key c)) with (wt_of b (ic_key c)). cbn.
    split; [intros _; lia|split; [intros; lia|]]. intros _. pose proof (T6 i). lia.
Qed.

(* a shutdown begins *)
Lemma T_api b t i call a1 a2 a3 a4 gid :
  TInv b -> guards b (t, EApi i call a1 a2 a3 a4 gid) = [] -> fastb b t = true ->
  TInv (bapply b (t, EApi i call a1 a2 a3 a4 gid)).
Proof.
  intros IT G F. destruct (guards_urgency _ _ G) as (Gt & Gd & _ & Hn). cbn [fst] in *.
  cbn [bapply]. destruct ((call =? aStop) || (call =? aStopCtx) || (call =? 8)).
  2:{ revert IT. apply (T_frame _ _); try reflexivity; try exact Hn. intros j Fj. repeat split; auto. }
  destruct IT as [T1 T2 T3 T4 T5 T6 T7 T8 T9].
  match goal with |- TInv ?x => set (b' := x) end.
  assert (Hi : forall j, inst_of b' j = if i =? j then
            inst_of b i <| io_stopping := true |> <| io_stop_t := (if io_stopping (inst_of b i) then io_stop_t (inst_of b i) else t) |> else inst_of b j).
  { intros j. unfold b'. rewrite inst_of_upd. reflexivity. }
  constructor; try assumption.
  - intros k. pose proof (T2 k). change (wt_of b' k) with (wt_of b k). cbn. lia.
  - intros op p A. pose proof (T3 op p A). cbn. lia.
  - intros j. rewrite Hi. pose proof (T6 i). pose proof (T6 j). destruct (i =? j); cbn; [destruct (io_stopping (inst_of b i))|]; lia.
  - cbn. lia.
  - intros j Fj. rewrite Hi in Fj |- *. cbv zeta. change (cfg_of b' j) with (cfg_of b j). change (wt_of b' (ic_key (cfg_of b j))) with (wt_of b (ic_key (cfg_of b j))).
    destruct (Z.eqb_spec i j) as [Eij|Hne]; [subst j|apply (T9 j Fj)].
    cbn in Fj. destruct (T9 i Fj) as (Tidle & Tfly & Tstop). cbv zeta in Tidle, Tfly, Tstop.
    cbn. split; [exact Tidle|split; [exact Tfly|]]. intros _.
    destruct (io_stopping (inst_of b i)) eqn:Es; [apply Tstop; reflexivity|].
    (* the shutdown begins now, while the refresh loop was on time *)
    destruct (aget (b_cfgs b) i) as [c|] eqn:Hcf.
    2:{ (* a claiming instance is configured: otherwise its interval is 0 and the clock facts are contradictory *)
        exfalso. unfold cfg_of in Tidle, Tfly. rewrite Hcf in Tidle, Tfly. cbn in Tidle, Tfly.
        destruct (Z.ltb_spec (io_hb_te (inst_of b i)) 0) as [Ee|Ee].
        - destruct (Tfly Ee) as ((p & Hp & Pt & Pd & Pi & Pk) & _).
          assert (Hkw : p_kind p <> kWatch) by (rewrite Pk; discriminate).
          pose proof (fast_pend b t _ p F Hp Hkw Pd) as Ff. rewrite Pi in Ff. unfold cfg_of in Ff. rewrite Hcf in Ff. cbn in Ff.
          pose proof (T3 _ p Hp). lia.
        - destruct (Tidle Ee) as (X & Y & _). lia. }
    assert (Ecf : cfg_of b i = c) by (unfold cfg_of; rewrite Hcf; reflexivity). rewrite Ecf in *.
    destruct (T1 i c Hcf) as (Hpos & _ & Hh).
    pose proof (flat_map_nil _ _ (i, c) Gt (aget_In _ _ _ Hcf)) as Gt'. cbn [fst snd] in Gt'.
    unfold ticking in Gt'. cbn [fst snd] in Gt'. rewrite Fj, Es, Hh in Gt'. cbn [andb negb] in Gt'.
    apply pwhen_nil in Gt'. apply Z.ltb_ge in Gt'. unfold tick_due in Gt'. cbn [fst snd] in Gt'.
    destruct (io_hb_te (inst_of b i) <? 0) eqn:Ee.
    + apply Z.ltb_lt in Ee. destruct (Tfly Ee) as ((p & Hp & Pt & Pd & Pi & Pk) & _).
      assert (Hkw : p_kind p <> kWatch) by (rewrite Pk; discriminate).
      pose proof (fast_pend b t _ p F Hp Hkw Pd) as Ff. rewrite Pi, Ecf, Pt in Ff. lia.
    + apply Z.ltb_ge in Ee. destruct (Tidle Ee) as (X & Y & Z0). lia.
Qed.

(* ---------------------------------------------------------------- every observation *)
Ltac t_quiet IT Hn :=
  cbn [bapply];
  repeat match goal with |- TInv (if ?c then _ else _) => destruct c end;
  revert IT;
  first [ apply (T_frame _ _); try reflexivity; try exact Hn; [intros j Fj; repeat split; auto]
        | apply (T_frame _ _); try reflexivity; try exact Hn;
          [ intros j; rewrite inst_of_upd; split_ij j; reflexivity
          | intros j; rewrite inst_of_upd; split_ij j; cbn; intros ?F; repeat split; auto; try discriminate; try (intros; discriminate) ] ].

Lemma T_step b te :
  Inv2 b -> LInv b -> TInv b -> guards b te = [] -> envT_okb b te = true -> TInv (bapply b te).
Proof.
  intros I2 IL IT G E. pose proof (guards_urgency _ _ G) as (_ & _ & _ & Hn).
  pose proof (guards_split _ _ G) as (G0 & _).
  assert (F : fastb b (fst te) = true) by (unfold envT_okb in E; apply andb_prop in E; tauto).
  destruct te as [t e]. cbn [fst] in *.
  destruct e.
  - apply T_instdef; assumption.
  - t_quiet IT Hn.
  - apply T_issue; assumption.
  - apply T_apply; assumption.
  - apply T_ret; assumption.
  - apply T_flag; assumption.
  - t_quiet IT Hn.
  - t_quiet IT Hn.
  - t_quiet IT Hn.
  - t_quiet IT Hn.
  - t_quiet IT Hn.
  - t_quiet IT Hn.
  - t_quiet IT Hn.
  - t_quiet IT Hn.
  - apply T_api; assumption.
  - t_quiet IT Hn.
  - t_quiet IT Hn.
  - t_quiet IT Hn.
  - t_quiet IT Hn.
  - t_quiet IT Hn.
  - unfold envT_okb in E. cbn in E. rewrite Bool.andb_false_r in E. discriminate.
  - unfold envT_okb in E. cbn in E. rewrite Bool.andb_false_r in E. discriminate.
  - t_quiet IT Hn.
  - t_quiet IT Hn.
  - t_quiet IT Hn.
  - t_quiet IT Hn.
  - t_quiet IT Hn.
  - t_quiet IT Hn.
  - t_quiet IT Hn.
  - t_quiet IT Hn.
  - t_quiet IT Hn.
  - t_quiet IT Hn.
  - t_quiet IT Hn.
  - t_quiet IT Hn.
  - t_quiet IT Hn.
Qed.

Lemma admitted_prefix4 tr : forall b, Inv b -> Inv2 b -> LInv b -> TInv b -> ND b ->
  admits b tr = true -> envT_admits b tr = true ->
  forall pre te post, tr = pre ++ te :: post -> LInv (bapply (fold_left bapply pre b) te).
Proof.
  induction tr as [|x tr IH]; intros b I I2 IL IT N A E pre te post Eq.
  - destruct pre; discriminate.
  - cbn in A, E. destruct (guards b x) eqn:G; [|discriminate]. apply andb_prop in E. destruct E as [E1 E2].
    pose proof (envT_env b x I2 IL IT N G E1) as E0.
    pose proof (L_step b x I I2 IL G E0) as IL'.
    destruct pre as [|y pre]; cbn in Eq.
    + inversion Eq. subst x post. cbn. exact IL'.
    + inversion Eq. subst y. cbn [fold_left].
      pose proof (T_step b x I2 IL IT G E1) as IT'.
      apply guards_split in G. destruct G as [G _].
      eapply IH; eauto; [apply Inv_step|apply Inv2_step|apply ND_step]; assumption.
Qed.

(* C02 in the environment the property names *)
Theorem C02_mutual_exclusion_fast_store tr :
  admits base0 tr = true -> envT_admits base0 tr = true ->
  forall pre te post, tr = pre ++ te :: post ->
    ~ In 201 (mon_C02 (bapply (brun pre) te) te) /\ ~ In 202 (mon_C02 (bapply (brun pre) te) te).
Proof.
  intros A E pre te post Eq. apply C02_monitor.
  apply (admitted_prefix4 tr base0 Inv0 Inv2_0 LInv0 TInv0 ND0 A E pre te post Eq).
Qed.

(* non-vacuity: the recorded trace of the real library lies in this environment too *)
From LE Require Import Witness2.
Lemma lease_witness_envT : envT_admits base0 lease_witness = true.
Proof. vm_compute. reflexivity. Qed.
