(* Proofs about the generated CalculateBackoff / CircuitBreaker.Call and about the
   model of RetryWithBackoff (property C17). *)
From Coq Require Import QArith Qpower Qminmax Lqa Lia.
From LE Require Import Base Retry RetrySpec GenBackoff.
Open Scope Z_scope.

(** ---------------- rational helpers ---------------- *)
Lemma jitter_bounds : forall b J r : Q,
  (0 <= b -> 0 <= J -> J <= 1 -> 0 <= r -> r < 1 ->
   let f := b + b * J * (r * inject_Z 2 - inject_Z 1) in
   b * (1 - J) <= f /\ f <= b * (1 + J) /\ 0 <= f)%Q.
Proof.
  intros b J r Hb HJ0 HJ1 Hr0 Hr1 f. subst f.
  change (inject_Z 2) with 2%Q. change (inject_Z 1) with 1%Q.
  assert (H0 : (0 <= b * J)%Q) by (apply Qmult_le_0_compat; assumption).
  assert (H1 : (b * J <= b)%Q) by nra.
  repeat split; nra.
Qed.

Lemma qtrunc_bounds : forall q, (0 <= q)%Q ->
  0 <= qtrunc q /\ (inject_Z (qtrunc q) <= q)%Q /\ (q < inject_Z (qtrunc q) + 1)%Q.
Proof.
  intros [n d] Hq. unfold qtrunc, Qle, Qlt in *. cbn in *.
  assert (Hn : 0 <= n) by lia.
  rewrite Z.quot_div_nonneg by lia.
  pose proof (Z.div_mod n (Zpos d) ltac:(lia)) as Hdm.
  pose proof (Z.mod_pos_bound n (Zpos d) ltac:(lia)) as Hm.
  pose proof (Z.div_pos n (Zpos d) Hn ltac:(lia)) as Hdp.
  repeat split; try lia; try nia.
Qed.

Lemma Qlt_bool_false : forall a b, Qlt_bool a b = false -> (b <= a)%Q.
Proof.
  intros a b H. destruct (Qlt_le_dec a b) as [Hl|Hl]; [|exact Hl].
  apply Qlt_bool_iff in Hl. congruence.
Qed.
Lemma Qle_bool_false : forall a b, Qle_bool a b = false -> (b < a)%Q.
Proof.
  intros a b H. destruct (Qlt_le_dec b a) as [Hl|Hl]; [exact Hl|].
  apply Qle_bool_iff in Hl. congruence.
Qed.

(** ---------------- CalculateBackoff ---------------- *)
Lemma calculate_backoff_within : forall c n r,
  bcfg_ok c -> 0 <= n -> (0 <= r)%Q -> (r < 1)%Q ->
  backoff_within c n (calculate_backoff c n r).
Proof.
  intros c n r (HI & (HM0 & HM1) & Hm & HJ0 & HJ1) Hn Hr0 Hr1.
  unfold backoff_within, backoff_base, calculate_backoff.
  set (p := Qpower (b_BackoffMultiplier c) n).
  assert (Hp : (0 <= p)%Q) by (apply Qpower_0_le; exact Hm).
  set (I := inject_Z (b_InitialBackoff c)). set (M := inject_Z (b_MaxBackoff c)). set (J := b_Jitter c).
  assert (HIq : (0 <= I)%Q) by (unfold I; rewrite <- (Zle_Qle 0); exact HI).
  assert (HMq : (0 <= M)%Q) by (unfold M; rewrite <- (Zle_Qle 0); exact HM0).
  assert (HMlt : (M < inject_Z two63)%Q) by (unfold M; rewrite <- Zlt_Qlt; exact HM1).
  assert (Hb0 : (0 <= I * p)%Q) by (apply Qmult_le_0_compat; assumption).
  cbv zeta.
  (* the capped value b, with b == Qmin M (I*p) *)
  remember (if Qlt_bool M (if false then inject_Z 0 else (I * p)%Q) then M else if false then inject_Z 0 else (I * p)%Q) as b eqn:Eb.
  assert (Hb : (0 <= b)%Q /\ (b == Qmin M (I * p))%Q /\ (b <= M)%Q).
  { cbv iota in Eb. destruct (Qlt_bool M (I * p)) eqn:Hc; subst b.
    - apply Qlt_bool_iff in Hc. repeat split; try assumption; try apply Qle_refl.
      symmetry. apply Q.min_l. apply Qlt_le_weak. exact Hc.
    - apply Qlt_bool_false in Hc. repeat split; try assumption.
      symmetry. apply Q.min_r. exact Hc. }
  destruct Hb as (Hb & Hbm & HbM).
  destruct (jitter_bounds b J r Hb HJ0 HJ1 Hr0 Hr1) as (Hlo & Hhi & Hf0).
  set (f := (b + b * J * (r * inject_Z 2 - inject_Z 1))%Q) in *.
  assert (Hneg : Qlt_bool f (inject_Z 0) = false).
  { destruct (Qlt_bool f (inject_Z 0)) eqn:Hc; [|reflexivity].
    apply Qlt_bool_iff in Hc. change (inject_Z 0) with 0%Q in Hc. exfalso. lra. }
  rewrite Hneg.
  rewrite <- Hbm.
  destruct (Qle_bool (inject_Z 9223372036854775807) f) eqn:Hclamp.
  - (* clamped to MaxInt64 *)
    apply Qle_bool_iff in Hclamp.
    assert (Hx : (inject_Z 9223372036854775807 == inject_Z two63 - 1)%Q) by reflexivity.
    repeat split; [lia | lra | lra].
  - apply Qle_bool_false in Hclamp.
    destruct (qtrunc_bounds f Hf0) as (Ht0 & Ht1 & Ht2).
    repeat split; [exact Ht0 | lra | lra].
Qed.

(** ---------------- circuit breaker ---------------- *)
Definition cb_wf (cb : breaker) (now : Z) : Prop :=
  0 <= cb_fail cb < two63 - 1 /\ in_int64 (now - cb_last cb).

Lemma cb_call_spec : forall cb now ff, cb_wf cb now -> cb_call cb now ff = cb_spec_step cb now ff.
Proof.
  intros [thr cd st f last] now ff [Hf Hd]. cbn in Hf, Hd.
  unfold cb_call, cb_spec_step. cbn [cb_threshold cb_cooldown cb_st cb_fail cb_last].
  rewrite (wrap64_id (now - last)) by exact Hd.
  rewrite (wrap64_id (f + 1)) by (unfold in_int64, two63 in *; lia).
  cbv zeta.
  destruct st; cbn [cbstate_eqb andb];
    destruct (now - last <? cd) eqn:Hc; destruct ff; cbn [andb];
      try reflexivity;
      destruct (thr <=? f + 1); reflexivity.
Qed.

(** failing [k] times in a row from a closed breaker with no recorded failures *)
Fixpoint fail_times (cb : breaker) (nows : list Z) : breaker :=
  match nows with
  | [] => cb
  | t :: rest => fail_times (snd (cb_spec_step cb t true)) rest
  end.

Lemma fail_times_closed : forall nows cb,
  cb_st cb = CBClosed -> 0 <= cb_fail cb ->
  cb_fail cb + Z.of_nat (List.length nows) < cb_threshold cb ->
  cb_st (fail_times cb nows) = CBClosed /\
  cb_fail (fail_times cb nows) = cb_fail cb + Z.of_nat (List.length nows) /\
  cb_threshold (fail_times cb nows) = cb_threshold cb.
Proof.
  induction nows as [|t rest IH]; intros cb Hst Hf Hlt; cbn [fail_times List.length] in *.
  - repeat split; try assumption; lia.
  - unfold cb_spec_step at 1 2 3. rewrite Hst. cbn [cbstate_eqb andb snd].
    destruct (cb_threshold cb <=? cb_fail cb + 1) eqn:Hc; [apply Z.leb_le in Hc; lia|].
    cbn [snd].
    specialize (IH (mkCB (cb_threshold cb) (cb_cooldown cb) CBClosed (cb_fail cb + 1) t)).
    cbn [cb_st cb_fail cb_threshold] in IH.
    destruct IH as (A & B & C); [reflexivity | lia | lia |].
    repeat split; [exact A | lia | exact C].
Qed.

Lemma opens_at_threshold : forall nows t cb,
  cb_st cb = CBClosed -> cb_fail cb = 0 -> 1 <= cb_threshold cb ->
  Z.of_nat (List.length nows) + 1 = cb_threshold cb ->
  cb_st (fail_times cb nows) = CBClosed /\
  cb_st (fail_times cb (nows ++ [t])) = CBOpen /\
  cb_last (fail_times cb (nows ++ [t])) = t.
Proof.
  intros nows t cb Hst Hf Hthr Hlen.
  destruct (fail_times_closed nows cb Hst ltac:(lia) ltac:(lia)) as (A & B & C).
  split; [exact A|].
  assert (E : forall l cb0, fail_times cb0 (l ++ [t]) = snd (cb_spec_step (fail_times cb0 l) t true)).
  { induction l as [|x l IHl]; intros cb0; cbn [fail_times app]; [reflexivity | apply IHl]. }
  rewrite E. unfold cb_spec_step. rewrite A. cbn [cbstate_eqb andb].
  rewrite B, C, Hf.
  destruct (cb_threshold cb <=? 0 + Z.of_nat (List.length nows) + 1) eqn:Hc; [|apply Z.leb_gt in Hc; lia].
  cbn. split; reflexivity.
Qed.

Lemma open_rejects_within_cooldown : forall cb now ff,
  cb_st cb = CBOpen -> now - cb_last cb < cb_cooldown cb ->
  cb_spec_step cb now ff = (CRRejected, cb).
Proof.
  intros cb now ff Hst Hlt. unfold cb_spec_step. rewrite Hst. cbn [cbstate_eqb andb].
  apply Z.ltb_lt in Hlt. rewrite Hlt. reflexivity.
Qed.

Lemma success_closes : forall cb now r cb',
  cb_spec_step cb now false = (r, cb') -> r <> CRRejected ->
  r = CROk /\ cb_st cb' = CBClosed /\ cb_fail cb' = 0.
Proof.
  intros cb now r cb' H Hr. unfold cb_spec_step in H.
  destruct (cbstate_eqb (cb_st cb) CBOpen && (now - cb_last cb <? cb_cooldown cb))%bool.
  - inversion H; subst. congruence.
  - inversion H; subst. repeat split.
Qed.

(** ---------------- RetryWithBackoff model ---------------- *)
Lemma retry_invocations_le_max : forall script max a n w r,
  0 < max -> 0 <= a -> retry_loop max a script = (n, w, r) -> Z.of_nat n <= Z.max 1 (max - a).
Proof.
  induction script as [|it rest IH]; intros max a n w r Hm Ha H; cbn [retry_loop] in H.
  - inversion H; subst. lia.
  - destruct (it_cancelled_before it); [inversion H; subst; lia|].
    destruct (it_res it); try (inversion H; subst; lia).
    destruct ((0 <? max) && (max - 1 <=? a))%bool eqn:Hc; [inversion H; subst; lia|].
    destruct (it_cancelled_in_wait it); [inversion H; subst; lia|].
    destruct (retry_loop max (a + 1) rest) as [[n' w'] r'] eqn:Hr.
    inversion H; subst.
    specialize (IH max (a + 1) n' w' r Hm ltac:(lia) Hr).
    apply andb_false_iff in Hc. destruct Hc as [Hc|Hc].
    + apply Z.ltb_ge in Hc. lia.
    + apply Z.leb_gt in Hc. lia.
Qed.

(** every invocation except the last one returned a transient error and was not
    interrupted: i.e. nothing is invoked after a success, a permanent error or a
    cancellation; and the waits are exactly the backoffs of attempts a, a+1, ... *)
Lemma retry_prefix_transient : forall script max a n w r,
  retry_loop max a script = (n, w, r) ->
  w = map (fun k => a + Z.of_nat k) (seq 0 (List.length w)) /\
  (pred n <= List.length w <= n)%nat /\
  (forall k, (k < pred n)%nat ->
     exists it, nth_error script k = Some it /\ it_res it = FTransient /\
                it_cancelled_before it = false /\ it_cancelled_in_wait it = false) /\
  (n <= List.length script)%nat.
Proof.
  assert (T : forall (script : list iter) a n, (n <= 1)%nat ->
              (n <= List.length script)%nat ->
              @nil Z = map (fun k => a + Z.of_nat k) (seq 0 (List.length (@nil Z))) /\
              (pred n <= List.length (@nil Z) <= n)%nat /\
              (forall k, (k < pred n)%nat ->
                 exists it, nth_error script k = Some it /\ it_res it = FTransient /\
                            it_cancelled_before it = false /\ it_cancelled_in_wait it = false) /\
              (n <= List.length script)%nat).
  { intros script a n Hn Hl. cbn.
    split; [reflexivity|]. split; [lia|]. split; [intros k Hk; lia | exact Hl]. }
  induction script as [|it rest IH]; intros max a n w r H; cbn [retry_loop] in H.
  - inversion H; subst. apply T; cbn; lia.
  - destruct (it_cancelled_before it) eqn:Hcb; [inversion H; subst; apply T; cbn; lia|].
    destruct (it_res it) eqn:Hres; try (inversion H; subst; apply T; cbn; lia).
    destruct ((0 <? max) && (max - 1 <=? a))%bool; [inversion H; subst; apply T; cbn; lia|].
    destruct (it_cancelled_in_wait it) eqn:Hcw; [inversion H; subst; apply T; cbn; lia|].
    destruct (retry_loop max (a + 1) rest) as [[n' w'] r'] eqn:Hr.
    inversion H; subst. clear H.
    destruct (IH max (a + 1) n' w' r Hr) as (Hw & Hlen & Hk & Hl).
    cbn [pred List.length]. split; [|split; [|split]].
    + cbn [seq map]. f_equal; [lia|]. rewrite Hw at 1. rewrite <- seq_shift, map_map.
      apply map_ext. intros k. lia.
    + lia.
    + intros k Hlt. destruct k as [|k].
      * exists it. cbn. repeat split; assumption.
      * cbn [nth_error]. apply Hk. destruct n'; cbn in *; lia.
    + lia.
Qed.

(** ---------------- circuit breaker: every history of calls ---------------- *)
(** a history is a list of (time of the call, does the operation fail if it is invoked) *)
Fixpoint cb_run (cb : breaker) (calls : list (Z * bool)) : list cbresult * breaker :=
  match calls with
  | [] => ([], cb)
  | (t, ff) :: rest =>
      let rs := cb_run (snd (cb_spec_step cb t ff)) rest in
      (fst (cb_spec_step cb t ff) :: fst rs, snd rs)
  end.

(** failed invocations since the last successful one (a rejected call is not an invocation) *)
Fixpoint trailing_fails (rs : list cbresult) (acc : Z) : Z :=
  match rs with
  | [] => acc
  | CROk :: rest => trailing_fails rest 0
  | CRErr :: rest => trailing_fails rest (acc + 1)
  | CRRejected :: rest => trailing_fails rest acc
  end.

Definition cb_open_iff (cb : breaker) : Prop :=
  cb_st cb = CBOpen <-> cb_threshold cb <= cb_fail cb.

Lemma cb_step_history : forall cb t ff,
  1 <= cb_threshold cb -> cb_open_iff cb ->
  let r := fst (cb_spec_step cb t ff) in
  let cb' := snd (cb_spec_step cb t ff) in
  cb_threshold cb' = cb_threshold cb /\ cb_open_iff cb' /\
  cb_fail cb' = trailing_fails [r] (cb_fail cb) /\
  (r = CRRejected -> cb_st cb = CBOpen /\ t - cb_last cb < cb_cooldown cb) /\
  (cb_st cb = CBOpen -> t - cb_last cb < cb_cooldown cb -> r = CRRejected).
Proof.
  intros [thr cd st f last] t ff Hthr Hiff. unfold cb_open_iff in *.
  unfold cb_spec_step. cbn [cb_threshold cb_cooldown cb_st cb_fail cb_last] in *.
  destruct (cbstate_eqb st CBOpen) eqn:Hst; cbn [andb].
  - assert (st = CBOpen) as -> by (destruct st; cbn in Hst; congruence).
    destruct (t - last <? cd) eqn:Hc.
    + apply Z.ltb_lt in Hc. cbn. repeat split; try tauto; lia.
    + apply Z.ltb_ge in Hc. destruct ff; cbn [fst snd cb_threshold cb_st cb_fail trailing_fails].
      * destruct (thr <=? f + 1) eqn:Hle;
          [apply Z.leb_le in Hle | apply Z.leb_gt in Hle];
          repeat split; try reflexivity; try congruence; try lia; try (intros; lia).
      * repeat split; try reflexivity; try congruence; try lia; try (intros; lia).
  - assert (st <> CBOpen) as Hne by (destruct st; cbn in Hst; congruence).
    destruct ff; cbn [fst snd cb_threshold cb_st cb_fail trailing_fails].
    + destruct (thr <=? f + 1) eqn:Hle;
        [apply Z.leb_le in Hle | apply Z.leb_gt in Hle];
        repeat split; try reflexivity; try congruence; try lia; try tauto.
    + repeat split; try reflexivity; try congruence; try lia; try tauto.
Qed.

Lemma trailing_fails_app : forall a b acc,
  trailing_fails (a ++ b) acc = trailing_fails b (trailing_fails a acc).
Proof.
  induction a as [|x a IH]; intros b acc; cbn [app trailing_fails]; [reflexivity|].
  destruct x; apply IH.
Qed.

(** After ANY history of calls, from any breaker whose state agrees with its counter (a new breaker
    does): the counter is the number of failed invocations since the last success, the breaker is
    open exactly when that number has reached the threshold, and no call made while it is open
    within the cooldown is let through (the k-th result is a rejection exactly then). *)
Lemma cb_history : forall calls cb,
  1 <= cb_threshold cb -> cb_open_iff cb ->
  let rs := fst (cb_run cb calls) in
  let cb' := snd (cb_run cb calls) in
  cb_threshold cb' = cb_threshold cb /\
  cb_fail cb' = trailing_fails rs (cb_fail cb) /\
  (cb_st cb' = CBOpen <-> cb_threshold cb <= trailing_fails rs (cb_fail cb)) /\
  List.length rs = List.length calls.
Proof.
  induction calls as [|[t ff] rest IH]; intros cb Hthr Hiff.
  - cbn. repeat split; try reflexivity; apply Hiff.
  - cbn [cb_run fst snd].
    destruct (cb_step_history cb t ff Hthr Hiff) as (A & B & C & _ & _).
    specialize (IH (snd (cb_spec_step cb t ff)) ltac:(lia) B).
    cbv zeta in IH. destruct IH as (I1 & I2 & I3 & I4).
    change (fst (cb_spec_step cb t ff) :: fst (cb_run (snd (cb_spec_step cb t ff)) rest))
      with ([fst (cb_spec_step cb t ff)] ++ fst (cb_run (snd (cb_spec_step cb t ff)) rest)).
    rewrite trailing_fails_app, <- C.
    repeat split.
    + lia.
    + exact I2.
    + rewrite <- A. apply I3.
    + rewrite <- A. apply I3.
    + rewrite app_length. cbn [List.length]. lia.
Qed.

(** ---------------- the regenerated breaker over every history ---------------- *)
(** the same run with the automaton regenerated from retry.go (int64 arithmetic written out) *)
Fixpoint cb_run_gen (cb : breaker) (calls : list (Z * bool)) : list cbresult * breaker :=
  match calls with
  | [] => ([], cb)
  | (t, ff) :: rest =>
      let rs := cb_run_gen (snd (cb_call cb t ff)) rest in
      (fst (cb_call cb t ff) :: fst rs, snd rs)
  end.

Definition two62 : Z := 4611686018427387904.

Lemma cb_spec_step_bounds : forall cb t ff,
  0 <= cb_fail cb -> 0 <= cb_last cb < two62 -> 0 <= t < two62 ->
  let cb' := snd (cb_spec_step cb t ff) in
  0 <= cb_fail cb' <= cb_fail cb + 1 /\ 0 <= cb_last cb' < two62.
Proof.
  intros [thr cd st f last] t ff Hf Hl Ht. unfold cb_spec_step.
  cbn [cb_threshold cb_cooldown cb_st cb_fail cb_last] in *.
  destruct (cbstate_eqb st CBOpen && (t - last <? cd))%bool; [cbn; lia|].
  destruct ff; cbn; lia.
Qed.

(** For every history whose call times are clock readings in [0, 2^62) ns (146 years) and whose
    length stays below 2^63 - 1, the regenerated automaton and the reference automaton produce the
    same results and the same final breaker: the history theorems hold of the regenerated code. *)
Lemma cb_run_gen_spec : forall calls cb,
  0 <= cb_fail cb -> cb_fail cb + Z.of_nat (List.length calls) < two63 - 1 ->
  0 <= cb_last cb < two62 ->
  Forall (fun c => 0 <= fst c < two62) calls ->
  cb_run_gen cb calls = cb_run cb calls.
Proof.
  induction calls as [|[t ff] rest IH]; intros cb Hf Hlen Hl Hall; [reflexivity|].
  cbn [cb_run_gen cb_run]. cbn [List.length] in Hlen.
  inversion Hall as [|x xs Ht Hrest]; subst. cbn [fst] in Ht.
  assert (W : cb_wf cb t).
  { unfold cb_wf, in_int64, two62, two63 in *. lia. }
  rewrite (cb_call_spec cb t ff W).
  destruct (cb_spec_step_bounds cb t ff Hf Hl Ht) as (B1 & B2).
  rewrite (IH (snd (cb_spec_step cb t ff))); try assumption; try lia.
  reflexivity.
Qed.
