(* Proofs/SimOwn.v — ownership of the record (C01, C10 safety, C13 claim, C09 finality):
   local rules of Proto.v imply the global monitor clauses of Mon.v, for every admitted trace. *)
From RecordUpdate Require Import RecordUpdate.
From LE Require Import Base Ev Consts World Mon Proto GenGuards SimBasics.
Open Scope Z_scope.

Lemma guards_late b te : guards b te = [] -> late_claim b te = [].
Proof.
  unfold guards. intros G. apply app_nil_l2 in G. destruct G as [_ G]. apply app_nil_l2 in G. destruct G as [_ G].
  apply app_nil_l2 in G. destruct G as [_ G]. apply app_nil_l2 in G. destruct G as [G _]. exact G.
Qed.

Lemma guards_split b te : guards b te = [] -> guards0 b te = [] /\ overdue_ticks b (fst te) = [] /\ (fst te <? b_now b) = false.
Proof.
  unfold guards. intros G. apply app_nil_l2 in G. destruct G as [G1 G]. apply app_nil_l2 in G. destruct G as [G2 G].
  apply app_nil_l2 in G. destruct G as [G3 _].
  repeat split; auto. destruct (fst te <? b_now b); [discriminate|reflexivity].
Qed.

Lemma mwhen_in c a x : In x (Mon.when c a) -> c = true /\ x = a.
Proof. destruct c; cbn; [intros [H|[]]; auto|intros []]. Qed.

Lemma pwhen_nil c r : Proto.when c r = [] -> c = false.
Proof. destruct c; cbn; [discriminate|reflexivity]. Qed.

Ltac split_nil H :=
  repeat match type of H with
         | _ ++ _ = [] => let H1 := fresh "G" in let H2 := fresh "G" in
                          apply app_nil_l2 in H; destruct H as [H1 H2]; try split_nil H1; try split_nil H2
         end.

(* ---------------------------------------------------------------- what the rules say at a linearisation point *)
Lemma guards_apply b t op okind rev val p :
  aget (b_pend b) op = Some p ->
  guards0 b (t, EApply op okind rev val) = [] ->
  p_kind p =? kWatch = false ->
  p_applied p = None /\
  fst (store_outcome b (p_kind p) (p_key p) (p_exp p)) = okind /\
  snd (store_outcome b (p_kind p) (p_key p) (p_exp p)) = rev.
Proof.
  intros Hp G Hk. cbn in G. rewrite Hp in G. rewrite Hk in G.
  destruct (store_outcome b (p_kind p) (p_key p) (p_exp p)) as [ok r] eqn:E.
  apply app_nil_l2 in G. destruct G as [G1 G2].
  apply app_nil_l2 in G2. destruct G2 as [G2 G3].
  apply pwhen_nil in G1. apply pwhen_nil in G2.
  destruct (p_applied p); [discriminate|].
  apply Bool.negb_false_iff in G2. apply andb_prop in G2. destruct G2 as [A B].
  apply Z.eqb_eq in A. apply Z.eqb_eq in B. cbn. auto.
Qed.

(* C01 clause "creation while no live record exists" and "against that exact revision":
   the store contract at the linearisation point *)
Lemma C01_store_contract_apply b t op okind rev val :
  guards0 b (t, EApply op okind rev val) = [] ->
  ~ In 102 (mon_C01 b (t, EApply op okind rev val)) /\ ~ In 104 (mon_C01 b (t, EApply op okind rev val)).
Proof.
  intros G. cbn [mon_C01 snd].
  destruct (aget (b_pend b) op) as [p|] eqn:Hp; [|split; intros []].
  destruct (okind =? oOk) eqn:Eok; cbn [negb]; [|split; intros []].
  apply Z.eqb_eq in Eok. subst okind.
  destruct (p_kind p =? kCreate) eqn:Ec.
  - (* Create *)
    assert (Hw : p_kind p =? kWatch = false).
    { apply Z.eqb_eq in Ec. rewrite Ec. reflexivity. }
    destruct (guards_apply _ _ _ _ _ _ _ Hp G Hw) as [_ [Ho _]].
    unfold store_outcome in Ho. rewrite Ec in Ho.
    split; intros H; apply in_app_or in H; destruct H as [H|H]; apply mwhen_in in H; destruct H as [H1 H2]; try discriminate.
    rewrite H1 in Ho. cbn in Ho. discriminate.
  - destruct (p_kind p =? kUpdate) eqn:Eu.
    + assert (Hw : p_kind p =? kWatch = false).
      { apply Z.eqb_eq in Eu. rewrite Eu. reflexivity. }
      destruct (guards_apply _ _ _ _ _ _ _ Hp G Hw) as [_ [Ho _]].
      unfold store_outcome in Ho. rewrite Ec, Eu in Ho.
      destruct (p_exp p =? last_rev_of b (p_key p)) eqn:Ee; [|cbn in Ho; discriminate].
      apply Z.eqb_eq in Ee. unfold last_rev_of in Ee.
      split.
      * destruct (last_of b (p_key p)) as [[[r pv] tomb]|]; intros H.
        -- apply in_app_or in H. destruct H as [H|H]; [apply mwhen_in in H; destruct H; discriminate|].
           destruct (p_inner p =? sHeartbeat); [apply mwhen_in in H; destruct H; discriminate|].
           destruct (p_inner p =? sTakeover); [apply mwhen_in in H; destruct H; discriminate|].
           cbn in H. intuition discriminate.
        -- apply mwhen_in in H. destruct H; discriminate.
      * destruct (last_of b (p_key p)) as [[[r pv] tomb]|]; intros H.
        -- apply in_app_or in H. destruct H as [H|H].
           ++ apply mwhen_in in H. destruct H as [H _]. rewrite Ee, Z.eqb_refl in H. discriminate.
           ++ destruct (p_inner p =? sHeartbeat); [apply mwhen_in in H; destruct H; discriminate|].
              destruct (p_inner p =? sTakeover); [apply mwhen_in in H; destruct H; discriminate|].
              cbn in H. intuition discriminate.
        -- apply mwhen_in in H. destruct H as [H _]. rewrite Ee in H. cbn in H. discriminate.
    + destruct (p_kind p =? kDelete).
      * destruct (last_of b (p_key p)) as [[[r pv] [|]]|]; split; intros H; apply mwhen_in in H; destruct H; discriminate.
      * split; intros [].
Qed.

Lemma C01_store_contract b te :
  guards0 b te = [] -> ~ In 102 (mon_C01 b te) /\ ~ In 104 (mon_C01 b te).
Proof.
  intros G. destruct te as [t e].
  destruct e; try (apply C01_store_contract_apply; exact G);
    cbn [mon_C01 snd]; split; intros Hin; try apply mwhen_in in Hin; cbn in Hin; intuition congruence.
Qed.

(* C01 clause "elections for different groups never touch each other's records" *)
Lemma C01_group_isolation b te : guards0 b te = [] -> ~ In 101 (mon_C01 b te).
Proof.
  intros G. destruct te as [t e].
  destruct e; cbn [mon_C01 snd]; try (intros []).
  - (* EIssue *)
    cbn in G. apply app_nil_l2 in G. destruct G as [_ G]. apply app_nil_l2 in G. destruct G as [G _].
    apply pwhen_nil in G. intros H. apply mwhen_in in H. destruct H as [H _]. rewrite G in H. discriminate.
  - (* EApply *)
    match goal with |- ~ In 101 (match aget (b_pend b) ?o with _ => _ end) => destruct (aget (b_pend b) o) as [p|]; [|intros []] end.
    match goal with |- context [negb (?k =? oOk)] => destruct (negb (k =? oOk)); [intros []|] end.
    destruct (p_kind p =? kCreate).
    + intros H. apply in_app_or in H. destruct H as [H|H]; apply mwhen_in in H; destruct H; discriminate.
    + destruct (p_kind p =? kUpdate).
      * destruct (last_of b (p_key p)) as [[[r pv] tomb]|]; intros H.
        -- apply in_app_or in H. destruct H as [H|H]; [apply mwhen_in in H; destruct H; discriminate|].
           destruct (p_inner p =? sHeartbeat); [apply mwhen_in in H; destruct H; discriminate|].
           destruct (p_inner p =? sTakeover); [apply mwhen_in in H; destruct H; discriminate|].
           cbn in H. intuition discriminate.
        -- apply mwhen_in in H. destruct H; discriminate.
      * destruct (p_kind p =? kDelete); [|intros []].
        destruct (last_of b (p_key p)) as [[[r pv] [|]]|]; intros H; apply mwhen_in in H; destruct H; discriminate.
Qed.

(* C13 clause "never claims leadership without a successful write of its own" and
   C09 clause "a stopped election never claims leadership again" at the claim itself *)
Lemma claim_needs_own_write_flag b t i fl cause root gid :
  guards0 b (t, EFlag i fl cause root gid) = [] -> ~ In 1302 (mon_C13 b (t, EFlag i fl cause root gid)).
Proof.
  intros G. cbn [mon_C13 snd].
  destruct (zb fl) eqn:Ef; [|intros []].
  cbn in G. rewrite Ef in G.
  apply app_nil_l2 in G. destruct G as [_ G]. apply app_nil_l2 in G. destruct G as [_ G].
  apply app_nil_l2 in G. destruct G as [_ G].
  destruct (aget (b_rets b) gid) as [r|]; [|discriminate].
  apply app_nil_l2 in G. destruct G as [G _].
  apply pwhen_nil in G. apply Bool.negb_false_iff in G.
  apply andb_prop in G. destruct G as [G _]. apply andb_prop in G. destruct G as [G1 G2].
  intros H. apply in_app_or in H. destruct H as [H|H].
  - apply mwhen_in in H. destruct H as [H _]. rewrite G1, G2 in H. discriminate.
  - destruct (live_val b (ic_key (cfg_of b i))) as [[rl v]|]; [|destruct H].
    apply mwhen_in in H. destruct H; discriminate.
Qed.

Lemma claim_needs_own_write b te : guards0 b te = [] -> ~ In 1302 (mon_C13 b te).
Proof.
  intros G. destruct te as [t e].
  destruct e; try (apply claim_needs_own_write_flag; exact G); cbn [mon_C13 snd]; cbn; intuition discriminate.
Qed.

(* ================================================================ invariants of admitted executions *)
Definition in_hist (b : base) (k r v : Z) (tomb : bool) : Prop :=
  exists ver, In ver (b_hist b) /\ ver_key ver = k /\ ver_rev ver = r /\ ver_val ver = v /\ ver_tomb ver = tomb.

Record Inv (b : base) : Prop := mkInv {
  (* payload of every acquisition attempt: readable, names its issuer, carries a non-empty token *)
  inv_create : forall op p, aget (b_pend b) op = Some p -> p_kind p = kCreate ->
      sok_of b (p_val p) = true /\ sid_of b (p_val p) = p_i p /\ tok_of b (p_val p) <> 0;
  (* a takeover Update in flight was computed from the issuer's own successful read of a live version with
     strictly lower priority, and takeover is enabled in the issuer's configuration *)
  inv_takeover : forall op p, aget (b_pend b) op = Some p -> p_kind p = kUpdate -> p_inner p = sTakeover -> p_applied p = None ->
      exists pv, sok_of b pv = true /\ prio_of b pv < ic_prio (cfg_of b (p_i p)) /\ ic_takeover (cfg_of b (p_i p)) = true /\
                 in_hist b (p_key p) (p_exp p) pv false /\ sok_of b (p_val p) = true /\ sid_of b (p_val p) = p_i p;
  (* the key's last message is in the history; revisions are positive, bounded by the sequence and unique *)
  inv_last : forall k r v tomb, last_of b k = Some (r, v, tomb) -> in_hist b k r v tomb;
  inv_seq : forall ver, In ver (b_hist b) -> 0 < ver_rev ver <= b_seq b;
  inv_uniq : forall v1 v2, In v1 (b_hist b) -> In v2 (b_hist b) -> ver_rev v1 = ver_rev v2 -> v1 = v2;
  (* what a successful read returned is a version of the history *)
  inv_ret : forall g r, aget (b_rets b) g = Some r -> lr_kind r = kGet -> lr_rk r = oOk -> in_hist b (lr_key r) (lr_rev r) (lr_val r) false;
  inv_applied : forall op p r v t, aget (b_pend b) op = Some p -> p_kind p = kGet -> p_applied p = Some (oOk, r, v, t) ->
      in_hist b (p_key p) r v false;
  inv_seq0 : 0 <= b_seq b;
  (* a stopped election stays stopped *)
  inv_stopped : forall i, io_stopped (inst_of b i) = true -> io_state (inst_of b i) = stStopped
}.

Lemma Inv0 : Inv base0.
Proof.
  constructor; cbn; intros; try discriminate; try contradiction; try lia.
Qed.

(* ---------------------------------------------------------------- framing *)
Lemma inst_of_upd b i f j : inst_of (upd_inst b i f) j = if i =? j then f (inst_of b i) else inst_of b j.
Proof.
  unfold upd_inst, set_inst, inst_of. cbn. rewrite aget_aset. destruct (i =? j); reflexivity.
Qed.

Definition same_store (b b' : base) : Prop :=
  b_pend b' = b_pend b /\ b_vals b' = b_vals b /\ b_cfgs b' = b_cfgs b /\ b_hist b' = b_hist b /\
  b_last b' = b_last b /\ b_seq b' = b_seq b /\ b_rets b' = b_rets b.

Lemma Inv_frame b b' :
  same_store b b' ->
  (forall i, io_stopped (inst_of b' i) = true -> io_state (inst_of b' i) = stStopped) ->
  Inv b -> Inv b'.
Proof.
  intros (Hp & Hv & Hc & Hh & Hl & Hs & Hr) Hst I.
  destruct I as [I1 I2 I3 I4 I5 I6 I7 I8 I9].
  unfold in_hist, sok_of, sid_of, tok_of, prio_of, vinfo_of, cfg_of, last_of in *.
  constructor; unfold in_hist, sok_of, sid_of, tok_of, prio_of, vinfo_of, cfg_of, last_of;
    rewrite ?Hp, ?Hv, ?Hc, ?Hh, ?Hl, ?Hs, ?Hr; auto.
Qed.

Lemma same_store_now b t : same_store b (b <| b_now := t |>).
Proof. unfold same_store; cbn; intuition. Qed.

Lemma same_store_upd b t i f : same_store b (upd_inst (b <| b_now := t |>) i f).
Proof. unfold same_store, upd_inst, set_inst; cbn; intuition. Qed.

Lemma Inv_now b t : Inv b -> Inv (b <| b_now := t |>).
Proof.
  intros I. apply (Inv_frame b); [apply same_store_now| |exact I].
  intros i. unfold inst_of. cbn. apply (inv_stopped _ I).
Qed.

(* an update of one instance's observable state that keeps "stopped implies STOPPED" *)
Lemma Inv_upd b t i f :
  Inv b ->
  (io_stopped (f (inst_of b i)) = true -> io_state (f (inst_of b i)) = stStopped) ->
  Inv (upd_inst (b <| b_now := t |>) i f).
Proof.
  intros I Hf. apply (Inv_frame b); [apply same_store_upd| |exact I].
  intros j. rewrite inst_of_upd.
  assert (E : inst_of (b <| b_now := t |>) i = inst_of b i) by reflexivity.
  rewrite E. destruct (i =? j); [exact Hf|].
  unfold inst_of. cbn. apply (inv_stopped _ I).
Qed.

(* an instance update that leaves "stopped" and the state alone *)
Lemma Inv_upd' b i f :
  Inv b -> (forall x, io_stopped (f x) = io_stopped x /\ io_state (f x) = io_state x) -> Inv (upd_inst b i f).
Proof.
  intros I Hf. apply (Inv_frame b); [unfold same_store, upd_inst, set_inst; cbn; intuition| |exact I].
  intros j. rewrite inst_of_upd. destruct (i =? j).
  - destruct (Hf (inst_of b i)) as [A B]. rewrite A, B. apply (inv_stopped _ I).
  - apply (inv_stopped _ I).
Qed.

Ltac inv_inst I1 :=
  cbv zeta;
  repeat match goal with
         | |- Inv (if ?c then _ else _) => destruct c
         | |- Inv (upd_inst _ _ _) => apply Inv_upd'; [|intros; split; reflexivity]
         end; try exact I1.

(* ---------------------------------------------------------------- publishing a new version *)
Lemma in_hist_mono b k r v tomb ver b' :
  b_hist b' = ver :: b_hist b -> in_hist b k r v tomb -> in_hist b' k r v tomb.
Proof.
  intros Hh (x & Hin & Hx). exists x. rewrite Hh. split; [right; exact Hin|exact Hx].
Qed.

Lemma last_of_publish b key rev author val tomb how site exp k :
  last_of (publish b key rev author val tomb how site exp) k =
  if key =? k then Some (rev, val, tomb) else last_of b k.
Proof. unfold last_of, publish. cbn. apply aget_aset. Qed.

Lemma Inv_publish b key rev author val tomb how site exp :
  Inv b -> rev = b_seq b + 1 -> Inv (publish b key rev author val tomb how site exp).
Proof.
  intros I Hrev. destruct I as [I1 I2 I3 I4 I5 I6 I7 I8 I9].
  set (b' := publish b key rev author val tomb how site exp).
  assert (Hh : b_hist b' = mkVer key rev author val tomb how site exp (b_now b) (last_of b key) :: b_hist b) by reflexivity.
  assert (Hp : b_pend b' = b_pend b) by reflexivity.
  assert (Hv : b_vals b' = b_vals b) by reflexivity.
  assert (Hc : b_cfgs b' = b_cfgs b) by reflexivity.
  assert (Hr : b_rets b' = b_rets b) by reflexivity.
  assert (Hs : b_seq b' = rev) by reflexivity.
  assert (Hi : b_inst b' = b_inst b) by reflexivity.
  assert (Esok : forall x, sok_of b' x = sok_of b x) by (intros; unfold sok_of, vinfo_of; rewrite Hv; reflexivity).
  assert (Esid : forall x, sid_of b' x = sid_of b x) by (intros; unfold sid_of, vinfo_of; rewrite Hv; reflexivity).
  assert (Etok : forall x, tok_of b' x = tok_of b x) by (intros; unfold tok_of, vinfo_of; rewrite Hv; reflexivity).
  assert (Eprio : forall x, prio_of b' x = prio_of b x) by (intros; unfold prio_of, vinfo_of; rewrite Hv; reflexivity).
  assert (Ecfg : forall x, cfg_of b' x = cfg_of b x) by (intros; unfold cfg_of; rewrite Hc; reflexivity).
  constructor.
  - intros op p. rewrite Hp, Esok, Esid, Etok. apply I1.
  - intros op p. rewrite Hp. intros A B C D. destruct (I2 op p A B C D) as (pv & P1 & P2 & P3 & P4 & P5 & P6).
    exists pv. rewrite Esok, Eprio, Ecfg, Esok, Esid. repeat split; auto. eapply in_hist_mono; eauto.
  - intros k r v tb. fold b'. unfold b'. rewrite last_of_publish. destruct (key =? k) eqn:E.
    + intros H. inversion H. subst r v tb. apply Z.eqb_eq in E. subst k.
      eexists. split; [left; reflexivity|]. cbn. auto.
    + intros H. eapply in_hist_mono; [exact Hh|]. apply I3. exact H.
  - intros ver. rewrite Hh, Hs. intros [E|Hin].
    + subst ver. cbn. lia.
    + specialize (I4 ver Hin). lia.
  - intros v1 v2. rewrite Hh. intros [E1|H1] [E2|H2] Heq.
    + congruence.
    + subst v1. cbn in Heq. specialize (I4 v2 H2). lia.
    + subst v2. cbn in Heq. specialize (I4 v1 H1). lia.
    + apply I5; auto.
  - intros g r. rewrite Hr. intros A B C. eapply in_hist_mono; [exact Hh|]. eapply I6; eauto.
  - intros op p r v t. rewrite Hp. intros A B C. eapply in_hist_mono; [exact Hh|]. eapply I7; eauto.
  - rewrite Hs. lia.
  - intros i. unfold inst_of. rewrite Hi. apply I9.
Qed.

(* ---------------------------------------------------------------- store calls *)
Lemma gen_takeover_yields_spec p q : gen_takeover_yields p q = (p <=? q).
Proof. reflexivity. Qed.

Lemma gen_takeover_enabled_spec a p : gen_takeover_enabled a p = (a && (p >? 0))%bool.
Proof. reflexivity. Qed.

Lemma live_val_last b k r v : live_val b k = Some (r, v) -> last_of b k = Some (r, v, false).
Proof.
  unfold live_val. destruct (last_of b k) as [[[r0 v0] [|]]|]; intros H; inversion H; reflexivity.
Qed.

Lemma takeover_ok_spec b i gid val exp :
  takeover_ok b i gid val exp = true ->
  exists r, aget (b_rets b) gid = Some r /\ lr_i r = i /\ lr_kind r = kGet /\ lr_rk r = oOk /\ lr_rev r = exp /\
            lr_key r = ic_key (cfg_of b i) /\ sok_of b (lr_val r) = true /\
            prio_of b (lr_val r) < ic_prio (cfg_of b i) /\ ic_takeover (cfg_of b i) = true /\
            sok_of b val = true /\ sid_of b val = i.
Proof.
  unfold takeover_ok. destruct (aget (b_rets b) gid) as [r|]; [|discriminate].
  intros H. exists r. split; [reflexivity|].
  apply andb_prop in H. destruct H as [H _].
  apply andb_prop in H. destruct H as [H Hsid].
  apply andb_prop in H. destruct H as [H Hsokv].
  apply andb_prop in H. destruct H as [H Hen].
  apply andb_prop in H. destruct H as [H Hy].
  apply andb_prop in H. destruct H as [H Hsok].
  apply andb_prop in H. destruct H as [H Hkey].
  apply andb_prop in H. destruct H as [H Hrev].
  apply andb_prop in H. destruct H as [H Hrk].
  apply andb_prop in H. destruct H as [Hi Hkind].
  apply Z.eqb_eq in Hi, Hkind, Hrk, Hrev, Hkey, Hsid.
  rewrite gen_takeover_yields_spec in Hy. apply Bool.negb_true_iff in Hy. apply Z.leb_gt in Hy.
  rewrite gen_takeover_enabled_spec in Hen. apply andb_prop in Hen. destruct Hen as [Hen _].
  repeat split; auto.
Qed.

(* a call is issued *)
Lemma Inv_issue b t i op kind inner root gid key val exp :
  Inv b -> guards0 b (t, EIssue i op kind inner root gid key val exp) = [] ->
  Inv (bapply b (t, EIssue i op kind inner root gid key val exp)).
Proof.
  intros I0 G. pose proof (Inv_now b t I0) as I. clear I0.
  cbn in G. apply app_nil_l2 in G. destruct G as [G0 G]. apply app_nil_l2 in G. destruct G as [Gk G].
  apply app_nil_l2 in G. destruct G as [G _].
  apply pwhen_nil in G0. apply pwhen_nil in Gk. apply Bool.negb_false_iff in Gk. apply Z.eqb_eq in Gk.
  cbn [bapply]. set (b0 := b <| b_now := t |>) in *.
  set (p := mkPend i kind inner root gid key val exp t None).
  set (b' := b0 <| b_pend ::= fun m => aset m op p |>).
  assert (Hp : forall op', aget (b_pend b') op' = if op =? op' then Some p else aget (b_pend b0) op') by (intros; unfold b'; cbn; apply aget_aset).
  assert (Hv : b_vals b' = b_vals b0) by reflexivity.
  assert (Hc : b_cfgs b' = b_cfgs b0) by reflexivity.
  assert (Hh : b_hist b' = b_hist b0) by reflexivity.
  assert (Hl : b_last b' = b_last b0) by reflexivity.
  assert (Hs : b_seq b' = b_seq b0) by reflexivity.
  assert (Hr : b_rets b' = b_rets b0) by reflexivity.
  assert (Hi : b_inst b' = b_inst b0) by reflexivity.
  assert (IB : Inv b').
  { destruct I as [I1 I2 I3 I4 I5 I6 I7 I8 I9].
  constructor; unfold in_hist, sok_of, sid_of, tok_of, prio_of, vinfo_of, cfg_of, last_of, inst_of in *;
    rewrite ?Hv, ?Hc, ?Hh, ?Hl, ?Hs, ?Hr, ?Hi; auto.
  - (* create payloads *)
    intros op' p'. rewrite Hp. destruct (op =? op') eqn:E; [|apply I1].
    intros Hsome Hk. inversion Hsome. subst p'. cbn in Hk. subst kind. cbn.
    change (1 =? kCreate) with true in G. cbn iota in G. apply app_nil_l2 in G. destruct G as [G _].
    apply pwhen_nil in G. apply Bool.negb_false_iff in G.
    unfold sok_of, sid_of, prio_of, tok_of, vinfo_of in G.
    apply andb_prop in G. destruct G as [G G4]. apply andb_prop in G. destruct G as [G G3]. apply andb_prop in G. destruct G as [G1 G2].
    apply Z.eqb_eq in G2. apply Bool.negb_true_iff in G4. apply Z.eqb_neq in G4. auto.
  - (* takeover updates *)
    intros op' p'. rewrite Hp. destruct (op =? op') eqn:E; [|apply I2].
    intros Hsome Hk Hin _. inversion Hsome. subst p'. cbn in Hk, Hin. subst kind inner. cbn.
    change (kUpdate =? kCreate) with false in G. change (kUpdate =? kUpdate) with true in G.
    change (sTakeover =? sHeartbeat) with false in G. change (sTakeover =? sTakeover) with true in G. cbn iota in G.
    apply pwhen_nil in G. apply Bool.negb_false_iff in G.
    destruct (takeover_ok_spec _ _ _ _ _ G) as (r & Er & Ri & Rk & Rrk & Rrev & Rkey & Rsok & Rprio & Ren & Vsok & Vsid).
    exists (lr_val r). unfold sok_of, sid_of, prio_of, vinfo_of, cfg_of in *.
    repeat split; auto.
    specialize (I6 gid r Er Rk Rrk). rewrite Rrev, Rkey in I6. rewrite Gk. exact I6.
  - (* applied reads *)
    intros op' p' r v t'. rewrite Hp. destruct (op =? op') eqn:E; [|apply I7].
    intros Hsome _ Ha. inversion Hsome. subst p'. cbn in Ha. discriminate. }
  (* a refresh attempt also starts the instance's attempt clock: only instance fields change *)
  match goal with |- Inv (if ?c then _ else _) => destruct c end; [|exact IB].
  apply (Inv_frame b'); [unfold same_store, upd_inst, set_inst; cbn; intuition| |exact IB].
  intros j. rewrite inst_of_upd. destruct (i =? j); [cbn|]; apply (inv_stopped _ IB).
Qed.

(* marking a call as applied (no new version) *)
Lemma Inv_mark b op p okind rev val t :
  Inv b -> aget (b_pend b) op = Some p -> p_applied p = None ->
  (p_kind p = kGet -> okind = oOk -> in_hist b (p_key p) rev val false) ->
  Inv (b <| b_pend ::= fun m => aset m op (p <| p_applied := Some (okind, rev, val, t) |>) |>).
Proof.
  intros I Hop Hnone Hget.
  set (p' := p <| p_applied := Some (okind, rev, val, t) |>).
  set (b' := b <| b_pend ::= fun m => aset m op p' |>).
  assert (Hp : forall op', aget (b_pend b') op' = if op =? op' then Some p' else aget (b_pend b) op') by (intros; unfold b'; cbn; apply aget_aset).
  assert (Hv : b_vals b' = b_vals b) by reflexivity.
  assert (Hc : b_cfgs b' = b_cfgs b) by reflexivity.
  assert (Hh : b_hist b' = b_hist b) by reflexivity.
  assert (Hl : b_last b' = b_last b) by reflexivity.
  assert (Hs : b_seq b' = b_seq b) by reflexivity.
  assert (Hr : b_rets b' = b_rets b) by reflexivity.
  assert (Hi : b_inst b' = b_inst b) by reflexivity.
  destruct I as [I1 I2 I3 I4 I5 I6 I7 I8 I9].
  constructor; unfold in_hist, sok_of, sid_of, tok_of, prio_of, vinfo_of, cfg_of, last_of, inst_of in *;
    rewrite ?Hv, ?Hc, ?Hh, ?Hl, ?Hs, ?Hr, ?Hi; auto.
  - intros op' q. rewrite Hp. destruct (op =? op') eqn:E; [|apply I1].
    apply Z.eqb_eq in E. subst op'. intros Hq. inversion Hq. subst q. cbn. apply (I1 op p Hop).
  - intros op' q. rewrite Hp. destruct (op =? op') eqn:E; [|apply I2].
    intros Hq. inversion Hq. subst q. cbn. intros _ _ D. discriminate.
  - intros op' q r v t'. rewrite Hp. destruct (op =? op') eqn:E; [|apply I7].
    intros Hq. inversion Hq. subst q. cbn. intros Hk Ha. inversion Ha. subst. apply Hget; auto.
Qed.

Lemma store_outcome_mutation_rev b kind key exp okind rev :
  store_outcome b kind key exp = (okind, rev) -> okind = oOk ->
  kind = kCreate \/ kind = kUpdate \/ kind = kDelete -> rev = b_seq b + 1.
Proof.
  unfold store_outcome. intros H Hok [K|[K|K]]; subst kind; cbn in H.
  - destruct (live_of b key); inversion H; subst; [discriminate|reflexivity].
  - destruct (exp =? last_rev_of b key); inversion H; subst; [reflexivity|discriminate].
  - inversion H. reflexivity.
Qed.

Lemma Inv_apply b t op okind rev val :
  Inv b -> guards0 b (t, EApply op okind rev val) = [] -> Inv (bapply b (t, EApply op okind rev val)).
Proof.
  intros I0 G. pose proof (Inv_now b t I0) as I.
  cbn [bapply]. set (b0 := b <| b_now := t |>) in *.
  assert (Ep : b_pend b0 = b_pend b) by reflexivity.
  destruct (aget (b_pend b0) op) as [p|] eqn:Hop; [|exact I].
  rewrite Ep in Hop.
  destruct (p_kind p =? kWatch) eqn:Ew.
  - (* Watch registration: nothing published *)
    cbn in G. rewrite Hop, Ew in G. apply app_nil_l2 in G. destruct G as [G _]. apply pwhen_nil in G.
    assert (Hn : p_applied p = None) by (destruct (p_applied p); [discriminate|reflexivity]).
    assert (IM := Inv_mark b0 op p okind rev val t I Hop Hn).
    apply Z.eqb_eq in Ew.
    assert (K1 : p_kind p =? kCreate = false) by (rewrite Ew; reflexivity).
    assert (K2 : p_kind p =? kUpdate = false) by (rewrite Ew; reflexivity).
    assert (K3 : p_kind p =? kDelete = false) by (rewrite Ew; reflexivity).
    rewrite K1, K2, K3. destruct (okind =? oOk); apply IM; intros Hk; rewrite Ew in Hk; discriminate.
  - destruct (guards_apply _ _ _ _ _ _ _ Hop G Ew) as (Hn & Ho & Hr).
    assert (Hget : p_kind p = kGet -> okind = oOk -> in_hist b0 (p_key p) rev val false).
    { intros Hk Hok. cbn in G. rewrite Hop, Ew in G.
      destruct (store_outcome b (p_kind p) (p_key p) (p_exp p)) as [ok r] eqn:E. cbn in Ho, Hr. subst ok r.
      apply app_nil_l2 in G. destruct G as [_ G]. apply app_nil_l2 in G. destruct G as [_ G]. apply pwhen_nil in G.
      unfold store_outcome in E. rewrite Hk in E, G. cbn in E.
      destruct (live_val b (p_key p)) as [[r v]|] eqn:El; [|inversion E; subst; discriminate].
      inversion E. subst rev. rewrite Hok in G. cbn in G. apply Bool.negb_false_iff in G. apply Z.eqb_eq in G. subst v.
      apply (inv_last _ I). apply live_val_last. exact El. }
    assert (IM := Inv_mark b0 op p okind rev val t I Hop Hn Hget).
    destruct (okind =? oOk) eqn:Eok; [|exact IM].
    apply Z.eqb_eq in Eok.
    assert (Hrev : p_kind p = kCreate \/ p_kind p = kUpdate \/ p_kind p = kDelete -> rev = b_seq b + 1).
    { intros K.
      assert (E : store_outcome b (p_kind p) (p_key p) (p_exp p) = (okind, rev)).
      { destruct (store_outcome b (p_kind p) (p_key p) (p_exp p)) as [ok r]. cbn in Ho, Hr. subst ok r. reflexivity. }
      eapply store_outcome_mutation_rev; [exact E|exact Eok|exact K]. }
    destruct (p_kind p =? kCreate) eqn:K1; [apply Inv_publish; [exact IM|apply Hrev; left; apply Z.eqb_eq; exact K1]|].
    destruct (p_kind p =? kUpdate) eqn:K2; [apply Inv_publish; [exact IM|apply Hrev; right; left; apply Z.eqb_eq; exact K2]|].
    destruct (p_kind p =? kDelete) eqn:K3; [apply Inv_publish; [exact IM|apply Hrev; right; right; apply Z.eqb_eq; exact K3]|].
    exact IM.
Qed.

(* a call returns *)
Lemma Inv_ret b t i op rk rev val :
  Inv b -> guards0 b (t, ERet i op rk rev val) = [] -> Inv (bapply b (t, ERet i op rk rev val)).
Proof.
  intros I0 G. pose proof (Inv_now b t I0) as I.
  cbn [bapply]. set (b0 := b <| b_now := t |>) in *.
  assert (Ep : b_pend b0 = b_pend b) by reflexivity.
  destruct (aget (b_pend b0) op) as [p|] eqn:Hop; [|exact I].
  rewrite Ep in Hop.
  set (v := if p_kind p =? kGet then val else p_val p).
  set (lr := mkLR i (p_kind p) (p_inner p) rk rev v (p_key p) t).
  set (b1 := b0 <| b_rets ::= fun m => aset m (p_gid p) lr |> <| b_done ::= cons op |>).
  assert (I1 : Inv b1).
  { assert (Hr : forall g, aget (b_rets b1) g = if p_gid p =? g then Some lr else aget (b_rets b0) g) by (intros; unfold b1; cbn; apply aget_aset).
    assert (Hp : b_pend b1 = b_pend b0) by reflexivity.
    assert (Hv : b_vals b1 = b_vals b0) by reflexivity.
    assert (Hc : b_cfgs b1 = b_cfgs b0) by reflexivity.
    assert (Hh : b_hist b1 = b_hist b0) by reflexivity.
    assert (Hl : b_last b1 = b_last b0) by reflexivity.
    assert (Hs : b_seq b1 = b_seq b0) by reflexivity.
    assert (Hi : b_inst b1 = b_inst b0) by reflexivity.
    destruct I as [J1 J2 J3 J4 J5 J6 J7 J8 J9].
    constructor; unfold in_hist, sok_of, sid_of, tok_of, prio_of, vinfo_of, cfg_of, last_of, inst_of in *;
      rewrite ?Hp, ?Hv, ?Hc, ?Hh, ?Hl, ?Hs, ?Hi; auto.
    intros g r. rewrite Hr. destruct (p_gid p =? g) eqn:E; [|apply J6].
    intros Hsome Hk Hrk. inversion Hsome. subst r. cbn in Hk, Hrk |- *.
    cbn in G. rewrite Hop in G. apply app_nil_l2 in G. destruct G as [_ G]. apply app_nil_l2 in G. destruct G as [_ G].
    assert (Ew : p_kind p =? kWatch = false) by (rewrite Hk; reflexivity).
    rewrite Ew in G. subst rk. change (oOk <? 10) with true in G. cbn [andb negb] in G.
    destruct (p_applied p) as [[[[ok r] v'] t']|] eqn:Ea; [|discriminate].
    apply pwhen_nil in G. apply Bool.negb_false_iff in G.
    apply andb_prop in G. destruct G as [G G3]. apply andb_prop in G. destruct G as [G1 G2].
    apply Z.eqb_eq in G1. subst ok.
    change (oOk =? oOk) with true in G2, G3. cbn [negb orb] in G2, G3. rewrite Bool.orb_false_r in G2.
    apply Z.eqb_eq in G2. subst r.
    unfold v. rewrite Hk in G3 |- *. change (kGet =? kGet) with true in G3 |- *. cbn [negb orb] in G3. apply Z.eqb_eq in G3. subst v'.
    exact (J7 op p rev val t' Hop Hk Ea). }
  fold v. fold lr. fold b1. inv_inst I1.
Qed.

Lemma Inv_valdef b t v len sok sid stok sprio mok hasid mid hastok mtok :
  Inv b -> guards0 b (t, EValDef v len sok sid stok sprio mok hasid mid hastok mtok) = [] ->
  Inv (bapply b (t, EValDef v len sok sid stok sprio mok hasid mid hastok mtok)).
Proof.
  intros I G.
  set (te := (t, EValDef v len sok sid stok sprio mok hasid mid hastok mtok)) in *.
  assert (Vst : forall x, sok_of b x = true -> vinfo_of (bapply b te) x = vinfo_of b x) by (intros; apply vinfo_stable; assumption).
  set (b' := bapply b te) in *.
  assert (Hp : b_pend b' = b_pend b) by reflexivity.
  assert (Hc : b_cfgs b' = b_cfgs b) by reflexivity.
  assert (Hh : b_hist b' = b_hist b) by reflexivity.
  assert (Hl : b_last b' = b_last b) by reflexivity.
  assert (Hs : b_seq b' = b_seq b) by reflexivity.
  assert (Hr : b_rets b' = b_rets b) by reflexivity.
  assert (Hi : b_inst b' = b_inst b) by reflexivity.
  assert (Esok : forall x, sok_of b x = true -> sok_of b' x = true) by (intros x Hx; unfold sok_of; rewrite (Vst x Hx); exact Hx).
  destruct I as [J1 J2 J3 J4 J5 J6 J7 J8 J9].
  constructor; unfold in_hist, cfg_of, last_of, inst_of in *; rewrite ?Hp, ?Hc, ?Hh, ?Hl, ?Hs, ?Hr, ?Hi; auto.
  - intros op p A B. destruct (J1 op p A B) as (S1 & S2 & S3).
    unfold sid_of, tok_of, sok_of in *. rewrite (Vst _ S1). repeat split; assumption.
  - intros op p A B C D. destruct (J2 op p A B C D) as (pv & P1 & P2 & P3 & P4 & P5 & P6).
    exists pv. unfold prio_of, sid_of, sok_of in *. rewrite (Vst _ P1), (Vst _ P5). repeat split; assumption.
Qed.

Lemma Inv_instdef b t i key H TTL vi gr mh pr tk mo hh hd bt hp :
  Inv b -> guards0 b (t, EInstDef i key H TTL vi gr mh pr tk mo hh hd bt hp) = [] ->
  Inv (bapply b (t, EInstDef i key H TTL vi gr mh pr tk mo hh hd bt hp)).
Proof.
  intros I G.
  cbn in G. apply pwhen_nil in G.
  set (b' := bapply b (t, EInstDef i key H TTL vi gr mh pr tk mo hh hd bt hp)).
  assert (Hp : b_pend b' = b_pend b) by reflexivity.
  assert (Hv : b_vals b' = b_vals b) by reflexivity.
  assert (Hh : b_hist b' = b_hist b) by reflexivity.
  assert (Hl : b_last b' = b_last b) by reflexivity.
  assert (Hs : b_seq b' = b_seq b) by reflexivity.
  assert (Hr : b_rets b' = b_rets b) by reflexivity.
  assert (Ec : forall j, ic_takeover (cfg_of b j) = true -> cfg_of b' j = cfg_of b j).
  { intros j Hj. unfold cfg_of in *. unfold b'. cbn. rewrite aget_aset. destruct (i =? j) eqn:E; [|reflexivity].
    apply Z.eqb_eq in E. subst j. destruct (aget (b_cfgs b) i); [discriminate|]. cbn in Hj. discriminate. }
  destruct I as [J1 J2 J3 J4 J5 J6 J7 J8 J9].
  constructor; unfold in_hist, sok_of, sid_of, tok_of, prio_of, vinfo_of, last_of in *; rewrite ?Hp, ?Hv, ?Hh, ?Hl, ?Hs, ?Hr; auto.
  - intros op p A B C D. destruct (J2 op p A B C D) as (pv & P1 & P2 & P3 & P4 & P5 & P6).
    exists pv. rewrite (Ec _ P3). repeat split; assumption.
  - intros j. unfold inst_of, b'. cbn. rewrite aget_aset. destruct (i =? j); [cbn; discriminate|apply J9].
Qed.

Lemma Inv_expire b t key rev :
  Inv b -> Inv (bapply b (t, EExpire key rev)).
Proof.
  intros I.
  set (b' := bapply b (t, EExpire key rev)).
  assert (Hp : b_pend b' = b_pend b) by reflexivity.
  assert (Hv : b_vals b' = b_vals b) by reflexivity.
  assert (Hc : b_cfgs b' = b_cfgs b) by reflexivity.
  assert (Hh : b_hist b' = b_hist b) by reflexivity.
  assert (Hs : b_seq b' = b_seq b) by reflexivity.
  assert (Hr : b_rets b' = b_rets b) by reflexivity.
  assert (Hi : b_inst b' = b_inst b) by reflexivity.
  destruct I as [J1 J2 J3 J4 J5 J6 J7 J8 J9].
  constructor; unfold in_hist, sok_of, sid_of, tok_of, prio_of, vinfo_of, cfg_of, inst_of in *; rewrite ?Hp, ?Hv, ?Hc, ?Hh, ?Hs, ?Hr, ?Hi; auto.
  intros k r v tomb. unfold last_of, b'. cbn.
  destruct (Z.eq_dec k key) as [E|E].
  - subst k. rewrite aget_adel_same. discriminate.
  - rewrite aget_adel_other by exact E. apply J3.
Qed.

Lemma Inv_step b te : Inv b -> guards0 b te = [] -> Inv (bapply b te).
Proof.
  intros I G. destruct te as [t e].
  destruct e;
    try (apply Inv_issue; assumption); try (apply Inv_apply; assumption); try (apply Inv_ret; assumption);
    try (apply Inv_valdef; assumption); try (apply Inv_instdef; assumption); try (apply Inv_expire; assumption);
    try (cbn [bapply]; apply Inv_now; exact I).
  - (* EFlag *)
    cbn [bapply]. destruct (zb b0).
    + destruct (aget (b_rets (b <| b_now := t |>)) gid); apply Inv_upd; auto; cbn; apply (inv_stopped _ I).
    + apply Inv_upd; auto; cbn; apply (inv_stopped _ I).
  - (* ETrans *)
    cbn [bapply]. apply Inv_upd; auto. cbn. intros Hs.
    cbn in G. apply pwhen_nil in G. rewrite (inv_stopped _ I _ Hs) in G. cbn in G.
    apply Bool.negb_false_iff in G. apply Z.eqb_eq in G. exact G.
  - (* EPromote *)
    cbn [bapply]. apply Inv_upd; auto. cbn. apply (inv_stopped _ I).
  - (* EDemote *)
    cbn [bapply]. apply Inv_upd; auto. cbn. apply (inv_stopped _ I).
  - (* EApi *)
    cbn [bapply]. destruct ((call =? aStop) || (call =? aStopCtx) || (call =? 8))%bool; [|apply Inv_now; exact I].
    apply Inv_upd; auto. cbn. apply (inv_stopped _ I).
  - (* EApiRet *)
    cbn [bapply]. cbn in G. apply pwhen_nil in G.
    destruct ((call =? aStop) || (call =? aStopCtx))%bool.
    2:{ destruct (call =? 8); [apply Inv_upd; auto; cbn; apply (inv_stopped _ I)|apply Inv_now; exact I]. }
    destruct (res =? 0) eqn:E0.
    + apply Inv_upd; auto. cbn. intros _. cbn in G. apply Bool.negb_false_iff in G. apply Z.eqb_eq in G. exact G.
    + destruct (res =? 1); apply Inv_upd; auto; cbn; apply (inv_stopped _ I).
  - (* EEnd *)
    cbn [bapply]. apply (Inv_frame b); [unfold same_store; cbn; intuition| |exact I].
    intros j. unfold inst_of. cbn. apply (inv_stopped _ I).
  - (* EExtPut *)
    cbn [bapply]. apply Inv_publish; [apply Inv_now; exact I|].
    cbn in G. apply pwhen_nil in G. apply Bool.negb_false_iff in G. apply Z.eqb_eq in G. exact G.
  - (* EExtDel *)
    cbn [bapply]. apply Inv_publish; [apply Inv_now; exact I|].
    cbn in G. apply pwhen_nil in G. apply Bool.negb_false_iff in G. apply Z.eqb_eq in G. exact G.
  - (* ELog *)
    cbn [bapply]. destruct (code =? 1); [|apply Inv_now; exact I].
    apply Inv_upd; auto. cbn. discriminate.
Qed.

(* ================================================================ global clauses from the invariants *)
Lemma in_hist_uniq b k r v1 t1 v2 t2 :
  Inv b -> in_hist b k r v1 t1 -> in_hist b k r v2 t2 -> v1 = v2 /\ t1 = t2.
Proof.
  intros I (x & Hx & X1 & X2 & X3 & X4) (y & Hy & Y1 & Y2 & Y3 & Y4).
  assert (E : x = y) by (apply (inv_uniq _ I); auto; congruence).
  subst y. split; congruence.
Qed.

(* C01: a created record names its creator; a takeover replaces only a live version of strictly lower
   priority, with takeover enabled. C10: the same for "another instance's record". *)
Lemma C01_identity_takeover_apply b t op okind rev val :
  Inv b -> guards0 b (t, EApply op okind rev val) = [] ->
  ~ In 103 (mon_C01 b (t, EApply op okind rev val)) /\ ~ In 106 (mon_C01 b (t, EApply op okind rev val)) /\
  (In 1001 (mon_C10s b (t, EApply op okind rev val)) -> exists p, aget (b_pend b) op = Some p /\ p_inner p <> sTakeover).
Proof.
  intros I G. cbn [mon_C01 mon_C10s snd].
  destruct (aget (b_pend b) op) as [p|] eqn:Hp; [|repeat split; intros []].
  destruct (okind =? oOk) eqn:Eok; cbn [negb andb]; [|repeat split; intros []].
  destruct (p_kind p =? kCreate) eqn:Kc.
  { (* Create *)
    apply Z.eqb_eq in Kc. destruct (inv_create _ I op p Hp Kc) as (S1 & S2 & _).
    assert (Ku : p_kind p =? kUpdate = false) by (rewrite Kc; reflexivity). rewrite Ku.
    repeat split; try (intros []).
    - intros H. apply in_app_or in H. destruct H as [H|H]; apply mwhen_in in H; destruct H as [H E]; try discriminate.
      rewrite S1, S2, Z.eqb_refl in H. discriminate.
    - intros H. apply in_app_or in H. destruct H as [H|H]; apply mwhen_in in H; destruct H; discriminate. }
  destruct (p_kind p =? kUpdate) eqn:Ku.
  2:{ repeat split; try (intros []).
      - destruct (p_kind p =? kDelete); [|intros []].
        destruct (last_of b (p_key p)) as [[[r pv] [|]]|]; intros H; apply mwhen_in in H; destruct H; discriminate.
      - destruct (p_kind p =? kDelete); [|intros []].
        destruct (last_of b (p_key p)) as [[[r pv] [|]]|]; intros H; apply mwhen_in in H; destruct H; discriminate. }
  (* Update *)
  assert (Kw : p_kind p =? kWatch = false) by (apply Z.eqb_eq in Ku; rewrite Ku; reflexivity).
  destruct (guards_apply _ _ _ _ _ _ _ Hp G Kw) as (Hn & Ho & _).
  apply Z.eqb_eq in Eok. subst okind.
  unfold store_outcome in Ho. rewrite Kc, Ku in Ho.
  destruct (p_exp p =? last_rev_of b (p_key p)) eqn:Ee; [|cbn in Ho; discriminate].
  apply Z.eqb_eq in Ee.
  destruct (last_of b (p_key p)) as [[[r pv] tomb]|] eqn:El.
  2:{ repeat split; try (intros []). - intros H; apply mwhen_in in H; destruct H; discriminate.
      - intros H; apply mwhen_in in H; destruct H; discriminate. }
  unfold last_rev_of in Ee. rewrite El in Ee.
  destruct (p_inner p =? sTakeover) eqn:Et.
  - (* the takeover path *)
    apply Z.eqb_eq in Ku, Et.
    destruct (inv_takeover _ I op p Hp Ku Et Hn) as (pv0 & P1 & P2 & P3 & P4 & P5 & P6).
    pose proof (inv_last _ I _ _ _ _ El) as L. rewrite <- Ee in L.
    destruct (in_hist_uniq _ _ _ _ _ _ _ I L P4) as [Epv Etomb]. subst pv tomb.
    assert (Hs : p_inner p =? sHeartbeat = false) by (rewrite Et; reflexivity). rewrite Hs.
    assert (Hlt : prio_of b pv0 <? ic_prio (cfg_of b (p_i p)) = true) by (apply Z.ltb_lt; exact P2).
    repeat split.
    + intros H. apply in_app_or in H. destruct H as [H|H]; apply mwhen_in in H; destruct H; discriminate.
    + intros H. apply in_app_or in H. destruct H as [H|H]; apply mwhen_in in H; destruct H as [H E]; try discriminate.
      rewrite P3, P1, Hlt, P5, P6, Z.eqb_refl in H. discriminate.
    + intros H. apply mwhen_in in H. destruct H as [H _]. rewrite P3, P1, Hlt in H. cbn in H.
      rewrite Bool.andb_false_r in H. discriminate.
  - (* any other path: not this lemma's business, but it cannot raise 103/106 *)
    repeat split.
    + intros H. apply in_app_or in H. destruct H as [H|H]; [apply mwhen_in in H; destruct H; discriminate|].
      destruct (p_inner p =? sHeartbeat); [apply mwhen_in in H; destruct H; discriminate|].
      cbn in H. intuition discriminate.
    + intros H. apply in_app_or in H. destruct H as [H|H]; [apply mwhen_in in H; destruct H; discriminate|].
      destruct (p_inner p =? sHeartbeat); [apply mwhen_in in H; destruct H; discriminate|].
      cbn in H. intuition discriminate.
    + intros _. exists p. split; [reflexivity|]. intros E. rewrite E in Et. discriminate.
Qed.

(* C09: a stopped election never raises the claim again *)
Lemma C09_final_flag b m t i fl cause root gid :
  Inv b -> guards0 b (t, EFlag i fl cause root gid) = [] -> ~ In 901 (mon_C09 b m (t, EFlag i fl cause root gid)).
Proof.
  intros I G. cbn [mon_C09 snd]. intros H. apply mwhen_in in H. destruct H as [H _].
  apply andb_prop in H. destruct H as [Hf Hs].
  cbn in G. rewrite Hf in G. apply app_nil_l2 in G. destruct G as [G _]. apply pwhen_nil in G.
  rewrite (inv_stopped _ I _ Hs) in G. discriminate.
Qed.

(* C05: every acquisition by Create publishes a readable, non-empty token *)
Lemma C05_create_token b op p :
  Inv b -> aget (b_pend b) op = Some p -> p_kind p = kCreate ->
  sok_of b (p_val p) = true /\ tok_of b (p_val p) <> 0 /\ sid_of b (p_val p) = p_i p.
Proof. intros I Hp Hk. destruct (inv_create _ I op p Hp Hk) as (A & B & C). auto. Qed.

(* ================================================================ lifting to traces *)
Lemma admitted_prefix tr : forall b, Inv b -> admits b tr = true ->
  forall pre te post, tr = pre ++ te :: post ->
  Inv (fold_left bapply pre b) /\ guards (fold_left bapply pre b) te = [].
Proof.
  induction tr as [|x tr IH]; intros b I A pre te post E.
  - destruct pre; discriminate.
  - cbn in A. destruct (guards b x) eqn:G; [|discriminate].
    destruct pre as [|y pre]; cbn in E.
    + inversion E. subst x post. cbn. auto.
    + inversion E. subst y. cbn [fold_left]. eapply IH; eauto. apply Inv_step; [assumption|apply guards_split in G; tauto].
Qed.
