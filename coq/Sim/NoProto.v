(* Sim/NoProto.v — stand-in for Proto.check_guards in the specification-only oracle (built when the
   definitions regenerated from /repo do not translate or compile): the monitors still run, the rules do not. *)
From LE Require Import Base Ev.
Definition check_guards (tr : trace) : list (Z * Z) := [].
Definition check_guards2 (tr : trace) : list (Z * Z) := [].
