(* Sim/Run.v — one pass over a trace: shared state, monitor state, alarms, and the
   environment facts that decide which environment-conditional properties apply. *)
From RecordUpdate Require Import RecordUpdate.
From LE Require Import Base Ev World Mon Mon2.
Open Scope Z_scope.

(* preemption is possible in a group when some member has takeover enabled and a strictly higher priority than
   another member (rule 2005 / theorem C10 allow no other replacement of a live record) *)
Definition preempt_possible (b : base) (key pr : Z) (tk : bool) : bool :=
  existsb (fun kc => let c := snd kc in
             (ic_key c =? key) && ((tk && (ic_prio c <? pr)) || (ic_takeover c && (pr <? ic_prio c)))) (b_cfgs b).

(* environment facts (codes 9xxx), reported like alarms and interpreted by the driver *)
Definition env_facts (b : base) (te : Z * ev) : list alarm :=
  match snd te with
  | ERet i op rk rev val =>
      when (10 <=? rk) 9001 ++
      match aget (b_pend b) op with
      | Some p => when ((ic_H (cfg_of b i)) <=? 2 * (fst te - p_t p)) 9002
      | None => []
      end
  | EExtPut _ _ _ | EExtDel _ _ => [9003]
  | EInstDef i key H TTL vi gr mh pr tk mo hh hd bt hp => when (preempt_possible b key pr (zb tk)) 9004 ++ when (zb mo) 9008
  | EApi i call a1 a2 a3 a4 gid => when (call =? aConn) 9005
  | EHealth i n res dl dur => when (negb (zb res)) 9006 ++ when (dl <? dur) 9013   (* 9013: the checker ignored its deadline *)
  | EWDrop _ _ _ _ => [9007]
  | EWClose _ _ => [9009]
  | ECrash _ => [9010]
  | EEnvMark c _ _ => [9000 + c]
  | _ => []
  end.

Record rstate := mkR { r_b : base; r_m : mst; r_q : mst2 }.
Definition rstate0 := mkR base0 [] mst20.

Definition alarms_of (s : rstate) (te : Z * ev) : list alarm :=
  let b := r_b s in
  let b' := bapply b te in
  let m := r_m s in
  if b_ended b then (match snd te with ECensus n => when (negb (n =? 0)) 904 | EHarnessPanic => [906; 1304] | _ => [] end) ++ env_facts b te else
  mon_C01 b te ++ mon_C05 b te ++ mon_C02 b' te ++ mon_C07 b te ++ mon_C10s b te ++ mon_C13 b te ++
  mon_C08 b m te ++ mon_C09 b m te ++ mon_C13w b m te ++ mon_C18 b m te ++ mon_C19 b m te ++ mon2 b (r_q s) te ++
  env_facts b te.

Definition rstep (s : rstate) (te : Z * ev) : rstate :=
  let b' := bapply (r_b s) te in
  mkR b' (mapply (r_b s) b' (r_m s) te) (m2apply (r_b s) b' (r_q s) te).

(* all alarms of a trace, each with the index of the observation that raised it *)
Fixpoint run_alarms (s : rstate) (tr : trace) (idx : Z) : list (Z * alarm) :=
  match tr with
  | [] => []
  | te :: r => map (fun a => (idx, a)) (alarms_of s te) ++ run_alarms (rstep s te) r (idx + 1)
  end.

Definition check_trace (tr : trace) : list (Z * alarm) := run_alarms rstate0 tr 0.
