(* Sim/Verdict.v — the decision chain of validateToken after its read, over the map-decoder view of
   the record (hand-written from leader/kv_election.go validateToken; the simulator compares every
   ValidateToken / ValidateTokenOrDemote result of the real library with it through monitor 401). *)
From LE Require Import Base Ev World Mon Mon2.
Open Scope Z_scope.

Definition verdict (tok me : Z) (entry : option vinfo) : bool :=
  if tok =? 0 then false else
  match entry with
  | None => false
  | Some x =>
      if negb (v_mok x) then false              (* unmarshal error *)
      else if negb (v_hastok x =? 1) then false (* "token" missing or not a string *)
      else if negb (v_mtok x =? tok) then false (* token mismatch *)
      else if negb (v_hasid x =? 1) then false  (* "id" missing or not a string *)
      else v_mid x =? me                        (* leader id mismatch *)
  end.

Definition live_info (b : base) (i : Z) : option vinfo :=
  match live_val b (ic_key (cfg_of b i)) with Some (_, v) => Some (vinfo_of b v) | None => None end.

Lemma verdict_iff tok me e :
  verdict tok me e = true <->
  tok <> 0 /\ exists x, e = Some x /\ v_mok x = true /\ v_hastok x = 1 /\ v_mtok x = tok /\ v_hasid x = 1 /\ v_mid x = me.
Proof.
  unfold verdict. destruct (Z.eqb_spec tok 0) as [E0|E0].
  - split; [discriminate|intros [H _]; contradiction].
  - destruct e as [x|]; [|split; [discriminate|intros (_ & x & H & _); discriminate]].
    destruct (v_mok x) eqn:E1; cbn [negb].
    2:{ split; [discriminate|intros (_ & y & H & H1 & _); inversion H; subst; congruence]. }
    destruct (Z.eqb_spec (v_hastok x) 1) as [E2|E2]; cbn [negb].
    2:{ split; [discriminate|intros (_ & y & H & _ & H2 & _); inversion H; subst; congruence]. }
    destruct (Z.eqb_spec (v_mtok x) tok) as [E3|E3]; cbn [negb].
    2:{ split; [discriminate|intros (_ & y & H & _ & _ & H3 & _); inversion H; subst; congruence]. }
    destruct (Z.eqb_spec (v_hasid x) 1) as [E4|E4]; cbn [negb].
    2:{ split; [discriminate|intros (_ & y & H & _ & _ & _ & H4 & _); inversion H; subst; congruence]. }
    split.
    + intros H. apply Z.eqb_eq in H. split; [exact E0|]. exists x. repeat split; assumption.
    + intros (_ & y & H & _ & _ & _ & _ & H5). inversion H; subst. apply Z.eqb_refl.
Qed.

(* the condition monitor 401 demands for a positive answer is exactly a positive verdict on the live record *)
Lemma record_good_is_verdict b i tok : record_good b i tok = verdict tok i (live_info b i).
Proof.
  unfold record_good, verdict, live_info.
  destruct (live_val b (ic_key (cfg_of b i))) as [[r v]|].
  - destruct (Z.eqb_spec tok 0); cbn [negb]; [rewrite Bool.andb_false_r; reflexivity|].
    destruct (v_mok (vinfo_of b v)); cbn; [|reflexivity].
    destruct (v_hasid (vinfo_of b v) =? 1), (v_mid (vinfo_of b v) =? i), (v_hastok (vinfo_of b v) =? 1), (v_mtok (vinfo_of b v) =? tok); reflexivity.
  - destruct (tok =? 0); reflexivity.
Qed.
