(* Sim/Proto.v — the protocol model of the election library: the LOCAL rules every
   instance follows, stated as guards on observations. A rule mentions only the acting
   instance's configuration and observable state, the arguments and results of its own
   store calls, and the store contract (Store.v / harness/refstore) at the linearisation
   points. The theorems (Proofs/Sim*.v) derive the GLOBAL properties (Mon.v) for every
   trace these rules admit; the correspondence check replays the real library's traces
   through [guards] and reports the first rule that does not hold.

   Comparisons and constants come from gen/GenGuards.v, regenerated from the source. *)
From RecordUpdate Require Import RecordUpdate.
From LE Require Import Base Ev World Mon GenGuards.
Open Scope Z_scope.

Definition rule := Z.

Fixpoint view_mem (tk r : Z) (l : list (Z * Z)) : bool :=
  match l with [] => false | (a, c) :: rest => ((a =? tk) && (c =? r)) || view_mem tk r rest end.

(* R-fresh: the payload of an acquisition attempt has never been handed to the store before and no
   other known value carries its token (uuid.New() per attempt; trusted: UUIDs do not repeat) *)
Definition fresh_payload (b : base) (val : Z) : bool :=
  negb (existsb (fun op => p_val (snd op) =? val) (b_pend b)) &&
  forallb (fun vi => (fst vi =? val) || negb (v_stok (snd vi) =? tok_of b val)) (b_vals b).

(* R-takeover: the Update of a priority takeover is issued by the goroutine whose previous call was a
   successful Get of the record, against exactly the revision read, only when takeover is enabled and
   the stored priority is strictly lower; it publishes the payload of the attempt's own Create *)
Definition takeover_ok (b : base) (i gid val exp : Z) : bool :=
  let c := cfg_of b i in
  match aget (b_rets b) gid with
  | Some r =>
      (lr_i r =? i) && (lr_kind r =? kGet) && (lr_rk r =? oOk) && (lr_rev r =? exp) && (lr_key r =? ic_key c)
      && sok_of b (lr_val r) && negb (gen_takeover_yields (ic_prio c) (prio_of b (lr_val r)))
      && gen_takeover_enabled (ic_takeover c) (ic_prio c)
      && sok_of b val && (sid_of b val =? i)
      && existsb (fun op => let p := snd op in (p_i p =? i) && (p_kind p =? kCreate) && (p_val p =? val) && (p_gid p =? gid)) (b_pend b)
  | None => false
  end.

Definition when (c : bool) (r : rule) : list rule := if c then [r] else [].

(* R-tick (rule 2070): a leader without health checker that is not shutting down refreshes on time. While an attempt is
   in flight the loop waits at most the per-attempt time-out; otherwise the next attempt starts by the ticker rule
   (one period after the previous start, or at once when the previous attempt ended later than that). *)
Definition tick_due (b : base) (ic : Z * icfg) : Z :=
  let x := inst_of b (fst ic) in
  if io_hb_te x <? 0 then Z.max (io_hb_ta x + gen_hb_update_timeout (ic_H (snd ic))) (io_hb_ta x + ic_H (snd ic))
  else Z.max (io_hb_ta x + ic_H (snd ic)) (io_hb_te x).
Definition ticking (b : base) (ic : Z * icfg) : bool :=
  let x := inst_of b (fst ic) in io_flag x && negb (io_stopping x) && negb (ic_hashealth (snd ic)).
Definition overdue_ticks (b : base) (t : Z) : list rule :=
  flat_map (fun ic => when (ticking b ic && (tick_due b ic <? t)) 2070) (b_cfgs b).

(* the rules; evaluated on the state before the observation *)
Definition guards0 (b : base) (te : Z * ev) : list rule :=
  match snd te with
  | EValDef v _ _ _ _ _ _ _ _ _ _ => when (match aget (b_vals b) v with Some _ => true | None => false end) 2060
  | EInstDef i _ _ _ _ _ _ _ _ _ _ _ _ _ => when (match aget (b_cfgs b) i with Some _ => true | None => false end) 2061
  | EIssue i op kind inner root gid key val exp =>
      let c := cfg_of b i in
      when (match aget (b_pend b) op with Some _ => true | None => false end) 2009 ++
      when (negb (key =? ic_key c)) 2001 ++
      (if kind =? kCreate then
         when (negb (sok_of b val && (sid_of b val =? i) && (prio_of b val =? ic_prio c) && negb (tok_of b val =? 0))) 2002 ++
         when (negb (fresh_payload b val)) 2003
       else if kind =? kUpdate then
         if inner =? sHeartbeat then
           when (negb (sok_of b val && (sid_of b val =? i) && view_mem (tok_of b val) exp (io_views (inst_of b i)))) 2004
         else if inner =? sTakeover then when (negb (takeover_ok b i gid val exp)) 2005
         else [2006]
       else if kind =? kDelete then when (negb (inner =? sStopCtx)) 2007 ++ when (io_flag (inst_of b i)) 2014
       else []) ++
      when (match aget (b_cfgs b) i with Some _ => false | None => true end) 2008
  | EApply op okind rev val =>
      match aget (b_pend b) op with
      | None => [2010]
      | Some p =>
          when (match p_applied p with Some _ => true | None => false end) 2011 ++
          (if p_kind p =? kWatch then [] else
           let '(ok, r) := store_outcome b (p_kind p) (p_key p) (p_exp p) in
           when (negb ((ok =? okind) && (r =? rev))) 2012 ++
           when ((p_kind p =? kGet) && (okind =? oOk) &&
                 negb (match live_val b (p_key p) with Some (_, v) => v =? val | None => false end)) 2013)
      end
  | ERet i op rk rev val =>
      match aget (b_pend b) op with
      | None => [2020]
      | Some p =>
          when (negb (p_i p =? i)) 2021 ++
          (* a call returns to its caller once *)
          when (existsb (Z.eqb op) (b_done b)) 2023 ++
          (if (rk <? 10) && negb (p_kind p =? kWatch) then
             match p_applied p with
             | Some (ok, r, v, _) => when (negb ((ok =? rk) && ((r =? rev) || negb (rk =? oOk)) && (negb (p_kind p =? kGet) || negb (rk =? oOk) || (v =? val)))) 2022
             | None => [2022]
             end
           else [])
      end
  | EFlag i fl cause root gid =>
      let x := inst_of b i in
      if zb fl then
        when (io_state x =? stStopped) 2030 ++ when (io_flag x) 2031 ++
        when (ic_hasdemote (cfg_of b i) && negb (io_demotes x =? io_ended x)) 2045 ++
        match aget (b_rets b) gid with
        | Some r => when (negb (lr_won r && (lr_i r =? i) && (lr_key r =? ic_key (cfg_of b i)))) 2032 ++
                    (* the claim is raised at the very instant the winning call returns *)
                    when (negb (lr_t r =? fst te)) 2033
        | None => [2032]
        end
      else []
  | ETrans i f to => when ((io_state (inst_of b i) =? stStopped) && negb (to =? stStopped)) 2040
  | EApiRet i call res err gid =>
      when (((call =? aStop) || (call =? aStopCtx)) && (res =? 0) && negb (io_state (inst_of b i) =? stStopped)) 2041
  (* callbacks: one promotion per term (its goroutine may be scheduled after a stop that lands at the very instant of the
     promotion has ended the term: rules 2042/2046 of earlier versions were too strong); a demotion only when one is owed;
     the claim is raised only when no callback is owed (2045, 2048); a term's demotion follows its promotion (2047) *)
  | EPromote i tok gid =>
      let x := inst_of b i in
      when (negb (io_promotes x <? io_terms x)) 2043
  | EDemote i gid => let x := inst_of b i in when (negb (io_demotes x <? io_ended x)) 2044
  | EExtPut key val rev => when (negb (rev =? b_seq b + 1)) 2050
  | EExtDel key rev => when (negb (rev =? b_seq b + 1)) 2050
  | EExpire key rev => when (negb (last_rev_of b key =? rev) || (rev =? 0)) 2052
  | _ => []
  end.

(* rule 2034: once the context passed to Start has been cancelled, the run does not raise the claim any more
   (an acquisition still in flight may complete; becomeLeader ignores it) *)
Definition late_claim (b : base) (te : Z * ev) : list rule :=
  match snd te with
  | EFlag i fl cause root _ =>
      let x := inst_of b i in
      when (zb fl && io_cancelled x) 2034 ++
      (* rule 2048: a new term starts only when the promotion callbacks of the earlier terms have been entered *)
      when (zb fl && ic_haspromote (cfg_of b i) && negb (io_promotes x =? io_terms x)) 2048 ++
      (* rule 2081: the validation loop gives up the claim only on the strength of a validation read issued in the running
         term (not before the write the term rests on was applied) that has not been answered within the read's time-out, or
         was answered with an error or with a record that does not carry the instance's id and token *)
      when (negb (zb fl) && io_flag x && (cause =? sValFail) && (root =? 16) (* from the term's own validation loop, started by becomeLeader *) &&
            negb (existsb (fun o => let q := snd o in
                     (p_kind q =? kGet) && (p_inner q =? sValidate) && (p_i q =? i) &&
                     (match find_ver (b_hist b) (ic_key (cfg_of b i)) (io_acq_rev x) with Some v => ver_t v | None => 0 end <=? p_t q) &&
                     (if existsb (Z.eqb (fst o)) (b_done b) then
                        (* answered: with an error (the latest return of the calling goroutine), or with a record that is not the
                           instance's own *)
                        match p_applied q with
                        | Some (ok, _, v, _) =>
                            negb (ok =? oOk) ||
                            negb (let y := vinfo_of b v in v_mok y && (v_hasid y =? 1) && (v_mid y =? i) && (v_hastok y =? 1) && (v_mtok y =? io_tok x))
                        | None => true
                        end ||
                        match aget (b_rets b) (p_gid q) with
                        | Some lr => (lr_kind lr =? kGet) && (lr_inner lr =? sValidate) && (10 <=? lr_rk lr)
                        | None => false
                        end
                      else
                        (* not answered yet: the read's time-out has passed (a late answer does not undo the failure) *)
                        gen_val_read_timeout (ic_H (cfg_of b i)) <=? fst te - p_t q)) (b_pend b))) 2081 ++
      (* rule 2080: the heartbeat-failure path gives up the claim only after a refresh attempt of the running term has failed:
         the latest attempt was not answered with success in time, or it is still in flight and the loop's time-out has passed *)
      when (negb (zb fl) && io_flag x && (cause =? sHbFail) &&
            (io_hb_ok x || ((io_hb_te x <? 0) && (fst te - io_hb_ta x <? gen_hb_update_timeout (ic_H (cfg_of b i)))))) 2080 ++
      (* rule 2082: the watcher gives up the claim ("preempted") only when the record has a readable version that names another
         instance and is newer than the write the running term rests on *)
      when (negb (zb fl) && io_flag x && (cause =? sWatchEvt) &&
            negb (existsb (fun v => (ver_key v =? ic_key (cfg_of b i)) && (io_acq_rev x <? ver_rev v) && negb (ver_tomb v) &&
                                    sok_of b (ver_val v) && negb (sid_of b (ver_val v) =? i)) (b_hist b))) 2082
  (* rule 2047: the demotion callback of a term is entered after its promotion callback *)
  | EDemote i _ => let x := inst_of b i in when (ic_haspromote (cfg_of b i) && (io_promotes x <? io_ended x)) 2047
  | _ => []
  end.

(* rule 2072: an instance that is shutting down (Stop, StopWithContext, cancelled context) drops its claim at the
   instant the shutdown begins *)
Definition late_drop (b : base) (t : Z) : list rule :=
  flat_map (fun ic => let x := inst_of b (fst ic) in when (io_flag x && io_stopping x && (io_stop_t x <? t)) 2072) (b_cfgs b).

(* rules 2073, 2074: the refresh loop of a term is sequential (a new attempt starts only when the previous one has
   been answered or has timed out) and refreshes against the latest revision of its term *)
Definition refresh_order (b : base) (te : Z * ev) : list rule :=
  match snd te with
  | EIssue i op kind inner root gid key val exp =>
      let x := inst_of b i in
      if (kind =? kUpdate) && (inner =? sHeartbeat) then
        if io_flag x && (tok_of b val =? io_tok x) then
          when (negb ((0 <=? io_hb_te x) || (gen_hb_update_timeout (ic_H (cfg_of b i)) <=? fst te - io_hb_ta x))) 2073 ++
          when (negb (match io_views x with (tk, r) :: _ => (tk =? io_tok x) && (r =? exp) | [] => false end)) 2074
        else [2075]   (* rule 2075: only a claiming instance refreshes, with the token of its running term *)
      else []
  (* rule 2076: every term rests on a newer write than the previous one *)
  | EFlag i fl _ _ gid =>
      if zb fl then match aget (b_rets b) gid with Some r => when (lr_rev r <=? io_acq_rev (inst_of b i)) 2076 | None => [] end else []
  | _ => []
  end.

(* rule 2000: observations are in time order *)
Definition guards (b : base) (te : Z * ev) : list rule :=
  guards0 b te ++ overdue_ticks b (fst te) ++ when (fst te <? b_now b) 2000 ++ late_claim b te ++ late_drop b (fst te) ++ refresh_order b te.

(* a trace is admitted when every observation satisfies the rules *)
Fixpoint admits (b : base) (tr : trace) : bool :=
  match tr with
  | [] => true
  | te :: r => match guards b te with [] => admits (bapply b te) r | _ => false end
  end.

(* for the correspondence check: every rule violation of a trace, with its index *)
Fixpoint run_guards (b : base) (tr : trace) (idx : Z) : list (Z * rule) :=
  match tr with
  | [] => []
  | te :: r => (if b_ended b then [] else map (fun g => (idx, g)) (guards b te)) ++ run_guards (bapply b te) r (idx + 1)
  end.

Definition check_guards (tr : trace) : list (Z * rule) := run_guards base0 tr 0.
