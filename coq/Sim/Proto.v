(* Sim/Proto.v — the protocol model: local rules every instance follows, as guards on
   observations. (under construction) *)
From RecordUpdate Require Import RecordUpdate.
From LE Require Import Base Ev World.
Open Scope Z_scope.

Definition check_guards (tr : trace) : list (Z * Z) := [].
