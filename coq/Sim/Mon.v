(* Sim/Mon.v — the properties as executable predicates on observation traces.
   One definition serves both sides: the oracle evaluates these functions on the traces of
   the real library, and the theorems (Proofs/Sim*.v, Props/C*.v) are about these functions
   on every trace the protocol model (Proto.v) admits.
   A monitor returns the list of alarm codes raised by one observation (empty = fine);
   codes are <property number>*100 + clause. *)
From RecordUpdate Require Import RecordUpdate.
From LE Require Import Base Ev World.
Open Scope Z_scope.

Definition alarm := Z.

(* ---------------------------------------------------------------- history helpers *)
Fixpoint find_ver (h : list version) (key rev : Z) : option version :=
  match h with
  | [] => None
  | v :: r => if (ver_key v =? key) && (ver_rev v =? rev) then Some v else find_ver r key rev
  end.

(* newest version of the key written by instance i *)
Fixpoint latest_by (h : list version) (key i : Z) : option version :=
  match h with
  | [] => None
  | v :: r => if (ver_key v =? key) && (ver_author v =? i) && negb (ver_tomb v) then Some v else latest_by r key i
  end.

(* newest version of the key (any author, tombstones included) *)
Fixpoint latest_ver (h : list version) (key : Z) : option version :=
  match h with
  | [] => None
  | v :: r => if ver_key v =? key then Some v else latest_ver r key
  end.

Definition tok_of (b : base) (val : Z) : Z := v_stok (vinfo_of b val).
Definition sid_of (b : base) (val : Z) : Z := v_sid (vinfo_of b val).
Definition sok_of (b : base) (val : Z) : bool := v_sok (vinfo_of b val).
Definition prio_of (b : base) (val : Z) : Z := v_sprio (vinfo_of b val).

Fixpoint tok_in_hist (b : base) (h : list version) (tok : Z) : bool :=
  match h with
  | [] => false
  | v :: r => (negb (ver_tomb v) && sok_of b (ver_val v) && (tok_of b (ver_val v) =? tok)) || tok_in_hist b r tok
  end.

Definition when (c : bool) (a : alarm) : list alarm := if c then [a] else [].

(* instances that currently claim leadership of key k *)
Definition claimants (b : base) (k : Z) : list Z :=
  map fst (filter (fun ic => (ic_key (snd ic) =? k) && io_flag (inst_of b (fst ic))) (b_cfgs b)).

(* the live record of i's key is i's own, with i's current token *)
Definition backed (b : base) (i : Z) : bool :=
  match live_val b (ic_key (cfg_of b i)) with
  | Some (_, v) => sok_of b v && (sid_of b v =? i) && (tok_of b v =? io_tok (inst_of b i))
  | None => false
  end.

(* ---------------------------------------------------------------- C01 *)
(* evaluated on the state BEFORE the observation is applied *)
Definition mon_C01 (b : base) (te : Z * ev) : list alarm :=
  match snd te with
  | EIssue i op kind inner root gid key val exp => when (negb (key =? ic_key (cfg_of b i))) 101
  | EApply op okind rev val =>
      match aget (b_pend b) op with
      | None => []
      | Some p =>
          if negb (okind =? oOk) then [] else
          let i := p_i p in
          let c := cfg_of b i in
          let prev := last_of b (p_key p) in
          if p_kind p =? kCreate then
            when (live_of b (p_key p)) 102 ++
            when (negb (sok_of b (p_val p) && (sid_of b (p_val p) =? i))) 103
          else if p_kind p =? kUpdate then
            match prev with
            | None => when (negb (p_exp p =? 0)) 104
            | Some (r, pv, tomb) =>
                when (negb (p_exp p =? r)) 104 ++
                let pauthor := match find_ver (b_hist b) (p_key p) r with Some v => ver_author v | None => -1 end in
                if p_inner p =? sHeartbeat then
                  when (negb (negb tomb && (pauthor =? i) && sok_of b pv && sok_of b (p_val p)
                              && (sid_of b pv =? i) && (sid_of b (p_val p) =? i)
                              && (tok_of b pv =? tok_of b (p_val p)))) 105
                else if p_inner p =? sTakeover then
                  when (negb (negb tomb && ic_takeover c && sok_of b pv && (prio_of b pv <? ic_prio c)
                              && sok_of b (p_val p) && (sid_of b (p_val p) =? i))) 106
                else [107]
            end
          else if p_kind p =? kDelete then
            match prev with
            | Some (r, pv, false) =>
                let pauthor := match find_ver (b_hist b) (p_key p) r with Some v => ver_author v | None => -1 end in
                when (negb ((p_inner p =? sStopCtx) && (pauthor =? i))) 108
            | _ => when (negb (p_inner p =? sStopCtx)) 109
            end
          else []
      end
  | _ => []
  end.

(* ---------------------------------------------------------------- C05 *)
Definition mon_C05 (b : base) (te : Z * ev) : list alarm :=
  match snd te with
  | EApply op okind rev val =>
      match aget (b_pend b) op with
      | None => []
      | Some p =>
          if negb (okind =? oOk) then [] else
          let tk := tok_of b (p_val p) in
          if (p_kind p =? kCreate) || ((p_kind p =? kUpdate) && (p_inner p =? sTakeover)) then
            when (negb (sok_of b (p_val p)) || (tk =? 0)) 502 ++ when (tok_in_hist b (b_hist b) tk) 501
          else if (p_kind p =? kUpdate) && (p_inner p =? sHeartbeat) then
            match last_of b (p_key p) with
            | Some (r, pv, false) => when (negb ((tok_of b pv =? tk) && (sid_of b pv =? sid_of b (p_val p)))) 503
            | _ => [503]
            end
          else []
      end
  | EPromote i tok gid =>
      let x := inst_of b i in
      when (negb (tok =? io_tok x)) 504 ++
      (* the record of this term: the version written by the acquisition the claim rests on *)
      match find_ver (b_hist b) (ic_key (cfg_of b i)) (io_acq_rev x) with
      | Some v => when (negb ((tok_of b (ver_val v) =? tok) && (ver_author v =? i))) 505
      | None => [505]
      end
  | EStatus i st il lid tok rev pl plid ptok =>
      (* the token of the current term, i.e. the token of the write that raised the claim (504/505 tie it
         to the stored record at promotion time; refreshes keep it by 503) *)
      if zb il && zb pl then when (negb ((tok =? io_tok (inst_of b i)) && (ptok =? tok))) 506 else []
  | _ => []
  end.

(* ---------------------------------------------------------------- C02 *)
(* evaluated on the state AFTER the observation; meaningful under env_C02 *)
Definition changes_claim_or_record (e : ev) : bool :=
  match e with
  | EFlag _ _ _ _ _ | EApply _ _ _ _ | EExpire _ _ | EExtPut _ _ _ | EExtDel _ _ => true
  | _ => false
  end.

Definition keys_of (b : base) : list Z := map (fun ic => ic_key (snd ic)) (b_cfgs b).

Definition mon_C02 (b' : base) (te : Z * ev) : list alarm :=
  if changes_claim_or_record (snd te) then
    flat_map (fun k => when (Nat.ltb 1 (List.length (claimants b' k))) 201) (keys_of b') ++
    flat_map (fun ic => when (io_flag (inst_of b' (fst ic)) && negb (backed b' (fst ic))) 202) (b_cfgs b')
  else [].

(* ---------------------------------------------------------------- C07 *)
(* before-state; meaningful under env_C07 *)
Definition mon_C07 (b : base) (te : Z * ev) : list alarm :=
  match snd te with
  | EFlag i fl cause root gid =>
      let x := inst_of b i in
      when (negb (zb fl) && io_flag x && negb (io_stopping x)) 701 ++
      when (zb fl && io_flag x) 705
  | EDemote i gid =>
      let x := inst_of b i in
      when (negb (io_stopping x) && negb (io_stopped x) && negb ((io_false_cause x =? sStop) || (io_false_cause x =? sStopCtx))) 702
  | EExpire key rev => when (negb (Nat.eqb (List.length (claimants b key)) 0)) 703
  | EApply op okind rev val =>
      match aget (b_pend b) op with
      | Some p =>
          if (okind =? oOk) && negb (p_kind p =? kGet) && negb (p_kind p =? kWatch) then
            flat_map (fun j => when (negb ((p_i p =? j) && (p_kind p =? kUpdate) && (tok_of b (p_val p) =? io_tok (inst_of b j)))) 704)
                     (claimants b (p_key p))
          else []
      | None => []
      end
  | _ => []
  end.

(* ---------------------------------------------------------------- C10 (safety part) *)
Definition mon_C10s (b : base) (te : Z * ev) : list alarm :=
  match snd te with
  | EApply op okind rev val =>
      match aget (b_pend b) op with
      | Some p =>
          if (okind =? oOk) && (p_kind p =? kUpdate) then
            match last_of b (p_key p) with
            | Some (r, pv, false) =>
                let pauthor := match find_ver (b_hist b) (p_key p) r with Some v => ver_author v | None => -1 end in
                let c := cfg_of b (p_i p) in
                when (negb (pauthor =? p_i p) &&
                      negb ((p_inner p =? sTakeover) && ic_takeover c && sok_of b pv && (prio_of b pv <? ic_prio c))) 1001
            | _ => []
            end
          else []
      | None => []
      end
  | _ => []
  end.

(* ---------------------------------------------------------------- C13 (claim part; crash/hang/bounded work below) *)
Definition mon_C13 (b : base) (te : Z * ev) : list alarm :=
  match snd te with
  | EFlag i fl cause root gid =>
      if zb fl then
        match aget (b_rets b) gid with
        | Some r => when (negb (lr_won r && (lr_i r =? i))) 1302 ++
                    (* the claim rests on the claimant's own write: whatever is live now is that write or
                       something written after it (the window between application and acknowledgement
                       cannot be closed by any client; C03/C04 bound how long such a claim survives) *)
                    match live_val b (ic_key (cfg_of b i)) with
                    | Some (rl, v) => when ((rl <? lr_rev r) || ((rl =? lr_rev r) && negb (sok_of b v && (sid_of b v =? i) && (tok_of b v =? tok_of b (lr_val r))))) 1303
                    | None => []
                    end
        | None => [1302]
        end
      else []
  | EHarnessPanic => [1304]
  | _ => []
  end.

(* ---------------------------------------------------------------- per-instance monitor state *)
Record imon := mkIMon {
  m_promotes : Z; m_demotes : Z; m_bal : Z;
  m_cb_run : list Z;           (* tokens of promotion callbacks still running *)
  m_ctxdone : list Z;          (* tokens whose promotion context has been seen done *)
  m_term_ended : list (Z * Z); (* (token, time): term ended while its callback was running; ctx must be done at that instant *)
  m_issues_at : Z; m_issues_n : Z;
  m_gauge : Z;                 (* last value of the is-leader gauge *)
  m_last_to : Z;               (* to-state of the last recorded transition, -1 none; CANDIDATE after Start *)
  m_stop_call : option (Z * Z * Z * bool * bool * Z); (* t0, call, bound, delete-requested, owned-at-call, caller goroutine *)
  m_wsend : Z;                 (* revision of the watch entry handed to the instance and not yet received (0 none / marker) *)
  m_seen_rev : Z;              (* revision of the record in the last piece of news the instance handled as a follower (watch entry or periodic read) *)
  m_wstopped : list Z;         (* watchers of the instance that have been stopped: what they still deliver is handled by nobody *)
  m_ctx_early : list (Z * Z)   (* (token, time): the promotion context was seen done while the term's claim was still up; excused when the
                                  claim drops at that same instant (the cancellation is part of ending the term) *)
}.
#[export] Instance eta_imon : Settable _ :=
  settable! mkIMon <m_promotes; m_demotes; m_bal; m_cb_run; m_ctxdone; m_term_ended; m_issues_at; m_issues_n; m_gauge; m_last_to; m_stop_call; m_wsend; m_seen_rev; m_wstopped; m_ctx_early>.
Definition imon0 := mkIMon 0 0 0 [] [] [] (-1) 0 0 (-1) None 0 0 [] [].

Definition mst := amap imon.
Definition mon_of (m : mst) (i : Z) : imon := match aget m i with Some x => x | None => imon0 end.
Definition mupd (m : mst) (i : Z) (f : imon -> imon) : mst := aset m i (f (mon_of m i)).

Fixpoint zmem (x : Z) (l : list Z) : bool := match l with [] => false | y :: r => (x =? y) || zmem x r end.
Fixpoint zrem (x : Z) (l : list Z) : list Z := match l with [] => [] | y :: r => if x =? y then r else y :: zrem x r end.

(* state bookkeeping shared by the stateful monitors (before-state b, after-state b') *)
Definition mapply (b b' : base) (m : mst) (te : Z * ev) : mst :=
  let t := fst te in
  match snd te with
  | EPromote i tok gid => mupd m i (fun x => x <| m_promotes ::= Z.succ |> <| m_bal ::= Z.succ |> <| m_cb_run ::= cons tok |>)
  | EPromoteRet i tok => mupd m i (fun x => x <| m_cb_run ::= zrem tok |> <| m_term_ended ::= filter (fun p => negb (fst p =? tok)) |>)
  | EDemote i gid => mupd m i (fun x => x <| m_demotes ::= Z.succ |> <| m_bal ::= Z.pred |>)
  | ECtxDone i tok =>
      let x0 := inst_of b i in
      mupd m i (fun x =>
        let x1 := x <| m_ctxdone ::= cons tok |> <| m_term_ended ::= filter (fun p => negb (fst p =? tok)) |> in
        if io_flag x0 && (io_tok x0 =? tok) && zmem tok (m_cb_run x) && negb (io_stopping x0)
        then x1 <| m_ctx_early ::= cons (tok, t) |> else x1)
  | EFlag i fl cause root gid =>
      let x0 := inst_of b i in
      mupd m i (fun x =>
        let x1 := x <| m_gauge := fl |> in
        (* the claim drops: a cancellation of this term's context at this very instant was part of it *)
        let x1 := if negb (zb fl) then x1 <| m_ctx_early ::= filter (fun p => negb ((fst p =? io_tok x0) && (snd p =? t))) |> else x1 in
        if negb (zb fl) && io_flag x0 && zmem (io_tok x0) (m_cb_run x) && negb (zmem (io_tok x0) (m_ctxdone x))
        then x1 <| m_term_ended ::= cons (io_tok x0, t) |> else x1)
  (* the entry counts as news for a follower only if the instance does not claim when the entry is handed over: the
     record of its receipt comes after the library has handled it (and may have stepped down because of it) *)
  | EWSend i w n isnil rev val => mupd m i (fun x => x <| m_wsend := (if zb isnil || io_flag (inst_of b i) then 0 else rev) |>)
  | EWRecv i w n =>
      (* the entry is handled at once; as a follower the instance adopts the leader id it names *)
      mupd m i (fun x => if negb (io_flag (inst_of b i)) && (0 <? m_wsend x) && negb (zmem w (m_wstopped x)) then x <| m_seen_rev := m_wsend x |> else x)
  | EWStop i w => mupd m i (fun x => x <| m_wstopped ::= cons w |>)
  | ERet i op rk rev val =>
      match aget (b_pend b) op with
      | Some p => if (p_kind p =? kGet) && (rk =? oOk) && negb (io_flag (inst_of b i)) &&
                     ((p_inner p =? sPeriodic) ||
                      (* a takeover candidate that yields also notes whom it yields to *)
                      ((p_inner p =? sTakeover) && sok_of b val && (ic_prio (cfg_of b i) <=? prio_of b val)))
                  then mupd m i (fun x => x <| m_seen_rev := rev |>) else m
      | None => m
      end
  | EIssue i op kind inner root gid key val exp =>
      mupd m i (fun x => if m_issues_at x =? t then x <| m_issues_n ::= Z.succ |> else x <| m_issues_at := t |> <| m_issues_n := 1 |>)
  | ETrans i f to => mupd m i (fun x => x <| m_last_to := to |>)
  | ELog i code gid extra => if code =? 1 then mupd m i (fun x => x <| m_last_to := stCandidate |>) else m
  | EApi i call a1 a2 a3 a4 gid =>
      if call =? aStop then
        mupd m i (fun x => x <| m_stop_call := Some (t, call, 5 * sec, false, false, gid) |>)
      else if call =? aStopCtx then
        let bound := if negb (a3 =? 0) then a3 else if 0 <? a4 then a4 else 5 * sec in
        mupd m i (fun x => x <| m_stop_call := Some (t, call, bound, zb a1, io_flag (inst_of b i) && backed b i, gid) |>)
      else m
  | EApiRet i call res err _ =>
      if (call =? aStop) || (call =? aStopCtx) then mupd m i (fun x => x <| m_stop_call := None |>) else m
  | _ => m
  end.

(* ---------------------------------------------------------------- C08 *)
Definition mon_C08 (b : base) (m : mst) (te : Z * ev) : list alarm :=
  match snd te with
  | EPromote i tok gid =>
      let x := inst_of b i in let c := cfg_of b i in
      when (ic_hasdemote c && ic_haspromote c && negb (io_promotes x - io_demotes x =? 0)) 801 ++ when (negb (tok =? io_tok x)) 803
  | EDemote i gid =>
      let x := inst_of b i in let c := cfg_of b i in
      when (ic_hasdemote c && ic_haspromote c && negb (io_promotes x - io_demotes x =? 1)) 802
  | EQuiet =>
      flat_map (fun ic =>
        let i := fst ic in let c := snd ic in let x := inst_of b i in let mm := mon_of m i in
        if ic_hasdemote c && ic_haspromote c && negb (io_stopping x) && negb (b_ended b) then
          when (negb (Bool.eqb (io_flag x) (m_promotes mm =? m_demotes mm + 1))) 804 ++
          when (negb (Bool.eqb (io_flag x) false) && negb (m_promotes mm =? io_terms x)) 805 ++
          when (negb (io_flag x) && negb (m_promotes mm =? m_demotes mm)) 806
        else []) (b_cfgs b)
  | _ => []
  end.

(* ---------------------------------------------------------------- C09 *)
Definition mon_C09 (b : base) (m : mst) (te : Z * ev) : list alarm :=
  let t := fst te in
  match snd te with
  | EFlag i fl cause root gid => when (zb fl && io_stopped (inst_of b i)) 901
  | EPromote i tok gid => when (io_stopped (inst_of b i)) 902
  | EIssue i op kind inner root gid key val exp => when (io_stopped (inst_of b i) && negb (b_ended b)) 903
  | ECensus n => when (negb (n =? 0)) 904
  | EApiRet i call res err _ =>
      if ((call =? aStop) || (call =? aStopCtx)) then
        when ((res =? 0) && io_flag (inst_of b i)) 909 ++
        match m_stop_call (mon_of m i) with
        | Some (t0, c0, bound, del, owned, g0) =>
            (* promptness: Stop within 5 s plus the demotion callback; StopWithContext within its time-out
               (measured up to the start of the record deletion and of the awaited callback) *)
            when (negb (b_ended b) && (call =? aStop) && (t0 + bound + 0 <? t - 0) && negb (ic_hasdemote (cfg_of b i))) 905 ++
            when ((res =? 0) && del && owned &&
                  (* the deletion itself was answered by the store (no injected failure) *)
                  match aget (b_rets b) g0 with Some r => if lr_kind r =? kDelete then lr_rk r <? 10 else true | None => true end &&
                  match live_val b (ic_key (cfg_of b i)) with
                  | Some (_, v) => sok_of b v && (sid_of b v =? i)
                  | None => false
                  end) 908
        | None => []
        end
      else []
  | EHarnessPanic => [906]
  | _ => []
  end.

(* ---------------------------------------------------------------- C13 bounded work *)
Definition mon_C13w (b : base) (m : mst) (te : Z * ev) : list alarm :=
  match snd te with
  | EIssue i op kind inner root gid key val exp =>
      when ((m_issues_at (mon_of m i) =? fst te) && (40 <? m_issues_n (mon_of m i))) 1301
  | _ => []
  end.

(* ---------------------------------------------------------------- C18 *)
Definition mon_C18 (b : base) (m : mst) (te : Z * ev) : list alarm :=
  match snd te with
  | EStatus i st il lid tok rev pl plid ptok =>
      let x := inst_of b i in
      let k := ic_key (cfg_of b i) in
      when (negb (Bool.eqb (zb il) (st =? stLeader))) 1801 ++
      when (negb ((0 <=? st) && (st <=? 5))) 1802 ++
      (if zb il then
         when (negb (lid =? i)) 1803 ++
         when (negb (tok =? io_tok x)) 1804 ++
         (* the revision of its latest successful (acknowledged) write of the running term: the newest
            (token, revision) view carrying the term token *)
         match find (fun v => fst v =? io_tok x) (io_views x) with
         | Some (_, r) =>
             (* ... or a newer version of this term that the instance wrote and whose answer came at the very instant of
                the loop's time-out (the loop may or may not have looked at it) *)
             when (negb ((rev =? r) ||
                         ((r <? rev) && match find_ver (b_hist b) k rev with
                                        | Some v => (ver_author v =? i) && (tok_of b (ver_val v) =? io_tok x)
                                        | None => false end))) 1805
         | None => [1805]
         end
       else []) ++
      when (io_stopped x && negb ((st =? stStopped) && negb (zb il))) 1806 ++
      when (negb (b_ended b) && negb (m_gauge (mon_of m i) =? il)) 1807 ++
      when (negb (Bool.eqb (zb il) (zb pl))) 1809 ++
      (* a follower that has learnt the current version of the record (watch entry or periodic read) names its owner *)
      when (negb (zb il) && io_started x && negb (io_stopping x) && negb (io_stopped x) && negb (b_ended b) &&
            match live_val b k with
            | Some (r, v) => sok_of b v && (m_seen_rev (mon_of m i) =? r) && negb (lid =? sid_of b v)
            | None => false
            end) 1810
  | ETrans i f to =>
      let l := m_last_to (mon_of m i) in
      when (negb (l =? -1) && negb (f =? l)) 1808
  | _ => []
  end.

(* ---------------------------------------------------------------- C19 *)
Definition mon_C19 (b : base) (m : mst) (te : Z * ev) : list alarm :=
  let t := fst te in
  (* a term ended at an earlier instant while its callback was running and the context is still live *)
  flat_map (fun ic => when (existsb (fun p => snd p <? t) (m_term_ended (mon_of m (fst ic)))) 1902) (b_cfgs b) ++
  (* the context of a running callback ended at the previous instant and the claim of its term is still up now *)
  flat_map (fun ic => when ((b_now b <? t) && existsb (fun p => snd p =? b_now b) (m_ctx_early (mon_of m (fst ic)))) 1901) (b_cfgs b).
