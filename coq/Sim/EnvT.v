(* Sim/EnvT.v — the environment of property C02 as the property states it: "the store answers every
   operation within half a heartbeat interval and only the participating elections touch the record
   (... no priority preemption)". Executable, evaluated on the state before each observation at the
   observation's time t:

     fast      every store call in flight (issued, not yet returned; the long-lived Watch excepted) was issued
               less than H/2 ago, H the issuer's heartbeat interval (to the nanosecond: 2 (t - issued) + 1 < H);
               calls return without transport faults
     timing    valid configurations: 0 < H, 3 H <= the bucket's maximum age; no health checker, no takeover
     store     a message ages out only when it is at least the bucket's maximum age old; nobody else writes
     delete    no Delete takes effect on a key under a holder (excludes the recorded residual of D5, the
               non-atomic check-then-delete of StopWithContext)

   "No expiry under a holder" - a hypothesis of the untimed theorem (Env.v) - is DERIVED here from fast,
   timing and store together with the urgency rules of the protocol model (2070, 2072, 2073). *)
From RecordUpdate Require Import RecordUpdate.
From LE Require Import Base Ev World Mon Env.
Open Scope Z_scope.

Definition fastb (b : base) (t : Z) : bool :=
  forallb (fun o => let p := snd o in
             (p_kind p =? kWatch) || is_done b (fst o) || (2 * (t - p_t p) + 1 <? ic_H (cfg_of b (p_i p)))) (b_pend b).

Definition no_early_expiry (b : base) (t key : Z) : bool :=
  forallb (fun ic => negb (ic_key (snd ic) =? key) || (ic_bttl (snd ic) <=? t - wt_of b key)) (b_cfgs b).

Definition envT_okb (b : base) (te : Z * ev) : bool :=
  fastb b (fst te) &&
  match snd te with
  | EInstDef i key H TTL vi gr mh pr tk mo hh hd bt hp => negb (zb tk) && negb (zb hh) && (0 <? H) && (3 * H <=? bt)
  | EExtPut _ _ _ | EExtDel _ _ => false
  | EExpire key rev => no_early_expiry b (fst te) key
  | EApply op okind rev val =>
      match aget (b_pend b) op with
      | Some p => negb ((okind =? oOk) && (p_kind p =? kDelete) && protectedb b (fst te) (p_key p))
      | None => true
      end
  | ERet i op rk rev val =>
      let x := inst_of b i in
      (rk <? 10) &&
      (* a refresh attempt of a claiming instance succeeds (to be derived from the rules: stage C) *)
      (negb ((op =? io_hb_op x) && (io_hb_te x <? 0) && io_flag x) || (rk =? oOk))
  | _ => true
  end.

(* the same without the clause about refresh attempts: that refreshes of a claiming instance succeed is derived
   (Proofs/SimLeaseC.v); this is the environment of the final theorem *)
Definition envC_okb (b : base) (te : Z * ev) : bool :=
  fastb b (fst te) &&
  match snd te with
  | EInstDef i key H TTL vi gr mh pr tk mo hh hd bt hp => negb (zb tk) && negb (zb hh) && (0 <? H) && (3 * H <=? bt)
  | EExtPut _ _ _ | EExtDel _ _ => false
  | EExpire key rev => no_early_expiry b (fst te) key
  | EApply op okind rev val =>
      match aget (b_pend b) op with
      | Some p => negb ((okind =? oOk) && (p_kind p =? kDelete) && protectedb b (fst te) (p_key p))
      | None => true
      end
  | ERet i op rk rev val => rk <? 10
  | _ => true
  end.

Fixpoint envC_admits (b : base) (tr : trace) : bool :=
  match tr with
  | [] => true
  | te :: r => envC_okb b te && envC_admits (bapply b te) r
  end.

Fixpoint envC_first (b : base) (tr : trace) (idx : Z) : Z :=
  match tr with
  | [] => -1
  | te :: r => if b_ended b then -1 else if envC_okb b te then envC_first (bapply b te) r (idx + 1) else idx
  end.
Definition check_envC (tr : trace) : Z := envC_first base0 tr 0.

Fixpoint envT_admits (b : base) (tr : trace) : bool :=
  match tr with
  | [] => true
  | te :: r => envT_okb b te && envT_admits (bapply b te) r
  end.

Fixpoint envT_first (b : base) (tr : trace) (idx : Z) : Z :=
  match tr with
  | [] => -1
  | te :: r => if b_ended b then -1 else if envT_okb b te then envT_first (bapply b te) r (idx + 1) else idx
  end.
Definition check_envT (tr : trace) : Z := envT_first base0 tr 0.
