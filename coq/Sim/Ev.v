(* Sim/Ev.v — the observation vocabulary of the simulator (harness/sim, TRACE.md) as a
   Coq type, and the decoder from the all-integer trace lines. The OCaml glue only maps
   the kind word of a line to its number and the fields to Z; everything else is here. *)
From LE Require Import Base.
Open Scope Z_scope.

Inductive ev :=
| EInstDef (i key H TTL valint grace maxhealth prio takeover monitor hashealth hasdemote bttl haspromote : Z)
| EValDef (v len sok sid stok sprio mok hasid mid hastok mtok : Z)
| EIssue (i op kind inner root gid key val exp : Z)
| EApply (op okind rev val : Z)
| ERet (i op rkind rev val : Z)
| EFlag (i b inner root gid : Z)
| ETrans (i from to : Z)
| EPromote (i tok gid : Z)
| EPromoteRet (i tok : Z)
| ECtxDone (i tok : Z)
| EDemote (i gid : Z)
| EDemoteRet (i : Z)
| EHealth (i n res dl dur : Z)
| EHealthRet (i n : Z)
| EApi (i call a b c d gid : Z)
| EApiRet (i call res err gid : Z)
| EStatus (i state il lid tok rev pl plid ptok : Z)
| EQuiet
| EEnd
| ECensus (n : Z)
| EExtPut (key val rev : Z)
| EExtDel (key rev : Z)
| EExpire (key rev : Z)
| EWSend (i w n isnil rev val : Z)
| EWRecv (i w n : Z)
| EWDrop (i w n rev : Z)
| EWClose (i w : Z)
| EWStop (i w : Z)
| ELog (i code gid extra : Z)
| EConnStat (i v : Z)
| ETvFail (i : Z)
| ECrash (i : Z)
| EHarnessPanic
| EEnvMark (code i op : Z)
| EOther (code : Z).

(* kind numbers: the order of this list is the contract with oracle/sim_cmds.ml *)
Definition kind_names : list string :=
  ["instdef"; "valdef"; "issue"; "apply"; "ret"; "flag"; "trans"; "promote"; "promoteret"; "ctxdone";
   "demote"; "demoteret"; "health"; "healthret"; "api"; "apiret"; "status"; "quiet"; "end"; "census";
   "extput"; "extdel"; "expire"; "wsend"; "wrecv"; "wdrop"; "wclose"; "wstop"; "log"; "connstat";
   "tvfail"; "crash"; "harnesspanic"; "envmark"]%string.

Definition decode (k : Z) (a : list Z) : ev :=
  match k, a with
  | 0, [i; key; H; TTL; vi; gr; mh; pr; tk; mo; hh; hd; bt; hp] => EInstDef i key H TTL vi gr mh pr tk mo hh hd bt hp
  | 1, [v; len; sok; sid; stok; sprio; mok; hasid; mid; hastok; mtok] => EValDef v len sok sid stok sprio mok hasid mid hastok mtok
  | 2, [i; op; kind; inner; root; gid; key; val; exp] => EIssue i op kind inner root gid key val exp
  | 3, [op; okind; rev; val] => EApply op okind rev val
  | 4, [i; op; rk; rev; val] => ERet i op rk rev val
  | 5, [i; b; inner; root; gid] => EFlag i b inner root gid
  | 6, [i; f; t] => ETrans i f t
  | 7, [i; tok; gid] => EPromote i tok gid
  | 8, [i; tok] => EPromoteRet i tok
  | 9, [i; tok] => ECtxDone i tok
  | 10, [i; gid] => EDemote i gid
  | 11, [i] => EDemoteRet i
  | 12, [i; n; r; dl; dur] => EHealth i n r dl dur
  | 13, [i; n] => EHealthRet i n
  | 14, [i; call; a; b; c; d; gid] => EApi i call a b c d gid
  | 15, [i; call; res; err; gid] => EApiRet i call res err gid
  | 16, [i; st; il; lid; tok; rev; pl; plid; ptok] => EStatus i st il lid tok rev pl plid ptok
  | 17, [] => EQuiet
  | 18, [] => EEnd
  | 19, [n] => ECensus n
  | 20, [key; val; rev] => EExtPut key val rev
  | 21, [key; rev] => EExtDel key rev
  | 22, [key; rev] => EExpire key rev
  | 23, [i; w; n; isnil; rev; val] => EWSend i w n isnil rev val
  | 24, [i; w; n] => EWRecv i w n
  | 25, [i; w; n; rev] => EWDrop i w n rev
  | 26, [i; w] => EWClose i w
  | 27, [i; w] => EWStop i w
  | 28, [i; code; gid; extra] => ELog i code gid extra
  | 29, [i; v] => EConnStat i v
  | 30, [i] => ETvFail i
  | 31, [i] => ECrash i
  | 32, _ => EHarnessPanic
  | 33, [c; i; op] => EEnvMark c i op
  | _, _ => EOther k
  end.

(* A trace: timestamped events in the order the harness recorded them. *)
Definition trace := list (Z * ev).

(* store operation kinds, outcome kinds, call sites, states, api calls (harness/sim/world.go) *)
Definition kCreate := 1. Definition kUpdate := 2. Definition kGet := 3. Definition kDelete := 4. Definition kWatch := 5.
Definition oOk := 0. Definition oKeyExists := 1. Definition oWrongSeq := 2. Definition oNotFound := 3.
Definition sAcquire := 1. Definition sTakeover := 2. Definition sHeartbeat := 3. Definition sValidate := 4.
Definition sPeriodic := 5. Definition sVerify := 6. Definition sStopCtx := 7. Definition sWatchLoop := 8.
Definition sStart := 9. Definition sRound := 10. Definition sWatchEvt := 11. Definition sValLoop := 12.
Definition sApiValidate := 13. Definition sApiValOrDemote := 14. Definition sStop := 15.
Definition sBecomeLeader := 16. Definition sBecomeFollower := 17. Definition sReconnect := 18.
Definition sGraceExpired := 19. Definition sDisconnect := 20.
Definition sHbFail := 21. Definition sHealthFail := 22. Definition sValFail := 23. Definition sVerifyFail := 24.
Definition sStopCheck := 25.
Definition stInit := 0. Definition stCandidate := 1. Definition stLeader := 2. Definition stFollower := 3.
Definition stDemoted := 4. Definition stStopped := 5.
Definition aStart := 1. Definition aStop := 2. Definition aStopCtx := 3. Definition aValidate := 4.
Definition aValOrDemote := 5. Definition aConn := 7.
