(* Sim/Mon2.v — the time-bounded and call-scoped properties (C03, C04, C06, C10 promptness,
   C11, C12) as executable predicates with a little state per instance. Same conventions as
   Mon.v. Timing constants come from Consts (regenerated from the source where available). *)
From RecordUpdate Require Import RecordUpdate.
From LE Require Import Base Ev World Mon Consts.
Open Scope Z_scope.

Definition upd_timeout (H : Z) : Z := hb_update_timeout H.
Definition grace_of (c : icfg) : Z := if ic_grace c =? 0 then default_grace (ic_H c) else ic_grace c.
Definition health_thr (c : icfg) : Z := health_threshold (ic_maxhealth c).

Record imon2 := mkIMon2 {
  n_att : option (Z * Z);        (* outstanding refresh attempt: op, issue time *)
  n_fails : Z;                   (* consecutive failed refresh attempts *)
  n_okissue : Z;                 (* issue time of the last successful refresh (acquisition time at first) *)
  n_lost : option Z;             (* when the claimed record was replaced / deleted / expired *)
  n_lost_fault : bool;           (* a refresh after the loss met an injected fault or timed out *)
  n_due : option (Z * Z * Z);    (* (deadline, alarm code, demote count then): flag must be false and demotion entered *)
  n_hrun : Z;                    (* consecutive unhealthy results of the current term *)
  n_hdue : option Z;             (* the health threshold was reached at this time *)
  n_hdem : option (Z * Z);       (* health demotion at (time, demotion-callback count before) *)
  n_vals : amap (Z * bool * bool * bool * bool); (* goroutine -> token, was leader, record seen good, demoted by this call, callback by this call *)
  n_disc : option (Z * bool * Z);(* latest disconnect: time, led then, terms then *)
  n_reconn : bool;               (* reconnect notified since the latest disconnect *)
  n_vers : list (Z * Z * Z);     (* reconnect verifications in progress: (stage, time, op); stage 2 validate issue expected,
                                    3 validate pending, 4 demotion expected, 5 keep expected *)
  n_disc_prev : option Z;        (* the disconnect before the latest one, if no reconnect came in between *)
  n_tk_due : option Z;           (* C10: must lead by then *)
  n_last_fault : Z;              (* time of the latest injected fault that hit this instance (-1 none) *)
  n_crashed : bool;
  n_demotes : Z;                 (* demotion callbacks entered *)
  n_start_t : Z;                 (* when the latest Start was accepted *)
  n_fault_ops : list Z;          (* calls of this instance hit by an injected fault and still in flight *)
  n_reconn_t : option Z;         (* a reconnect was notified to the leader at this time and no verification read has been issued since *)
  n_hn : Z                       (* number of the latest health check that was started *)
}.
#[export] Instance eta_imon2 : Settable _ :=
  settable! mkIMon2 <n_att; n_fails; n_okissue; n_lost; n_lost_fault; n_due; n_hrun; n_hdue; n_hdem; n_vals; n_disc; n_reconn;
                     n_vers; n_disc_prev; n_tk_due; n_last_fault; n_crashed; n_demotes; n_start_t; n_fault_ops; n_reconn_t; n_hn>.
Definition imon20 := mkIMon2 None 0 0 None false None 0 None None [] None false [] None None (-1) false 0 0 [] None (-1).

Record mst2 := mkM2 { q_i : amap imon2; q_vac : amap Z (* key -> time the record became absent *); q_maxlat : Z }.
#[export] Instance eta_mst2 : Settable _ := settable! mkM2 <q_i; q_vac; q_maxlat>.
Definition mst20 := mkM2 [] [] 0.
Definition m2_of (m : mst2) (i : Z) : imon2 := match aget (q_i m) i with Some x => x | None => imon20 end.
Definition m2upd (m : mst2) (i : Z) (f : imon2 -> imon2) : mst2 := m <| q_i ::= fun a => aset a i (f (m2_of m i)) |>.

(* the record of i's key holds i's id and the given token, as the map decoder sees it *)
Definition record_good (b : base) (i tok : Z) : bool :=
  match live_val b (ic_key (cfg_of b i)) with
  | Some (_, v) => let x := vinfo_of b v in
                   v_mok x && (v_hasid x =? 1) && (v_mid x =? i) && (v_hastok x =? 1) && (v_mtok x =? tok) && negb (tok =? 0)
  | None => false
  end.

Definition insts_of_key (b : base) (k : Z) : list Z := map fst (filter (fun ic => ic_key (snd ic) =? k) (b_cfgs b)).

(* a mutation of key k applied now by `author` (0 = outside party, -1 = expiry): who loses a backed claim? *)
Definition losers (b : base) (k author : Z) : list Z :=
  filter (fun j => io_flag (inst_of b j) && backed b j && negb (j =? author)) (insts_of_key b k).

Definition mark_lost (t : Z) (m : mst2) (js : list Z) : mst2 :=
  fold_left (fun m j => m2upd m j (fun x => match n_lost x with None => x <| n_lost := Some t |> <| n_lost_fault := false |> | Some _ => x end)) js m.

(* time-outs of the heartbeat loop are not events: account for an attempt whose time-out has passed *)
Definition settle_timeouts (b : base) (t : Z) (m : mst2) : mst2 :=
  fold_left (fun m ic =>
    let i := fst ic in let x := m2_of m i in
    match n_att x with
    | Some (op, ta) =>
        let T := upd_timeout (ic_H (snd ic)) in
        if ta + T <? t then
          let f := n_fails x + 1 in
          m2upd m i (fun x => let x1 := x <| n_att := None |> <| n_fails := f |> <| n_lost_fault := true |> in
                              if (hb_max_failures <=? f) && io_flag (inst_of b i)
                              then match n_due x1 with None => x1 <| n_due := Some (ta + T, 302, n_demotes x1) |> | Some _ => x1 end
                              else x1)
        else m
    | None => m
    end) (b_cfgs b) m.

(* the validation read of a verification is issued at the instant its probe returned *)
Fixpoint promote_ver (t op : Z) (l : list (Z * Z * Z)) : list (Z * Z * Z) :=
  match l with
  | [] => []
  | (st, tv, o) :: r => if (st =? 2) && (tv =? t) then (3, tv, op) :: r else (st, tv, o) :: promote_ver t op r
  end.

Definition m2apply (b b' : base) (m0 : mst2) (te : Z * ev) : mst2 :=
  let t := fst te in
  let m := settle_timeouts b t m0 in
  match snd te with
  | EFlag i fl cause root gid =>
      if zb fl then
        m2upd m i (fun x => x <| n_att := None |> <| n_fails := 0 |> <| n_okissue := t |> <| n_lost := None |> <| n_due := None |>
                              <| n_hrun := 0 |> <| n_hdue := None |> <| n_tk_due := None |> <| n_vers := [] |>)
      else
        let m1 := m2upd m i (fun x =>
          let x1 := x <| n_att := None |> <| n_lost := None |> <| n_hdue := None |> <| n_vers := [] |> <| n_reconn_t := None |> in
          let x2 := if (cause =? sHealthFail) && io_flag (inst_of b i) then x1 <| n_hdem := Some (t, n_demotes x1) |> else x1 in
          (* the claim is gone; what remains due is the demotion callback (kept with the same deadline) *)
          x2) in
        (* a deposed leader that has just stopped claiming: the vacancy clock restarts (until now the group had a
           claiming instance; C03 bounds how long such a claim may last) *)
        let k := ic_key (cfg_of b i) in
        let m1 := match aget (q_vac m1) k with Some _ => if io_flag (inst_of b i) then m1 <| q_vac ::= fun a => aset a k t |> else m1 | None => m1 end in
        (* validation calls in progress in this goroutine demoted the instance - when there was a claim to drop: a store of
           false over false (another path ended the term at this very instant and owes the callback) demotes nobody *)
        if io_flag (inst_of b i) then
          m2upd m1 i (fun x => x <| n_vals ::= fun a => match aget a gid with Some (tk, wl, sg, _, cb) => aset a gid (tk, wl, sg, true, cb) | None => a end |>)
        else m1
  | EDemote i gid =>
      m2upd m i (fun x => x <| n_demotes ::= Z.succ |>
                            <| n_vals ::= fun a => match aget a gid with Some (tk, wl, sg, d, _) => aset a gid (tk, wl, sg, d, true) | None => a end |>)
  | EIssue i op kind inner root gid key val exp =>
      let m1 := if (kind =? kUpdate) && (inner =? sHeartbeat) then
                  (* a new attempt means the loop has given up on the previous one (time-out at this very instant) *)
                  let m0' := match n_att (m2_of m i) with
                             | Some _ => m2upd m i (fun x => x <| n_fails ::= Z.succ |> <| n_lost_fault := true |>)
                             | None => m end in
                  m2upd m0' i (fun x => x <| n_att := Some (op, t) |>)
                else m in
      (* the first read of a reconnect verification answers the latest reconnect notification *)
      let m1 := if (kind =? kGet) && (inner =? sVerify) then m2upd m1 i (fun x => x <| n_reconn_t := None |>) else m1 in
      if (kind =? kGet) && (inner =? sValidate)
      then m2upd m1 i (fun x => x <| n_vers ::= promote_ver t op |>) else m1
  | ERet i op rk rev val =>
      let m1 := m <| q_maxlat := match aget (b_pend b) op with Some p => Z.max (q_maxlat m) (t - p_t p) | None => q_maxlat m end |> in
      let m1 := if 10 <=? rk then m2upd m1 i (fun x => x <| n_last_fault := t |> <| n_fault_ops ::= zrem op |>) else m1 in
      let x := m2_of m1 i in
      let c := cfg_of b i in
      let m2 :=
        match n_att x with
        | Some (op0, ta) =>
            if op0 =? op then
              if rk =? oOk then m2upd m1 i (fun x => x <| n_att := None |> <| n_fails := 0 |> <| n_okissue := ta |>)
              else
                (* an answer arriving at the very instant of the loop's time-out may be taken either way:
                   it then counts as one more transient failure, the weaker obligation *)
                let perm := ((rk =? oWrongSeq) || (rk =? oKeyExists) || (rk =? oNotFound)) && (t <? ta + upd_timeout (ic_H c)) in
                let f := n_fails x + 1 in
                m2upd m1 i (fun x =>
                  let x1 := x <| n_att := None |> <| n_fails := f |> <| n_lost_fault := (n_lost_fault x || (10 <=? rk)) |> in
                  if (perm || (hb_max_failures <=? f)) && io_flag (inst_of b i)
                  then match n_due x1 with None => x1 <| n_due := Some (t, (if perm then 301 else 302), n_demotes x1) |> | Some _ => x1 end
                  else x1)
            else m1
        | None => m1
        end in
      (* reconnect verification *)
      match aget (b_pend b) op with
      | Some p =>
          if (p_inner p =? sVerify) && io_flag (inst_of b i) then
            m2upd m2 i (fun x => x <| n_vers ::= cons ((if rk =? oOk then 2 else 4), t, 0) |>)
          else
            let good := (rk =? oOk) && (let y := vinfo_of b val in v_mok y && (v_hasid y =? 1) && (v_mid y =? i) && (v_hastok y =? 1)
                                         && (v_mtok y =? io_tok (inst_of b i)) && negb (io_tok (inst_of b i) =? 0)) in
            m2upd m2 i (fun x => x <| n_vers ::= map (fun v => let '(st, tv, o) := v in
                                                               if (st =? 3) && (o =? op) then ((if good then 5 else 4), t, o) else v) |>)
      | None => m2
      end
  | EApply op okind rev val =>
      match aget (b_pend b) op with
      | Some p =>
          if (okind =? oOk) && ((p_kind p =? kCreate) || (p_kind p =? kUpdate) || (p_kind p =? kDelete)) then
            let m1 := mark_lost t m (filter (fun j => negb ((p_kind p =? kUpdate) && (p_i p =? j) && (tok_of b (p_val p) =? io_tok (inst_of b j)))) (losers b (p_key p) (-2))) in
            let m2 := if p_kind p =? kDelete then (if live_of b (p_key p) then m1 <| q_vac ::= fun a => aset a (p_key p) t |> else m1)
                      else m1 <| q_vac ::= fun a => adel a (p_key p) |> in
            (* validations in progress see the new record *)
            fold_left (fun m j => m2upd m j (fun x => x <| n_vals := map (fun gv => let '(g, (tk, wl, sg, d, cb)) := gv in (g, (tk, wl, sg || record_good b' j tk, d, cb))) (n_vals x) |>))
                      (insts_of_key b (p_key p)) m2
          else m
      | None => m
      end
  | EExtPut key val rev =>
      let m1 := mark_lost t m (losers b key 0) in
      let m2 := m1 <| q_vac ::= fun a => adel a key |> in
      fold_left (fun m j => m2upd m j (fun x => x <| n_vals := map (fun gv => let '(g, (tk, wl, sg, d, cb)) := gv in (g, (tk, wl, sg || record_good b' j tk, d, cb))) (n_vals x) |>))
                (insts_of_key b key) m2
  | EExtDel key rev => let m1 := mark_lost t m (losers b key 0) in if live_of b key then m1 <| q_vac ::= fun a => aset a key t |> else m1
  | EExpire key rev => let m1 := mark_lost t m (losers b key (-1)) in if live_of b key then m1 <| q_vac ::= fun a => aset a key t |> else m1
  | EHealth i n res dl dur => m2upd m i (fun x => (if zb res then x <| n_hrun := 0 |> else x <| n_hrun ::= Z.succ |>) <| n_hn := n |>)
  | EHealthRet i n =>
      (* only the return of the check that completed the run counts: a checker that ignored its deadline can return
         after the next term's checks have started *)
      let x := m2_of m i in
      if (n =? n_hn x) && (n_hrun x =? health_thr (cfg_of b i)) && io_flag (inst_of b i) then m2upd m i (fun x => x <| n_hdue := Some t |>) else m
  | EApi i call a1 a2 a3 a4 gid =>
      if (call =? aValidate) || (call =? aValOrDemote) then
        m2upd m i (fun x => x <| n_vals ::= fun a => aset a gid (a3, zb a2, record_good b i a3, false, false) |>)
      else if call =? aConn then
        if a1 =? 1 then m2upd m i (fun x => x <| n_disc_prev := (match n_disc x with Some (td, _, _) => if n_reconn x then None else Some td | None => None end) |>
                                              <| n_disc := Some (t, io_flag (inst_of b i), io_terms (inst_of b i)) |> <| n_reconn := false |>)
        else if a1 =? 2 then m2upd m i (fun x => x <| n_reconn := true |> <| n_reconn_t := (if io_flag (inst_of b i) then Some t else n_reconn_t x) |>)
        else m
      else if (call =? aStop) || (call =? aStopCtx) then
        (* a stop ends every pending obligation of the instance; promptness of others is not claimed across stops *)
        let m1 := m2upd m i (fun x => x <| n_due := None |> <| n_hdue := None |> <| n_disc := None |> <| n_vers := [] |> <| n_lost := None |> <| n_att := None |> <| n_reconn_t := None |>) in
        fold_left (fun m ic => m2upd m (fst ic) (fun x => x <| n_tk_due := None |>)) (b_cfgs b) m1
      else m
  | EApiRet i call res err gid =>
      if (call =? aValidate) || (call =? aValOrDemote) then m2upd m i (fun x => x <| n_vals ::= fun a => adel a gid |>) else m
  | ELog i code gid extra =>
      if code =? 1 then
        let m := m2upd m i (fun x => x <| n_start_t := t |>) in
        (* Start accepted: a strictly higher-priority takeover-enabled instance next to a lower-priority live record *)
        let c := cfg_of b i in
        match live_val b (ic_key c) with
        | Some (_, v) =>
            if ic_takeover c && sok_of b v && (prio_of b v <? ic_prio c) && negb (sid_of b v =? i)
               && forallb (fun jc => (fst jc =? i) || negb (ic_key (snd jc) =? ic_key c) || (ic_prio (snd jc) <? ic_prio c)) (b_cfgs b)
            then m2upd m i (fun x => x <| n_tk_due := Some (t + 3 * ic_H c) |>) else m
        | None => m
        end
      else m
  | EEnvMark code i op =>
      if (code =? 1) then
        (* a call that hangs inside the watch loop itself (the synchronous periodic check) stalls the candidate until it
           returns; a hung call of an acquisition round does not: the loop keeps starting new rounds *)
        let blocks := match aget (b_pend b) op with Some p => (p_inner p =? sPeriodic) && (p_root p =? sBecomeFollower) | None => true end in
        m2upd m i (fun x => let x1 := x <| n_last_fault := t |> in if blocks then x1 <| n_fault_ops ::= cons op |> else x1)
      else m
  | ECrash i => m2upd m i (fun x => x <| n_crashed := true |>)
  | _ => m
  end.

(* ---------------------------------------------------------------- deadlines that have passed *)
Definition overdue (b : base) (m : mst2) (t : Z) : list alarm :=
  flat_map (fun ic =>
    let i := fst ic in let c := snd ic in let x := m2_of m i in let io := inst_of b i in
    (* C03: obligations of the heartbeat loop *)
    match n_due x with
    | Some (d, code, dem0) =>
        if d <? t then when (io_flag io) code ++ when (negb (io_flag io) && ic_hasdemote c && (n_demotes x <=? dem0)) 304 else []
    | None => []
    end ++
    match n_lost x with
    | Some tc => when (negb (n_lost_fault x) && io_flag io && (tc + ic_H c + 2 * upd_timeout (ic_H c) <? t)) 301
    | None => []
    end ++
    (* C12 *)
    match n_hdue x with Some d => when ((d <? t) && io_flag io) 1202 | None => [] end ++
    match n_hdem x with
    | Some (d, dem0) => when ((d <? t) && ic_hasdemote c && (n_demotes x <=? dem0)) 1203 ++
                        when ((d <? t) && negb (io_stopping io) && negb (io_stopped io) && negb ((io_state io =? stFollower) || (io_state io =? stLeader))) 1205
    | None => []
    end ++
    (* C11: grace elapsed with no reconnect and still the same term *)
    match n_disc x with
    | Some (td, led, terms) =>
        when (ic_monitor c && led && negb (n_reconn x) && io_flag io && (io_terms io =? terms) && (td + grace_of c <? t)) 1102
    | None => []
    end ++
    when (existsb (fun v => let '(st, tv, _) := v in (st =? 4) && (tv <? t)) (n_vers x) && io_flag io) 1103 ++
    (* every reconnect notification to a leader is followed, after the settling delay, by a fresh read of the record *)
    match n_reconn_t x with
    | Some tr => when (ic_monitor c && io_flag io && negb (io_stopping io) && (tr + verify_settle_delay <? t)) 1107
    | None => []
    end ++
    (* C10 *)
    match n_tk_due x with Some d => when ((d <? t) && negb (io_flag io)) 1002 | None => [] end)
  (b_cfgs b).

(* C06: a vacancy older than the bound with a healthy candidate and nobody claiming *)
Definition vacancy_overdue (b : base) (m : mst2) (t : Z) : list alarm :=
  flat_map (fun kv =>
    let k := fst kv in let tv := snd kv in
    let bound := watch_check_interval + round_jitter_max + 4 * q_maxlat m in
    let cands := filter (fun j => let io := inst_of b j in let x := m2_of m j in
                                  io_started io && negb (io_stopping io) && negb (io_stopped io) && negb (n_crashed x)
                                  (* healthy for a whole bound: started, and no injected fault on its calls, since then
                                     ("after transient failures cease the same bound applies again") *)
                                  && Nat.eqb (List.length (n_fault_ops x)) 0
                                  && (Z.max (n_last_fault x) (n_start_t x) + bound <? t)) (insts_of_key b k) in
    when ((tv + bound <? t) && negb (Nat.eqb (List.length cands) 0) && Nat.eqb (List.length (claimants b k)) 0 && negb (live_of b k)) 601)
  (q_vac m).

(* ---------------------------------------------------------------- event-triggered checks *)
Definition mon2 (b : base) (m0 : mst2) (te : Z * ev) : list alarm :=
  let t := fst te in
  let m := settle_timeouts b t m0 in
  overdue b m t ++ vacancy_overdue b m t ++
  match snd te with
  | EFlag i fl cause root gid =>
      let x := m2_of m i in let c := cfg_of b i in
      if zb fl then [] else
      when ((cause =? sHealthFail) && io_flag (inst_of b i) && negb (n_hrun x =? health_thr c)) 1201 ++
      when ((cause =? sGraceExpired) &&
            (* a stop call in progress has ended the obligations: the expiry handler and the stop race for the same demotion *)
            negb (io_stopping (inst_of b i)) &&
            match n_disc x with
            | Some (td, _, _) =>
                (* a notification arriving at the very instant the timer fires is unordered with it *)
                let td' := if td =? t then match n_disc_prev x with Some p => p | None => td end else td in
                t <? td' + grace_of c
            | None => true
            end) 1101 ++
      when ((cause =? sVerifyFail) && negb (existsb (fun v => let '(st, _, _) := v in negb (st =? 5)) (n_vers x))
            && negb (Nat.eqb (List.length (n_vers x)) 0)) 1103
  | EHealth i n res dl dur => when (negb ((0 <? dl) && (dl <=? health_check_timeout))) 1204
  | EApiRet i call res err gid =>
      if (call =? aValidate) || (call =? aValOrDemote) then
        match aget (n_vals (m2_of m i)) gid with
        | Some (tk, wl, sg, dem, cb) =>
            when (zb res && negb sg) 401 ++ when (zb res && negb wl) 402 ++
            when ((call =? aValOrDemote) && negb (zb res) && io_flag (inst_of b i)) 403 ++
            when ((call =? aValOrDemote) && negb (zb res) && dem && negb cb && ic_hasdemote (cfg_of b i)) 404
        | None => []
        end
      else []
  | _ => []
  end.
