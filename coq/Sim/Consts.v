(* Sim/Consts.v — the numbers the PROPERTIES name (written from the property texts, not
   from the code): the monitors use these. The protocol model uses the definitions the
   translator regenerates from the source (gen/GenGuards.v); Proofs/GuardFacts.v proves
   that the two coincide, so an edit of a constant or comparison in the code breaks a
   proof obligation, and the search then looks for a trace on which the monitor fails. *)
From LE Require Import Base.
Open Scope Z_scope.

(* C03: per-attempt time-out max(H/2, 1 s); three consecutive failures *)
Definition hb_update_timeout (H : Z) : Z := Z.max (Z.quot H 2) (1 * sec).
Definition hb_max_failures : Z := 3.
(* C11: default grace period max(3 H, 5 s) *)
Definition default_grace (H : Z) : Z := Z.max (3 * H) (5 * sec).
(* C11: the verification after a reconnect starts after a settling delay of 100 ms *)
Definition verify_settle_delay : Z := 100 * ms.
(* C12: MaxConsecutiveFailures, default 3; each check gets a context expiring within 100 ms *)
Definition health_threshold (m : Z) : Z := if m <=? 0 then 3 else m.
Definition health_check_timeout : Z := 100 * ms.
(* C06: periodic check 500 ms, acquisition jitter 10-100 ms *)
Definition watch_check_interval : Z := 500 * ms.
Definition round_jitter_min : Z := 10 * ms.
Definition round_jitter_max : Z := 100 * ms.
(* C09: Stop waits at most 5 s *)
Definition stop_default_timeout : Z := 5 * sec.
