(* Sim/Env.v — the environment hypothesis of the lease theorem (property C02, "at most one
   instance claims leadership of a group, and a claim is backed by the claimant's own live
   record"). The protocol rules of Proto.v are about what the library does; whether a record
   can vanish under its holder is decided by the store's expiry, by foreign writers and by the
   non-atomic check-then-delete of StopWithContext (known finding D5). [env_okb] names exactly
   those events; it is executable, so the oracle reports on how many real traces the
   hypothesis of the theorem holds.

   A (key, instance) pair is PROTECTED at time t when the instance claims leadership of the key,
   or a winning write of the instance (Create, or takeover Update) has been applied and has not
   yet returned to its caller, or has returned at this very instant (the claim is raised at the
   instant of the return, rule 2033). *)
From RecordUpdate Require Import RecordUpdate.
From LE Require Import Base Ev World Mon.
Open Scope Z_scope.

Definition wonkind (p : pend) : bool :=
  (p_kind p =? kCreate) || ((p_kind p =? kUpdate) && (p_inner p =? sTakeover)).
Definition applied_ok (p : pend) : bool :=
  match p_applied p with Some (ok, _, _, _) => ok =? oOk | None => false end.
Definition is_done (b : base) (op : Z) : bool := existsb (Z.eqb op) (b_done b).

Definition protectedb (b : base) (t k : Z) : bool :=
  existsb (fun ic => io_flag (inst_of b (fst ic)) && (ic_key (snd ic) =? k)) (b_cfgs b)
  || existsb (fun o => wonkind (snd o) && applied_ok (snd o) && negb (is_done b (fst o)) && (p_key (snd o) =? k)) (b_pend b)
  || existsb (fun g => lr_won (snd g) && (lr_t (snd g) =? t) && (lr_key (snd g) =? k)) (b_rets b).

(* evaluated on the state before the observation *)
Definition env_okb (b : base) (te : Z * ev) : bool :=
  match snd te with
  | EInstDef i key H TTL vi gr mh pr tk mo hh hd bt hp => negb (zb tk)          (* no priority takeover configured *)
  | EExtPut _ _ _ | EExtDel _ _ => false                                         (* nobody else writes the bucket *)
  | EExpire key rev => negb (protectedb b (fst te) key)                           (* no expiry under a holder *)
  | EApply op okind rev val =>
      match aget (b_pend b) op with
      | Some p => negb ((okind =? oOk) && (p_kind p =? kDelete) && protectedb b (fst te) (p_key p))   (* no Delete under a holder *)
      | None => true
      end
  | _ => true
  end.

Fixpoint env_admits (b : base) (tr : trace) : bool :=
  match tr with
  | [] => true
  | te :: r => env_okb b te && env_admits (bapply b te) r
  end.

(* for the oracle: index of the first observation outside the environment, -1 if none *)
Fixpoint env_first (b : base) (tr : trace) (idx : Z) : Z :=
  match tr with
  | [] => -1
  | te :: r => if b_ended b then -1 else if env_okb b te then env_first (bapply b te) r (idx + 1) else idx
  end.

Definition check_env (tr : trace) : Z := env_first base0 tr 0.
