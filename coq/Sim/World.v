(* Sim/World.v — the shared part of the election model: configuration and value tables,
   the bucket (same semantics as Store.v / harness/refstore, keyed by interned integers),
   the complete version history with authors (ghost), the store calls in flight, and
   per instance the observable leadership state. [bapply] is the total state update for
   one observation; the protocol rules (guards) and the property monitors are defined on
   top of it in Proto.v / Mon*.v. *)
From RecordUpdate Require Import RecordUpdate.
From LE Require Import Base Ev Consts.
Open Scope Z_scope.

(* association maps keyed by Z: newest binding first, first match wins *)
Definition amap (A : Type) := list (Z * A).
Fixpoint aget {A} (m : amap A) (k : Z) : option A :=
  match m with
  | [] => None
  | (k', v) :: r => if k' =? k then Some v else aget r k
  end.
Fixpoint adel {A} (m : amap A) (k : Z) : amap A :=
  match m with
  | [] => []
  | (k', v) :: r => if k' =? k then adel r k else (k', v) :: adel r k
  end.
(* replacing update: a key occurs at most once, so a map can be iterated *)
Definition aset {A} (m : amap A) (k : Z) (v : A) : amap A := (k, v) :: adel m k.

Record icfg := mkICfg {
  ic_key : Z; ic_H : Z; ic_TTL : Z; ic_valint : Z; ic_grace : Z; ic_maxhealth : Z; ic_prio : Z;
  ic_takeover : bool; ic_monitor : bool; ic_hashealth : bool; ic_hasdemote : bool; ic_bttl : Z; ic_haspromote : bool }.

(* a record value as the two decoders of the library see it (decoded by encoding/json in the harness) *)
Record vinfo := mkVInfo {
  v_len : Z;
  v_sok : bool; v_sid : Z; v_stok : Z; v_sprio : Z;        (* struct decoder *)
  v_mok : bool; v_hasid : Z; v_mid : Z; v_hastok : Z; v_mtok : Z  (* map decoder; has*: 0 absent 1 string 2 other type *)
}.

(* how a version came to be *)
Definition hCreate := 1. Definition hUpdate := 2. Definition hDelete := 4. Definition hExtPut := 8. Definition hExtDel := 9.

Record version := mkVer {
  ver_key : Z; ver_rev : Z; ver_author : Z (* instance, 0 = outside party *); ver_val : Z; ver_tomb : bool;
  ver_how : Z; ver_site : Z; ver_exp : Z; ver_t : Z;
  ver_prev : option (Z * Z * bool) (* the key's last message when this one was written: (rev, val, tomb) *) }.

Record pend := mkPend {
  p_i : Z; p_kind : Z; p_inner : Z; p_root : Z; p_gid : Z; p_key : Z; p_val : Z; p_exp : Z; p_t : Z;
  p_applied : option (Z * Z * Z * Z) (* okind, rev, value read (Get), time *) }.

(* what the last store call of a goroutine returned: (kind, inner, rkind, rev, val-written-or-read, key) *)
Record lastret := mkLR { lr_i : Z; lr_kind : Z; lr_inner : Z; lr_rk : Z; lr_rev : Z; lr_val : Z; lr_key : Z; lr_t : Z }.

Record iobs := mkIObs {
  io_flag : bool;          (* the public claim, from the gauge call inside the critical section *)
  io_tok : Z;              (* token of the current/last term (set when the claim is raised) *)
  io_acq_rev : Z;          (* revision reported by the write that raised the claim *)
  io_state : Z;            (* last to-state of a recorded transition *)
  io_started : bool;       (* Start accepted, no stop begun since *)
  io_stopping : bool;      (* a Stop/StopWithContext call is in progress *)
  io_stopped : bool;       (* a stop call has returned (successfully) and no Start since *)
  io_terms : Z;            (* number of times the claim was raised *)
  io_views : list (Z * Z); (* (token, revision) pairs the instance held while claiming *)
  io_false_cause : Z;      (* call site that last cleared the claim *)
  io_promotes : Z;         (* promotion callbacks entered *)
  io_demotes : Z;          (* demotion callbacks entered *)
  io_ended : Z;            (* terms ended (claim cleared while held) *)
  io_hb_ta : Z;            (* start of the latest refresh attempt of the running term (the claim itself at first) *)
  io_hb_te : Z;            (* its end (answer looked at, or the loop's time-out); -1 while it is in flight *)
  io_hb_op : Z;            (* the call of that attempt *)
  io_cancelled : bool;     (* the context passed to Start has been cancelled and no Start was accepted since *)
  io_stop_t : Z;           (* time of the call that began the shutdown in progress *)
  io_hb_ok : bool          (* no refresh attempt of the running term is in flight, and the latest one (if any) was answered with success in time *)
}.
#[export] Instance eta_iobs : Settable _ := settable! mkIObs <io_flag; io_tok; io_acq_rev; io_state; io_started; io_stopping; io_stopped; io_terms; io_views; io_false_cause; io_promotes; io_demotes; io_ended; io_hb_ta; io_hb_te; io_hb_op; io_cancelled; io_stop_t; io_hb_ok>.
Definition iobs0 := mkIObs false 0 0 stInit false false false 0 [] 0 0 0 0 0 0 0 false 0 true.

Record base := mkBase {
  b_now : Z;
  b_cfgs : amap icfg;
  b_vals : amap vinfo;
  b_seq : Z;
  b_last : amap (Z * Z * bool);      (* key -> (rev, val, tomb) of its last stored message *)
  b_hist : list version;              (* newest first; every successful mutation ever applied *)
  b_pend : amap pend;                 (* op -> call in flight (kept after return for reference) *)
  b_rets : amap lastret;              (* goroutine -> its last returned store call *)
  b_inst : amap iobs;
  b_ended : bool;                     (* the harness has begun its wind-down *)
  b_done : list Z;                    (* store calls that have returned to their caller *)
  b_wt : amap Z                       (* key -> time of the last message stored under it *)
}.
#[export] Instance eta_base : Settable _ := settable! mkBase <b_now; b_cfgs; b_vals; b_seq; b_last; b_hist; b_pend; b_rets; b_inst; b_ended; b_done; b_wt>.
#[export] Instance eta_pend : Settable _ := settable! mkPend <p_i; p_kind; p_inner; p_root; p_gid; p_key; p_val; p_exp; p_t; p_applied>.
Definition base0 := mkBase 0 [] [] 0 [] [] [] [] [] false [] [].

Definition zb (z : Z) : bool := negb (z =? 0).

Definition cfg_of (b : base) (i : Z) : icfg :=
  match aget (b_cfgs b) i with Some c => c | None => mkICfg 0 0 0 0 0 0 0 false false false false 0 false end.
Definition vinfo_of (b : base) (v : Z) : vinfo :=
  match aget (b_vals b) v with Some x => x | None => mkVInfo 0 false 0 0 0 false 0 0 0 0 end.
Definition inst_of (b : base) (i : Z) : iobs :=
  match aget (b_inst b) i with Some x => x | None => iobs0 end.

Definition wt_of (b : base) (k : Z) : Z := match aget (b_wt b) k with Some w => w | None => 0 end.
Definition last_of (b : base) (k : Z) : option (Z * Z * bool) := aget (b_last b) k.
Definition last_rev_of (b : base) (k : Z) : Z := match last_of b k with Some (r, _, _) => r | None => 0 end.
Definition live_of (b : base) (k : Z) : bool := match last_of b k with Some (_, _, t) => negb t | None => false end.
(* the live record's value, if any *)
Definition live_val (b : base) (k : Z) : option (Z * Z) :=
  match last_of b k with Some (r, v, false) => Some (r, v) | _ => None end.

(* the store semantics (harness/refstore, Store.v): outcome of applying an operation now *)
Definition store_outcome (b : base) (kind key exp : Z) : Z * Z :=
  if kind =? kCreate then (if live_of b key then (oKeyExists, 0) else (oOk, b_seq b + 1))
  else if kind =? kUpdate then (if exp =? last_rev_of b key then (oOk, b_seq b + 1) else (oWrongSeq, 0))
  else if kind =? kGet then (match live_val b key with Some (r, _) => (oOk, r) | None => (oNotFound, 0) end)
  else if kind =? kDelete then (oOk, b_seq b + 1)
  else (oOk, 0).

Definition set_inst (b : base) (i : Z) (x : iobs) : base := b <| b_inst ::= fun m => aset m i x |>.
Definition upd_inst (b : base) (i : Z) (f : iobs -> iobs) : base := set_inst b i (f (inst_of b i)).

Definition publish (b : base) (key rev author val : Z) (tomb : bool) (how site exp : Z) : base :=
  let v := mkVer key rev author val tomb how site exp (b_now b) (last_of b key) in
  b <| b_seq := rev |> <| b_last ::= fun m => aset m key (rev, val, tomb) |> <| b_hist ::= cons v |> <| b_wt ::= fun m => aset m key (b_now b) |>.

(* does this returned call justify raising the claim (becomeLeader(token, rev))? *)
Definition lr_won (r : lastret) : bool :=
  ((lr_kind r =? kCreate) || (lr_kind r =? kUpdate) && (lr_inner r =? sTakeover)) && (lr_rk r =? oOk).

(* total update of the shared state by one observation *)
Definition bapply (b0 : base) (te : Z * ev) : base :=
  let '(t, e) := te in
  let b := b0 <| b_now := t |> in
  match e with
  | EInstDef i key H TTL vi gr mh pr tk mo hh hd bt hp =>
      b <| b_cfgs ::= fun m => aset m i (mkICfg key H TTL vi gr mh pr (zb tk) (zb mo) (zb hh) (zb hd) bt (zb hp)) |>
        <| b_inst ::= fun m => aset m i iobs0 |>
  | EValDef v len sok sid stok sprio mok hasid mid hastok mtok =>
      b <| b_vals ::= fun m => aset m v (mkVInfo len (zb sok) sid stok sprio (zb mok) hasid mid hastok mtok) |>
  | EIssue i op kind inner root gid key val exp =>
      let b1 := b <| b_pend ::= fun m => aset m op (mkPend i kind inner root gid key val exp t None) |> in
      if (kind =? kUpdate) && (inner =? sHeartbeat) && io_flag (inst_of b i) && (v_stok (vinfo_of b val) =? io_tok (inst_of b i))
      then upd_inst b1 i (fun x => x <| io_hb_ta := t |> <| io_hb_te := -1 |> <| io_hb_op := op |> <| io_hb_ok := false |>)
      else b1
  | EApply op okind rev val =>
      match aget (b_pend b) op with
      | None => b
      | Some p =>
          let b1 := b <| b_pend ::= fun m => aset m op (p <| p_applied := Some (okind, rev, val, t) |>) |> in
          if (okind =? oOk) then
            if p_kind p =? kCreate then publish b1 (p_key p) rev (p_i p) (p_val p) false hCreate (p_inner p) 0
            else if p_kind p =? kUpdate then publish b1 (p_key p) rev (p_i p) (p_val p) false hUpdate (p_inner p) (p_exp p)
            else if p_kind p =? kDelete then publish b1 (p_key p) rev (p_i p) 0 true hDelete (p_inner p) 0
            else b1
          else b1
      end
  | ERet i op rk rev val =>
      match aget (b_pend b) op with
      | None => b
      | Some p =>
          let v := if p_kind p =? kGet then val else p_val p in
          let lr := mkLR i (p_kind p) (p_inner p) rk rev v (p_key p) t in
          let b1 := b <| b_rets ::= fun m => aset m (p_gid p) lr |> <| b_done ::= cons op |> in
          (* only the answer to the refresh attempt the loop is waiting for is looked at (abandoned attempts report to nobody) *)
          if (io_hb_op (inst_of b1 i) =? op) && (io_hb_te (inst_of b1 i) <? 0) then
            let b2 := upd_inst b1 i (fun x => x <| io_hb_te := t |>) in
            (* a successful refresh gives the instance a new (token, revision) view: the loop keeps the new revision only while its
               own term is still running, and only an answer that arrives before the loop's own time-out is looked at *)
            if (p_kind p =? kUpdate) && (p_inner p =? sHeartbeat) && (rk =? oOk)
               && io_flag (inst_of b2 i) && (v_stok (vinfo_of b2 (p_val p)) =? io_tok (inst_of b2 i))
               && (t - p_t p <? hb_update_timeout (ic_H (cfg_of b2 i))) then
              upd_inst b2 i (fun x => x <| io_views ::= cons (io_tok x, rev) |> <| io_hb_ok := true |>)
            else b2
          else b1
      end
  | EFlag i fl cause root gid =>
      if zb fl then
        match aget (b_rets b) gid with
        | Some r =>
            let tok := v_stok (vinfo_of b (lr_val r)) in
            upd_inst b i (fun x => x <| io_flag := true |> <| io_tok := tok |> <| io_acq_rev := lr_rev r |>
                                     <| io_terms ::= Z.succ |> <| io_views ::= cons (tok, lr_rev r) |>
                                     <| io_hb_ta := t |> <| io_hb_te := t |> <| io_hb_op := 0 |> <| io_hb_ok := true |>)
        | None => upd_inst b i (fun x => x <| io_flag := true |> <| io_tok := 0 |> <| io_acq_rev := 0 |> <| io_terms ::= Z.succ |>)
        end
      else upd_inst b i (fun x => x <| io_flag := false |> <| io_false_cause := cause |> <| io_ended := (if io_flag x then io_ended x + 1 else io_ended x) |>)
  | EPromote i tok gid => upd_inst b i (fun x => x <| io_promotes ::= Z.succ |>)
  | EDemote i gid => upd_inst b i (fun x => x <| io_demotes ::= Z.succ |>)
  | ETrans i f to => upd_inst b i (fun x => x <| io_state := to |>)
  | ELog i code gid extra =>
      if code =? 1 then upd_inst b i (fun x => x <| io_state := stCandidate |> <| io_started := true |> <| io_stopped := false |> <| io_stopping := false |> <| io_cancelled := false |>)
      else b
  | EApi i call a1 a2 a3 a4 gid =>
      (* cancelling the context passed to Start begins a shutdown as well (call 8) *)
      if (call =? aStop) || (call =? aStopCtx) || (call =? 8) then upd_inst b i (fun x => x <| io_stopping := true |> <| io_stop_t := (if io_stopping x then io_stop_t x else t) |>)
      else b
  | EApiRet i call res err _ =>
      if (call =? aStop) || (call =? aStopCtx) then
        if res =? 0 then upd_inst b i (fun x => x <| io_started := false |> <| io_stopping := false |> <| io_stopped := true |>)
        else if res =? 1 then upd_inst b i (fun x => x <| io_stopping := false |>)
        else upd_inst b i (fun x => x <| io_started := false |> <| io_stopping := false |>)
      else if call =? 8 then upd_inst b i (fun x => x <| io_cancelled := true |>)
      else b
  | EExtPut key val rev => publish b key rev 0 val false hExtPut 0 0
  | EExtDel key rev => publish b key rev 0 0 true hExtDel 0 0
  | EExpire key rev => b <| b_last ::= fun m => adel m key |>
  | EEnd => b <| b_ended := true |>
  | _ => b
  end.

Definition brun (tr : trace) : base := fold_left bapply tr base0.
