(* Sim/Causes.v — three more local rules about what may end a term, with the little extra state they need kept beside
   the shared state (so that the invariants over [base] are untouched):

     2083  the connection paths (grace period expired, verification after a reconnect failed) give up a claim only after a
           connection notification has been delivered to the instance
     2084  the health path gives up a claim only after the checker has reported unhealthy during the running term
     2085  an acquisition round never gives up a claim (it tests the claim before it steps back)
     2086  the validation loop gives up a claim only on a validation read issued after the running term began (counted in issue
           order, not by time stamps: several observations can share an instant) that timed out or was answered badly
     2090  the payload of a Create or an Update reads the same with both decoders of the library

   Like the rules of Proto.v they are validated on every real trace by the oracle ([check_causes]). In an environment with no
   connection notification and no unhealthy result ([envQ]) they exclude those causes of demotion altogether
   (Proofs/SimCauses.v). *)
From LE Require Import Base Ev World GenGuards Proto.
Open Scope Z_scope.

Record caux := mkCA { ca_conn : list Z (* instances that have been sent a connection notification *);
                      ca_sick : list Z (* instances whose checker has reported unhealthy in the running term *);
                      ca_n : Z          (* number of store calls issued so far *);
                      ca_opno : amap Z  (* store call -> its number in issue order *);
                      ca_tstart : amap Z (* instance -> number of store calls issued when its running term began *) }.
Definition caux0 := mkCA [] [] 0 [] [].

(* the call was issued after the running term of the instance began *)
Definition in_term (a : caux) (i op : Z) : bool :=
  match aget (ca_tstart a) i, aget (ca_opno a) op with
  | Some s, Some n => s <? n
  | _, _ => false
  end.

(* the map-decoder view of a value names instance i with token tk (what validateToken accepts) *)
Definition good_map (b : base) (v i tk : Z) : bool :=
  let y := vinfo_of b v in v_mok y && (v_hasid y =? 1) && (v_mid y =? i) && (v_hastok y =? 1) && (v_mtok y =? tk).

(* both decoders of the library read the same identity and token from a payload *)
Definition views_agree (b : base) (v : Z) : bool :=
  let y := vinfo_of b v in v_sok y && v_mok y && (v_hasid y =? 1) && (v_mid y =? v_sid y) && (v_hastok y =? 1) && (v_mtok y =? v_stok y).

Definition zmem (i : Z) (l : list Z) : bool := existsb (Z.eqb i) l.

Definition capply (a : caux) (te : Z * ev) : caux :=
  match snd te with
  | EApi i call _ _ _ _ _ => if call =? aConn then mkCA (i :: ca_conn a) (ca_sick a) (ca_n a) (ca_opno a) (ca_tstart a) else a
  | EHealth i _ res _ _ => if zb res then a else mkCA (ca_conn a) (i :: ca_sick a) (ca_n a) (ca_opno a) (ca_tstart a)
  | EFlag i fl _ _ _ =>
      if zb fl then mkCA (ca_conn a) (filter (fun j => negb (j =? i)) (ca_sick a)) (ca_n a) (ca_opno a) (aset (ca_tstart a) i (ca_n a)) else a
  | EIssue _ op _ _ _ _ _ _ _ => mkCA (ca_conn a) (ca_sick a) (ca_n a + 1) (aset (ca_opno a) op (ca_n a + 1)) (ca_tstart a)
  | _ => a
  end.

Definition cause_rules (b : base) (a : caux) (te : Z * ev) : list rule :=
  match snd te with
  | EFlag i fl cause root _ =>
      let x := inst_of b i in
      when (negb (zb fl) && io_flag x && ((cause =? sGraceExpired) || (cause =? sVerifyFail)) && negb (zmem i (ca_conn a))) 2083 ++
      when (negb (zb fl) && io_flag x && (cause =? sHealthFail) && negb (zmem i (ca_sick a))) 2084 ++
      when (negb (zb fl) && io_flag x && (cause =? sRound)) 2085 ++
      (* rule 2086: the validation loop gives up the claim only on the strength of a validation read issued after the running
         term began that has not been answered within the read's time-out, or was answered with a record that is not the
         instance's own, or with an error *)
      when (negb (zb fl) && io_flag x && (cause =? sValFail) && (root =? 16) &&
            negb (existsb (fun o => let q := snd o in
                     (p_kind q =? kGet) && (p_inner q =? sValidate) && (p_i q =? i) && in_term a i (fst o) &&
                     (if existsb (Z.eqb (fst o)) (b_done b) then
                        match p_applied q with
                        | Some (ok, _, v, _) => negb (ok =? oOk) || negb (good_map b v i (io_tok x))
                        | None => false
                        end ||
                        match aget (b_rets b) (p_gid q) with
                        | Some lr => (lr_kind lr =? kGet) && (lr_inner lr =? sValidate) && (10 <=? lr_rk lr)
                        | None => false
                        end
                      else gen_val_read_timeout (ic_H (cfg_of b i)) <=? fst te - p_t q)) (b_pend b))) 2086
  (* rule 2090: the payload of a Create or an Update reads the same with both decoders of the library *)
  | EIssue i op kind inner root gid key val exp =>
      when (((kind =? kCreate) || (kind =? kUpdate)) && negb (views_agree b val)) 2090
  | _ => []
  end.

Fixpoint cadmits (b : base) (a : caux) (tr : trace) : bool :=
  match tr with
  | [] => true
  | te :: r => match cause_rules b a te with [] => cadmits (bapply b te) (capply a te) r | _ => false end
  end.

Fixpoint run_causes (b : base) (a : caux) (tr : trace) (idx : Z) : list (Z * rule) :=
  match tr with
  | [] => []
  | te :: r => (if b_ended b then [] else map (fun g => (idx, g)) (cause_rules b a te)) ++ run_causes (bapply b te) (capply a te) r (idx + 1)
  end.

Definition check_causes (tr : trace) : list (Z * rule) := run_causes base0 caux0 tr 0.

(* the quiet environment of property C07: no connection events, healthy health checks *)
Definition envQ_okb (te : Z * ev) : bool :=
  match snd te with
  | EApi _ call _ _ _ _ _ => negb (call =? aConn)
  | EHealth _ _ res _ _ => zb res
  | _ => true
  end.

Definition envQ_admits (tr : trace) : bool := forallb envQ_okb tr.

(* what the oracle reports as rule violations of a trace: the rules of Proto.v and the three above *)
Definition check_guards2 (tr : trace) : list (Z * rule) := check_guards tr ++ check_causes tr.
