(* Sim/Causes.v — three more local rules about what may end a term, with the little extra state they need kept beside
   the shared state (so that the invariants over [base] are untouched):

     2083  the connection paths (grace period expired, verification after a reconnect failed) give up a claim only after a
           connection notification has been delivered to the instance
     2084  the health path gives up a claim only after the checker has reported unhealthy during the running term
     2085  an acquisition round never gives up a claim (it tests the claim before it steps back)

   Like the rules of Proto.v they are validated on every real trace by the oracle ([check_causes]). In an environment with no
   connection notification and no unhealthy result ([envQ]) they exclude those causes of demotion altogether
   (Proofs/SimCauses.v). *)
From LE Require Import Base Ev World Proto.
Open Scope Z_scope.

Record caux := mkCA { ca_conn : list Z (* instances that have been sent a connection notification *);
                      ca_sick : list Z (* instances whose checker has reported unhealthy in the running term *) }.
Definition caux0 := mkCA [] [].

Definition zmem (i : Z) (l : list Z) : bool := existsb (Z.eqb i) l.

Definition capply (a : caux) (te : Z * ev) : caux :=
  match snd te with
  | EApi i call _ _ _ _ _ => if call =? aConn then mkCA (i :: ca_conn a) (ca_sick a) else a
  | EHealth i _ res _ _ => if zb res then a else mkCA (ca_conn a) (i :: ca_sick a)
  | EFlag i fl _ _ _ => if zb fl then mkCA (ca_conn a) (filter (fun j => negb (j =? i)) (ca_sick a)) else a
  | _ => a
  end.

Definition cause_rules (b : base) (a : caux) (te : Z * ev) : list rule :=
  match snd te with
  | EFlag i fl cause _ _ =>
      let x := inst_of b i in
      when (negb (zb fl) && io_flag x && ((cause =? sGraceExpired) || (cause =? sVerifyFail)) && negb (zmem i (ca_conn a))) 2083 ++
      when (negb (zb fl) && io_flag x && (cause =? sHealthFail) && negb (zmem i (ca_sick a))) 2084 ++
      when (negb (zb fl) && io_flag x && (cause =? sRound)) 2085
  | _ => []
  end.

Fixpoint cadmits (b : base) (a : caux) (tr : trace) : bool :=
  match tr with
  | [] => true
  | te :: r => match cause_rules b a te with [] => cadmits (bapply b te) (capply a te) r | _ => false end
  end.

Fixpoint run_causes (b : base) (a : caux) (tr : trace) (idx : Z) : list (Z * rule) :=
  match tr with
  | [] => []
  | te :: r => (if b_ended b then [] else map (fun g => (idx, g)) (cause_rules b a te)) ++ run_causes (bapply b te) (capply a te) r (idx + 1)
  end.

Definition check_causes (tr : trace) : list (Z * rule) := run_causes base0 caux0 tr 0.

(* the quiet environment of property C07: no connection events, healthy health checks *)
Definition envQ_okb (te : Z * ev) : bool :=
  match snd te with
  | EApi _ call _ _ _ _ _ => negb (call =? aConn)
  | EHealth _ _ res _ _ => zb res
  | _ => true
  end.

Definition envQ_admits (tr : trace) : bool := forallb envQ_okb tr.

(* what the oracle reports as rule violations of a trace: the rules of Proto.v and the three above *)
Definition check_guards2 (tr : trace) : list (Z * rule) := check_guards tr ++ check_causes tr.
