#!/bin/bash
# try_mutant.sh <patch-file> <check-id>... — apply a seeded change to /repo, run the quick checks, undo it.
patch=$1; shift
cd /verif
git -C /repo apply $patch || exit 2
for c in "$@"; do
  echo "== $c"; timeout 1800 bin/check $c --tier quick 2>&1 | grep -E "VIOLATION|KNOWN|OK property|Error|error" | head -5
done
git -C /repo checkout -- .
git -C /repo status --short | head -3
